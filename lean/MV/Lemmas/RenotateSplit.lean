/-
Lemmas for C11: `Chord.split` / `Score.split_too_long_chords`.  `note & 0`, the slicing
`get_melody_between` as a recursion, window merging (a cut note is its head plus
continuations), the chords of the split, and the score-level statement.
-/
import MV.Lemmas.RenotateEvents
namespace MV
open Gen C02

/-! ### note and zero -/
/-! `note & 0`: the value is brought into one octave, the octave absorbs the rest -/

theorem accident_keys : ∀ e ∈ ACCIDENTS_TO_NOTE, 0 ≤ e.1.1 ∧ e.1.1 < 7 := by decide

theorem andInt_kind (n : Note) (k : Int) : (n.andInt k).kind = n.kind := by
  unfold Note.andInt Note.addValue
  cases hk : n.kind <;> simp [hk]

theorem andInt_dur (n : Note) (k : Int) : (n.andInt k).dur = n.dur := by
  unfold Note.andInt Note.addValue
  cases hk : n.kind <;> simp

/-- `n & 0` sounds like `n` -/
theorem andZero_sim (c : Chord) (n : Note) : NoteSim c c n (n.andInt 0) := by
  intro last
  refine ⟨andInt_dur n 0, by rw [andInt_kind], by rw [andInt_kind], ?_⟩
  intro p hp
  cases hk : n.kind with
  | s =>
    have e : n.andInt 0 = { n with val := (n.val + 0) % 7, oct := n.oct + 0 + (n.val + 0) / 7 } := by
      unfold Note.andInt Note.addValue; simp [hk]
    rw [e]
    cases hacc : n.acc with
    | none =>
      rw [← hp]
      unfold noteToPitch basicPitch
      simp only [hk, hacc, Note.realChord]
      have : (n.val + 0) % 7 + 7 * (n.oct + 0 + (n.val + 0) / 7) = n.val + 7 * n.oct := by omega
      rw [this]
    | some a =>
      -- the source has a pitch: its value is a key of the accidental table, already in 0..6
      have hkey : 0 ≤ n.val ∧ n.val < 7 := by
        unfold noteToPitch basicPitch withAccident at hp
        simp only [hk, hacc, bind, Except.bind] at hp
        cases h1 : pyIndex (n.realChord c).scalePitches 0 with
        | error e => rw [h1] at hp; cases hp
        | ok tonic =>
          rw [h1] at hp
          simp only at hp
          cases h2 : lookupKey (n.val, a) ACCIDENTS_TO_NOTE with
          | error e => rw [h2] at hp; cases hp
          | ok d => exact accident_keys _ (lookupKey_mem _ _ _ h2)
      have e1 : (n.val + 0) % 7 = n.val := by omega
      have e2 : n.oct + 0 + (n.val + 0) / 7 = n.oct := by omega
      rw [e1, e2, ← hp]
      apply noteToPitch_fields <;> simp [hacc]
  | h =>
    have e : n.andInt 0 = { n with val := (n.val + 0) % 12, oct := n.oct + 0 + (n.val + 0) / 12 } := by
      unfold Note.andInt Note.addValue; simp [hk]
    rw [e, ← hp]
    unfold noteToPitch basicPitch
    simp only [hk, Note.realChord]
    have : (n.val + 0) % 12 + 12 * (n.oct + 0 + (n.val + 0) / 12) = n.val + 12 * n.oct := by omega
    rw [this]
  | _ =>
    have e : n.andInt 0 = n := by unfold Note.andInt; simp [hk]
    rw [e]; exact hp

theorem andZero_idem (n : Note) : (n.andInt 0).andInt 0 = n.andInt 0 := by
  unfold Note.andInt Note.addValue
  cases hk : n.kind <;> simp only [hk]
  · congr 1 <;> omega
  · congr 1 <;> omega

theorem andZero_continuation (d : Rat) : (continuation d).andInt 0 = continuation d := rfl

theorem andZero_setDur (n : Note) (d : Rat) : ({ n with dur := d } : Note).andInt 0 = { n.andInt 0 with dur := d } := by
  unfold Note.andInt Note.addValue
  cases hk : n.kind <;> simp [hk]

/-! ### melodies that sound the same whatever follows -/
/-! melodies that sound the same whatever follows them -/

/-- `m1` renders whenever `m2` does, to rows that read the same from every state, with the
same last pitch -/
def RowsEq (c : Chord) (idx : Nat) (m1 m2 : Melody) : Prop :=
  ∀ time last rows l1, melodyToRows m2 c idx time last = .ok (rows, l1) →
    ∃ rows', melodyToRows m1 c idx time last = .ok (rows', l1) ∧ ∀ acc, runRows acc rows' = runRows acc rows

def MelEq (c : Chord) (idx : Nat) (m1 m2 : Melody) : Prop := ∀ tail, RowsEq c idx (m1 ++ tail) (m2 ++ tail)

theorem rowsEq_refl (c : Chord) (idx : Nat) (m : Melody) : RowsEq c idx m m :=
  fun _ _ rows _ h => ⟨rows, h, fun _ => rfl⟩

theorem melEq_refl (c : Chord) (idx : Nat) (m : Melody) : MelEq c idx m m := fun _ => rowsEq_refl c idx _

theorem rowsEq_trans (c : Chord) (idx : Nat) (m1 m2 m3 : Melody) (h1 : RowsEq c idx m1 m2) (h2 : RowsEq c idx m2 m3) :
    RowsEq c idx m1 m3 := by
  intro time last rows l1 h
  obtain ⟨r2, hr2, ha2⟩ := h2 time last rows l1 h
  obtain ⟨r1, hr1, ha1⟩ := h1 time last r2 l1 hr2
  exact ⟨r1, hr1, fun acc => by rw [ha1, ha2]⟩

theorem melEq_trans (c : Chord) (idx : Nat) (m1 m2 m3 : Melody) (h1 : MelEq c idx m1 m2) (h2 : MelEq c idx m2 m3) :
    MelEq c idx m1 m3 := fun tail => rowsEq_trans c idx _ _ _ (h1 tail) (h2 tail)

theorem rowsEq_cons (c : Chord) (idx : Nat) (x : Note) (m1 m2 : Melody) (h : RowsEq c idx m1 m2) :
    RowsEq c idx (x :: m1) (x :: m2) := by
  intro time last rows l1 hr
  simp only [melodyToRows, bind, Except.bind, pure, Except.pure] at hr ⊢
  cases hrow : noteToRow x c idx time last with
  | error e => rw [hrow] at hr; cases hr
  | ok v =>
    obtain ⟨row, l2⟩ := v
    rw [hrow] at hr
    simp only at hr ⊢
    cases hrs : melodyToRows m2 c idx (time + x.dur) l2 with
    | error e => rw [hrs] at hr; cases hr
    | ok w =>
      obtain ⟨rs, l3⟩ := w
      rw [hrs] at hr
      simp only at hr
      injection hr with hr; injection hr with h1 h2; subst h1; subst h2
      obtain ⟨rs', hrs', ha⟩ := h _ _ rs l3 hrs
      rw [hrs']
      refine ⟨row :: rs', rfl, fun acc => ?_⟩
      have e1 : row :: rs' = [row] ++ rs' := rfl
      have e2 : row :: rs = [row] ++ rs := rfl
      rw [e1, e2, runRows_append, runRows_append, ha]

theorem melEq_cons (c : Chord) (idx : Nat) (x : Note) (m1 m2 : Melody) (h : MelEq c idx m1 m2) :
    MelEq c idx (x :: m1) (x :: m2) := fun tail => rowsEq_cons c idx x _ _ (h tail)

theorem melEq_append_left (c : Chord) (idx : Nat) (a m1 m2 : Melody) (h : MelEq c idx m1 m2) :
    MelEq c idx (a ++ m1) (a ++ m2) := by
  induction a with
  | nil => exact h
  | cons x r ih => exact melEq_cons c idx x _ _ ih

theorem melEq_append_right (c : Chord) (idx : Nat) (m1 m2 b : Melody) (h : MelEq c idx m1 m2) :
    MelEq c idx (m1 ++ b) (m2 ++ b) := by
  intro tail
  rw [List.append_assoc, List.append_assoc]
  exact h (b ++ tail)

/-- a note cut in two: its head, then a continuation for the rest -/
theorem melEq_cut (c : Chord) (idx : Nat) (n : Note) (d1 d2 : Rat) (h : d1 + d2 = n.dur) :
    MelEq c idx [{ n with dur := d1 }, continuation d2] [n] := by
  intro tail time last rows l1 hr
  simp only [List.cons_append, List.nil_append] at hr
  simp only [melodyToRows, bind, Except.bind, pure, Except.pure] at hr
  cases hrow : noteToRow n c idx time last with
  | error e => rw [hrow] at hr; cases hr
  | ok v =>
    obtain ⟨row, l2⟩ := v
    rw [hrow] at hr
    simp only at hr
    cases hrs : melodyToRows tail c idx (time + n.dur) l2 with
    | error e => rw [hrs] at hr; cases hr
    | ok w =>
      obtain ⟨rs, l3⟩ := w
      rw [hrs] at hr
      simp only at hr
      injection hr with hr; injection hr with h1 h2; subst h1; subst h2
      have hsum : d1 + sumRat [d2] = n.dur := by
        rw [sumRat_cons]; unfold sumRat; simp only [List.foldl_nil]; grind
      have hb := block_rows c c ⟨⟨rfl, rfl, rfl⟩, rfl⟩ idx time last n d1 [d2] hsum row l2 hrow tail
      simp only [List.map_cons, List.map_nil] at hb
      have : [{ n with dur := d1 }, continuation d2] ++ tail = ({ n with dur := d1 } :: [continuation d2]) ++ tail := rfl
      rw [this, hb, hrs]
      refine ⟨_, rfl, fun acc => ?_⟩
      have e1 : ({ row with dur := d1 } :: (contRows idx l2 (time + d1) [d2] ++ rs))
          = ({ row with dur := d1 } :: contRows idx l2 (time + d1) [d2]) ++ rs := by simp
      have e2 : row :: rs = [row] ++ rs := rfl
      rw [e1, e2, runRows_append, runRows_append, block_sound acc n c idx time last row l2 hrow d1 [d2] hsum]

/-! ### get_melody_between as a recursion -/
/-- `get_melody_between(voice, a, b)` as a plain recursion over the melody from `time` -/
def winFrom (a b : Rat) : Rat → Melody → Melody
  | _, [] => []
  | time, n :: r =>
      if time ≥ b then []
      else if time < a ∧ time + n.dur ≤ a then winFrom a b (time + n.dur) r
      else
        let e := time + n.dur
        let hi := if e ≥ b then b else e
        let head := if time < a then continuation (hi - a) else { n with dur := hi - time }
        head :: (if e ≥ b then [] else winFrom a b e r)

theorem go_eq (a b : Rat) (hab : a < b) (m : Melody) (hpos : ∀ n ∈ m, 0 ≤ n.dur) (time : Rat) (acc : Melody) :
    getMelodyBetween.go a b m time acc = .ok (acc ++ winFrom a b time m) := by
  induction m generalizing time acc with
  | nil => simp [getMelodyBetween.go, winFrom]; rfl
  | cons n r ih =>
    have hr : ∀ x ∈ r, 0 ≤ x.dur := fun x hx => hpos x (by simp [hx])
    have hn : 0 ≤ n.dur := hpos n (by simp)
    simp only [getMelodyBetween.go, winFrom]
    by_cases h1 : time ≥ b
    · simp [h1]; rfl
    · simp only [h1, if_false]
      by_cases h2 : time < a ∧ time + n.dur ≤ a
      · simp only [h2, and_self, if_true]
        exact ih hr _ _
      · simp only [h2, if_false]
        by_cases h3 : time + n.dur ≥ b
        · simp only [h3, decide_true, if_true]
          by_cases h4 : time < a
          · simp only [h4, decide_true, if_true]
            have e1 : b - time - (a - time) = b - a := by grind
            have e2 : ¬ (b - a < 0) := by grind
            simp only [e1, e2, if_false, pure, Except.pure]
          · simp only [h4, decide_false, Bool.false_eq_true, if_false]
            have e2 : ¬ (b - time < 0) := by grind
            simp only [e2, if_false, pure, Except.pure]
        · simp only [h3, decide_false, Bool.false_eq_true, if_false]
          by_cases h4 : time < a
          · simp only [h4, decide_true, if_true]
            have e1 : n.dur - (a - time) = time + n.dur - a := by grind
            have e2 : ¬ (n.dur - (a - time) < 0) := by grind
            have e3 : a + (n.dur - (a - time)) = time + n.dur := by grind
            simp only [e2, if_false, e3]
            rw [ih hr, e1]
            simp
          · simp only [h4, decide_false, Bool.false_eq_true, if_false]
            have e2 : ¬ (n.dur < 0) := by grind
            have e1 : time + n.dur - time = n.dur := by grind
            simp only [e2, if_false]
            rw [ih hr, e1]
            simp

theorem getMelodyBetween_eq (m : Melody) (a b : Rat) (hab : a < b) (hpos : ∀ n ∈ m, 0 ≤ n.dur) :
    getMelodyBetween m a b = .ok (winFrom a b 0 m) := by
  unfold getMelodyBetween
  rw [go_eq a b hab m hpos]; rfl

/-! ### windows: start, full window -/
def PosDur (m : Melody) : Prop := ∀ n ∈ m, 0 < n.dur

theorem posDur_tail (n : Note) (r : Melody) (h : PosDur (n :: r)) : PosDur r ∧ 0 < n.dur :=
  ⟨fun x hx => h x (by simp [hx]), h n (by simp)⟩

/-- once past the start of the window, the start does not matter -/
theorem winFrom_start (a a' b : Rat) (m : Melody) (hp : PosDur m) (time : Rat) (h1 : a ≤ time) (h2 : a' ≤ time) :
    winFrom a b time m = winFrom a' b time m := by
  induction m generalizing time with
  | nil => rfl
  | cons n r ih =>
    obtain ⟨hr, hn⟩ := posDur_tail n r hp
    have c1 : ¬ time < a := by grind
    have c2 : ¬ time < a' := by grind
    simp only [winFrom, c1, c2, false_and, if_false]
    rw [ih hr (time + n.dur) (by grind) (by grind)]

/-- the window that covers the rest of the melody is the rest of the melody -/
theorem winFrom_full (a b : Rat) (m : Melody) (hp : PosDur m) (time : Rat) (h1 : a ≤ time)
    (hb : b = time + melodyDuration m) (hne : m ≠ []) : winFrom a b time m = m := by
  induction m generalizing time with
  | nil => exact absurd rfl hne
  | cons n r ih =>
    obtain ⟨hr, hn⟩ := posDur_tail n r hp
    have hd : melodyDuration (n :: r) = n.dur + melodyDuration r := by
      unfold melodyDuration; simp only [List.map_cons, sumRat_cons]
    have hnonneg : 0 ≤ melodyDuration r := by
      unfold melodyDuration
      clear ih hd hb hne hp
      induction r with
      | nil => unfold sumRat; simp
      | cons x xs ihx =>
        simp only [List.map_cons, sumRat_cons]
        have := ihx (fun y hy => hr y (by simp [hy]))
        have := hr x (by simp)
        grind
    have c0 : ¬ time ≥ b := by grind
    have c1 : ¬ time < a := by grind
    simp only [winFrom, c0, c1, false_and, if_false]
    cases r with
    | nil =>
      have hz : melodyDuration ([] : Melody) = 0 := by unfold melodyDuration sumRat; simp
      have c2 : time + n.dur ≥ b := by rw [hb, hd, hz]; grind
      simp only [c2, if_true]
      have : b - time = n.dur := by rw [hb, hd, hz]; grind
      rw [this]
    | cons x xs =>
      have hx : 0 < x.dur := hr x (by simp)
      have hd2 : melodyDuration (x :: xs) = x.dur + melodyDuration xs := by
        unfold melodyDuration; simp only [List.map_cons, sumRat_cons]
      have hnn2 : 0 ≤ melodyDuration xs := by
        unfold melodyDuration
        clear ih hd hb hne hp hnonneg hd2
        induction xs with
        | nil => unfold sumRat; simp
        | cons y ys ihy =>
          simp only [List.map_cons, sumRat_cons]
          have := ihy (fun z hz => hr z (by simp at hz ⊢; rcases hz with h | h <;> simp [h]))
          have := hr y (by simp)
          grind
      have c2 : ¬ time + n.dur ≥ b := by rw [hb, hd, hd2]; grind
      simp only [c2, if_false]
      have : time + n.dur - time = n.dur := by grind
      rw [this, ih hr (time + n.dur) (by grind) (by rw [hb, hd]; grind) (by simp)]

/-! ### windows: durations -/
theorem melodyDuration_cons (n : Note) (r : Melody) : melodyDuration (n :: r) = n.dur + melodyDuration r := by
  unfold melodyDuration; simp only [List.map_cons, sumRat_cons]

theorem melodyDuration_nil : melodyDuration ([] : Melody) = 0 := by unfold melodyDuration sumRat; simp

theorem melodyDuration_nonneg (m : Melody) (hp : PosDur m) : 0 ≤ melodyDuration m := by
  induction m with
  | nil => rw [melodyDuration_nil]; grind
  | cons n r ih =>
    obtain ⟨hr, hn⟩ := posDur_tail n r hp
    rw [melodyDuration_cons]
    have := ih hr
    grind

/-- a window that starts at or before `time` and ends inside the melody lasts to its end -/
theorem winFrom_duration_past (a b : Rat) (m : Melody) (hp : PosDur m) (time : Rat) (h1 : a ≤ time)
    (h2 : time ≤ b) (h3 : b ≤ time + melodyDuration m) : melodyDuration (winFrom a b time m) = b - time := by
  induction m generalizing time with
  | nil =>
    rw [melodyDuration_nil] at h3
    simp only [winFrom, melodyDuration_nil]; grind
  | cons n r ih =>
    obtain ⟨hr, hn⟩ := posDur_tail n r hp
    rw [melodyDuration_cons] at h3
    have c1 : ¬ time < a := by grind
    by_cases c0 : time ≥ b
    · simp only [winFrom, c0, if_true, melodyDuration_nil]; grind
    · simp only [winFrom, c0, c1, false_and, if_false]
      by_cases c2 : time + n.dur ≥ b
      · simp only [c2, if_true, melodyDuration_cons, melodyDuration_nil]; grind
      · simp only [c2, if_false, melodyDuration_cons]
        rw [ih hr (time + n.dur) (by grind) (by grind) (by grind)]; grind

/-- a window inside the melody lasts `b - a` -/
theorem winFrom_duration (a b : Rat) (hab : a < b) (m : Melody) (hp : PosDur m) (time : Rat) (h1 : time ≤ a)
    (h3 : b ≤ time + melodyDuration m) : melodyDuration (winFrom a b time m) = b - a := by
  induction m generalizing time with
  | nil => rw [melodyDuration_nil] at h3; grind
  | cons n r ih =>
    obtain ⟨hr, hn⟩ := posDur_tail n r hp
    rw [melodyDuration_cons] at h3
    have c0 : ¬ time ≥ b := by grind
    by_cases c1 : time < a ∧ time + n.dur ≤ a
    · simp only [winFrom, c0, c1, and_self, if_true, if_false]
      exact ih hr (time + n.dur) c1.2 (by grind)
    · simp only [winFrom, c0, c1, if_false]
      by_cases c2 : time + n.dur ≥ b
      · simp only [c2, if_true, melodyDuration_cons, melodyDuration_nil]
        by_cases c3 : time < a
        · simp only [c3, if_true]; show (b - a) + 0 = b - a; grind
        · simp only [c3, if_false]; show (b - time) + 0 = b - a; grind
      · simp only [c2, if_false, melodyDuration_cons]
        have hpast := winFrom_duration_past a b r hr (time + n.dur) (by grind) (by grind) (by grind)
        rw [hpast]
        by_cases c3 : time < a
        · simp only [c3, if_true]; show (time + n.dur - a) + _ = _; grind
        · simp only [c3, if_false]; show (time + n.dur - time) + _ = _; grind

/-- the notes of a window are notes of the melody (shortened) or continuations -/
theorem winFrom_andZero (a b : Rat) (m : Melody) (h : ∀ n ∈ m, n.andInt 0 = n) (time : Rat) :
    ∀ x ∈ winFrom a b time m, x.andInt 0 = x := by
  induction m generalizing time with
  | nil => intro x hx; simp [winFrom] at hx
  | cons n r ih =>
    have hr : ∀ x ∈ r, x.andInt 0 = x := fun x hx => h x (by simp [hx])
    intro x hx
    simp only [winFrom] at hx
    split at hx
    · cases hx
    · split at hx
      · exact ih hr _ x hx
      · rcases List.mem_cons.mp hx with rfl | hx
        · split
          · rfl
          · rw [andZero_setDur, h n (by simp)]
        · split at hx
          · cases hx
          · exact ih hr _ x hx

/-! ### windows: merging -/
/-- **two consecutive windows sound like their union**: the note that crosses the boundary is
its head in the first window and a continuation in the second -/
theorem winFrom_merge (ch : Chord) (idx : Nat) (a b c : Rat) (hab : a < b) (hbc : b < c) (m : Melody)
    (hp : PosDur m) (time : Rat) :
    MelEq ch idx (winFrom a b time m ++ winFrom b c time m) (winFrom a c time m) := by
  induction m generalizing time with
  | nil => exact melEq_refl ch idx _
  | cons n r ih =>
    obtain ⟨hr, hn⟩ := posDur_tail n r hp
    by_cases h1 : time ≥ c
    · have h1b : time ≥ b := by grind
      simp only [winFrom, h1, h1b, if_true, List.append_nil]
      exact melEq_refl ch idx _
    · by_cases h2 : time < a ∧ time + n.dur ≤ a
      · have h2b : ¬ time ≥ b := by grind
        have h2c : time < b ∧ time + n.dur ≤ b := by constructor <;> grind
        simp only [winFrom, h1, h2, h2b, h2c, and_self, if_true, if_false]
        exact ih hr _
      · by_cases h3 : time ≥ b
        · -- the first window is over
          have h3a : ¬ time < a := by grind
          have h3b : ¬ time < b := by grind
          simp only [winFrom, h1, h3, h3a, h3b, false_and, if_true, if_false, List.nil_append]
          by_cases h4 : time + n.dur ≥ c
          · simp only [h4, if_true]; exact melEq_refl ch idx _
          · simp only [h4, if_false]
            rw [winFrom_start b a c r hr (time + n.dur) (by grind) (by grind)]
            exact melEq_refl ch idx _
        · by_cases h4 : time + n.dur ≥ b
          · -- the note reaches the boundary
            by_cases h5 : time + n.dur = b
            · -- … and ends exactly there
              have h5b : time < b ∧ time + n.dur ≤ b := by constructor <;> grind
              have h5c : ¬ time + n.dur ≥ c := by grind
              simp only [winFrom, h1, h2, h3, h4, h5b, h5c, and_self, if_true, if_false]
              rw [winFrom_start b a c r hr (time + n.dur) (by grind) (by grind), h5]
              exact melEq_refl ch idx _
            · -- … and crosses it
              have h5c : time < b := by grind
              have h5d : ¬ time + n.dur ≤ b := by grind
              simp only [winFrom, h1, h2, h3, h4, h5c, h5d, and_false, if_true, if_false]
              by_cases h6 : time + n.dur ≥ c
              · simp only [h6, if_true]
                by_cases h7 : time < a
                · simp only [h7, if_true]
                  exact melEq_cut ch idx (continuation (c - a)) (b - a) (c - b) (by show b - a + (c - b) = c - a; grind)
                · simp only [h7, if_false]
                  exact melEq_cut ch idx { n with dur := c - time } (b - time) (c - b)
                    (by show b - time + (c - b) = c - time; grind)
              · simp only [h6, if_false]
                rw [winFrom_start b a c r hr (time + n.dur) (by grind) (by grind)]
                by_cases h7 : time < a
                · simp only [h7, if_true]
                  have := melEq_cut ch idx (continuation (time + n.dur - a)) (b - a) (time + n.dur - b)
                    (by show b - a + (time + n.dur - b) = time + n.dur - a; grind)
                  exact melEq_append_right ch idx _ _ (winFrom a c (time + n.dur) r) this
                · simp only [h7, if_false]
                  have := melEq_cut ch idx { n with dur := time + n.dur - time } (b - time) (time + n.dur - b)
                    (by show b - time + (time + n.dur - b) = time + n.dur - time; grind)
                  exact melEq_append_right ch idx _ _ (winFrom a c (time + n.dur) r) this
          · -- the note ends before the boundary: same head, the second window skips it
            have h4b : time < b ∧ time + n.dur ≤ b := by constructor <;> grind
            have h4c : ¬ time + n.dur ≥ c := by grind
            simp only [winFrom, h1, h2, h3, h4, h4b, h4c, and_self, if_true, if_false, List.cons_append]
            exact melEq_cons ch idx _ _ _ (ih hr _)

/-! ### windows along a template -/
/-- the windows of a melody along a template of durations, from `s` -/
def pieces (m : Melody) : Rat → List Rat → List Melody
  | _, [] => []
  | s, d :: ds => winFrom s (s + d) 0 m :: pieces m (s + d) ds

theorem sumRat_nonneg (ds : List Rat) (h : ∀ d ∈ ds, 0 < d) : 0 ≤ sumRat ds := by
  induction ds with
  | nil => unfold sumRat; simp
  | cons d r ih =>
    rw [sumRat_cons]
    have := ih (fun x hx => h x (by simp [hx]))
    have := h d (by simp)
    grind

/-- **the windows along a template sound like the window over their union** -/
theorem pieces_merge (ch : Chord) (idx : Nat) (m : Melody) (hp : PosDur m) (ds : List Rat) (hne : ds ≠ [])
    (hpos : ∀ d ∈ ds, 0 < d) (s : Rat) :
    MelEq ch idx (pieces m s ds).flatten (winFrom s (s + sumRat ds) 0 m) := by
  induction ds generalizing s with
  | nil => exact absurd rfl hne
  | cons d r ih =>
    have hd : 0 < d := hpos d (by simp)
    have hr : ∀ x ∈ r, 0 < x := fun x hx => hpos x (by simp [hx])
    cases r with
    | nil =>
      simp only [pieces, List.flatten_cons, List.flatten_nil, List.append_nil, sumRat_cons]
      have : sumRat ([] : List Rat) = 0 := by unfold sumRat; simp
      rw [this]
      have : d + 0 = d := by grind
      rw [this]
      exact melEq_refl ch idx _
    | cons d' r' =>
      have hd' : 0 < d' := hr d' (by simp)
      have ih' := ih (by simp) hr (s + d)
      have hsum : 0 < sumRat (d' :: r') := by
        rw [sumRat_cons]
        have := sumRat_nonneg r' (fun x hx => hr x (by simp [hx]))
        grind
      have e : s + sumRat (d :: d' :: r') = s + d + sumRat (d' :: r') := by rw [sumRat_cons]; grind
      rw [e]
      simp only [pieces, List.flatten_cons] at ih' ⊢
      refine melEq_trans ch idx _ _ _ (melEq_append_left ch idx _ _ _ ih') ?_
      exact winFrom_merge ch idx s (s + d) (s + d + sumRat (d' :: r')) (by grind) (by grind) m hp 0

theorem melodyToRows_append (a b : Melody) (c : Chord) (idx : Nat) (time : Rat) (last : Option Int) :
    melodyToRows (a ++ b) c idx time last =
      (melodyToRows a c idx time last).bind (fun v =>
        (melodyToRows b c idx (time + melodyDuration a) v.2).bind (fun w => .ok (v.1 ++ w.1, w.2))) := by
  induction a generalizing time last with
  | nil =>
    simp only [List.nil_append, melodyToRows, pure, Except.pure, Except.bind, melodyDuration_nil]
    have : time + 0 = time := by grind
    rw [this]
    cases melodyToRows b c idx time last <;> rfl
  | cons n r ih =>
    simp only [List.cons_append, melodyToRows, bind, Except.bind, pure, Except.pure]
    cases hrow : noteToRow n c idx time last with
    | error e => rfl
    | ok v =>
      obtain ⟨row, l2⟩ := v
      simp only
      rw [ih]
      have : time + n.dur + melodyDuration r = time + melodyDuration (n :: r) := by rw [melodyDuration_cons]; grind
      rw [this]
      cases melodyToRows r c idx (time + n.dur) l2 with
      | error e => rfl
      | ok w =>
        obtain ⟨rs, l3⟩ := w
        simp only [Except.bind]
        cases melodyToRows b c idx (time + melodyDuration (n :: r)) l3 with
        | error e => rfl
        | ok u => rfl

/-! ### the chords of a split along one track -/
/-- the chords cut out of `c0` along a template of durations, from `s` -/
def pieceChords (c0 : Chord) : Rat → List Rat → List Chord
  | _, [] => []
  | s, d :: ds => c0.withParts (c0.parts.map (fun p => (p.1, winFrom s (s + d) 0 p.2))) :: pieceChords c0 (s + d) ds

theorem lookup_map_snd (ps : List (String × Melody)) (f : Melody → Melody) (t : String) :
    (ps.map (fun p => (p.1, f p.2))).lookup t = (ps.lookup t).map f := by
  induction ps with
  | nil => rfl
  | cons a r ih =>
    obtain ⟨k, m⟩ := a
    simp only [List.map_cons, List.lookup_cons]
    cases (t == k) with
    | true => rfl
    | false => exact ih

/-- a chord fit for splitting: it has parts, and every part has positive note durations and
lasts exactly `D` -/
def SplitOK (c : Chord) (D : Rat) : Prop :=
  c.parts ≠ [] ∧ ∀ p ∈ c.parts, PosDur p.2 ∧ melodyDuration p.2 = D

theorem dmax_const (l : List (String × Melody)) (hne : l ≠ []) (d : Rat) (f : String × Melody → Rat)
    (h : ∀ p ∈ l, f p = d) : dmax (l.map f) = d := by
  cases l with
  | nil => exact absurd rfl hne
  | cons a r =>
    have : (a :: r).map f = List.replicate (a :: r).length d := by
      rw [← map_const_replicate]
      exact List.map_congr_left h
    rw [this]
    simp only [List.length_cons, List.replicate_succ, dmax]
    exact foldl_max_self d r.length

theorem piece_dur (c0 : Chord) (D : Rat) (hok : SplitOK c0 D) (s d : Rat) (hs : 0 ≤ s) (hd : 0 < d) (hsd : s + d ≤ D) :
    (c0.withParts (c0.parts.map (fun p => (p.1, winFrom s (s + d) 0 p.2)))).dur = d := by
  rw [dur_eq_dmax]
  simp only [Chord.withParts, List.map_map]
  apply dmax_const _ hok.1
  intro p hp
  obtain ⟨h1, h2⟩ := hok.2 p hp
  simp only [Function.comp]
  have := winFrom_duration s (s + d) (by grind) p.2 h1 0 hs (by rw [h2]; grind)
  rw [this]; grind

theorem pieces_present (c0 : Chord) (D : Rat) (hok : SplitOK c0 D) (t : String) (idx : Nat) (m0 : Melody)
    (hl : c0.parts.lookup t = some m0) (ds : List Rat) (hpos : ∀ d ∈ ds, 0 < d) (s : Rat) (hs : 0 ≤ s)
    (hsum : s + sumRat ds ≤ D) (X : Score) (time : Rat) (last : Option Int) :
    trackRows t idx (pieceChords c0 s ds ++ X) time last =
      (melodyToRows (pieces m0 s ds).flatten c0 idx time last).bind (fun v =>
        (trackRows t idx X (time + sumRat ds) v.2).bind (fun rest => .ok (v.1 ++ rest))) := by
  induction ds generalizing s time last with
  | nil =>
    simp only [pieceChords, pieces, List.nil_append, List.flatten_nil, melodyToRows, pure, Except.pure, Except.bind]
    have : sumRat ([] : List Rat) = 0 := by unfold sumRat; simp
    rw [this]
    have : time + 0 = time := by grind
    rw [this]
    cases trackRows t idx X time last <;> simp
  | cons d r ih =>
    have hd : 0 < d := hpos d (by simp)
    have hr : ∀ x ∈ r, 0 < x := fun x hx => hpos x (by simp [hx])
    have hnn := sumRat_nonneg r hr
    rw [sumRat_cons] at hsum
    simp only [pieceChords, pieces, List.cons_append, List.flatten_cons, trackRows]
    have hlook : (c0.withParts (c0.parts.map (fun p => (p.1, winFrom s (s + d) 0 p.2)))).parts.lookup t
        = some (winFrom s (s + d) 0 m0) := by
      show (c0.parts.map (fun p => (p.1, winFrom s (s + d) 0 p.2))).lookup t = _
      rw [lookup_map_snd, hl]; rfl
    rw [hlook]
    simp only
    rw [piece_dur c0 D hok s d hs hd (by grind)]
    rw [melodyToRows_append]
    -- same harmony: the rows of a melody do not depend on the parts of the chord
    have hcongr : ∀ (q : Melody) (tm : Rat) (l : Option Int),
        melodyToRows q (c0.withParts (c0.parts.map (fun p => (p.1, winFrom s (s + d) 0 p.2)))) idx tm l
          = melodyToRows q c0 idx tm l := by
      intro q
      induction q with
      | nil => intro tm l; rfl
      | cons x xs ihx =>
        intro tm l
        simp only [melodyToRows]
        have : noteToRow x (c0.withParts (c0.parts.map (fun p => (p.1, winFrom s (s + d) 0 p.2)))) idx tm l
            = noteToRow x c0 idx tm l := by
          unfold noteToRow; rw [noteToPitch_congr _ _ (sameHead_withParts c0 _)]
        rw [this]
        simp only [bind, Except.bind]
        cases noteToRow x c0 idx tm l with
        | error e => rfl
        | ok v => simp only [ihx]
    rw [hcongr]
    have hmd : melodyDuration (winFrom s (s + d) 0 m0) = d := by
      have hmem : (t, m0) ∈ c0.parts := by
        obtain ⟨l1, l2, e, _⟩ := List.lookup_eq_some_iff.mp hl
        rw [e]; simp
      obtain ⟨h1, h2⟩ := hok.2 (t, m0) hmem
      have := winFrom_duration s (s + d) (by grind) m0 h1 0 hs (by rw [h2]; grind)
      rw [this]; grind
    rw [hmd]
    simp only [bind, Except.bind, sumRat_cons]
    have e3 : time + d + sumRat r = time + (d + sumRat r) := by grind
    cases melodyToRows (winFrom s (s + d) 0 m0) c0 idx time last with
    | error e => rfl
    | ok v =>
      simp only
      rw [ih hr (s + d) (by grind) (by grind), e3]
      simp only [Except.bind]
      cases melodyToRows (pieces m0 (s + d) r).flatten c0 idx (time + d) v.2 with
      | error e => rfl
      | ok w =>
        simp only
        cases trackRows t idx X (time + (d + sumRat r)) w.2 with
        | error e => rfl
        | ok rest => simp [pure, Except.pure]

theorem pieces_absent (c0 : Chord) (D : Rat) (hok : SplitOK c0 D) (t : String) (idx : Nat)
    (hl : c0.parts.lookup t = none) (ds : List Rat) (hne : ds ≠ []) (hpos : ∀ d ∈ ds, 0 < d) (s : Rat) (hs : 0 ≤ s)
    (hsum : s + sumRat ds ≤ D) (X : Score) (time : Rat) (last : Option Int) :
    trackRows t idx (pieceChords c0 s ds ++ X) time last = trackRows t idx X (time + sumRat ds) none := by
  induction ds generalizing s time last with
  | nil => exact absurd rfl hne
  | cons d r ih =>
    have hd : 0 < d := hpos d (by simp)
    have hr : ∀ x ∈ r, 0 < x := fun x hx => hpos x (by simp [hx])
    have hnn := sumRat_nonneg r hr
    rw [sumRat_cons] at hsum
    simp only [pieceChords, List.cons_append, trackRows]
    have hlook : (c0.withParts (c0.parts.map (fun p => (p.1, winFrom s (s + d) 0 p.2)))).parts.lookup t = none := by
      show (c0.parts.map (fun p => (p.1, winFrom s (s + d) 0 p.2))).lookup t = _
      rw [lookup_map_snd, hl]; rfl
    rw [hlook]
    simp only
    rw [piece_dur c0 D hok s d hs hd (by grind), sumRat_cons]
    cases r with
    | nil =>
      simp only [pieceChords, List.nil_append]
      have : sumRat ([] : List Rat) = 0 := by unfold sumRat; simp
      rw [this]
      have : time + (d + 0) = time + d := by grind
      rw [this]
    | cons d' r' =>
      rw [ih (by simp) hr (s + d) (by grind) (by grind)]
      have : time + d + sumRat (d' :: r') = time + (d + sumRat (d' :: r')) := by grind
      rw [this]

/-! ### the chords of a split sound like the chord -/
/-- `s1` renders track `t` whenever `s2` does, to rows that read the same from every state -/
def TrackEq (t : String) (idx : Nat) (s1 s2 : Score) : Prop :=
  ∀ time last rows, trackRows t idx s2 time last = .ok rows →
    ∃ rows', trackRows t idx s1 time last = .ok rows' ∧ ∀ acc, runRows acc rows' = runRows acc rows

theorem trackEq_refl (t : String) (idx : Nat) (s : Score) : TrackEq t idx s s :=
  fun _ _ rows h => ⟨rows, h, fun _ => rfl⟩

theorem trackEq_cons (t : String) (idx : Nat) (c : Chord) (X X' : Score) (h : TrackEq t idx X X') :
    TrackEq t idx (c :: X) (c :: X') := by
  intro time last rows hr
  simp only [trackRows] at hr ⊢
  cases hl : c.parts.lookup t with
  | none =>
    rw [hl] at hr
    simp only at hr ⊢
    exact h _ _ rows hr
  | some m =>
    rw [hl] at hr
    simp only [bind, Except.bind, pure, Except.pure] at hr ⊢
    cases hm : melodyToRows m c idx time last with
    | error e => rw [hm] at hr; cases hr
    | ok v =>
      rw [hm] at hr
      simp only at hr ⊢
      cases hx : trackRows t idx X' (time + c.dur) v.2 with
      | error e => rw [hx] at hr; cases hr
      | ok rest =>
        rw [hx] at hr
        simp only at hr
        injection hr with hr; subst hr
        obtain ⟨rest', hr', ha⟩ := h _ _ rest hx
        rw [hr']
        exact ⟨v.1 ++ rest', rfl, fun acc => by rw [runRows_append, runRows_append, ha]⟩

theorem runRows_core (acc : List (Int × Rat × Rat) × Bool) (r1 r2 : List Row) (h : r1.map Row.core = r2.map Row.core) :
    runRows acc r1 = runRows acc r2 := by
  unfold runRows; rw [h]

theorem andZero_all2 (c : Chord) (m : Melody) : All2 (NoteSim c c) m (m.map (fun n => n.andInt 0)) :=
  all2_map _ _ (fun n => andZero_sim c n) m

theorem map_andZero_posDur (m : Melody) (h : PosDur m) : PosDur (m.map (fun n => n.andInt 0)) := by
  intro x hx
  obtain ⟨n, hn, rfl⟩ := List.mem_map.mp hx
  rw [andInt_dur]; exact h n hn

theorem map_andZero_duration (m : Melody) : melodyDuration (m.map (fun n => n.andInt 0)) = melodyDuration m := by
  unfold melodyDuration
  simp only [List.map_map]
  congr 1
  apply List.map_congr_left
  intro n _
  simp only [Function.comp, andInt_dur]

theorem all2_noteSim_head (c c' : Chord) (hh : SameHead c' c) (m m' : Melody) (h : All2 (NoteSim c c) m m') :
    All2 (NoteSim c c') m m' := by
  induction h with
  | nil => exact All2.nil
  | cons h1 _ ih =>
    refine All2.cons ?_ ih
    intro lst
    obtain ⟨a1, a2, a3, a4⟩ := h1 lst
    exact ⟨a1, a2, a3, fun p hp' => by rw [noteToPitch_congr _ _ hh]; exact a4 p hp'⟩

/-- the chord `c & 0` is fit for splitting when `c` is -/
theorem splitOK_andZero (c : Chord) (D : Rat) (h : SplitOK c D) : SplitOK (c.andInt 0) D := by
  refine ⟨?_, ?_⟩
  · show c.parts.map _ ≠ []
    intro he
    exact h.1 (List.map_eq_nil_iff.mp he)
  · intro p hp
    have : p ∈ c.parts.map (fun p => (p.1, p.2.map (fun n => n.andInt 0))) := hp
    obtain ⟨q, hq, rfl⟩ := List.mem_map.mp this
    obtain ⟨h1, h2⟩ := h.2 q hq
    exact ⟨map_andZero_posDur q.2 h1, by simp only; rw [map_andZero_duration, h2]⟩

/-- **the chords cut out of `c & 0` along a template that covers `c` sound like `c`, along
every track and whatever follows** -/
theorem split_block_trackEq (c : Chord) (D : Rat) (hD : c.dur = D) (hok : SplitOK c D) (ds : List Rat) (hne : ds ≠ [])
    (hpos : ∀ d ∈ ds, 0 < d) (hsum : sumRat ds = D) (t : String) (idx : Nat) (X X' : Score) (hX : TrackEq t idx X X') :
    TrackEq t idx (pieceChords (c.andInt 0) 0 ds ++ X) (c :: X') := by
  have hok0 := splitOK_andZero c D hok
  intro time last rows hr
  simp only [trackRows] at hr
  have hlook0 : (c.andInt 0).parts.lookup t = (c.parts.lookup t).map (fun m => m.map (fun n => n.andInt 0)) := by
    show (c.parts.map (fun p => (p.1, p.2.map (fun n => n.andInt 0)))).lookup t = _
    exact lookup_map_snd c.parts _ t
  cases hl : c.parts.lookup t with
  | none =>
    rw [hl] at hr hlook0
    simp only at hr
    rw [pieces_absent (c.andInt 0) D hok0 t idx hlook0 ds hne hpos 0 (by grind) (by rw [hsum]; grind) X time last,
      hsum, ← hD]
    exact hX _ _ rows hr
  | some m =>
    rw [hl] at hr hlook0
    simp only [bind, Except.bind, pure, Except.pure] at hr
    cases hm : melodyToRows m c idx time last with
    | error e => rw [hm] at hr; cases hr
    | ok v =>
      obtain ⟨rs, l1⟩ := v
      rw [hm] at hr
      simp only at hr
      cases hx : trackRows t idx X' (time + c.dur) l1 with
      | error e => rw [hx] at hr; cases hr
      | ok rest =>
        rw [hx] at hr
        simp only at hr
        injection hr with hr; subst hr
        -- the normalised melody on the normalised chord
        have hmem : (t, m) ∈ c.parts := by
          obtain ⟨l1', l2', e, _⟩ := List.lookup_eq_some_iff.mp hl
          rw [e]; simp
        obtain ⟨hp, hdur⟩ := hok.2 (t, m) hmem
        have hmne : m ≠ [] := by
          intro he
          have : melodyDuration m = 0 := by rw [he]; exact melodyDuration_nil
          have hDpos : 0 < D := by
            rw [← hsum]
            cases ds with
            | nil => exact absurd rfl hne
            | cons d r =>
              rw [sumRat_cons]
              have := sumRat_nonneg r (fun x hx => hpos x (by simp [hx]))
              have := hpos d (by simp)
              grind
          simp only at hdur
          grind
        let m0 := m.map (fun n => n.andInt 0)
        have hsim := melSim_of_all2 c (c.andInt 0) m m0
          (all2_noteSim_head c (c.andInt 0) (sameHead_withParts c _) m m0 (andZero_all2 c m)) last
        obtain ⟨rs0, hrs0, hcore⟩ := melodyToRows_sim c (c.andInt 0) idx m m0 time last hsim rs l1 hm
        -- the pieces sound like the normalised melody
        have hfull : winFrom 0 (0 + sumRat ds) 0 m0 = m0 := by
          apply winFrom_full 0 _ m0 (map_andZero_posDur m hp) 0 (by grind)
          · rw [map_andZero_duration]; simp only at hdur; rw [hdur, hsum]
          · intro he; exact hmne (List.map_eq_nil_iff.mp he)
        have hmerge := pieces_merge (c.andInt 0) idx m0 (map_andZero_posDur m hp) ds hne hpos 0 []
        simp only [List.append_nil] at hmerge
        rw [hfull] at hmerge
        obtain ⟨rsp, hrsp, hacc⟩ := hmerge time last rs0 l1 hrs0
        obtain ⟨rest', hrest', ha⟩ := hX _ _ rest hx
        rw [pieces_present (c.andInt 0) D hok0 t idx m0 hlook0 ds hpos 0 (by grind) (by rw [hsum]; grind) X time last,
          hrsp]
        simp only [Except.bind]
        rw [hsum, ← hD, hrest']
        refine ⟨rsp ++ rest', rfl, fun acc => ?_⟩
        rw [runRows_append, runRows_append, hacc, runRows_core acc rs0 rs hcore, ha]

/-! ### Chord.split computes the cuts -/
theorem withParts_withParts (c : Chord) (p q : List (String × Melody)) : (c.withParts p).withParts q = c.withParts q := rfl

theorem projectOnTemplate_eq (c0 : Chord) (D : Rat) (hok0 : SplitOK c0 D)
    (hnorm : ∀ p ∈ c0.parts, ∀ n ∈ p.2, n.andInt 0 = n) (ds : List Rat) (hpos : ∀ d ∈ ds, 0 < d) (s : Rat)
    (hs : 0 ≤ s) (hsum : s + sumRat ds ≤ D) :
    projectOnTemplate c0 D ds s = .ok (pieceChords c0 s ds) := by
  induction ds generalizing s with
  | nil => rfl
  | cons d r ih =>
    have hd : 0 < d := hpos d (by simp)
    have hr : ∀ x ∈ r, 0 < x := fun x hx => hpos x (by simp [hx])
    have hnn := sumRat_nonneg r hr
    rw [sumRat_cons] at hsum
    simp only [projectOnTemplate, pieceChords]
    have c1 : ¬ D ≤ s := by grind
    have c2 : ¬ (D < s + d ∧ s ≤ 0) := by grind
    simp only [c1, c2, if_false, bind, Except.bind, pure, Except.pure]
    -- the cut of every part
    have hcut : getChordBetween c0 s (s + d) = .ok (c0.withParts (c0.parts.map (fun p => (p.1, winFrom s (s + d) 0 p.2)))) := by
      unfold getChordBetween
      have hne : c0.parts.isEmpty = false := by
        cases hpp : c0.parts with
        | nil => exact absurd hpp hok0.1
        | cons a b => rfl
      simp only [hne, Bool.false_eq_true, if_false, bind, Except.bind, pure, Except.pure]
      rw [mapM_ok _ (fun p => (p.1, winFrom s (s + d) 0 p.2)) c0.parts (by
        intro p hp
        have hpd := (hok0.2 p hp).1
        rw [getMelodyBetween_eq p.2 s (s + d) (by grind) (fun n hn => by have := hpd n hn; grind)])]
    rw [hcut, ih hr (s + d) (by grind) (by grind)]
    simp only
    congr 2
    -- `& 0` on a cut of normalised notes changes nothing
    unfold Chord.andInt
    rw [withParts_withParts]
    congr 1
    simp only [Chord.withParts, List.map_map]
    apply List.map_congr_left
    intro p hp
    simp only [Function.comp]
    congr 1
    have := winFrom_andZero s (s + d) p.2 (hnorm p hp) 0
    conv => rhs; rw [← List.map_id (winFrom s (s + d) 0 p.2)]
    exact List.map_congr_left (fun x hx => this x hx)

theorem andInt_parts_norm (c : Chord) : ∀ p ∈ (c.andInt 0).parts, ∀ n ∈ p.2, n.andInt 0 = n := by
  intro p hp n hn
  have : p ∈ c.parts.map (fun p => (p.1, p.2.map (fun n => n.andInt 0))) := hp
  obtain ⟨q, _, rfl⟩ := List.mem_map.mp this
  obtain ⟨x, _, rfl⟩ := List.mem_map.mp hn
  exact andZero_idem x

theorem andInt_dur_chord (c : Chord) : (c.andInt 0).dur = c.dur := by
  rw [dur_eq_dmax, dur_eq_dmax]
  simp only [Chord.andInt, Chord.withParts, List.map_map]
  congr 1
  apply List.map_congr_left
  intro p _
  simp only [Function.comp, map_andZero_duration]

/-- **`Chord.split` of a chord that is too long**: the cuts of `c & 0` along the template -/
theorem chordSplit_eq (c : Chord) (mx : Rat) (hmx : 0 < mx) (hlong : mx < c.dur) (hok : SplitOK c c.dur) :
    c.split mx = .ok (pieceChords (c.andInt 0) 0 (splitTemplate c.dur mx)) := by
  obtain ⟨h1, h2, h3⟩ := splitTemplate_spec c.dur mx hmx hlong
  unfold Chord.split
  have c1 : ¬ c.dur ≤ mx := by grind
  have c2 : ¬ mx = 0 := by grind
  have c3 : (splitTemplate c.dur mx).isEmpty = false := by
    cases hh : splitTemplate c.dur mx with
    | nil => exact absurd hh h3
    | cons a b => rfl
  simp only [c1, c2, c3, if_false, Bool.false_eq_true]
  exact projectOnTemplate_eq (c.andInt 0) c.dur (splitOK_andZero c c.dur hok) (andInt_parts_norm c) _
    (fun d hd => (h1 d hd).1) 0 (by grind) (by rw [h2]; grind)

/-! ### split_too_long_chords -/
/-- every part lasts as long as its chord and all note durations are positive -/
def Splittable (s : Score) : Prop := ∀ c ∈ s, ∀ p ∈ c.parts, PosDur p.2 ∧ melodyDuration p.2 = c.dur

theorem splitOK_of_long (c : Chord) (mx : Rat) (hmx : 0 < mx) (hlong : mx < c.dur)
    (h : ∀ p ∈ c.parts, PosDur p.2 ∧ melodyDuration p.2 = c.dur) : SplitOK c c.dur := by
  refine ⟨?_, h⟩
  intro he
  have : c.dur = 0 := by unfold Chord.dur; rw [he]; rfl
  grind

theorem pieceChords_names (c0 : Chord) (s : Rat) (ds : List Rat) :
    ∀ x ∈ pieceChords c0 s ds, x.parts.map (·.1) = c0.parts.map (·.1) := by
  induction ds generalizing s with
  | nil => intro x hx; simp [pieceChords] at hx
  | cons d r ih =>
    intro x hx
    simp only [pieceChords, List.mem_cons] at hx
    rcases hx with rfl | hx
    · simp [Chord.withParts, List.map_map, Function.comp_def]
    · exact ih _ x hx

theorem pieceChords_durs (c0 : Chord) (D : Rat) (hok : SplitOK c0 D) (ds : List Rat) (hpos : ∀ d ∈ ds, 0 < d) (s : Rat)
    (hs : 0 ≤ s) (hsum : s + sumRat ds ≤ D) (mx : Rat) (hmx : ∀ d ∈ ds, d ≤ mx) :
    ∀ x ∈ pieceChords c0 s ds, x.dur ≤ mx := by
  induction ds generalizing s with
  | nil => intro x hx; simp [pieceChords] at hx
  | cons d r ih =>
    have hd : 0 < d := hpos d (by simp)
    have hr : ∀ x ∈ r, 0 < x := fun x hx => hpos x (by simp [hx])
    have hnn := sumRat_nonneg r hr
    rw [sumRat_cons] at hsum
    intro x hx
    simp only [pieceChords, List.mem_cons] at hx
    rcases hx with rfl | hx
    · rw [piece_dur c0 D hok s d hs hd (by grind)]; exact hmx d (by simp)
    · exact ih hr (s + d) (by grind) (by grind) (fun y hy => hmx y (by simp [hy])) x hx

/-- repeating the same names does not change the first-appearance list -/
theorem dedupInto_repeat (acc names : List String) (blocks : List (List String)) (hne : blocks ≠ [])
    (h : ∀ b ∈ blocks, b = names) : dedupInto acc blocks.flatten = dedupInto acc names := by
  cases blocks with
  | nil => exact absurd rfl hne
  | cons b r =>
    have hb : b = names := h b (by simp)
    subst hb
    simp only [List.flatten_cons, dedupInto_append]
    apply dedupInto_subset
    intro x hx
    obtain ⟨l, hl, hxl⟩ := List.mem_flatten.mp hx
    have := h l (by simp [hl])
    subst this
    rw [mem_dedupInto]; exact Or.inr hxl

theorem andInt_names (c : Chord) : (c.andInt 0).parts.map (·.1) = c.parts.map (·.1) := by
  simp [Chord.andInt, Chord.withParts, List.map_map, Function.comp_def]

/-- **split_too_long_chords**: every track of the result reads like the track of the source,
the tracks are the same, and no chord is longer than `max_length` -/
theorem splitTooLong_spec (s : Score) (mx : Rat) (hmx : 0 < mx) (hs : Splittable s) (blocks : List (List Chord))
    (h : s.mapM (fun c => if c.dur > mx then c.split mx else pure [c]) = .ok blocks) :
    (∀ t idx, TrackEq t idx blocks.flatten s) ∧
    (∀ acc, dedupInto acc (blocks.flatten.flatMap (fun c => c.parts.map (·.1)))
        = dedupInto acc (s.flatMap (fun c => c.parts.map (·.1)))) ∧
    (∀ c' ∈ blocks.flatten, c'.dur ≤ mx) := by
  induction s generalizing blocks with
  | nil =>
    simp only [List.mapM_nil, pure, Except.pure] at h
    injection h with h; subst h
    exact ⟨fun t idx => trackEq_refl t idx [], fun _ => rfl, fun c' hc' => by simp at hc'⟩
  | cons c cs ih =>
    simp only [List.mapM_cons, bind, Except.bind, pure, Except.pure] at h
    have hcs : Splittable cs := fun x hx => hs x (by simp [hx])
    have hc := hs c (by simp)
    by_cases hlong : c.dur > mx
    · simp only [hlong, if_true] at h
      have hok := splitOK_of_long c mx hmx hlong hc
      rw [chordSplit_eq c mx hmx hlong hok] at h
      simp only at h
      cases hrest : cs.mapM (fun c => if c.dur > mx then c.split mx else Except.ok [c]) with
      | error e => rw [hrest] at h; cases h
      | ok bs =>
        rw [hrest] at h
        simp only at h
        injection h with h; subst h
        obtain ⟨i1, i2, i3⟩ := ih hcs bs hrest
        obtain ⟨t1, t2, t3⟩ := splitTemplate_spec c.dur mx hmx hlong
        simp only [List.flatten_cons]
        refine ⟨fun t idx => ?_, fun acc => ?_, fun c' hc' => ?_⟩
        · exact split_block_trackEq c c.dur rfl hok _ t3 (fun d hd => (t1 d hd).1) t2 t idx _ _ (i1 t idx)
        · simp only [List.flatMap_append, List.flatMap_cons, dedupInto_append, i2]
          congr 1
          have hnames := pieceChords_names (c.andInt 0) 0 (splitTemplate c.dur mx)
          rw [List.flatMap_def]
          apply dedupInto_repeat acc (c.parts.map (·.1))
          · cases hp : pieceChords (c.andInt 0) 0 (splitTemplate c.dur mx) with
            | nil =>
              cases ht : splitTemplate c.dur mx with
              | nil => exact absurd ht t3
              | cons a b => rw [ht] at hp; simp [pieceChords] at hp
            | cons a b => simp
          · intro b hb
            obtain ⟨x, hx, rfl⟩ := List.mem_map.mp hb
            rw [hnames x hx, andInt_names]
        · rcases List.mem_append.mp hc' with h1 | h1
          · exact pieceChords_durs (c.andInt 0) c.dur (splitOK_andZero c c.dur hok) _ (fun d hd => (t1 d hd).1) 0
              (by grind) (by rw [t2]; grind) mx (fun d hd => (t1 d hd).2) c' h1
          · exact i3 c' h1
    · simp only [hlong, if_false] at h
      cases hrest : cs.mapM (fun c => if c.dur > mx then c.split mx else Except.ok [c]) with
      | error e => rw [hrest] at h; cases h
      | ok bs =>
        rw [hrest] at h
        simp only at h
        injection h with h; subst h
        obtain ⟨i1, i2, i3⟩ := ih hcs bs hrest
        simp only [List.flatten_cons, List.singleton_append]
        refine ⟨fun t idx => trackEq_cons t idx c _ _ (i1 t idx), fun acc => ?_, fun c' hc' => ?_⟩
        · simp only [List.flatMap_cons, dedupInto_append, i2]
        · rcases List.mem_cons.mp hc' with rfl | h1
          · exact Rat.not_lt.mp hlong
          · exact i3 c' h1

/-- **split_too_long_chords plays the same and respects the maximum length** -/
theorem splitTooLongChords_spec (s s' : Score) (mx : Rat) (hmx : 0 < mx) (hs : Splittable s)
    (h : Score.splitTooLongChords s mx = .ok s') :
    (∀ snd, plays s = .ok snd → plays s' = .ok snd) ∧ trackList s' = trackList s ∧ ∀ c' ∈ s', c'.dur ≤ mx := by
  unfold Score.splitTooLongChords at h
  simp only [bind, Except.bind, pure, Except.pure] at h
  cases hb : s.mapM (fun c => if c.dur > mx then c.split mx else Except.ok [c]) with
  | error e => rw [hb] at h; cases h
  | ok blocks =>
    rw [hb] at h
    simp only at h
    injection h with h; subst h
    obtain ⟨h1, h2, h3⟩ := splitTooLong_spec s mx hmx hs blocks hb
    have hT : trackList blocks.flatten = trackList s := by rw [trackList_eq, trackList_eq]; exact h2 []
    refine ⟨fun snd hp => ?_, hT, h3⟩
    refine samePlayed_of_tracks s _ hT ?_ snd hp
    intro t idx rows hr
    obtain ⟨rows', hr', ha⟩ := h1 t idx 0 none rows hr
    exact ⟨rows', hr', by unfold trackSound; rw [ha]⟩

end MV
