/-
Lemmas for C13: scores related note by note (same durations, same rest / continuation / note pattern,
symbols agreeing under an observation) show related events at every instant.
-/
import MV.Lemmas.ProjectDen
namespace MV.Proj
open MV

/-! ### lines with the same rhythm -/

/-- two lists related element by element -/
inductive All₂ {α β : Type} (R : α → β → Prop) : List α → List β → Prop
  | nil : All₂ R [] []
  | cons {a b l1 l2} : R a b → All₂ R l1 l2 → All₂ R (a :: l1) (b :: l2)

theorem All₂.append {α β : Type} {R : α → β → Prop} {l1 l2 : List α} {m1 m2 : List β}
    (h1 : All₂ R l1 m1) (h2 : All₂ R l2 m2) : All₂ R (l1 ++ l2) (m1 ++ m2) := by
  induction h1 with
  | nil => exact h2
  | cons hr _ ih => exact All₂.cons hr ih

theorem All₂.length {α β : Type} {R : α → β → Prop} {l : List α} {m : List β} (h : All₂ R l m) : l.length = m.length := by
  induction h with
  | nil => rfl
  | cons _ _ ih => simp [ih]

theorem All₂.map_left {α β : Type} {R : α → β → Prop} (f : β → α) (m : List β) (h : ∀ x ∈ m, R (f x) x) :
    All₂ R (m.map f) m := by
  induction m with
  | nil => exact All₂.nil
  | cons x xs ih => exact All₂.cons (h x (by simp)) (ih (fun y hy => h y (by simp [hy])))

/-- rest, continuation, or sounding note -/
def cls (n : Note) : Nat := if n.kind = .r then 0 else if n.kind = .l then 1 else 2

/-- two notes with the same duration and class whose symbols agree under the observation `π` -/
def RN {β : Type} (π : Note → β) (n1 n2 : Note) : Prop := n1.dur = n2.dur ∧ cls n1 = cls n2 ∧ π (sym n1) = π (sym n2)

/-- an event observed through `π` -/
def evMap {β : Type} (π : Note → β) (e : Option Ev) : Option (Rat × β) := e.map (fun x => (x.1, π x.2))

theorem cls_r (n : Note) : cls n = 0 ↔ n.kind = .r := by
  unfold cls
  split
  · rename_i h; simp [h]
  · split <;> simp_all

theorem cls_l (n : Note) : cls n = 1 ↔ n.kind = .l := by
  unfold cls
  split
  · rename_i h; simp [h]
  · split <;> simp_all

theorem step_rel {β : Type} (π : Note → β) (n1 n2 : Note) (h : RN π n1 n2) (cy1 cy2 : Option Ev)
    (hc : evMap π cy1 = evMap π cy2) (t : Rat) : evMap π (step cy1 t n1) = evMap π (step cy2 t n2) := by
  obtain ⟨_, hk, hp⟩ := h
  unfold step
  by_cases c1 : n1.kind = .r
  · have c2 : n2.kind = .r := (cls_r n2).mp (by rw [← hk]; exact (cls_r n1).mpr c1)
    rw [if_pos c1, if_pos c2]
  · have c2 : ¬ n2.kind = .r := fun hh => c1 ((cls_r n1).mp (by rw [hk]; exact (cls_r n2).mpr hh))
    rw [if_neg c1, if_neg c2]
    by_cases d1 : n1.kind = .l
    · have d2 : n2.kind = .l := (cls_l n2).mp (by rw [← hk]; exact (cls_l n1).mpr d1)
      rw [if_pos d1, if_pos d2]; exact hc
    · have d2 : ¬ n2.kind = .l := fun hh => d1 ((cls_l n1).mp (by rw [hk]; exact (cls_l n2).mpr hh))
      rw [if_neg d1, if_neg d2]
      simp only [evMap, Option.map_some, hp]

/-- lines related note by note show related events at every instant -/
theorem den_rel {β : Type} (π : Note → β) (l1 l2 : List Note) (h : All₂ (RN π) l1 l2)
    (cy1 cy2 : Option Ev) (hc : evMap π cy1 = evMap π cy2) (t τ : Rat) :
    evMap π (den cy1 l1 t τ) = evMap π (den cy2 l2 t τ) := by
  induction h generalizing cy1 cy2 t with
  | nil => rfl
  | @cons n1 n2 r1 r2 hn _ ih =>
    have hs := step_rel π n1 n2 hn cy1 cy2 hc t
    simp only [den, hn.1]
    split
    · split
      · exact hs
      · rfl
    · exact ih _ _ hs _

theorem mdur_rel {β : Type} (π : Note → β) (l1 l2 : List Note) (h : All₂ (RN π) l1 l2) :
    melodyDuration l1 = melodyDuration l2 := by
  induction h with
  | nil => rfl
  | cons hn _ ih => rw [mdur_cons, mdur_cons, hn.1, ih]

theorem rel_pos {β : Type} (π : Note → β) (l1 l2 : List Note) (h : All₂ (RN π) l1 l2)
    (hp : ∀ n ∈ l1, 0 < n.dur) : ∀ n ∈ l2, 0 < n.dur := by
  induction h with
  | nil => intro n hn; simp at hn
  | cons hn _ ih =>
    intro n hm
    simp only [List.mem_cons] at hm
    rcases hm with hm | hm
    · subst hm; rw [← hn.1]; exact hp _ (by simp)
    · exact ih (fun x hx => hp x (by simp [hx])) n hm

/-- part lists with the same names and, part by part, related melodies -/
def RP {β : Type} (π : Note → β) (P1 P2 : List (String × Melody)) : Prop :=
  All₂ (fun p1 p2 => p1.1 = p2.1 ∧ All₂ (RN π) p1.2 p2.2) P1 P2

def RC {β : Type} (π : Note → β) (c1 c2 : Chord) : Prop := RP π c1.parts c2.parts

theorem RP.durs {β : Type} {π : Note → β} {P1 P2 : List (String × Melody)} (h : RP π P1 P2) :
    P1.map (fun p => melodyDuration p.2) = P2.map (fun p => melodyDuration p.2) := by
  induction h with
  | nil => rfl
  | cons hp _ ih => simp only [List.map_cons, ih, mdur_rel π _ _ hp.2]

theorem RC.dur {β : Type} {π : Note → β} {c1 c2 : Chord} (h : RC π c1 c2) : c1.dur = c2.dur := by
  unfold Chord.dur; rw [RP.durs h]

theorem RP.lookup {β : Type} {π : Note → β} {P1 P2 : List (String × Melody)} (h : RP π P1 P2) (p : String) :
    (P1.lookup p = none ∧ P2.lookup p = none) ∨
    ∃ m1 m2, P1.lookup p = some m1 ∧ P2.lookup p = some m2 ∧ All₂ (RN π) m1 m2 := by
  induction h with
  | nil => left; exact ⟨rfl, rfl⟩
  | @cons p1 p2 r1 r2 hp _ ih =>
    obtain ⟨k1, v1⟩ := p1
    obtain ⟨k2, v2⟩ := p2
    simp only at hp
    obtain ⟨rfl, hv⟩ := hp
    by_cases c : p = k1
    · subst c; right; exact ⟨v1, v2, by simp, by simp, hv⟩
    · have : (p == k1) = false := by simpa using c
      simp only [List.lookup_cons, this]
      exact ih

theorem RP.parts {β : Type} {π : Note → β} {P1 P2 : List (String × Melody)} (h : RP π P1 P2) (d : Rat)
    (h1 : ∀ p ∈ P1, (∀ n ∈ p.2, 0 < n.dur) ∧ melodyDuration p.2 = d) :
    ∀ p ∈ P2, (∀ n ∈ p.2, 0 < n.dur) ∧ melodyDuration p.2 = d := by
  induction h with
  | nil => intro p hp; simp at hp
  | @cons p1 p2 r1 r2 hp _ ih =>
    intro q hq
    simp only [List.mem_cons] at hq
    rcases hq with hq | hq
    · subst hq
      have := h1 p1 (by simp)
      exact ⟨rel_pos π _ _ hp.2 this.1, by rw [← mdur_rel π _ _ hp.2, this.2]⟩
    · exact ih (fun x hx => h1 x (by simp [hx])) q hq

theorem RC.equalParts {β : Type} {π : Note → β} {c1 c2 : Chord} (h : RC π c1 c2) (he : EqualParts c1) : EqualParts c2 := by
  have hd := h.dur
  refine ⟨?_, ?_, by rw [← hd]; exact he.2.2⟩
  · intro hh
    unfold RC at h
    rw [hh] at h
    cases hp : c1.parts with
    | nil => exact he.1 hp
    | cons x xs => rw [hp] at h; cases h
  · rw [← hd]; exact RP.parts h c1.dur he.2.1

/-- scores related chord by chord -/
def RS {β : Type} (π : Note → β) (s1 s2 : Score) : Prop := All₂ (RC π) s1 s2

theorem RS.gatherRel {β : Type} {π : Note → β} {s1 s2 : Score} (h : RS π s1 s2) (p : String) :
    All₂ (RN π) (gather s1 p) (gather s2 p) := by
  induction h with
  | nil => exact All₂.nil
  | @cons c1 c2 r1 r2 hc _ ih =>
    rw [gather_cons, gather_cons]
    refine All₂.append ?_ ih
    rcases RP.lookup hc p with ⟨h1, h2⟩ | ⟨m1, m2, h1, h2, hm⟩
    · rw [h1, h2]
      exact All₂.cons ⟨hc.dur, rfl, rfl⟩ All₂.nil
    · rw [h1, h2]; exact hm

theorem RS.sdur {β : Type} {π : Note → β} {s1 s2 : Score} (h : RS π s1 s2) : scoreDuration s1 = scoreDuration s2 := by
  induction h with
  | nil => rfl
  | cons hc _ ih => rw [sdur_cons, sdur_cons, hc.dur, ih]

theorem RS.equalParts {β : Type} {π : Note → β} {s1 s2 : Score} (h : RS π s1 s2) (he : ∀ c ∈ s1, EqualParts c) :
    ∀ c ∈ s2, EqualParts c := by
  induction h with
  | nil => intro c hc; simp at hc
  | cons hc _ ih =>
    intro c hm
    simp only [List.mem_cons] at hm
    rcases hm with hm | hm
    · subst hm; exact hc.equalParts (he _ (by simp))
    · exact ih (fun x hx => he x (by simp [hx])) c hm

/-- related scores show related events: same rhythm, and the same observation of the symbols -/
theorem RS.denRel {β : Type} {π : Note → β} {s1 s2 : Score} (h : RS π s1 s2) (p : String) (τ : Rat) :
    evMap π (den none (gather s1 p) 0 τ) = evMap π (den none (gather s2 p) 0 τ) :=
  den_rel π _ _ (h.gatherRel p) none none rfl 0 τ

end MV.Proj
