/-
S-expression codec for the shared data model (used by every driver).

note   : (n kind val oct dur mode acc amp (tags…) tempo pedal)   with `-` for None
ton    : (t deg mode oct)
ext    : (e fig (repl…) (add…) (rem…))     fig written as its text, "" for the empty one
chord  : (c elem ext ton oct ((part (note…)) …))
score  : (s chord…)
-/
import MV.Proto
import MV.Model.Types

namespace MV.Codec
open MV SExp

def optStr (f : String → Option α) (s : String) : Option (Option α) :=
  if s == "-" then some none else (f s).map some

def decNote : SExp → Option Note
  | .list [.atom "n", k, v, o, d, m, a, amp, tags, tempo, pedal] => do
      let kind ← Kind.ofStr? (← k.asAtom?)
      let val ← v.asInt?
      let oct ← o.asInt?
      let dur ← d.asRat?
      let mode ← optStr Mode.ofStr? (← m.asAtom?)
      let acc ← optStr Acc.ofStr? (← a.asAtom?)
      let amp ← amp.asRat?
      let tags ← tags.asStrs?
      let tempo ← optStr String.toInt? (← tempo.asAtom?)
      let pedal ← optStr (fun s => if s == "1" then some true else if s == "0" then some false else none) (← pedal.asAtom?)
      pure { kind, val, oct, dur, mode, acc, amp, tags, tempo, pedal }
  | _ => none

def encOpt (f : α → String) : Option α → SExp
  | none => .atom "-"
  | some x => .atom (f x)

def encNote (n : Note) : SExp :=
  .list [.atom "n", .atom n.kind.toStr, ofInt n.val, ofInt n.oct, ofRat n.dur,
         encOpt Mode.toStr n.mode, encOpt Acc.toStr n.acc, ofRat n.amp,
         .list (n.tags.map .atom), encOpt toString n.tempo,
         encOpt (fun b => if b then "1" else "0") n.pedal]

def decMelody (e : SExp) : Option Melody := do (← e.asList?).mapM decNote
def encMelody (m : Melody) : SExp := .list (m.map encNote)

def decTon : SExp → Option Tonality
  | .list [.atom "t", d, m, o] => do
      pure { deg := ← d.asInt?, mode := ← Mode.ofStr? (← m.asAtom?), oct := ← o.asInt? }
  | _ => none
def encTon (t : Tonality) : SExp := .list [.atom "t", ofInt t.deg, .atom t.mode.toStr, ofInt t.oct]

def decExt : SExp → Option Ext
  | .list [.atom "e", f, r, a, m] => do
      pure { fig := ← Fig.ofStr? (← f.asAtom?), repl := ← r.asStrs?, add := ← a.asStrs?, rem := ← m.asStrs? }
  | _ => none
def encExt (e : Ext) : SExp :=
  .list [.atom "e", .atom e.fig.toStr, .list (e.repl.map .atom), .list (e.add.map .atom), .list (e.rem.map .atom)]

def decPart : SExp → Option (String × Melody)
  | .list [.atom name, mel] => do pure (name, ← decMelody mel)
  | _ => none
def encPart (p : String × Melody) : SExp := .list [.atom p.1, encMelody p.2]

def decChord : SExp → Option Chord
  | .list [.atom "c", el, ex, t, o, parts] => do
      pure { elem := ← el.asInt?, ext := ← decExt ex, ton := ← decTon t, oct := ← o.asInt?,
             parts := ← (← parts.asList?).mapM decPart }
  | _ => none
def encChord (c : Chord) : SExp :=
  .list [.atom "c", ofInt c.elem, encExt c.ext, encTon c.ton, ofInt c.oct, .list (c.parts.map encPart)]

def decScore : SExp → Option Score
  | .list (.atom "s" :: cs) => cs.mapM decChord
  | _ => none
def encScore (s : Score) : SExp := .list (.atom "s" :: s.map encChord)

/-- render a result: `ERR:<class>` for errors -/
def showRes (f : α → String) : Res α → String
  | .ok x => f x
  | .error e => "ERR:" ++ e.toStr

def showOptInt : Option Int → String
  | none => "None"
  | some i => toString i

def showInts (l : List Int) : String := toString (ofInts l)

end MV.Codec
