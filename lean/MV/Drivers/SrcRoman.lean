/- Driver for the source images of group `SrcRoman` (DESIGN.md §9.6): the clock of the roman-numeral annotation parser and the
head of `analyze_one_chord` on the model of `MV/Model/Roman.lean`.  `(k mod args…)` = hand-written model, `(k src args…)` =
generated source image.  A formatter state travels as twelve items
`tsN tsD prevN prevD first bar beat pickup startedBar startedBeat key mode`; texts as lists of code points.

  (rdur w which state…)            `duration` / `prev_duration`
  (rsts w state… n d)              `set_time_signature((n, d))`                    → the state
  (rsbn w state… idx)              `set_bar_number(idx)`                           → the state
  (rscb w state… beat)             `set_current_beat(beat)`                        → the state
  (rbeat w state… (c…))            `Beat.get_real_value(parent)` for the label text (without its `b`s)
  (rstep w which hasScore state… arg)   `BarLine.parse` / `Beat.parse` / `CurrentTonality.parse` → "score=… state"
  (radd w state… new (d…)|-)       `add_chord(chord of duration new, score with chord durations d…)` → "durs=(…) state"
  (rfig w (c…) key mode)           `analyze_one_chord(figure, key, mode)` -/
import MV.Codec
import MV.Gen.SrcRoman
open MV MV.Codec MV.Roman

def decStr (e : SExp) : Option Str := do
  let l ← e.asInts?
  pure (l.map (fun i => Char.ofNat i.toNat))

def showRat (q : Rat) : String := toString (SExp.ofRat q)

def decState : List SExp → Option St
  | [tn, td, pn, pd, first, bar, beat, pickup, sb, sbeat, key, mode] => do
      let md ← mode.asAtom?.bind KMode.ofStr?
      pure { ts := (← tn.asInt?, ← td.asInt?), prevTs := (← pn.asInt?, ← pd.asInt?), firstChange := (← first.asInt?) != 0,
             barNumber := ← bar.asInt?, currentBeat := ← beat.asRat?, pickup := ← pickup.asRat?,
             started := (← sb.asInt?, ← sbeat.asRat?), key := ← key.asInt?, mode := md }
  | _ => none

def showState (st : St) : String :=
  s!"ts={st.ts.1}/{st.ts.2} prev={st.prevTs.1}/{st.prevTs.2} first={if st.firstChange then 1 else 0} bar={st.barNumber} " ++
  s!"beat={showRat st.currentBeat} pickup={showRat st.pickup} started={st.started.1},{showRat st.started.2} key={st.key} mode={st.mode.toStr}"

def dummy : Chord := { elem := 0 }

def showDurs (cs : List OutChord) : String := "durs=(" ++ " ".intercalate (cs.map (fun o => showRat o.dur)) ++ ")"

def showFig (r : Int × String × Int × Mode) : String := s!"{r.1} \"{r.2.1}\" {r.2.2.1} {r.2.2.2.toStr}"

def step : List SExp → String
  | .atom "rdur" :: .atom w :: .atom which :: st =>
      match decState st with
      | some st =>
          if which == "duration" then showRes showRat (if w == "src" then Src.ScoreFormatter_duration st else st.duration)
          else showRes showRat (if w == "src" then Src.ScoreFormatter_prev_duration st else st.prevDuration)
      | none => "bad-args"
  | [.atom "rsts", .atom w, a, b, c, d, e, f, g, h, i, j, k, l, n, dd] =>
      match decState [a, b, c, d, e, f, g, h, i, j, k, l], n.asInt?, dd.asInt? with
      | some st, some n, some dd =>
          showState (if w == "src" then Src.ScoreFormatter_set_time_signature st (n, dd) else st.setTimeSignature (n, dd))
      | _, _, _ => "bad-args"
  | [.atom "rsbn", .atom w, a, b, c, d, e, f, g, h, i, j, k, l, idx] =>
      match decState [a, b, c, d, e, f, g, h, i, j, k, l], idx.asInt? with
      | some st, some idx => showRes showState (if w == "src" then Src.ScoreFormatter_set_bar_number st idx else st.setBarNumber idx)
      | _, _ => "bad-args"
  | [.atom "rscb", .atom w, a, b, c, d, e, f, g, h, i, j, k, l, beat] =>
      match decState [a, b, c, d, e, f, g, h, i, j, k, l], beat.asRat? with
      | some st, some beat => showState (if w == "src" then Src.ScoreFormatter_set_current_beat st beat else st.setCurrentBeat beat)
      | _, _ => "bad-args"
  | [.atom "rbeat", .atom w, a, b, c, d, e, f, g, h, i, j, k, l, t] =>
      match decState [a, b, c, d, e, f, g, h, i, j, k, l], decStr t with
      | some st, some t =>
          showRes showRat (if w == "src" then Src.Beat_get_real_value (String.ofList t) st else beatRealValue st t)
      | _, _ => "bad-args"
  | [.atom "rstep", .atom w, .atom which, hs, a, b, c, d, e, f, g, h, i, j, k, l, arg] =>
      match decState [a, b, c, d, e, f, g, h, i, j, k, l], hs.asInt? with
      | some st, some hs =>
          let score : Option (List OutChord) := if hs != 0 then some [] else none
          let el : Option Elem :=
            if which == "bar" then arg.asInt?.map Elem.bar
            else if which == "beat" then (decStr arg).map Elem.beat
            else match arg with
              | .list [kk, md] => do pure (Elem.curTon (← kk.asInt?) (← md.asAtom?.bind KMode.ofStr?))
              | _ => none
          match el with
          | none => "bad-args"
          | some el =>
              let show2 (r : Option (List OutChord) × St) : String :=
                (if r.1.isNone then "score=None " else if r.1 == score then "score=same " else "score=other ") ++ showState r.2
              if w == "src" then
                match el with
                | .bar idx => showRes show2 (Src.BarLine_parse idx score st)
                | .beat v => showRes show2 (Src.Beat_parse (String.ofList v) score st)
                | .curTon kk md => show2 (Src.CurrentTonality_parse (kk, md) score st)
                | _ => "bad-args"
              else showRes (fun st' => show2 (score, st')) (st.step el)
      | _, _ => "bad-args"
  | [.atom "radd", .atom w, a, b, c, d, e, f, g, h, i, j, k, l, new, durs] =>
      let ds : Option (Option (List Rat)) :=
        match durs with
        | .atom "-" => some none
        | .list xs => (xs.mapM SExp.asRat?).map some
        | _ => none
      match decState [a, b, c, d, e, f, g, h, i, j, k, l], new.asRat?, ds with
      | some st, some new, some ds =>
          let score := ds.map (fun l => l.map (fun q => ({ chord := dummy, dur := q } : OutChord)))
          if w == "src" then
            showRes (fun (r : Option (List OutChord) × St) => showDurs (r.1.getD []) ++ " " ++ showState r.2)
              (Src.ScoreFormatter_add_chord st { chord := dummy, dur := new } score)
          else
            match ({ st with score := score } : St).addChord dummy new with
            | .ok st' => showDurs (st'.score.getD []) ++ " " ++ showState st'
            | .error (err, _) => "ERR:" ++ err.toStr
      | _, _, _ => "bad-args"
  | [.atom "rfig", .atom w, f, k, m] =>
      match decStr f, k.asInt?, m.asAtom?.bind KMode.ofStr? with
      | some f, some k, some md =>
          if w == "src" then showRes showFig (Src.analyze_one_chord (String.ofList f) k md)
          else showRes (fun (r : Int × Str × Int × Mode) => showFig (r.1, String.ofList r.2.1, r.2.2.1, r.2.2.2)) (analyzeOneChord f k md)
      | _, _, _ => "bad-args"
  | _ => "bad-op"

def main : IO Unit := runDriver step
