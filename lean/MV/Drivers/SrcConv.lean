/- Driver for the source images of the re-notations (group `SrcConv`, DESIGN.md §9.6): every kernel can be evaluated
either through the hand-written model of `MV/Model/Renotate.lean` (`mod`) or through the definition generated from the
Python AST (`src`).  Requests: `(kernel mod|src op args…)`.  The generated image of the recursive octave correction is
run with fuel 1000 (Python's default recursion limit). -/
import MV.Codec
import MV.Model.Renotate
import MV.Gen.SrcConv
open MV MV.Codec

/-- the fields of a note the conversions set or copy (tags / tempo / pedal are not compared) -/
def showNoteC (n : Note) : String :=
  s!"({n.kind.toStr} {n.val} {n.oct} {SExp.ofRat n.dur} {(n.mode.map Mode.toStr).getD "-"} {(n.acc.map Acc.toStr).getD "-"} {SExp.ofRat n.amp})"

def showMelodyC (m : Melody) : String := "(" ++ " ".intercalate (m.map showNoteC) ++ ")"

def showChordC (c : Chord) : String :=
  s!"(c {c.elem} {c.ton.deg} {c.ton.mode.toStr} {c.ton.oct} {c.oct} " ++
    " ".intercalate (c.parts.map (fun p => "(" ++ p.1 ++ " " ++ showMelodyC p.2 ++ ")")) ++ ")"

def showScoreC (s : List Chord) : String := "(" ++ " ".intercalate (s.map showChordC) ++ ")"

def decLastC (l : SExp) : Option (Option Int) :=
  match l.asAtom? with
  | some "-" => some none
  | _ => l.asInt?.map some

/-- the dictionary of last pitches: `((part pitch|-) …)` -/
def decLastMap (e : SExp) : Option LastMap := do
  (← e.asList?).mapM (fun p => match p with
    | .list [.atom k, v] => (decLastC v).map (fun v => (k, v))
    | _ => none)

def showLastMap (m : LastMap) : String :=
  "(" ++ " ".intercalate (m.map (fun p => "(" ++ p.1 ++ " " ++ showOptInt p.2 ++ ")")) ++ ")"

def pyFuel : Nat := 1000

def step : List SExp → String
  -- Chord.to_pitch(note, last_pitch)
  | [.atom "topitch", .atom w, c, n, l] =>
      match decChord c, decNote n, decLastC l with
      | some c, some n, some l => showRes showOptInt (if w == "src" then Src.Chord_to_pitch c n l else c.toPitch n l)
      | _, _, _ => "bad-args"
  -- note level
  | [.atom "nconv", .atom w, .atom op, c, n, l, d] =>
      match decChord c, decNote n, decLastC l, d.asRat? with
      | some c, some n, some l, some d =>
          let src := w == "src"
          match op with
          | "abs" => showRes showNoteC (if src then Src.Note_to_absolute_note n c l else n.toAbsoluteNote c l)
          | "scale" => showRes showNoteC (if src then Src.Note_to_scale_note n c else n.toScaleNote c)
          | "std" => showRes showNoteC (if src then Src.Note_to_standard_note n c else n.toStandardNote c)
          | "ext" => showRes showNoteC (if src then Src.Note_to_extension_note n c else n.toExtensionNote c)
          | "chord" => showRes showNoteC (if src then Src.Note_to_chord_note n c else n.toChordNote c)
          | "askey" => showNoteC (if src then Src.Note_as_key n else n.asKey)
          | "setdur" => showNoteC (if src then Src.Note_set_duration n d else { n with dur := d })
          | _ => "bad-op"
      | _, _, _, _ => "bad-args"
  -- melody level
  | [.atom "mconv", .atom w, .atom op, c, m, l, k] =>
      match decChord c, decMelody m, decLastC l, k.asInt? with
      | some c, some m, some l, some k =>
          let src := w == "src"
          match op with
          | "abs" => showRes (fun (p : Melody × Option Int) => showMelodyC p.1 ++ " " ++ showOptInt p.2)
                       (if src then Src.Melody_to_absolute_note m c l else melodyToAbsolute c m l)
          | "scale" => showRes showMelodyC (if src then Src.Melody_to_scale_notes m c else m.mapM (fun n => n.toScaleNote c))
          | "std" => showRes showMelodyC (if src then Src.Melody_to_standard_note m c else m.mapM (fun n => n.toStandardNote c))
          | "ext" => showRes showMelodyC (if src then Src.Melody_to_extension_note m c else m.mapM (fun n => n.toExtensionNote c))
          | "chord" => showRes showMelodyC (if src then Src.Melody_to_chord_note m c else m.mapM (fun n => n.toChordNote c))
          | "orel" => showMelodyC (if src then Src.o_chord_relative_notes m k else oChordRelative m k)
          | _ => "bad-op"
      | _, _, _, _ => "bad-args"
  -- chord level (chord with its parts)
  | [.atom "cconv", .atom w, .atom op, c, lm] =>
      match decChord c, decLastMap lm with
      | some c, some lm =>
          let src := w == "src"
          match op with
          | "abs" => showRes (fun (p : Chord × LastMap) => showChordC p.1 ++ " " ++ showLastMap p.2)
                       (if src then Src.Chord_to_absolute_note c lm else c.toAbsoluteNote lm)
          | "scale" => showRes showChordC (if src then Src.Chord_to_scale_notes c else c.toScaleNotes)
          | "std" => showRes showChordC (if src then Src.Chord_to_standard_note c else c.toStandardNote)
          | "ext" => showRes showChordC (if src then Src.Chord_to_extension_note c else c.toExtensionNote)
          | "chord" => showRes showChordC (if src then Src.Chord_to_chord_note c else c.toChordNote)
          | "cco" => showRes showChordC (if src then Src.Chord_correct_chord_octave pyFuel c else c.correctOctave)
          | "irco" => showRes showChordC (if src then Src.inverse_recursive_correct_octave pyFuel c else c.correctOctave)
          | _ => "bad-op"
      | _, _ => "bad-args"
  -- score level
  | [.atom "sconv", .atom w, .atom op, s] =>
      match decScore s with
      | some s =>
          let src := w == "src"
          match op with
          | "abs" => showRes showScoreC (if src then Src.Score_to_absolute_note s else Score.toAbsoluteNote s)
          | "scale" => showRes showScoreC (if src then Src.Score_to_scale_note s else Score.toScaleNote s)
          | "std" => showRes showScoreC (if src then Src.Score_to_standard_note s else Score.toStandardNote s)
          | "ext" => showRes showScoreC (if src then Src.Score_to_extension_note s else Score.toExtensionNote s)
          | "chord" => showRes showScoreC (if src then Src.Score_to_chord_note s else Score.toChordNote s)
          | "cco" => showRes showScoreC (if src then Src.Score_correct_chord_octave pyFuel s else Score.correctChordOctave s)
          | _ => "bad-op"
      | none => "bad-args"
  | _ => "bad-op"

def main : IO Unit := runDriver step
