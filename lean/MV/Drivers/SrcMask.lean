/- Driver for the source-tie group `SrcMask` (DESIGN.md §9.6): the mask classes of `transform/mask.py` and the dispatcher
of `transform/base_transformer.py`.  `(k mod args…)` answers with the hand-written model (`MV/Model/Transform.lean`),
`(k src args…)` with the generated source image (`MV/Gen/SrcMask.lean`).

Elements, keyword arguments, mask expressions and transformers are written as in the C18 driver (`MV/Drivers/C18.lean`,
whose codec is repeated here: two drivers cannot import each other, each defines `main`).

requests (two kernels, `mask` and `disp`: every launch of a driver costs a second or two)      replies
  (mask mod|src call  <mask> <elem> <ctx>)            1 | 0         the class of the top node of <mask> is the class called
  (mask mod|src child <mask> <elem> <ctx>)            <mask>
  (mask mod|src inv <mask>)                           <mask>        `~mask` of the class of the top node
  (mask mod|src gt <level> <mask>)                    <mask>        `TypeGuard > mask`
  (mask mod|src and|or <mask> <mask>)                 <mask>        `a & b`, `a | b`
  (disp mod|src melody <T> <mask> <melody> <ctx>)     <melody> | ERR:<class>     `T.apply_on_melody(melody, on=mask, **ctx)`
  (disp mod|src chord  <T> <mask> <chord> <ctx>)      <chord>  | ERR:<class>
  (disp mod|src score  <T> <mask> <score> <ctx>)      <score>  | ERR:<class>
  (disp mod|src call   <T> <mask> <elem> <ctx>)       None | <elem> | ERR:<class>   `T(elem, on=mask, **ctx)`: the `__call__` of T's class

On the source side the top node of the mask is turned into the record of its class (`MV/Model/PyMask.lean`) and the
generated method of that class is run; masks below the top node are evaluated by the model in both cases (that is what
the generated bodies call).  An atom that reads an attribute of the element is only defined on the element type its
public constructor guards it with; other elements are `bad-args` on the source side (never sent). -/
import MV.Codec
import MV.Gen.SrcMask
open MV MV.Codec MV.Transform MV.PyMask

namespace SrcMaskD


def dedupSorted : List String → List String
  | [] => []
  | [x] => [x]
  | x :: y :: r => if x == y then dedupSorted (y :: r) else x :: dedupSorted (y :: r)

/-- a tag set: sorted, without duplicates -/
def encTags (tags : List String) : SExp := .list ((dedupSorted (sortStrs tags)).map .atom)

def encNoteT (n : Note) : SExp := encNote { n with tags := dedupSorted (sortStrs n.tags) }

def encMel (m : TMelody) : SExp := .list [.atom "m", encTags m.tags, .list (m.notes.map encNoteT)]

def encTChord (c : TChord) : SExp :=
  .list [.atom "tc", encChord { c.base with parts := [] }, encTags c.tags,
         .list (c.parts.map (fun p => .list [.atom p.1, encMel p.2]))]

def encTScore (s : TScore) : SExp := .list [.atom "ts", encTags s.tags, .list (s.chords.map encTChord)]

def encElem : Elem → SExp
  | .note n => encNoteT n
  | .melody m => encMel m
  | .chord c => encTChord c
  | .score s => encTScore s

def decMel : SExp → Option TMelody
  | .list [.atom "m", tags, notes] => do
      pure { notes := ← (← notes.asList?).mapM decNote, tags := ← tags.asStrs? }
  | _ => none

def decPartT : SExp → Option (String × TMelody)
  | .list [.atom name, mel] => do pure (name, ← decMel mel)
  | _ => none

def decTChord : SExp → Option TChord
  | .list [.atom "tc", c, tags, parts] => do
      pure { base := ← decChord c, tags := ← tags.asStrs?, parts := ← (← parts.asList?).mapM decPartT }
  | _ => none

def decTScore : SExp → Option TScore
  | .list [.atom "ts", tags, chords] => do
      pure { chords := ← (← chords.asList?).mapM decTChord, tags := ← tags.asStrs? }
  | _ => none

def decElem (e : SExp) : Option Elem :=
  match e with
  | .list (.atom "n" :: _) => (decNote e).map .note
  | .list (.atom "m" :: _) => (decMel e).map .melody
  | .list (.atom "tc" :: _) => (decTChord e).map .chord
  | .list (.atom "ts" :: _) => (decTScore e).map .score
  | _ => none

def optAtom (f : String → Option α) (e : SExp) : Option (Option α) := do
  let s ← e.asAtom?
  if s == "-" then pure none else (f s).map some

def decCtx : SExp → Option Ctx
  | .list [.atom "k", cb, ci, inst, b, i] => do
      pure { chordBeat := ← optAtom (fun s => (SExp.atom s).asRat?) cb,
             chordIdx := ← optAtom String.toInt? ci,
             instrument := ← optAtom some inst,
             beat := ← optAtom (fun s => (SExp.atom s).asRat?) b,
             idx := ← optAtom String.toInt? i }
  | _ => none

def decLvl : String → Option Lvl
  | "score" => some .score | "chord" => some .chord | "melody" => some .melody | "note" => some .note
  | _ => none

def asRats? (e : SExp) : Option (List Rat) := do (← e.asList?).mapM SExp.asRat?

/-- decode a mask expression; `(inv E)` is evaluated with the model's `Mask.invert` -/
partial def decMask : SExp → Option Mask
  | .list [.atom "base"] => some .base
  | .list [.atom "bool", b] => do pure (.bool ((← b.asInt?) != 0))
  | .list [.atom "lvl", l] => do pure (.type (← decLvl (← l.asAtom?)))
  | .list [.atom "notm", m] => do pure (.not (← decMask m))
  | .list (.atom "and" :: ts) => do pure (.and (← ts.mapM decMask))
  | .list (.atom "or" :: ts) => do pure (.or (← ts.mapM decMask))
  | .list [.atom "gt", g, m] => do pure (.gt (← decMask g) (← decMask m))
  | .list [.atom "inv", m] => do pure (← decMask m).invert
  | .list [.atom "has", t] => do pure (.atom (.has (← t.asStrs?)))
  | .list [.atom "hasal", t] => do pure (.atom (.hasAtLeast (← t.asStrs?)))
  | .list [.atom "beatin", q] => do pure (.atom (.beatIn (← asRats? q)))
  | .list [.atom "beatplaying", q] => do pure (.atom (.beatPlayingIn (← asRats? q)))
  | .list [.atom "durin", q] => do pure (.atom (.durationIn (← asRats? q)))
  | .list [.atom "durbetween", a, b] => do pure (.atom (.durationBetween (← a.asRat?) (← b.asRat?)))
  | .list [.atom "beatbetween", a, b] => do pure (.atom (.beatBetween (← a.asRat?) (← b.asRat?)))
  | .list [.atom "instr", s] => do pure (.atom (.instruments (← s.asStrs?)))
  | .list [.atom "cbeatin", q] => do pure (.atom (.chordBeatIn (← asRats? q)))
  | .list [.atom "cbeatplaying", q] => do pure (.atom (.chordBeatPlayingIn (← asRats? q)))
  | .list [.atom "cdurin", q] => do pure (.atom (.chordDurationIn (← asRats? q)))
  | .list [.atom "cdurbetween", a, b] => do pure (.atom (.chordDurationBetween (← a.asRat?) (← b.asRat?)))
  | .list [.atom "cbeatbetween", a, b] => do pure (.atom (.chordBeatBetween (← a.asRat?) (← b.asRat?)))
  | .list [.atom "modein", s] => do pure (.atom (.modeIn (← s.asStrs?)))
  | .list [.atom "degin", i] => do pure (.atom (.chordDegreeIn (← i.asInts?)))
  | .list [.atom "extin", s] => do pure (.atom (.chordExtensionIn (← s.asStrs?)))
  | .list [.atom "tondegin", i] => do pure (.atom (.tonalityDegreeIn (← i.asInts?)))
  | .list [.atom "idxin", i] => do pure (.atom (.idxIn (← i.asInts?)))
  | .list [.atom "cidxin", i] => do pure (.atom (.chordIdxIn (← i.asInts?)))
  | _ => none

def encLvl : Lvl → String
  | .score => "score" | .chord => "chord" | .melody => "melody" | .note => "note"

def encRats (l : List Rat) : SExp := .list ((l.mergeSort (fun a b => decide (a ≤ b))).map SExp.ofRat)
def encStrSet (l : List String) : SExp := .list ((dedupSorted (sortStrs l)).map .atom)
def encIntSet (l : List Int) : SExp := SExp.ofInts (sortInts l)

def encAtom : Atom → SExp
  | .has t => .list [.atom "has", encStrSet t]
  | .hasAtLeast t => .list [.atom "hasal", encStrSet t]
  | .beatIn q => .list [.atom "beatin", encRats q]
  | .beatPlayingIn q => .list [.atom "beatplaying", encRats q]
  | .durationIn q => .list [.atom "durin", encRats q]
  | .durationBetween a b => .list [.atom "durbetween", SExp.ofRat a, SExp.ofRat b]
  | .beatBetween a b => .list [.atom "beatbetween", SExp.ofRat a, SExp.ofRat b]
  | .instruments s => .list [.atom "instr", encStrSet s]
  | .chordBeatIn q => .list [.atom "cbeatin", encRats q]
  | .chordBeatPlayingIn q => .list [.atom "cbeatplaying", encRats q]
  | .chordDurationIn q => .list [.atom "cdurin", encRats q]
  | .chordDurationBetween a b => .list [.atom "cdurbetween", SExp.ofRat a, SExp.ofRat b]
  | .chordBeatBetween a b => .list [.atom "cbeatbetween", SExp.ofRat a, SExp.ofRat b]
  | .modeIn s => .list [.atom "modein", encStrSet s]
  | .chordDegreeIn i => .list [.atom "degin", encIntSet i]
  | .chordExtensionIn s => .list [.atom "extin", encStrSet s]
  | .tonalityDegreeIn i => .list [.atom "tondegin", encIntSet i]
  | .idxIn i => .list [.atom "idxin", encIntSet i]
  | .chordIdxIn i => .list [.atom "cidxin", encIntSet i]

partial def encMask : Mask → SExp
  | .base => .list [.atom "base"]
  | .atom a => encAtom a
  | .bool b => .list [.atom "bool", SExp.ofBool b]
  | .type l => .list [.atom "lvl", .atom (encLvl l)]
  | .not m => .list [.atom "notm", encMask m]
  | .and ts => .list (.atom "and" :: ts.map encMask)
  | .or ts => .list (.atom "or" :: ts.map encMask)
  | .gt g m => .list [.atom "gt", encMask g, encMask m]

/-! transformers -/

def noteAct : SExp → Option (Note → Ctx → Res (Option Note))
  | .list [.atom "tag", t] => do
      let t ← t.asAtom?
      pure (fun n _ => pure (some (noteAddTag t n)))
  | .list [.atom "ctx"] => some (fun n k => pure (some (noteAddTag (ctxText k) n)))
  | .list [.atom "del"] => some (fun _ _ => pure none)
  | .list [.atom "id"] => some (fun n _ => pure (some n))
  | .list [.atom "td", n, km, ka] => do
      let n ← n.asInt?; let km ← km.asInt?; let ka ← ka.asInt?
      pure (fun note _ => transposeDiatonic n (km != 0) (ka != 0) note)
  | .list [.atom "tc", n] => do
      let n ← n.asInt?
      pure (fun note k => transposeChromatic n note k)
  | .list [.atom "lr", a, b] => do
      let a ← decNote a; let b ← decNote b
      match LimitRegister.make a b with
      | .ok L => pure (fun note _ => do pure (some (← L.limit note)))
      | .error e => pure (fun _ _ => .error e)      -- not reached: `ctorErr` reports it first
  | .list [.atom "sil"] => some (fun n _ => pure (some (applySilence n)))
  | .list [.atom "cont"] => some (fun n _ => pure (some (applyContinuation n)))
  | _ => none

def melodyAct : SExp → Option (TMelody → Ctx → Res (Option TMelody))
  | .list [.atom "tag", t] => do
      let t ← t.asAtom?
      pure (fun m _ => pure (some (m.addTag t)))
  | .list [.atom "ctx"] => some (fun m k => pure (some (m.addTag (ctxText k))))
  | .list [.atom "del"] => some (fun _ _ => pure none)
  | .list [.atom "id"] => some (fun m _ => pure (some m))
  | .list [.atom "rev"] => some (fun m _ => pure (some (reverseMelody m)))
  | .list [.atom "circ", n] => do
      let n ← n.asInt?
      pure (fun m _ => do pure (some (← circularPermutation n m)))
  | .list [.atom "invm"] => some (fun m _ => do pure (some (← invertMelody m)))
  | _ => none

def chordAct : SExp → Option (TChord → Ctx → Res (Option TChord))
  | .list [.atom "tag", t] => do
      let t ← t.asAtom?
      pure (fun c _ => pure (some (c.addTag t)))
  | .list [.atom "ctx"] => some (fun c k => pure (some (c.addTag (ctxText k))))
  | .list [.atom "del"] => some (fun _ _ => pure none)
  | .list [.atom "id"] => some (fun c _ => pure (some c))
  | _ => none

def decT : SExp → Option Transformer
  | .list [.atom "T", lvl, act, filter, pre] => do
      let filter := (← filter.asInt?) != 0
      let pre ← match pre with
        | .atom "-" => pure none
        | e => (decMask e).map some
      match ← lvl.asAtom? with
      | "note" => pure { level := .note, actNote := ← noteAct act, filter := filter, pre := pre }
      | "melody" => pure { level := .melody, actMelody := ← melodyAct act, filter := filter, pre := pre }
      | "chord" => pure { level := .chord, actChord := ← chordAct act, filter := filter, pre := pre }
      | _ => none
  | _ => none

/-- the exception the constructor of a library transformer raises (`LimitRegister.__init__`) -/
def ctorErr : SExp → Option Err
  | .list [.atom "T", _, .list [.atom "lr", a, b], _, _] =>
      match decNote a, decNote b with
      | some a, some b => match LimitRegister.make a b with | .error e => some e | .ok _ => none
      | _, _ => none
  | _ => none

def decStep : SExp → Option Step
  | .list [.atom name, t, m] => do pure { name := name, T := ← decT t, on := ← decMask m }
  | _ => none

def stepsCtorErr (steps : SExp) : Option Err :=
  match steps.asList? with
  | some l => l.findSome? (fun st => match st with | .list [_, t, _] => ctorErr t | _ => none)
  | none => none

def showOptElem : Option Elem → String
  | none => "None"
  | some e => toString (encElem e)


/-- `mask(element, **kwargs)` by the generated method of the class of the top node -/
def srcCall (m : Mask) (e : Elem) (k : Ctx) : Option Bool :=
  match m, e with
  | .base, e => some (Src.BaseMask_call {} e k)
  | .atom (.has t), e => some (Src.HasMask_call ⟨t⟩ e k)
  | .atom (.hasAtLeast t), e => some (Src.HasAtLeastMask_call ⟨t⟩ e k)
  | .atom (.beatIn q), e => some (Src.BeatInMask_call ⟨q⟩ e k)
  | .atom (.beatPlayingIn q), .note n => some (Src.BeatPlayingInMask_call ⟨q⟩ n k)
  | .atom (.durationIn q), .note n => some (Src.DurationInMask_call ⟨q⟩ n k)
  | .atom (.durationBetween a b), .note n => some (Src.DurationBetweenMask_call ⟨a, b⟩ n k)
  | .atom (.beatBetween a b), e => some (Src.BeatBetweenMask_call ⟨a, b⟩ e k)
  | .atom (.instruments s), e => some (Src.InstrumentsMask_call ⟨s⟩ e k)
  | .atom (.chordBeatIn q), e => some (Src.ChordBeatInMask_call ⟨q⟩ e k)
  | .atom (.chordBeatPlayingIn q), .chord c => some (Src.ChordBeatPlayingInMask_call ⟨q⟩ c k)
  | .atom (.chordDurationIn q), .chord c => some (Src.ChordDurationInMask_call ⟨q⟩ c k)
  | .atom (.chordDurationBetween a b), .chord c => some (Src.ChordDurationBetweenMask_call ⟨a, b⟩ c k)
  | .atom (.chordBeatBetween a b), e => some (Src.ChordBeatBetweenMask_call ⟨a, b⟩ e k)
  | .atom (.modeIn s), .chord c => some (Src.ModeInMask_call ⟨s⟩ c k)
  | .atom (.chordDegreeIn i), .chord c => some (Src.ChordDegreeInMask_call ⟨i⟩ c k)
  | .atom (.chordExtensionIn s), .chord c => some (Src.ChordExtensionInMask_call ⟨s⟩ c k)
  | .atom (.tonalityDegreeIn i), .chord c => some (Src.TonalityDegreeInMask_call ⟨i⟩ c k)
  | .bool b, e => some (Src.BoolMask_call ⟨b⟩ e k)
  | .type .score, e => some (Src.ScoreMask_call {} e k)
  | .type .chord, e => some (Src.ChordMask_call {} e k)
  | .type .melody, e => some (Src.MelodyMask_call {} e k)
  | .type .note, e => some (Src.NoteMask_call {} e k)
  | .not m, e => some (Src.NotMask_call ⟨m⟩ e k)
  | .and ts, e => some (Src.AndMask_call ⟨ts⟩ e k)
  | .or ts, e => some (Src.OrMask_call ⟨ts⟩ e k)
  | .gt g m, e => some (Src.GtMask_call ⟨g, m⟩ e k)
  | _, _ => none          -- attribute-reading atoms off their element type, the harness's FuncMask atoms

/-- `mask.child(element, **kwargs)` by the generated method of the class of the top node -/
def srcChild (m : Mask) (e : Elem) (k : Ctx) : Option Mask :=
  match m with
  | .base => some (Src.BaseMask_child {} e k)
  | .atom (.has t) => some (Src.HasMask_child ⟨t⟩ e k)
  | .atom (.hasAtLeast t) => some (Src.HasAtLeastMask_child ⟨t⟩ e k)
  | .atom (.beatIn q) => some (Src.BeatInMask_child ⟨q⟩ e k)
  | .atom (.beatPlayingIn q) => some (Src.BeatPlayingInMask_child ⟨q⟩ e k)
  | .atom (.durationIn q) => some (Src.DurationInMask_child ⟨q⟩ e k)
  | .atom (.durationBetween a b) => some (Src.DurationBetweenMask_child ⟨a, b⟩ e k)
  | .atom (.beatBetween a b) => some (Src.BeatBetweenMask_child ⟨a, b⟩ e k)
  | .atom (.instruments s) => some (Src.InstrumentsMask_child ⟨s⟩ e k)
  | .atom (.chordBeatIn q) => some (Src.ChordBeatInMask_child ⟨q⟩ e k)
  | .atom (.chordBeatPlayingIn q) => some (Src.ChordBeatPlayingInMask_child ⟨q⟩ e k)
  | .atom (.chordDurationIn q) => some (Src.ChordDurationInMask_child ⟨q⟩ e k)
  | .atom (.chordDurationBetween a b) => some (Src.ChordDurationBetweenMask_child ⟨a, b⟩ e k)
  | .atom (.chordBeatBetween a b) => some (Src.ChordBeatBetweenMask_child ⟨a, b⟩ e k)
  | .atom (.modeIn s) => some (Src.ModeInMask_child ⟨s⟩ e k)
  | .atom (.chordDegreeIn i) => some (Src.ChordDegreeInMask_child ⟨i⟩ e k)
  | .atom (.chordExtensionIn s) => some (Src.ChordExtensionInMask_child ⟨s⟩ e k)
  | .atom (.tonalityDegreeIn i) => some (Src.TonalityDegreeInMask_child ⟨i⟩ e k)
  | .bool b => some (Src.BoolMask_child ⟨b⟩ e k)
  | .type .score => some (Src.ScoreMask_child {} e k)
  | .type .chord => some (Src.ChordMask_child {} e k)
  | .type .melody => some (Src.MelodyMask_child {} e k)
  | .type .note => some (Src.NoteMask_child {} e k)
  | .not m => some (Src.NotMask_child ⟨m⟩ e k)
  | .and ts => some (Src.AndMask_child ⟨ts⟩ e k)
  | .or ts => some (Src.OrMask_child ⟨ts⟩ e k)
  | .gt g m => some (Src.GtMask_child ⟨g, m⟩ e k)
  | _ => none

/-- `~mask` by the generated `__invert__` of the class of the top node -/
def srcInvert (m : Mask) : Option (Res Mask) :=
  match m with
  | .base => some (.ok (Src.BaseMask_invert {}))
  | .atom (.has t) => some (.ok (Src.HasMask_invert ⟨t⟩))
  | .atom (.hasAtLeast t) => some (.ok (Src.HasAtLeastMask_invert ⟨t⟩))
  | .atom (.beatIn q) => some (.ok (Src.BeatInMask_invert ⟨q⟩))
  | .atom (.beatPlayingIn q) => some (.ok (Src.BeatPlayingInMask_invert ⟨q⟩))
  | .atom (.durationIn q) => some (.ok (Src.DurationInMask_invert ⟨q⟩))
  | .atom (.durationBetween a b) => some (.ok (Src.DurationBetweenMask_invert ⟨a, b⟩))
  | .atom (.beatBetween a b) => some (.ok (Src.BeatBetweenMask_invert ⟨a, b⟩))
  | .atom (.instruments s) => some (.ok (Src.InstrumentsMask_invert ⟨s⟩))
  | .atom (.chordBeatIn q) => some (.ok (Src.ChordBeatInMask_invert ⟨q⟩))
  | .atom (.chordBeatPlayingIn q) => some (.ok (Src.ChordBeatPlayingInMask_invert ⟨q⟩))
  | .atom (.chordDurationIn q) => some (.ok (Src.ChordDurationInMask_invert ⟨q⟩))
  | .atom (.chordDurationBetween a b) => some (.ok (Src.ChordDurationBetweenMask_invert ⟨a, b⟩))
  | .atom (.chordBeatBetween a b) => some (.ok (Src.ChordBeatBetweenMask_invert ⟨a, b⟩))
  | .atom (.modeIn s) => some (.ok (Src.ModeInMask_invert ⟨s⟩))
  | .atom (.chordDegreeIn i) => some (.ok (Src.ChordDegreeInMask_invert ⟨i⟩))
  | .atom (.chordExtensionIn s) => some (.ok (Src.ChordExtensionInMask_invert ⟨s⟩))
  | .atom (.tonalityDegreeIn i) => some (.ok (Src.TonalityDegreeInMask_invert ⟨i⟩))
  | .bool b => some (.ok (Src.BoolMask_invert ⟨b⟩))
  | .type .score => some (.ok (Src.ScoreMask_invert {}))
  | .type .chord => some (.ok (Src.ChordMask_invert {}))
  | .type .melody => some (.ok (Src.MelodyMask_invert {}))
  | .type .note => some (.ok (Src.NoteMask_invert {}))
  | .not m => some (.ok (Src.NotMask_invert ⟨m⟩))
  | .and ts => some (.ok (Src.AndMask_invert ⟨ts⟩))
  | .or ts => some (.ok (Src.OrMask_invert ⟨ts⟩))
  | .gt g m => some (Src.GtMask_invert ⟨g, m⟩)
  | _ => none

def srcGt (l : Lvl) (m : Mask) : Res Mask :=
  match l with
  | .score => Src.ScoreMask_gt {} m
  | .chord => Src.ChordMask_gt {} m
  | .melody => Src.MelodyMask_gt {} m
  | .note => Src.NoteMask_gt {} m

def showMask (m : Mask) : String := toString (encMask m)

/-- `T(element, on=mask, **kwargs)` by the generated `__call__` of the class of `T`: a transformer built with a mask is
an instance of the *MaskFilter class of its family, the others of the family's base class -/
def srcCallT (T : Transformer) (e : Elem) (on : Mask) (K : Ctx) : Res (Option Elem) :=
  match T.level, T.pre.isSome with
  | .note, false => Src.NoteTransformer_call T e on K
  | .melody, false => Src.MelodyTransformer_call T e on K
  | .chord, false => Src.ChordTransformer_call T e on K
  | .note, true => Src.MaskFilter_call T e on K
  | .melody, true => Src.MelodyMaskFilter_call T e on K
  | .chord, true => Src.ChordMaskFilter_call T e on K

end SrcMaskD

open SrcMaskD in
def step : List SExp → String
  | [.atom "mask", .atom w, .atom "call", m, e, k] =>
      match decMask m, decElem e, decCtx k with
      | some m, some e, some k =>
          if w == "src" then
            match srcCall m e k with
            | some b => if b then "1" else "0"
            | none => "bad-args"
          else if m.call e k then "1" else "0"
      | _, _, _ => "bad-args"
  | [.atom "mask", .atom w, .atom "child", m, e, k] =>
      match decMask m, decElem e, decCtx k with
      | some m, some e, some k =>
          if w == "src" then
            match srcChild m e k with
            | some r => showMask r
            | none => "bad-args"
          else showMask (m.child e k)
      | _, _, _ => "bad-args"
  | [.atom "mask", .atom w, .atom "inv", m] =>
      match decMask m with
      | some m =>
          if w == "src" then
            match srcInvert m with
            | some r => showRes showMask r
            | none => "bad-args"
          else showMask m.invert
      | none => "bad-args"
  | [.atom "mask", .atom w, .atom "gt", .atom l, m] =>
      match decLvl l, decMask m with
      | some l, some m => if w == "src" then showRes showMask (srcGt l m) else showMask (.gt (.type l) m)
      | _, _ => "bad-args"
  | [.atom "mask", .atom w, .atom "and", a, b] =>
      match decMask a, decMask b with
      | some a, some b => showMask (if w == "src" then Src.Mask_and a b else .and [a, b])
      | _, _ => "bad-args"
  | [.atom "mask", .atom w, .atom "or", a, b] =>
      match decMask a, decMask b with
      | some a, some b => showMask (if w == "src" then Src.Mask_or a b else .or [a, b])
      | _, _ => "bad-args"
  | [.atom "disp", .atom w, .atom "melody", t, m, e, k] =>
      match ctorErr t with
      | some err => "ERR:" ++ err.toStr
      | none =>
      match decT t, decMask m, decMel e, decCtx k with
      | some t, some m, some e, some k =>
          showRes (fun r => toString (encMel r))
            (if w == "src" then Src.Transformer_apply_on_melody t e m k else applyOnMelody t e m k)
      | _, _, _, _ => "bad-args"
  | [.atom "disp", .atom w, .atom "chord", t, m, e, k] =>
      match ctorErr t with
      | some err => "ERR:" ++ err.toStr
      | none =>
      match decT t, decMask m, decTChord e, decCtx k with
      | some t, some m, some e, some k =>
          showRes (fun r => toString (encTChord r))
            (if w == "src" then Src.Transformer_apply_on_chord t e m k else applyOnChord t e m k)
      | _, _, _, _ => "bad-args"
  | [.atom "disp", .atom w, .atom "score", t, m, e, k] =>
      match ctorErr t with
      | some err => "ERR:" ++ err.toStr
      | none =>
      match decT t, decMask m, decTScore e, decCtx k with
      | some t, some m, some e, some k =>
          showRes (fun r => toString (encTScore r))
            (if w == "src" then Src.Transformer_apply_on_score t e m k else applyOnScore t e m k)
      | _, _, _, _ => "bad-args"
  | [.atom "disp", .atom w, .atom "call", t, m, e, k] =>
      match ctorErr t with
      | some err => "ERR:" ++ err.toStr
      | none =>
      match decT t, decMask m, decElem e, decCtx k with
      | some t, some m, some e, some k =>
          showRes showOptElem (if w == "src" then srcCallT t e m k else callElem t e m k)
      | _, _, _, _ => "bad-args"
  | _ => "bad-op"

def main : IO Unit := runDriver step
