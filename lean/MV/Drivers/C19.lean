/- Correspondence driver for the re-voicing code (C19): parsimonious voice leading, the
voice-leading optimiser (deterministic parts, proposals and loops with scripted draws),
melody-level counterpoint. -/
import MV.Codec
import MV.Model.VoiceLeading
import MV.Model.Counterpoint
open MV MV.Codec

def decDir (e : SExp) : Option Dir :=
  match e.asAtom? with
  | some "-" => some .none
  | some "up" => some .up
  | some "down" => some .down
  | _ => none

def decDirSpec : SExp → Option DirSpec
  | .atom "-" => some .none
  | .list [.atom "all", d] => do pure (.all (← decDir d))
  | .list (.atom "list" :: ds) => do pure (.list (← ds.mapM decDir))
  | _ => none

def decMat (e : SExp) : Option Mat := do (← e.asList?).mapM SExp.asInts?

def decKinds (e : SExp) : Option (List Kind) := do (← e.asStrs?).mapM Kind.ofStr?

def decCfg : SExp → Option VLCfg
  | .list [.atom "cfg", ty, fx, ch] => do
      let types ← decKinds ty
      let fixed ← fx.asStrs?
      let change ← (← ch.asInts?).mapM (fun i => some (i != 0))
      pure { types, fixed, change }
  | _ => none

def decOrders (e : SExp) : Option (List (List String)) := do (← e.asList?).mapM SExp.asStrs?

def showChordHead (c : Chord) : String :=
  s!"({c.elem} \"{c.ext.toText}\" {c.ton.deg} {c.ton.mode.toStr} {c.ton.oct} {c.oct})"

def showMat (m : Mat) : String := "(" ++ " ".intercalate (m.map showInts) ++ ")"

def showStrs (l : List String) : String := "(" ++ " ".intercalate l ++ ")"

def showState (st : VLState) : String :=
  "(" ++ showStrs st.instruments ++ " "
    ++ "(" ++ " ".intercalate (st.kind.map (fun r => showStrs (r.map Kind.toStr))) ++ ") "
    ++ showMat st.val ++ " " ++ showMat st.oct ++ " " ++ showMat st.pitch ++ " " ++ showMat st.mask ++ " "
    ++ "(" ++ " ".intercalate (st.cands.map showMat) ++ "))"

def showScore (s : Score) : String := toString (encScore s)

def showOptInts (l : List (Option Int)) : String :=
  "(" ++ " ".intercalate (l.map showOptInt) ++ ")"

def fnOfMat (m : Mat) : Nat → Nat → Int := fun i j => (m.getD i []).getD j 0
def boolFnOfMat (m : Mat) : Nat → Nat → Bool := fun i j => fnOfMat m i j != 0

def decOptInts (e : SExp) : Option (List (Option Int)) := do
  (← e.asList?).mapM (fun x => match x.asAtom? with
    | some "-" => some none
    | some a => a.toInt?.map some
    | none => none)

/-- common prefix of the optimiser ops: configuration, score, set orders → state -/
def withState (c s o : SExp) (k : VLCfg → VLState → Score → String) : String :=
  match decCfg c, decScore s, decOrders o with
  | some cfg, some sc, some ord =>
      match cfg.init sc ord with
      | .ok (st, _) => k cfg st sc
      | .error e => "ERR:" ++ e.toStr
  | _, _, _ => "bad-args"

def step : List SExp → String
  | [.atom "round", n, d] =>
      match n.asInt?, d.asInt? with
      | some n, some d => toString (roundHalfEven n d)
      | _, _ => "bad-args"
  | [.atom "pvl", a, b, d] =>
      match decChord a, decChord b, decDir d with
      | some a, some b, some d => showRes showChordHead (a.parsimonious b d)
      | _, _, _ => "bad-args"
  | [.atom "spvl", s, ff, spec] =>
      match decScore s, ff.asInt?, decDirSpec spec with
      | some s, some ff, some spec =>
          showRes (fun (r : Score) => "(" ++ " ".intercalate (r.map showChordHead) ++ ")") (Score.parsimonious s (ff != 0) spec)
      | _, _, _ => "bad-args"
  | [.atom "octaves", c, fuel, s] =>
      match decCfg c, fuel.asNat?, decScore s with
      | some cfg, some fuel, some s => showRes showScore (cfg.findOptimalOctaves fuel s)
      | _, _, _ => "bad-args"
  | [.atom "normalize", s, o] =>
      match decScore s, decOrders o with
      | some s, some o => showScore (normalizeInstruments s o)
      | _, _ => "bad-args"
  | [.atom "init", c, s, o] => withState c s o (fun _ st _ => showState st)
  | [.atom "pitchsol", c, s, o, dv] =>
      match decMat dv with
      | some dv => withState c s o (fun _ st _ => showRes showMat (st.pitchSolution dv))
      | none => "bad-args"
  | [.atom "sgn", c, s, o, dv] =>
      match decMat dv with
      | some dv => withState c s o (fun _ st _ => showRes showMat (do st.sgnMov (← st.pitchSolution dv)))
      | none => "bad-args"
  | [.atom "vprop", c, s, o, dv, u1, u2, mn] =>
      match decMat dv, decMat u1, decMat u2, mn.asInt? with
      | some dv, some u1, some u2, some mn =>
          withState c s o (fun _ st _ => showRes showMat (st.voicesProposal dv ⟨boolFnOfMat u1, boolFnOfMat u2⟩ mn))
      | _, _, _, _ => "bad-args"
  | [.atom "vopt", c, s, o, dv, mn, draws, acc] =>
      match decMat dv, mn.asInt?, draws.asList?, acc.asInts? with
      | some dv, some mn, some draws, some acc =>
          match draws.mapM (fun d => match d with
              | .list [a, b] => do pure (← decMat a, ← decMat b)
              | _ => none) with
          | some ds =>
              let draw : Nat → Draw := fun it =>
                let (a, b) := ds.getD it ([], [])
                ⟨boolFnOfMat a, boolFnOfMat b⟩
              withState c s o (fun _ st _ =>
                showRes showMat (st.voicesOptim mn draw (fun it => acc.getD it 0 != 0) ds.length 0 dv))
          | none => "bad-args"
      | _, _, _, _ => "bad-args"
  | [.atom "rprop", c, s, o, dv, dl, mn] =>
      match decMat dv, decMat dl, mn.asInt? with
      | some dv, some dl, some mn =>
          withState c s o (fun _ st _ => showRes showMat (st.rulesProposal dv (fnOfMat dl) mn))
      | _, _, _ => "bad-args"
  | [.atom "ropt", c, s, o, dv, mn, deltas, acc] =>
      match decMat dv, mn.asInt?, deltas.asList?, acc.asInts? with
      | some dv, some mn, some deltas, some acc =>
          match deltas.mapM decMat with
          | some ds =>
              withState c s o (fun _ st _ =>
                showRes showMat (st.rulesOptim mn (fun it => fnOfMat (ds.getD it [])) (fun it => acc.getD it 0 != 0) ds.length 0 dv))
          | none => "bad-args"
      | _, _, _, _ => "bad-args"
  | [.atom "random", c, s, o, dv, mi, rs, best] =>
      match decMat dv, mi.asNat?, rs.asList?, best.asNat? with
      | some dv, some mi, some rs, some best =>
          match rs.mapM decMat with
          | some rs =>
              withState c s o (fun _ st _ =>
                showRes showMat (st.randomOptim dv mi (fun k => fnOfMat (rs.getD k [])) best))
          | none => "bad-args"
      | _, _, _, _ => "bad-args"
  | [.atom "getscore", c, s, o, dv] =>
      match decMat dv with
      | some dv => withState c s o (fun _ st sc => showRes showScore (st.getScore sc dv))
      | none => "bad-args"
  -- end to end with the solution the real optimiser chose: find_optimal_octaves, init, get_score
  | [.atom "callsol", c, fuel, s, o, dv] =>
      match decCfg c, fuel.asNat?, decScore s, decOrders o, decMat dv with
      | some cfg, some fuel, some s, some o, some dv =>
          showRes showScore (do
            let s1 ← cfg.findOptimalOctaves fuel s
            let (st, _) ← cfg.init s1 o
            st.getScore s1 dv)
      | _, _, _, _, _ => "bad-args"
  | [.atom "corrected", n, nb, nv] =>
      match decNote n, nb.asInt?, nv.asInt? with
      | some n, some nb, some nv => toString (encNote (correctedNote n nb nv))
      | _, _, _ => "bad-args"
  -- counterpoint (melody level)
  | [.atom "parserel", m] =>
      match decMelody m with
      | some m => showRes (fun r => toString (encMelody r)) (parseRelativeToAbsolute m)
      | none => "bad-args"
  | [.atom "getarray", m] =>
      match decMelody m with
      | some m => showOptInts (getArray m)
      | none => "bad-args"
  | [.atom "getarrayfixed", m] =>
      match decMelody m with
      | some m => showOptInts (getArrayFixed none m)
      | none => "bad-args"
  | [.atom "projrhythm", r, m] =>
      match decMelody r, decMelody m with
      | some r, some m => showRes (fun x => toString (encMelody x)) (projectOnRhythm r m)
      | _, _ => "bad-args"
  | [.atom "convert", m, arr] =>
      match decMelody m, decOptInts arr with
      | some m, some arr => showRes (fun x => toString (encMelody x)) (convertArrayToMelody m arr)
      | _, _ => "bad-args"
  | [.atom "cp", fx, vs, ds] =>
      match fx.asList?, vs.asList?, decMat ds with
      | some fx, some vs, some ds =>
          match fx.mapM decMelody, vs.mapM decMelody with
          | some fx, some vs =>
              showRes (fun (r : List Melody) => "(" ++ " ".intercalate (r.map (fun x => toString (encMelody x))) ++ ")")
                (createCounterpoint (fnOfMat ds) fx vs)
          | _, _ => "bad-args"
      | _, _, _ => "bad-args"
  | _ => "bad-op"

def main : IO Unit := runDriver step
