/- Correspondence driver for C06: per function name, the verdict of the effect checker and the declared
write set (which operands may be stored through), from the generated table `MV.Gen.Effects`.

  (verdict <fn>)                 -> pure | writes(<roots>) | rejected | unknown
  (obs <fn> (<root> ...))        -> within | undeclared(<roots>)     observed mutated roots vs declared ones
  (info)                         -> number of functions / allowed writers / defects / assumptions

Roots: `self` = first parameter (first operand of the monitor), `argN` = parameter N+1; a function that is
not in the table (external callee) declares nothing. -/
import MV.Proto
import MV.Model.Effects
import MV.Gen.Effects
open MV MV.Effects MV.Gen.Effects

def fnId? (name : String) : Option Nat := FN_NAMES.findIdx? (· == name)

def rootName (i : Nat) : String := if i == 1 then "self" else "arg" ++ toString (i - 1)

/-- declared roots of a function: its written parameters (for a rejected definition: additionally the
parameters through which the rejected stores go, and `any` when a store goes through an External) -/
def declared (name : String) : Option (List String) :=
  match fnId? name with
  | none => none
  | some i =>
      match TABLE i with
      | none => none
      | some d =>
          let extra := (writeSet TABLE d).map (fun v => match v.root with
            | some k => rootName k
            | none => "any")
          some ((d.writes.map rootName ++ extra).eraseDups)

def step : List SExp → String
  | [.atom "verdict", .atom name] =>
      match fnId? name with
      | none => "unknown"
      | some i =>
          if !(okAt TABLE i) then "rejected"
          else match TABLE i with
            | none => "unknown"
            | some d => if d.writes.isEmpty then "pure" else "writes(" ++ ",".intercalate (d.writes.map rootName) ++ ")"
  | [.atom "obs", .atom name, .list roots] =>
      let obs := roots.filterMap SExp.asAtom?
      let decl := (declared name).getD []
      -- an observed root `a/b` (the same object passed twice) is fine if one of the alternatives is declared
      let bad := obs.filter (fun r => !((r.splitOn "/").any decl.contains) && !(decl.contains "any"))
      if bad.isEmpty then "within" else "undeclared(" ++ ",".intercalate bad ++ ")"
  | [.atom "info"] =>
      s!"functions={NFUN} allowed={ALLOWED.length} defects={DEFECTS.length} assumed_fresh={ASSUMED_FRESH.length} assumed_pure={ASSUMED_PURE.length}"
  | _ => "bad-op"

def main : IO Unit := runDriver step
