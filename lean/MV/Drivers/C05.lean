/- Correspondence driver for the text form and its evaluation (C05). -/
import MV.Codec
import MV.Model.Text
open MV MV.SExp MV.Codec MV.Text

/-- one-line rendering of a printed form -/
def esc (s : String) : String := (s.replace "\n" "\\n").replace "\t" "\\t"

/-! decoders of codes -/

def decOp : SExp → Option Op
  | .list [.atom "attr", .atom s] => some (.attr s)
  | .list [.atom "o", k] => do pure (.o (← k.asInt?))
  | .list [.atom "oabs", k] => do pure (.oabs (← k.asInt?))
  | .list [.atom "aug", a, b] => do pure (.augment (← a.asInt?) (← b.asInt?))
  | .list [.atom "tags", ts] => do pure (.addTags (← ts.asStrs?))
  | .list [.atom "setamp", k] => do pure (.setAmp (← k.asInt?))
  | _ => none

def decCode : SExp → Option Code
  | .list [.atom "k", .atom sym, ops] => do pure { sym := sym, ops := ← (← ops.asList?).mapM decOp }
  | _ => none

def decCodes (e : SExp) : Option (List Code) := do (← e.asList?).mapM decCode

def decTOp : SExp → Option TOp
  | .atom "b" => some .flat
  | .atom "s" => some .sharp
  | .list [.atom "m", .atom md] => do pure (.mode (← Mode.ofStr? md))
  | .list [.atom "o", k] => do pure (.o (← k.asInt?))
  | _ => none

def decTCode : SExp → Option TCode
  | .list [.atom "tc", .atom sym, ops] => do pure { sym := sym, ops := ← (← ops.asList?).mapM decTOp }
  | _ => none

def decOptInt (e : SExp) : Option (Option Int) :=
  match e with
  | .atom "-" => some none
  | e => (e.asInt?).map some

def decOptExt (e : SExp) : Option (Option Ext) :=
  match e with
  | .atom "-" => some none
  | e => (decExt e).map some

def decPartCodes (e : SExp) : Option PartCodes := do
  (← e.asList?).mapM (fun p => match p with
    | .list [.atom name, cs] => do pure (name, ← decCodes cs)
    | _ => none)

def decChordCode : SExp → Option ChordCode
  | .list [.atom "cc", .atom sym, ext, t, o, parts] => do
      pure { sym := sym, ext := ← decOptExt ext, ton := ← decTCode t, oct := ← decOptInt o, parts := ← decPartCodes parts }
  | _ => none

def decCustomCode : SExp → Option CustomCode
  | .list [.atom "xc", t, notes, o, parts] => do
      pure { ton := ← decTCode t, notes := ← decCodes notes, oct := ← decOptInt o, parts := ← decPartCodes parts }
  | _ => none

def decItemCode (e : SExp) : Option ItemCode :=
  match decChordCode e with
  | some c => some (.plain c)
  | none => (decCustomCode e).map .custom

def decItem : SExp → Option Item
  | .list [.atom "p", c] => do pure (.plain (← decChord c))
  | .list [.atom "x", notes, c] => do pure (.custom { notes := ← decMelody notes, chord := ← decChord c })
  | _ => none

def decItems (e : SExp) : Option (List Item) := do (← e.asList?).mapM decItem

/-! encoders (tags sorted: the harness compares them as sets) -/

def encOp : Op → SExp
  | .attr s => .list [.atom "attr", .atom s]
  | .o k => .list [.atom "o", ofInt k]
  | .oabs k => .list [.atom "oabs", ofInt k]
  | .augment a b => .list [.atom "aug", ofInt a, ofInt b]
  | .addTags ts => .list [.atom "tags", .list ((sortStrs ts).map .atom)]
  | .setAmp k => .list [.atom "setamp", ofInt k]

def encCode (c : Code) : SExp := .list [.atom "k", .atom c.sym, .list (c.ops.map encOp)]

def encTOp : TOp → SExp
  | .flat => .atom "b"
  | .sharp => .atom "s"
  | .mode md => .list [.atom "m", .atom md.toStr]
  | .o k => .list [.atom "o", ofInt k]

def encTCode (c : TCode) : SExp := .list [.atom "tc", .atom c.sym, .list (c.ops.map encTOp)]

def encOptInt : Option Int → SExp
  | none => .atom "-"
  | some k => ofInt k

def encOptExt : Option Ext → SExp
  | none => .atom "-"
  | some e => encExt e

def encPartCodes (ps : PartCodes) : SExp := .list (ps.map (fun p => .list [.atom p.1, .list (p.2.map encCode)]))

def encChordCode (c : ChordCode) : SExp :=
  .list [.atom "cc", .atom c.sym, encOptExt c.ext, encTCode c.ton, encOptInt c.oct, encPartCodes c.parts]

def encCustomCode (c : CustomCode) : SExp :=
  .list [.atom "xc", encTCode c.ton, .list (c.notes.map encCode), encOptInt c.oct, encPartCodes c.parts]

def encItemCode : ItemCode → SExp
  | .plain c => encChordCode c
  | .custom c => encCustomCode c

def sortedTags (n : Note) : Note := { n with tags := sortStrs n.tags }
def encNoteS (n : Note) : SExp := encNote (sortedTags n)
def encChordS (c : Chord) : SExp :=
  encChord { c with parts := c.parts.map (fun p => (p.1, p.2.map sortedTags)) }

def encItem : Item → SExp
  | .plain c => .list [.atom "p", encChordS c]
  | .custom c => .list [.atom "x", .list (c.notes.map encNoteS), encChordS c.chord]

def encObj : Obj → SExp
  | .chord i => encItem i
  | .score l => .list (.atom "score" :: l.map encItem)

def encRow (r : SeqRow) : SExp :=
  .list [ofInt r.chordIdx, ofRat r.start, ofInt r.elem, encExt r.ext, ofInt r.coct, encTon r.ton,
         .atom r.inst, ofBool r.silence, ofBool r.cont, .atom r.kind.toStr, ofInt r.val, ofInt r.oct, ofRat r.amp, ofRat r.dur]

def decRow : SExp → Option SeqRow
  | .list [ci, st, el, ex, co, t, .atom inst, sil, cont, .atom k, v, o, amp, d] => do
      pure { chordIdx := ← ci.asNat?, start := ← st.asRat?, elem := ← el.asInt?, ext := ← decExt ex, coct := ← co.asInt?,
             ton := ← decTon t, inst := inst, silence := (← sil.asAtom?) == "1", cont := (← cont.asAtom?) == "1",
             kind := ← Kind.ofStr? k, val := ← v.asInt?, oct := ← o.asInt?, amp := ← amp.asRat?, dur := ← d.asRat? }
  | _ => none

def sx (e : SExp) : String := toString e

def step : List SExp → String
  -- notes and melodies
  | [.atom "ncode", n] =>
      match decNote n with
      | some n => esc (noteCode n).text
      | none => "bad-args"
  | [.atom "nops", n] =>
      match decNote n with
      | some n => sx (encCode (noteCode n))
      | none => "bad-args"
  | [.atom "neval", c] =>
      match decCode c with
      | some c => showRes (fun n => sx (encNoteS n)) (evalCode c)
      | none => "bad-args"
  | [.atom "mcode", m] =>
      match decMelody m with
      | some m => esc (melodyText (melodyCodes m))
      | none => "bad-args"
  | [.atom "meval", cs] =>
      match decCodes cs with
      | some cs => showRes (fun (m : Melody) => sx (.list (m.map encNoteS))) (evalMelody cs)
      | none => "bad-args"
  -- tonalities
  | [.atom "tcode", t] =>
      match decTon t with
      | some t => showRes (fun (c : TCode) => c.text) (tonCode t)
      | none => "bad-args"
  | [.atom "tops", t] =>
      match decTon t with
      | some t => showRes (fun (c : TCode) => sx (encTCode c)) (tonCode t)
      | none => "bad-args"
  | [.atom "teval", c] =>
      match decTCode c with
      | some c => showRes (fun (t : Tonality) => sx (encTon t)) (evalTCode c)
      | none => "bad-args"
  -- chords, custom chords
  | [.atom "icode", i] =>
      match decItem i with
      | some i => showRes (fun (c : ItemCode) => esc c.text) (itemCode i)
      | none => "bad-args"
  | [.atom "iops", i] =>
      match decItem i with
      | some i => showRes (fun (c : ItemCode) => sx (encItemCode c)) (itemCode i)
      | none => "bad-args"
  | [.atom "ieval", c] =>
      match decItemCode c with
      | some c => showRes (fun (i : Item) => sx (encItem i)) (evalItem c)
      | none => "bad-args"
  -- scores
  | [.atom "scode", s] =>
      match decItems s with
      | some s => showRes (fun (cs : List ItemCode) => esc (scoreText cs)) (scoreCodes s)
      | none => "bad-args"
  | [.atom "fromstr", cs] =>
      match cs.asList? >>= (·.mapM decItemCode) with
      | some cs => showRes (fun (l : List Obj) => sx (.list (l.map encObj))) (fromStr cs)
      | none => "bad-args"
  | [.atom "reread", s] =>
      match decItems s with
      | some s => showRes (fun (l : List Obj) => sx (.list (l.map encObj))) (reread s)
      | none => "bad-args"
  -- the tabular form
  | [.atom "rows", s] =>
      match decScore s with
      | some s => showRes (fun (l : List SeqRow) => sx (.list (l.map encRow))) (scoreRows s 0 0)
      | none => "bad-args"
  | [.atom "fromrows", rs] =>
      match rs.asList? >>= (·.mapM decRow) with
      | some rs => showRes (fun (s : Score) => sx (.list (s.map encChordS))) (fromRows rs)
      | none => "bad-args"
  | _ => "bad-request"

def main : IO Unit := runDriver step
