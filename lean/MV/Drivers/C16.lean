/- Correspondence driver for ornament realisation (C16).

requests                                        replies
  (limit q)                                       q' = Fraction(q).limit_denominator(LIMIT_DENOM)
  (note <note> <last|-> <next|->)                 (d1 d2 …)  durations of the figure | ERR:<class>
  (melody (<note>…) <last|-> <final|->)           (d1 d2 …)
  (score <score>)                                 ((part d…) …)|((part d…) …)   one group per chord | None
  (rows <score>)                                  ((offset duration)…)|…         one group per track
-/
import MV.Codec
import MV.Model.Ornament
open MV MV.Codec MV.Orn

def showRat (q : Rat) : String := toString (SExp.ofRat q)

def showDurs (l : List Note) : String := "(" ++ " ".intercalate (l.map (fun n => showRat n.dur)) ++ ")"

def decOptNote (e : SExp) : Option (Option Note) :=
  match e with
  | .atom "-" => some none
  | e => (decNote e).map some

def showChordParts (c : Chord) : String :=
  "(" ++ " ".intercalate (c.parts.map (fun p => "(" ++ " ".intercalate (p.1 :: p.2.map (fun n => showRat n.dur)) ++ ")")) ++ ")"

def showRows (l : List (Rat × Rat)) : String :=
  "(" ++ " ".intercalate (l.map (fun r => "(" ++ showRat r.1 ++ " " ++ showRat r.2 ++ ")")) ++ ")"

def step : List SExp → String
  | [.atom "limit", q] =>
      match q.asRat? with
      | some q => showRat (limitDen q)
      | none => "bad-args"
  | [.atom "note", n, l, x] =>
      match decNote n, decOptNote l, decOptNote x with
      | some n, some l, some x => showRes (fun (r : NM) => showDurs r.notes) (realizeTags limitDen n l x)
      | _, _, _ => "bad-args"
  | [.atom "melody", m, l, x] =>
      match decMelody m, decOptNote l, decOptNote x with
      | some m, some l, some x => showRes showDurs (melodyRealize limitDen m l x)
      | _, _, _ => "bad-args"
  | [.atom "score", s] =>
      match decScore s with
      | some s => showRes (fun (r : Option Score) => match r with
          | none => "None"
          | some cs => "|".intercalate (cs.map showChordParts)) (scoreRealize limitDen s)
      | none => "bad-args"
  | [.atom "rows", s] =>
      match decScore s with
      | some s => showRes (fun (r : List (List (Rat × Rat))) => "|".intercalate (r.map showRows)) (scoreRows limitDen s)
      | none => "bad-args"
  | _ => "bad-op"

def main : IO Unit := runDriver step
