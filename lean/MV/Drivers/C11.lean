/- Correspondence driver for the re-notations (C11). -/
import MV.Codec
import MV.Model.Renotate
open MV MV.Codec

/-- the fields of a note that decide what is played -/
def showNote (n : Note) : String :=
  s!"({n.kind.toStr} {n.val} {n.oct} {SExp.ofRat n.dur} {(n.mode.map Mode.toStr).getD "-"} {(n.acc.map Acc.toStr).getD "-"})"

def showPart (p : String × Melody) : String :=
  "(" ++ p.1 ++ " " ++ " ".intercalate (p.2.map showNote) ++ ")"

/-- extension text with `( )` written `< >` (atoms of the line protocol have no parentheses) -/
def showExt (e : Ext) : String :=
  let t := (e.toText.replace "(" "<").replace ")" ">"
  if t.isEmpty then "\"\"" else t

def showChord (c : Chord) : String :=
  s!"(c {c.elem} {showExt c.ext} {c.ton.deg} {c.ton.mode.toStr} {c.ton.oct} {c.oct} " ++
    " ".intercalate (c.parts.map showPart) ++ ")"

def showScore (s : Score) : String := "(" ++ " ".intercalate (s.map showChord) ++ ")"

def showSound (s : Score) : String :=
  match plays s with
  | .error e => "ERR:" ++ e.toStr
  | .ok per =>
      let names := trackList s
      "(" ++ " ".intercalate ((names.zip per).map (fun (nm, evs) =>
        "(" ++ nm ++ " " ++ " ".intercalate (evs.map (fun (p, o, d) => s!"({p} {SExp.ofRat o} {SExp.ofRat d})")) ++ ")")) ++ ")"

/-- one re-notation by name; `arg` is the maximal chord length for `split` -/
def applyOp (op : String) (arg : Rat) (s : Score) : Res Score :=
  match op with
  | "to_absolute_note" => Score.toAbsoluteNote s
  | "to_scale_note" => Score.toScaleNote s
  | "to_standard_note" => Score.toStandardNote s
  | "to_chord_note" => Score.toChordNote s
  | "to_extension_note" => Score.toExtensionNote s
  | "decompose_duration" => Score.decomposeDuration s
  | "correct_chord_octave" => Score.correctChordOctave s
  | "normalize_instruments" => pure (Score.normalizeInstruments s)
  | "normalize_instrument_names" => pure (Score.normalizeInstrumentNames s)
  | "split" => Score.splitTooLongChords s arg
  | "remove_empty_chords" => pure (Score.removeEmptyChords s)
  | "normalize" => Score.normalize s
  | _ => .error .attr

def applyOps : List String → Rat → Score → Res Score
  | [], _, s => pure s
  | op :: ops, arg, s => do applyOps ops arg (← applyOp op arg s)

def step : List SExp → String
  -- (renotate (op…) arg score) : the re-notated score, note by note
  | [.atom "renotate", ops, arg, s] =>
      match ops.asStrs?, arg.asRat?, decScore s with
      | some ops, some arg, some s => showRes showScore (applyOps ops arg s)
      | _, _, _ => "bad-args"
  -- (sound (op…) arg score) : what the re-notated score plays according to the model
  | [.atom "sound", ops, arg, s] =>
      match ops.asStrs?, arg.asRat?, decScore s with
      | some ops, some arg, some s =>
          match applyOps ops arg s with
          | .ok s' => showSound s'
          | .error e => "ERR:" ++ e.toStr
      | _, _, _ => "bad-args"
  -- note level
  | [.atom "note", .atom op, c, n, last] =>
      match decChord c, decNote n, last.asAtom? with
      | some c, some n, some l =>
          let last := if l == "-" then none else l.toInt?
          match op with
          | "to_absolute_note" => showRes showNote (n.toAbsoluteNote c last)
          | "to_scale_note" => showRes showNote (n.toScaleNote c)
          | "to_standard_note" => showRes showNote (n.toStandardNote c)
          | "to_chord_note" => showRes showNote (n.toChordNote c)
          | "to_extension_note" => showRes showNote (n.toExtensionNote c)
          | "decompose_duration" => showRes (fun m => "(" ++ " ".intercalate (m.map showNote) ++ ")") n.decomposeDuration
          | _ => "bad-op"
      | _, _, _ => "bad-args"
  | [.atom "between", m, a, b] =>
      match decMelody m, a.asRat?, b.asRat? with
      | some m, some a, some b => showRes (fun m => "(" ++ " ".intercalate (m.map showNote) ++ ")") (getMelodyBetween m a b)
      | _, _, _ => "bad-args"
  | [.atom "bass", c] =>
      match decChord c with
      | some c => showRes toString c.bassPitch
      | none => "bad-args"
  | _ => "bad-op"

def main : IO Unit := runDriver step
