/- Driver for the source images of group `SrcMidiUtil` (DESIGN.md §9.6): the pure helpers of the MIDI writer on the
writer's model (`MV/Model/Midi.lean`, `trackList` of `MV/Model/Render.lean`).  `(k mod args…)` = hand-written model,
`(k src args…)` = generated source image.

  (n2c w n)                    → channel of the n-th program
  (v2c w il voice programs)    → `voice_to_channel(il, voice, {i: programs[i]})`
  (t2i w (track…))             → "((i program)…) [name]…"
  (gtl w score)                → "[track]…"
  (gdlp w chord track time p)  → pitch of the row `get_or_default_last_pitch` hands on (`-` = None) -/
import MV.Codec
import MV.Gen.SrcMidiUtil
open MV MV.Codec MV.Midi

def showNames (l : List String) : String := String.join (l.map (fun n => "[" ++ n ++ "]"))

def showPrograms (d : List (Int × Int)) : String :=
  "(" ++ " ".intercalate (d.map (fun p => s!"({p.1} {p.2})")) ++ ")"

def step : List SExp → String
  | [.atom "n2c", .atom w, n] =>
      match n.asInt? with
      | some n => if w == "src" then showOptInt (Src.number_to_channel n) else toString (numberToChannel n)
      | none => "bad-args"
  | [.atom "v2c", .atom w, il, voice, progs] =>
      match il.asInts?, voice.asNat?, progs.asInts? with
      | some il, some voice, some progs =>
          if w == "src" then showRes toString (Src.voice_to_channel il (voice : Int) (Src.pyEnumerate progs))
          -- the model's `idxOf` is total; outside the precondition of the tie theorem (the program does not occur in the
          -- list, where the code raises ValueError) the model is not what C07 uses and is not consulted
          else if il.contains ((progs[voice]?).getD 0) then toString (voiceToChannel il progs voice)
          else "ERR:ValueError"
      | _, _, _ => "bad-args"
  | [.atom "t2i", .atom w, tracks] =>
      match tracks.asStrs? with
      | some tracks =>
          if w == "src" then
            showRes (fun (r : Src.Programs × List String) => showPrograms r.1 ++ " " ++ showNames r.2) (Src.tracks_to_instruments tracks)
          else
            let r := tracksToInstruments tracks        -- programs by position = the dict {i: program}
            showPrograms (r.1.zipIdx.map (fun p => ((p.2 : Int), p.1))) ++ " " ++ showNames r.2
      | none => "bad-args"
  | [.atom "gtl", .atom w, s] =>
      match decScore s with
      | some s => showNames (if w == "src" then Src.get_track_list s else trackList s)
      | none => "bad-args"
  | [.atom "gdlp", .atom w, c, tr, time, last] =>
      match decChord c, tr.asNat?, time.asRat?, (match last with | .atom "-" => some none | e => (e.asInt?).map some) with
      | some c, some tr, some time, some last =>
          let row := last.map (fun p => ({ pitch := p, offset := 0, dur := 1, vel := 66, track := tr, silence := false, cont := false } : Row))
          -- the model has no function for it: `trackRows` passes the reference on as it is
          showOptInt ((if w == "src" then Src.get_or_default_last_pitch c tr time row else row).map (·.pitch))
      | _, _, _, _ => "bad-args"
  | _ => "bad-op"

def main : IO Unit := runDriver step
