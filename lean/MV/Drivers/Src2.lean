/- Driver for the source images that live on the slicing model (DESIGN.md §9.6); separate from `Src.lean` because
`MV/Model/Slice.lean` and `MV/Model/Transpose.lean` both model `Chord.__call__` under the same name. -/
import MV.Codec
import MV.Gen.SrcSlice
import MV.Gen.SrcDur
open MV MV.Codec

def step : List SExp → String
  | [.atom "gmb", .atom w, m, a, b] =>
      match decMelody m, a.asRat?, b.asRat? with
      | some m, some a, some b =>
          showRes (fun (r : Melody) => toString (encMelody r))
            (if w == "src" then Src.get_melody_between m a b else getMelodyBetween m a b false)
      | _, _, _ => "bad-args"
  | [.atom "mdur", .atom w, m] =>
      match decMelody m with
      | some m => toString (SExp.ofRat (if w == "src" then Src.Melody_duration m else melodyDuration m))
      | none => "bad-args"
  | [.atom "cdur", .atom w, c] =>
      match decChord c with
      | some c => showRes (fun q => toString (SExp.ofRat q)) (if w == "src" then Src.Chord_duration c else .ok c.dur)
      | none => "bad-args"
  | [.atom "sdur", .atom w, s] =>
      match decScore s with
      | some s => showRes (fun q => toString (SExp.ofRat q)) (if w == "src" then Src.Score_duration s else .ok (scoreDuration s))
      | none => "bad-args"
  | _ => "bad-op"

def main : IO Unit := runDriver step
