/- Driver for the source images that live on the slicing model (DESIGN.md §9.6); separate from `Src.lean` because
`MV/Model/Slice.lean` and `MV/Model/Transpose.lean` both model `Chord.__call__` under the same name. -/
import MV.Codec
import MV.Gen.SrcSlice
import MV.Gen.SrcDur
import MV.Gen.SrcMetric
open MV MV.Codec

def showBeats (x : List (Bool × Rat) × Bool) : String :=
  toString (SExp.list [SExp.list (x.1.map (fun p => SExp.list [SExp.ofBool p.1, SExp.ofRat p.2])), SExp.ofBool x.2])
def decGrid (arr sig tatum nb : SExp) : Option Rhythm.Metric :=
  match arr.asInts?, sig, tatum.asRat?, nb.asInt? with
  | some a, .list [x, y], some t, some n =>
      match x.asInt?, y.asInt? with
      | some x, some y => some { array := a, sig := (x, y), tatum := t, nbBars := n }
      | _, _ => none
  | _, _, _, _ => none

def step : List SExp → String
  | [.atom "beats", .atom w, tatum, arr] =>
      match tatum.asRat?, arr.asInts? with
      | some t, some a =>
          let m : Rhythm.Metric := { array := [1, 0, 0, 0], sig := (4, 4), tatum := t, nbBars := 1 }
          showRes showBeats (if w == "src" then Src.Metric_get_beat_durations m a else Rhythm.getBeatDurations t a)
      | _, _ => "bad-args"
  | [.atom "compl", .atom w, arr, sig, tatum, nb] =>
      match decGrid arr sig tatum nb with
      | some m => showRes (fun (r : Rhythm.Metric) => showInts r.array) (if w == "src" then Src.Metric_complementary m else m.complementary)
      | none => "bad-args"
  | [.atom "cshift", .atom w, arr, sig, tatum, nb, n] =>
      match decGrid arr sig tatum nb, n.asInt? with
      | some m, some n => showRes (fun (r : Rhythm.Metric) => showInts r.array) (if w == "src" then Src.Metric_circular_shift m n else m.circularShift n)
      | _, _ => "bad-args"
  | [.atom "gmb", .atom w, m, a, b] =>
      match decMelody m, a.asRat?, b.asRat? with
      | some m, some a, some b =>
          showRes (fun (r : Melody) => toString (encMelody r))
            (if w == "src" then Src.get_melody_between m a b else getMelodyBetween m a b false)
      | _, _, _ => "bad-args"
  | [.atom "mdur", .atom w, m] =>
      match decMelody m with
      | some m => toString (SExp.ofRat (if w == "src" then Src.Melody_duration m else melodyDuration m))
      | none => "bad-args"
  | [.atom "cdur", .atom w, c] =>
      match decChord c with
      | some c => showRes (fun q => toString (SExp.ofRat q)) (if w == "src" then Src.Chord_duration c else .ok c.dur)
      | none => "bad-args"
  | [.atom "sdur", .atom w, s] =>
      match decScore s with
      | some s => showRes (fun q => toString (SExp.ofRat q)) (if w == "src" then Src.Score_duration s else .ok (scoreDuration s))
      | none => "bad-args"
  | _ => "bad-op"

def main : IO Unit := runDriver step
