/- Driver for the source images of the group `SrcImport` (DESIGN.md §9.6): for every kernel `k`, `(k mod args…)` evaluates the
hand-written model of `MV/Model/Import.lean` (`MV/Model/ImportItem.lean` for the matrix form of the items) and `(k src args…)`
the definition py2lean generated from the live `musiclang/analyze/to_musiclang.py` / `item.py` / `note.py`. -/
import MV.Codec
import MV.Model.ImportItem
import MV.Gen.SrcImport
open MV MV.Codec

def decItem : SExp → Option Item
  | .list [.atom "i", s, e, v, p, t, c, vo] => do
      pure { start := ← s.asRat?, stop := ← e.asRat?, vel := ← v.asInt?, pitch := ← p.asInt?,
             track := ← t.asInt?, channel := ← c.asInt?, voice := ← vo.asInt? }
  | _ => none

def decItems (e : SExp) : Option (List Item) := do (← e.asList?).mapM decItem

def decRow : SExp → Option ItemRow
  | .list [s, e, v, p, t, c, vo] => do
      pure (← s.asRat?, ← e.asRat?, ← v.asInt?, ← p.asInt?, ← t.asInt?, ← c.asInt?, ← vo.asInt?)
  | _ => none

def decInstr : SExp → Option (Int × String)
  | .list [c, .atom name] => do pure (← c.asInt?, name)
  | _ => none

def decBar : SExp → Option (Rat × Rat)
  | .list [a, b] => do pure (← a.asRat?, ← b.asRat?)
  | _ => none

def showNote (n : Note) : String :=
  s!"({n.kind.toStr} {n.val} {n.oct} {SExp.ofRat n.dur} {SExp.ofRat n.amp})"

def showMelody (m : Melody) : String := "(" ++ " ".intercalate (m.map showNote) ++ ")"

def showOptNote : Option Note → String
  | none => "-"
  | some n => showNote n

def showChord (c : Chord) : String :=
  s!"(({c.elem} {c.ton.deg} {c.ton.mode.toStr} {c.ton.oct} {c.oct}) " ++
    " ".intercalate (c.parts.map (fun p => s!"({p.1} {showMelody p.2})")) ++ ")"

def showScore (s : Score) : String := "(" ++ " ".intercalate (s.map showChord) ++ ")"

def showRow (r : ItemRow) : String :=
  s!"({SExp.ofRat r.1} {SExp.ofRat r.2.1} {r.2.2.1} {r.2.2.2.1} {r.2.2.2.2.1} {r.2.2.2.2.2.1} {r.2.2.2.2.2.2})"

def showItem (i : Item) : String :=
  s!"(i {SExp.ofRat i.start} {SExp.ofRat i.stop} {i.vel} {i.pitch} {i.track} {i.channel} {i.voice})"

def decCont (cont : String) : Option (Option Note) :=
  if cont == "-" then some none
  else match (SExp.atom cont).asRat? with
    | some d => some (some (mkContinuation d))
    | none => none

def step : List SExp → String
  | [.atom "naug", .atom w, n, v] =>
      match decNote n, v.asRat? with
      | some n, some v => showNote (if w == "src" then Src.Note_augment n v else n.augment v)
      | _, _ => "bad-args"
  | [.atom "pnote", .atom w, it, d, c, tick] =>
      match decItem it, d.asRat?, decChord c, tick.asRat? with
      | some it, some d, some c, some tick =>
          showRes showNote (if w == "src" then Src.parse_note it d c tick else parseNote c it d tick)
      | _, _, _, _ => "bad-args"
  | [.atom "pvoice", .atom w, items, c, bs, be, tick, cont, drum] =>
      match decItems items, decChord c, bs.asRat?, be.asRat?, tick.asRat?, cont.asAtom?, drum.asInt? with
      | some items, some c, some bs, some be, some tick, some cont, some drum =>
          match decCont cont with
          | some cont =>
              showRes (fun (r : Melody × Option Note) => s!"{showMelody r.1} {showOptNote r.2}")
                (if w == "src" then Src.parse_voice items c bs be tick cont (drum != 0)
                 else parseVoice items c bs be tick cont (drum != 0))
          | none => "bad-args"
      | _, _, _, _, _, _, _ => "bad-args"
  | [.atom "iscore", .atom w, items, chords, instr, bars] =>
      match decItems items, (do (← chords.asList?).mapM decChord), (do (← instr.asList?).mapM decInstr),
            (do (← bars.asList?).mapM decBar) with
      | some items, some chords, some instr, some bars =>
          showRes showScore (if w == "src" then Src.infer_score_with_chords_durations items chords instr bars
                             else inferScore items chords instr bars)
      | _, _, _, _ => "bad-args"
  | [.atom "iarray", .atom w, it] =>
      match decItem it with
      | some it => showRow (if w == "src" then Src.Item_array it else it.array)
      | none => "bad-args"
  | [.atom "imatrix", .atom w, rows] =>
      match (do (← rows.asList?).mapM decRow) with
      | some rows => "(" ++ " ".intercalate ((if w == "src" then Src.Item_frommatrix rows else Item.frommatrix rows).map showItem) ++ ")"
      | none => "bad-args"
  | _ => "bad-op"

def main : IO Unit := runDriver step
