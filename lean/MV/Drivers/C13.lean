/- Correspondence driver for harmonic projection (C13). -/
import MV.Codec
import MV.Model.Project
open MV MV.Codec MV.Proj

/-- observable part of a note: symbol and duration; the amplitude only for sounding kinds -/
def showNote (n : Note) : String :=
  let md := match n.mode with | some x => x.toStr | none => "-"
  let a := match n.acc with | some a => a.toStr | none => "-"
  let amp := if n.kind.isNote then toString (SExp.ofRat n.amp) else "-"
  s!"({n.kind.toStr} {n.val} {n.oct} {SExp.ofRat n.dur} {md} {a} {amp})"

def showMelody (m : Melody) : String := "(" ++ " ".intercalate (m.map showNote) ++ ")"

def showChord (c : Chord) : String :=
  let parts := " ".intercalate (c.parts.map (fun p => s!"({p.1} {showMelody p.2})"))
  let ext := if c.ext.toText.isEmpty then "\"\"" else (c.ext.toText.replace "(" "<").replace ")" ">"
  s!"({c.elem} {ext} {c.ton.deg} {c.ton.mode.toStr} {c.ton.oct} {c.oct} ({parts}))"

def showScore (s : Score) : String := "(" ++ " ".intercalate (s.map showChord) ++ ")"

def showOptScore : Option Score → String
  | none => "None"
  | some s => showScore s

def asBool? (e : SExp) : Option Bool :=
  match e with
  | .atom "1" => some true
  | .atom "0" => some false
  | _ => none

def step : List SExp → String
  | [.atom "project", s1, s2, kp, vl, ks, rp, ao] =>
      match decScore s1, decScore s2, asBool? kp, asBool? vl, asBool? ks, asBool? rp, asBool? ao with
      | some s1, some s2, some kp, some vl, some ks, some rp, some ao =>
          showRes showOptScore (projectOnScore s1 s2
            { keepPitch := kp, voiceLeading := vl, keepScore := ks, repeatToDuration := rp, allowOverride := ao })
      | _, _, _, _, _, _, _ => "bad-args"
  | [.atom "plain", s1, s2, ks] =>
      match decScore s1, decScore s2, asBool? ks with
      | some s1, some s2, some ks => showRes showOptScore (projectPlain s1 s2 ks)
      | _, _, _ => "bad-args"
  | [.atom "between", s, a, b] =>
      match decScore s, a.asRat?, b.asRat? with
      | some s, some a, some b => showRes showOptScore (getScoreBetween s a b)
      | _, _, _ => "bad-args"
  | [.atom "melbetween", m, a, b] =>
      match decMelody m, a.asRat?, b.asRat? with
      | some m, some a, some b => showRes showMelody (getMelodyBetween m a b)
      | _, _, _ => "bad-args"
  | [.atom "same", s] =>
      match decScore s with
      | some s => showRes showChord (putOnSameChord s)
      | none => "bad-args"
  | [.atom "onechord", s] =>
      match decScore s with
      | some s => showRes (fun (r : Chord × List Int) => showChord r.1 ++ " " ++ showInts r.2) (projectOnOneChord s)
      | none => "bad-args"
  | [.atom "offset", c1, c2] =>
      match decChord c1, decChord c2 with
      | some c1, some c2 => showRes toString (offsetBetweenChords c1 c2)
      | _, _ => "bad-args"
  | [.atom "toabs", s] =>
      match decScore s with
      | some s => showRes showScore (scoreToAbsolute s)
      | none => "bad-args"
  | [.atom "toscale", s] =>
      match decScore s with
      | some s => showRes showScore (scoreToScale s)
      | none => "bad-args"
  | [.atom "duration", s] =>
      match decScore s with
      | some s => toString (SExp.ofRat (scoreDuration s))
      | none => "bad-args"
  | _ => "bad-op"

def main : IO Unit := runDriver step
