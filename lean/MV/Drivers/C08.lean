/- Correspondence driver for the music21 / MusicXML exporter (C08). -/
import MV.Codec
import MV.Model.MxlSound
open MV MV.Codec MV.Mxl

def showElem : Rat × Elem → String
  | (t, e) =>
    match e.pitch with
    | some m => s!"(N {m} {SExp.ofRat t} {SExp.ofRat e.dur} {match e.tie with | some x => x.toStr | none => "-"})"
    | none => s!"(R {SExp.ofRat t} {SExp.ofRat e.dur})"

def showEv (e : Ev) : String := s!"({e.pitch} {SExp.ofRat e.onset} {SExp.ofRat e.dur})"

def showList (f : α → String) (l : List α) : String := "(" ++ " ".intercalate (l.map f) ++ ")"

/-- `score_to_music_21`: the voices of all parts in the order of `score.instruments`;
the first failing part aborts the export -/
def exportOf (s : Score) (noRepeat : Bool) : Res (List (String × List Elem)) :=
  (trackList s).mapM (fun p => do pure (p, ← voiceOf s p noRepeat))

def step : List SExp → String
  -- (export score norepeat) → every part with the elements of its voice
  | [.atom "export", s, nr] =>
      match decScore s, nr.asInt? with
      | some s, some nr =>
          showRes (showList (fun (pv : String × List Elem) => "(" ++ pv.1 ++ " " ++ showList showElem (offsets pv.2 0) ++ ")"))
            (exportOf s (nr != 0))
      | _, _ => "bad-args"
  -- (voice score part norepeat)  → every element of the part's voice with its offset
  | [.atom "voice", s, .atom part, nr] =>
      match decScore s, nr.asInt? with
      | some s, some nr => showRes (fun v => showList showElem (offsets v 0)) (voiceOf s part (nr != 0))
      | _, _ => "bad-args"
  -- (vsound score part) → what the voice sounds (ties merged), MIDI key numbers
  | [.atom "vsound", s, .atom part] =>
      match decScore s with
      | some s => showRes (fun v => showList showEv (soundV v)) (voiceOf s part)
      | none => "bad-args"
  -- (rsound score part) → what the part's rows of the note matrix sound, as MIDI key numbers
  | [.atom "rsound", s, .atom part] =>
      match decScore s with
      | some s => showRes (fun rows => showList showEv ((soundR rows).map Ev.key)) (rowsOf s part)
      | none => "bad-args"
  -- (spell chord note last) → "midi pitch" of get_note_spelling
  | [.atom "spell", c, n, last] =>
      match decChord c, decNote n, last.asAtom? with
      | some c, some n, some l =>
          let last := if l == "-" then none else l.toInt?
          showRes (fun (mp : Int × Int) => s!"{mp.1} {mp.2}") (do
            let (sp, p) ← getNoteSpelling c n last
            let m ← sp.midi
            pure (m, p))
      | _, _, _ => "bad-args"
  -- (name text octave) → MIDI number music21 reads
  | [.atom "name", .atom nm, o] =>
      match o.asInt? with
      | some o => match nameToMidi nm o with | some m => toString m | none => "ERR:Exception"
      | none => "bad-args"
  | [.atom "key", t] =>
      match decTon t with
      | some t => showRes id (keyName t)
      | none => "bad-args"
  | _ => "bad-op"

def main : IO Unit := runDriver step
