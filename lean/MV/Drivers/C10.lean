/- Correspondence driver for the duration calculus (C10). -/
import MV.Codec
import MV.Model.Duration
open MV MV.Codec

def decArg : SExp → Option DArg
  | .list [.atom "i", v] => v.asInt?.map DArg.int
  | .list [.atom "f", v] => v.asRat?.map DArg.float
  | .list [.atom "q", v] => v.asRat?.map DArg.frac
  | .list [.atom "bad"] => some DArg.bad
  | _ => none

def showRat (q : Rat) : String := toString (SExp.ofRat q)

/-- a malformed argument (a `str`): only *that* it is rejected is compared, not the exception class
(the property does not talk about it) -/
def showResA (a : DArg) (f : α → String) (r : Res α) : String :=
  match a, r with
  | .bad, .error _ => "ERR:bad-arg"
  | _, r => showRes f r

def showNote (n : Note) : String := s!"{n.kind.toStr},{n.val},{n.oct},{showRat n.dur}"

def showNotes (m : Melody) : String := "[" ++ " ".intercalate (m.map showNote) ++ "]"

def showMel (m : Melody) : String := showNotes m ++ "=" ++ showRat (Melody.duration m)

def showChord (c : Chord) : String :=
  "{" ++ " ".intercalate (c.parts.map (fun p => p.1 ++ ":" ++ showNotes p.2)) ++ "}=" ++ showRat c.duration

def showScore (s : Score) : String :=
  "<" ++ " + ".intercalate (s.map showChord) ++ ">=" ++ showRat (Score.duration s)

def showRats (l : List Rat) : String := "(" ++ " ".intercalate (l.map showRat) ++ ")"

def step : List SExp → String
  | [.atom "limit", mx, q] =>
      match mx.asInt?, q.asRat? with
      | some mx, some q => showRes showRat (limitDenominatorChecked mx q)
      | _, _ => "bad-args"
  | [.atom "rdbl", q] =>
      match q.asRat? with
      | some q => showRat (roundDouble q)
      | none => "bad-args"
  | [.atom "fdiv", x, y] =>
      match x.asRat?, y.asRat? with
      | some x, some y => if y = 0 then "ERR:ZeroDivisionError" else showRat (roundDouble (x / y))
      | _, _ => "bad-args"
  -- notes
  | [.atom "nsuf", n, item] =>
      match decNote n, item.asAtom? with
      | some n, some it => showRes showNote (n.suffix it)
      | _, _ => "bad-args"
  | [.atom "nset", n, a] =>
      match decNote n, decArg a with
      | some n, some a => showResA a showNote (n.setDuration a)
      | _, _ => "bad-args"
  | [.atom "naug", n, a] =>
      match decNote n, decArg a with
      | some n, some a => showResA a showNote (n.augment a)
      | _, _ => "bad-args"
  | [.atom "nmul", n, k] =>
      match decNote n, k.asInt? with
      | some n, some k => showMel (n.mul k)
      | _, _ => "bad-args"
  | [.atom "ndec", n] =>
      match decNote n with
      | some n => showRes showMel n.decomposeDuration
      | none => "bad-args"
  -- melodies
  | [.atom "mdur", m] =>
      match decMelody m with
      | some m => showRat (Melody.duration m)
      | none => "bad-args"
  | [.atom "madd", a, b] =>
      match decMelody a, decMelody b with
      | some a, some b => showMel (Melody.add a b)
      | _, _ => "bad-args"
  | [.atom "mmul", m, k] =>
      match decMelody m, k.asInt? with
      | some m, some k => showMel (Melody.mul m k)
      | _, _ => "bad-args"
  | [.atom "maug", m, a] =>
      match decMelody m, decArg a with
      | some m, some a => showResA a showMel (Melody.augment m a)
      | _, _ => "bad-args"
  | [.atom "mset", m, a] =>
      match decMelody m, decArg a with
      | some m, some a => showResA a showMel (Melody.setDuration m a)
      | _, _ => "bad-args"
  | [.atom "msuf", m, item] =>
      match decMelody m, item.asAtom? with
      | some m, some it => showRes showMel (Melody.suffix m it)
      | _, _ => "bad-args"
  | [.atom "mdec", m] =>
      match decMelody m with
      | some m => showRes showMel (Melody.decomposeDuration m)
      | none => "bad-args"
  | [.atom "mons", m] =>
      match decMelody m with
      | some m => showRats (Melody.onsetTimes m)
      | none => "bad-args"
  -- chords
  | [.atom "cdur", c] =>
      match decChord c with
      | some c => showRat c.duration
      | none => "bad-args"
  | [.atom "caug", c, a] =>
      match decChord c, decArg a with
      | some c, some a => showResA a showChord (c.augment a)
      | _, _ => "bad-args"
  | [.atom "cset", c, a] =>
      match decChord c, decArg a with
      | some c, some a => showResA a showChord (c.setDuration a)
      | _, _ => "bad-args"
  | [.atom "csuf", c, item] =>
      match decChord c, item.asAtom? with
      | some c, some it => showRes showChord (c.suffix it)
      | _, _ => "bad-args"
  | [.atom "cmul", c, k] =>
      match decChord c, k.asInt? with
      | some c, some k => showScore (c.mul k)
      | _, _ => "bad-args"
  | [.atom "cadd", a, b] =>
      match decChord a, decChord b with
      | some a, some b => showScore (a.add b)
      | _, _ => "bad-args"
  | [.atom "cdec", c] =>
      match decChord c with
      | some c => showRes showChord c.decomposeDuration
      | none => "bad-args"
  -- scores
  | [.atom "sdur", s] =>
      match decScore s with
      | some s => showRat (Score.duration s)
      | none => "bad-args"
  | [.atom "sadd", a, b] =>
      match decScore a, decScore b with
      | some a, some b => showScore (Score.add a b)
      | _, _ => "bad-args"
  | [.atom "saddc", a, c] =>
      match decScore a, decChord c with
      | some a, some c => showScore (Score.addChord a c)
      | _, _ => "bad-args"
  | [.atom "smul", s, k] =>
      match decScore s, k.asInt? with
      | some s, some k =>
          match Score.mul s k with
          | some r => showScore r
          | none => "None"
      | _, _ => "bad-args"
  | [.atom "sset", s, a] =>
      match decScore s, decArg a with
      | some s, some a => showResA a showScore (Score.setDuration s a)
      | _, _ => "bad-args"
  | [.atom "saug", s, a] =>
      match decScore s, decArg a with
      | some s, some a => showResA a showScore (Score.augment s a)
      | _, _ => "bad-args"
  | [.atom "ssuf", s, item] =>
      match decScore s, item.asAtom? with
      | some s, some it => showRes showScore (Score.suffix s it)
      | _, _ => "bad-args"
  | [.atom "sdec", s] =>
      match decScore s with
      | some s => showRes showScore (Score.decomposeDuration s)
      | none => "bad-args"
  | _ => "bad-op"

def main : IO Unit := runDriver step
