/- Driver for the source images of group `SrcSpell` (DESIGN.md §9.6): `get_note_spelling` and `tonality_to_music21_key`
of `to_mxl.py` on the exporter model (`MV/Model/Mxl.lean`).  `(k mod args…)` = hand-written model, `(k src args…)` =
generated source image.

  (gns w chord note last)   → "name octave midi pitch": the name and octave of the music21 note (flats written `b`; for
                               the chromatic fallback the name music21 itself gives to the pitch class), its sounding
                               MIDI number (`pitch.ps`) and the returned pitch
  (m21key w tonality)        → the name handed to `music21.key.Key` -/
import MV.Codec
import MV.Gen.SrcSpell
open MV MV.Codec MV.Mxl

/-- the spelling music21 chooses for `Note(pc)` -/
def defaultName (pc : Int) : String :=
  (["C", "C#", "D", "Eb", "E", "F", "F#", "G", "G#", "A", "Bb", "B"][pc.toNat]?).getD "?"

def showSpelling (sp : Spelling) (p : Int) : String :=
  let (name, oct) := match sp with
    | .named name oct => (name, oct)
    | .chromatic pc oct => (defaultName pc, oct)
  match sp.midi with
  | .ok m => s!"{name} {oct} {m} {p}"
  | .error e => s!"{name} {oct} ERR:{e.toStr} {p}"

def decLast (e : SExp) : Option (Option Int) :=
  match e with
  | .atom "-" => some none
  | e => (e.asInt?).map some

def step : List SExp → String
  | [.atom "gns", .atom w, c, n, last] =>
      match decChord c, decNote n, decLast last with
      | some c, some n, some last =>
          if w == "src" then
            showRes (fun (r : Spelling × Option Int) => match r.2 with
              | some p => showSpelling r.1 p
              | none => "pitch-None") (Src.get_note_spelling n c last)
          else
            showRes (fun (r : Spelling × Int) => showSpelling r.1 r.2) (getNoteSpelling c n last)
      | _, _, _ => "bad-args"
  | [.atom "m21key", .atom w, t] =>
      match decTon t with
      | some t => showRes id (if w == "src" then Src.tonality_to_music21_key t else keyName t)
      | none => "bad-args"
  | _ => "bad-op"

def main : IO Unit := runDriver step
