/- Driver for the source images of group `SrcBetweenProject` (DESIGN.md §9.6): the slicing / gathering / projection functions
of `time_utils.py` on the projection model (`MV/Model/Project.lean`).  `(k mod args…)` = hand-written model,
`(k src args…)` = generated source image. -/
import MV.Codec
import MV.Gen.SrcBetweenProject
open MV MV.Codec MV.Proj

/-- observable part of a note (as Drivers/C13): symbol and duration; the amplitude only for sounding kinds -/
def showNote (n : Note) : String :=
  let md := match n.mode with | some x => x.toStr | none => "-"
  let a := match n.acc with | some a => a.toStr | none => "-"
  let amp := if n.kind.isNote then toString (SExp.ofRat n.amp) else "-"
  s!"({n.kind.toStr} {n.val} {n.oct} {SExp.ofRat n.dur} {md} {a} {amp})"

def showMelody (m : Melody) : String := "(" ++ " ".intercalate (m.map showNote) ++ ")"

def showChord (c : Chord) : String :=
  let parts := " ".intercalate (c.parts.map (fun p => s!"({p.1} {showMelody p.2})"))
  let ext := if c.ext.toText.isEmpty then "\"\"" else (c.ext.toText.replace "(" "<").replace ")" ">"
  s!"({c.elem} {ext} {c.ton.deg} {c.ton.mode.toStr} {c.ton.oct} {c.oct} ({parts}))"

def showScore (s : Score) : String := "(" ++ " ".intercalate (s.map showChord) ++ ")"

def showOptScore : Option Score → String
  | none => "None"
  | some s => showScore s

def asBool? (e : SExp) : Option Bool :=
  match e with
  | .atom "1" => some true
  | .atom "0" => some false
  | _ => none

def step : List SExp → String
  | [.atom "pgmb", .atom w, m, a, b] =>
      match decMelody m, a.asRat?, b.asRat? with
      | some m, some a, some b =>
          showRes showMelody (if w == "src" then Src.get_melody_between m a b else getMelodyBetween m a b)
      | _, _, _ => "bad-args"
  | [.atom "pgcb", .atom w, c, a, b] =>
      match decChord c, a.asRat?, b.asRat? with
      | some c, some a, some b =>
          showRes showChord (if w == "src" then Src.get_chord_between c a b else getChordBetween c a b)
      | _, _, _ => "bad-args"
  | [.atom "pgsb", .atom w, s, a, b] =>
      match decScore s, a.asRat?, b.asRat? with
      | some s, some a, some b =>
          showRes showOptScore (if w == "src" then Src.get_score_between s a b else getScoreBetween s a b)
      | _, _, _ => "bad-args"
  | [.atom "posc", .atom w, s] =>
      match decScore s with
      | some s => showRes showChord (if w == "src" then Src.put_on_same_chord s else putOnSameChord s)
      | none => "bad-args"
  | [.atom "proj", .atom w, s1, s2, ks] =>
      match decScore s1, decScore s2, asBool? ks with
      | some s1, some s2, some ks =>
          showRes showOptScore (if w == "src" then Src.project_on_score s1 s2 ks else projectPlain s1 s2 ks)
      | _, _, _ => "bad-args"
  | _ => "bad-op"

def main : IO Unit := runDriver step
