/- Correspondence driver for C14: `Chord.parse`, `_parse_voice`, `infer_score_with_chords_durations`,
`Fraction.limit_denominator`. -/
import MV.Codec
import MV.Model.Import
open MV MV.Codec

def decItem : SExp → Option Item
  | .list [.atom "i", s, e, v, p, t, c, vo] => do
      pure { start := ← s.asRat?, stop := ← e.asRat?, vel := ← v.asInt?, pitch := ← p.asInt?,
             track := ← t.asInt?, channel := ← c.asInt?, voice := ← vo.asInt? }
  | _ => none

def decItems (e : SExp) : Option (List Item) := do (← e.asList?).mapM decItem

def decInstr : SExp → Option (Int × String)
  | .list [c, .atom name] => do pure (← c.asInt?, name)
  | _ => none

def decBar : SExp → Option (Rat × Rat)
  | .list [a, b] => do pure (← a.asRat?, ← b.asRat?)
  | _ => none

def showNote (n : Note) : String :=
  s!"({n.kind.toStr} {n.val} {n.oct} {SExp.ofRat n.dur} {SExp.ofRat n.amp})"

def showMelody (m : Melody) : String := "(" ++ " ".intercalate (m.map showNote) ++ ")"

def showOptNote : Option Note → String
  | none => "-"
  | some n => showNote n

def showChord (c : Chord) : String :=
  s!"(({c.elem} {c.ton.deg} {c.ton.mode.toStr} {c.ton.oct} {c.oct}) " ++
    " ".intercalate (c.parts.map (fun p => s!"({p.1} {showMelody p.2})")) ++ ")"

def showScore (s : Score) : String := "(" ++ " ".intercalate (s.map showChord) ++ ")"

def step : List SExp → String
  | [.atom "parse", c, p] =>
      match decChord c, p.asInt? with
      | some c, some p => showRes (fun (n : Note) => s!"{n.kind.toStr} {n.val} {n.oct}") (c.parse p)
      | _, _ => "bad-args"
  -- parse then read back: the pitch of the parsed note
  | [.atom "reparse", c, p] =>
      match decChord c, p.asInt? with
      | some c, some p => showRes showOptInt (do c.toPitch (← c.parse p) none)
      | _, _ => "bad-args"
  | [.atom "limden", q, m] =>
      match q.asRat?, m.asNat? with
      | some q, some m => toString (SExp.ofRat (limitDenominator q m))
      | _, _ => "bad-args"
  | [.atom "pvoice", items, c, bs, be, tick, cont, drum] =>
      match decItems items, decChord c, bs.asRat?, be.asRat?, tick.asRat?, cont.asAtom?, drum.asInt? with
      | some items, some c, some bs, some be, some tick, some cont, some drum =>
          let cont : Option (Option Note) :=
            if cont == "-" then some none
            else match (SExp.atom cont).asRat? with
              | some d => some (some (mkContinuation d))
              | none => none
          match cont with
          | some cont =>
              showRes (fun (r : Melody × Option Note) => s!"{showMelody r.1} {showOptNote r.2}")
                (parseVoice items c bs be tick cont (drum != 0))
          | none => "bad-args"
      | _, _, _, _, _, _, _ => "bad-args"
  | [.atom "import", items, chords, instr, bars] =>
      match decItems items, (do (← chords.asList?).mapM decChord), (do (← instr.asList?).mapM decInstr),
            (do (← bars.asList?).mapM decBar) with
      | some items, some chords, some instr, some bars => showRes showScore (inferScore items chords instr bars)
      | _, _, _, _ => "bad-args"
  | _ => "bad-op"

def main : IO Unit := runDriver step
