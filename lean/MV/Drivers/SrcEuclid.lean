/- Driver for the source-tie group `SrcEuclid` (DESIGN.md §9.6): every kernel answers `(k mod op args…)` with the hand-written
model of `MV/Model/Metric.lean` and `(k src op args…)` with the source image `MV/Gen/SrcEuclid.lean`.  A kernel is a family of
operations, the operation is the first argument.  The source images that take a bound (`rec_fuel`: iterations of the
`while` loop, depth of `build`) are given `pulses.toNat + 4`, the bound the tie theorem `bjorklund_src` proves sufficient. -/
import MV.Codec
import MV.Gen.SrcEuclid
open MV MV.Codec MV.Rhythm

namespace SrcEuclidDriver

def decSig : SExp → Option (Int × Int)
  | .list [a, b] => do pure (← a.asInt?, ← b.asInt?)
  | _ => none

def decOptRat (e : SExp) : Option (Option Rat) :=
  match e with
  | .atom "-" => some none
  | _ => (e.asRat?).map some

def decBool (e : SExp) : Option Bool :=
  match e with
  | .atom "1" => some true
  | .atom "0" => some false
  | _ => none

def showNote (n : Note) : String :=
  toString (SExp.list [.atom n.kind.toStr, SExp.ofInt n.val, SExp.ofInt n.oct, SExp.ofRat n.dur,
    encOpt Mode.toStr n.mode, encOpt Acc.toStr n.acc])

def showMelody (l : List Note) : String := "(" ++ " ".intercalate (l.map showNote) ++ ")"

def showArray (m : Metric) : String := showInts m.array

def showRat (q : Rat) : String := toString (SExp.ofRat q)

def showWindow (x : List Int × Rat × Rat) : String :=
  toString (SExp.list [SExp.ofInts x.1, SExp.ofRat x.2.1, SExp.ofRat x.2.2])

/-- the grid as the Python object holds it (the harness only sends grids the constructor accepted) -/
def decGrid (arr sig tatum nb : SExp) : Option Metric := do
  pure { array := ← arr.asInts?, sig := ← decSig sig, tatum := ← tatum.asRat?, nbBars := ← nb.asInt? }

def decBeats (e : SExp) : Option (List (Bool × Rat)) := do
  (← e.asList?).mapM (fun p => match p with
    | .list [b, d] => do pure (← decBool b, ← d.asRat?)
    | _ => none)

def fuelFor (pulses : Int) : Nat := pulses.toNat + 4

end SrcEuclidDriver
open SrcEuclidDriver

def step : List SExp → String
  -- family `eucl`
  | [.atom "eucl", .atom w, .atom "bjork", steps, pulses] =>
      match steps.asInt?, pulses.asInt? with
      | some s, some p => showRes showInts (if w == "src" then Src.bjorklund_algorithm (fuelFor p) s p else bjorklund s p)
      | _, _ => "bad-args"
  | [.atom "eucl", .atom w, .atom "nsteps", sig, tatum, nb] =>
      match decSig sig, tatum.asRat?, nb.asInt? with
      | some s, some t, some nb => showRes (fun (i : Int) => toString i) (if w == "src" then Src.Metric_nb_steps () s t nb else nbSteps s t nb)
      | _, _, _ => "bad-args"
  | [.atom "eucl", .atom w, .atom "euclidian", pulses, sig, tatum, nb] =>
      match pulses.asInt?, decSig sig, tatum.asRat?, nb.asInt? with
      | some p, some s, some t, some nb =>
          showRes showArray (if w == "src" then Src.Metric_Euclidian (fuelFor p) () p s t nb else euclidian p s t nb)
      | _, _, _, _ => "bad-args"
  | [.atom "eucl", .atom w, .atom "euclidm", arr, sig, tatum, nb, pulses] =>
      match decGrid arr sig tatum nb, pulses.asInt? with
      | some m, some p =>
          showRes showArray (if w == "src" then Src.Metric_euclidian (fuelFor p) m p else euclidian p m.sig m.tatum m.nbBars)
      | _, _ => "bad-args"
  -- family `egrid`
  | [.atom "egrid", .atom w, .atom "dur", arr, sig, tatum, nb] =>
      match decGrid arr sig tatum nb with
      | some m => showRes showRat (if w == "src" then Src.Metric_duration m else (if m.sig.2 = 0 then .error .zerodiv else .ok m.duration))
      | none => "bad-args"
  | [.atom "egrid", .atom w, .atom "rev", arr, sig, tatum, nb] =>
      match decGrid arr sig tatum nb with
      | some m => showRes showArray (if w == "src" then Src.Metric_reversed m else m.reversed)
      | none => "bad-args"
  | [.atom "egrid", .atom w, .atom "gab", arr, sig, tatum, nb, start, stop] =>
      match decGrid arr sig tatum nb, decOptRat start, decOptRat stop with
      | some m, some s, some e => showRes showWindow (if w == "src" then Src.Metric_get_array_between m s e else m.getArrayBetween s e)
      | _, _, _ => "bad-args"
  -- family `eapply`
  | [.atom "eapply", .atom w, .atom "adm", notes, beats, first, expand] =>
      match decMelody notes, decBeats beats, decBool first, decBool expand with
      | some n, some b, some f, some e =>
          showRes showMelody (if w == "src" then Src.Metric_apply_durations_to_melody () n b f e else applyDurations n b f e)
      | _, _, _, _ => "bad-args"
  | [.atom "eapply", .atom w, .atom "atm", arr, sig, tatum, nb, notes, expand, start, stop] =>
      match decGrid arr sig tatum nb, decMelody notes, decBool expand, decOptRat start, decOptRat stop with
      | some m, some notes, some ex, some s, some e =>
          showRes showMelody (if w == "src" then Src.Metric_apply_to_melody m notes ex s e else m.applyToMelody notes ex s e)
      | _, _, _, _, _ => "bad-args"
  -- family `efrom`
  | [.atom "efrom", .atom w, .atom "from", notes, sig, tatum, nb] =>
      match decMelody notes, decSig sig, decOptRat tatum, nb.asInt? with
      | some n, some s, some t, some nb => showRes showArray (if w == "src" then Src.Metric_FromMelody () n s t nb else fromMelody n s t nb)
      | _, _, _, _ => "bad-args"
  | [.atom "efrom", .atom w, .atom "fromm", arr, sig, tatum, nb, notes] =>
      match decGrid arr sig tatum nb, decMelody notes with
      | some m, some n => showRes showArray (if w == "src" then Src.Metric_from_melody m n else m.fromMelody n)
      | _, _ => "bad-args"
  | _ => "bad-op"

def main : IO Unit := runDriver step
