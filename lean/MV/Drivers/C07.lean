/- Correspondence driver for the MIDI writer (C07). -/
import MV.Codec
import MV.Model.Midi
open MV MV.Codec MV.Midi

def showMsg : Int × Msg → Option String
  | (t, .program _ c p) => some s!"(pc {t} {c} {p})"
  | (_, .trackName _) => none
  | (t, .setTempo _ v) => some s!"(tempo {t} {v})"
  | (t, .timeSig _ n d) => some s!"(ts {t} {n} {d})"
  | (t, .noteOn _ c k v) => some s!"(on {t} {c} {k} {v})"
  | (t, .noteOff _ c k v) => some s!"(off {t} {c} {k} {v})"

def showTracks (tracks : List (List Msg)) : String :=
  "(" ++ " ".intercalate (tracks.map (fun tr => "(" ++ " ".intercalate ((decode tr).filterMap showMsg) ++ ")")) ++ ")"

/-- matrix row: (pitch offset dur vel track silence cont) -/
def decRow : SExp → Option Row
  | .list [p, o, d, v, t, s, c] => do
      pure { pitch := ← p.asInt?, offset := ← o.asRat?, dur := ← d.asRat?, vel := ← v.asRat?,
             track := ← t.asNat?, silence := (← s.asInt?) != 0, cont := (← c.asInt?) != 0 }
  | _ => none

def showRow (r : Row) : String :=
  s!"({r.pitch} {SExp.ofRat r.offset} {SExp.ofRat r.dur} {SExp.ofRat r.vel} {r.track})"

def step : List SExp → String
  | [.atom "midi", s, tempo, n, d] =>
      match decScore s, tempo.asInt?, n.asInt?, d.asInt? with
      | some s, some t, some n, some d => showRes showTracks (scoreToMidi s t (n, d))
      | _, _, _, _ => "bad-args"
  | [.atom "matrix", rows, tracks, tempo, n, d] =>
      match rows.asList? >>= (·.mapM decRow), tracks.asStrs?, tempo.asInt?, n.asInt?, d.asInt? with
      | some rows, some tracks, some t, some n, some d =>
          let (programs, names) := tracksToInstruments tracks
          showRes showTracks (matrixToMid rows names programs t (n, d))
      | _, _, _, _, _ => "bad-args"
  | [.atom "merge", rows] =>
      match rows.asList? >>= (·.mapM decRow) with
      | some rows => "(" ++ " ".intercalate ((mergeContinuations rows).map showRow) ++ ")"
      | none => "bad-args"
  | [.atom "bpm2tempo", b] =>
      match b.asInt? with
      | some b => toString (bpm2tempo b)
      | none => "bad-args"
  | [.atom "program", name] =>
      match name.asAtom? with
      | some n => toString (programOf (splitName n))
      | none => "bad-args"
  | _ => "bad-op"

def main : IO Unit := runDriver step
