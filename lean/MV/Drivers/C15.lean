/- Correspondence driver for the roman-numeral annotation parser (C15).

Texts travel as lists of Unicode code points (annotations contain blanks and brackets):
  (parse (c1 c2 …))                ScoreFormatter(text).parse()  → time signature, pickup, chords
  (lex (c1 c2 …))                  ScoreFormatter(text).elements
  (figure (c1 …) key mode)         analyze_one_chord(figure, key, mode) + the chord built from it
  (tonality (c1 …))                CurrentTonality(text)
  (beat (c1 …) num den)            Beat(text).get_real_value(parent) for a parent in num/den
  (limit n d max)                  Fraction(n, d).limit_denominator(max)
-/
import MV.Codec
import MV.Model.Roman
open MV MV.Codec MV.Roman

def decStr (e : SExp) : Option Str := do
  let l ← e.asInts?
  pure (l.map (fun i => Char.ofNat i.toNat))

def showRat (q : Rat) : String := toString (SExp.ofRat q)

def showChord (c : Chord) : String :=
  s!"{c.elem} \"{c.ext.toText}\" {c.ton.deg} {c.ton.mode.toStr}"

def showOut (o : OutChord) : String := s!"({showChord o.chord} {showRat o.dur})"

def showParsed (p : Parsed) : String :=
  s!"ts={p.ts.1}/{p.ts.2} pickup={showRat p.pickup} chords=[" ++ " ".intercalate (p.chords.map showOut) ++ "]"

def showElem : Elem → String
  | .ts n d => s!"TS({String.ofList n},{String.ofList d})"
  | .tonLine t => s!"TonLine({String.ofList t})"
  | .bar i => s!"Bar({i})"
  | .beat v => s!"Beat({String.ofList v})"
  | .curTon k md => s!"Ton({k},{md.toStr})"
  | .chord t => s!"Chord({String.ofList t})"
  | .event => "Event"

def hasEvent (els : List Elem) : Bool := els.any (fun e => e == Elem.event)

def step : List SExp → String
  | [.atom "parse", t] =>
      match decStr t with
      | some t =>
          match lexText t with
          | .error e => "ERR:" ++ e.toStr
          | .ok els => if hasEvent els then "unsupported" else showRes showParsed (parseElems els)
      | none => "bad-args"
  | [.atom "lex", t] =>
      match decStr t with
      | some t => showRes (fun els => " ".intercalate (els.map showElem)) (lexText t)
      | none => "bad-args"
  | [.atom "figure", f, k, m] =>
      match decStr f, k.asInt?, m.asAtom?.bind KMode.ofStr? with
      | some f, some k, some md =>
          match analyzeOneChord f k md with
          | .error e => "ERR:" ++ e.toStr
          | .ok (d, e, fk, fm) =>
              let head := s!"{d} \"{String.ofList e}\" {fk} {fm.toStr}"
              match makeChord d e fk fm with
              | .error err => head ++ " chord=ERR:" ++ err.toStr
              | .ok c => head ++ " chord=\"" ++ c.ext.toText ++ "\" pitches=" ++ showRes showInts c.extensionPitches
      | _, _, _ => "bad-args"
  | [.atom "tonality", t] =>
      match decStr t with
      | some t => showRes (fun (km : Int × KMode) => s!"{km.1} {km.2.toStr}") (currentTonality t)
      | none => "bad-args"
  | [.atom "beat", t, n, d] =>
      match decStr t, n.asInt?, d.asInt? with
      | some t, some n, some d =>
          let st : St := { ts := (n, d) }
          showRes showRat (beatRealValue st ((rep "b" "" t)))
      | _, _, _ => "bad-args"
  | [.atom "limit", n, d, m] =>
      match n.asInt?, d.asNat?, m.asNat? with
      | some n, some d, some m => if d == 0 || m == 0 then "bad-args" else showRat (limitDen m (mkRat n d))
      | _, _, _ => "bad-args"
  | _ => "bad-op"

def main : IO Unit := runDriver step
