/- Correspondence driver for the transposition code (C04). -/
import MV.Codec
import MV.Model.Transpose
import MV.Model.Render
open MV MV.Codec

def showRow4 (r : Row) : String :=
  s!"({r.pitch} {SExp.ofRat r.offset} {SExp.ofRat r.dur} {SExp.ofRat r.vel} {r.track} {if r.silence then 1 else 0} {if r.cont then 1 else 0} {match r.tempo with | some t => toString t | none => "-"} {match r.pedal with | some true => "1" | some false => "0" | none => "-"})"

def showRows (rows : List Row) : String := "(" ++ " ".intercalate (rows.map showRow4) ++ ")"
def showTon (t : Tonality) : String := toString (encTon t)
def showChord (c : Chord) : String := toString (encChord c)
def showScore (s : Score) : String := toString (encScore s)

def decParts (e : SExp) : Option (List (String × Melody)) := do (← e.asList?).mapM decPart

def step : List SExp → String
  | [.atom "tadd", a, b] =>
      match decTon a, decTon b with
      | some a, some b => showTon (a.add b)
      | _, _ => "bad-args"
  | [.atom "tsub", a, b] =>
      match decTon a, decTon b with
      | some a, some b => showTon (a.sub b)
      | _, _ => "bad-args"
  | [.atom "teq", a, b] =>
      match decTon a, decTon b with
      | some a, some b => if a.pyEq b then "1" else "0"
      | _, _ => "bad-args"
  | [.atom "tflat", a] =>
      match decTon a with
      | some a => showTon a.flat
      | _ => "bad-args"
  | [.atom "tsharp", a] =>
      match decTon a with
      | some a => showTon a.sharp
      | _ => "bad-args"
  | [.atom "cmod", c, t] =>
      match decChord c, decTon t with
      | some c, some t => showChord (c.modulate t)
      | _, _ => "bad-args"
  | [.atom "cmod2", c, a, b] =>
      match decChord c, decTon a, decTon b with
      | some c, some a, some b => showChord ((c.modulate a).modulate b)
      | _, _, _ => "bad-args"
  | [.atom "emod", e, t] =>
      match e.asInt?, decTon t with
      | some e, some t => showChord (Element.modulate e t)
      | _, _ => "bad-args"
  | [.atom "co", c, k] =>
      match decChord c, k.asInt? with
      | some c, some k => showChord (c.o k)
      | _, _ => "bad-args"
  | [.atom "comel", c, k] =>
      match decChord c, k.asInt? with
      | some c, some k => showRes showChord (c.oMelody k)
      | _, _ => "bad-args"
  | [.atom "call", c, ps] =>
      match decChord c, decParts ps with
      | some c, some ps => showRes showChord (c.call ps)
      | _, _ => "bad-args"
  | [.atom "melo", m, k] =>
      match decMelody m, k.asInt? with
      | some m, some k => toString (encMelody (Melody.o m k))
      | _, _ => "bad-args"
  | [.atom "smod", s, t] =>
      match decScore s, decTon t with
      | some s, some t => showScore (s.modulate t)
      | _, _ => "bad-args"
  | [.atom "so", s, k] =>
      match decScore s, k.asInt? with
      | some s, some k => showRes showScore (s.o k)
      | _, _ => "bad-args"
  | [.atom "notes", s] =>
      match decScore s with
      | some s => showRes showRows (getNotes s)
      | none => "bad-args"
  | [.atom "rmod", s, t] =>
      match decScore s, decTon t with
      | some s, some t => showRes showRows (getNotes (s.modulate t))
      | _, _ => "bad-args"
  | [.atom "ro", s, k] =>
      match decScore s, k.asInt? with
      | some s, some k => showRes showRows (do getNotes (← s.o k))
      | _, _ => "bad-args"
  | [.atom "rco", s, k] =>
      match decScore s, k.asInt? with
      | some s, some k => showRes showRows (getNotes (s.chordsO k))
      | _, _ => "bad-args"
  | [.atom "pitch", c, n, last] =>
      match decChord c, decNote n, last.asAtom? with
      | some c, some n, some l =>
          let last := if l == "-" then none else l.toInt?
          showRes showOptInt (c.toPitch n last)
      | _, _, _ => "bad-args"
  | _ => "bad-op"

def main : IO Unit := runDriver step
