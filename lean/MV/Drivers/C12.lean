/- Correspondence driver for the time slicing model (C12). -/
import MV.Codec
import MV.Model.Slice
open MV MV.Codec

/-- the fields the property talks about: kind val octave duration mode accident amp -/
def showNoteObs (n : Note) : String :=
  s!"({n.kind.toStr} {n.val} {n.oct} {SExp.ofRat n.dur} {encOpt Mode.toStr n.mode} {encOpt Acc.toStr n.acc} {SExp.ofRat n.amp})"

def showMelodyObs (m : Melody) : String := "(" ++ " ".intercalate (m.map showNoteObs) ++ ")"

def showChordObs (c : Chord) : String :=
  s!"(c {c.elem} {encExt c.ext} {encTon c.ton} {c.oct} (" ++
    " ".intercalate (c.parts.map (fun p => s!"({p.1} {showMelodyObs p.2})")) ++ "))"

def showScoreObs (s : Score) : String := "(s " ++ " ".intercalate (s.map showChordObs) ++ ")"

def showOptScore : Option Score → String
  | none => "None"
  | some s => showScoreObs s

def asOptRat? (e : SExp) : Option (Option Rat) :=
  match e with
  | .atom "-" => some none
  | e => (e.asRat?).map some

def asBool? (e : SExp) : Option Bool :=
  match e with
  | .atom "1" => some true
  | .atom "0" => some false
  | _ => none

def step : List SExp → String
  | [.atom "mel", m, a, b, md] =>
      match decMelody m, a.asRat?, b.asRat?, asBool? md with
      | some m, some a, some b, some md => showRes showMelodyObs (getMelodyBetween m a b md)
      | _, _, _, _ => "bad-args"
  | [.atom "chord", c, a, b, cm] =>
      match decChord c, a.asRat?, b.asRat?, asBool? cm with
      | some c, some a, some b, some cm => showRes showChordObs (getChordBetween c a b cm)
      | _, _, _, _ => "bad-args"
  | [.atom "score", s, a, b] =>
      match decScore s, asOptRat? a, asOptRat? b with
      | some s, some a, some b => showRes showOptScore (getScoreBetween s a b)
      | _, _, _ => "bad-args"
  | [.atom "repeat", s, d] =>
      match decScore s, d.asRat? with
      | some s, some d => showRes showOptScore (repeatUntilDuration s d)
      | _, _ => "bad-args"
  | [.atom "duration", s] =>
      match decScore s with
      | some s => toString (SExp.ofRat (scoreDuration s))
      | none => "bad-args"
  | _ => "bad-op"

def main : IO Unit := runDriver step
