/- Driver for the source images (DESIGN.md §9.6): every kernel can be evaluated either through the definition
generated from the Python AST (`src`) or through the hand-written model (`mod`). -/
import MV.Codec
import MV.Model.Pitch
import MV.Model.Transpose
import MV.Gen.SrcRel
import MV.Gen.SrcPitch
import MV.Gen.SrcTonality
import MV.Gen.SrcOps
import MV.Gen.SrcRender
open MV MV.Codec

def showTon (t : Tonality) : String := toString (encTon t)
def showBool (b : Bool) : String := if b then "1" else "0"

def showRow (r : Row) : String :=
  s!"({r.pitch} {SExp.ofRat r.offset} {SExp.ofRat r.dur} {SExp.ofRat r.vel} {r.track} {if r.silence then 1 else 0} {if r.cont then 1 else 0})"
def showRows (rows : List Row) : String := "(" ++ " ".intercalate (rows.map showRow) ++ ")"
def decLast (l : SExp) (tr : Nat) : Option (Option Row) :=
  match l.asAtom? with
  | some "-" => some none
  | _ => match l.asInt? with
    | some p => some (some { pitch := p, offset := 0, dur := 1, vel := 66, track := tr, silence := false, cont := false })
    | none => none

def step : List SExp → String
  | [.atom "n2p", .atom w, n, c, tr, time, l] =>
      match decNote n, decChord c, tr.asNat?, time.asRat? with
      | some n, some c, some tr, some time =>
          match decLast l tr with
          | some last =>
              let r : Res (Row × Option Int) :=
                if w == "src" then (Src.note_to_pitch n c tr time last).map (fun p => (p.1, p.2.map (·.pitch)))
                else noteToRow n c tr time (last.map (·.pitch))
              showRes (fun p => showRow p.1 ++ " " ++ showOptInt p.2) r
          | none => "bad-args"
      | _, _, _, _ => "bad-args"
  | [.atom "m2p", .atom w, m, c, tr, time, l] =>
      match decMelody m, decChord c, tr.asNat?, time.asRat? with
      | some m, some c, some tr, some time =>
          match decLast l tr with
          | some last =>
              let r : Res (List Row × Option Int) :=
                if w == "src" then (Src.melody_to_pitches m c tr time last).map (fun p => (p.1, p.2.map (·.pitch)))
                else melodyToRows m c tr time (last.map (·.pitch))
              showRes (fun p => showRows p.1 ++ " " ++ showOptInt p.2) r
          | none => "bad-args"
      | _, _, _, _ => "bad-args"
  | [.atom "relup", .atom w, d, l, s] =>
      match d.asInt?, l.asInt?, s.asInts? with
      | some d, some l, some s =>
          showRes toString (if w == "src" then Src.relative_scale_up_value d l s else Rel.relUp d l s)
      | _, _, _ => "bad-args"
  | [.atom "reldown", .atom w, d, l, s] =>
      match d.asInt?, l.asInt?, s.asInts? with
      | some d, some l, some s =>
          showRes toString (if w == "src" then Src.relative_scale_down_value d l s else Rel.relDown d l s)
      | _, _, _ => "bad-args"
  | [.atom "relval", .atom w, n, l, s] =>
      match decNote n, l.asInt?, s.asInts? with
      | some n, some l, some s =>
          showRes toString (if w == "src" then Src.get_relative_scale_value n l s
                            else Rel.relValue n.kind.isDown n.val n.oct l s)
      | _, _, _ => "bad-args"
  | [.atom "v2s", .atom w, v, s] =>
      match v.asInt?, s.asInts? with
      | some v, some s => showRes toString (if w == "src" then Src.get_value_to_scale_note v s else valueToScale v s)
      | _, _ => "bad-args"
  | [.atom "npr", .atom w, c, n, l] =>
      match decChord c, decNote n, l.asInt? with
      | some c, some n, some l =>
          showRes showOptInt (if w == "src" then Src.note_to_pitch_result n c l else noteToPitch c n l)
      | _, _, _ => "bad-args"
  | [.atom "cscale", .atom w, c] =>
      match decChord c with
      | some c => showInts (if w == "src" then Src.Chord_scale_pitches c else c.scalePitches)
      | none => "bad-args"
  | [.atom "cchrom", .atom w, c] =>
      match decChord c with
      | some c => showRes showInts (if w == "src" then Src.Chord_chromatic_pitches c else c.chromaticPitches)
      | none => "bad-args"
  | [.atom "tscale", .atom w, t] =>
      match decTon t with
      | some t => showInts (if w == "src" then Src.Tonality_scale_pitches t else t.scalePitches)
      | none => "bad-args"
  | [.atom "tadd", .atom w, a, b] =>
      match decTon a, decTon b with
      | some a, some b => showTon (if w == "src" then Src.Tonality_dadd a b else a.add b)
      | _, _ => "bad-args"
  | [.atom "tsub", .atom w, a, b] =>
      match decTon a, decTon b with
      | some a, some b => showTon (if w == "src" then Src.Tonality_dsub a b else a.sub b)
      | _, _ => "bad-args"
  | [.atom "teq", .atom w, a, b] =>
      match decTon a, decTon b with
      | some a, some b => showBool (if w == "src" then Src.Tonality_deq a b else a.pyEq b)
      | _, _ => "bad-args"
  | [.atom "noabs", .atom w, n, k] =>
      match decNote n, k.asInt? with
      | some n, some k => toString (encNote (if w == "src" then Src.Note_oabs n k else n.oabs k))
      | _, _ => "bad-args"
  | [.atom "no", .atom w, n, k] =>
      match decNote n, k.asInt? with
      | some n, some k => toString (encNote (if w == "src" then Src.Note_o n k else n.o k))
      | _, _ => "bad-args"
  | [.atom "neq", .atom w, a, b] =>
      match decNote a, decNote b with
      | some a, some b => showBool (if w == "src" then Src.Note_deq a b else a.pyEq b)
      | _, _ => "bad-args"
  | [.atom "to", .atom w, t, k] =>
      match decTon t, k.asInt? with
      | some t, some k => showTon (if w == "src" then Src.Tonality_o t k else t.o k)
      | _, _ => "bad-args"
  | [.atom "tflat", .atom w, t] =>
      match decTon t with
      | some t => showTon (if w == "src" then Src.Tonality_b t else t.flat)
      | none => "bad-args"
  | [.atom "tsharp", .atom w, t] =>
      match decTon t with
      | some t => showTon (if w == "src" then Src.Tonality_s t else t.sharp)
      | none => "bad-args"
  | [.atom "co", .atom w, c, k] =>
      match decChord c, k.asInt? with
      | some c, some k =>
          let r := if w == "src" then Src.Chord_o c k else c.o k
          s!"{showTon r.ton} {r.oct} {r.elem}"
      | _, _ => "bad-args"
  | [.atom "cmod", .atom w, c, t] =>
      match decChord c, decTon t with
      | some c, some t =>
          let r := if w == "src" then Src.Chord_dmod c t else c.modulate t
          s!"{showTon r.ton} {r.oct} {r.elem}"
      | _, _ => "bad-args"
  | [.atom "parse", .atom w, c, p] =>
      match decChord c, p.asInt? with
      | some c, some p =>
          showRes (fun (n : Note) => s!"{n.kind.toStr} {n.val} {n.oct} {n.dur}") (if w == "src" then Src.Chord_parse c p else c.parse p)
      | _, _ => "bad-args"
  | _ => "bad-op"

def main : IO Unit := runDriver step
