/- Correspondence driver for equality / copy / hashing (C20). -/
import MV.Codec
import MV.Model.Equality
open MV MV.Codec MV.Eq

/-- one-line rendering of a printed form -/
def esc (s : String) : String := (s.replace "\n" "\\n").replace "\t" "\\t"

def b01 (b : Bool) : String := if b then "1" else "0"
def showB (r : Res Bool) : String := showRes b01 r

/-- `eq=<a == b> hk=<hash(a) == hash(b)> in=<a in {b}>` with the identity as hash function of keys -/
def triple [DecidableEq κ] (eq : α → α → Bool) (key : α → Res κ) (a b : α) : String :=
  let hk : Res Bool := do
    let ka ← key a
    let kb ← key b
    pure (decide (ka = kb))
  let mem : Res Bool := do
    let S ← pySetOf key eq [b] []
    pyIn key eq a S
  s!"eq={b01 (eq a b)} hk={showB hk} in={showB mem}"

def decCls : SExp → Option NoteClass
  | .atom "note" => some .note
  | .atom "silence" => some .silence
  | .atom "continuation" => some .continuation
  | _ => none

def decBool (e : SExp) : Option Bool := match e with
  | .atom "1" => some true
  | .atom "0" => some false
  | _ => none

def decTagOrders (e : SExp) : Option (List (List String)) := do (← e.asList?).mapM SExp.asStrs?

def showTon (t : Tonality) : String := s!"{t.deg} {t.mode.toStr} {t.oct}"

def applySpell (t : Tonality) : List SExp → Option Tonality
  | [] => some t
  | .atom "s" :: r => applySpell (tonSharp t) r
  | .atom "b" :: r => applySpell (tonFlat t) r
  | .list [.atom "o", k] :: r => do applySpell (tonO t (← k.asInt?)) r
  | _ => none

def step : List SExp → String
  -- notes
  | [.atom "neq", a, b] =>
      match decNote a, decNote b with
      | some a, some b => triple noteEq (noteHash id) a b
      | _, _ => "bad-args"
  | [.atom "ncode", a] =>
      match decNote a with
      | some a => esc (noteCode a)
      | none => "bad-args"
  | [.atom "ncopy", cls, a, tags'] =>
      match decCls cls, decNote a, tags'.asStrs? with
      | some cls, some a, some t =>
          let c := noteCopyWith t cls a
          s!"eq={b01 (noteEq a c)} meq={b01 (melodyEq [a] [c])} dur={SExp.ofRat c.dur} code={esc (noteCode c)}"
      | _, _, _ => "bad-args"
  | [.atom "limit", q, m] =>
      match q.asRat?, m.asNat? with
      | some q, some m => toString (SExp.ofRat (limitDenominator q m))
      | _, _ => "bad-args"
  -- melodies
  | [.atom "meq", a, b] =>
      match decMelody a, decMelody b with
      | some a, some b => triple melodyEq melodyKey a b
      | _, _ => "bad-args"
  | [.atom "mcode", a] =>
      match decMelody a with
      | some a => esc (melodyCode a)
      | none => "bad-args"
  | [.atom "mcopy", a, orders] =>
      match decMelody a, decTagOrders orders with
      | some a, some o =>
          let c := melodyCopyWith o a
          s!"eq={b01 (melodyEq a c)} code={esc (melodyCode c)}"
      | _, _ => "bad-args"
  -- tonalities
  | [.atom "teq", a, b] =>
      match decTon a, decTon b with
      | some a, some b => triple tonEq tonKey a b
      | _, _ => "bad-args"
  | [.atom "tcode", a] =>
      match decTon a with
      | some a => showRes esc (tonCode a)
      | none => "bad-args"
  | [.atom "tcopy", a] =>
      match decTon a with
      | some a => s!"eq={b01 (tonEq a (tonCopy a))} ton={showTon (tonCopy a)}"
      | none => "bad-args"
  | [.atom "tspell", a, .list ops] =>
      match decTon a with
      | some a => match applySpell a ops with
          | some t => showTon t
          | none => "bad-args"
      | none => "bad-args"
  -- chords
  | [.atom "ceq", a, b] =>
      match decChord a, decChord b with
      | some a, some b => triple chordEq chordKey a b
      | _, _ => "bad-args"
  | [.atom "ccode", a] =>
      match decChord a with
      | some a => showRes esc (chordRepr a)
      | none => "bad-args"
  | [.atom "ccopy", a] =>
      match decChord a with
      | some a => s!"eq={b01 (chordEq a (chordCopy a))} code={showRes esc (chordRepr (chordCopy a))}"
      | none => "bad-args"
  -- scores
  | [.atom "seq", a, b] =>
      match decScore a, decScore b with
      | some a, some b => triple scoreEq scoreKey a b
      | _, _ => "bad-args"
  | [.atom "scode", a] =>
      match decScore a with
      | some a => showRes esc (scoreRepr a)
      | none => "bad-args"
  | [.atom "scopy", a] =>
      match decScore a with
      | some a => s!"eq={b01 (scoreEq a (scoreCopy a))} code={showRes esc (scoreRepr (scoreCopy a))}"
      | none => "bad-args"
  -- masks
  | [.atom "nmask", .list notes, io, ir, n] =>
      match notes.mapM decNote, decBool io, decBool ir, decNote n with
      | some notes, some io, some ir, some n => showB (noteInMask id notes io ir n)
      | _, _, _, _ => "bad-args"
  | [.atom "cmask", .list chords, io, c] =>
      match chords.mapM decChord, decBool io, decChord c with
      | some chords, some io, some c => showB (chordInMask id chords io c)
      | _, _, _ => "bad-args"
  | [.atom "tmask", .list tons, io, t] =>
      match tons.mapM decTon, decBool io, decTon t with
      | some tons, some io, some t => showB (tonalityInMask id tons io t)
      | _, _, _ => "bad-args"
  | _ => "bad-op"

def main : IO Unit := runDriver step
