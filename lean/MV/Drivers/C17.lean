/- Correspondence driver for metric grids and Euclidean rhythms (C17). -/
import MV.Codec
import MV.Model.Metric
open MV MV.Codec MV.Rhythm

namespace C17Driver

def decSig : SExp → Option (Int × Int)
  | .list [a, b] => do pure (← a.asInt?, ← b.asInt?)
  | _ => none

def decOptRat (e : SExp) : Option (Option Rat) :=
  match e with
  | .atom "-" => some none
  | _ => (e.asRat?).map some

def decBool (e : SExp) : Option Bool :=
  match e with
  | .atom "1" => some true
  | .atom "0" => some false
  | _ => none

def showNote (n : Note) : String :=
  toString (SExp.list [.atom n.kind.toStr, SExp.ofInt n.val, SExp.ofInt n.oct, SExp.ofRat n.dur,
    encOpt Mode.toStr n.mode, encOpt Acc.toStr n.acc])

def showMelody (l : List Note) : String := "(" ++ " ".intercalate (l.map showNote) ++ ")"

def showRats (l : List Rat) : String := toString (SExp.list (l.map SExp.ofRat))

def showBeats (x : List (Bool × Rat) × Bool) : String :=
  toString (SExp.list [SExp.list (x.1.map (fun p => SExp.list [SExp.ofBool p.1, SExp.ofRat p.2])), SExp.ofBool x.2])

def showArray (m : Metric) : String := showInts m.array

def decMetric (arr sig tatum nb : SExp) : Option (Res Metric) := do
  pure (Metric.mk? (← arr.asInts?) (← decSig sig) (← tatum.asRat?) (← nb.asInt?))

def decBeats (e : SExp) : Option (List (Bool × Rat)) := do
  (← e.asList?).mapM (fun p => match p with
    | .list [b, d] => do pure (← decBool b, ← d.asRat?)
    | _ => none)

end C17Driver
open C17Driver

def step : List SExp → String
  | [.atom "mk", arr, sig, tatum, nb] =>
      match decMetric arr sig tatum nb with
      | some r => showRes (fun (m : Metric) => toString (SExp.ofRat m.duration)) r
      | none => "bad-args"
  | [.atom "apply", arr, sig, tatum, nb, notes, expand, start, stop] =>
      match decMetric arr sig tatum nb, decMelody notes, decBool expand, decOptRat start, decOptRat stop with
      | some r, some notes, some ex, some s, some e =>
          showRes showMelody (do let m ← r; m.applyToMelody notes ex s e)
      | _, _, _, _, _ => "bad-args"
  | [.atom "times", arr, sig, tatum, nb, notes] =>
      match decMetric arr sig tatum nb, decMelody notes with
      | some r, some notes =>
          showRes showRats (do let m ← r; let res ← m.applyToMelody notes; pure (noteTimes res))
      | _, _ => "bad-args"
  | [.atom "applyfrom", arr, sig, tatum, nb, notes] =>
      match decMetric arr sig tatum nb, decMelody notes with
      | some r, some notes =>
          showRes showArray (do let m ← r; let res ← m.applyToMelody notes; m.fromMelody res)
      | _, _ => "bad-args"
  | [.atom "beats", tatum, arr] =>
      match tatum.asRat?, arr.asInts? with
      | some t, some a => showRes showBeats (getBeatDurations t a)
      | _, _ => "bad-args"
  | [.atom "applydur", notes, beats, first, expand] =>
      match decMelody notes, decBeats beats, decBool first, decBool expand with
      | some n, some b, some f, some e => showRes showMelody (applyDurations n b f e)
      | _, _, _, _ => "bad-args"
  | [.atom "frommel", notes, sig, tatum, nb] =>
      match decMelody notes, decSig sig, decOptRat tatum, nb.asInt? with
      | some n, some s, some t, some nb => showRes showArray (fromMelody n s t nb)
      | _, _, _, _ => "bad-args"
  | [.atom "compl", arr, sig, tatum, nb] =>
      match decMetric arr sig tatum nb with
      | some r => showRes showArray (do let m ← r; m.complementary)
      | none => "bad-args"
  | [.atom "rev", arr, sig, tatum, nb] =>
      match decMetric arr sig tatum nb with
      | some r => showRes showArray (do let m ← r; m.reversed)
      | none => "bad-args"
  | [.atom "shift", arr, sig, tatum, nb, n] =>
      match decMetric arr sig tatum nb, n.asInt? with
      | some r, some n => showRes showArray (do let m ← r; m.circularShift n)
      | _, _ => "bad-args"
  | [.atom "euclid", steps, pulses] =>
      match steps.asInt?, pulses.asInt? with
      | some s, some p => showRes showInts (bjorklund s p)
      | _, _ => "bad-args"
  | [.atom "euclidian", pulses, sig, tatum, nb] =>
      match pulses.asInt?, decSig sig, tatum.asRat?, nb.asInt? with
      | some p, some s, some t, some nb => showRes showArray (euclidian p s t nb)
      | _, _, _, _ => "bad-args"
  | [.atom "limit", q, M] =>
      match q.asRat?, M.asNat? with
      | some q, some M => toString (SExp.ofRat (limitDenominator q M))
      | _, _ => "bad-args"
  | _ => "bad-op"

def main : IO Unit := runDriver step
