/- Driver for the source images of group `SrcBetween` (DESIGN.md §9.6): chord / score slicing and repetition on the
slicing model (`MV/Model/Slice.lean`).  `(k mod args…)` = hand-written model, `(k src args…)` = generated source image. -/
import MV.Codec
import MV.Gen.SrcBetween
open MV MV.Codec

/-- the fields the slicing property talks about: kind val octave duration mode accident amp -/
def showNoteObs (n : Note) : String :=
  s!"({n.kind.toStr} {n.val} {n.oct} {SExp.ofRat n.dur} {encOpt Mode.toStr n.mode} {encOpt Acc.toStr n.acc} {SExp.ofRat n.amp})"

def showMelodyObs (m : Melody) : String := "(" ++ " ".intercalate (m.map showNoteObs) ++ ")"

def showChordObs (c : Chord) : String :=
  s!"(c {c.elem} {encExt c.ext} {encTon c.ton} {c.oct} (" ++
    " ".intercalate (c.parts.map (fun p => s!"({p.1} {showMelodyObs p.2})")) ++ "))"

def showScoreObs (s : Score) : String := "(s " ++ " ".intercalate (s.map showChordObs) ++ ")"

def showOptScore : Option Score → String
  | none => "None"
  | some s => showScoreObs s

def asOptRat? (e : SExp) : Option (Option Rat) :=
  match e with
  | .atom "-" => some none
  | e => (e.asRat?).map some

def asBool? (e : SExp) : Option Bool :=
  match e with
  | .atom "1" => some true
  | .atom "0" => some false
  | _ => none

def step : List SExp → String
  | [.atom "gcb", .atom w, c, a, b, cm] =>
      match decChord c, a.asRat?, b.asRat?, asBool? cm with
      | some c, some a, some b, some cm =>
          showRes showChordObs (if w == "src" then Src.get_chord_between c a b cm else getChordBetween c a b cm)
      | _, _, _, _ => "bad-args"
  | [.atom "gsb", .atom w, s, a, b] =>
      match decScore s, asOptRat? a, asOptRat? b with
      | some s, some a, some b =>
          showRes showOptScore (if w == "src" then Src.get_score_between s a b else getScoreBetween s a b)
      | _, _, _ => "bad-args"
  | [.atom "rud", .atom w, s, d] =>
      match decScore s, d.asRat? with
      | some s, some d =>
          showRes showOptScore (if w == "src" then Src.repeat_until_duration s d else repeatUntilDuration s d)
      | _, _ => "bad-args"
  | _ => "bad-op"

def main : IO Unit := runDriver step
