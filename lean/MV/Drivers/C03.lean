/- Correspondence driver for the renderer (C03; also used by C04/C11/C12/C13 streams). -/
import MV.Codec
import MV.Model.Render
open MV MV.Codec

def showRow (r : Row) : String :=
  s!"({r.pitch} {SExp.ofRat r.offset} {SExp.ofRat r.dur} {SExp.ofRat r.vel} {r.track} {if r.silence then 1 else 0} {if r.cont then 1 else 0})"

def showEvent (e : Event) : String :=
  s!"({e.pitch} {SExp.ofRat e.offset} {SExp.ofRat e.dur} {e.vel} {e.track})"

def step : List SExp → String
  | [.atom "notes", s] =>
      match decScore s with
      | some s => showRes (fun rows => "(" ++ " ".intercalate (rows.map showRow) ++ ")") (getNotes s)
      | none => "bad-args"
  | [.atom "events", s, tempo] =>
      match decScore s, tempo.asRat? with
      | some s, some t => showRes (fun evs => "(" ++ " ".intercalate (evs.map showEvent) ++ ")") (toEvents s t)
      | _, _ => "bad-args"
  | [.atom "duration", s] =>
      match decScore s with
      | some s => toString (SExp.ofRat (sumRat (s.map Chord.dur)))
      | none => "bad-args"
  | [.atom "tracks", s] =>
      match decScore s with
      | some s => "(" ++ " ".intercalate (trackList s) ++ ")"
      | none => "bad-args"
  | _ => "bad-op"

def main : IO Unit := runDriver step
