/- Correspondence driver for the pitch calculus (C01, C02, C09, C14-parse). -/
import MV.Codec
import MV.Model.Pitch
import MV.Model.ExtText
open MV MV.Codec

def step : List SExp → String
  | [.atom "pitch", c, n, last] =>
      match decChord c, decNote n, last.asAtom? with
      | some c, some n, some l =>
          let last := if l == "-" then none else l.toInt?
          showRes showOptInt (c.toPitch n last)
      | _, _, _ => "bad-args"
  | [.atom "npr", c, n, last] =>   -- note_to_pitch_result with an integer last pitch
      match decChord c, decNote n, last.asInt? with
      | some c, some n, some l => showRes showOptInt (noteToPitch c n l)
      | _, _, _ => "bad-args"
  | [.atom "scale", c] =>
      match decChord c with
      | some c => showInts c.scalePitches
      | none => "bad-args"
  | [.atom "chordp", c] =>
      match decChord c with
      | some c => showRes showInts c.chordPitches
      | none => "bad-args"
  | [.atom "extp", c] =>
      match decChord c with
      | some c => showRes showInts c.extensionPitches
      | none => "bad-args"
  | [.atom "exttext", c] =>
      match decChord c with
      | some c => showRes (fun (c : Chord) => "\"" ++ c.ext.toText ++ "\"") (c.withExt c.ext)
      | none => "bad-args"
  | [.atom "invert", c, k] =>
      match decChord c, k.asInt? with
      | some c, some k => showRes (fun (c : Chord) => "\"" ++ c.ext.toText ++ "\"") (c.invert k)
      | _, _ => "bad-args"
  | [.atom "rootext", c] =>
      match decChord c with
      | some c => showRes (fun (c : Chord) => "\"" ++ c.ext.toText ++ "\"") c.toRootExt
      | none => "bad-args"
  -- text level: (top <op> elem "<text with ( ) written < >>" ton oct [k])
  | [.atom "top", .atom op, el, .atom text, t, o, k] =>
      match el.asInt?, decTon t, o.asInt?, k.asInt? with
      | some el, some t, some o, some k =>
          let text := (text.replace "<" "(").replace ">" ")"
          let text := if text == "\"\"" then "" else text
          let r : Res Chord := do
            let e ← Ext.ofText text
            ({ elem := el, ext := e, ton := t, oct := o } : Chord).withExt e
          match op with
          | "exttext" => showRes (fun (c : Chord) => "\"" ++ c.ext.toText ++ "\"") r
          | "chordp" => showRes showInts (do (← r).chordPitches)
          | "extp" => showRes showInts (do (← r).extensionPitches)
          | "invert" => showRes (fun (c : Chord) => "\"" ++ c.ext.toText ++ "\"") (do (← r).invert k)
          | "rootext" => showRes (fun (c : Chord) => "\"" ++ c.ext.toText ++ "\"") (do (← r).toRootExt)
          | _ => "bad-op"
      | _, _, _, _ => "bad-args"
  -- the same after `base[text]` (which validates and normalises the extension first)
  | [.atom "xinvert", c, k] =>
      match decChord c, k.asInt? with
      | some c, some k => showRes (fun (c : Chord) => "\"" ++ c.ext.toText ++ "\"") (do (← c.withExt c.ext).invert k)
      | _, _ => "bad-args"
  | [.atom "xrootext", c] =>
      match decChord c with
      | some c => showRes (fun (c : Chord) => "\"" ++ c.ext.toText ++ "\"") (do (← c.withExt c.ext).toRootExt)
      | none => "bad-args"
  | [.atom "xchordp", c] =>
      match decChord c with
      | some c => showRes showInts (do (← c.withExt c.ext).chordPitches)
      | none => "bad-args"
  | [.atom "xextp", c] =>
      match decChord c with
      | some c => showRes showInts (do (← c.withExt c.ext).extensionPitches)
      | none => "bad-args"
  | [.atom "parse", c, p] =>
      match decChord c, p.asInt? with
      | some c, some p => showRes (fun (n : Note) => s!"{n.kind.toStr} {n.val} {n.oct}") (c.parse p)
      | _, _ => "bad-args"
  | [.atom "rel", isDown, val, oct, last, scale] =>
      match isDown.asInt?, val.asInt?, oct.asInt?, last.asInt?, scale.asInts? with
      | some d, some v, some o, some l, some sc => showRes toString (Rel.relValue (d != 0) v o l sc)
      | _, _, _, _, _ => "bad-args"
  | _ => "bad-op"

def main : IO Unit := runDriver step
