/- Driver for the source-tie group `SrcOrn` (DESIGN.md §9.6): the ornament builders of `ornementation.py` and
`realize_tags`.

requests                                            replies
  (orn_builder mod|src <builder> <new|-> <last|-> <next|->)   None | N <note> | M (<note>…) | ERR:<class>
  (orn_realize   mod|src <note> <last|-> <next|->)    N <note> | M (<note>…) | ERR:<class>

`<new>` is a note `(n …)` or a melody `(m (<note>…))`.  `mod` answers with the hand-written model
(`MV/Model/Ornament.lean`, rounding `limitDen`), `src` with the generated source image (`MV/Gen/SrcOrn.lean`).
The model functions take a note-or-melody; on `None` the model side answers what `MV.Tie.*_src_none` prove about the
source image (`AttributeError`, `interpolate` returns its argument). -/
import MV.Codec
import MV.Gen.SrcOrn
open MV MV.Codec MV.Orn

def decOptNote (e : SExp) : Option (Option Note) :=
  match e with
  | .atom "-" => some none
  | e => (decNote e).map some

def decVal (e : SExp) : Option (Option NM) :=
  match e with
  | .atom "-" => some none
  | .list [.atom "m", ms] => (decMelody ms).map (fun m => some (.mel m))
  | e => (decNote e).map (fun n => some (.note n))

/-- `copy()` of a `Silence` / `Continuation` resets the amplitude (not modelled, `MV/Model/Ornament.lean`): the
amplitude of rests and continuations is not an observable of these streams; both sides print the default -/
def canonNote (n : Note) : Note := if n.kind = .r ∨ n.kind = .l then { n with amp := 66 } else n

def showNote (n : Note) : String := toString (encNote (canonNote n))

def showNotes (l : List Note) : String := "(" ++ " ".intercalate (l.map showNote) ++ ")"

def showNM : NM → String
  | .note n => "N " ++ showNote n
  | .mel ns => "M " ++ showNotes ns

def showVal : Option NM → String
  | none => "None"
  | some x => showNM x

abbrev Builder := Option NM → Option Note → Option Note → Res (Option NM)

/-- the hand-written model of a builder, on Python's three kinds of `new_note` -/
def onModel (f : NM → Option Note → Option Note → Res NM) : Builder :=
  fun v l x => match v with
    | some y => (f y l x).map some
    | none => .error .attr

def modelInterpolate : Builder := fun v _ x =>
  match v with
  | some y => (interpolate limitDen y x).map some
  | none => .ok none

def builders : List (String × Builder × Builder) :=
  [ ("accent", onModel (fun y _ _ => accent y), Src.accent),
    ("mordant", onModel (fun y _ _ => mordant limitDen y), Src.mordant),
    ("inv_mordant", onModel (fun y _ _ => invMordant limitDen y), Src.inv_mordant),
    ("chroma_mordant", onModel (fun y _ _ => chromaMordant limitDen y), Src.chroma_mordant),
    ("inv_chroma_mordant", onModel (fun y _ _ => invChromaMordant limitDen y), Src.inv_chroma_mordant),
    ("grupetto", onModel (fun y _ _ => grupetto limitDen y), Src.grupetto),
    ("inv_grupetto", onModel (fun y _ _ => invGrupetto limitDen y), Src.inv_grupetto),
    ("chroma_grupetto", onModel (fun y _ _ => chromaGrupetto limitDen y), Src.chroma_grupetto),
    ("inv_chroma_grupetto", onModel (fun y _ _ => invChromaGrupetto limitDen y), Src.inv_chroma_grupetto),
    ("roll", onModel (fun y _ _ => roll limitDen y), Src.roll),
    ("roll_fast", onModel (fun y _ _ => rollFast limitDen y), Src.roll_fast),
    ("suspension", onModel (fun y l _ => suspension limitDen y l), Src.suspension),
    ("suspension_prev_repeat", onModel (fun y l _ => suspensionPrevRepeat limitDen y l), Src.suspension_prev_repeat),
    ("retarded", onModel (fun y _ _ => retarded limitDen y), Src.retarded),
    ("interpolate", modelInterpolate, Src.interpolate) ]

def step : List SExp → String
  | [.atom "orn_realize", .atom w, n, l, x] =>
      match decNote n, decOptNote l, decOptNote x with
      | some n, some l, some x =>
          showRes showNM (if w == "src" then Src.realize_tags n l x else realizeTags limitDen n l x)
      | _, _, _ => "bad-args"
  | [.atom "orn_builder", .atom w, .atom k, v, l, x] =>
      match builders.lookup k, decVal v, decOptNote l, decOptNote x with
      | some (m, s), some v, some l, some x => showRes showVal (if w == "src" then s v l x else m v l x)
      | none, _, _, _ => "bad-op"
      | _, _, _, _ => "bad-args"
  | _ => "bad-op"

def main : IO Unit := runDriver step
