/- Correspondence driver for the transformer machinery (C18).

element   : note `(n …)` | melody `(m (tags…) (note…))` | chord `(tc <chord> (tags…) ((part melody)…))`
            | score `(ts (tags…) (chord…))`            (`<chord>` = the shared `(c elem ext ton oct ())`)
ctx       : `(k chordBeat chordIdx instrument beat idx)` with `-` for an absent keyword
mask expr : `(base)` `(bool b)` `(lvl score|chord|melody|note)` `(notm E)` `(and E…)` `(or E…)` `(gt E E)`
            `(inv E)` (= `~E`, computed by the model) and the atoms `(has (t…))` `(hasal (t…))`
            `(beatin (q…))` `(beatplaying (q…))` `(durin (q…))` `(durbetween a b)` `(beatbetween a b)`
            `(instr (s…))` `(cbeatin (q…))` `(cbeatplaying (q…))` `(cdurin (q…))` `(cdurbetween a b)`
            `(cbeatbetween a b)` `(modein (s…))` `(degin (i…))` `(extin (s…))` `(tondegin (i…))`
            `(idxin (i…))` `(cidxin (i…))`
transformer : `(T level action filter pre)`, level note|melody|chord, filter 0|1, pre `-` or a mask expr
requests  : `(maskstruct E)` `(maskcall E elem ctx)` `(maskchild E elem ctx)` `(apply T E elem)`
            `(tpipe ((name T E)…) elem)` `(cpipe ((name T E)…) elem)`
-/
import MV.Codec
import MV.Model.Transform
open MV MV.Codec MV.Transform

namespace C18

def dedupSorted : List String → List String
  | [] => []
  | [x] => [x]
  | x :: y :: r => if x == y then dedupSorted (y :: r) else x :: dedupSorted (y :: r)

/-- a tag set: sorted, without duplicates -/
def encTags (tags : List String) : SExp := .list ((dedupSorted (sortStrs tags)).map .atom)

def encNoteT (n : Note) : SExp := encNote { n with tags := dedupSorted (sortStrs n.tags) }

def encMel (m : TMelody) : SExp := .list [.atom "m", encTags m.tags, .list (m.notes.map encNoteT)]

def encTChord (c : TChord) : SExp :=
  .list [.atom "tc", encChord { c.base with parts := [] }, encTags c.tags,
         .list (c.parts.map (fun p => .list [.atom p.1, encMel p.2]))]

def encTScore (s : TScore) : SExp := .list [.atom "ts", encTags s.tags, .list (s.chords.map encTChord)]

def encElem : Elem → SExp
  | .note n => encNoteT n
  | .melody m => encMel m
  | .chord c => encTChord c
  | .score s => encTScore s

def decMel : SExp → Option TMelody
  | .list [.atom "m", tags, notes] => do
      pure { notes := ← (← notes.asList?).mapM decNote, tags := ← tags.asStrs? }
  | _ => none

def decPartT : SExp → Option (String × TMelody)
  | .list [.atom name, mel] => do pure (name, ← decMel mel)
  | _ => none

def decTChord : SExp → Option TChord
  | .list [.atom "tc", c, tags, parts] => do
      pure { base := ← decChord c, tags := ← tags.asStrs?, parts := ← (← parts.asList?).mapM decPartT }
  | _ => none

def decTScore : SExp → Option TScore
  | .list [.atom "ts", tags, chords] => do
      pure { chords := ← (← chords.asList?).mapM decTChord, tags := ← tags.asStrs? }
  | _ => none

def decElem (e : SExp) : Option Elem :=
  match e with
  | .list (.atom "n" :: _) => (decNote e).map .note
  | .list (.atom "m" :: _) => (decMel e).map .melody
  | .list (.atom "tc" :: _) => (decTChord e).map .chord
  | .list (.atom "ts" :: _) => (decTScore e).map .score
  | _ => none

def optAtom (f : String → Option α) (e : SExp) : Option (Option α) := do
  let s ← e.asAtom?
  if s == "-" then pure none else (f s).map some

def decCtx : SExp → Option Ctx
  | .list [.atom "k", cb, ci, inst, b, i] => do
      pure { chordBeat := ← optAtom (fun s => (SExp.atom s).asRat?) cb,
             chordIdx := ← optAtom String.toInt? ci,
             instrument := ← optAtom some inst,
             beat := ← optAtom (fun s => (SExp.atom s).asRat?) b,
             idx := ← optAtom String.toInt? i }
  | _ => none

def decLvl : String → Option Lvl
  | "score" => some .score | "chord" => some .chord | "melody" => some .melody | "note" => some .note
  | _ => none

def asRats? (e : SExp) : Option (List Rat) := do (← e.asList?).mapM SExp.asRat?

/-- decode a mask expression; `(inv E)` is evaluated with the model's `Mask.invert` -/
partial def decMask : SExp → Option Mask
  | .list [.atom "base"] => some .base
  | .list [.atom "bool", b] => do pure (.bool ((← b.asInt?) != 0))
  | .list [.atom "lvl", l] => do pure (.type (← decLvl (← l.asAtom?)))
  | .list [.atom "notm", m] => do pure (.not (← decMask m))
  | .list (.atom "and" :: ts) => do pure (.and (← ts.mapM decMask))
  | .list (.atom "or" :: ts) => do pure (.or (← ts.mapM decMask))
  | .list [.atom "gt", g, m] => do pure (.gt (← decMask g) (← decMask m))
  | .list [.atom "inv", m] => do pure (← decMask m).invert
  | .list [.atom "has", t] => do pure (.atom (.has (← t.asStrs?)))
  | .list [.atom "hasal", t] => do pure (.atom (.hasAtLeast (← t.asStrs?)))
  | .list [.atom "beatin", q] => do pure (.atom (.beatIn (← asRats? q)))
  | .list [.atom "beatplaying", q] => do pure (.atom (.beatPlayingIn (← asRats? q)))
  | .list [.atom "durin", q] => do pure (.atom (.durationIn (← asRats? q)))
  | .list [.atom "durbetween", a, b] => do pure (.atom (.durationBetween (← a.asRat?) (← b.asRat?)))
  | .list [.atom "beatbetween", a, b] => do pure (.atom (.beatBetween (← a.asRat?) (← b.asRat?)))
  | .list [.atom "instr", s] => do pure (.atom (.instruments (← s.asStrs?)))
  | .list [.atom "cbeatin", q] => do pure (.atom (.chordBeatIn (← asRats? q)))
  | .list [.atom "cbeatplaying", q] => do pure (.atom (.chordBeatPlayingIn (← asRats? q)))
  | .list [.atom "cdurin", q] => do pure (.atom (.chordDurationIn (← asRats? q)))
  | .list [.atom "cdurbetween", a, b] => do pure (.atom (.chordDurationBetween (← a.asRat?) (← b.asRat?)))
  | .list [.atom "cbeatbetween", a, b] => do pure (.atom (.chordBeatBetween (← a.asRat?) (← b.asRat?)))
  | .list [.atom "modein", s] => do pure (.atom (.modeIn (← s.asStrs?)))
  | .list [.atom "degin", i] => do pure (.atom (.chordDegreeIn (← i.asInts?)))
  | .list [.atom "extin", s] => do pure (.atom (.chordExtensionIn (← s.asStrs?)))
  | .list [.atom "tondegin", i] => do pure (.atom (.tonalityDegreeIn (← i.asInts?)))
  | .list [.atom "idxin", i] => do pure (.atom (.idxIn (← i.asInts?)))
  | .list [.atom "cidxin", i] => do pure (.atom (.chordIdxIn (← i.asInts?)))
  | _ => none

def encLvl : Lvl → String
  | .score => "score" | .chord => "chord" | .melody => "melody" | .note => "note"

def encRats (l : List Rat) : SExp := .list ((l.mergeSort (fun a b => decide (a ≤ b))).map SExp.ofRat)
def encStrSet (l : List String) : SExp := .list ((dedupSorted (sortStrs l)).map .atom)
def encIntSet (l : List Int) : SExp := SExp.ofInts (sortInts l)

def encAtom : Atom → SExp
  | .has t => .list [.atom "has", encStrSet t]
  | .hasAtLeast t => .list [.atom "hasal", encStrSet t]
  | .beatIn q => .list [.atom "beatin", encRats q]
  | .beatPlayingIn q => .list [.atom "beatplaying", encRats q]
  | .durationIn q => .list [.atom "durin", encRats q]
  | .durationBetween a b => .list [.atom "durbetween", SExp.ofRat a, SExp.ofRat b]
  | .beatBetween a b => .list [.atom "beatbetween", SExp.ofRat a, SExp.ofRat b]
  | .instruments s => .list [.atom "instr", encStrSet s]
  | .chordBeatIn q => .list [.atom "cbeatin", encRats q]
  | .chordBeatPlayingIn q => .list [.atom "cbeatplaying", encRats q]
  | .chordDurationIn q => .list [.atom "cdurin", encRats q]
  | .chordDurationBetween a b => .list [.atom "cdurbetween", SExp.ofRat a, SExp.ofRat b]
  | .chordBeatBetween a b => .list [.atom "cbeatbetween", SExp.ofRat a, SExp.ofRat b]
  | .modeIn s => .list [.atom "modein", encStrSet s]
  | .chordDegreeIn i => .list [.atom "degin", encIntSet i]
  | .chordExtensionIn s => .list [.atom "extin", encStrSet s]
  | .tonalityDegreeIn i => .list [.atom "tondegin", encIntSet i]
  | .idxIn i => .list [.atom "idxin", encIntSet i]
  | .chordIdxIn i => .list [.atom "cidxin", encIntSet i]

partial def encMask : Mask → SExp
  | .base => .list [.atom "base"]
  | .atom a => encAtom a
  | .bool b => .list [.atom "bool", SExp.ofBool b]
  | .type l => .list [.atom "lvl", .atom (encLvl l)]
  | .not m => .list [.atom "notm", encMask m]
  | .and ts => .list (.atom "and" :: ts.map encMask)
  | .or ts => .list (.atom "or" :: ts.map encMask)
  | .gt g m => .list [.atom "gt", encMask g, encMask m]

/-! transformers -/

def noteAct : SExp → Option (Note → Ctx → Res (Option Note))
  | .list [.atom "tag", t] => do
      let t ← t.asAtom?
      pure (fun n _ => pure (some (noteAddTag t n)))
  | .list [.atom "ctx"] => some (fun n k => pure (some (noteAddTag (ctxText k) n)))
  | .list [.atom "del"] => some (fun _ _ => pure none)
  | .list [.atom "id"] => some (fun n _ => pure (some n))
  | .list [.atom "td", n, km, ka] => do
      let n ← n.asInt?; let km ← km.asInt?; let ka ← ka.asInt?
      pure (fun note _ => transposeDiatonic n (km != 0) (ka != 0) note)
  | .list [.atom "tc", n] => do
      let n ← n.asInt?
      pure (fun note k => transposeChromatic n note k)
  | .list [.atom "lr", a, b] => do
      let a ← decNote a; let b ← decNote b
      match LimitRegister.make a b with
      | .ok L => pure (fun note _ => do pure (some (← L.limit note)))
      | .error e => pure (fun _ _ => .error e)      -- not reached: `ctorErr` reports it first
  | .list [.atom "sil"] => some (fun n _ => pure (some (applySilence n)))
  | .list [.atom "cont"] => some (fun n _ => pure (some (applyContinuation n)))
  | _ => none

def melodyAct : SExp → Option (TMelody → Ctx → Res (Option TMelody))
  | .list [.atom "tag", t] => do
      let t ← t.asAtom?
      pure (fun m _ => pure (some (m.addTag t)))
  | .list [.atom "ctx"] => some (fun m k => pure (some (m.addTag (ctxText k))))
  | .list [.atom "del"] => some (fun _ _ => pure none)
  | .list [.atom "id"] => some (fun m _ => pure (some m))
  | .list [.atom "rev"] => some (fun m _ => pure (some (reverseMelody m)))
  | .list [.atom "circ", n] => do
      let n ← n.asInt?
      pure (fun m _ => do pure (some (← circularPermutation n m)))
  | .list [.atom "invm"] => some (fun m _ => do pure (some (← invertMelody m)))
  | _ => none

def chordAct : SExp → Option (TChord → Ctx → Res (Option TChord))
  | .list [.atom "tag", t] => do
      let t ← t.asAtom?
      pure (fun c _ => pure (some (c.addTag t)))
  | .list [.atom "ctx"] => some (fun c k => pure (some (c.addTag (ctxText k))))
  | .list [.atom "del"] => some (fun _ _ => pure none)
  | .list [.atom "id"] => some (fun c _ => pure (some c))
  | _ => none

def decT : SExp → Option Transformer
  | .list [.atom "T", lvl, act, filter, pre] => do
      let filter := (← filter.asInt?) != 0
      let pre ← match pre with
        | .atom "-" => pure none
        | e => (decMask e).map some
      match ← lvl.asAtom? with
      | "note" => pure { level := .note, actNote := ← noteAct act, filter := filter, pre := pre }
      | "melody" => pure { level := .melody, actMelody := ← melodyAct act, filter := filter, pre := pre }
      | "chord" => pure { level := .chord, actChord := ← chordAct act, filter := filter, pre := pre }
      | _ => none
  | _ => none

/-- the exception the constructor of a library transformer raises (`LimitRegister.__init__`) -/
def ctorErr : SExp → Option Err
  | .list [.atom "T", _, .list [.atom "lr", a, b], _, _] =>
      match decNote a, decNote b with
      | some a, some b => match LimitRegister.make a b with | .error e => some e | .ok _ => none
      | _, _ => none
  | _ => none

def decStep : SExp → Option Step
  | .list [.atom name, t, m] => do pure { name := name, T := ← decT t, on := ← decMask m }
  | _ => none

def stepsCtorErr (steps : SExp) : Option Err :=
  match steps.asList? with
  | some l => l.findSome? (fun st => match st with | .list [_, t, _] => ctorErr t | _ => none)
  | none => none

def showOptElem : Option Elem → String
  | none => "None"
  | some e => toString (encElem e)

end C18

open C18 in
def step : List SExp → String
  | [.atom "maskstruct", m] =>
      match decMask m with
      | some m => toString (encMask m)
      | none => "bad-args"
  | [.atom "maskcall", m, e, k] =>
      match decMask m, decElem e, decCtx k with
      | some m, some e, some k => if m.call e k then "1" else "0"
      | _, _, _ => "bad-args"
  | [.atom "maskchild", m, e, k] =>
      match decMask m, decElem e, decCtx k with
      | some m, some e, some k => toString (encMask (m.child e k))
      | _, _, _ => "bad-args"
  | [.atom "apply", t, m, e] =>
      match ctorErr t with
      | some err => "ERR:" ++ err.toStr
      | none =>
      match decT t, decMask m, decElem e with
      | some t, some m, some e => showRes showOptElem (callElem t e m {})
      | _, _, _ => "bad-args"
  | [.atom "tpipe", steps, e] =>
      match stepsCtorErr steps with
      | some err => "ERR:" ++ err.toStr
      | none =>
      match steps.asList?.bind (·.mapM decStep), decElem e with
      | some steps, some e => showRes showOptElem (transformPipeline steps (some e))
      | _, _ => "bad-args"
  | [.atom "cpipe", steps, e] =>
      match stepsCtorErr steps with
      | some err => "ERR:" ++ err.toStr
      | none =>
      match steps.asList?.bind (·.mapM decStep), decElem e with
      | some steps, some e => showRes showOptElem (concatPipeline steps (some e))
      | _, _ => "bad-args"
  | _ => "bad-op"

def main : IO Unit := runDriver step
