/-
Source tie, group `SrcDur` against the duration model of C10 (`MV/Model/Duration.lean`; it cannot be imported together
with the slicing model, both define `limitDenominator`): `Melody.duration`, `Chord.duration`, `Score.duration`.
-/
import MV.Lemmas.TieDurLemmas
import MV.Model.Duration

namespace MV.TieC10

theorem melodyDuration_src (m : Melody) : Src.Melody_duration m = Melody.duration m := rfl

theorem chordDuration_src (c : Chord) (h : (c.parts.map (·.1)).Nodup) : Src.Chord_duration c = .ok (Chord.duration c) := by
  unfold Src.Chord_duration Chord.duration
  cases hp : c.parts with
  | nil => rfl
  | cons p ps =>
    have hne : ¬ (Py.len (List.map (fun p => p.fst) (p :: ps)) = 0) := by simp [Py.len]; omega
    simp only [decide_eq_true_eq, hne, if_false]
    have := Tie.mapM_lookup (p :: ps) Src.Melody_duration (by rw [← hp]; exact h) (p :: ps) (fun q hq => hq)
    rw [this]
    rfl

theorem scoreDuration_src (s : Score) (h : ∀ c ∈ s, (c.parts.map (·.1)).Nodup) :
    Src.Score_duration s = .ok (Score.duration s) := by
  unfold Src.Score_duration Score.duration
  have : s.mapM (fun (c : Chord) => (do let t_1 ← Src.Chord_duration c; pure t_1 : Res Rat)) = .ok (s.map Chord.duration) := by
    induction s with
    | nil => rfl
    | cons c cs ih =>
      rw [List.mapM_cons, chordDuration_src c (h c (List.mem_cons_self ..))]
      show (do let y ← (Except.ok (Chord.duration c) : Res Rat); let ys ← _; pure (y :: ys)) = _
      rw [ih (fun d hd => h d (List.mem_cons_of_mem _ hd))]
      rfl
  rw [this]; rfl

end MV.TieC10
