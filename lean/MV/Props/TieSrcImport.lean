/-
Source tie, group `SrcImport` (DESIGN.md §9.6), serving C14: the importer core as py2lean generates it from the live
`musiclang/analyze/to_musiclang.py`, `musiclang/analyze/item.py` and `Note.augment` of `musiclang/write/note.py`
(`MV/Gen/SrcImport.lean`) equals the hand-written model of `MV/Model/Import.lean` / `MV/Model/ImportItem.lean`.
Only the tie theorems live here; the proofs' lemmas and tactics are in `MV/Lemmas/TieSrcImportLemmas.lean`.
-/
import MV.Lemmas.TieSrcImportLemmas

namespace MV.Tie
open MV

/-- `Note.augment(value)` (value a Fraction): copy (the constructor re-limits the duration), multiply, limit again -/
theorem noteAugment_src (n : Note) (v : Rat) : Src.Note_augment n v = n.augment v := rfl

/-- the nested `_parse_note(note, duration, chord, tick_value)` of `_parse_voice` -/
theorem parseNote_src (it : Item) (d : Rat) (c : Chord) (tick : Rat) :
    Src.parse_note it d c tick = parseNote c it d tick := parseNote_img it d c tick

/-- `_parse_voice(voice_notes, chord, bar_time_start, bar_time_end, tick_value, cont, is_drum)`: source image = model, every
list of items, every chord, every bar, every pending tie, drums or not.
Hypothesis `tick ≠ 0 ∨ cont = none`: with a pending tie the code computes `cont.duration / tick_value`, which raises
`ZeroDivisionError` for a zero tick, while the model's `voiceInit` is total (Lean's `x / 0 = 0`).  Every call site passes a
positive tick (`infer_score_with_chords_durations`: the literal 1; `infer_score`: the tick length of the file). -/
theorem parseVoice_src (notes : List Item) (c : Chord) (bs be tick : Rat) (cont : Option Note) (isDrum : Bool)
    (h : tick ≠ 0 ∨ cont = none) :
    Src.parse_voice notes c bs be tick cont isDrum = parseVoice notes c bs be tick cont isDrum := by
  cases cont with
  | none => exact parseVoice_src_none notes c bs be tick isDrum
  | some ct =>
    have ht : tick ≠ 0 := by rcases h with h | h; exact h; cases h
    exact parseVoice_src_some notes c bs be tick ct isDrum ht

/-- the hypothesis is satisfiable (a pending tie of 1/2 with the tick every caller uses) -/
example : ((1 : Rat) ≠ 0 ∨ (some (mkContinuation (1/2)) : Option Note) = none) := by decide

/-- outside the hypothesis the code raises and the model does not: the source image follows the code -/
example : Src.parse_voice [] { elem := 0 } 0 4 0 (some (mkContinuation 1)) false = .error .zerodiv := by decide +kernel
example : parseVoice [] { elem := 0 } 0 4 0 (some (mkContinuation 1)) false ≠ .error .zerodiv := by decide +kernel

/-- `infer_score_with_chords_durations(sequence, chords, instruments, bars)`: source image = model, for every sequence of items,
every list of chords and bars (of any lengths), every instrument table; no hypothesis.  (The loops over tracks and voices and
the dictionary of pending ties are folds in the image and `flatMap` / `filterMap` groups in the model; the score is appended to
in the image and consed by the model's recursion: `inferScoreS_eq`.) -/
theorem inferScore_src (seq : List Item) (chords : List Chord) (instruments : List (Int × String)) (bars : List (Rat × Rat)) :
    Src.infer_score_with_chords_durations seq chords instruments bars = inferScore seq chords instruments bars := by
  rw [inferScoreS_src, inferScoreS_eq]

/-- `Item.array()` -/
theorem itemArray_src (i : Item) : Src.Item_array i = i.array := rfl

/-- `Item.frommatrix(matrix)` -/
theorem itemFrommatrix_src (m : List ItemRow) : Src.Item_frommatrix m = Item.frommatrix m := rfl

/-- the matrix form loses nothing: rows written by `array()` and read back by `frommatrix` are the items themselves (on the
source images; channel and voice each come back in their own field) -/
theorem frommatrix_array_src (l : List Item) : Src.Item_frommatrix (l.map Src.Item_array) = l := by
  induction l with
  | nil => rfl
  | cons x xs ih =>
    simp only [Src.Item_frommatrix, List.map_cons, List.map_map] at ih ⊢
    rw [ih]
    rfl

end MV.Tie
