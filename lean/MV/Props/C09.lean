/-
C09 — relative notes move by exactly k steps from the previous sounded pitch.

`W pcs = Rel.wholeScale pcs` is the window the code searches: *all* pitches of the system
(pitch classes `pcs`) in `[-120, 120)`, strictly ascending (`mem_window`, `window_ascending`).
Inside the window the theorems hold for every reference pitch (on or off the system), every
step count and every non-empty pitch-class set; outside it both code and model raise
`IndexError` (`rel_outside_window_raises`), which is the stated error branch, not a default.
-/
import MV.Lemmas.Window

namespace MV.C09
open MV Rel

/-! ### the window is exactly the system pitches of [-120, 120), ascending -/

theorem pcs_ok (scale : List Int) (hne : scale ≠ []) : PcsOK (sortedDedup (scale.map (· % 12))) :=
  sortedDedup_ok scale hne

theorem mem_window (pcs : List Int) (h : PcsOK pcs) (x : Int) :
    x ∈ wholeScale pcs ↔ (x % 12 ∈ pcs ∧ -120 ≤ x ∧ x < 120) := mem_wholeScale pcs h x

theorem window_ascending (pcs : List Int) (h : PcsOK pcs) : (wholeScale pcs).Pairwise (· < ·) :=
  wholeScale_asc pcs h

/-- `get_relative_scale_value` = `relTotal` on the sorted, de-duplicated pitch classes with the
signed step count `±(val + |pcs|·octave)` -/
theorem rel_value_unfold (isDown : Bool) (val oct last : Int) (scale : List Int) :
    relValue isDown val oct last scale =
      relTotal (if isDown then -(val + ((sortedDedup (scale.map (· % 12))).length : Int) * oct)
                else val + ((sortedDedup (scale.map (· % 12))).length : Int) * oct)
        last (sortedDedup (scale.map (· % 12))) := rfl

theorem contains_iff (L : List Int) (x : Int) : L.contains x = true ↔ x ∈ L := by
  simp

theorem rel_up_counts (pcs : List Int) (hp : PcsOK pcs) (k last r : Int) (hk : 0 < k)
    (h : relUp k last pcs = .ok r) :
    r ∈ wholeScale pcs ∧ last < r ∧ ((wholeScale pcs).filter (fun y => decide (last < y) && decide (y ≤ r))).length = k := by
  unfold relUp at h
  rw [scaleMod_id pcs hp] at h
  have hasc := wholeScale_asc pcs hp
  have hk0 : ¬ k = 0 := by omega
  simp only [hk0, if_false, ge_iff_le] at h
  rw [asc_filter_ge _ hasc last] at h
  have hcl := asc_count_le_split _ hasc last
  generalize ha : ((wholeScale pcs).filter (fun y => decide (y < last))).length = a at h hcl
  obtain ⟨j, hj, hjr, hji⟩ := pyIndex_ok h
  have hlen : j < (wholeScale pcs).length - a := by simpa using hj
  have hr : (wholeScale pcs)[a + j]'(by omega) = r := by
    rw [← hjr]; simp
  have hmem : r ∈ wholeScale pcs := by rw [← hr]; exact List.getElem_mem _
  have hcr := asc_count_le _ hasc (a + j) (by omega)
  rw [hr] at hcr
  have hc : (wholeScale pcs).contains last = true ↔ last ∈ wholeScale pcs := contains_iff _ _
  -- r ≥ last since r is an entry of the suffix ≥ last
  have hge : last ≤ r := by
    have hcnt := asc_count_lt _ hasc (a + j) (by omega)
    rw [hr] at hcnt
    by_contra hlt
    have hlt : r < last := by omega
    -- every y < r is < last, so #{y<r} ≤ #{y<last} = a, but #{y<r} = a + j and r itself is < last and not < r
    have h1 := count_split (wholeScale pcs) (fun y => decide (y < r)) (fun y => decide (y < last))
      (by intro y; simp; omega)
    have h2 : 0 < ((wholeScale pcs).filter (fun y => decide (y < last) && !decide (y < r))).length := by
      apply List.length_pos_of_mem (a := r)
      simp [hmem, hlt]
    omega
  have hsplit := count_split (wholeScale pcs) (fun y => decide (y ≤ last)) (fun y => decide (y ≤ r))
    (by intro y; simp; omega)
  have hfe : (wholeScale pcs).filter (fun y => decide (y ≤ r) && !decide (y ≤ last))
      = (wholeScale pcs).filter (fun y => decide (last < y) && decide (y ≤ r)) := by
    apply List.filter_congr; intro y _
    by_cases h1 : y ≤ r <;> by_cases h2 : y ≤ last <;> simp [h1, h2] <;> omega
  rw [hfe] at hsplit
  by_cases hin : last ∈ wholeScale pcs
  · have : (wholeScale pcs).contains last = true := hc.mpr hin
    simp only [this, if_true] at hji
    simp only [hin, if_true] at hcl
    have hk' : ¬ (k - 0 < 0) := by omega
    simp only [hk', if_false] at hji
    refine ⟨hmem, ?_, ?_⟩
    · rcases Int.lt_or_le last r with hn | hn
      · exact hn
      · have : r = last := by omega
        subst this
        omega
    · omega
  · have : (wholeScale pcs).contains last = false := by
      cases hcc : (wholeScale pcs).contains last
      · rfl
      · exact absurd (hc.mp hcc) hin
    simp only [this, Bool.false_eq_true, if_false] at hji
    simp only [hin, if_false] at hcl
    have hk' : ¬ (k - 1 < 0) := by omega
    simp only [hk', if_false] at hji
    refine ⟨hmem, ?_, ?_⟩
    · rcases Int.lt_or_le last r with hn | hn
      · exact hn
      · have : r = last := by omega
        subst this
        exact absurd hmem hin
    · omega

/-- **down by `k ≥ 1`**: the result is a system pitch strictly below the reference and exactly `k`
system pitches lie in `[result, last)` -/
theorem rel_down_counts (pcs : List Int) (hp : PcsOK pcs) (k last r : Int) (hk : 0 < k)
    (h : relDown k last pcs = .ok r) :
    r ∈ wholeScale pcs ∧ r < last ∧
      ((wholeScale pcs).filter (fun y => decide (r ≤ y) && decide (y < last))).length = k := by
  unfold relDown at h
  rw [scaleMod_id pcs hp] at h
  have hasc := wholeScale_asc pcs hp
  have hk0 : ¬ k = 0 := by omega
  simp only [hk0, if_false] at h
  rw [asc_filter_le _ hasc last] at h
  have hcl := asc_count_le_split _ hasc last
  have hble : ((wholeScale pcs).filter (fun y => decide (y ≤ last))).length ≤ (wholeScale pcs).length :=
    List.length_filter_le _ _
  generalize hb : ((wholeScale pcs).filter (fun y => decide (y ≤ last))).length = b at h hcl hble
  generalize ha : ((wholeScale pcs).filter (fun y => decide (y < last))).length = a at hcl
  obtain ⟨j, hj, hjr, hji⟩ := pyIndex_ok h
  have hlen : (List.take b (wholeScale pcs)).length = b := by simp; omega
  rw [hlen] at hji
  have hjb : j < b := by rw [hlen] at hj; exact hj
  have hr : (wholeScale pcs)[j]'(by omega) = r := by
    rw [← hjr]; simp
  have hmem : r ∈ wholeScale pcs := by rw [← hr]; exact List.getElem_mem _
  have hcnt := asc_count_lt _ hasc j (by omega)
  rw [hr] at hcnt
  have hcle := asc_count_le _ hasc j (by omega)
  rw [hr] at hcle
  -- r ≤ last, since r is among the first b = #{y ≤ last} entries
  have hle : r ≤ last := by
    by_contra hgt
    have hgt : last < r := by omega
    have h1 := count_split (wholeScale pcs) (fun y => decide (y ≤ last)) (fun y => decide (y < r))
      (by intro y; simp; omega)
    omega
  have hsplit := count_split (wholeScale pcs) (fun y => decide (y < r)) (fun y => decide (y < last))
    (by intro y; simp; omega)
  have hfe : (wholeScale pcs).filter (fun y => decide (y < last) && !decide (y < r))
      = (wholeScale pcs).filter (fun y => decide (r ≤ y) && decide (y < last)) := by
    apply List.filter_congr; intro y _
    by_cases h1 : y < last <;> by_cases h2 : y < r <;> simp [h1, h2] <;> omega
  rw [hfe] at hsplit
  have hc : (wholeScale pcs).contains last = true ↔ last ∈ wholeScale pcs := contains_iff _ _
  by_cases hin : last ∈ wholeScale pcs
  · have : (wholeScale pcs).contains last = true := hc.mpr hin
    simp only [this, if_true] at hji
    simp only [hin, if_true] at hcl
    have hk' : (-(k + 1) + 0 < 0) := by omega
    simp only [hk', if_true] at hji
    refine ⟨hmem, ?_, ?_⟩
    · rcases Int.lt_or_le r last with hn | hn
      · exact hn
      · have : r = last := by omega
        subst this
        omega
    · omega
  · have : (wholeScale pcs).contains last = false := by
      cases hcc : (wholeScale pcs).contains last
      · rfl
      · exact absurd (hc.mp hcc) hin
    simp only [this, Bool.false_eq_true, if_false] at hji
    simp only [hin, if_false] at hcl
    have hk' : (-(k + 1) + 1 < 0) := by omega
    simp only [hk', if_true] at hji
    refine ⟨hmem, ?_, ?_⟩
    · rcases Int.lt_or_le r last with hn | hn
      · exact hn
      · have : r = last := by omega
        subst this
        exact absurd hmem hin
    · omega

/-- **`k = 0` picks the nearest system pitch** (the reference itself when it belongs to the
system; ties go up) -/
theorem rel_zero_nearest (pcs : List Int) (hp : PcsOK pcs) (last r : Int)
    (h : relTotal 0 last pcs = .ok r) :
    (last % 12 ∈ pcs → r = last) ∧
    (last % 12 ∉ pcs → r ∈ wholeScale pcs ∧
      ∀ y ∈ wholeScale pcs, (r - last).natAbs ≤ (y - last).natAbs ∧
        ((y - last).natAbs = (r - last).natAbs → y ≤ r)) := by
  unfold relTotal at h
  simp only [Int.lt_irrefl, if_false] at h
  have hmap : pcs.map (· % 12) = pcs := by
    conv => rhs; rw [← List.map_id pcs]
    apply List.map_congr_left
    intro x hx; have := hp.2.2 x hx; simp; omega
  rw [hmap] at h
  by_cases hin : last % 12 ∈ pcs
  · have : pcs.contains (last % 12) = true := by simpa using hin
    simp only [this, if_true] at h
    refine ⟨fun _ => by cases h; rfl, fun hn => absurd hin hn⟩
  · have : pcs.contains (last % 12) = false := by simpa using hin
    simp only [this, Bool.false_eq_true, if_false] at h
    refine ⟨fun hh => absurd hh hin, fun _ => ?_⟩
    cases hu : relUp 0 last pcs with
    | error e => simp [hu, bind, Except.bind] at h
    | ok u =>
      cases hd : relDown 0 last pcs with
      | error e => simp [hu, hd, bind, Except.bind] at h
      | ok d =>
        simp only [hu, hd, bind, Except.bind] at h
        obtain ⟨hum, hul, humin⟩ := relUp0_spec pcs hp last u hu
        obtain ⟨hdm, hdl, hdmax⟩ := relDown0_spec pcs hp last d hd
        split at h
        · rename_i hle
          cases h
          refine ⟨hum, fun y hy => ?_⟩
          rcases Int.lt_or_le y last with hy1 | hy1
          · have := hdmax y hy (by omega); omega
          · have := humin y hy hy1; omega
        · rename_i hle
          cases h
          refine ⟨hdm, fun y hy => ?_⟩
          rcases Int.lt_or_le y last with hy1 | hy1
          · have := hdmax y hy (by omega); omega
          · have := humin y hy hy1; omega

/-- **up `k` then down `k` from a system pitch returns to it** -/
theorem rel_up_down_inverse (pcs : List Int) (hp : PcsOK pcs) (k p r : Int) (hk : 0 < k)
    (hpm : p ∈ wholeScale pcs) (h : relUp k p pcs = .ok r) : relDown k r pcs = .ok p := by
  have hasc := wholeScale_asc pcs hp
  obtain ⟨hrm, hlt, hcount⟩ := rel_up_counts pcs hp k p r hk h
  obtain ⟨hip, hpe⟩ := asc_index_of_mem _ hasc p hpm
  obtain ⟨hir, hre⟩ := asc_index_of_mem _ hasc r hrm
  unfold relDown
  rw [scaleMod_id pcs hp]
  have hk0 : ¬ k = 0 := by omega
  have hc : (wholeScale pcs).contains r = true := by simpa using hrm
  simp only [hk0, if_false, hc, if_true]
  rw [asc_filter_le _ hasc r]
  have hcr := asc_count_le_split _ hasc r
  simp only [hrm, if_true] at hcr
  have hcp := asc_count_le_split _ hasc p
  simp only [hpm, if_true] at hcp
  -- #{y ≤ r} = #{y ≤ p} + k
  have hsplit := count_split (wholeScale pcs) (fun y => decide (y ≤ p)) (fun y => decide (y ≤ r))
    (by intro y; simp; omega)
  have hfe : (wholeScale pcs).filter (fun y => decide (y ≤ r) && !decide (y ≤ p))
      = (wholeScale pcs).filter (fun y => decide (p < y) && decide (y ≤ r)) := by
    apply List.filter_congr; intro y _
    by_cases h1 : y ≤ r <;> by_cases h2 : y ≤ p <;> simp [h1, h2] <;> omega
  rw [hfe] at hsplit
  generalize hb : ((wholeScale pcs).filter (fun y => decide (y ≤ r))).length = b at *
  generalize ha : ((wholeScale pcs).filter (fun y => decide (y < p))).length = a at *
  have hble : b ≤ (wholeScale pcs).length := by rw [← hb]; exact List.length_filter_le _ _
  have hlen : (List.take b (wholeScale pcs)).length = b := by simp; omega
  have hja : a < (List.take b (wholeScale pcs)).length := by rw [hlen]; omega
  rw [pyIndex_eq a hja (by rw [hlen]; have : -(k + 1) + 0 < 0 := by omega
                           simp only [this, if_true]; omega)]
  simp [hpe]

/-- **the result always belongs to the system** -/
theorem rel_in_system (pcs : List Int) (hp : PcsOK pcs) (t last r : Int)
    (h : relTotal t last pcs = .ok r) : r % 12 ∈ pcs := by
  by_cases h0 : t = 0
  · subst h0
    obtain ⟨h1, h2⟩ := rel_zero_nearest pcs hp last r h
    by_cases hin : last % 12 ∈ pcs
    · rw [h1 hin]; exact hin
    · exact ((mem_window pcs hp r).mp (h2 hin).1).1
  · unfold relTotal at h
    by_cases hpos : t > 0
    · simp only [hpos, if_true] at h
      exact ((mem_window pcs hp r).mp (rel_up_counts pcs hp t last r hpos h).1).1
    · have hneg : t < 0 := by omega
      simp only [hpos, if_false, hneg, if_true] at h
      exact ((mem_window pcs hp r).mp (rel_down_counts pcs hp (-t) last r (by omega) h).1).1

/-- the error branch: when fewer than `k` system pitches of the window lie above the reference,
the code raises `IndexError` and so does the model (never a default value) -/
theorem rel_outside_window_raises (pcs : List Int) (hp : PcsOK pcs) (k last : Int) (hk : 0 < k)
    (hfew : (((wholeScale pcs).filter (fun y => decide (last ≤ y))).length : Int)
              ≤ k - (if (wholeScale pcs).contains last then 0 else 1)) :
    relUp k last pcs = .error .index := by
  unfold relUp
  rw [scaleMod_id pcs hp]
  have hk0 : ¬ k = 0 := by omega
  simp only [hk0, if_false, ge_iff_le]
  generalize hc : (if (wholeScale pcs).contains last = true then (0 : Int) else 1) = c at hfew ⊢
  have hc01 : 0 ≤ c ∧ c ≤ 1 := by rw [← hc]; split <;> omega
  apply pyIndex_err
  intro h
  split at h <;> omega

/-! ### non-vacuity (kernel-evaluated instances) -/

example : PcsOK [0, 2, 4, 5, 7, 9, 11] := by
  refine ⟨by simp, by decide, by decide⟩
example : relValue false 2 0 1 [0, 2, 4, 5, 7, 9, 11] = .ok 4 := by decide +kernel   -- off-scale reference: 1 → 2 → 4
example : relValue true 1 1 0 [12, 16, 19] = .ok (-17) := by decide +kernel          -- cd1.o(1) on a triad
example : relValue false 0 0 6 [0, 4, 7] = .ok 7 := by decide +kernel                -- nearest, tie 4/7? 6→7
example : relUp 3 115 [0, 4, 7] = .error .index := by decide +kernel                 -- outside the window

end MV.C09
