/-
C02 — chord scales, chord tones, inversions and extension modifiers are well-formed.
-/
import MV.Lemmas.Ext

namespace MV.C02
open MV Gen

/-! ### church modes are rotations of the major scale (generated table) -/

/-- rotation of a seven-note row started on its `k`-th degree, re-based to 0 -/
def rotScale (l : List Int) (k : Nat) : List Int :=
  (l.drop k ++ (l.take k).map (· + 12)).map (· - l.getD k 0)

theorem church_modes_are_rotations :
    SCALES .dorian = rotScale (SCALES .M) 1 ∧ SCALES .phrygian = rotScale (SCALES .M) 2 ∧
    SCALES .lydian = rotScale (SCALES .M) 3 ∧ SCALES .mixolydian = rotScale (SCALES .M) 4 ∧
    SCALES .aeolian = rotScale (SCALES .M) 5 ∧ SCALES .locrian = rotScale (SCALES .M) 6 ∧
    SCALES .m = [0, 2, 3, 5, 7, 8, 11] ∧ SCALES .mm = [0, 2, 3, 5, 7, 9, 11] := by decide

/-! ### the chord scale on degree d is the tonality's scale started on d -/

theorem chord_scale_entries (c : Chord) (he : 0 ≤ c.elem ∧ c.elem < 7) (i : Nat) (hi : i < 7) :
    c.scalePitches.getD i 0 = c.degPitch i := by
  rw [scalePitches_getD c i (C01.scales_len _) he hi]
  unfold Chord.degPitch Chord.base Tonality.absDegree; omega

/-- seven notes, strictly ascending, spanning less than an octave, and the pitch classes are
those of the tonality's scale (entry `i` is degree `elem + i`) -/
theorem chord_scale_is_rotation (c : Chord) (he : 0 ≤ c.elem ∧ c.elem < 7) :
    c.scalePitches.length = 7 ∧
    (∀ i, i < 6 → c.scalePitches.getD i 0 < c.scalePitches.getD (i + 1) 0) ∧
    c.scalePitches.getD 6 0 - c.scalePitches.getD 0 0 < 12 ∧
    (∀ i, i < 7 → c.scalePitches.getD i 0 % 12
        = (c.ton.deg + (SCALES c.ton.mode).getD ((c.elem.toNat + i) % 7) 0) % 12) := by
  have hok := C01.scales_ok c.ton.mode
  refine ⟨scalePitches_length c (C01.scales_len _) he, ?_, ?_, ?_⟩
  · intro i hi
    rw [chord_scale_entries c he i (by omega), chord_scale_entries c he (i + 1) (by omega)]
    unfold Chord.degPitch
    have := C01.degSemitone_succ _ hok (c.elem.toNat + i)
    rw [← Nat.add_assoc]; omega
  · rw [chord_scale_entries c he 6 (by omega), chord_scale_entries c he 0 (by omega)]
    unfold Chord.degPitch
    have h1 := degSemitone_strictMono _ hok (c.elem.toNat + 6) (c.elem.toNat + 7) (by omega)
    have h2 := C01.degSemitone_octave (SCALES c.ton.mode) c.elem.toNat
    simp only [Nat.add_zero]; omega
  · intro i hi
    rw [chord_scale_entries c he i hi]
    unfold Chord.degPitch Chord.base degSemitone
    omega

/-! ### chord tones are stacked thirds; inversions rotate them -/

/-- offsets (in scale degrees above the root) of `n` stacked thirds -/
def thirds (n : Nat) : List Nat := (List.range n).map (2 * ·)

/-- inversion `k` of `n` stacked thirds: the first `k` tones go up an octave (7 degrees) -/
def invOffsets (n k : Nat) : List Nat := (thirds n).drop k ++ ((thirds n).take k).map (· + 7)

/-- (number of chord tones, inversion index) named by a figure -/
def figShape : Fig → Nat × Nat
  | .f0 => (3, 0) | .f5 => (3, 0) | .f6 => (3, 1) | .f64 => (3, 2)
  | .f7 => (4, 0) | .f65 => (4, 1) | .f43 => (4, 2) | .f2 => (4, 3)
  | .f9 => (5, 0) | .f11 => (6, 0) | .f13 => (7, 0)

/-- the generated `BASE_EXTENSION_DICT` is stacked thirds and their rotations, and
`BASE_CHORDAL_TRANSLATION_DICT` is the rotation index -/
theorem base_table_is_stacked_thirds (f : Fig) :
    ∃ base, BASE_EXTENSION_DICT f = some base ∧ (∀ n ∈ base, PlainNote n) ∧
      base.map noteOffset = invOffsets (figShape f).1 (figShape f).2 ∧
      BASE_CHORDAL_TRANSLATION_DICT f = some ((figShape f).2 : Int) := by
  cases f <;> exact ⟨_, rfl, by decide, by decide, by decide⟩

theorem base_no_extra_keys : BASE_EXTENSION_EXTRA_KEYS = [] := by decide

theorem invOffsets_asc (f : Fig) :
    (invOffsets (figShape f).1 (figShape f).2).Pairwise (· < ·) ∧
    (∀ a ∈ invOffsets (figShape f).1 (figShape f).2, ∀ b ∈ invOffsets (figShape f).1 (figShape f).2,
      f ≠ .f9 → f ≠ .f11 → f ≠ .f13 → b < a + 7) := by
  cases f <;> decide

def Plain (c : Chord) : Prop := c.ext.repl = [] ∧ c.ext.add = [] ∧ c.ext.rem = []

/-- **bass-tone arpeggio of a plain figure**: the rotated stacked thirds of the chord scale -/
theorem plain_extension_pitches (c : Chord) (hp : Plain c) (he : 0 ≤ c.elem ∧ c.elem < 7) :
    c.extensionPitches
      = .ok ((invOffsets (figShape c.ext.fig).1 (figShape c.ext.fig).2).map c.degPitch) := by
  obtain ⟨base, hb, hpl, hoff, _⟩ := base_table_is_stacked_thirds c.ext.fig
  have hasc := (invOffsets_asc c.ext.fig).1
  rw [← hoff] at hasc
  unfold Chord.extensionPitches Chord.extensionNotes Ext.props
  rw [hp.1, hp.2.1, hp.2.2, sortStrs_nil]
  simp only [chordNotesCalc_plain c _ base hb hpl hasc he, bind, Except.bind]
  unfold pitchesOf
  rw [mapM_ok (reqPitch c) (fun n => c.degPitch (noteOffset n)) base (by
    intro n hn; unfold reqPitch
    simp only [basicPitch_plain c n (hpl n hn) he, bind, Except.bind, pure, Except.pure])]
  rw [← hoff, List.map_map]; rfl

theorem rootFig_shape (f : Fig) : figShape f.rootFig = ((figShape f).1, 0) := by cases f <;> rfl

/-- **chord-tone arpeggio of a plain figure**: stacked thirds of the chord scale (root position) -/
theorem plain_chord_pitches (c : Chord) (hp : Plain c) (he : 0 ≤ c.elem ∧ c.elem < 7) :
    c.chordPitches = .ok ((thirds (figShape c.ext.fig).1).map c.degPitch) := by
  obtain ⟨base, hb, hpl, hoff, _⟩ := base_table_is_stacked_thirds c.ext.fig.rootFig
  have hasc := (invOffsets_asc c.ext.fig.rootFig).1
  rw [← hoff] at hasc
  unfold Chord.chordPitches Chord.chordNotes Ext.props
  rw [hp.1, hp.2.1, hp.2.2, sortStrs_nil]
  simp only [chordNotesCalc_plain c _ base hb hpl hasc he, bind, Except.bind]
  unfold pitchesOf
  rw [mapM_ok (reqPitch c) (fun n => c.degPitch (noteOffset n)) base (by
    intro n hn; unfold reqPitch
    simp only [basicPitch_plain c n (hpl n hn) he, bind, Except.bind, pure, Except.pure])]
  have : base.map noteOffset = thirds (figShape c.ext.fig).1 := by
    rw [hoff, rootFig_shape]; unfold invOffsets; simp
  rw [← this, List.map_map]; rfl

theorem degPitch_octave (c : Chord) (j : Nat) : c.degPitch (j + 7) = c.degPitch j + 12 := by
  unfold Chord.degPitch
  rw [← Nat.add_assoc, C01.degSemitone_octave]; omega

/-- **a figured-bass inversion only changes which chord tone is lowest**: the bass-tone
arpeggio is the root-position arpeggio rotated by the figure's inversion index, the tones
that wrapped raised by exactly an octave -/
theorem inversion_plain (c : Chord) (hp : Plain c) (he : 0 ≤ c.elem ∧ c.elem < 7) :
    ∃ root, c.chordPitches = .ok root ∧
      c.extensionPitches = .ok (root.drop (figShape c.ext.fig).2
          ++ (root.take (figShape c.ext.fig).2).map (· + 12)) := by
  refine ⟨_, plain_chord_pitches c hp he, ?_⟩
  rw [plain_extension_pitches c hp he]
  unfold invOffsets
  simp only [List.map_append, List.map_drop, List.map_take, List.map_map]
  congr 3
  apply List.map_congr_left
  intro j _
  simp only [Function.comp]
  exact degPitch_octave c j

/-- consequences for triads and seventh chords: strictly ascending, within one octave, same
pitch classes as the root position -/
theorem inversion_plain_wellformed (c : Chord) (hp : Plain c) (he : 0 ≤ c.elem ∧ c.elem < 7)
    (h34 : c.ext.fig ≠ .f9 ∧ c.ext.fig ≠ .f11 ∧ c.ext.fig ≠ .f13) :
    ∃ root ps, c.chordPitches = .ok root ∧ c.extensionPitches = .ok ps ∧
      ps.Pairwise (· < ·) ∧ (∀ a ∈ ps, ∀ b ∈ ps, b - a < 12) ∧
      (∀ p, p ∈ ps.map (· % 12) ↔ p ∈ root.map (· % 12)) := by
  obtain ⟨root, hr, hps⟩ := inversion_plain c hp he
  refine ⟨root, _, hr, hps, ?_, ?_, ?_⟩
  · have := plain_extension_pitches c hp he
    rw [hps] at this
    injection this with this
    rw [this, List.pairwise_map]
    refine (invOffsets_asc c.ext.fig).1.imp ?_
    intro a b hab
    unfold Chord.degPitch
    have := degSemitone_strictMono _ (C01.scales_ok c.ton.mode) (c.elem.toNat + a) (c.elem.toNat + b) (by omega)
    omega
  · have := plain_extension_pitches c hp he
    rw [hps] at this
    injection this with this
    rw [this]
    intro a ha b hb
    obtain ⟨ja, hja, rfl⟩ := List.mem_map.mp ha
    obtain ⟨jb, hjb, rfl⟩ := List.mem_map.mp hb
    have hlt := (invOffsets_asc c.ext.fig).2 ja hja jb hjb h34.1 h34.2.1 h34.2.2
    have h1 : c.degPitch jb < c.degPitch (ja + 7) := by
      unfold Chord.degPitch
      have := degSemitone_strictMono _ (C01.scales_ok c.ton.mode) (c.elem.toNat + jb) (c.elem.toNat + (ja + 7)) (by omega)
      omega
    rw [degPitch_octave] at h1; omega
  · intro p
    simp only [List.map_append, List.mem_append, List.mem_map, List.map_map]
    constructor
    · rintro (⟨x, hx, rfl⟩ | ⟨x, hx, rfl⟩)
      · exact ⟨x, List.mem_of_mem_drop hx, rfl⟩
      · refine ⟨x, List.mem_of_mem_take hx, ?_⟩
        simp only [Function.comp]; omega
    · rintro ⟨x, hx, rfl⟩
      rw [← List.take_append_drop (figShape c.ext.fig).2 root] at hx
      rcases List.mem_append.mp hx with hx | hx
      · right; exact ⟨x, hx, by simp only [Function.comp]; omega⟩
      · left; exact ⟨x, hx, rfl⟩

/-! ### inverting: composition and period; modifier order; idempotence -/

def invFig (f : Fig) (k : Int) : Fig :=
  match fourFigs.findIdx? (· == f) with
  | some i => fourFigs.getD ((Int.ofNat i + k) % 4).toNat f
  | none => match threeFigs.findIdx? (· == f) with
    | some i => threeFigs.getD ((Int.ofNat i + k) % 3).toNat f
    | none => f

theorem inv4 (i : Nat) (hi : i < 4) (k : Int) :
    invFig (fourFigs.getD i .f0) k = fourFigs.getD ((Int.ofNat i + k) % 4).toNat .f0 := by
  have hm : ((Int.ofNat i + k) % 4).toNat < 4 := by omega
  rcases (by omega : i = 0 ∨ i = 1 ∨ i = 2 ∨ i = 3) with rfl | rfl | rfl | rfl <;>
  · show fourFigs.getD _ _ = _
    generalize ((Int.ofNat _ + k) % 4).toNat = m at hm ⊢
    rcases (by omega : m = 0 ∨ m = 1 ∨ m = 2 ∨ m = 3) with rfl | rfl | rfl | rfl <;> rfl

theorem inv3 (i : Nat) (hi : i < 3) (k : Int) :
    invFig (threeFigs.getD i .f0) k = threeFigs.getD ((Int.ofNat i + k) % 3).toNat .f0 := by
  have hm : ((Int.ofNat i + k) % 3).toNat < 3 := by omega
  rcases (by omega : i = 0 ∨ i = 1 ∨ i = 2) with rfl | rfl | rfl <;>
  · show threeFigs.getD _ _ = _
    generalize ((Int.ofNat _ + k) % 3).toNat = m at hm ⊢
    rcases (by omega : m = 0 ∨ m = 1 ∨ m = 2) with rfl | rfl | rfl <;> rfl

theorem mem_four (f : Fig) (h : f ∈ fourFigs) : ∃ i, i < 4 ∧ f = fourFigs.getD i .f0 := by
  simp only [fourFigs, List.mem_cons, List.mem_nil_iff, or_false] at h
  rcases h with rfl | rfl | rfl | rfl
  · exact ⟨0, by omega, rfl⟩
  · exact ⟨1, by omega, rfl⟩
  · exact ⟨2, by omega, rfl⟩
  · exact ⟨3, by omega, rfl⟩

theorem mem_three (f : Fig) (h : f ∈ threeFigs) : ∃ i, i < 3 ∧ f = threeFigs.getD i .f0 := by
  simp only [threeFigs, List.mem_cons, List.mem_nil_iff, or_false] at h
  rcases h with rfl | rfl | rfl
  · exact ⟨0, by omega, rfl⟩
  · exact ⟨1, by omega, rfl⟩
  · exact ⟨2, by omega, rfl⟩

/-- inversions add up for all `j k ∈ ℤ`; a seventh chord has period 4, a triad period 3 -/
theorem invFig_four (f : Fig) (h : f ∈ fourFigs) (j k : Int) :
    invFig (invFig f k) j = invFig f (k + j) ∧ invFig f 4 = f ∧ invFig f (k + 4) = invFig f k ∧ invFig f 0 = f := by
  obtain ⟨i, hi, rfl⟩ := mem_four f h
  have hm : ((Int.ofNat i + k) % 4).toNat < 4 := by omega
  refine ⟨?_, ?_, ?_, ?_⟩
  · rw [inv4 i hi k, inv4 _ hm j, inv4 i hi (k + j)]
    congr 1; simp; omega
  · rw [inv4 i hi 4]; congr 1; simp; omega
  · rw [inv4 i hi (k + 4), inv4 i hi k]; congr 1; simp; omega
  · rw [inv4 i hi 0]; congr 1; simp; omega

theorem invFig_three (f : Fig) (h : f ∈ threeFigs) (j k : Int) :
    invFig (invFig f k) j = invFig f (k + j) ∧ invFig f 3 = f ∧ invFig f (k + 3) = invFig f k ∧ invFig f 0 = f := by
  obtain ⟨i, hi, rfl⟩ := mem_three f h
  have hm : ((Int.ofNat i + k) % 3).toNat < 3 := by omega
  refine ⟨?_, ?_, ?_, ?_⟩
  · rw [inv3 i hi k, inv3 _ hm j, inv3 i hi (k + j)]
    congr 1; simp; omega
  · rw [inv3 i hi 3]; congr 1; simp; omega
  · rw [inv3 i hi (k + 3), inv3 i hi k]; congr 1; simp; omega
  · rw [inv3 i hi 0]; congr 1; simp; omega
/-- modifiers of two extensions are the same up to the order they are written in -/
def Ext.SameMods (e e' : Ext) : Prop :=
  e.fig = e'.fig ∧ e.repl.Perm e'.repl ∧ e.add.Perm e'.add ∧ e.rem.Perm e'.rem

theorem props_of_sameMods (e e' : Ext) (h : Ext.SameMods e e') : e.props = e'.props := by
  unfold Ext.props
  rw [h.1, sortStrs_congr _ _ h.2.1, sortStrs_congr _ _ h.2.2.1, sortStrs_congr _ _ h.2.2.2]

theorem props_normalize (e : Ext) : e.normalize.props = e.props := by
  unfold Ext.props Ext.normalize
  simp only [sortStrs_idem]

theorem normalize_idempotent (e : Ext) : e.normalize.normalize = e.normalize := by
  unfold Ext.normalize
  simp only [sortStrs_idem]

theorem normalize_order_irrelevant (e e' : Ext) (h : Ext.SameMods e e') : e.normalize = e'.normalize := by
  unfold Ext.normalize
  rw [h.1, sortStrs_congr _ _ h.2.1, sortStrs_congr _ _ h.2.2.1, sortStrs_congr _ _ h.2.2.2]

/-- two chords with the same degree, tonality and octave (whatever their extension and parts) -/
def SameHarm (c c' : Chord) : Prop := c.elem = c'.elem ∧ c.ton = c'.ton ∧ c.oct = c'.oct

theorem scalePitches_congr (c c' : Chord) (h : SameHarm c c') (n : Note) :
    (n.realChord c).scalePitches = (n.realChord c').scalePitches := by
  unfold Note.realChord Chord.scalePitches
  cases n.mode <;> simp only [h.1, h.2.1, h.2.2]

theorem basicPitch_congr (c c' : Chord) (h : SameHarm c c') : basicPitch c = basicPitch c' := by
  funext n
  unfold basicPitch withAccident
  simp only [scalePitches_congr c c' h n]

theorem calc_congr (c c' : Chord) (h : SameHarm c c') (f : Fig) (r a m : List String) :
    c.chordNotesCalc f r a m = c'.chordNotesCalc f r a m := by
  have hr : reqPitch c = reqPitch c' := by funext n; unfold reqPitch; rw [basicPitch_congr c c' h]
  have hk : pitchKey c = pitchKey c' := by funext n; unfold pitchKey; rw [basicPitch_congr c c' h]
  unfold Chord.chordNotesCalc
  rw [hr, hk]

theorem pitchesOf_congr (c c' : Chord) (h : SameHarm c c') : pitchesOf c = pitchesOf c' := by
  funext ns; unfold pitchesOf
  have hr : reqPitch c = reqPitch c' := by funext n; unfold reqPitch; rw [basicPitch_congr c c' h]
  rw [hr]

theorem sameHarm_ext (c : Chord) (e e' : Ext) : SameHarm { c with ext := e } { c with ext := e' } :=
  ⟨rfl, rfl, rfl⟩

/-- chord tones, bass tones and their pitches only depend on the *set* of modifiers -/
theorem modifier_order_irrelevant (c : Chord) (e e' : Ext) (h : Ext.SameMods e e') :
    ({ c with ext := e } : Chord).chordNotes = ({ c with ext := e' } : Chord).chordNotes ∧
    ({ c with ext := e } : Chord).extensionNotes = ({ c with ext := e' } : Chord).extensionNotes ∧
    ({ c with ext := e } : Chord).chordPitches = ({ c with ext := e' } : Chord).chordPitches ∧
    ({ c with ext := e } : Chord).extensionPitches = ({ c with ext := e' } : Chord).extensionPitches ∧
    c.withExt e = c.withExt e' := by
  have hp := props_of_sameMods e e' h
  have h1 : ({ c with ext := e } : Chord).chordNotes = ({ c with ext := e' } : Chord).chordNotes := by
    unfold Chord.chordNotes; simp only [hp]; exact calc_congr _ _ (sameHarm_ext c e e') _ _ _ _
  have h2 : ({ c with ext := e } : Chord).extensionNotes = ({ c with ext := e' } : Chord).extensionNotes := by
    unfold Chord.extensionNotes; simp only [hp]; exact calc_congr _ _ (sameHarm_ext c e e') _ _ _ _
  refine ⟨h1, h2, ?_, ?_, ?_⟩
  · unfold Chord.chordPitches; rw [h1, pitchesOf_congr _ _ (sameHarm_ext c e e')]
  · unfold Chord.extensionPitches; rw [h2, pitchesOf_congr _ _ (sameHarm_ext c e e')]
  · unfold Chord.withExt; simp only [h2, normalize_order_irrelevant e e' h]

/-- the extension `Chord.invert` asks for -/
def invExt (e : Ext) (k : Int) : Ext :=
  { fig := invFig e.fig k, repl := sortStrs e.repl, add := sortStrs e.add, rem := sortStrs e.rem }

/-- `Chord.invert` is re-indexing with the inverted figure (same modifiers) for triads and
seventh chords, and raises for `5`, `9`, `11`, `13` -/
theorem invert_eq (c : Chord) (k : Int) :
    c.invert k = if c.ext.fig ∈ fourFigs ∨ c.ext.fig ∈ threeFigs then c.withExt (invExt c.ext k)
                 else .error .other := by
  unfold Chord.invert Ext.props invExt
  simp only
  have h4 : ∀ i : Nat, i < 4 → pyIndex fourFigs ((Int.ofNat i + k) % 4)
      = .ok (fourFigs.getD ((Int.ofNat i + k) % 4).toNat c.ext.fig) := by
    intro i _
    exact pyIndex_nonneg fourFigs c.ext.fig _ (by omega) (by simp [fourFigs]; omega)
  have h3 : ∀ i : Nat, i < 3 → pyIndex threeFigs ((Int.ofNat i + k) % 3)
      = .ok (threeFigs.getD ((Int.ofNat i + k) % 3).toNat c.ext.fig) := by
    intro i _
    exact pyIndex_nonneg threeFigs c.ext.fig _ (by omega) (by simp [threeFigs]; omega)
  cases hf : c.ext.fig <;>
    simp [fourFigs, threeFigs, invFig, List.findIdx?, List.findIdx?.go, bind, Except.bind] <;>
    first
      | (have := h4 0 (by omega); simp [fourFigs, hf] at this; simp [this])
      | (have := h4 1 (by omega); simp [fourFigs, hf] at this; simp [this])
      | (have := h4 2 (by omega); simp [fourFigs, hf] at this; simp [this])
      | (have := h4 3 (by omega); simp [fourFigs, hf] at this; simp [this])
      | (have := h3 0 (by omega); simp [threeFigs, hf] at this; simp [this])
      | (have := h3 1 (by omega); simp [threeFigs, hf] at this; simp [this])
      | (have := h3 2 (by omega); simp [threeFigs, hf] at this; simp [this])

theorem withExt_base (c : Chord) (e0 e : Ext) : ({ c with ext := e0 } : Chord).withExt e = c.withExt e := by
  rfl

theorem withExt_ok (c : Chord) (e : Ext) (c1 : Chord) (h : c.withExt e = .ok c1) :
    c1 = { c with ext := e.normalize } ∧ ∃ ns, ({ c with ext := e } : Chord).extensionNotes = .ok ns := by
  unfold Chord.withExt at h
  cases hn : ({ c with ext := e } : Chord).extensionNotes with
  | error err => simp [hn, bind, Except.bind] at h
  | ok ns =>
    simp only [hn, bind, Except.bind, pure, Except.pure, Except.ok.injEq] at h
    exact ⟨h.symm, ns, rfl⟩

theorem invFig_mem (f : Fig) (k : Int) :
    (f ∈ fourFigs → invFig f k ∈ fourFigs) ∧ (f ∈ threeFigs → invFig f k ∈ threeFigs) := by
  constructor
  · intro h
    obtain ⟨i, hi, rfl⟩ := mem_four f h
    rw [inv4 i hi k]
    have hm : ((Int.ofNat i + k) % 4).toNat < 4 := by omega
    generalize ((Int.ofNat i + k) % 4).toNat = m at hm
    rcases (by omega : m = 0 ∨ m = 1 ∨ m = 2 ∨ m = 3) with rfl | rfl | rfl | rfl <;> simp [fourFigs]
  · intro h
    obtain ⟨i, hi, rfl⟩ := mem_three f h
    rw [inv3 i hi k]
    have hm : ((Int.ofNat i + k) % 3).toNat < 3 := by omega
    generalize ((Int.ofNat i + k) % 3).toNat = m at hm
    rcases (by omega : m = 0 ∨ m = 1 ∨ m = 2) with rfl | rfl | rfl <;> simp [threeFigs]

/-- **inversions compose**: inverting by `k` and then by `j` is inverting by `k + j`, for all
integers and any modifiers -/
theorem invert_add (c c1 : Chord) (j k : Int) (hf : c.ext.fig ∈ fourFigs ∨ c.ext.fig ∈ threeFigs)
    (h : c.invert k = .ok c1) : c1.invert j = c.invert (k + j) := by
  rw [invert_eq c k] at h
  simp only [hf, if_true] at h
  obtain ⟨hc1, _⟩ := withExt_ok c _ c1 h
  have hfig : c1.ext.fig = invFig c.ext.fig k := by rw [hc1]; rfl
  have hf1 : c1.ext.fig ∈ fourFigs ∨ c1.ext.fig ∈ threeFigs := by
    rw [hfig]
    rcases hf with h4 | h3
    · exact Or.inl ((invFig_mem _ k).1 h4)
    · exact Or.inr ((invFig_mem _ k).2 h3)
  rw [invert_eq c1 j, invert_eq c (k + j)]
  simp only [hf, hf1, if_true]
  have hadd : invFig (invFig c.ext.fig k) j = invFig c.ext.fig (k + j) := by
    rcases hf with h4 | h3
    · exact (invFig_four _ h4 j k).1
    · exact (invFig_three _ h3 j k).1
  have he : invExt c1.ext j = invExt c.ext (k + j) := by
    rw [hc1]
    unfold invExt Ext.normalize
    simp only [sortStrs_idem, hadd]
  rw [he, hc1, withExt_base]

theorem sameMods_sorted (e : Ext) :
    Ext.SameMods { fig := e.fig, repl := sortStrs e.repl, add := sortStrs e.add, rem := sortStrs e.rem } e :=
  ⟨rfl, sortStrs_perm _, sortStrs_perm _, sortStrs_perm _⟩

/-- **period**: inverting a triad three times, or a seventh chord four times, or any of them
zero times, is re-applying the chord's own extension (the identity on a well-formed chord,
see `getitem_idempotent`) -/
theorem invert_period (c : Chord) :
    (c.ext.fig ∈ threeFigs → c.invert 3 = c.withExt c.ext ∧ c.invert 0 = c.withExt c.ext) ∧
    (c.ext.fig ∈ fourFigs → c.invert 4 = c.withExt c.ext ∧ c.invert 0 = c.withExt c.ext) := by
  have key : ∀ k, invFig c.ext.fig k = c.ext.fig → c.withExt (invExt c.ext k) = c.withExt c.ext := by
    intro k hk
    have : invExt c.ext k = { fig := c.ext.fig, repl := sortStrs c.ext.repl, add := sortStrs c.ext.add, rem := sortStrs c.ext.rem } := by
      unfold invExt; rw [hk]
    rw [this]
    exact (modifier_order_irrelevant c _ _ (sameMods_sorted c.ext)).2.2.2.2
  constructor
  · intro h3
    have := invFig_three _ h3 0 0
    rw [invert_eq, invert_eq]
    simp only [h3, or_true, if_true]
    exact ⟨key 3 this.2.1, key 0 this.2.2.2⟩
  · intro h4
    have := invFig_four _ h4 0 0
    rw [invert_eq, invert_eq]
    simp only [h4, true_or, if_true]
    exact ⟨key 4 this.2.1, key 0 this.2.2.2⟩

/-- error branch: extended chords (and the explicit `'5'`) cannot be inverted -/
theorem invert_rejects (c : Chord) (k : Int)
    (h : c.ext.fig = .f5 ∨ c.ext.fig = .f9 ∨ c.ext.fig = .f11 ∨ c.ext.fig = .f13) :
    c.invert k = .error .other := by
  rw [invert_eq]
  rcases h with h | h | h | h <;> simp [h, fourFigs, threeFigs]

/-- **re-applying an extension is idempotent** (`c[e][(c[e]).extension] = c[e]`) -/
theorem getitem_idempotent (c c1 : Chord) (e : Ext) (h : c.withExt e = .ok c1) :
    c1.withExt c1.ext = .ok c1 := by
  obtain ⟨hc1, ns, hns⟩ := withExt_ok c e c1 h
  have hext : c1.ext = e.normalize := by rw [hc1]
  have hnotes : ({ c1 with ext := c1.ext } : Chord).extensionNotes = .ok ns := by
    rw [← hns, hc1]
    unfold Chord.extensionNotes
    simp only [props_normalize]
    exact calc_congr { c with ext := e.normalize } { c with ext := e } ⟨rfl, rfl, rfl⟩ _ _ _ _
  unfold Chord.withExt
  simp only [hnotes, bind, Except.bind, pure, Except.pure]
  rw [hext, normalize_idempotent, hc1]

/-! ### non-vacuity -/

example : ({ elem := 4, ext := { fig := .f65, repl := ["sus4"], add := ["add6"] }, ton := ⟨2, .m, 0⟩ } : Chord).invert (-3)
    = .ok { elem := 4, ext := { fig := .f43, repl := ["sus4"], add := ["add6"] }, ton := ⟨2, .m, 0⟩ } := by
  decide +kernel
example : Ext.SameMods { fig := .f7, repl := ["m7", "b5"], add := ["add2"] } { fig := .f7, repl := ["b5", "m7"], add := ["add2"] } :=
  ⟨rfl, List.Perm.swap _ _ _, List.Perm.refl _, List.Perm.refl _⟩
example : ({ elem := 1, ext := { fig := .f64 }, ton := ⟨9, .dorian, -1⟩, oct := 1 } : Chord).extensionPitches
    = .ok [18, 23, 26] := by decide +kernel

end MV.C02
