/-
C17 — metric grids place notes exactly on their pulses; Euclidean rhythms are even.

Only the property statements and their proofs from the lemmas of `MV.Lemmas.Metric`
and `MV.Lemmas.Bjorklund`.  Vocabulary (defined at the top of `Lemmas/Metric.lean`, no
reference to the model): `Binary a` (cells are 0/1), `pulseIdx a` (indices of the cells equal
to 1), `sounding n` (`Melody.get_note_times`' notion: `is_note` or type `x`/`d`), `runs a` (the
run-length reading of a grid, characterised by `runs_spec`), `place t notes 0 rs` (run `j`
carries melody note `j mod len`, or a rest when the run does not start on a pulse, lasting
`length · t`), `eraseDur`, `leadOffset a` (0 when the grid starts on a pulse, else 1),
`Metric.Valid m` (`m` came out of `Metric.__init__`); from `Lemmas/Bjorklund.lean`:
`canonicalWord n k = [ (i·k) mod n < k | i < n ]`.

Not covered by theorems (correspondence streams only): `apply_to_melody` with `start`/`end` windows
(the `ScoreRhythm` call), `expand=False`, grids with cells other than 0/1, tatums finer than
1/LIMIT_DENOM (where `set_duration` rounds), the `amp/tags/tempo/pedal` bookkeeping of `Note.copy`.

All theorems quantify over every signature of the generated table, every rational tatum,
every bar count in ℤ, every grid length, every melody length, every `(steps, pulses)` in ℤ².
-/
import MV.Lemmas.Metric
import MV.Lemmas.Bjorklund

namespace MV.C17
open MV MV.Rhythm Gen

/-! ### the signature table -/

/-- every listed signature has a positive numerator and denominator (so `frac(4, den)` is defined and a
bar has a positive duration) [`decide` on the generated table] -/
theorem signatures_wellformed : ∀ s ∈ SIGNATURES, 0 < s.1 ∧ 0 < s.2 := by decide

/-! ### reading a grid as runs -/

/-- **what `runs` means**: a binary grid is the concatenation of its runs, a run being one cell
(pulse or not) followed by `len − 1` empty cells; every run has `len ≥ 1`; the first run starts on the
first cell and all later runs start on a pulse.  (This determines `runs a` uniquely.) -/
theorem runs_spec (a0 : Int) (rest : List Int) (hb : Binary (a0 :: rest)) :
    (runs (a0 :: rest)).flatMap cellsOf = a0 :: rest ∧
    (∀ p ∈ runs (a0 :: rest), 1 ≤ p.2) ∧
    ∃ c rs, runs (a0 :: rest) = (a0 == 1, c) :: rs ∧ ∀ p ∈ rs, p.1 = true :=
  ⟨runs_flat _ hb, runs_pos _, runs_shape a0 rest hb⟩

/-! ### applying a metric to a melody -/

/-- hypotheses shared by the application theorems: a constructed metric, binary non-empty grid,
non-empty melody, a tatum that is representable as a note duration -/
structure ApplyOK (m : Metric) (notes : List Note) : Prop where
  valid : m.Valid
  binary : Binary m.array
  grid : m.array ≠ []
  melody : notes ≠ []
  tatum : m.tatum.den ≤ LIMIT_DENOM

instance (m : Metric) (notes : List Note) : Decidable (ApplyOK m notes) :=
  decidable_of_iff (m.Valid ∧ Binary m.array ∧ m.array ≠ [] ∧ notes ≠ [] ∧ m.tatum.den ≤ LIMIT_DENOM)
    ⟨fun ⟨a, b, c, d, e⟩ => ⟨a, b, c, d, e⟩, fun ⟨a, b, c, d, e⟩ => ⟨a, b, c, d, e⟩⟩

/-- **the produced melody**: `apply_to_melody` (whole grid, `expand=True`) returns, run by run, melody
note `j mod len` stretched over run `j` — a rest for a leading run without pulse -/
theorem apply_eq (m : Metric) (notes : List Note) (h : ApplyOK m notes) :
    m.applyToMelody notes = .ok (place m.tatum notes 0 (runs m.array)) :=
  apply_eq_place m notes h.valid h.binary h.grid h.melody h.tatum

/-- **duration**: the produced melody lasts exactly the metric's duration -/
theorem apply_duration (m : Metric) (notes : List Note) (h : ApplyOK m notes) :
    ∃ res, m.applyToMelody notes = .ok res ∧ melDuration res = m.duration := by
  refine ⟨_, apply_eq m notes h, ?_⟩
  rw [melDuration_place, runs_sum, h.valid.duration_eq]

/-- **onsets**: when every melody element sounds, the note onsets (`get_note_times`) of the produced
melody are exactly `{i · tatum | array[i] = 1}`, in order -/
theorem apply_onsets (m : Metric) (notes : List Note) (h : ApplyOK m notes)
    (hs : ∀ n ∈ notes, sounding n = true) :
    ∃ res, m.applyToMelody notes = .ok res ∧
      noteTimes res = (pulseIdx m.array).map (fun (i : Nat) => (i : Rat) * m.tatum) := by
  refine ⟨_, apply_eq m notes h, ?_⟩
  have := noteTimes_place m.tatum notes h.melody hs (runs m.array) (runs_pos _) 0 0
  unfold noteTimes pulseIdx
  rw [runs_flat _ h.binary] at this
  simpa using this

/-- **cyclic order**: the `k`-th sounding element of the produced melody is melody note
`(k + [array[0] ≠ 1]) mod len` (durations aside), for `k` below the number of pulses; there are no
other sounding elements -/
theorem apply_cyclic_order (m : Metric) (notes : List Note) (h : ApplyOK m notes)
    (hs : ∀ n ∈ notes, sounding n = true) :
    ∃ res, m.applyToMelody notes = .ok res ∧
      (res.filter sounding).map eraseDur
        = (List.range (pulseIdx m.array).length).map
            (fun k => eraseDur (notes.getD ((k + leadOffset m.array) % notes.length) silence1)) :=
  ⟨_, apply_eq m notes h, filter_place_runs m.tatum notes h.melody hs m.array h.binary h.grid⟩

/-- error branch: a constructed metric with an empty grid (zero bars) is rejected with `IndexError` -/
theorem apply_empty_grid (m : Metric) (notes : List Note) (hv : m.Valid) (ha : m.array = []) :
    m.applyToMelody notes = .error .index := by
  unfold Metric.applyToMelody
  rw [getArrayBetween_whole hv, ha]
  rfl

/-- error branch: an empty melody on a grid that starts on a pulse is rejected with `ZeroDivisionError` -/
theorem apply_empty_melody (m : Metric) (hv : m.Valid) (rest : List Int) (ha : m.array = 1 :: rest) :
    m.applyToMelody [] = .error .zerodiv := by
  unfold Metric.applyToMelody
  rw [getArrayBetween_whole hv, ha]
  obtain ⟨c', ps, hbl⟩ := beatLoop_head m.tatum rest true m.tatum
  simp [bind, Except.bind, getBeatDurations, applyDurations, hbl, applyLoop]

/-! ### extracting the metric of the produced melody -/

/-- **`FromMelody` inverts the application**: for every melody whose elements sound for `get_note_times`
(pitched notes, drum notes `d`, pattern notes `x`), `metric.from_melody(metric.apply_to_melody(melody))` is the
metric itself -/
theorem from_melody_inverse (m : Metric) (notes : List Note) (h : ApplyOK m notes)
    (hs : ∀ n ∈ notes, sounding n = true) :
    ∃ res, m.applyToMelody notes = .ok res ∧ m.fromMelody res = .ok m := by
  refine ⟨_, apply_eq m notes h, ?_⟩
  obtain ⟨_, _, ht, _⟩ := h.valid.facts
  unfold Metric.fromMelody Rhythm.fromMelody
  simp only [bind, Except.bind, pure, Except.pure]
  rw [fromMelodyLoop_place m.tatum ht notes h.melody hs (runs m.array) (runs_pos _) 0, runs_flat _ h.binary]
  have hnb : m.nbBars ≠ 0 := by
    intro h0
    have hd := h.valid.duration_eq
    unfold Metric.duration durationOf at hd
    rw [h0] at hd
    have hlen : (m.array.length : Rat) ≠ 0 := by
      have : m.array.length ≠ 0 := by simpa using h.grid
      exact_mod_cast this
    have : (m.array.length : Rat) * m.tatum ≠ 0 := mul_ne_zero hlen ht
    apply this
    rw [← hd]; simp
  simp only [hnb, if_false]
  exact h.valid

/-! ### grid algebra -/

/-- **complement** flips every cell, keeps signature, tatum and bars, and is an involution (any cells) -/
theorem complement_involutive (m : Metric) (hv : m.Valid) :
    ∃ m', m.complementary = .ok m' ∧ m'.array = m.array.map (fun a => 1 - a) ∧
      m'.sig = m.sig ∧ m'.tatum = m.tatum ∧ m'.nbBars = m.nbBars ∧ m'.complementary = .ok m := by
  refine ⟨{ m with array := m.array.map (fun a => 1 - a) }, mk?_of_valid hv _ (by simp), rfl, rfl, rfl, rfl, ?_⟩
  have hv' := with_array_valid hv (m.array.map (fun a => 1 - a)) (by simp)
  unfold Metric.complementary
  simp only [compl_compl]
  exact hv

/-- on a binary grid the complement's pulses are exactly the empty cells -/
theorem complement_pulses (a : List Int) (hb : Binary a) (i : Nat) (hi : i < a.length) :
    (a.map (fun x => 1 - x)).getD i 0 = 1 ↔ a.getD i 0 = 0 := by
  have hx := hb a[i] (List.getElem_mem hi)
  simp only [List.getD_eq_getElem?_getD, List.getElem?_map, List.getElem?_eq_getElem hi, Option.map_some,
    Option.getD_some]
  omega

/-- **reversal** reads the grid backwards and is an involution -/
theorem reverse_involutive (m : Metric) (hv : m.Valid) :
    ∃ m', m.reversed = .ok m' ∧ m'.array = m.array.reverse ∧
      m'.sig = m.sig ∧ m'.tatum = m.tatum ∧ m'.nbBars = m.nbBars ∧ m'.reversed = .ok m := by
  refine ⟨{ m with array := m.array.reverse }, mk?_of_valid hv _ (by simp), rfl, rfl, rfl, rfl, ?_⟩
  unfold Metric.reversed
  simp only [List.reverse_reverse]
  exact hv

/-- **circular shift** by any `n ∈ ℤ`: cell `i` of the result is cell `(i − n) mod len` of the grid, and
shifting back by `−n` restores the metric -/
theorem shift_inverse (m : Metric) (hv : m.Valid) (ha : m.array ≠ []) (n : Int) :
    ∃ m', m.circularShift n = .ok m' ∧
      (∀ i : Nat, i < m.array.length →
        m'.array.getD i 0 = m.array.getD (((i : Int) - n) % (m.array.length : Int)).toNat 0) ∧
      m'.sig = m.sig ∧ m'.tatum = m.tatum ∧ m'.nbBars = m.nbBars ∧ m'.circularShift (-n) = .ok m := by
  have hL : m.array.length ≠ 0 := by simpa using ha
  have hrot := rotate_shift m.array n hL
  simp only at hrot
  refine ⟨{ m with array := m.array.rotate ((-n) % (m.array.length : Int)).toNat }, ?_, ?_, rfl, rfl, rfl, ?_⟩
  · unfold Metric.circularShift
    simp only [hL, if_false, hrot]
    exact mk?_of_valid hv _ (by simp)
  · intro i hi
    have hpos : (0 : Int) < m.array.length := by omega
    have h1 := Int.emod_nonneg (-n) (by omega : (m.array.length : Int) ≠ 0)
    have h3 := Int.emod_nonneg ((i : Int) - n) (by omega : (m.array.length : Int) ≠ 0)
    have h4 := Int.emod_lt_of_pos ((i : Int) - n) hpos
    have hi' : i < (m.array.rotate ((-n) % (m.array.length : Int)).toNat).length := by simpa using hi
    have hj : (((i : Int) - n) % (m.array.length : Int)).toNat < m.array.length := by omega
    simp only [List.getD_eq_getElem?_getD, List.getElem?_eq_getElem hi', List.getElem?_eq_getElem hj,
      Option.getD_some, List.getElem_rotate]
    congr 1
    have : ((i + ((-n) % (m.array.length : Int)).toNat : Nat) : Int) % (m.array.length : Int)
        = ((i : Int) - n) % (m.array.length : Int) := by
      push_cast
      rw [Int.toNat_of_nonneg h1, Int.add_emod_emod]
      congr 1
    have h5 : (((i + ((-n) % (m.array.length : Int)).toNat) % m.array.length : Nat) : Int)
        = ((i : Int) - n) % (m.array.length : Int) := by
      rw [← this]; push_cast; rfl
    omega
  · unfold Metric.circularShift
    have hL' : (m.array.rotate ((-n) % (m.array.length : Int)).toNat).length ≠ 0 := by simpa using hL
    simp only [hL', if_false]
    have hrot2 := rotate_shift (m.array.rotate ((-n) % (m.array.length : Int)).toNat) (-n) hL'
    simp only at hrot2
    rw [hrot2]
    simp only [List.length_rotate]
    rw [shift_shift m.array n hL]
    exact hv

/-- error branch: shifting the empty grid raises `ZeroDivisionError` -/
theorem shift_empty (m : Metric) (ha : m.array = []) (n : Int) : m.circularShift n = .error .zerodiv := by
  unfold Metric.circularShift
  simp [ha]

/-! ### Euclidean rhythms -/

/-- `⌈n/k⌉` for positive `k` -/
def ceilDiv (n k : Int) : Int := (n + k - 1) / k

/-- **termination**: the `while True` loop of `bjorklund_algorithm` ends within the model's fuel for
*every* pair of integers (the model's out-of-fuel value is never returned) -/
theorem bjorklund_terminates (steps pulses : Int) : bjorklund steps pulses ≠ .error .other :=
  bjorklund_no_fuel_error steps pulses

/-- **gaps** (and with them length, count, downbeat): for all `1 ≤ pulses ≤ steps` the result is the
concatenation of exactly `pulses` blocks "a pulse followed by `g − 1` empty cells" whose lengths `g` — the
cyclic distances between consecutive pulses — are all `⌊steps/pulses⌋` or `⌈steps/pulses⌉` -/
theorem bjorklund_gaps (steps pulses : Int) (h1 : 1 ≤ pulses) (h2 : pulses ≤ steps) :
    ∃ gaps : List Nat,
      bjorklund steps pulses = .ok (gaps.flatMap (fun g => (1 : Int) :: List.replicate (g - 1) 0)) ∧
      (gaps.length : Int) = pulses ∧
      ∀ g ∈ gaps, (g : Int) = steps / pulses ∨ (g : Int) = ceilDiv steps pulses := by
  obtain ⟨bs, hb, hlen, hcnt⟩ := bjorklund_structure steps pulses h1 h2
  have hc0 : 0 ≤ (steps - pulses) / pulses := Int.ediv_nonneg (by omega) (by omega)
  have hcast : (((steps - pulses) / pulses).toNat : Int) = (steps - pulses) / pulses := Int.toNat_of_nonneg hc0
  have hdiv : (steps - pulses) / pulses = steps / pulses - 1 := by
    have : steps - pulses = steps + (-1) * pulses := by ring
    rw [this, Int.add_mul_ediv_right _ _ (by omega : pulses ≠ 0)]; ring
  refine ⟨bs.map (fun b => ((steps - pulses) / pulses).toNat + (if b then 1 else 0) + 1), ?_, by simpa using hlen, ?_⟩
  · rw [hb, List.flatMap_map]
    congr 1
  · intro g hg
    obtain ⟨b, hbmem, rfl⟩ := List.mem_map.mp hg
    cases b with
    | false =>
      left
      simp only [Bool.false_eq_true, if_false, Nat.add_zero]
      push_cast
      rw [hcast, hdiv]; ring
    | true =>
      right
      have hpos : 0 < bs.count true := List.count_pos_iff.mpr hbmem
      have hmod : 1 ≤ steps % pulses := by omega
      have hmlt : steps % pulses < pulses := Int.emod_lt_of_pos _ (by omega)
      unfold ceilDiv
      have hdm := Int.emod_add_mul_ediv steps pulses
      have e : steps + pulses - 1 = (steps % pulses - 1) + pulses * (steps / pulses + 1) := by
        linear_combination -hdm
      have hp0 : pulses ≠ 0 := by omega
      have hz : (steps % pulses - 1) / pulses = 0 := Int.ediv_eq_zero_of_lt (by omega) (by omega)
      rw [e, Int.add_mul_ediv_left _ _ hp0, hz]
      simp only [if_true]
      push_cast
      rw [hcast, hdiv]; ring

/-- **length**: exactly `steps` cells -/
theorem bjorklund_length (steps pulses : Int) (h1 : 1 ≤ pulses) (h2 : pulses ≤ steps) :
    ∃ p, bjorklund steps pulses = .ok p ∧ (p.length : Int) = steps := by
  obtain ⟨bs, hb, _, _⟩ := bjorklund_structure steps pulses h1 h2
  exact ⟨_, hb, bjorklund_len steps pulses h1 h2 _ hb⟩

/-- **count**: exactly `pulses` cells are 1 and every cell is 0 or 1 -/
theorem bjorklund_count (steps pulses : Int) (h1 : 1 ≤ pulses) (h2 : pulses ≤ steps) :
    ∃ p, bjorklund steps pulses = .ok p ∧ (p.count 1 : Int) = pulses ∧ Binary p := by
  obtain ⟨bs, hb, hlen, hcnt⟩ := bjorklund_structure steps pulses h1 h2
  refine ⟨_, hb, ?_, ?_⟩
  · generalize ((steps - pulses) / pulses).toNat = c
    rw [← hlen]
    clear hlen hcnt hb
    induction bs with
    | nil => rfl
    | cons b bs ih =>
      rw [List.flatMap_cons, List.count_append]
      push_cast
      rw [ih]
      simp [gapB, List.count_replicate]
      omega
  · intro x hx
    obtain ⟨b, _, hxb⟩ := List.mem_flatMap.mp hx
    unfold gapB at hxb
    rcases List.mem_cons.mp hxb with rfl | h
    · right; rfl
    · left; exact (List.mem_replicate.mp h).2

/-- **downbeat**: the first cell is a pulse -/
theorem bjorklund_downbeat (steps pulses : Int) (h1 : 1 ≤ pulses) (h2 : pulses ≤ steps) :
    ∃ p, bjorklund steps pulses = .ok p ∧ p.head? = some 1 := by
  obtain ⟨bs, hb, hlen, hcnt⟩ := bjorklund_structure steps pulses h1 h2
  refine ⟨_, hb, ?_⟩
  cases bs with
  | nil => simp at hlen; omega
  | cons b bs => simp [gapB]

/-- **maximal evenness, phase form** (Clough–Douthett): for all `1 ≤ pulses ≤ steps` there is a phase
`t ∈ [0, steps)` such that the number of pulses among the first `i` cells is `⌊(i·pulses + t)/steps⌋`
for every `i ≤ steps` — i.e. cell `i` is a pulse exactly when `⌊((i+1)·pulses + t)/steps⌋` exceeds
`⌊(i·pulses + t)/steps⌋`: the pulses are the integer parts of an arithmetic progression of step
`steps/pulses` -/
theorem bjorklund_max_even_phase (steps pulses : Int) (h1 : 1 ≤ pulses) (h2 : pulses ≤ steps) :
    ∃ p t, bjorklund steps pulses = .ok p ∧ 0 ≤ t ∧ t < steps ∧
      ∀ i : Nat, i ≤ p.length → ((p.take i).count 1 : Int) = ((i : Int) * pulses + t) / steps := by
  obtain ⟨p, t, hp, ht0, htn, h⟩ := bjorklund_phase steps pulses h1 h2
  refine ⟨p, t, hp, ht0, htn, fun i hi => ?_⟩
  rw [h i, Nat.min_eq_left hi]

/-- **maximal evenness** (the full statement of the property): for all `1 ≤ pulses ≤ steps`,
`bjorklund steps pulses` is a rotation of the canonical Euclidean word
`canonicalWord steps pulses = [ (i·pulses) mod steps < pulses | i < steps ]`
(`List.rotate s` moves the first `s` cells to the end) -/
theorem bjorklund_max_even (steps pulses : Int) (h1 : 1 ≤ pulses) (h2 : pulses ≤ steps) :
    ∃ s : Nat, s < steps.toNat ∧ bjorklund steps pulses = .ok ((canonicalWord steps pulses).rotate s) :=
  bjorklund_rotation steps pulses h1 h2

/-- error branches of `bjorklund_algorithm`: more pulses than steps is a `ValueError`, zero pulses a
`ZeroDivisionError` -/
theorem bjorklund_rejects (steps pulses : Int) :
    (pulses > steps → bjorklund steps pulses = .error .value) ∧
    (pulses = 0 → 0 ≤ steps → bjorklund steps pulses = .error .zerodiv) := by
  constructor
  · intro h; simp [bjorklund, h]
  · intro h hs; subst h
    have : ¬ (0 : Int) > steps := by omega
    simp [bjorklund, this, euclidLoop]

/-- **a Euclidean metric**: when the grid size `steps = duration / tatum` is integral and
`1 ≤ pulses ≤ steps`, `Metric.Euclidian` returns a constructed metric whose grid is
`bjorklund steps pulses` (hence `pulses` pulses, downbeat, even gaps by the theorems above) -/
theorem euclidian_metric (pulses steps : Int) (sig : Int × Int) (tatum : Rat) (nb : Int)
    (hsig : sig ∈ SIGNATURES) (ht : tatum ≠ 0) (hsteps : durationOf sig nb / tatum = (steps : Rat))
    (h1 : 1 ≤ pulses) (h2 : pulses ≤ steps) :
    ∃ m p, euclidian pulses sig tatum nb = .ok m ∧ bjorklund steps pulses = .ok p ∧ m.array = p ∧
      m.Valid ∧ m.sig = sig ∧ m.tatum = tatum ∧ m.nbBars = nb ∧ m.nbNotes = pulses := by
  obtain ⟨p, hp, hlen⟩ := bjorklund_length steps pulses h1 h2
  obtain ⟨p', hp', hcount, hbin⟩ := bjorklund_count steps pulses h1 h2
  rw [hp] at hp'
  cases hp'
  have hden : sig.2 ≠ 0 := by
    have := (signatures_wellformed sig hsig).2
    omega
  have hn : nbSteps sig tatum nb = .ok steps := by
    unfold nbSteps
    simp only [hden, if_false, ht]
    have : (nb : Rat) * ((sig.1 : Rat) * ((4 : Rat) / (sig.2 : Rat)) / tatum) = (steps : Rat) := by
      rw [← hsteps]; unfold durationOf; ring
    rw [this]
    unfold ratTrunc
    simp
  have hmk : Metric.mk? p sig tatum nb = .ok { array := p, sig := sig, tatum := tatum, nbBars := nb } := by
    unfold Metric.mk?
    have hl : (p.length : Rat) = (steps : Rat) := by exact_mod_cast hlen
    simp [hsig, hden, ht, hsteps, hl]
  refine ⟨{ array := p, sig := sig, tatum := tatum, nbBars := nb }, p, ?_, hp, rfl, hmk, rfl, rfl, rfl, ?_⟩
  · unfold euclidian
    simp only [hn, hp, bind, Except.bind, hmk]
  · -- sum of a binary list = number of ones
    unfold Metric.nbNotes
    simp only
    rw [← hcount]
    clear hp hlen hcount hmk
    induction p with
    | nil => rfl
    | cons x xs ih =>
      have hx := hbin x (by simp)
      have hxs : Binary xs := fun y hy => hbin y (by simp [hy])
      rw [List.sum_cons, ih hxs, List.count_cons]
      rcases hx with rfl | rfl <;> (simp; try omega)

/-! ### non-vacuity: a concrete non-trivial instance of every hypothesis -/

def exMetric : Metric := { array := [0, 1, 0, 0, 1, 1, 0, 0], sig := (4, 4), tatum := 1 / 2, nbBars := 1 }
def exNotes : List Note :=
  [{ kind := .s, val := 0, oct := 0 }, { kind := .h, val := 3, oct := 1, dur := 1 / 2 },
   { kind := .su, val := 2, oct := 0, dur := 1 / 3 }]

example : ApplyOK exMetric exNotes := by decide +kernel
example : ∀ n ∈ exNotes, sounding n = true := by decide
example : noteTimes (place exMetric.tatum exNotes 0 (runs exMetric.array)) = [1 / 2, 2, 5 / 2] := by decide +kernel
example : exMetric.Valid ∧ exMetric.array ≠ [] := by decide +kernel
example : (1 : Int) ≤ 5 ∧ (5 : Int) ≤ 13 ∧ bjorklund 13 5 = .ok [1, 0, 0, 1, 0, 1, 0, 0, 1, 0, 1, 0, 0] := by decide
example : canonicalWord 8 3 = [1, 0, 0, 1, 0, 0, 1, 0] ∧ (canonicalWord 8 3).rotate 3 = [1, 0, 0, 1, 0, 1, 0, 0] := by decide
example : (4, 4) ∈ SIGNATURES ∧ durationOf (4, 4) 2 / (1 / 2 : Rat) = ((16 : Int) : Rat) := by decide +kernel

end MV.C17
