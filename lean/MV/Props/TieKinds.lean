/-
Tie by value of the note-kind predicates (`NoteProperties.is_relative`, `is_up`, …, evaluated by the translator on a
real `Note` of every library type) to the hand-written `Kind.*` functions every model pattern-matches on.
-/
import MV.Gen.KindPreds
import MV.Model.Types

namespace MV.Tie
open MV.Gen

theorem kind_preds_eq_code (k : Kind) :
    k.isRelative = KindPreds.is_relative k ∧ k.isUp = KindPreds.is_up k ∧ k.isDown = KindPreds.is_down k ∧
    k.isNote = KindPreds.is_note k ∧ k.isScale = KindPreds.is_scale_note k ∧
    k.isChromatic = KindPreds.is_chromatic_note k ∧ k.isChord = KindPreds.is_chord_note k ∧
    k.isBass = KindPreds.is_bass_note k ∧ k.isAbsolute = KindPreds.is_absolute_note k ∧
    k.isDrumNote = KindPreds.is_drum_note k ∧
    decide (k = Kind.r) = KindPreds.is_silence k ∧ decide (k = Kind.l) = KindPreds.is_continuation k := by
  cases k <;> decide

end MV.Tie
