/-
C18 — transformers change exactly what their mask selects and keep structure.

Only property statements; the proofs are from `MV.Lemmas.Transform` / `MV.Lemmas.TransformLib`.
Everything is for ALL scores (any number of chords, parts, notes; any durations in ℚ), all masks of
the stated class (any nesting depth, any atoms), all actions (arbitrary functions, which may fail or
return nothing), all keyword arguments.

Vocabulary (defined in `MV.Lemmas.Transform`):
* `Path` — an element together with its ancestors (outermost first), each with the keyword arguments the
  dispatcher calls masks with at that level;
* `Mask.spec m path` — `selected m path`: the mask read as a formula, each guarded sub-mask `L > φ`
  evaluated at the element of level `L` on the path (vacuous when the path has no such level);
* `Mask.guarded m` — the unguarded positions of `m` hold only `L > φ`, `Bool`, `Mask()`, `And`, `Or`
  (what the public constructors, `&`, `|`, `~`, `Mask.eval` build from guarded atoms; `φ` is arbitrary);
* `specScore / specChord / specMelody T sel` — the input tree in which a level-element is replaced by the
  transformer's action iff `sel` holds on its path, a container above the level is entered iff `sel` holds
  on its own path and otherwise returned as `get_default` (copy, or nothing for the filter classes);
* `flatScore / flatChord / flatMelody sel f` — for actions that neither fail nor delete: the plain map
  that puts `f note ctx` where `sel` holds and the copy elsewhere (same shape by construction).
-/
import MV.Lemmas.TransformLib

namespace MV.C18
open MV MV.Transform

/-! ### masks -/

/-- What the dispatcher does with a mask — one `child` per ancestor, then a call on the next element —
computes the selection formula on the whole path.  (Any depth, any atoms; this is the statement that
was false before the repair, see `patches/C18-D13-…`.) -/
theorem mask_frozen_is_selection (m : Mask) (hm : m.guarded = true) (anc : Path) (e : Elem) (k : Ctx) :
    (m.freeze anc).call e k = m.spec (anc ++ [(e, k)]) :=
  freeze_call m hm anc e k

/-- Knowing more of the path can only deselect: if an element is selected, so is each of its ancestors
(read up to its own level).  Hence "not entered" and "nothing inside is selected" agree. -/
theorem selection_monotone (m : Mask) (hm : m.guarded = true) (p q : Path) (h : m.spec (p ++ q) = true) :
    m.spec p = true :=
  spec_mono m hm p q h

/-- `~` is De Morgan with the negation pushed inside each type guard: for a mask built from
`L > (guard-free formula)`, `Bool`, `And`, `Or`, on a path that has every guarded level, `~m` selects
exactly what `m` does not, and `~m` is again such a mask (so `~~m` selects what `m` selects). -/
theorem invert_is_negation (m : Mask) (p : Path) (hm : m.gplain p = true) :
    m.invert.spec p = !(m.spec p) ∧ m.invert.gplain p = true ∧ m.guarded = true :=
  invert_spec m p hm

/-- on a guard-free formula `~` is plain negation (`NotMask` of atoms, De Morgan on `And` / `Or`) -/
theorem invert_plain_is_negation (m : Mask) (hm : m.plain = true) (e : Elem) (k : Ctx) :
    m.invert.call e k = !(m.call e k) :=
  invert_call_plain m hm e k

/-! ### the dispatch: `T(x, on=m)` = `x` with exactly the selected level-elements replaced by the action

`T` is any transformer of the Note-, Melody- or Chord-family (also the filter classes), with any action. -/

/-- **Dispatch_eq_spec**, on a score -/
theorem dispatch_eq_spec_score (T : Transformer) (hp : T.pre = none) (m : Mask) (hm : m.guarded = true)
    (s : TScore) (K : Ctx) :
    applyOnScore T s m K = specScore T m.spec [] s K := by
  simpa using applyOnScore_eq_spec T hp m hm [] s K

/-- **Dispatch_eq_spec**, on a chord -/
theorem dispatch_eq_spec_chord (T : Transformer) (hp : T.pre = none) (m : Mask) (hm : m.guarded = true)
    (c : TChord) (K : Ctx) :
    applyOnChord T c m K = specChord T m.spec [] c K := by
  simpa using applyOnChord_eq_spec T hp m hm [] c K

/-- **Dispatch_eq_spec**, on a melody (note transformers) -/
theorem dispatch_eq_spec_melody (T : Transformer) (m : Mask) (hm : m.guarded = true) (mel : TMelody) (K : Ctx) :
    applyOnMelody T mel m K = specMelody T m.spec [] mel K := by
  simpa using applyOnMelody_eq_spec T m hm [] mel K

/-- the same through `T.__call__` for the four element types (a bare note is tested by the mask itself) -/
theorem dispatch_eq_spec_call (T : Transformer) (hp : T.pre = none) (m : Mask) (hm : m.guarded = true) (K : Ctx) :
    (∀ s, callScore T s m K = (do pure (some (← specScore T m.spec [] s K)))) ∧
    (∀ c, callChord T c m K = specChordCall T m.spec [] c K) ∧
    (∀ mel, callMelody T mel m K = specMelodyCall T m.spec [] mel K) ∧
    (∀ n, T.level = .note → callNote T n m K =
        if m.spec [(.note n, K)] then (do pure ((← T.actNote n K).map Elem.note)) else pure (some (.note (noteCopy n)))) := by
  refine ⟨?_, ?_, ?_, ?_⟩
  · intro s
    simp only [callScore, onOf_none T hp, dispatch_eq_spec_score T hp m hm]
  · intro c
    simpa using callChord_eq_spec T hp m hm [] c K
  · intro mel
    simpa using callMelody_eq_spec T hp m hm [] mel K
  · intro n hl
    have := freeze_call m hm [] (.note n) K
    simp only [freeze_nil, List.nil_append] at this
    simp only [callNote, hl, onOf_none T hp, this]

/-- **the *MaskFilter classes** (`MaskFilter(p)`, `MelodyMaskFilter(p)`, `ChordMaskFilter(p)`: filters that
conjoin their own mask again at every level, `on = self.on & on`) and any transformer built that way:
what is kept / transformed is exactly the selection of `p & m` -/
theorem dispatch_eq_spec_maskfilter (T : Transformer) (p : Mask) (hT : T.pre = some p) (hp : p.guarded = true)
    (m : Mask) (hm : m.guarded = true) (K : Ctx) :
    (∀ s, callScore T s m K = (do pure (some (← specScore T (conj p m).spec [] s K)))) ∧
    (∀ c, callChord T c m K = specChordCall T (conj p m).spec [] c K) ∧
    (∀ mel, callMelody T mel m K = specMelodyCall T (conj p m).spec [] mel K) := by
  have hon : T.onOf m = conj p m := by simp [Transformer.onOf, hT, conj]
  have hA : Arrives (T.onOf m) (conj p m).spec [] := by
    rw [hon]
    simpa using arrives_plain (conj p m) (conj_guarded p m hp hm) []
  have hok := preOk_conj T p m hT hp
  refine ⟨?_, ?_, ?_⟩
  · intro s
    simp only [callScore]
    rw [applyOnScore_arrives T _ hok _ [] hA s K (ordered_single _ _)]
  · intro c
    exact callChord_arrives T _ hok m [] hA c K (ordered_single _ _)
  · intro mel
    exact callMelody_arrives T _ m [] hA mel K (ordered_single _ _)

/-! #### the flat reading, for actions that neither fail nor delete

Every chord, part and note of the input is in the output at the same place; the selected ones went
through the action, all others are copies.  (`flat*` are maps: same number of chords, same part names in
the same order, same number of notes, same tags and chord symbols — see `flat_shape`.) -/

/-- note transformer on a score -/
theorem dispatch_note_exact (T : Transformer) (hl : T.level = .note) (hf : T.filter = false) (hp : T.pre = none)
    (f : Note → Ctx → Note) (ha : ∀ n k, T.actNote n k = .ok (some (f n k)))
    (m : Mask) (hm : m.guarded = true) (s : TScore) (K : Ctx) :
    applyOnScore T s m K = .ok (flatScore m.spec f [] s K) := by
  rw [dispatch_eq_spec_score T hp m hm]
  exact specScore_flat T hl hf f ha m.spec (spec_monotone m hm) [] s K

/-- note transformer on a chord -/
theorem dispatch_note_exact_chord (T : Transformer) (hl : T.level = .note) (hf : T.filter = false)
    (hp : T.pre = none) (f : Note → Ctx → Note) (ha : ∀ n k, T.actNote n k = .ok (some (f n k)))
    (m : Mask) (hm : m.guarded = true) (c : TChord) (K : Ctx) :
    applyOnChord T c m K = .ok (flatChord m.spec f [] c K) := by
  rw [dispatch_eq_spec_chord T hp m hm]
  exact specChord_flat T hl hf f ha m.spec (spec_monotone m hm) [] c K

/-- note transformer on a melody -/
theorem dispatch_note_exact_melody (T : Transformer) (hf : T.filter = false)
    (f : Note → Ctx → Note) (ha : ∀ n k, T.actNote n k = .ok (some (f n k)))
    (m : Mask) (hm : m.guarded = true) (mel : TMelody) (K : Ctx) :
    applyOnMelody T mel m K = .ok (flatMelody m.spec f [] mel K) := by
  rw [dispatch_eq_spec_melody T m hm]
  exact specMelody_flat T hf f ha m.spec [] mel K

/-- melody transformer on a score / on a chord -/
theorem dispatch_melody_exact (T : Transformer) (hl : T.level = .melody) (hf : T.filter = false)
    (hp : T.pre = none) (g : TMelody → Ctx → TMelody) (ha : ∀ x k, T.actMelody x k = .ok (some (g x k)))
    (m : Mask) (hm : m.guarded = true) (K : Ctx) :
    (∀ s : TScore, applyOnScore T s m K = .ok (flatScoreM m.spec g [] s K)) ∧
    (∀ c : TChord, applyOnChord T c m K = .ok (flatChordM m.spec g [] c K)) := by
  constructor
  · intro s
    rw [dispatch_eq_spec_score T hp m hm]
    exact specScore_flatM T hl hf g ha m.spec (spec_monotone m hm) [] s K
  · intro c
    rw [dispatch_eq_spec_chord T hp m hm]
    exact specChord_flatM T hl hf g ha m.spec [] c K

/-- chord transformer on a score -/
theorem dispatch_chord_exact (T : Transformer) (hl : T.level = .chord) (hf : T.filter = false)
    (hp : T.pre = none) (g : TChord → Ctx → TChord) (ha : ∀ c k, T.actChord c k = .ok (some (g c k)))
    (m : Mask) (hm : m.guarded = true) (s : TScore) (K : Ctx) :
    applyOnScore T s m K = .ok (flatScoreC m.spec g [] s K) := by
  rw [dispatch_eq_spec_score T hp m hm]
  exact specScore_flatC T hl hf g ha m.spec [] s K

/-- a score without chords comes back as a score without chords (with its tags), whatever the transformer
and the mask; so does a score from which a filter removes every chord (see `patches/C18-empty-score-…`) -/
theorem dispatch_empty_score (T : Transformer) (m : Mask) (tags : List String) (K : Ctx) :
    applyOnScore T { chords := [], tags := tags } m K = .ok { chords := [], tags := tags } := by
  simp [applyOnScore, chordsLoop, bind, Except.bind, pure, Except.pure]

/-- same structure: the flat maps keep the number of chords, the part names and their order, the number
of notes of every melody, the tags of score / chord / melody and the chord symbol -/
theorem flat_shape (sel : Path → Bool) (f : Note → Ctx → Note) (P : Path) (K : Ctx) :
    (∀ s : TScore, (flatScore sel f P s K).chords.length = s.chords.length ∧ (flatScore sel f P s K).tags = s.tags) ∧
    (∀ c : TChord, (flatChord sel f P c K).parts.map (·.1) = c.parts.map (·.1) ∧
        (flatChord sel f P c K).base = c.base ∧ (flatChord sel f P c K).tags = c.tags) ∧
    (∀ mel : TMelody, (flatMelody sel f P mel K).notes.length = mel.notes.length ∧
        (flatMelody sel f P mel K).tags = mel.tags) := by
  refine ⟨fun s => ⟨?_, rfl⟩, fun c => ⟨?_, rfl, rfl⟩, fun mel => ⟨?_, rfl⟩⟩
  · simp [flatScore, chordsP_length]
  · simp [flatChord, partsP_names]
  · simp [flatMelody, notesP_length]

/-- a note in normal form: a rest / continuation carries nothing but duration, tags, tempo, pedal -/
def Note.normal (n : Note) : Bool :=
  match n.kind with
  | .r | .l => n.val == 0 && n.oct == 0 && n.mode.isNone && n.acc.isNone && n.amp == Gen.DEFAULT_AMP
  | _ => true

/-- "returns everything else unchanged": the copy of a note in normal form is the note -/
theorem unselected_unchanged (n : Note) (h : Note.normal n = true) : noteCopy n = n := by
  obtain ⟨kind, val, oct, dur, mode, acc, amp, tags, tempo, pedal⟩ := n
  cases kind <;> simp [Note.normal] at h <;> try rfl
  all_goals
    obtain ⟨⟨⟨⟨h1, h2⟩, h3⟩, h4⟩, h5⟩ := h
    subst h1 h2 h3 h4 h5
    rfl

/-- the keyword arguments of the j-th note of a melody: `beat` is the sum of the durations before it,
`idx` is j, `last_note` is the note before it -/
theorem note_context (g : Note → Ctx → Note) (K : Ctx) (notes : List Note) (j : Nat) (hj : j < notes.length) :
    (notesP g K notes 0 0 none)[j]? =
      some (g notes[j] { K with beat := some (0 + durSum ((notes.take j).map (·.dur))),
                                idx := some (0 + j),
                                lastNote := if j = 0 then none else notes[j - 1]? }) :=
  notesP_get g K notes 0 0 none j hj

/-- the keyword arguments of the j-th chord of a score: `chord_beat` is the sum of the durations of the
chords before it, `chord_idx` is j, `last_chord` the chord before it -/
theorem chord_context (g : TChord → Ctx → TChord) (K : Ctx) (cs : List TChord) (j : Nat) (hj : j < cs.length) :
    (chordsP g K cs 0 0 none)[j]? =
      some (g cs[j] { K with chordBeat := some (0 + durSum ((cs.take j).map (·.duration))),
                             chordIdx := some (0 + j),
                             lastChord := if j = 0 then none else cs[j - 1]? }).copy :=
  chordsP_get g K cs 0 0 none j hj

/-- the keyword arguments of the j-th part of a chord: `chord` is the chord, `instrument` the part name -/
theorem part_context (g : TMelody → Ctx → TMelody) (K : Ctx) (c : TChord) (parts : List (String × TMelody))
    (j : Nat) (hj : j < parts.length) :
    (partsP g K c parts)[j]? =
      some (parts[j].1, (g parts[j].2 { K with chord := some c, instrument := some parts[j].1 }).copy) :=
  partsP_get g K c parts j hj

/-! ### without a mask every element of the level is mapped, whatever the container -/

/-- `Mask()` selects everything: on a score / chord / melody the result is the spec with the constant
selection; a note transformer on a note is its action, a melody transformer on a note acts on the
one-note melody, on a melody it is its action, a chord transformer on a chord is its action -/
theorem no_mask_maps_all (T : Transformer) (hp : T.pre = none) (K : Ctx) :
    (∀ s, applyOnScore T s .base K = specScore T (fun _ => true) [] s K) ∧
    (∀ c, applyOnChord T c .base K = specChord T (fun _ => true) [] c K) ∧
    (∀ mel, applyOnMelody T mel .base K = specMelody T (fun _ => true) [] mel K) ∧
    (∀ n, T.level = .note → callNote T n .base K = (do pure ((← T.actNote n K).map Elem.note))) ∧
    (∀ n, T.level = .melody → callNote T n .base K =
        (do pure ((← T.actMelody { notes := [n], tags := [] } K).map Elem.melody))) ∧
    (∀ mel, T.level = .melody → callMelody T mel .base K = T.actMelody mel K) ∧
    (∀ c, T.level = .chord → callChord T c .base K = T.actChord c K) := by
  have hb : Mask.base.spec = (fun _ => true) := by funext p; simp
  refine ⟨?_, ?_, ?_, ?_, ?_, ?_, ?_⟩
  · intro s; rw [dispatch_eq_spec_score T hp .base rfl, hb]
  · intro c; rw [dispatch_eq_spec_chord T hp .base rfl, hb]
  · intro mel; rw [dispatch_eq_spec_melody T .base rfl, hb]
  · intro n hl; simp [callNote, hl, onOf_none T hp]
  · intro n hl; simp [callNote, hl]
  · intro mel hl; simp [callMelody, hl]
  · intro c hl; simp [callChord, hl]

/-- … and for an action that neither fails nor deletes, that is the plain map over every note of the
score (every note went through `f` with its own keyword arguments) -/
theorem no_mask_maps_every_note (T : Transformer) (hl : T.level = .note) (hf : T.filter = false)
    (hp : T.pre = none) (f : Note → Ctx → Note) (ha : ∀ n k, T.actNote n k = .ok (some (f n k)))
    (s : TScore) (K : Ctx) :
    applyOnScore T s .base K = .ok (flatScore (fun _ => true) f [] s K) := by
  have hb : Mask.base.spec = (fun _ => true) := by funext p; simp
  rw [dispatch_note_exact T hl hf hp f ha .base rfl s K, hb]

/-! ### pipelines -/

/-- a transform pipeline is the (Kleisli) composition of its steps, each step being "apply the
transformer with its mask, then put the step tag on the chords of a score" -/
theorem transform_pipeline_is_composition (steps : List Step) (x : Option Elem) :
    transformPipeline steps x = steps.foldlM (fun acc st => transformStep st acc) x :=
  transformPipeline_foldlM steps x

/-- … so running `a ++ b` is running `a` and then `b` on its result -/
theorem transform_pipeline_append (a b : List Step) (x : Option Elem) :
    transformPipeline (a ++ b) x = transformPipeline a x >>= fun y => transformPipeline b y :=
  transformPipeline_append a b x

/-- one step of a concat pipeline on a score appends the step's (tagged) result to the score so far -/
theorem concat_pipeline_appends (st : Step) (s : TScore) (y : Option Elem)
    (h : concatStep st (some (.score s)) = .ok y) :
    ∃ r, applyOnScore st.T s (st.T.onOf st.on) {} = .ok r ∧
      y = some (.score { chords := s.copy.chords ++ (r.addTagChildren (stepTag st.name)).copy.chords,
                         tags := unionTags s.tags r.tags }) :=
  concatStep_score st s y h

/-- a concat pipeline is the composition of such steps, and whatever the steps do the input chords stay,
unchanged, at the front of the result -/
theorem concat_pipeline_is_composition (steps : List Step) (x : Option Elem) :
    concatPipeline steps x = steps.foldlM (fun acc st => concatStep st acc) x :=
  concatPipeline_foldlM steps x

theorem concat_pipeline_keeps_input (steps : List Step) (s : TScore) (y : Option Elem)
    (h : concatPipeline steps (some (.score s)) = .ok y) :
    ∃ s', y = some (.score s') ∧ s.copy.chords <+: s'.copy.chords :=
  concatPipeline_prefix steps s y h

/-! ### library transforms keep the rhythm: every rest, continuation and duration -/

/-- A transformer whose action keeps the rhythm of what it is given keeps the rhythm of every part of
every chord of a score, a chord or a melody — under ANY mask (guarded or not) and any keyword arguments. -/
theorem rhythm_preserved (T : Transformer) (hf : T.filter = false)
    (hn : T.level = .note → KeepsRhythmN T.actNote) (hm : T.level = .melody → KeepsRhythmM T.actMelody)
    (hc : T.level = .chord → KeepsRhythmC T.actChord) (on : Mask) (K : Ctx) :
    (∀ mel mel', T.level = .note → applyOnMelody T mel on K = .ok mel' → mel'.rhythm = mel.rhythm) ∧
    (∀ c c', T.level ≠ .chord → applyOnChord T c on K = .ok c' → c'.rhythm = c.rhythm) ∧
    (∀ s s', applyOnScore T s on K = .ok s' → s'.rhythm = s.rhythm) := by
  have hmel : ∀ (on : Mask) (K : Ctx) mel mel', T.level = .note → applyOnMelody T mel on K = .ok mel' →
      mel'.rhythm = mel.rhythm := by
    intro on K mel mel' hl h
    unfold applyOnMelody at h
    obtain ⟨notes, hnotes, h⟩ := (bind_eq_ok _ _ _).mp h
    rw [pure_eq_ok] at h
    subst h
    rw [melodyLoop_eq] at hnotes
    exact notesG_rhythm T hf (hn hl) _ K _ _ _ _ _ hnotes
  have hcallM : ∀ (on : Mask), KeepsRhythmM (fun mel k => callMelody T mel on k) := by
    intro on mel k r h
    unfold callMelody at h
    cases hl : T.level with
    | note =>
        simp only [hl] at h
        obtain ⟨m', hm', h⟩ := (bind_eq_ok _ _ _).mp h
        rw [pure_eq_ok] at h
        subst h
        exact ⟨m', rfl, hmel _ _ _ _ hl hm'⟩
    | melody => simp only [hl] at h; exact hm hl _ _ _ h
    | chord => simp only [hl] at h; cases h
  have hchord : ∀ (on : Mask) (K : Ctx) c c', applyOnChord T c on K = .ok c' → c'.rhythm = c.rhythm := by
    intro on K c c' h
    unfold applyOnChord at h
    obtain ⟨parts, hparts, h⟩ := (bind_eq_ok _ _ _).mp h
    rw [pure_eq_ok] at h
    subst h
    rw [partsLoop_eq] at hparts
    exact partsG_rhythm T hf _ _ (hcallM _) K c _ _ hparts
  have hcallC : ∀ (on : Mask), KeepsRhythmC (fun c k => callChord T c on k) := by
    intro on c k r h
    unfold callChord at h
    cases hl : T.level with
    | note =>
        simp only [hl] at h
        obtain ⟨c', hc', h⟩ := (bind_eq_ok _ _ _).mp h
        rw [pure_eq_ok] at h
        subst h
        exact ⟨c', rfl, hchord _ _ _ _ hc'⟩
    | melody =>
        simp only [hl] at h
        obtain ⟨c', hc', h⟩ := (bind_eq_ok _ _ _).mp h
        rw [pure_eq_ok] at h
        subst h
        exact ⟨c', rfl, hchord _ _ _ _ hc'⟩
    | chord => simp only [hl] at h; exact hc hl _ _ _ h
  refine ⟨hmel on K, fun c c' _ h => hchord on K c c' h, ?_⟩
  intro s s' h
  unfold applyOnScore at h
  obtain ⟨chords, hchords, h⟩ := (bind_eq_ok _ _ _).mp h
  rw [pure_eq_ok] at h
  subst h
  rw [chordsLoop_eq] at hchords
  exact chordsG_rhythm T hf _ _ (hcallC _) K _ _ _ _ _ hchords

/-- `TransposeDiatonic` (repaired: see `patches/C18-D10-…`) keeps the rhythm, for every `n`, both flags,
every note of every system (it can only fail with `KeyError` on a chromatic value outside 0..11) -/
theorem transposeDiatonic_keeps_rhythm (a : Int) (km ka : Bool) :
    KeepsRhythmN (fun n _ => transposeDiatonic a km ka n) :=
  transposeDiatonic_keeps a km ka

/-- `TransposeChromatic` (repaired) keeps the rhythm in every chord, for every `n` (it can fail with
`KeyError` when the transposed pitch class is not a key of `pitch_dict`) -/
theorem transposeChromatic_keeps_rhythm (a : Int) : KeepsRhythmN (fun n k => transposeChromatic a n k) :=
  transposeChromatic_keeps a

/-- `LimitRegister` (repaired) keeps the rhythm … -/
theorem limitRegister_keeps_rhythm (L : LimitRegister) :
    KeepsRhythmN (fun n _ => do pure (some (← L.limit n))) :=
  limit_keeps L

/-- … and does what it is for: for every limiter the constructor accepts and every scale or chromatic
note, `limit` terminates (the fuel of the model is never exhausted) with the same note moved by octaves
into the range -/
theorem limitRegister_in_range (a b : Note) (L : LimitRegister) (hL : LimitRegister.make a b = .ok L)
    (n : Note) (hk : n.kind = .s ∨ n.kind = .h) :
    ∃ n' sp', L.limit n = .ok n' ∧ scalePitch n' = .ok sp' ∧ L.pmin ≤ sp' ∧ sp' ≤ L.pmax ∧
      n'.kind = n.kind ∧ n'.val = n.val :=
  limit_in_range L (make_span a b L hL) n hk

/-- `ApplySilence` / `ApplyContinuation` change what sounds (their purpose) and keep every duration -/
theorem applySilence_keeps_durations (n : Note) :
    (applySilence n).dur = n.dur ∧ (applyContinuation n).dur = n.dur ∧
    (applySilence n).kind = .r ∧ (applyContinuation n).kind = .l := ⟨rfl, rfl, rfl, rfl⟩

/-- `InvertMelody` keeps the rhythm and the tags (it fails with `IndexError` on an empty melody only) -/
theorem invertMelody_keeps_rhythm (m m' : TMelody) (h : invertMelody m = .ok m') :
    m'.rhythm = m.rhythm ∧ m'.tags = m.tags :=
  ⟨invertMelody_rhythm m m' h, invertMelody_tags m m' h⟩

theorem invertMelody_fails_only_empty (m : TMelody) (h : m.notes ≠ []) : ∃ m', invertMelody m = .ok m' := by
  obtain ⟨notes, tags⟩ := m
  cases notes with
  | nil => exact absurd rfl h
  | cons n rest => exact ⟨_, rfl⟩

/-- `ReverseMelody`: the rhythm values in reverse order (order is its purpose) -/
theorem reverseMelody_keeps_rhythm (m : TMelody) :
    (reverseMelody m).rhythm = m.rhythm.reverse ∧ (reverseMelody m).tags = m.tags :=
  ⟨reverseMelody_rhythm m, rfl⟩

/-- `CircularPermutationMelody`: never fails, and the notes (hence the rhythm values) are a permutation
of the input's, for every `n` in ℤ and every melody, the empty one included -/
theorem circularPermutation_keeps_rhythm (n : Int) (m : TMelody) :
    ∃ m', circularPermutation n m = .ok m' ∧ m'.notes.Perm m.notes ∧ m'.rhythm.Perm m.rhythm ∧ m'.tags = m.tags := by
  have hex := circularPermutation_total n m
  obtain ⟨m', hm'⟩ := hex
  obtain ⟨hp, ht⟩ := circularPermutation_perm n m m' hm'
  exact ⟨m', hm', hp, hp.map rhythmOf, ht⟩

/-! ### non-vacuity: the witness of defect D13 and its mask -/

def wNote (v : Int) (tags : List String := []) : Note := { kind := .s, val := v, oct := 0, tags := tags }

/-- `(I % I.M)(piano__0=s0 + s1.b, violin__0=s2 + s3.b).a + (V % I.M)(piano__0=s2 + s3.b)` -/
def wScore : TScore :=
  { chords := [
      { base := { elem := 0 }, tags := ["a"],
        parts := [("piano__0", { notes := [wNote 0, wNote 1 ["b"]] }),
                  ("violin__0", { notes := [wNote 2, wNote 3 ["b"]] })] },
      { base := { elem := 4 },
        parts := [("piano__0", { notes := [wNote 2, wNote 3 ["b"]] })] }] }

/-- `Mask.InstrumentIn(['violin__0']) | (Mask.Note() > Mask.Has('b'))` -/
def wMask : Mask :=
  .or [.gt (.type .melody) (.atom (.instruments ["violin__0"])), .gt (.type .note) (.atom (.has ["b"]))]

/-- user-defined `Tag` transformer: `note.add_tag('X')` -/
def tagT : Transformer := { level := .note, actNote := fun n _ => pure (some (noteAddTag "X" n)) }

example : wMask.guarded = true := by decide
example : tagT.pre = none ∧ tagT.filter = false ∧ tagT.level = .note := ⟨rfl, rfl, rfl⟩
example : ∀ n k, tagT.actNote n k = .ok (some (noteAddTag "X" n)) := fun _ _ => rfl

/-- the mask is neither constantly true nor constantly false on this score: of the first chord's piano
part only the `b` note is selected, the violin part entirely -/
example :
    (match applyOnScore tagT wScore wMask {} with
     | .ok s => s.chords.map (fun c => c.parts.map (fun p => (p.1, p.2.notes.map (fun n => n.tags.contains "X"))))
     | .error _ => [])
    = [[("piano__0", [false, true]), ("violin__0", [true, true])], [("piano__0", [false, true])]] := by
  decide

/-- Why the repair was needed (defect D13): the pre-repair `apply_on_melody` called the mask it was given
on the notes WITHOUT `child(melody)`.  On the witness, for the untagged piano note `s0` of the first chord,
that mask (frozen at score and chord only) answers `true`, while the selection formula — and the repaired
dispatcher, by `mask_frozen_is_selection` — answers `false`. -/
theorem freeze_at_every_level_is_needed :
    let c := wScore.chords[0]!
    let piano : TMelody := { notes := [wNote 0, wNote 1 ["b"]] }
    let kc : Ctx := { chordBeat := some 0, chordIdx := some 0 }
    let km : Ctx := { kc with chord := some c, instrument := some "piano__0" }
    let kn : Ctx := { km with beat := some 0, idx := some 0 }
    (wMask.freeze [(.score wScore, {}), (.chord c, kc)]).call (.note (wNote 0)) kn = true ∧
    (wMask.freeze [(.score wScore, {}), (.chord c, kc), (.melody piano, km)]).call (.note (wNote 0)) kn = false ∧
    wMask.spec [(.score wScore, {}), (.chord c, kc), (.melody piano, km), (.note (wNote 0), kn)] = false := by
  decide

/-- an inverted mask that satisfies the hypothesis of `invert_is_negation` on a full path -/
example : wMask.gplain [(.score wScore, {}), (.chord default, {}), (.melody default, {}), (.note default, {})] = true := by
  decide

example : Note.normal (wNote 3 ["b"]) = true ∧ Note.normal { kind := .r, val := 0, oct := 0, dur := 2 } = true := by
  decide

/-- `MaskFilter(wMask)`: a transformer meeting the hypotheses of `dispatch_eq_spec_maskfilter` -/
example : ({ level := .note, filter := true, pre := some wMask } : Transformer).pre = some wMask ∧ wMask.guarded = true :=
  ⟨rfl, by decide⟩

/-- a limiter the constructor accepts -/
example : LimitRegister.make (wNote 0) { kind := .s, val := 0, oct := 1 } = .ok { pmin := 0, pmax := 7 } := by decide

end MV.C18
