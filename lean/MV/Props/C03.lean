/-
C03 — rendering a score yields exactly its sounding notes at the right times.

Model: `MV/Model/Render.lean` (note matrix of `to_midi.py`, `matrix_to_events`).
Main theorem `render_eq_denote`: the global pipeline of the code (all parts' rows in one matrix,
a stable sort by onset, one loop with a per-track dictionary, a filter and a second sort) equals
the part-by-part denotation; the lemmas before it say what a part denotes (one row per note at the
running sums of durations, chords following one another for their longest part, a note extended by
the continuations that directly follow it, rests / orphan continuations / absent parts silent,
velocity = amplitude, seconds = quarter notes × 60 / tempo).
-/
import MV.Lemmas.Events
import Mathlib.Tactic.Ring
import Mathlib.Tactic.Linarith
import Mathlib.Algebra.Order.Field.Rat
namespace MV.C03
open MV

theorem foldl_add (l : List Rat) (a : Rat) : l.foldl (· + ·) a = a + l.foldl (· + ·) 0 := by
  induction l generalizing a with
  | nil => simp
  | cons x xs ih => simp only [List.foldl_cons]; rw [ih (a + x), ih (0 + x)]; ring

theorem sumRat_cons (a : Rat) (l : List Rat) : sumRat (a :: l) = a + sumRat l := by
  unfold sumRat; simp only [List.foldl_cons]; rw [foldl_add]; ring

theorem sumRat_nil : sumRat [] = 0 := rfl

def onsets : List Rat → Rat → List Rat
  | [], _ => []
  | d :: ds, t => t :: onsets ds (t + d)

theorem sumRat_nonneg (l : List Rat) (h : ∀ d ∈ l, 0 ≤ d) : 0 ≤ sumRat l := by
  induction l with
  | nil => simp [sumRat_nil]
  | cons a t ih =>
    rw [sumRat_cons]
    have := ih (fun d hd => h d (by simp [hd]))
    have := h a (by simp)
    linarith

/-- onsets of non-negative durations are non-decreasing and stay within `[t, t + total]` -/
theorem onsets_bounds (ds : List Rat) (t : Rat) (h : ∀ d ∈ ds, 0 ≤ d) :
    (onsets ds t).Pairwise (· ≤ ·) ∧ ∀ x ∈ onsets ds t, t ≤ x ∧ x ≤ t + sumRat ds := by
  induction ds generalizing t with
  | nil => simp [onsets]
  | cons d r ih =>
    have hd := h d (by simp)
    obtain ⟨i1, i2⟩ := ih (t + d) (fun x hx => h x (by simp [hx]))
    have hs := sumRat_nonneg r (fun x hx => h x (by simp [hx]))
    simp only [onsets, sumRat_cons]
    constructor
    · apply List.pairwise_cons.mpr
      refine ⟨?_, i1⟩
      intro x hx
      have := (i2 x hx).1
      linarith
    · intro x hx
      rcases List.mem_cons.mp hx with rfl | hx
      · constructor <;> linarith
      · have := i2 x hx
        constructor <;> linarith

/-- **a chord lasts as long as its longest part** -/
theorem chord_dur_is_max (c : Chord) :
    (∀ p ∈ c.parts, melodyDuration p.2 ≤ c.dur) ∧
    (c.parts = [] → c.dur = 0) ∧ (c.parts ≠ [] → ∃ p ∈ c.parts, c.dur = melodyDuration p.2) := by
  unfold Chord.dur
  have key : ∀ (l : List Rat) (d : Rat), (d ≤ l.foldl max d ∧ ∀ x ∈ l, x ≤ l.foldl max d) ∧
      (l.foldl max d = d ∨ l.foldl max d ∈ l) := by
    intro l
    induction l with
    | nil => intro d; simp
    | cons a t ih =>
      intro d
      simp only [List.foldl_cons]
      obtain ⟨⟨h1, h2⟩, h3⟩ := ih (max d a)
      refine ⟨⟨le_trans (le_max_left d a) h1, ?_⟩, ?_⟩
      · intro x hx
        rcases List.mem_cons.mp hx with rfl | hx
        · exact le_trans (le_max_right d x) h1
        · exact h2 x hx
      · rcases h3 with h3 | h3
        · rw [h3]
          rcases max_choice d a with hm | hm
          · left; exact hm
          · right; rw [hm]; simp
        · right; exact List.mem_cons_of_mem _ h3
  cases hp : c.parts with
  | nil => simp
  | cons p ps =>
    simp only [List.map_cons]
    obtain ⟨⟨h1, h2⟩, h3⟩ := key (ps.map (fun p => melodyDuration p.2)) (melodyDuration p.2)
    refine ⟨?_, by simp, fun _ => ?_⟩
    · intro q hq
      rcases List.mem_cons.mp hq with rfl | hq
      · exact h1
      · exact h2 _ (List.mem_map_of_mem hq)
    · rcases h3 with h3 | h3
      · exact ⟨p, by simp, h3⟩
      · obtain ⟨q, hq, hqe⟩ := List.mem_map.mp h3
        exact ⟨q, List.mem_cons_of_mem _ hq, hqe.symm⟩
theorem noteToRow_fields (n : Note) (c : Chord) (tr : Nat) (t : Rat) (last : Option Int) (row : Row) (l' : Option Int)
    (h : noteToRow n c tr t last = .ok (row, l')) :
    row.offset = t ∧ row.dur = n.dur ∧ row.vel = n.amp ∧ row.track = tr ∧
    row.silence = (n.kind == .r || (n.kind == .l && last.isNone)) ∧
    row.cont = (n.kind == .l && last.isSome) ∧
    l' = (if !(row.silence || row.cont) then some row.pitch else last) ∧
    (∃ p, noteToPitch c n (last.getD 0) = .ok p ∧ row.pitch = p.getD 0) := by
  unfold noteToRow at h
  cases hp : noteToPitch c n (last.getD 0) with
  | error e => simp [hp, bind, Except.bind] at h
  | ok p =>
    simp only [hp, bind, Except.bind, pure, Except.pure, Except.ok.injEq, Prod.mk.injEq] at h
    obtain ⟨h1, h2⟩ := h
    subst h1
    refine ⟨rfl, rfl, rfl, rfl, rfl, rfl, h2.symm, p, rfl, rfl⟩

/-- **one row per note; onsets are the running sums of the durations; duration, velocity
and track are the note's** -/
theorem melody_rows (m : Melody) (c : Chord) (tr : Nat) (t : Rat) (last : Option Int)
    (rows : List Row) (l' : Option Int) (h : melodyToRows m c tr t last = .ok (rows, l')) :
    rows.map (·.offset) = onsets (m.map (·.dur)) t ∧ rows.map (·.dur) = m.map (·.dur) ∧
    rows.map (·.vel) = m.map (·.amp) ∧ (∀ r ∈ rows, r.track = tr) := by
  induction m generalizing t last rows l' with
  | nil =>
    simp only [melodyToRows, pure, Except.pure, Except.ok.injEq, Prod.mk.injEq] at h
    obtain ⟨rfl, _⟩ := h
    simp [onsets]
  | cons n ns ih =>
    unfold melodyToRows at h
    cases h1 : noteToRow n c tr t last with
    | error e => simp [h1, bind, Except.bind] at h
    | ok v =>
      obtain ⟨row, l1⟩ := v
      cases h2 : melodyToRows ns c tr (t + n.dur) l1 with
      | error e => simp [h1, h2, bind, Except.bind] at h
      | ok w =>
        obtain ⟨rs, l2⟩ := w
        simp only [h1, h2, bind, Except.bind, pure, Except.pure, Except.ok.injEq, Prod.mk.injEq] at h
        obtain ⟨rfl, _⟩ := h
        obtain ⟨f1, f2, f3, f4, _⟩ := noteToRow_fields n c tr t last row l1 h1
        obtain ⟨i1, i2, i3, i4⟩ := ih (t + n.dur) l1 rs l2 h2
        refine ⟨?_, ?_, ?_, ?_⟩
        · simp [onsets, f1, i1]
        · simp [f2, i2]
        · simp [f3, i3]
        · intro r hr
          rcases List.mem_cons.mp hr with rfl | hr
          · exact f4
          · exact i4 r hr

def NonNeg (s : Score) : Prop := ∀ c ∈ s, ∀ p ∈ c.parts, ∀ n ∈ p.2, 0 ≤ n.dur

theorem mem_of_lookup {α β : Type} [BEq α] [LawfulBEq α] (l : List (α × β)) (k : α) (v : β)
    (h : l.lookup k = some v) : (k, v) ∈ l := by
  induction l with
  | nil => simp [List.lookup] at h
  | cons p rest ih =>
    simp only [List.lookup] at h
    by_cases hk : k = p.1
    · subst hk
      simp only [beq_self_eq_true, Option.some.injEq] at h
      subst h; simp
    · have : (k == p.1) = false := by simpa using hk
      simp only [this] at h
      exact List.mem_cons_of_mem _ (ih h)

/-- rows of one track: in onset order (for non-negative durations), all on that track,
none before the start time -/
theorem track_rows_sorted (track : String) (idx : Nat) (s : Score) (t : Rat) (last : Option Int)
    (rows : List Row) (hnn : NonNeg s) (h : trackRows track idx s t last = .ok rows) :
    SortedBy (·.offset) rows ∧ ∀ r ∈ rows, t ≤ r.offset ∧ r.track = idx := by
  induction s generalizing t last rows with
  | nil =>
    simp only [trackRows, pure, Except.pure, Except.ok.injEq] at h
    subst h; simp [SortedBy]
  | cons c cs ih =>
    have hnn' : NonNeg cs := fun c' hc' => hnn c' (by simp [hc'])
    unfold trackRows at h
    cases hl : c.parts.lookup track with
    | none =>
      simp only [hl] at h
      obtain ⟨i1, i2⟩ := ih (t + c.dur) none rows hnn' h
      refine ⟨i1, fun r hr => ⟨?_, (i2 r hr).2⟩⟩
      have hd : 0 ≤ c.dur := by
        obtain ⟨_, h0, hne⟩ := chord_dur_is_max c
        by_cases hp : c.parts = []
        · rw [h0 hp]
        · obtain ⟨p, hp1, hp2⟩ := hne hp
          rw [hp2]; unfold melodyDuration
          apply sumRat_nonneg
          intro d hdm
          obtain ⟨n, hn, rfl⟩ := List.mem_map.mp hdm
          exact hnn c (by simp) p hp1 n hn
      have := (i2 r hr).1
      linarith
    | some part =>
      simp only [hl] at h
      cases h1 : melodyToRows part c idx t last with
      | error e => simp [h1, bind, Except.bind] at h
      | ok v =>
        obtain ⟨rc, l1⟩ := v
        cases h2 : trackRows track idx cs (t + c.dur) l1 with
        | error e => simp [h1, h2, bind, Except.bind] at h
        | ok rest =>
          simp only [h1, h2, bind, Except.bind, pure, Except.pure, Except.ok.injEq] at h
          subst h
          obtain ⟨m1, _, _, m4⟩ := melody_rows part c idx t last rc l1 h1
          obtain ⟨i1, i2⟩ := ih (t + c.dur) l1 rest hnn' h2
          have hmem : (track, part) ∈ c.parts := mem_of_lookup _ _ _ hl
          have hpn : ∀ d ∈ part.map (·.dur), 0 ≤ d := by
            intro d hd
            obtain ⟨n, hn, rfl⟩ := List.mem_map.mp hd
            exact hnn c (by simp) _ hmem n hn
          obtain ⟨o1, o2⟩ := onsets_bounds (part.map (·.dur)) t hpn
          have hle : melodyDuration part ≤ c.dur := (chord_dur_is_max c).1 _ hmem
          have hrc : ∀ r ∈ rc, t ≤ r.offset ∧ r.offset ≤ t + c.dur := by
            intro r hr
            have : r.offset ∈ onsets (part.map (·.dur)) t := by rw [← m1]; exact List.mem_map_of_mem hr
            have := o2 _ this
            unfold melodyDuration at hle
            constructor <;> linarith
          constructor
          · unfold SortedBy
            apply List.pairwise_append.mpr
            refine ⟨?_, i1, ?_⟩
            · rw [← m1, List.pairwise_map] at o1; exact o1
            · intro a ha b hb
              have := (hrc a ha).2
              have := (i2 b hb).1
              linarith
          · intro r hr
            rcases List.mem_append.mp hr with hr | hr
            · exact ⟨(hrc r hr).1, m4 r hr⟩
            · have hd : 0 ≤ c.dur := by
                have := sumRat_nonneg _ hpn
                unfold melodyDuration at hle; linarith
              have := (i2 r hr).1
              exact ⟨by linarith, (i2 r hr).2⟩
/-- events of one track: fold of `stepTrack` from the empty state -/
def trackEvents (tempo : Rat) (rs : List Row) : List Event := ((rs.foldl (stepTrack tempo) none)).getD []

theorem lookup_of_nodup (m : EvMap) (h : (keysOf m).Nodup) :
    m = (keysOf m).map (fun t => (t, (m.get t).getD [])) := by
  induction m with
  | nil => rfl
  | cons p rest ih =>
    have hn : p.1 ∉ keysOf rest := (List.nodup_cons.mp h).1
    have hr := ih (List.nodup_cons.mp h).2
    simp only [keysOf, List.map_cons, EvMap.get, List.lookup, beq_self_eq_true, Option.getD_some]
    congr 1
    conv => lhs; rw [hr]
    simp only [keysOf, List.map_map]
    apply List.map_congr_left
    intro q hq
    have : ¬ q.1 = p.1 := by
      intro hh; apply hn; rw [← hh]; exact List.mem_map_of_mem hq
    have hb : (q.1 == p.1) = false := by simpa using this
    simp [Function.comp, EvMap.get, List.lookup, hb]

theorem addKeys_nodup (ks ts : List Nat) (h : ks.Nodup) : (addKeys ks ts).Nodup := by
  unfold addKeys
  induction ts generalizing ks with
  | nil => simpa using h
  | cons t r ih =>
    simp only [List.foldl_cons]
    apply ih
    split
    · exact h
    · rename_i hn
      exact List.nodup_append.mpr ⟨h, by simp, by intro a ha b hb; simp at hb; subst hb; exact fun hh => hn (hh ▸ ha)⟩

/-- **the event list is computed track by track**: `matrix_to_events` equals, for rows without
tempo changes, the per-track events (each track's rows in offset order) concatenated in order of
first appearance, silent ones dropped, stably sorted by onset -/
theorem matrixToEvents_per_track (rows : List Row) (tempo : Rat) (hn : NoTempo rows) :
    matrixToEvents rows tempo =
      sortByRat (·.offset)
        (((addKeys [] ((sortByRat (·.offset) rows).map (·.track))).flatMap
            (fun t => trackEvents tempo (sortByRat (·.offset) (rows.filter (fun r => r.track == t))))).filter
          (fun e => !e.silence)) := by
  unfold matrixToEvents
  simp only
  have hn' : NoTempo (sortByRat (·.offset) rows) := by
    intro r hr
    apply hn
    -- membership is preserved by the insertion sort
    have : ∀ (l : List Row) (x : Row), x ∈ sortByRat (·.offset) l → x ∈ l := by
      intro l
      induction l with
      | nil => intro x hx; simpa [sortByRat] using hx
      | cons a t ih =>
        intro x hx
        unfold sortByRat at hx ih
        simp only [List.foldr_cons] at hx
        rcases (mem_ins _ a x _).mp hx with rfl | hx
        · simp
        · exact List.mem_cons_of_mem _ (ih x hx)
    exact this rows r hr
  have hk := eventsLoop_keys (sortByRat (·.offset) rows) tempo [] hn'
  have hnd : (keysOf (eventsLoop (sortByRat (·.offset) rows) tempo [])).Nodup := by
    rw [hk]; exact addKeys_nodup _ _ (by simp [keysOf])
  have hm := lookup_of_nodup _ hnd
  congr 2
  conv => lhs; rw [hm]
  rw [hk]
  simp only [keysOf, List.map_nil, List.map_map, List.flatMap]
  congr 1
  apply List.map_congr_left
  intro t _
  simp only [Function.comp]
  rw [eventsLoop_get _ _ _ hn' t, sortByRat_filter]
  rfl


theorem sumRat_append (l1 l2 : List Rat) : sumRat (l1 ++ l2) = sumRat l1 + sumRat l2 := by
  induction l1 with
  | nil => simp [sumRat_nil]
  | cons a t ih => simp only [List.cons_append, sumRat_cons, ih]; ring

/-- a run of continuation rows extends the event that is open -/
theorem fold_conts (tempo : Rat) (pre : List Event) (e : Event) (conts : List Row)
    (hc : ∀ c ∈ conts, c.cont = true) :
    conts.foldl (stepTrack tempo) (some (pre ++ [e]))
      = some (pre ++ [{ e with dur := e.dur + sumRat (conts.map (fun c => c.dur * 60 / tempo)) }]) := by
  induction conts generalizing e with
  | nil => simp [sumRat_nil]
  | cons c cs ih =>
    have h1 : c.cont = true := hc c (by simp)
    simp only [List.foldl_cons]
    have : stepTrack tempo (some (pre ++ [e])) c = some (pre ++ [{ e with dur := e.dur + c.dur * 60 / tempo }]) := by
      unfold stepTrack
      simp [h1]
    rw [this, ih _ (fun x hx => hc x (by simp [hx]))]
    simp only [List.map_cons, sumRat_cons]
    congr 3
    simp only [Event.mk.injEq, true_and, and_true]
    ring

/-- **a sounding (or silent) row followed by its run of continuations is one event whose
duration is extended by exactly the continuations' durations** (in seconds) -/
theorem fold_note_conts (tempo : Rat) (r : Row) (conts rest : List Row) (st : Option (List Event))
    (hr : r.cont = false) (hc : ∀ c ∈ conts, c.cont = true) :
    (r :: (conts ++ rest)).foldl (stepTrack tempo) st
      = rest.foldl (stepTrack tempo) (some (st.getD [] ++
          [{ evOf tempo r with dur := r.dur * 60 / tempo + sumRat (conts.map (fun c => c.dur * 60 / tempo)) }])) := by
  simp only [List.foldl_cons, List.foldl_append]
  have : stepTrack tempo st r = some (st.getD [] ++ [evOf tempo r]) := by
    unfold stepTrack; simp [hr]
  rw [this, fold_conts tempo _ _ conts hc]
  rfl

/-- with a constant tempo the time in seconds is quarter notes × 60 / tempo, also for the
extended duration: the total is the sum in quarter notes, converted once -/
theorem seconds_of_quarters (tempo : Rat) (d : Rat) (ds : List Rat) :
    d * 60 / tempo + sumRat (ds.map (fun x => x * 60 / tempo)) = (d + sumRat ds) * 60 / tempo := by
  induction ds generalizing d with
  | nil => simp [sumRat_nil]
  | cons x xs ih =>
    simp only [List.map_cons, sumRat_cons]
    have := ih x
    rw [this]; ring

/-- an orphan continuation (nothing on the track yet) only produces a silent event -/
theorem orphan_continuation_silent (tempo : Rat) (r : Row) (hr : r.cont = true) :
    stepTrack tempo none r = some [{ evOf tempo r with silence := true }] := by
  unfold stepTrack; simp [hr]

theorem mapM_index {α β : Type} (f : α → Res β) (l : List α) (out : List β) (h : l.mapM f = .ok out) :
    out.length = l.length ∧ ∀ j (hj : j < l.length) (hj' : j < out.length), f l[j] = .ok out[j] := by
  induction l generalizing out with
  | nil =>
    simp only [List.mapM_nil, pure, Except.pure, Except.ok.injEq] at h
    subst h; simp
  | cons a t ih =>
    simp only [List.mapM_cons, bind, Except.bind] at h
    cases h1 : f a with
    | error e => simp [h1] at h
    | ok b =>
      cases h2 : t.mapM f with
      | error e => simp [h1, h2] at h
      | ok bs =>
        simp only [h1, h2, pure, Except.pure, Except.ok.injEq] at h
        subst h
        obtain ⟨i1, i2⟩ := ih bs h2
        refine ⟨by simp [i1], ?_⟩
        intro j hj hj'
        cases j with
        | zero => simpa using h1
        | succ k => simpa using i2 k (by simpa using hj) (by simpa using hj')

theorem filter_flatten_track (per : List (List Row)) (b : Nat)
    (h : ∀ j (hj : j < per.length), ∀ r ∈ per[j], r.track = b + j) (i : Nat) :
    (per.flatten).filter (fun r => r.track == b + i) = per.getD i [] := by
  induction per generalizing b i with
  | nil => simp
  | cons p ps ih =>
    simp only [List.flatten_cons, List.filter_append]
    have hp : ∀ r ∈ p, r.track = b := by
      intro r hr; have := h 0 (by simp) r (by simpa using hr); simpa using this
    have hps : ∀ j (hj : j < ps.length), ∀ r ∈ ps[j], r.track = (b + 1) + j := by
      intro j hj r hr
      have := h (j + 1) (by simp; omega) r (by simpa using hr)
      omega
    cases i with
    | zero =>
      have h1 : p.filter (fun r => r.track == b + 0) = p := by
        apply List.filter_eq_self.mpr
        intro r hr; simp [hp r hr]
      have h2 : (ps.flatten).filter (fun r => r.track == b + 0) = [] := by
        apply List.filter_eq_nil_iff.mpr
        intro r hr
        obtain ⟨q, hq, hrq⟩ := List.mem_flatten.mp hr
        obtain ⟨j, hj, rfl⟩ := List.mem_iff_getElem.mp hq
        have := hps j hj r hrq
        simp; omega
      rw [h1, h2]; simp
    | succ k =>
      have h1 : p.filter (fun r => r.track == b + (k + 1)) = [] := by
        apply List.filter_eq_nil_iff.mpr
        intro r hr; have := hp r hr; simp; omega
      have := ih (b + 1) hps k
      have e : b + (k + 1) = b + 1 + k := by omega
      rw [h1, e, this]; simp

/-- **rendering = per-part denotation.**  For a score with non-negative durations and no tempo
changes, `to_events(tempo)` is obtained part by part: the rows of part `i` (one per note, at the
running sums of the durations, see `melody_rows`, `track_rows_sorted`) are folded by `stepTrack`
(a note opens an event, directly following continuations extend it, a rest or an orphan
continuation is silent — `fold_note_conts`, `orphan_continuation_silent`), silent events are
dropped and the parts are merged in onset order. -/
theorem render_eq_denote (s : Score) (tempo : Rat) (per : List (List Row)) (hnn : NonNeg s)
    (hper : (trackList s).zipIdx.mapM (fun (t, i) => trackRows t i s 0 none) = .ok per)
    (hnt : NoTempo per.flatten) :
    toEvents s tempo = .ok (sortByRat (·.offset)
      (((addKeys [] ((sortByRat (·.offset) per.flatten).map (·.track))).flatMap
          (fun i => trackEvents tempo (per.getD i []))).filter (fun e => !e.silence))) := by
  unfold toEvents getNotes
  simp only [hper, bind, Except.bind, pure, Except.pure]
  rw [matrixToEvents_per_track _ _ hnt]
  obtain ⟨hlen, hidx⟩ := mapM_index _ _ _ hper
  have hlen' : per.length = (trackList s).length := by simpa using hlen
  have hrow : ∀ j (hj : j < per.length), SortedBy (·.offset) per[j] ∧ ∀ r ∈ per[j], r.track = 0 + j := by
    intro j hj
    have hj2 : j < (trackList s).zipIdx.length := by simpa using (hlen' ▸ hj)
    have := hidx j hj2 hj
    simp only [List.getElem_zipIdx] at this
    obtain ⟨a, b⟩ := track_rows_sorted _ _ s 0 none _ hnn this
    exact ⟨a, fun r hr => by simpa using (b r hr).2⟩
  congr 3
  congr 1
  funext i
  have hf := filter_flatten_track per 0 (fun j hj => (hrow j hj).2) i
  simp only [Nat.zero_add] at hf
  rw [hf]
  congr 1
  apply sortByRat_of_sorted
  by_cases hi : i < per.length
  · have : per.getD i [] = per[i] := by simp [List.getD_eq_getElem?_getD, hi]
    rw [this]; exact (hrow i hi).1
  · have : per.getD i [] = [] := by
      have : per.length ≤ i := by omega
      simp [List.getD_eq_getElem?_getD, List.getElem?_eq_none this]
    rw [this]; simp [SortedBy]

/-! ### flags, threading of the reference pitch, velocity, seconds -/

/-- a rest is silent and leaves the reference pitch alone -/
theorem rest_is_silent (n : Note) (c : Chord) (tr : Nat) (t : Rat) (last : Option Int) (row : Row)
    (l' : Option Int) (hk : n.kind = .r) (h : noteToRow n c tr t last = .ok (row, l')) :
    row.silence = true ∧ row.cont = false ∧ l' = last := by
  obtain ⟨_, _, _, _, f5, f6, f7, _⟩ := noteToRow_fields n c tr t last row l' h
  simp only [hk] at f5 f6
  have h5 : row.silence = true := by rw [f5]; rfl
  have h6 : row.cont = false := by rw [f6]; rfl
  refine ⟨h5, h6, ?_⟩
  rw [f7, h5]; rfl

/-- a continuation with nothing to continue is silent; otherwise it is flagged as a
continuation; in both cases the reference pitch is unchanged -/
theorem continuation_row (n : Note) (c : Chord) (tr : Nat) (t : Rat) (last : Option Int) (row : Row)
    (l' : Option Int) (hk : n.kind = .l) (h : noteToRow n c tr t last = .ok (row, l')) :
    (last = none → row.silence = true ∧ row.cont = false) ∧
    (last ≠ none → row.silence = false ∧ row.cont = true) ∧ l' = last := by
  obtain ⟨_, _, _, _, f5, f6, f7, _⟩ := noteToRow_fields n c tr t last row l' h
  simp only [hk] at f5 f6
  cases last with
  | none =>
    have h5 : row.silence = true := by rw [f5]; rfl
    refine ⟨fun _ => ⟨h5, by rw [f6]; rfl⟩, fun hh => absurd rfl hh, ?_⟩
    rw [f7, h5]; rfl
  | some lp =>
    have h6 : row.cont = true := by rw [f6]; rfl
    have h5 : row.silence = false := by rw [f5]; rfl
    refine ⟨fun hh => (Option.some_ne_none _ hh).elim, fun _ => ⟨h5, h6⟩, ?_⟩
    rw [f7, h5, h6]; rfl

/-- any other note sounds with its chord-relative pitch (relative kinds measured from the
reference pitch, 0 when there is none) and becomes the new reference -/
theorem sounding_row (n : Note) (c : Chord) (tr : Nat) (t : Rat) (last : Option Int) (row : Row)
    (l' : Option Int) (hk : n.kind ≠ .r ∧ n.kind ≠ .l) (h : noteToRow n c tr t last = .ok (row, l')) :
    row.silence = false ∧ row.cont = false ∧ l' = some row.pitch ∧
    ∃ p, noteToPitch c n (last.getD 0) = .ok p ∧ row.pitch = p.getD 0 := by
  obtain ⟨_, _, _, _, f5, f6, f7, f8⟩ := noteToRow_fields n c tr t last row l' h
  have h5 : row.silence = false := by
    rw [f5]; cases hkk : n.kind <;> simp_all
  have h6 : row.cont = false := by
    rw [f6]; cases hkk : n.kind <;> simp_all
  refine ⟨h5, h6, ?_, f8⟩
  rw [f7, h5, h6]; rfl

/-- **the reference pitch survives rests and continuations** -/
theorem last_survives_rests (m : Melody) (c : Chord) (tr : Nat) (t : Rat) (last : Option Int)
    (rows : List Row) (l' : Option Int) (hm : ∀ n ∈ m, n.kind = .r ∨ n.kind = .l)
    (h : melodyToRows m c tr t last = .ok (rows, l')) : l' = last := by
  induction m generalizing t last rows l' with
  | nil =>
    simp only [melodyToRows, pure, Except.pure, Except.ok.injEq, Prod.mk.injEq] at h
    exact h.2.symm
  | cons n ns ih =>
    unfold melodyToRows at h
    cases h1 : noteToRow n c tr t last with
    | error e => simp [h1, bind, Except.bind] at h
    | ok v =>
      obtain ⟨row, l1⟩ := v
      cases h2 : melodyToRows ns c tr (t + n.dur) l1 with
      | error e => simp [h1, h2, bind, Except.bind] at h
      | ok w =>
        obtain ⟨rs, l2⟩ := w
        simp only [h1, h2, bind, Except.bind, pure, Except.pure, Except.ok.injEq, Prod.mk.injEq] at h
        obtain ⟨_, rfl⟩ := h
        have hl1 : l1 = last := by
          rcases hm n (by simp) with hk | hk
          · exact (rest_is_silent n c tr t last row l1 hk h1).2.2
          · exact (continuation_row n c tr t last row l1 hk h1).2.2
        rw [ih (t + n.dur) l1 rs l2 (fun x hx => hm x (by simp [hx])) h2, hl1]

/-- **a part missing from a chord is silent for that chord** (no rows), the time advances by the
chord's duration and the reference pitch is forgotten -/
theorem absent_part_silent (track : String) (idx : Nat) (c : Chord) (cs : Score) (t : Rat)
    (last : Option Int) (h : c.parts.lookup track = none) :
    trackRows track idx (c :: cs) t last = trackRows track idx cs (t + c.dur) none := by
  rw [trackRows]; simp only [h]

/-- chords follow one another: the rows of a later chord start after the chord's duration -/
theorem chord_rows_then_rest (track : String) (idx : Nat) (c : Chord) (cs : Score) (t : Rat)
    (last : Option Int) (part : Melody) (rows : List Row) (h : c.parts.lookup track = some part)
    (hr : trackRows track idx (c :: cs) t last = .ok rows) :
    ∃ rc l1 rest, melodyToRows part c idx t last = .ok (rc, l1) ∧
      trackRows track idx cs (t + c.dur) l1 = .ok rest ∧ rows = rc ++ rest := by
  rw [trackRows] at hr
  simp only [h] at hr
  cases h1 : melodyToRows part c idx t last with
  | error e => simp [h1, bind, Except.bind] at hr
  | ok v =>
    obtain ⟨rc, l1⟩ := v
    cases h2 : trackRows track idx cs (t + c.dur) l1 with
    | error e => simp [h1, h2, bind, Except.bind] at hr
    | ok rest =>
      simp only [h1, h2, bind, Except.bind, pure, Except.pure, Except.ok.injEq] at hr
      exact ⟨rc, l1, rest, rfl, h2, hr.symm⟩

/-- **seconds = quarter notes × 60 / tempo, velocity = amplitude** (as an integer) -/
theorem events_seconds (tempo : Rat) (r : Row) :
    (evOf tempo r).offset = r.offset * 60 / tempo ∧ (evOf tempo r).dur = r.dur * 60 / tempo ∧
    (evOf tempo r).vel = r.vel.floor ∧ (evOf tempo r).pitch = r.pitch ∧ (evOf tempo r).silence = r.silence :=
  ⟨rfl, rfl, rfl, rfl, rfl⟩

/-! ### non-vacuity -/

/-- `(I % I.M)(piano__0 = s0.h + l.h + s1, violin__0 = r + s4)` followed by a chord without violin -/
def demo : Score :=
  [{ elem := 0, parts := [("piano__0", [{ kind := .s, val := 0, oct := 0, dur := 2 }, { kind := .l, val := 0, oct := 0, dur := 2 },
                                          { kind := .s, val := 1, oct := 0, dur := 1 }]),
                           ("violin__0", [{ kind := .r, val := 0, oct := 0, dur := 1 }, { kind := .s, val := 4, oct := 0, dur := 1 }])] },
   { elem := 4, parts := [("piano__0", [{ kind := .l, val := 0, oct := 0, dur := 1 }, { kind := .su, val := 1, oct := 0, dur := 1 }])] }]

example : NonNeg demo := by
  intro c hc p hp n hn
  simp [demo] at hc
  rcases hc with rfl | rfl <;> simp at hp <;> (try rcases hp with rfl | rfl) <;> simp at hn <;>
    (try rcases hn with rfl | rfl | rfl) <;> (try rcases hn with rfl | rfl) <;> decide
example : toEvents demo 120 = .ok
    [⟨0, 0, 2, 66, 0, false⟩, ⟨7, 1/2, 1/2, 66, 1, false⟩, ⟨2, 2, 1, 66, 0, false⟩, ⟨4, 3, 1/2, 66, 0, false⟩] := by
  decide +kernel

end MV.C03
