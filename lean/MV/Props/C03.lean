import MV.Model.Render
namespace MV.C03
theorem placeholder : True := trivial
end MV.C03
