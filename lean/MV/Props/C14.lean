/-
C14 — turning pitches and timed notes into notation is lossless.

Part 1 (`Chord.parse`): reading back, scale note iff the pitch class is in the chord scale,
normalised value and octave — every chord (degree 0..6), every pitch in ℤ.
Part 2 (importer, REPAIRED code, see patches/D6-importer-held-notes.diff): one voice in one bar
(`_parse_voice`), then the whole score (`infer_score_with_chords_durations`): bars of exactly the
bar length, and the rendering of every part is exactly the input notes of that voice — any number
of voices, any number of bars and bar lengths, notes held across any number of bar lines, silent
bars and silent voices, all times on any grid 1/g with g ≤ 1000.

Only statements and their proofs from the lemma files `MV/Lemmas/{Parse,Import*}.lean`.
-/
import MV.Lemmas.ImportDecide

namespace MV.C14
open MV Gen

/-! ## Part 1 — `Chord.parse` -/

/-- pitch of the chord root = first pitch of the chord scale = what `s0` sounds -/
def root (c : Chord) : Int := c.scalePitches.getD 0 0

theorem root_is_s0 (c : Chord) (he : 0 ≤ c.elem ∧ c.elem < 7) (last : Int) :
    noteToPitch c { kind := .s, val := 0, oct := 0 } last = .ok (some (root c)) := by
  rw [C01.pitch_scale c _ last rfl rfl he]
  have hg := scalePitches_getD c 0 (C01.scales_len _) he (by omega)
  unfold root
  rw [hg]
  have hm : C01.effMode c { kind := .s, val := 0, oct := 0 } = c.ton.mode := rfl
  rw [hm]
  simp only [Tonality.absDegree, Nat.add_zero]
  have : ((0:Int) % 7).toNat = 0 := by decide
  rw [this]
  congr 2
  simp only [Nat.add_zero]
  omega

/-- `parse` never fails -/
theorem parse_total (c : Chord) (he : 0 ≤ c.elem ∧ c.elem < 7) (p : Int) : ∃ n, c.parse p = .ok n :=
  ⟨_, parse_parsed c he p⟩

/-- **reading back**: the note `parse` returns sounds the pitch it was given (as `note_to_pitch_result`
computes it, and as `Chord.to_pitch` does) — all chords, all `p ∈ ℤ` -/
theorem parse_roundtrip (c : Chord) (he : 0 ≤ c.elem ∧ c.elem < 7) (p last : Int) (n : Note)
    (h : c.parse p = .ok n) :
    noteToPitch c n last = .ok (some p) ∧ c.toPitch n none = .ok (some p) :=
  parse_roundtrip_lem c he p last n h

/-- **a scale note whenever the pitch class belongs to the chord scale**: the result is a scale
note iff `p mod 12` is one of the seven pitch classes tonic + row of the mode (the documented scale;
the degree of the chord only rotates it), otherwise a chromatic note -/
theorem parse_prefers_scale (c : Chord) (he : 0 ≤ c.elem ∧ c.elem < 7) (p : Int) (n : Note)
    (h : c.parse p = .ok n) :
    (n.kind = .s ∨ n.kind = .h) ∧
    (n.kind = .s ↔ ∃ j : Nat, j < 7 ∧ p % 12 = (c.ton.deg + (SCALES c.ton.mode).getD j 0) % 12) := by
  obtain ⟨hlen, _, _, hmod⟩ := C02.chord_scale_is_rotation c he
  cases hin : (c.scalePitches.map (· % 12)).contains (p % 12) with
  | true =>
      obtain ⟨idx, hlt, hm, hp⟩ := parse_scale_case c he p hin
      rw [hp] at h; cases h
      refine ⟨Or.inl rfl, ⟨fun _ => ⟨(c.elem.toNat + idx) % 7, by omega, ?_⟩, fun _ => rfl⟩⟩
      rw [← hm, hmod idx hlt]
  | false =>
      obtain ⟨idx, hlt, hm, hp⟩ := parse_chrom_case c he p hin
      rw [hp] at h; cases h
      refine ⟨Or.inr rfl, ⟨(fun hk => by cases hk), ?_⟩⟩
      rintro ⟨j, hj, hpj⟩
      exfalso
      -- the scale entry carrying degree j of the mode
      have hi : (j + 7 - c.elem.toNat % 7) % 7 < 7 := by omega
      have hmi := hmod ((j + 7 - c.elem.toNat % 7) % 7) hi
      have hidx : (c.elem.toNat + (j + 7 - c.elem.toNat % 7) % 7) % 7 = j := by omega
      rw [hidx, ← hpj] at hmi
      have hmem : p % 12 ∈ c.scalePitches.map (· % 12) := by
        rw [← hmi]
        apply List.mem_map_of_mem
        have hlt' : (j + 7 - c.elem.toNat % 7) % 7 < c.scalePitches.length := by omega
        simp only [List.getD_eq_getElem?_getD, List.getElem?_eq_getElem hlt', Option.getD_some]
        exact List.getElem_mem _
      have : (c.scalePitches.map (· % 12)).contains (p % 12) = true := by simpa using hmem
      rw [hin] at this; cases this

/-- **normalised value and octave**: no accidental, no mode, duration 1, value in `0..6` (scale) or
`0..11` (chromatic), and the octave is the one of `p` counted from the chord root:
`root + 12·oct ≤ p < root + 12·(oct+1)` -/
theorem parse_normalised (c : Chord) (he : 0 ≤ c.elem ∧ c.elem < 7) (p : Int) (n : Note)
    (h : c.parse p = .ok n) :
    n.mode = none ∧ n.acc = none ∧ n.dur = 1 ∧ 0 ≤ n.val ∧ (n.kind = .s → n.val < 7) ∧ (n.kind = .h → n.val < 12) ∧
    n.oct = (p - root c) / 12 ∧ root c + 12 * n.oct ≤ p ∧ p < root c + 12 * (n.oct + 1) := by
  cases hin : (c.scalePitches.map (· % 12)).contains (p % 12) with
  | true =>
      obtain ⟨idx, hlt, _, hp⟩ := parse_scale_case c he p hin
      rw [hp] at h; cases h
      refine ⟨rfl, rfl, rfl, (by simp), (fun _ => by simp only; omega), (fun hk => by cases hk), rfl, ?_, ?_⟩ <;>
        (simp only [root]; omega)
  | false =>
      obtain ⟨idx, hlt, _, hp⟩ := parse_chrom_case c he p hin
      rw [hp] at h; cases h
      refine ⟨rfl, rfl, rfl, (by simp), (fun hk => by cases hk), (fun _ => by simp only; omega), rfl, ?_, ?_⟩ <;>
        (simp only [root]; omega)

/-! ## Part 2 — the importer -/

/-! ### one voice, one bar (`_parse_voice`) -/

/-- **one bar of one voice**: for a monophonic run of notes starting in the bar, after a pending tie
that ends before the run starts, `_parse_voice` returns exactly the melody `barMelody`
(tie, rests in the gaps, each note with its pitch parsed in the chord, its length and velocity, the
last note cut at the bar line, a rest up to the bar line) and the tie still pending -/
theorem bar_melody {T : List Rat} {bs be : Rat} {cont : Option Rat} {ns : List Item} (c : Chord)
    (he : 0 ≤ c.elem ∧ c.elem < 7) (h : BarOK T bs be cont ns) :
    parseVoice ns c bs be 1 (cont.map contNote) false
      = .ok (barMelody c bs be cont ns, barPending (endOf (contStart bs cont) ns) be) :=
  parseVoice_chain c he h

/-- **bars of exactly the bar length** (one voice): the melody lasts `be − bs`, exactly, and has
no empty note -/
theorem bar_exact_length {T : List Rat} {bs be : Rat} {cont : Option Rat} {ns : List Item} (c : Chord)
    (h : BarOK T bs be cont ns) :
    melodyDuration (barMelody c bs be cont ns) = be - bs ∧ ∀ n ∈ barMelody c bs be cont ns, 0 < n.dur :=
  ⟨barMelody_dur c h, barMelody_pos c h⟩

/-- **rendering of one bar of one voice**: read by the renderer model from a state in which a
pending tie finds its note still open, the bar adds exactly the notes that start in it (pitch
`pitch − 60`, onset, length cut at the bar line, velocity), after extending the tied note by the part
of the tie that lies in this bar -/
theorem bar_rendering {T : List Rat} {bs be : Rat} {cont : Option Rat} {ns : List Item} (c : Chord)
    (he : 0 ≤ c.elem ∧ c.elem < 7) (idx : Nat) (h : BarOK T bs be cont ns) (st : TrackSt)
    (hst : ∀ d, cont = some d → st.isOpen = true ∧ st.last ≠ none ∧ st.evs ≠ []) :
    playMelody c idx (barMelody c bs be cont ns) bs st
      = .ok ⟨(ns.map (evOf be)).reverse ++ afterTie bs be cont st.evs,
             decide (be ≤ endOf (contStart bs cont) ns), lastPitch ns st.last⟩ :=
  play_barMelody c he idx h st hst

/-! ### the whole import (`infer_score_with_chords_durations`) -/

/-- the hypotheses of the import theorem, all decidable for concrete inputs:
`offs` is the voice-offset table the code computes; part names tell voices apart; no drum
instrument; every difference of two times (bar lines, onsets, ends) has a denominator ≤ 1000 (true on
any grid 1/g, g ≤ 1000: `grid_is_fine`); every voice is monophonic from time 0 on (sorted by onset,
positive lengths, no overlap); one chord of degree 0..6 per bar, lasting exactly its bar; every note
ends inside the bars -/
structure ImportOK (seq : List Item) (chords : List Chord) (instruments : List (Int × String))
    (bars : List (Rat × Rat)) (offs : List (Int × Int)) (Tset : List Rat) : Prop where
  offs_eq : voiceOffsets seq instruments (sortedDedup (seq.map (·.track))) = .ok offs
  names : NameOK (voiceName instruments offs) seq
  nodrum : NoDrum instruments seq
  fine : FineSet Tset
  voices : ∀ n ∈ seq, VoiceOK Tset (voiceItems (voiceName instruments offs) seq (voiceName instruments offs n))
  len : chords.length = bars.length
  bars_ok : BarsOK Tset 0 (chords.zip bars)
  ends : ∀ n ∈ seq, n.stop ≤ endTime 0 (chords.zip bars)

instance (seq : List Item) (chords : List Chord) (instruments : List (Int × String)) (bars : List (Rat × Rat))
    (offs : List (Int × Int)) (Tset : List Rat) : Decidable (ImportOK seq chords instruments bars offs Tset) :=
  decidable_of_iff
    (voiceOffsets seq instruments (sortedDedup (seq.map (·.track))) = .ok offs ∧
     NameOK (voiceName instruments offs) seq ∧ NoDrum instruments seq ∧ FineSet Tset ∧
     (∀ n ∈ seq, VoiceOK Tset (voiceItems (voiceName instruments offs) seq (voiceName instruments offs n))) ∧
     chords.length = bars.length ∧ BarsOK Tset 0 (chords.zip bars) ∧ ∀ n ∈ seq, n.stop ≤ endTime 0 (chords.zip bars))
    ⟨fun ⟨a, b, c, d, e, f, g, h⟩ => ⟨a, b, c, d, e, f, g, h⟩,
     fun h => ⟨h.offs_eq, h.names, h.nodrum, h.fine, h.voices, h.len, h.bars_ok, h.ends⟩⟩

/-- the full statement of the importer half of C14 -/
def Import_lossless : Prop :=
  ∀ (seq : List Item) (chords : List Chord) (instruments : List (Int × String)) (bars : List (Rat × Rat))
    (offs : List (Int × Int)) (Tset : List Rat), ImportOK seq chords instruments bars offs Tset →
    ∃ score, inferScore seq chords instruments bars = .ok score ∧
      -- bars of exactly the bar length: every chord has a part and every part lasts its bar
      BarsExact score (chords.zip bars) ∧
      -- the rendering of every part is exactly the notes of that voice, in order:
      -- pitch (− 60), onset, duration, velocity
      ∀ v idx, sound v idx score = .ok ((voiceItems (voiceName instruments offs) seq v).map fullEv)

/-- **the import is lossless** (repaired code) -/
theorem import_lossless : Import_lossless := by
  intro seq chords instruments bars offs Tset h
  have hV : ∀ v, VoiceOK Tset (voiceItems (voiceName instruments offs) seq v) := by
    intro v
    cases hv : voiceItems (voiceName instruments offs) seq v with
    | nil => exact ⟨trivial, fun n hn => by cases hn⟩
    | cons n r =>
        have hn : n ∈ voiceItems (voiceName instruments offs) seq v := by rw [hv]; exact List.mem_cons_self ..
        simp only [voiceItems, List.mem_filter, beq_iff_eq] at hn
        have := h.voices n hn.1
        rw [hn.2, hv] at this
        exact this
  exact inferScore_spec seq chords instruments bars offs Tset h.offs_eq h.names h.nodrum h.fine hV h.len h.bars_ok h.ends

/-- the offset table of the hypothesis always exists -/
theorem offsets_exist (seq : List Item) (instruments : List (Int × String)) :
    ∃ offs, voiceOffsets seq instruments (sortedDedup (seq.map (·.track))) = .ok offs :=
  voiceOffsets_ok seq instruments

/-- **any rational grid** `1/g`, `g ≤ 1000`: if all times are multiples of `1/g` the fineness
hypothesis holds -/
theorem grid_is_fine (g : Nat) (hg : 0 < g) (hg' : g ≤ 1000) (Tset : List Rat) (h : ∀ t ∈ Tset, OnGrid g t) :
    FineSet Tset :=
  fun a ha b hb => onGrid_fine g hg hg' _ (onGrid_sub g hg a b (h a ha) (h b hb))

/-! ### non-vacuity and regression instances (kernel evaluation) -/

def rest (d : Rat) : Melody := [{ kind := .r, val := 0, oct := 0, dur := d }]
def ch0 (d : Rat) : Chord := { elem := 0, ton := ⟨0, .M, 0⟩, parts := [("piano__0", rest d)] }

/-- two voices on two tracks, four bars of lengths 2, 3/2, 3, 2; a note held across three bar lines
(1/2 → 7), a voice silent for two bars, a note ending with the piece -/
def exSeq : List Item :=
  [⟨0, 1, 90, 72, 1, 1, 0⟩, ⟨1/2, 7, 33, 49, 0, 0, 0⟩, ⟨6, 17/2, 91, 75, 1, 1, 0⟩]
def exChords : List Chord :=
  [ch0 2, { elem := 4, ext := { fig := .f7 }, ton := ⟨7, .m, 0⟩, parts := [("piano__0", rest (3/2))] },
   { elem := 1, ton := ⟨2, .dorian, 1⟩, oct := -1, parts := [("piano__0", rest 3)] }, ch0 2]
def exBars : List (Rat × Rat) := [(0, 2), (2, 7/2), (7/2, 13/2), (13/2, 17/2)]
def exInstr : List (Int × String) := [(0, "piano"), (1, "violin")]
def exT : List Rat := [0, 2, 7/2, 13/2, 17/2, 1, 1/2, 7, 6]

/-- the hypotheses of `import_lossless` hold for a non-trivial input -/
example : ImportOK exSeq exChords exInstr exBars [(0, 0), (1, 1)] exT := by decide +kernel

/-- and the model indeed returns, for it, the two voices note for note -/
example : (do let s ← inferScore exSeq exChords exInstr exBars; sound "piano__0" 0 s)
    = .ok [{ pitch := -11, onset := 1/2, dur := 13/2, vel := 33 }] := by decide +kernel
example : (do let s ← inferScore exSeq exChords exInstr exBars; sound "violin__1" 1 s)
    = .ok [{ pitch := 12, onset := 0, dur := 1, vel := 90 }, { pitch := 15, onset := 6, dur := 5/2, vel := 91 }] := by
  decide +kernel

/-- regression for defect D6 (repaired): one note of length 6 over two bars of 3 is written as a
note and a tie, and sounds 6 quarters -/
def shape (s : Score) : List (List (List (Kind × Int × Int × Rat))) :=
  s.map (fun c => c.parts.map (fun p => p.2.map (fun n => (n.kind, n.val, n.oct, n.dur))))
def partNames (s : Score) : List (List String) := s.map (fun c => c.parts.map (fun p => p.1))

example : (do let s ← inferScore [⟨0, 6, 80, 67, 0, 0, 0⟩] [ch0 3, ch0 3] [(0, "piano")] [(0, 3), (3, 6)]; pure (shape s).flatten.flatten)
    = .ok [(.s, 4, 0, 3), (.l, 0, 0, 3)] := by decide +kernel
example : (do let s ← inferScore [⟨0, 6, 80, 67, 0, 0, 0⟩] [ch0 3, ch0 3] [(0, "piano")] [(0, 3), (3, 6)]; pure (partNames s))
    = .ok [["piano__0"], ["piano__0"]] := by decide +kernel
example : (do let s ← inferScore [⟨0, 6, 80, 67, 0, 0, 0⟩] [ch0 3, ch0 3] [(0, "piano")] [(0, 3), (3, 6)]; sound "piano__0" 0 s)
    = .ok [{ pitch := 7, onset := 0, dur := 6, vel := 80 }] := by decide +kernel

/-- a bar satisfying `BarOK`: pending tie of 1/2, two notes, the second crossing the bar line -/
example : BarOK [0, 4, 8, 9/2, 5, 6, 7, 10] 4 8 (some (1/2))
    [⟨5, 6, 64, 60, 0, 0, 0⟩, ⟨7, 10, 64, 62, 0, 0, 0⟩] :=
  ⟨by decide +kernel, by decide +kernel, by decide +kernel, by decide +kernel, by decide +kernel,
   by decide +kernel, fun d h => by cases h; decide +kernel, by decide +kernel, by decide +kernel⟩

/-- parse: C# (pitch 1) in C major is the chromatic note h1, E (4) is the scale note s2 -/
example : ({ elem := 0, ton := ⟨0, .M, 0⟩ } : Chord).parse 1 = .ok { kind := .h, val := 1, oct := 0, dur := 1 } := by decide +kernel
example : ({ elem := 0, ton := ⟨0, .M, 0⟩ } : Chord).parse 4 = .ok { kind := .s, val := 2, oct := 0, dur := 1 } := by decide +kernel
example : ({ elem := 4, ton := ⟨2, .m, -1⟩, oct := 1 } : Chord).parse (-14) = .ok { kind := .s, val := 1, oct := -2, dur := 1 } := by
  decide +kernel

/-- the hypotheses matter, and the error branches of the model are reachable:
a note that starts before its bar makes the bar too long — `AssertionError` in the code
(`BarOK` excludes it: the run starts at or after the bar start) -/
example : parseVoice [⟨-1, 1, 64, 60, 0, 0, 0⟩] (ch0 4) 0 4 1 none false = .error .assertion := by decide +kernel
/-- `melody[-1]` on an empty melody is an `IndexError` -/
example : trimLast [] 1 = .error .index := by decide +kernel
/-- a voice that is not monophonic is *not* imported losslessly (by design of `_parse_voice`: the
earlier note is cut where the next one starts): (0,2) and (1,3) give lengths 1 and 2 -/
example : (parseVoice [⟨0, 2, 64, 60, 0, 0, 0⟩, ⟨1, 3, 64, 62, 0, 0, 0⟩] (ch0 4) 0 4 1 none false).map
      (fun r => r.1.map (fun n => (n.kind, n.val, n.oct, n.dur)))
    = .ok [(.s, 0, 0, 1), (.s, 1, 0, 2), (.r, 0, 0, 1)] := by decide +kernel

end MV.C14
