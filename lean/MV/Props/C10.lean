/-
C10 — durations are exact and add up.

Only property statements and their proofs from the lemmas of `MV.Lemmas.Duration`.
Durations are `Rat` (exact, like `fractions.Fraction`).  The library rounds every duration
that passes through a constructor / `augment` / `set_duration` to denominators
≤ `LIMIT_DENOM` (= 1000, the documented resolution); the theorems carry that resolution as the
explicit hypotheses `Den q` (`q.den ≤ LIMIT_DENOM`), `DenM` (every note of a melody), `DenC`,
`DenS`.  All theorems quantify over every melody / chord / score (any length, any number of
parts) and every rational factor.
-/
import MV.Lemmas.Duration

namespace MV.C10
open MV Gen

/-! ### the suffix table is the documented one -/

def bases : List (String × Rat) :=
  [("w", 4), ("h", 2), ("q", 1), ("e", (1 : Rat) / 2), ("s", (1 : Rat) / 4), ("t", (1 : Rat) / 8)]

/-- documented values: `w h q e s t` = `4 2 1 ½ ¼ ⅛` quarter notes, dotted ×3/2,
n-tuplets (3, 5, 7) ×2/n, and the empty figure `n` = 0 -/
def specTable : List (String × Rat) :=
  ("n", 0) :: (bases ++ bases.map (fun p => (p.1 ++ "d", p.2 * 3 / 2))
    ++ [3, 5, 7].flatMap (fun (n : Nat) => bases.map (fun p => (p.1 ++ toString n, p.2 * 2 / (n : Rat)))))

/-- the generated `STR_TO_DURATION` has exactly the documented entries (both inclusions) -/
theorem suffix_table :
    (∀ p ∈ specTable, STR_TO_DURATION.lookup p.1 = some p.2) ∧
    (∀ p ∈ STR_TO_DURATION, specTable.lookup p.1 = some p.2) := by decide +kernel

/-- `DURATION_TO_STR` is the inverse of `STR_TO_DURATION` (so the 31 values are distinct) -/
theorem duration_to_str_inverse :
    (∀ p ∈ STR_TO_DURATION, DURATION_TO_STR.lookup p.2 = some p.1) ∧
    (∀ p ∈ DURATION_TO_STR, STR_TO_DURATION.lookup p.2 = some p.1) ∧
    DURATION_TO_STR.length = STR_TO_DURATION.length := by decide +kernel

/-- the resolution is the documented one, and `limit_denominator(LIMIT_DENOM)` cannot raise -/
theorem limit_denom_is_1000 : LIMIT_DENOM = 1000 := by decide

/-! ### limit_denominator -/

/-- inside the bound `limit_denominator` is the identity (its first line) -/
theorem limit_id (mx : Nat) (x : Rat) (h : x.den ≤ mx) : limitDenominator mx x = x :=
  limitDenominator_id mx x h

/-- outside the bound the result is inside it: every `limit_denominator(max)` has a denominator
≤ max, for every input (loop invariant `q0, q1 ≤ max`) -/
theorem limit_within_bound (mx : Nat) (x : Rat) (h : 1 ≤ mx) : (limitDenominator mx x).den ≤ mx :=
  limitDenominator_den_le mx x h

/-- hence whatever a note constructor, `augment` or `set_duration` produces is inside the
resolution (the domain `Den` is closed under these operations), for every argument -/
theorem results_within_resolution (n : Note) :
    Den n.copy.dur ∧ (∀ v n', n.augment v = .ok n' → Den n'.dur) ∧
    (∀ v n', n.setDuration v = .ok n' → Den n'.dur) := by
  refine ⟨limitD_den _, fun v n' h => ?_, fun v n' h => ?_⟩
  · unfold Note.augment at h
    cases v <;> simp only [reduceCtorEq] at h <;> (injection h with h; subst h; exact limitD_den _)
  · unfold Note.setDuration at h
    cases v <;> simp only [reduceCtorEq] at h <;> (injection h with h; subst h; exact limitD_den _)

/-- the only rejected input: `max_denominator < 1` raises `ValueError` -/
theorem limit_checked (mx : Int) (x : Rat) :
    (mx < 1 → limitDenominatorChecked mx x = .error .value) ∧
    (1 ≤ mx → limitDenominatorChecked mx x = .ok (limitDenominator mx.toNat x)) := by
  unfold limitDenominatorChecked
  constructor <;> intro h
  · simp [h]
  · have : ¬ mx < 1 := by omega
    simp [this]

/-- the construction of a note keeps a duration of the resolution exactly -/
theorem construction_exact (n : Note) (h : Den n.dur) : n.copy = n := Note.copy_id h

/-! ### a rhythmic suffix multiplies by the table value -/

theorem suffix_multiplies (n : Note) (item : String) (f : Rat) (h : Den n.dur)
    (hf : STR_TO_DURATION.lookup item = some f) :
    n.suffix item = .ok { n with dur := n.dur * f } := Note.suffix_ok h hf

/-- an unknown suffix is rejected -/
theorem suffix_unknown (n : Note) (item : String) (hf : STR_TO_DURATION.lookup item = none) :
    n.suffix item = .error .attr := by
  unfold Note.suffix; simp [hf]

/-! ### a melody lasts the sum of its notes; onsets are the prefix sums -/

theorem melody_duration_sum (m : Melody) : Melody.duration m = (m.map (·.dur)).sum :=
  sumRat_eq_sum _

/-- `get_onset_times`: note `i` starts at the duration of the first `i` notes -/
theorem onsets_are_prefix_sums (m : Melody) :
    Melody.onsetTimes m = (List.range m.length).map (fun i => Melody.duration (m.take i)) := by
  unfold Melody.onsetTimes
  rw [onsets_aux]
  simp

/-! ### concatenation adds -/

/-- `a + b` (notes and melodies; nothing is copied, so no hypothesis) -/
theorem concat_adds (a b : Melody) :
    Melody.duration (Melody.add a b) = Melody.duration a + Melody.duration b :=
  Melody.duration_append a b

/-! ### repetition multiplies -/

/-- `melody * k` lasts `k` times the melody (`k ≤ 0` gives the empty melody, duration 0) -/
theorem repeat_multiplies (m : Melody) (k : Int) (h : DenM m) :
    Melody.duration (Melody.mul m k) = (k.toNat : Rat) * Melody.duration m := by
  unfold Melody.mul Melody.duration
  rw [Melody.copy_id h, List.map_flatten, List.map_replicate, sumRat_flatten_replicate]

theorem note_repeat_multiplies (n : Note) (k : Int) (h : Den n.dur) :
    Melody.duration (n.mul k) = (k.toNat : Rat) * n.dur := by
  unfold Note.mul Melody.duration
  rw [Note.copy_id h, List.map_replicate, sumRat_replicate]

/-! ### augment(k) multiplies every note by k -/

/-- `melody.augment(q)` for a `Fraction` q: every note is multiplied by `q`, hence the total -/
theorem augment_multiplies (m : Melody) (q : Rat) (h : DenM m) (hq : ∀ n ∈ m, Den (n.dur * q)) :
    Melody.augment m (.frac q) = .ok (m.map (fun n => { n with dur := n.dur * q })) ∧
    Melody.duration (m.map (fun n => { n with dur := n.dur * q })) = q * Melody.duration m := by
  constructor
  · unfold Melody.augment
    exact mapM_ok _ _ m (fun n hn => Note.augment_frac (h n hn) (hq n hn))
  · rw [Melody.duration_map_mul]; ring

/-- the same for an `int` factor -/
theorem augment_multiplies_int (m : Melody) (i : Int) (h : DenM m) (hq : ∀ n ∈ m, Den (n.dur * (i : Rat))) :
    Melody.augment m (.int i) = .ok (m.map (fun n => { n with dur := n.dur * (i : Rat) })) ∧
    Melody.duration (m.map (fun n => { n with dur := n.dur * (i : Rat) })) = (i : Rat) * Melody.duration m := by
  constructor
  · unfold Melody.augment
    exact mapM_ok _ _ m (fun n hn => Note.augment_int (h n hn) (hq n hn))
  · rw [Melody.duration_map_mul]; ring

/-- and for a `float` whose exact value `x` is inside the resolution (e.g. 0.5, 0.375) -/
theorem augment_multiplies_float (m : Melody) (x : Rat) (hx : Den x) (h : DenM m)
    (hq : ∀ n ∈ m, Den (n.dur * x)) :
    Melody.augment m (.float x) = .ok (m.map (fun n => { n with dur := n.dur * x })) ∧
    Melody.duration (m.map (fun n => { n with dur := n.dur * x })) = x * Melody.duration m := by
  constructor
  · unfold Melody.augment
    exact mapM_ok _ _ m (fun n hn => Note.augment_float (h n hn) hx (hq n hn))
  · rw [Melody.duration_map_mul]; ring

/-- a factor that is not a number is rejected (`TypeError`) -/
theorem augment_bad (n : Note) : n.augment .bad = .error .type := rfl

/-! ### set_duration(d) yields exactly d -/

/-- a note: whatever its previous duration -/
theorem note_set_duration_exact (n : Note) (d : Rat) (hd : Den d) :
    n.setDuration (.frac d) = .ok { n with dur := d } := by
  unfold Note.setDuration Note.copy; simp only [limitD_id hd]

theorem note_set_duration_int (n : Note) (i : Int) :
    n.setDuration (.int i) = .ok { n with dur := (i : Rat) } := by
  unfold Note.setDuration Note.copy; simp only [limitD_id (den_int i)]

/-- a melody of non-zero length `D`: every note is scaled by `d / D`, the total is exactly `d` -/
theorem set_duration_exact (m : Melody) (d : Rat) (hD : Melody.duration m ≠ 0) (h : DenM m)
    (hq : ∀ n ∈ m, Den (n.dur * (d / Melody.duration m))) :
    ∃ m', Melody.setDuration m (.frac d) = .ok m' ∧ Melody.duration m' = d ∧
      m' = m.map (fun n => { n with dur := n.dur * (d / Melody.duration m) }) := by
  refine ⟨_, ?_, ?_, rfl⟩
  · unfold Melody.setDuration divByDuration
    simp only [hD, if_false, bind, Except.bind]
    exact (augment_multiplies m _ h hq).1
  · rw [(augment_multiplies m _ h hq).2]
    exact div_mul_cancel₀ d hD

/-- the rejected input: a melody of zero length cannot be rescaled (`ZeroDivisionError`) -/
theorem set_duration_zero_length (m : Melody) (d : Rat) (hD : Melody.duration m = 0) :
    Melody.setDuration m (.frac d) = .error .zerodiv := by
  unfold Melody.setDuration divByDuration
  simp [hD, bind, Except.bind]

/-! ### a chord lasts as long as its longest part -/

/-- 0 without parts; otherwise an upper bound of the parts' durations that is attained -/
theorem chord_max (c : Chord) :
    (c.parts = [] → c.duration = 0) ∧
    (∀ p ∈ c.parts, Melody.duration p.2 ≤ c.duration) ∧
    (c.parts ≠ [] → ∃ p ∈ c.parts, Melody.duration p.2 = c.duration) := by
  unfold Chord.duration
  cases hp : c.parts with
  | nil => simp
  | cons x xs =>
      obtain ⟨h1, h2⟩ := maxRat_spec (Melody.duration x.2) (xs.map (fun q => Melody.duration q.2))
      refine ⟨fun h => by simp at h, fun p hp' => ?_, fun _ => ?_⟩
      · apply h1
        rw [← List.map_cons (f := fun q : String × Melody => Melody.duration q.2)]
        exact List.mem_map.mpr ⟨p, hp', rfl⟩
      · rw [← List.map_cons (f := fun q : String × Melody => Melody.duration q.2)] at h2
        obtain ⟨p, hp', he⟩ := List.mem_map.mp h2
        exact ⟨p, hp', he⟩

/-! ### a score lasts the sum of its chords -/

theorem score_sum (s : Score) : Score.duration s = (s.map Chord.duration).sum := sumRat_eq_sum _

/-- `score + score` (both sides are copied, hence the resolution hypothesis) -/
theorem score_concat_adds (a b : Score) (ha : DenS a) (hb : DenS b) :
    Score.duration (Score.add a b) = Score.duration a + Score.duration b := by
  rw [Score.add_id ha hb, Score.duration_append]

/-- `chord + chord` -/
theorem chord_concat_adds (a b : Chord) (ha : DenC a) (hb : DenC b) :
    Score.duration (Chord.add a b) = a.duration + b.duration := by
  unfold Chord.add
  rw [Chord.copy_id ha, Chord.copy_id hb]
  simp

/-- `chord * k` -/
theorem chord_repeat_multiplies (c : Chord) (k : Int) (h : DenC c) :
    Score.duration (c.mul k) = (k.toNat : Rat) * c.duration := by
  unfold Chord.mul Score.duration
  rw [Chord.copy_id h, List.map_replicate, sumRat_replicate]

/-- `score * k` for `k ≥ 1` lasts `k` times the score -/
theorem score_repeat_multiplies (s : Score) (k : Int) (hk : 1 ≤ k) (h : DenS s) :
    ∃ r, Score.mul s k = some r ∧ Score.duration r = (k : Rat) * Score.duration s := by
  obtain ⟨j, hj⟩ : ∃ j : Nat, k.toNat = j + 1 := ⟨k.toNat - 1, by omega⟩
  unfold Score.mul
  rw [hj, List.replicate_succ, Score.copy_id h]
  refine ⟨_, rfl, ?_⟩
  rw [Score.copy_id h]
  rw [(score_mul_fold s h j s h).2]
  have hk' : (k : Rat) = ((j : Nat) : Rat) + 1 := by
    have : k = (j : Int) + 1 := by omega
    rw [this]; push_cast; ring
  rw [hk']; ring

/-- the covered error branch: for `k ≤ 0` the code returns Python `None`, not an empty score -/
theorem score_repeat_nonpositive (s : Score) (k : Int) (hk : k ≤ 0) : Score.mul s k = none := by
  unfold Score.mul
  have : k.toNat = 0 := by omega
  rw [this]; rfl

/-- full statement of "repetition multiplies" for scores, including zero repetitions -/
def ScoreRepeat_full : Prop :=
  ∀ (s : Score) (k : Int), 0 ≤ k → DenS s →
    ∃ r, Score.mul s k = some r ∧ Score.duration r = (k : Rat) * Score.duration s

/-- it fails on the current code at `k = 0` (`Score * 0` is `None`); `score_repeat_multiplies`
is the partial statement with the exact extra hypothesis `1 ≤ k` -/
theorem score_repeat_fails : ¬ ScoreRepeat_full := by
  intro h
  obtain ⟨r, hr, _⟩ := h [] 0 (by decide) (by intro c hc; simp at hc)
  simp [Score.mul] at hr

/-! ### chords: augment, set_duration -/

/-- `chord.augment(q)` on a chord with parts: every note of every part is multiplied by `q`;
the chord (a max over parts) scales for `q ≥ 0` -/
theorem chord_augment_multiplies (c : Chord) (q : Rat) (hne : c.parts ≠ []) (h : DenC c)
    (hq : ∀ p ∈ c.parts, ∀ n ∈ p.2, Den (n.dur * q)) :
    ∃ c', c.augment (.frac q) = .ok c' ∧
      c'.parts = c.parts.map (fun p => (p.1, p.2.map (fun n => { n with dur := n.dur * q }))) ∧
      (0 ≤ q → c'.duration = q * c.duration) := by
  have hlen : ¬ c.parts.length = 0 := fun hl => hne (List.eq_nil_of_length_eq_zero hl)
  have hden : ∀ p ∈ c.parts.map (fun p => (p.1, p.2.map (fun n => ({ n with dur := n.dur * q } : Note)))), DenM p.2 := by
    intro p hp
    obtain ⟨p0, hp0, rfl⟩ := List.mem_map.mp hp
    intro n hn
    obtain ⟨n0, hn0, rfl⟩ := List.mem_map.mp hn
    exact hq p0 hp0 n0 hn0
  unfold Chord.augment
  simp only [hlen, if_false]
  rw [mapParts_ok (fun m => Melody.augment m (.frac q)) (fun m => m.map (fun n => { n with dur := n.dur * q }))
    c.parts (fun p hp => (augment_multiplies p.2 q (h p hp) (hq p hp)).1)]
  simp only [bind, Except.bind, pure, Except.pure]
  rw [Chord.withParts_id c hden]
  refine ⟨_, rfl, rfl, fun hq0 => ?_⟩
  rw [Chord.duration_map_scale c _ q hq0 hne (fun p _ => Melody.duration_map_mul p.2 q)]
  ring

/-- `chord.set_duration(d)` on a chord whose parts all have non-zero length: every part, hence
the chord, lasts exactly `d` -/
theorem chord_set_duration_exact (c : Chord) (d : Rat) (hne : c.parts ≠ []) (h : DenC c)
    (hD : ∀ p ∈ c.parts, Melody.duration p.2 ≠ 0)
    (hq : ∀ p ∈ c.parts, ∀ n ∈ p.2, Den (n.dur * (d / Melody.duration p.2))) :
    ∃ c', c.setDuration (.frac d) = .ok c' ∧ c'.duration = d ∧
      (∀ p ∈ c'.parts, Melody.duration p.2 = d) ∧ c'.parts.map (·.1) = c.parts.map (·.1) := by
  have hlen : ¬ c.parts.length = 0 := fun hl => hne (List.eq_nil_of_length_eq_zero hl)
  let g : Melody → Melody := fun m => m.map (fun n => { n with dur := n.dur * (d / Melody.duration m) })
  have hg : ∀ p ∈ c.parts, Melody.setDuration p.2 (.frac d) = .ok (g p.2) ∧ Melody.duration (g p.2) = d := by
    intro p hp
    obtain ⟨m', h1, h2, h3⟩ := set_duration_exact p.2 d (hD p hp) (h p hp) (hq p hp)
    rw [h3] at h1 h2
    exact ⟨h1, h2⟩
  have hden : ∀ p ∈ c.parts.map (fun p => (p.1, g p.2)), DenM p.2 := by
    intro p hp
    obtain ⟨p0, hp0, rfl⟩ := List.mem_map.mp hp
    intro n hn
    obtain ⟨n0, hn0, rfl⟩ := List.mem_map.mp hn
    exact hq p0 hp0 n0 hn0
  unfold Chord.setDuration
  simp only [hlen, if_false]
  rw [mapParts_ok (fun m => Melody.setDuration m (.frac d)) g c.parts (fun p hp => (hg p hp).1)]
  simp only [bind, Except.bind, pure, Except.pure]
  rw [Chord.withParts_id c hden]
  refine ⟨_, rfl, Chord.duration_map_const c g d hne (fun p hp => (hg p hp).2), ?_, ?_⟩
  · intro p hp
    obtain ⟨p0, hp0, rfl⟩ := List.mem_map.mp hp
    exact (hg p0 hp0).2
  · simp [List.map_map, Function.comp]

/-- the rejected input: a part of zero length makes `chord.set_duration` raise -/
theorem chord_set_duration_zero_part (c : Chord) (d : Rat) (p : String × Melody) (ps : List (String × Melody))
    (hp : c.parts = p :: ps) (h0 : Melody.duration p.2 = 0) :
    c.setDuration (.frac d) = .error .zerodiv := by
  unfold Chord.setDuration
  simp only [hp, List.length_cons, Nat.add_one_ne_zero, if_false]
  unfold mapParts
  rw [set_duration_zero_length p.2 d h0]
  rfl

/-- a chord without parts becomes a rest of exactly `d` (Fraction / int argument) -/
theorem empty_chord_set_duration_exact (c : Chord) (d : Rat) (he : c.parts = []) (hd : Den d) :
    ∃ c', c.setDuration (.frac d) = .ok c' ∧ c'.duration = d := by
  unfold Chord.setDuration
  simp only [he, List.length_nil, if_true, DArg.toFrac, bind, Except.bind, pure, Except.pure]
  exact ⟨_, rfl, Chord.withSilence_duration c d hd⟩

/-- full statement for a *float* argument whose exact value `x` is inside the resolution -/
def EmptyChordSetDurationFloat_full : Prop :=
  ∀ (c : Chord) (x : Rat), c.parts = [] → Den x →
    ∃ c', c.setDuration (.float x) = .ok c' ∧ c'.duration = x

/-- what holds today: the float is first rounded to denominators ≤ 8 -/
theorem empty_chord_set_duration_float_partial (c : Chord) (x : Rat) (he : c.parts = []) (hx : x.den ≤ 8) :
    ∃ c', c.setDuration (.float x) = .ok c' ∧ c'.duration = x := by
  have hd : Den x := Nat.le_trans hx (by decide)
  unfold Chord.setDuration
  simp only [he, List.length_nil, if_true, limitDenominator_id 8 x hx, DArg.toFrac, bind, Except.bind, pure,
    Except.pure]
  exact ⟨_, rfl, Chord.withSilence_duration c x hd⟩

/-- counter-example: `(I % I.M).set_duration(0.0625)` lasts 0, not 1/16 -/
theorem empty_chord_set_duration_float_fails : ¬ EmptyChordSetDurationFloat_full := by
  intro h
  obtain ⟨c', h1, h2⟩ := h { elem := 0 } ((1 : Rat) / 16) rfl (by decide +kernel)
  have h3 : (Chord.setDuration { elem := 0 } (.float ((1 : Rat) / 16))).map Chord.duration = .ok 0 := by
    decide +kernel
  rw [h1] at h3
  simp only [Except.map] at h3
  injection h3 with h3
  rw [h2] at h3
  exact absurd h3 (by decide +kernel)

/-! ### scores: set_duration, augment -/

/-- `score.set_duration(d)` sets *every chord* to `d` (so the score lasts `len · d`) -/
theorem score_set_duration (s : Score) (d : Rat)
    (h : ∀ c ∈ s, ∃ c', c.setDuration (.frac d) = .ok c' ∧ c'.duration = d) :
    ∃ s', Score.setDuration s (.frac d) = .ok s' ∧ s'.length = s.length ∧ (∀ c' ∈ s', c'.duration = d) ∧
      Score.duration s' = (s.length : Rat) * d := by
  obtain ⟨s', h1, h2⟩ := mapM_exists (fun c => Chord.setDuration c (.frac d)) (fun _ c' => c'.duration = d) s h
  obtain ⟨h3, h4⟩ := forall₂_right h2
  refine ⟨s', h1, h3, h4, ?_⟩
  unfold Score.duration
  rw [sumRat_const _ d (by intro x hx; obtain ⟨c', hc', rfl⟩ := List.mem_map.mp hx; exact h4 c' hc')]
  simp [h3]

/-- `score.augment(q)`, `q ≥ 0`, every chord with parts: the score lasts `q` times as long -/
theorem score_augment_multiplies (s : Score) (q : Rat) (hq0 : 0 ≤ q) (hne : ∀ c ∈ s, c.parts ≠ []) (h : DenS s)
    (hq : ∀ c ∈ s, ∀ p ∈ c.parts, ∀ n ∈ p.2, Den (n.dur * q)) :
    ∃ s', Score.augment s (.frac q) = .ok s' ∧ Score.duration s' = q * Score.duration s := by
  obtain ⟨s', h1, h2⟩ := mapM_exists (fun c => Chord.augment c (.frac q))
    (fun c c' => Chord.duration c' = q * Chord.duration c) s
    (fun c hc => by
      obtain ⟨c', a, _, b⟩ := chord_augment_multiplies c q (hne c hc) (h c hc) (hq c hc)
      exact ⟨c', a, b hq0⟩)
  exact ⟨s', h1, sumRat_forall₂_scale h2⟩


/-! ### suffixes on melodies and empty chords -/

/-- `melody.<suffix>` multiplies every note by the table value -/
theorem melody_suffix_multiplies (m : Melody) (item : String) (f : Rat) (h : DenM m)
    (hf : STR_TO_DURATION.lookup item = some f) :
    Melody.suffix m item = .ok (m.map (fun n => { n with dur := n.dur * f })) ∧
    Melody.duration (m.map (fun n => { n with dur := n.dur * f })) = f * Melody.duration m := by
  constructor
  · unfold Melody.suffix
    rw [mapM_ok (fun n => Note.suffix n item) (fun n => { n with dur := n.dur * f }) m
      (fun n hn => Note.suffix_ok (h n hn) hf)]
  · rw [Melody.duration_map_mul]; ring

/-- a chord without parts: `chord.augment(q)` and `chord.<suffix>` give it a rest of that length -/
theorem empty_chord_augment (c : Chord) (q : Rat) (he : c.parts = []) (hq : Den q) :
    ∃ c', c.augment (.frac q) = .ok c' ∧ c'.duration = q := by
  unfold Chord.augment
  simp only [he, List.length_nil, if_true, DArg.toFrac, bind, Except.bind, pure, Except.pure]
  exact ⟨_, rfl, Chord.withSilence_duration c q hq⟩

theorem empty_chord_suffix (c : Chord) (item : String) (f : Rat) (he : c.parts = [])
    (hf : STR_TO_DURATION.lookup item = some f) (hd : Den f) :
    ∃ c', c.suffix item = .ok c' ∧ c'.duration = f := by
  unfold Chord.suffix
  simp only [hf, he, List.isEmpty_nil]
  exact ⟨_, rfl, Chord.withSilence_duration c f hd⟩

/-- every table figure is inside the resolution (so the suffix theorems apply to all 31) -/
theorem table_within_resolution : ∀ p ∈ STR_TO_DURATION, Den p.2 := by decide +kernel

/-! ### decompose_duration keeps every onset and the total -/

/-- the generated figure table has what the decomposition needs -/
theorem dur_table_ok : DurTableOK := by decide +kernel

/-- `_recurse` terminates: the fuel of the model is never exhausted, for every note -/
theorem decompose_terminates (n : Note) : ∃ l, decompRecurse (decompFuel n.dur) n = .ok l := by
  obtain ⟨h1, h2⟩ := decompFuel_enough n.dur
  obtain ⟨l, hl, _⟩ := decompRecurse_spec dur_table_ok _ n h1 h2
  exact ⟨l, hl⟩

/-- `Note.decompose_duration` is total (no error on any note, whatever its duration) and
returns the note itself (all fields but the duration unchanged) followed only by fresh
continuations whose durations are table figures; the pieces add up to the note's duration -/
theorem decompose_total_note (n : Note) :
    ∃ (c : Rat) (tl : List Note), n.decomposeDuration = .ok ({ n with dur := c } :: tl) ∧
      (∀ x ∈ tl, x.kind = .l ∧ x.val = 0 ∧ x.oct = 0 ∧ inDurTable x.dur = true) ∧
      c + sumRat (tl.map (·.dur)) = n.dur := by
  obtain ⟨c, tl, h1, h2, h3, _⟩ := decompose_note dur_table_ok n
  exact ⟨c, tl, h1, fun x hx => ⟨(h2 x hx).1, (h2 x hx).2.1, (h2 x hx).2.2.1, (h2 x hx).2.2.2.1⟩, h3⟩

/-- `Melody.decompose_duration` on a non-empty melody whose first note is inside the resolution
(the first summand is copied): the concatenation of the notes' pieces -/
theorem decompose_melody (m : Melody) (hne : m ≠ []) (h0 : ∀ n, m.head? = some n → Den n.dur) :
    Melody.decomposeDuration m = .ok (m.flatMap piecesOf) :=
  Melody.decomposeDuration_ok dur_table_ok m hne h0

/-- the total is kept (any melody, any durations) -/
theorem decompose_total (m : Melody) : Melody.duration (m.flatMap piecesOf) = Melody.duration m :=
  flatMap_pieces_duration dur_table_ok m

/-- every onset is kept: whatever precedes a note lasts as long after the decomposition, the
note itself comes next (same fields, shorter), and only table-figure continuations are
inserted before the following note -/
theorem decompose_onsets (a : Melody) (n : Note) (b : Melody) :
    ∃ (c : Rat) (tl : List Note),
      (a ++ n :: b).flatMap piecesOf = a.flatMap piecesOf ++ ({ n with dur := c } :: tl) ++ b.flatMap piecesOf ∧
      Melody.duration (a.flatMap piecesOf) = Melody.duration a ∧
      (∀ x ∈ tl, x.kind = .l ∧ inDurTable x.dur = true) ∧
      c + sumRat (tl.map (·.dur)) = n.dur := by
  obtain ⟨_, c, tl, hg, hk, hs, _⟩ := piecesOf_spec dur_table_ok n
  refine ⟨c, tl, ?_, decompose_total a, fun x hx => ⟨(hk x hx).1, (hk x hx).2.2.2.1⟩, hs⟩
  rw [List.flatMap_append, List.flatMap_cons, hg, List.append_assoc]

/-- full statement for melodies, the empty one included -/
def DecomposeMelody_full : Prop :=
  ∀ m : Melody, DenM m → Melody.decomposeDuration m = .ok (m.flatMap piecesOf)

/-- it fails on the empty melody (`sum([], None).notes` → `AttributeError`); `decompose_melody`
is the partial statement with the exact extra hypothesis `m ≠ []` -/
theorem decompose_melody_fails : ¬ DecomposeMelody_full := by
  intro h
  have := h [] (by intro n hn; simp at hn)
  rw [Melody.decomposeDuration_nil] at this
  exact absurd this (by simp)

/-- chords: every part is decomposed, so every part — hence the chord — keeps its duration -/
theorem chord_decompose (c : Chord) (h : DenC c) (hne : ∀ p ∈ c.parts, p.2 ≠ []) :
    ∃ c', c.decomposeDuration = .ok c' ∧
      c'.parts = c.parts.map (fun p => (p.1, p.2.flatMap piecesOf)) ∧ c'.duration = c.duration := by
  have hden : ∀ p ∈ c.parts.map (fun p => (p.1, p.2.flatMap piecesOf)), DenM p.2 := by
    intro p hp
    obtain ⟨p0, hp0, rfl⟩ := List.mem_map.mp hp
    exact flatMap_pieces_denM dur_table_ok p0.2 (h p0 hp0)
  unfold Chord.decomposeDuration
  rw [mapParts_ok Melody.decomposeDuration (fun m => m.flatMap piecesOf) c.parts
    (fun p hp => decompose_melody p.2 (hne p hp) (fun n hn => h p hp n (List.mem_of_mem_head? hn)))]
  simp only [bind, Except.bind, pure, Except.pure]
  rw [Chord.withParts_id c hden]
  refine ⟨_, rfl, rfl, ?_⟩
  by_cases hp : c.parts = []
  · unfold Chord.duration; simp [hp]
  · rw [Chord.duration_map_scale c _ 1 (by decide) hp (fun p _ => by rw [decompose_total, mul_one])]
    ring

/-- scores: the sum of the chords is kept -/
theorem score_decompose (s : Score) (h : DenS s) (hne : ∀ c ∈ s, ∀ p ∈ c.parts, p.2 ≠ []) :
    ∃ s', Score.decomposeDuration s = .ok s' ∧ Score.duration s' = Score.duration s := by
  obtain ⟨s', h1, h2⟩ := mapM_exists Chord.decomposeDuration
    (fun c c' => Chord.duration c' = 1 * Chord.duration c) s
    (fun c hc => by
      obtain ⟨c', a, _, b⟩ := chord_decompose c (h c hc) (hne c hc)
      exact ⟨c', a, by rw [b, one_mul]⟩)
  refine ⟨s', h1, ?_⟩
  rw [sumRat_forall₂_scale h2, one_mul]

/-! ### non-vacuity: concrete instances (triplets, septuplets, quintuplets), evaluated by the kernel -/

/-- a triplet eighth, a septuplet quarter and a dotted sixteenth -/
def exMelody : Melody :=
  [{ kind := .s, val := 0, oct := 0, dur := (1 : Rat) / 3 }, { kind := .h, val := 5, oct := 1, dur := (2 : Rat) / 7 },
   { kind := .r, val := 0, oct := 0, dur := (3 : Rat) / 8 }]

example : DenM exMelody ∧ (∀ n ∈ exMelody, Den (n.dur * ((5 : Rat) / 4))) := by decide +kernel
example : Melody.duration exMelody = (167 : Rat) / 168 := by decide +kernel
example : (Melody.augment exMelody (.frac ((5 : Rat) / 4))).map Melody.duration = .ok ((835 : Rat) / 672) := by
  decide +kernel
/-- hypotheses of `set_duration_exact`: D = 167/168 ≠ 0 and all products inside the resolution -/
example : Melody.duration exMelody ≠ 0 ∧
    (∀ n ∈ exMelody, Den (n.dur * ((167 : Rat) / 84 / Melody.duration exMelody))) := by decide +kernel
example : (Melody.setDuration exMelody (.frac ((167 : Rat) / 84))).map Melody.duration = .ok ((167 : Rat) / 84) := by
  decide +kernel
example : Melody.duration (Melody.mul exMelody 3) = (167 : Rat) / 56 := by decide +kernel
example : (Note.suffix { kind := .s, val := 0, oct := 0, dur := 1 } "e7").map (·.dur) = .ok ((1 : Rat) / 7) := by
  decide +kernel

/-- the resolution hypothesis on the *results* is necessary: `(s0.e3 + s1.td + s2.h7).set_duration(1/3)`
stays inside the resolution note by note only after rounding, and lasts 70953/212860 -/
theorem set_duration_resolution_needed :
    ∃ (m : Melody) (d : Rat), DenM m ∧ Melody.duration m ≠ 0 ∧
      (Melody.setDuration m (.frac d)).map Melody.duration = .ok ((70953 : Rat) / 212860) ∧ d = (1 : Rat) / 3 :=
  ⟨[{ kind := .s, val := 0, oct := 0, dur := (1 : Rat) / 3 }, { kind := .s, val := 1, oct := 0, dur := (3 : Rat) / 16 },
    { kind := .s, val := 2, oct := 0, dur := (4 : Rat) / 7 }], (1 : Rat) / 3, by decide +kernel, by decide +kernel,
    by decide +kernel, rfl⟩

/-- `s0.augment(frac(11, 8)).decompose_duration()` = `s0 + l.s + l.t` (the docstring example) -/
example : (Note.decomposeDuration { kind := .s, val := 0, oct := 0, dur := (11 : Rat) / 8 }).map
    (fun l => l.map (fun n => (n.kind, n.dur))) = .ok [(.s, 1), (.l, (1 : Rat) / 4), (.l, (1 : Rat) / 8)] := by
  decide +kernel
/-- seven triplet eighths: a half note and a triplet eighth -/
example : (Note.decomposeDuration { kind := .c, val := 2, oct := -1, dur := (7 : Rat) / 3 }).map
    (fun l => l.map (fun n => (n.kind, n.dur))) = .ok [(.c, 2), (.l, (1 : Rat) / 3)] := by
  decide +kernel
/-- a chord with two parts of different lengths -/
example : Chord.duration { elem := 4, parts := [("piano__0", exMelody), ("violin__0", Melody.mul exMelody 2)] }
    = (167 : Rat) / 84 := by decide +kernel

/-- outside the property's domain (observation, not claimed): with a *float* length the ratio
`d / D` is itself rounded to the resolution before it is applied, so
`Melody([b.augment(frac(8, 3))]).set_duration(0.001953125)` lasts 1/375, not 1/512 -/
example : (Melody.setDuration [{ kind := .b, val := 0, oct := 0, dur := (8 : Rat) / 3 }]
    (.float ((1 : Rat) / 512))).map Melody.duration = .ok ((1 : Rat) / 375) := by decide +kernel

end MV.C10
