/-
C20 — equality is an equivalence and agrees with hashing.

Only property statements and their proofs from the lemmas of `MV.Lemmas.Equality`.  All
theorems quantify over every note / melody / tonality / chord / score of the data model
(any integers, any rational durations and amplitudes, any number of notes, parts, chords).

Model = the code of the repaired tree (D12 fix: `Note.__hash__` hashes the compared fields).
Where the code still violates the statement the full statement is a `def …_full : Prop`, with a
proved `…_partial` and a proved counter-example `…_fails`.
-/
import MV.Lemmas.Equality

namespace MV.C20
open MV MV.Eq Gen

set_option linter.constructorNameAsVariable false

/-! ## Notes -/

/-- `Note.__eq__` compares exactly type, value, duration, octave and mode -/
theorem note_eq_iff_fields (a b : Note) :
    noteEq a b = true ↔ a.kind = b.kind ∧ a.val = b.val ∧ a.dur = b.dur ∧ a.oct = b.oct ∧ a.mode = b.mode := by
  simp [noteEq, Note.pyEq, and_assoc]

/-- two notes are equal exactly when the tuples hashed by `Note.__hash__` are equal -/
theorem note_eq_iff_key (a b : Note) : noteEq a b = true ↔ noteKey a = noteKey b := by
  rw [note_eq_iff_fields]
  simp [noteKey, Prod.ext_iff]

theorem note_eq_refl (a : Note) : noteEq a a = true := (note_eq_iff_key a a).2 rfl

theorem note_eq_symm (a b : Note) (h : noteEq a b = true) : noteEq b a = true :=
  (note_eq_iff_key b a).2 ((note_eq_iff_key a b).1 h).symm

theorem note_eq_trans (a b c : Note) (h1 : noteEq a b = true) (h2 : noteEq b c = true) : noteEq a c = true :=
  (note_eq_iff_key a c).2 (((note_eq_iff_key a b).1 h1).trans ((note_eq_iff_key b c).1 h2))

/-- notes differing only in accidental, amplitude, tags, tempo or pedal are equal; a difference
in any compared field makes them unequal (`note_eq_iff_fields`) -/
theorem note_eq_ignores_uncompared (n : Note) (acc : Option Acc) (amp : Rat) (tags : List String)
    (tempo : Option Int) (pedal : Option Bool) :
    noteEq n { n with acc := acc, amp := amp, tags := tags, tempo := tempo, pedal := pedal } = true := by
  rw [note_eq_iff_fields]; simp

/-- **equal notes have equal hashes**, whatever the hash function of tuples is, and hashing a
note never raises -/
theorem note_eq_implies_same_hash {η : Type} (h : NoteKey → η) (a b : Note) (he : noteEq a b = true) :
    noteHash h a = noteHash h b ∧ ∃ k, noteHash h a = .ok k := by
  unfold noteHash
  rw [(note_eq_iff_key a b).1 he]
  exact ⟨rfl, _, rfl⟩

/-- a `Silence` object has type `r`, a `Continuation` object type `l` -/
def ClassMatches (cls : NoteClass) (n : Note) : Prop :=
  (cls = .silence → n.kind = .r) ∧ (cls = .continuation → n.kind = .l)

instance (cls : NoteClass) (n : Note) : Decidable (ClassMatches cls n) := by
  unfold ClassMatches; exact inferInstance

/-- full statement: a note equals its copy (any class, any iteration order of the copied tag
set, durations within the library's resolution) -/
def note_eq_copy_full : Prop :=
  ∀ (cls : NoteClass) (n : Note) (tags' : List String), ClassMatches cls n → n.dur.den ≤ LIMIT_DENOM →
    noteEq n (noteCopyWith tags' cls n) = true

/-- it holds for every `Note` object, and for `Silence` / `Continuation` objects that still have
the value 0, octave 0 and no mode they were built with -/
theorem note_eq_copy_partial (cls : NoteClass) (n : Note) (tags' : List String) (hc : ClassMatches cls n)
    (hd : n.dur.den ≤ LIMIT_DENOM) (hs : cls ≠ .note → n.val = 0 ∧ n.oct = 0 ∧ n.mode = none) :
    noteEq n (noteCopyWith tags' cls n) = true := by
  rw [note_eq_iff_fields]
  unfold noteCopyWith
  rw [limitDenominator_small _ _ hd]
  cases cls with
  | note => simp
  | silence =>
      obtain ⟨h1, h2, h3⟩ := hs (by simp)
      simp [hc.1 rfl, h1, h2, h3]
  | continuation =>
      obtain ⟨h1, h2, h3⟩ := hs (by simp)
      simp [hc.2 rfl, h1, h2, h3]

/-- `Silence.copy` / `Continuation.copy` rebuild the note from its duration: `r.oabs(1)` is not
equal to its copy -/
theorem note_eq_copy_fails : ¬ note_eq_copy_full := by
  intro h
  have := h .silence { kind := .r, val := 0, oct := 1 } [] (by decide) (by decide)
  revert this
  decide +kernel

/-! ## Melodies -/

/-- `Melody.__eq__` is equality of the printed form, which is also what is hashed -/
theorem melody_eq_iff_key (a b : Melody) : melodyEq a b = true ↔ melodyKey a = melodyKey b := by
  simp only [melodyEq, melodyKey, beq_iff_eq, Except.ok.injEq]
  exact eq_comm

theorem melody_eq_refl (a : Melody) : melodyEq a a = true := (melody_eq_iff_key a a).2 rfl

theorem melody_eq_symm (a b : Melody) (h : melodyEq a b = true) : melodyEq b a = true :=
  (melody_eq_iff_key b a).2 ((melody_eq_iff_key a b).1 h).symm

theorem melody_eq_trans (a b c : Melody) (h1 : melodyEq a b = true) (h2 : melodyEq b c = true) :
    melodyEq a c = true :=
  (melody_eq_iff_key a c).2 (((melody_eq_iff_key a b).1 h1).trans ((melody_eq_iff_key b c).1 h2))

/-- **equal melodies have equal hashes** (hash of the key), and hashing never raises -/
theorem melody_eq_implies_same_hash_key (a b : Melody) (he : melodyEq a b = true) :
    melodyKey a = melodyKey b ∧ ∃ k, melodyKey a = .ok k :=
  ⟨(melody_eq_iff_key a b).1 he, _, rfl⟩

def DursOK (m : Melody) : Prop := ∀ n ∈ m, n.dur.den ≤ LIMIT_DENOM

/-- full statement: a melody equals its copy, whatever order the copied tag sets iterate in -/
def melody_eq_copy_full : Prop :=
  ∀ (m : Melody) (orders : List (List String)), DursOK m →
    List.Forall₂ (fun (n : Note) t => t.Perm n.tags) m orders → melodyEq m (melodyCopyWith orders m) = true

/-- it holds when every copied tag set iterates like the original one -/
theorem melody_eq_copy_partial (m : Melody) (hd : DursOK m) : melodyEq m (melodyCopy m) = true := by
  unfold melodyEq
  rw [melodyCode_copy m hd]
  simp

/-- the printed form shows the tag set in iteration order, so a copy whose set iterates
differently is a different melody for `==` -/
theorem melody_eq_copy_fails : ¬ melody_eq_copy_full := by
  intro h
  have := h [{ kind := .s, val := 0, oct := 0, tags := ["mordant", "trill"] }] [["trill", "mordant"]]
    (by intro n hn; simp at hn; subst hn; decide)
    (List.Forall₂.cons (List.Perm.swap _ _ _) List.Forall₂.nil)
  revert this
  decide +kernel

/-! ## Tonalities -/

/-- tonalities are equal exactly when they name the same absolute degree and the same mode:
every enharmonic / octave re-spelling of a tonality is equal to it -/
theorem ton_eq_iff_abs (a b : Tonality) :
    tonEq a b = true ↔ a.absDegree = b.absDegree ∧ a.mode = b.mode := by
  simp only [tonEq, tonRawEq, tonAdd, Tonality.absDegree, Bool.and_eq_true, beq_iff_eq]
  constructor
  · rintro ⟨⟨h1, h2⟩, h3⟩
    exact ⟨by omega, h2⟩
  · rintro ⟨h1, h2⟩
    exact ⟨⟨by omega, h2⟩, by omega⟩

theorem ton_eq_refl (a : Tonality) : tonEq a a = true := (ton_eq_iff_abs a a).2 ⟨rfl, rfl⟩

theorem ton_eq_symm (a b : Tonality) (h : tonEq a b = true) : tonEq b a = true := by
  rw [ton_eq_iff_abs] at *; exact ⟨h.1.symm, h.2.symm⟩

theorem ton_eq_trans (a b c : Tonality) (h1 : tonEq a b = true) (h2 : tonEq b c = true) : tonEq a c = true := by
  rw [ton_eq_iff_abs] at *; exact ⟨h1.1.trans h2.1, h1.2.trans h2.2⟩

theorem ton_eq_copy (a : Tonality) : tonEq a (tonCopy a) = true := ton_eq_refl a

/-- `.s` raises the absolute degree by one semitone, `.b` lowers it by one, `.o(k)` moves it by
`12 k`; none changes the mode -/
theorem ton_spelling_steps (t : Tonality) (k : Int) :
    (tonSharp t).absDegree = t.absDegree + 1 ∧ (tonSharp t).mode = t.mode ∧
    (tonFlat t).absDegree = t.absDegree - 1 ∧ (tonFlat t).mode = t.mode ∧
    (tonO t k).absDegree = t.absDegree + 12 * k ∧ (tonO t k).mode = t.mode := by
  simp only [tonSharp, tonFlat, tonO, tonCopy, Tonality.absDegree]
  refine ⟨?_, ?_, ?_, ?_, ?_, trivial⟩
  · by_cases h : t.deg + 1 = 12 <;> simp only [h, if_true, if_false] <;> omega
  · by_cases h : t.deg + 1 = 12 <;> simp only [h, if_true, if_false]
  · by_cases h : t.deg - 1 = -1 <;> simp only [h, if_true, if_false] <;> omega
  · by_cases h : t.deg - 1 = -1 <;> simp only [h, if_true, if_false]
  · omega

/-- **enharmonic spellings are equal**: sharpening `t` gives the same tonality as flattening the
tonality two semitones above (`I.s == II.b`), and `VII.s == I.o(1)`; more generally
(`ton_eq_iff_abs`, `ton_spelling_steps`) any two chains of `.s` / `.b` / `.o` reaching the same
absolute degree are equal -/
theorem enharmonic_eq (t : Tonality) :
    tonEq (tonSharp t) (tonFlat (tonSharp (tonSharp t))) = true ∧
    tonEq (tonSharp (tonFlat t)) t = true ∧
    tonEq (tonSharp ⟨11, t.mode, t.oct⟩) (tonO ⟨0, t.mode, t.oct⟩ 1) = true := by
  have s1 := ton_spelling_steps t 0
  have s2 := ton_spelling_steps (tonSharp t) 0
  have s3 := ton_spelling_steps (tonSharp (tonSharp t)) 0
  have s4 := ton_spelling_steps (tonFlat t) 0
  have s5 := ton_spelling_steps ⟨11, t.mode, t.oct⟩ 0
  have s6 := ton_spelling_steps ⟨0, t.mode, t.oct⟩ 1
  refine ⟨?_, ?_, ?_⟩
  · rw [ton_eq_iff_abs]
    refine ⟨by omega, ?_⟩
    rw [s1.2.1, s3.2.2.2.1, s2.2.1, s1.2.1]
  · rw [ton_eq_iff_abs]
    refine ⟨by omega, ?_⟩
    rw [s4.2.1, s1.2.2.2.1]
  · rw [ton_eq_iff_abs]
    refine ⟨?_, ?_⟩
    · rw [s5.1, s6.2.2.2.2.1]; simp only [Tonality.absDegree]; omega
    · rw [s5.2.1, s6.2.2.2.2.2]

def DegOK (t : Tonality) : Prop := 0 ≤ t.deg ∧ t.deg < 12

instance (t : Tonality) : Decidable (DegOK t) := by unfold DegOK; exact inferInstance

theorem ton_key_ok (t : Tonality) (h : DegOK t) : ∃ k, tonKey t = .ok k := by
  obtain ⟨s, hs⟩ := degree_names t.deg h
  exact ⟨s ++ "." ++ t.mode.toStr ++ octCode t.oct, by simp [tonKey, tonCode, hs, bind, Except.bind, pure, Except.pure]⟩

/-- two equal tonalities with degrees in 0..11 are the same (degree, mode, octave) -/
theorem ton_eq_normal (a b : Tonality) (ha : DegOK a) (hb : DegOK b) (he : tonEq a b = true) : a = b := by
  rw [ton_eq_iff_abs] at he
  obtain ⟨da, ma, oa⟩ := a
  obtain ⟨db, mb, ob⟩ := b
  simp only [Tonality.absDegree, DegOK] at *
  obtain ⟨h1, h2⟩ := he
  subst h2
  have : da = db := by omega
  subst this
  have : oa = ob := by omega
  subst this
  rfl

/-- full statement: equal tonalities have equal hashes (the hash exists and is taken of the same key) -/
def ton_eq_implies_same_hash_key_full : Prop :=
  ∀ a b : Tonality, tonEq a b = true → ∃ k, tonKey a = .ok k ∧ tonKey b = .ok k

/-- it holds for degrees 0..11 (every tonality built by the library symbols, `.s`, `.b`, `+`) -/
theorem ton_eq_implies_same_hash_key_partial (a b : Tonality) (ha : DegOK a) (hb : DegOK b)
    (he : tonEq a b = true) : ∃ k, tonKey a = .ok k ∧ tonKey b = .ok k := by
  have := ton_eq_normal a b ha hb he
  subst this
  obtain ⟨k, hk⟩ := ton_key_ok a ha
  exact ⟨k, hk, hk⟩

/-- `Tonality(12, 'M') == Tonality(0, 'M', 1)` but `hash(Tonality(12, 'M'))` raises KeyError -/
theorem ton_eq_implies_same_hash_key_fails : ¬ ton_eq_implies_same_hash_key_full := by
  intro h
  obtain ⟨k, hk, _⟩ := h ⟨12, .M, 0⟩ ⟨0, .M, 1⟩ (by decide)
  have : tonKey ⟨12, .M, 0⟩ = .error .key := by decide
  rw [this] at hk
  cases hk

/-! ## Chords -/

/-- part names are the keys of a Python dict: pairwise distinct -/
def PartsOK (c : Chord) : Prop := (c.parts.map Prod.fst).Nodup

instance (c : Chord) : Decidable (PartsOK c) := by unfold PartsOK; exact inferInstance

/-- two chords are equal exactly when degree, normalised figure text and chord octave agree, the
tonalities are equal (up to spelling) and the parts are the same map name ↦ printed melody
(whatever the order of the parts) -/
theorem chord_eq_iff (a b : Chord) (ha : PartsOK a) (hb : PartsOK b) :
    chordEq a b = true ↔ a.elem = b.elem ∧ extText a = extText b ∧ tonEq a.ton b.ton = true ∧ a.oct = b.oct ∧
      ∀ k, (codes a).lookup k = (codes b).lookup k := by
  unfold chordEq chordEquals scoreEquals
  rw [dictEq_codes, Bool.and_eq_true, dictEqC_iff _ _ (by rw [codes_keys]; exact ha) (by rw [codes_keys]; exact hb)]
  simp [and_assoc]

theorem chord_eq_refl (a : Chord) (ha : PartsOK a) : chordEq a a = true :=
  (chord_eq_iff a a ha ha).2 ⟨rfl, rfl, ton_eq_refl _, rfl, fun _ => rfl⟩

theorem chord_eq_symm (a b : Chord) (ha : PartsOK a) (hb : PartsOK b) (h : chordEq a b = true) :
    chordEq b a = true := by
  rw [chord_eq_iff a b ha hb] at h
  rw [chord_eq_iff b a hb ha]
  exact ⟨h.1.symm, h.2.1.symm, ton_eq_symm _ _ h.2.2.1, h.2.2.2.1.symm, fun k => (h.2.2.2.2 k).symm⟩

theorem chord_eq_trans (a b c : Chord) (ha : PartsOK a) (hb : PartsOK b) (hc : PartsOK c)
    (h1 : chordEq a b = true) (h2 : chordEq b c = true) : chordEq a c = true := by
  rw [chord_eq_iff a b ha hb] at h1
  rw [chord_eq_iff b c hb hc] at h2
  rw [chord_eq_iff a c ha hc]
  exact ⟨h1.1.trans h2.1, h1.2.1.trans h2.2.1, ton_eq_trans _ _ _ h1.2.2.1 h2.2.2.1, h1.2.2.2.1.trans h2.2.2.2.1,
    fun k => (h1.2.2.2.2 k).trans (h2.2.2.2.2 k)⟩

def ChordDursOK (c : Chord) : Prop := ∀ p ∈ c.parts, DursOK p.2

/-- **a chord equals its copy** when the copied tag sets keep their iteration order (`chordCopy`
copies the melodies with `melodyCopy`); with a re-ordered tag set the full statement fails already
for one melody (`melody_eq_copy_full`, `melody_eq_copy_fails`), and chords compare their parts
with `Melody.__eq__` -/
theorem chord_eq_copy_partial (c : Chord) (hp : PartsOK c) (hd : ChordDursOK c) : chordEq c (chordCopy c) = true := by
  rw [chord_eq_iff c _ hp (partsOK_copy c hp), codes_copy c hd]
  refine ⟨rfl, ?_, ton_eq_refl _, rfl, fun _ => rfl⟩
  simp [extText, chordCopy, normalize_idem]

def ElemOK (c : Chord) : Prop := 0 ≤ c.elem ∧ c.elem < 7

instance (c : Chord) : Decidable (ElemOK c) := by unfold ElemOK; exact inferInstance

/-- full statement: equal chords have equal hashes -/
def chord_eq_implies_same_hash_key_full : Prop :=
  ∀ a b : Chord, PartsOK a → PartsOK b → ElemOK a → chordEq a b = true →
    ∃ k, chordKey a = .ok k ∧ chordKey b = .ok k

/-- it holds when the two chords name their parts in the same order and the degrees of chord
and tonality are in range -/
theorem chord_eq_implies_same_hash_key_partial (a b : Chord) (ha : PartsOK a) (hb : PartsOK b)
    (hord : a.parts.map Prod.fst = b.parts.map Prod.fst) (hea : ElemOK a) (hta : DegOK a.ton) (htb : DegOK b.ton)
    (he : chordEq a b = true) : ∃ k, chordKey a = .ok k ∧ chordKey b = .ok k := by
  rw [chord_eq_iff a b ha hb] at he
  obtain ⟨h1, h2, h3, h4, h5⟩ := he
  have hton := ton_eq_normal _ _ hta htb h3
  have hcodes : codes a = codes b :=
    eq_of_lookup_eq _ _ (by rw [codes_keys]; exact ha) (by rw [codes_keys, codes_keys]; exact hord) h5
  have hr := chordRepr_of_codes a b h1 h2 hton h4 hcodes
  obtain ⟨e, he⟩ := element_names a.elem hea
  obtain ⟨t, ht⟩ := ton_key_ok a.ton hta
  have hk : ∃ k, chordKey a = .ok k :=
    ⟨"(" ++ e ++ extCode a ++ " % " ++ t ++ ")" ++ octCode a.oct ++ "(" ++ partsCode a.parts ++ ")", by
      simp only [tonKey] at ht
      simp [chordKey, chordRepr, chordCode, he, ht, bind, Except.bind, pure, Except.pure]⟩
  obtain ⟨k, hk⟩ := hk
  exact ⟨k, hk, by unfold chordKey at *; rw [← hr]; exact hk⟩

/-- `(I % I.M)(piano__0=s0, violin__0=s1) == (I % I.M)(violin__0=s1, piano__0=s0)` but the printed
forms (hence the hashes) differ -/
theorem chord_eq_implies_same_hash_key_fails : ¬ chord_eq_implies_same_hash_key_full := by
  intro h
  let s0 : Note := { kind := .s, val := 0, oct := 0 }
  let s1 : Note := { kind := .s, val := 1, oct := 0 }
  let a : Chord := { elem := 0, parts := [("piano__0", [s0]), ("violin__0", [s1])] }
  let b : Chord := { elem := 0, parts := [("violin__0", [s1]), ("piano__0", [s0])] }
  obtain ⟨k, hka, hkb⟩ := h a b (by decide) (by decide) (by decide) (by decide +kernel)
  have : chordKey a ≠ chordKey b := by decide +kernel
  exact this (hka.trans hkb.symm)

/-! ## Scores -/

def ScoreOK (s : Score) : Prop := ∀ c ∈ s, PartsOK c

theorem score_eq_iff (a b : Score) : scoreEq a b = true ↔ a.length = b.length ∧ allZip chordEq a b = true := by
  unfold scoreEq allZip
  by_cases h : a.length = b.length
  · simp [h]
  · have : ¬ b.length = a.length := fun e => h e.symm
    simp [h, this]

theorem score_eq_refl (a : Score) (ha : ScoreOK a) : scoreEq a a = true :=
  (score_eq_iff a a).2 ⟨rfl, allZip_refl _ a (fun c hc => chord_eq_refl c (ha c hc))⟩

theorem score_eq_symm (a b : Score) (ha : ScoreOK a) (hb : ScoreOK b) (h : scoreEq a b = true) :
    scoreEq b a = true := by
  rw [score_eq_iff] at *
  exact ⟨h.1.symm, allZip_symm chordEq PartsOK chord_eq_symm a b ha hb h.2⟩

theorem score_eq_trans (a b c : Score) (ha : ScoreOK a) (hb : ScoreOK b) (hc : ScoreOK c)
    (h1 : scoreEq a b = true) (h2 : scoreEq b c = true) : scoreEq a c = true := by
  rw [score_eq_iff] at *
  exact ⟨h1.1.trans h2.1, allZip_trans chordEq PartsOK chord_eq_trans a b c ha hb hc h1.1 h1.2 h2.2⟩

/-- **a score equals its copy**, under the same proviso as `chord_eq_copy_partial` -/
theorem score_eq_copy_partial (s : Score) (hs : ScoreOK s) (hd : ∀ c ∈ s, ChordDursOK c) : scoreEq s (scoreCopy s) = true := by
  rw [score_eq_iff]
  refine ⟨by simp [scoreCopy], ?_⟩
  unfold scoreCopy allZip
  induction s with
  | nil => rfl
  | cons c cs ih =>
      simp only [List.map_cons, List.zip_cons_cons, List.all_cons, Bool.and_eq_true]
      exact ⟨chord_eq_copy_partial c (hs c (by simp)) (hd c (by simp)),
        ih (fun x hx => hs x (by simp [hx])) (fun x hx => hd x (by simp [hx]))⟩

/-- full statement for scores: an equal pair has equal hashes -/
def score_eq_implies_same_hash_key_full : Prop :=
  ∀ a b : Score, scoreEq a b = true → ∃ k, scoreKey a = .ok k ∧ scoreKey b = .ok k

/-- `Score` defines `__eq__` and no `__hash__`: `hash(score)` raises TypeError for every score, so
a score can never be a set member or a dictionary key -/
theorem score_unhashable (s : Score) : scoreKey s = .error .type := rfl

theorem score_eq_implies_same_hash_key_fails : ¬ score_eq_implies_same_hash_key_full := by
  intro h
  obtain ⟨k, hk, _⟩ := h [] [] (by decide)
  cases hk

/-! ## Set membership and the masks -/

/-- **equal notes are interchangeable as probes of a set / keys of a dict lookup**: looking up
`a` or an equal `b` in any set of notes gives the same answer (for every hash function of tuples) -/
theorem note_set_member_congr {η : Type} [DecidableEq η] (h : NoteKey → η) (a b : Note) (S : List Note)
    (he : noteEq a b = true) : pyIn (noteHash h) noteEq a S = pyIn (noteHash h) noteEq b S := by
  have hh : ∀ x y : Note, noteEq x y = true → noteHash h x = noteHash h y :=
    fun x y e => (note_eq_implies_same_hash h x y e).1
  rw [pyIn_eq_any (noteHash h) noteEq a S _ rfl (fun y _ e => hh y a e),
      pyIn_eq_any (noteHash h) noteEq b S _ rfl (fun y _ e => hh y b e)]
  congr 1
  apply List.any_congr rfl
  intro y
  rw [Bool.eq_iff_iff]
  exact ⟨fun e => note_eq_trans y a b e he, fun e => note_eq_trans y b a e (note_eq_symm a b he)⟩

/-- the same for melodies (hash of the printed form, any hash function of strings) -/
theorem melody_set_member_congr {η : Type} [DecidableEq η] (h : String → η) (a b : Melody) (S : List Melody)
    (he : melodyEq a b = true) :
    pyIn (hashVia h melodyKey) melodyEq a S = pyIn (hashVia h melodyKey) melodyEq b S := by
  have hh : ∀ x y : Melody, melodyEq x y = true → hashVia h melodyKey x = hashVia h melodyKey y := by
    intro x y e
    simp [hashVia, (melody_eq_iff_key x y).1 e]
  rw [pyIn_eq_any (hashVia h melodyKey) melodyEq a S (h (melodyCode a)) rfl (fun y _ e => hh y a e),
      pyIn_eq_any (hashVia h melodyKey) melodyEq b S (h (melodyCode b)) rfl (fun y _ e => hh y b e)]
  congr 1
  apply List.any_congr rfl
  intro y
  rw [Bool.eq_iff_iff]
  exact ⟨fun e => melody_eq_trans y a b e he, fun e => melody_eq_trans y b a e (melody_eq_symm a b he)⟩

/-- what `NoteInMask` does to the listed notes and to the probed note before comparing -/
def noteNorm (ignOct ignRhy : Bool) (x : Note) : Note :=
  let x1 := if ignOct then noteO (classOf x) x (-x.oct) else x
  if ignRhy then noteSetDuration (classOf x1) x1 1 else x1

theorem noteNorm_key_congr (io ir : Bool) (a b : Note) (h : noteKey a = noteKey b) :
    noteKey (noteNorm io ir a) = noteKey (noteNorm io ir b) := by
  obtain ⟨k, v, o, d, m, ac, am, tg, te, pe⟩ := a
  obtain ⟨k', v', o', d', m', ac', am', tg', te', pe'⟩ := b
  simp only [noteKey, Prod.mk.injEq] at h
  obtain ⟨rfl, rfl, rfl, rfl, rfl⟩ := h
  cases io <;> cases ir <;> cases k <;> rfl

/-- **`NoteIn` selects a note iff it equals one of the listed notes** (after the mask's own
octave / rhythm normalisation), for every hash function of tuples: equal notes are
interchangeable as set members -/
theorem note_in_mask_iff_exists_eq {η : Type} [DecidableEq η] (h : NoteKey → η) (notes : List Note)
    (io ir : Bool) (n : Note) :
    noteInMask h notes io ir n
      = .ok (notes.any (fun m => noteEq (noteNorm io ir m) (noteNorm io ir n))) := by
  have hok : ∀ a : Note, True → ∃ k, noteHash h a = .ok k := fun a _ => ⟨_, rfl⟩
  have hh : ∀ a b : Note, True → True → noteEq a b = true → noteHash h a = noteHash h b :=
    fun a b _ _ he => (note_eq_implies_same_hash h a b he).1
  have hq : ∀ a b : Note, True → True → noteEq a b = true →
      noteEq (noteNorm io ir a) (noteNorm io ir n) = noteEq (noteNorm io ir b) (noteNorm io ir n) := by
    intro a b _ _ he
    have hk := noteNorm_key_congr io ir a b ((note_eq_iff_key a b).1 he)
    rw [Bool.eq_iff_iff, note_eq_iff_key, note_eq_iff_key, hk]
  obtain ⟨S, hS, _, hSq⟩ := pySetOf_any (noteHash h) noteEq (fun _ => True) hok hh
    (fun y => noteEq (noteNorm io ir y) (noteNorm io ir n)) hq notes [] (fun _ _ => trivial) (fun _ _ => trivial)
  simp only [List.nil_append] at hSq
  unfold noteInMask
  simp only [hS, bind, Except.bind, pure, Except.pure]
  rw [← hSq]
  cases io <;> cases ir <;>
    simp only [Bool.false_eq_true, if_false, if_true, Bool.or_self, Bool.or_true, Bool.or_false,
      pyInList, List.any_map, List.map_map, Function.comp_def, noteNorm]
  -- no flag: a real set lookup
  rw [pyIn_eq_any (noteHash h) noteEq n S _ rfl (fun y _ he => hh y n trivial trivial he)]

/-- the same for sets of tonalities with degrees 0..11 (`TonalityIn`, `ignore_octave=False`) -/
theorem tonality_in_mask_partial {η : Type} [DecidableEq η] (h : String → η) (tons : List Tonality) (t : Tonality)
    (htons : ∀ x ∈ tons, DegOK x) (ht : DegOK t) :
    tonalityInMask h tons false t = .ok (tons.any (fun m => tonEq m t)) := by
  have hok : ∀ a : Tonality, DegOK a → ∃ k, hashVia h tonKey a = .ok k := by
    intro a ha
    obtain ⟨k, hk⟩ := ton_key_ok a ha
    exact ⟨h k, by simp [hashVia, hk, bind, Except.bind, pure, Except.pure]⟩
  have hh : ∀ a b : Tonality, DegOK a → DegOK b → tonEq a b = true → hashVia h tonKey a = hashVia h tonKey b := by
    intro a b ha hb he
    rw [ton_eq_normal a b ha hb he]
  have hq : ∀ a b : Tonality, DegOK a → DegOK b → tonEq a b = true → tonEq a t = tonEq b t := by
    intro a b ha hb he
    rw [ton_eq_normal a b ha hb he]
  obtain ⟨S, hS, hSP, hSq⟩ := pySetOf_any (hashVia h tonKey) tonEq DegOK hok hh (fun y => tonEq y t) hq tons []
    htons (fun _ hy => by simp at hy)
  simp only [List.nil_append] at hSq
  obtain ⟨kt, hkt⟩ := hok t ht
  unfold tonalityInMask
  simp only [hS, bind, Except.bind, Bool.false_eq_true, if_false]
  rw [pyIn_eq_any (hashVia h tonKey) tonEq t S kt hkt (fun y hy he => hh y t (hSP y hy) ht he), hSq]

/-- full statement for `ChordIn`: a chord is selected iff it equals a listed chord -/
def chord_in_mask_full : Prop :=
  ∀ (chords : List Chord) (c : Chord), (∀ x ∈ chords, PartsOK x ∧ ElemOK x ∧ DegOK x.ton) →
    PartsOK c ∧ ElemOK c ∧ DegOK c.ton →
    chordInMask (fun s : String => s) chords false c = .ok (chords.any (fun m => chordEq m c))

/-- the listed chords and the probed one share the list `ks` of part names, in that order -/
def ChordDom (ks : List String) (c : Chord) : Prop :=
  c.parts.map Prod.fst = ks ∧ ks.Nodup ∧ ElemOK c ∧ DegOK c.ton

/-- it holds when all chords involved name their parts in the same order -/
theorem chord_in_mask_partial {η : Type} [DecidableEq η] (h : String → η) (ks : List String) (chords : List Chord)
    (c : Chord) (hch : ∀ x ∈ chords, ChordDom ks x) (hc : ChordDom ks c) :
    chordInMask h chords false c = .ok (chords.any (fun m => chordEq m c)) := by
  have hP : ∀ a : Chord, ChordDom ks a → PartsOK a := fun a ha => by unfold PartsOK; rw [ha.1]; exact ha.2.1
  have hkey : ∀ a b : Chord, ChordDom ks a → ChordDom ks b → chordEq a b = true →
      ∃ k, chordKey a = .ok k ∧ chordKey b = .ok k := fun a b ha hb he =>
    chord_eq_implies_same_hash_key_partial a b (hP a ha) (hP b hb) (by rw [ha.1, hb.1]) ha.2.2.1 ha.2.2.2 hb.2.2.2 he
  have hok : ∀ a : Chord, ChordDom ks a → ∃ k, hashVia h chordKey a = .ok k := by
    intro a ha
    obtain ⟨k, hk, _⟩ := hkey a a ha ha (chord_eq_refl a (hP a ha))
    exact ⟨h k, by simp [hashVia, hk, bind, Except.bind, pure, Except.pure]⟩
  have hh : ∀ a b : Chord, ChordDom ks a → ChordDom ks b → chordEq a b = true →
      hashVia h chordKey a = hashVia h chordKey b := by
    intro a b ha hb he
    obtain ⟨k, hka, hkb⟩ := hkey a b ha hb he
    simp [hashVia, hka, hkb]
  have hq : ∀ a b : Chord, ChordDom ks a → ChordDom ks b → chordEq a b = true → chordEq a c = chordEq b c := by
    intro a b ha hb he
    rw [Bool.eq_iff_iff]
    constructor
    · intro h1
      exact chord_eq_trans b a c (hP b hb) (hP a ha) (hP c hc) (chord_eq_symm a b (hP a ha) (hP b hb) he) h1
    · intro h1
      exact chord_eq_trans a b c (hP a ha) (hP b hb) (hP c hc) he h1
  obtain ⟨S, hS, hSP, hSq⟩ := pySetOf_any (hashVia h chordKey) chordEq (ChordDom ks) hok hh (fun y => chordEq y c) hq
    chords [] hch (fun _ hy => by simp at hy)
  simp only [List.nil_append] at hSq
  obtain ⟨kc, hkc⟩ := hok c hc
  unfold chordInMask
  simp only [hS, bind, Except.bind, Bool.false_eq_true, if_false]
  rw [pyIn_eq_any (hashVia h chordKey) chordEq c S kc hkc (fun y hy he => hh y c (hSP y hy) hc he), hSq]

/-- `ChordIn([a])(b)` is False for two equal chords whose parts are listed in a different order -/
theorem chord_in_mask_fails : ¬ chord_in_mask_full := by
  intro h
  let s0 : Note := { kind := .s, val := 0, oct := 0 }
  let s1 : Note := { kind := .s, val := 1, oct := 0 }
  let a : Chord := { elem := 0, parts := [("piano__0", [s0]), ("violin__0", [s1])] }
  let b : Chord := { elem := 0, parts := [("violin__0", [s1]), ("piano__0", [s0])] }
  have := h [a] b (by intro x hx; simp at hx; subst hx; decide) (by decide)
  revert this
  decide +kernel

/-! ## Generated tables -/

/-- the exact-rational cascade of the model prints, for every integer amplitude 0..127, the
dynamic figure the live (floating point) code prints -/
theorem amp_figure_int_table : ∀ r ∈ AMP_FIGURE_INT, ampFigure r.1 = r.2 := by
  decide +kernel

/-- the eight dynamics set pairwise different amplitudes (so the lookup of `ampFigure` in
`DYNAMICS` returns the row of the dynamic), none of them an integer in 0..127 unless the cascade
agrees on it -/
theorem dynamics_table_consistent :
    (DYNAMICS.map (fun r => r.2.1)).Nodup ∧ ∀ r ∈ DYNAMICS, ampFigure r.2.1 = r.2.2 := by
  decide +kernel

/-! ## Non-vacuity: concrete instances, evaluated by the kernel -/

-- s0.f == s0 (amplitude ignored), same key
example : noteEq { kind := .s, val := 0, oct := 0 } { kind := .s, val := 0, oct := 0, amp := 96, acc := some .min, tags := ["accent"] } = true
    ∧ noteKey { kind := .s, val := 0, oct := 0 } = noteKey { kind := .s, val := 0, oct := 0, amp := 96 } := by decide
-- I.s == II.b ; VII.s == I.o(1)
example : tonEq (tonSharp ⟨0, .M, 0⟩) (tonFlat ⟨2, .M, 0⟩) = true ∧ tonEq (tonSharp ⟨11, .m, 0⟩) (tonO ⟨0, .m, 0⟩ 1) = true := by
  decide
-- a chord with two distinct parts satisfies PartsOK, and equals its re-ordered, re-spelled twin
example : PartsOK { elem := 4, ext := { fig := .f7 }, ton := { deg := 2, mode := Mode.m, oct := 0 }, parts := [("piano__0", [{ kind := .s, val := 0, oct := 0 }]), ("violin__0", [{ kind := .h, val := 3, oct := 1 }])] } := by
  decide
example : chordEq
    { elem := 0, parts := [("piano__0", [{ kind := .s, val := 0, oct := 0 }]), ("violin__0", [{ kind := .s, val := 1, oct := 0 }])] }
    { elem := 0, ton := { deg := 12, mode := Mode.M, oct := -1 }, parts := [("violin__0", [{ kind := .s, val := 1, oct := 0 }]), ("piano__0", [{ kind := .s, val := 0, oct := 0 }])] } = true := by
  decide +kernel
example : DursOK [{ kind := .s, val := 0, oct := 0, dur := 7/9 }, { kind := .r, val := 0, oct := 0, dur := 1/3 }] := by
  intro n hn; simp at hn; rcases hn with rfl | rfl <;> decide +kernel
-- two chords naming their parts in the same order meet the domain of `chord_in_mask_partial`
example : ChordDom ["piano__0", "violin__0"]
    { elem := 0, parts := [("piano__0", [{ kind := .s, val := 0, oct := 0 }]), ("violin__0", [{ kind := .s, val := 1, oct := 0 }])] } := by
  unfold ChordDom; decide
example : ClassMatches .silence { kind := .r, val := 0, oct := 1 } ∧ DegOK ⟨11, .M, -2⟩ := by decide
-- the D12 witness on the repaired code: `s0.f in {s0}` through NoteIn
example : noteInMask (fun k => k) [{ kind := .s, val := 0, oct := 0 }] false false { kind := .s, val := 0, oct := 0, amp := 96 }
    = .ok true := by decide +kernel

end MV.C20
