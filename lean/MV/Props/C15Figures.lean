/-
C15, second half — diatonic figures and their inversions resolve to the chord with the pitch
classes and bass that the standard reading of the figure in the stated key gives.

The standard reading is computed here from the scale alone (stacked thirds, the figure name
derived from the chord quality); the parser's reading goes through `analyze_one_chord`, the three
generated tables and the chord model of C01/C02.  7 degrees x (3 + 4) inversions x 12 keys x
2 modes are checked by kernel evaluation against the generated tables; `diatonic_figures`
extends the result to every integer key through the key-offset theorem.
-/
import MV.Lemmas.Roman

namespace MV.C15
open MV MV.Roman Gen

/-! ### diatonic figures: the standard reading, computed from the scale alone -/

def majorScale : List Int := [0, 2, 4, 5, 7, 9, 11]
def harmonicMinor : List Int := [0, 2, 3, 5, 7, 8, 11]

/-- the scale a key's mode word denotes (`minor` = harmonic minor) -/
def scaleOf : KMode → List Int
  | .major | .M => majorScale
  | .minor | .m => harmonicMinor

/-- intervals above the root of the chord of `n` stacked thirds on degree `deg` -/
def stacked (scale : List Int) (deg n : Nat) : List Int :=
  (List.range n).map (fun i => (scale.getD ((deg + 2 * i) % 7) 0 - scale.getD deg 0) % 12)

def numerals : List String := ["I", "II", "III", "IV", "V", "VI", "VII"]

/-- the standard name of the diatonic chord on `deg`: upper case for a major third, `o` for a
diminished triad, `+` for an augmented one, `ø` for a diminished triad under a minor seventh -/
def figureName (scale : List Int) (deg : Nat) (seventh : Bool) (figs : String) : Str :=
  let tri := stacked scale deg 3
  let sev := stacked scale deg 4
  let num := (numerals.getD deg "").toList
  let num := if tri.getD 1 0 = 4 then num else lower num
  let suffix := if tri.drop 1 = [3, 6] then (if seventh ∧ sev.getD 3 0 = 10 then "ø" else "o")
                else if tri.drop 1 = [4, 8] then "+" else ""
  num ++ suffix.toList ++ figs.toList

def triadFigs : List String := ["", "6", "64"]
def seventhFigs : List String := ["7", "65", "43", "2"]

/-- what the parser makes of a figure: sorted pitch classes and the pitch class of the bass -/
def reading (figure : Str) (key : Int) (mode : KMode) : Option (List Int × Int) :=
  match chordOfFigure figure key mode with
  | .error _ => none
  | .ok c =>
      match c.extensionPitches with
      | .ok (b :: ps) => some (sortedDedup ((b :: ps).map (· % 12)), b % 12)
      | _ => none

/-- the standard reading: the stacked thirds on the degree of the key's scale, the `inv`-th chord
tone in the bass -/
def standard (scale : List Int) (key : Int) (deg n inv : Nat) : List Int × Int :=
  let root := (key + scale.getD deg 0) % 12
  let iv := stacked scale deg n
  (sortedDedup (iv.map (fun i => (root + i) % 12)), (root + iv.getD inv 0) % 12)

def diatonicOK (mode : KMode) (key : Int) (deg : Nat) : Bool :=
  (List.range 3).all (fun inv =>
    reading (figureName (scaleOf mode) deg false (triadFigs.getD inv "")) key mode
      == some (standard (scaleOf mode) key deg 3 inv))
  && (List.range 4).all (fun inv =>
    reading (figureName (scaleOf mode) deg true (seventhFigs.getD inv "")) key mode
      == some (standard (scaleOf mode) key deg 4 inv))

example : figureName harmonicMinor 1 true "65" = "iiø65".toList := by decide +kernel
example : figureName harmonicMinor 2 false "6" = "III+6".toList := by decide +kernel
example : figureName majorScale 6 true "7" = "viiø7".toList := by decide +kernel
example : figureName harmonicMinor 6 true "7" = "viio7".toList := by decide +kernel


def keys12 : List Int := [0, 1, 2, 3, 4, 5, 6, 7, 8, 9, 10, 11]

/-! natural minor: the figures of a minor key that do not exist in harmonic minor — upper-case `III`
and `VII` (subtonic) with all inversions and sevenths, and the minor dominant triad `v`.
(`i7` / `v7` are read by the library with the harmonic-minor leading tone and are left out, see DESIGN.) -/

def naturalMinor : List Int := [0, 2, 3, 5, 7, 8, 10]

def naturalOK (key : Int) (deg : Nat) (sevenths : Bool) : Bool :=
  (List.range 3).all (fun inv =>
    reading (figureName naturalMinor deg false (triadFigs.getD inv "")) key .minor
      == some (standard naturalMinor key deg 3 inv))
  && (!sevenths || (List.range 4).all (fun inv =>
    reading (figureName naturalMinor deg true (seventhFigs.getD inv "")) key .minor
      == some (standard naturalMinor key deg 4 inv)))

example : figureName naturalMinor 6 true "2" = "VII2".toList := by decide +kernel
example : figureName naturalMinor 4 false "6" = "v6".toList := by decide +kernel

/-- `III`, `VII` (triads and sevenths, all inversions) and `v` (triads) in the 12 minor keys read as the
stacked thirds of NATURAL minor [kernel evaluation over the generated tables] -/
theorem diatonic_natural_minor_12 : ∀ key ∈ keys12,
    naturalOK key 2 true = true ∧ naturalOK key 6 true = true ∧ naturalOK key 4 false = true := by
  decide +kernel

/-- all 7 degrees x 7 figures x 12 keys in major [kernel evaluation over the finite table] -/
theorem diatonic_major_12 : ∀ key ∈ keys12, ∀ deg ∈ List.range 7, diatonicOK .major key deg = true := by
  decide +kernel

/-- all 7 degrees x 7 figures x 12 keys in (harmonic) minor -/
theorem diatonic_minor_12 : ∀ key ∈ keys12, ∀ deg ∈ List.range 7, diatonicOK .minor key deg = true := by
  decide +kernel

theorem reading_key_mod (figure : Str) (key : Int) (mode : KMode) :
    reading figure key mode = reading figure (key % 12) mode := by
  unfold reading; rw [chordOfFigure_key_mod]

theorem standard_key_mod (scale : List Int) (key : Int) (deg n inv : Nat) :
    standard scale key deg n inv = standard scale (key % 12) deg n inv := by
  unfold standard
  have h : (key % 12 + scale.getD deg 0) % 12 = (key + scale.getD deg 0) % 12 := by omega
  simp only [h]

theorem diatonicOK_key_mod (mode : KMode) (key : Int) (deg : Nat) :
    diatonicOK mode key deg = diatonicOK mode (key % 12) deg := by
  unfold diatonicOK
  simp only [reading_key_mod _ key, standard_key_mod _ key]

/-- **diatonic figures**: in every key (any integer tonic, read mod 12), major or minor, every
diatonic triad in its three positions and every diatonic seventh chord in its four positions is
read as the stacked thirds of the key's scale with the right chord tone in the bass -/
theorem diatonic_figures (mode : KMode) (hm : mode = .major ∨ mode = .minor) (key : Int) (deg : Nat) (hd : deg < 7) :
    diatonicOK mode key deg = true := by
  rw [diatonicOK_key_mod]
  have hk : key % 12 ∈ keys12 := by
    have h1 : 0 ≤ key % 12 := Int.emod_nonneg _ (by omega)
    have h2 : key % 12 < 12 := Int.emod_lt_of_pos _ (by omega)
    simp only [keys12, List.mem_cons, List.mem_nil_iff, or_false]
    omega
  have hdeg : deg ∈ List.range 7 := List.mem_range.mpr hd
  rcases hm with h | h
  · subst h; exact diatonic_major_12 _ hk _ hdeg
  · subst h; exact diatonic_minor_12 _ hk _ hdeg

/-- the names the rule derives are the textbook ones (so the table above is not vacuous) -/
theorem diatonic_names :
    (List.range 7).map (fun d => String.ofList (figureName majorScale d false "")) = ["I", "ii", "iii", "IV", "V", "vi", "viio"] ∧
    (List.range 7).map (fun d => String.ofList (figureName majorScale d true "7")) = ["I7", "ii7", "iii7", "IV7", "V7", "vi7", "viiø7"] ∧
    (List.range 7).map (fun d => String.ofList (figureName harmonicMinor d false "")) = ["i", "iio", "III+", "iv", "V", "VI", "viio"] ∧
    (List.range 7).map (fun d => String.ofList (figureName harmonicMinor d true "7")) = ["i7", "iiø7", "III+7", "iv7", "V7", "VI7", "viio7"] := by
  decide +kernel

/-- and they sound as expected: e.g. `V65` in c minor is B D F G over B, `iiø43` in a minor is
F A B D over F -/
example : reading "V65".toList 0 .minor = some ([2, 5, 7, 11], 11) := by decide +kernel
example : reading "iiø43".toList 9 .minor = some ([2, 5, 9, 11], 5) := by decide +kernel

/-- **the stated key is only an offset**: analysing a figure (any text, applied `/x/y` parts
included) in key `k` gives what analysing it in C gives, with `k` added to the resulting key
(mod 12); errors are the same -/
theorem analysis_key_offset (figure : Str) (key : Int) (mode : KMode) :
    analyzeOneChord figure key mode
      = (analyzeOneChord figure 0 mode).map (fun r => (r.1, r.2.1, (key + r.2.2.1) % 12, r.2.2.2)) :=
  analyzeOneChord_key figure key mode

end MV.C15
