/-
C06 — objects are immutable: no operation changes its operands or earlier results.

The object of study is the source text of the library, abstracted by `harness/translate_C06.py` into the
effect programs of `MV/Gen/Effects.lean` (one `FnDef` per Python function; IR, semantics and checker in
`MV/Model/Effects.lean`, soundness lemmas in `MV/Lemmas/Effects.lean`).

General theorems (every table function, every heap, every oracle = every branch / loop count / unknown value,
every recursion budget):
  `frame`                 an accepted table: a call of a function that declares no written parameter changes no
                          location allocated before the call
  `frame_writer`          a function that declares written parameters changes at most a closed region
                          containing the arguments passed there (this is what "explicitly in-place" means)
  `run_preserves`, `history_preserves`
                          along any finite sequence of such calls over a growing pool (results fed back as
                          operands), every location allocated at step i has the same value at every later step
Theorems about the generated table of the current code (`decide` over the generated data):
  `current_table_accepted`   every definition is consistent with its declared summary (writes / clobbers / result)
  `public_operations_pure`   every function except the named ones (explicitly in-place forms, constructors, listed
                             internal routines, known defects) declares no written parameter
  `known_defects_rejected`   each known defect is really rejected by the checker (the list is not padded)
  `immutability_full_fails`  so the full statement fails on the current tree while defects are listed
  `history_preserves_current` the history theorem instantiated with the current table
-/
import MV.Lemmas.Effects
import MV.Gen.Effects
import MV.Gen.EffectsCheck00
import MV.Gen.EffectsCheck01
import MV.Gen.EffectsCheck02
import MV.Gen.EffectsCheck03
import MV.Gen.EffectsCheck04
import MV.Gen.EffectsCheck05
import MV.Gen.EffectsCheck06
import MV.Gen.EffectsCheck07
import MV.Gen.EffectsCheck08
import MV.Gen.EffectsCheck09
import MV.Gen.EffectsCheck10
import MV.Gen.EffectsCheck11
import MV.Gen.EffectsCheck12
import MV.Gen.EffectsCheck13
import MV.Gen.EffectsCheck14
import MV.Gen.EffectsCheck15

namespace MV.C06
open MV.Effects MV.Gen.Effects

/-! ### general theorems -/

/-- **Frame.**  See `MV.Effects.call_frame`. -/
theorem frame {tbl : Table} (hok : TableOK tbl) (fuel : Nat) (fn : FnId) (hpure : pureEntry tbl fn = true)
    (args : List Val) (h : Heap) (o : List Nat) :
    h.next ≤ (callFn tbl fuel fn args h o).2.1.next ∧
    ∀ r f, r < h.next → (callFn tbl fuel fn args h o).2.1.cell r f = h.cell r f :=
  call_frame hok fuel fn hpure args h o

/-- **Frame of a writer** (in-place forms, internal routines): only a closed region `P` containing the
arguments at the written positions, and new locations, can change. -/
theorem frame_writer {tbl : Table} (hok : TableOK tbl) (fuel : Nat) (fn : FnId) (d : FnDef)
    (ht : tbl fn = some d) (args : List Val) (h : Heap) (o : List Nat) (P : Loc → Prop) (hP : ClosedIn h P)
    (hargs : ∀ i, i ∈ d.writes → 0 < i → i ≤ args.length → ∀ l, args.getD (i - 1) .prim = .ref l → P l) :
    ∀ r f, r < h.next → ¬ P r → (callFn tbl fuel fn args h o).2.1.cell r f = h.cell r f :=
  call_frame_writer hok fuel fn d ht args h o P hP hargs

/-- a pool of values (the initial pool, the library singletons and every earlier result), the heap, and
the oracle that resolves every choice of the abstract semantics -/
structure Pool where
  vals : List Val
  heap : Heap
  orc : List Nat

/-- one operation of a history: a function of the table applied to pool entries -/
structure Op where
  fn : FnId
  args : List Nat

def Pool.step (tbl : Table) (fuel : Nat) (p : Pool) (op : Op) : Pool :=
  let r := callFn tbl fuel op.fn (op.args.map (fun i => p.vals.getD i .prim)) p.heap p.orc
  { vals := p.vals ++ [r.1], heap := r.2.1, orc := r.2.2 }

def Pool.run (tbl : Table) (fuel : Nat) (p : Pool) (ops : List Op) : Pool :=
  ops.foldl (Pool.step tbl fuel) p

theorem run_append (tbl : Table) (fuel : Nat) (p : Pool) (a b : List Op) :
    p.run tbl fuel (a ++ b) = (p.run tbl fuel a).run tbl fuel b := by
  simp [Pool.run, List.foldl_append]

/-- a whole history of pure operations changes nothing that existed when it started -/
theorem run_preserves {tbl : Table} (hok : TableOK tbl) (fuel : Nat) (ops : List Op)
    (hpure : ∀ op, op ∈ ops → pureEntry tbl op.fn = true) :
    ∀ p : Pool, p.heap.next ≤ (p.run tbl fuel ops).heap.next ∧
      ∀ r f, r < p.heap.next → (p.run tbl fuel ops).heap.cell r f = p.heap.cell r f := by
  induction ops with
  | nil => intro p; exact ⟨Nat.le_refl _, fun _ _ _ => rfl⟩
  | cons op ops ih =>
      intro p
      have h1 := frame hok fuel op.fn (hpure op (by simp))
        (op.args.map (fun i => p.vals.getD i .prim)) p.heap p.orc
      have h2 := ih (fun o ho => hpure o (by simp [ho])) (p.step tbl fuel op)
      simp only [Pool.run, List.foldl_cons] at h2 ⊢
      refine ⟨Nat.le_trans h1.1 h2.1, ?_⟩
      intro r f hr
      rw [h2.2 r f (Nat.lt_of_lt_of_le hr h1.1)]
      exact h1.2 r f hr

/-- **History.**  For every finite sequence of operations each of which declares no written parameter:
whatever was allocated when step `i` had been executed (the initial pool and the library singletons for
`i = 0`, every earlier result afterwards) has the same value after every later step `j`. -/
theorem history_preserves {tbl : Table} (hok : TableOK tbl) (fuel : Nat) (ops : List Op)
    (hpure : ∀ op, op ∈ ops → pureEntry tbl op.fn = true) (p : Pool) (i j : Nat) (hij : i ≤ j) :
    ∀ r f, r < (p.run tbl fuel (ops.take i)).heap.next →
      (p.run tbl fuel (ops.take j)).heap.cell r f = (p.run tbl fuel (ops.take i)).heap.cell r f := by
  have hsplit : ops.take j = ops.take i ++ (ops.take j).drop i := by
    have h1 := (List.take_append_drop i (ops.take j)).symm
    rw [List.take_take, Nat.min_eq_left hij] at h1
    exact h1
  intro r f hr
  rw [hsplit, run_append]
  have hsub : ∀ op, op ∈ (ops.take j).drop i → pureEntry tbl op.fn = true :=
    fun op ho => hpure op (List.mem_of_mem_take (List.mem_of_mem_drop ho))
  exact (run_preserves hok fuel _ hsub _).2 r f hr

/-! ### the table generated from the current code -/

def allowedIds : List Nat := ALLOWED.map (·.1)

theorem range_ok {p : Nat → Bool} {lo len : Nat} (h : (List.range' lo len).all p = true) {i : Nat}
    (h1 : lo ≤ i) (h2 : i < lo + len) : p i = true := by
  simp only [List.all_eq_true] at h
  exact h i (List.mem_range'_1.mpr ⟨h1, h2⟩)

/-- the sixteen generated chunk theorems cover every definition number below `NFUN` -/
theorem chunks_cover (i : Nat) (hi : i < NFUN) : okAt CURRENT i = true := by
  by_cases h00 : i < CHUNK00_HI
  · exact range_ok chunk00_ok (by omega) (by simp only [CHUNK00_HI] at h00; omega)
  by_cases h01 : i < CHUNK01_HI
  · exact range_ok chunk01_ok (by simp only [CHUNK00_HI] at h00; omega) (by simp only [CHUNK01_HI] at h01; omega)
  by_cases h02 : i < CHUNK02_HI
  · exact range_ok chunk02_ok (by simp only [CHUNK01_HI] at h01; omega) (by simp only [CHUNK02_HI] at h02; omega)
  by_cases h03 : i < CHUNK03_HI
  · exact range_ok chunk03_ok (by simp only [CHUNK02_HI] at h02; omega) (by simp only [CHUNK03_HI] at h03; omega)
  by_cases h04 : i < CHUNK04_HI
  · exact range_ok chunk04_ok (by simp only [CHUNK03_HI] at h03; omega) (by simp only [CHUNK04_HI] at h04; omega)
  by_cases h05 : i < CHUNK05_HI
  · exact range_ok chunk05_ok (by simp only [CHUNK04_HI] at h04; omega) (by simp only [CHUNK05_HI] at h05; omega)
  by_cases h06 : i < CHUNK06_HI
  · exact range_ok chunk06_ok (by simp only [CHUNK05_HI] at h05; omega) (by simp only [CHUNK06_HI] at h06; omega)
  by_cases h07 : i < CHUNK07_HI
  · exact range_ok chunk07_ok (by simp only [CHUNK06_HI] at h06; omega) (by simp only [CHUNK07_HI] at h07; omega)
  by_cases h08 : i < CHUNK08_HI
  · exact range_ok chunk08_ok (by simp only [CHUNK07_HI] at h07; omega) (by simp only [CHUNK08_HI] at h08; omega)
  by_cases h09 : i < CHUNK09_HI
  · exact range_ok chunk09_ok (by simp only [CHUNK08_HI] at h08; omega) (by simp only [CHUNK09_HI] at h09; omega)
  by_cases h10 : i < CHUNK10_HI
  · exact range_ok chunk10_ok (by simp only [CHUNK09_HI] at h09; omega) (by simp only [CHUNK10_HI] at h10; omega)
  by_cases h11 : i < CHUNK11_HI
  · exact range_ok chunk11_ok (by simp only [CHUNK10_HI] at h10; omega) (by simp only [CHUNK11_HI] at h11; omega)
  by_cases h12 : i < CHUNK12_HI
  · exact range_ok chunk12_ok (by simp only [CHUNK11_HI] at h11; omega) (by simp only [CHUNK12_HI] at h12; omega)
  by_cases h13 : i < CHUNK13_HI
  · exact range_ok chunk13_ok (by simp only [CHUNK12_HI] at h12; omega) (by simp only [CHUNK13_HI] at h13; omega)
  by_cases h14 : i < CHUNK14_HI
  · exact range_ok chunk14_ok (by simp only [CHUNK13_HI] at h13; omega) (by simp only [CHUNK14_HI] at h14; omega)
  by_cases h15 : i < CHUNK15_HI
  · exact range_ok chunk15_ok (by simp only [CHUNK14_HI] at h14; omega) (by simp only [CHUNK15_HI] at h15; omega)
  simp only [CHUNK15_HI] at h15
  simp only [NFUN] at hi
  omega

theorem current_none {i : Nat} (h : NFUN ≤ i) : CURRENT i = none := by
  unfold CURRENT
  have : ¬ i < NFUN := Nat.not_lt.mpr h
  simp only [NFUN] at this
  simp only [this, if_false]

/-- every definition generated from the current code is consistent with its declared summary -/
theorem current_table_accepted : TableOK CURRENT := by
  intro i d hget
  have hi : i < NFUN := by
    by_cases hi : i < NFUN
    · exact hi
    · rw [current_none (Nat.le_of_not_lt hi)] at hget; cases hget
  have hok := chunks_cover i hi
  simp only [okAt, hget] at hok
  exact hok

/-- every function other than the named writers (`ALLOWED`: the explicitly in-place forms
`Score.__setitem__` / `inplace=True`, constructors writing `self`, the internal routines listed in
harness/effects_assumptions.json) and the known defects declares no written parameter -/
theorem public_operations_pure :
    (List.range NFUN).all
      (fun i => allowedIds.contains i || DEFECTS.contains i || pureEntry CURRENT i) = true := by
  decide +kernel

/-- the allowed writers are exactly what their kind says: an `inplace` entry is `Score.__setitem__` or an
`#inplace` variant, a `constructor` entry is an `__init__` / `__setstate__` and writes `self` only -/
theorem allowed_writers_wellformed :
    ALLOWED.all (fun (i, name, kind) =>
      (FN_NAMES[i]? == some name) &&
      (match kind with
       | "inplace" => name == "Score.__setitem__" || name.endsWith "#inplace"
       | "constructor" => (name.endsWith ".__init__" || name.endsWith ".__setstate__") &&
            (match CURRENT i with | some d => d.writes == [] || d.writes == [1] | none => false)
       | "internal" => true
       | _ => false)) = true := by
  decide +kernel

/-- each known defect is really rejected by the checker on the code as it is -/
theorem known_defects_rejected :
    DEFECTS.all (fun i => (TABLE i).isSome && !(okAt TABLE i)) = true := by
  decide +kernel

/-- the full statement: the whole table as generated (nothing set aside) is accepted and every function
other than the named writers is pure -/
def Immutability_full : Prop :=
  TableOK TABLE ∧
  (List.range NFUN).all (fun i => allowedIds.contains i || pureEntry TABLE i) = true

/-- while a defect is listed, the full statement is false for the current code -/
theorem immutability_full_fails (h : DEFECTS ≠ []) : ¬ Immutability_full := by
  intro hfull
  obtain ⟨i, rest, hD⟩ := List.exists_cons_of_ne_nil h
  have hrej := known_defects_rejected
  simp only [hD, List.all_cons, Bool.and_eq_true, Bool.not_eq_true'] at hrej
  obtain ⟨⟨hsome, hbad⟩, _⟩ := hrej
  simp only [okAt] at hbad
  cases hget : TABLE i with
  | none => simp [hget] at hsome
  | some d =>
      simp only [hget] at hbad
      rw [hfull.1 i d hget] at hbad
      cases hbad

/-- **Immutability along any history, for the current code**: any finite sequence of library functions
other than the named writers and the known defects, applied to pool entries with the results fed back,
leaves every object that existed at any step unchanged at every later step. -/
theorem history_preserves_current (fuel : Nat) (ops : List Op)
    (hops : ∀ op, op ∈ ops → op.fn < NFUN ∧ allowedIds.contains op.fn = false ∧
      DEFECTS.contains op.fn = false)
    (p : Pool) (i j : Nat) (hij : i ≤ j) :
    ∀ r f, r < (p.run CURRENT fuel (ops.take i)).heap.next →
      (p.run CURRENT fuel (ops.take j)).heap.cell r f = (p.run CURRENT fuel (ops.take i)).heap.cell r f := by
  refine history_preserves current_table_accepted fuel ops ?_ p i j hij
  intro op hop
  obtain ⟨hlt, ha, hd⟩ := hops op hop
  have hp := public_operations_pure
  simp only [List.all_eq_true, List.mem_range] at hp
  have h3 := hp op.fn hlt
  simp only [ha, hd, Bool.false_or] at h3
  exact h3

/-! ### non-vacuity -/

/-- a small accepted table: `f0(x) = x.copy(); result.field := prim; return result` -/
def exTable : Table := fun i =>
  if i = 0 then some ⟨1, [], false, .deep, sq [.cmd (.copy 2 1), .cmd (.prim 3), .cmd (.store 2 1 3), .cmd (.ret 2)]⟩
  else if i = 1 then some ⟨1, [1], false, .prim, sq [.cmd (.prim 2), .cmd (.store 1 1 2)]⟩
  else none

example : okAt exTable 0 = true ∧ okAt exTable 1 = true := by decide
example : pureEntry exTable 0 = true ∧ pureEntry exTable 1 = false := by decide
/-- the in-place variant `f1(x): x.field := prim` is not accepted as a pure entry, and a caller passing
its own parameter to it is rejected -/
example : (anaFn exTable ⟨1, [], false, .prim, .cmd (.call 2 1 [1])⟩).viol ≠ [] := by decide
/-- a run of the semantics on a concrete heap: the copy is written, the original cell is not -/
example :
    let h : Heap := ⟨1, fun _ _ => .prim⟩
    let r := callFn exTable 3 0 [.ref 0] h [1, 1, 1]
    r.1 = .ref 1 ∧ r.2.1.next = 2 ∧ r.2.1.cell 0 1 = h.cell 0 1 := by decide

end MV.C06
