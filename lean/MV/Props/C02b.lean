/-
C02 (continued) — "a figured-bass inversion changes only which chord tone is lowest: same pitch
classes", for triads and seventh chords WITH ANY MODIFIERS (replacements, additions, omissions).
`inversion_same_pcs`: if `c.invert k` succeeds, the inverted chord has the same pitch-class set of
bass tones and exactly the same chord tones (`chord_pitches`) as `c`.
-/
import MV.Lemmas.Pcs
import MV.Props.C02

namespace MV.C02
open MV Gen

/-- the table rows of two figures agree up to order and octave -/
def rowsAgree (f f' : Fig) : Bool :=
  match BASE_EXTENSION_DICT f, BASE_EXTENSION_DICT f' with
  | some b, some b' => (b.map noOct).isPerm (b'.map noOct)
  | _, _ => false

/-- all inversions of a triad share one row up to order and octave, likewise for sevenths
[decide on the generated table] -/
theorem family_rows_agree :
    (∀ f ∈ threeFigs, ∀ f' ∈ threeFigs, rowsAgree f f' = true) ∧
    (∀ f ∈ fourFigs, ∀ f' ∈ fourFigs, rowsAgree f f' = true) := by decide

theorem rowsAgree_spec (f f' : Fig) (h : rowsAgree f f' = true) :
    ∃ b b', BASE_EXTENSION_DICT f = some b ∧ BASE_EXTENSION_DICT f' = some b' ∧ (b.map noOct).Perm (b'.map noOct) := by
  unfold rowsAgree at h
  cases hb : BASE_EXTENSION_DICT f with
  | none => simp [hb] at h
  | some b =>
    cases hb' : BASE_EXTENSION_DICT f' with
    | none => simp [hb, hb'] at h
    | some b' =>
      simp only [hb, hb'] at h
      exact ⟨b, b', rfl, rfl, List.isPerm_iff.mp h⟩

/-- **same pitch classes in every inversion, with any modifiers** -/
theorem inversion_same_pcs (c c' : Chord) (k : Int) (he : 0 ≤ c.elem ∧ c.elem < 7)
    (hf : c.ext.fig ∈ fourFigs ∨ c.ext.fig ∈ threeFigs) (h : c.invert k = .ok c') :
    ∃ ps ps', c.extensionPitches = .ok ps ∧ c'.extensionPitches = .ok ps' ∧
      (∀ p, p ∈ ps.map (· % 12) ↔ p ∈ ps'.map (· % 12)) := by
  rw [invert_eq c k] at h
  simp only [hf, if_true] at h
  obtain ⟨hc', ns', hns'⟩ := withExt_ok c _ c' h
  -- the two figures are in the same family
  have hagree : rowsAgree c.ext.fig (invFig c.ext.fig k) = true := by
    rcases hf with h4 | h3
    · exact family_rows_agree.2 _ h4 _ ((invFig_mem _ k).1 h4)
    · exact family_rows_agree.1 _ h3 _ ((invFig_mem _ k).2 h3)
  obtain ⟨b, b', hb, hb', hperm⟩ := rowsAgree_spec _ _ hagree
  have rel := calc_same_pcs c he c.ext.fig (invFig c.ext.fig k) b b' hb hb' hperm
    (sortStrs c.ext.repl) (sortStrs c.ext.add) (sortStrs c.ext.rem)
  -- extension notes of c' are the calc of c with the inverted figure
  have hn' : c'.extensionNotes = c.chordNotesCalc (invFig c.ext.fig k)
      (sortStrs c.ext.repl) (sortStrs c.ext.add) (sortStrs c.ext.rem) := by
    rw [hc']
    unfold Chord.extensionNotes Ext.props Ext.normalize invExt
    simp only [sortStrs_idem]
    exact calc_congr ({ c with ext := { fig := invFig c.ext.fig k, repl := sortStrs c.ext.repl, add := sortStrs c.ext.add, rem := sortStrs c.ext.rem } } : Chord) c ⟨rfl, rfl, rfl⟩ _ _ _ _
  have hns2 : c.chordNotesCalc (invFig c.ext.fig k) (sortStrs c.ext.repl) (sortStrs c.ext.add) (sortStrs c.ext.rem)
      = .ok ns' := by
    rw [← hns']
    unfold Chord.extensionNotes Ext.props invExt
    simp only [sortStrs_idem]
    exact (calc_congr ({ c with ext := { fig := invFig c.ext.fig k, repl := sortStrs c.ext.repl, add := sortStrs c.ext.add, rem := sortStrs c.ext.rem } } : Chord) c ⟨rfl, rfl, rfl⟩ _ _ _ _).symm
  have hn : c.extensionNotes = c.chordNotesCalc c.ext.fig
      (sortStrs c.ext.repl) (sortStrs c.ext.add) (sortStrs c.ext.rem) := by
    unfold Chord.extensionNotes Ext.props; rfl
  rw [hns2] at rel
  cases hx : c.chordNotesCalc c.ext.fig (sortStrs c.ext.repl) (sortStrs c.ext.add) (sortStrs c.ext.rem) with
  | error e => simp [hx, ResRel] at rel
  | ok ns =>
    simp only [hx, ResRel] at rel
    obtain ⟨hcan, hcan', hpcs⟩ := rel
    have he' : 0 ≤ c'.elem ∧ c'.elem < 7 := by rw [hc']; exact he
    have hkey : ∀ n, pitchKey c' n = pitchKey c n := by
      intro n; unfold pitchKey
      rw [basicPitch_congr c' c (by rw [hc']; exact ⟨rfl, rfl, rfl⟩)]
    refine ⟨ns.map (pitchKey c), ns'.map (pitchKey c), ?_, ?_, ?_⟩
    · unfold Chord.extensionPitches
      rw [hn, hx]
      simp only [bind, Except.bind]
      exact mapM_reqPitch_canon c he ns hcan
    · unfold Chord.extensionPitches
      rw [hn', hns2]
      simp only [bind, Except.bind]
      unfold pitchesOf
      rw [mapM_reqPitch_canon c' he' ns' hcan']
      congr 1
      apply List.map_congr_left
      intro n _; exact hkey n
    · intro p
      have := hpcs p
      unfold pcsOf at this
      simpa [List.map_map, Function.comp] using this

theorem rootFig_family (f : Fig) : (f ∈ fourFigs → f.rootFig = .f7) ∧ (f ∈ threeFigs → f.rootFig = .f0) := by
  cases f <;> simp [fourFigs, threeFigs, Fig.rootFig]

/-- **every inversion has exactly the chord tones (`chord_pitches`) of the chord it was inverted from** -/
theorem inversion_same_chord_pitches (c c' : Chord) (k : Int)
    (hf : c.ext.fig ∈ fourFigs ∨ c.ext.fig ∈ threeFigs) (h : c.invert k = .ok c') :
    c'.chordPitches = c.chordPitches := by
  rw [invert_eq c k] at h
  simp only [hf, if_true] at h
  obtain ⟨hc', _, _⟩ := withExt_ok c _ c' h
  have hroot : (invFig c.ext.fig k).rootFig = c.ext.fig.rootFig := by
    rcases hf with h4 | h3
    · rw [(rootFig_family _).1 ((invFig_mem _ k).1 h4), (rootFig_family _).1 h4]
    · rw [(rootFig_family _).2 ((invFig_mem _ k).2 h3), (rootFig_family _).2 h3]
  rw [hc']
  unfold Chord.chordPitches Chord.chordNotes Ext.props Ext.normalize invExt
  simp only [sortStrs_idem, hroot]
  have hsame : SameHarm ({ c with ext := { fig := invFig c.ext.fig k, repl := sortStrs c.ext.repl, add := sortStrs c.ext.add, rem := sortStrs c.ext.rem } } : Chord) c :=
    ⟨rfl, rfl, rfl⟩
  rw [calc_congr _ c hsame, pitchesOf_congr _ c hsame]

example : rowsAgree .f65 .f2 = true := by decide

end MV.C02
