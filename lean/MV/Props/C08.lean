/-
C08 — the music21 / MusicXML export sounds the same as the MIDI rendering.

Only the property statements and their proofs from `MV.Lemmas.Mxl` (spelling) and
`MV.Lemmas.MxlSim` (simulation invariant).  The model is `MV/Model/Mxl.lean` (exporter, on the
repaired tree), the MIDI side is the note matrix of `MV/Model/Render.lean`; the two denotations
`soundV` (ties merged) and `soundR` (continuation rows merged) and the domain predicates
`InClaim` / `NoContAfterGap` are defined in `MV/Model/MxlSound.lean`.

All theorems quantify over every score (any number of chords, parts, notes; any `Int` values and
octaves; any `Rat` durations), every part name, every mode.
-/
import MV.Lemmas.MxlSim

namespace MV.C08
open MV Gen MV.Mxl

/-! ### the spelling tables sound right (generated table, checked cell by cell) -/

/-- every cell of every generated spelling table is a readable name whose letter + accidentals
is congruent to `tonic + scale degree` and lies inside the octave from C, except exactly `B#`
(value 12) and `Cb` (value -1), the two names whose octave the code corrects — a `decide` over
the 3 × 12 × 7 generated cells -/
theorem spell_tables_ok (mode : Mode) (tab : List (Int × List String)) (h : MXL_SCALES mode = some tab) :
    tabOK mode tab = true := tables_ok mode tab h

/-- every table has a row of seven names for each tonic 0..11 (no `KeyError` / `IndexError` inside a table) -/
theorem spell_tables_complete (mode : Mode) (tab : List (Int × List String)) (h : MXL_SCALES mode = some tab) :
    tabComplete tab = true := tables_complete mode tab h

/-- the translator dropped no table: `to_mxl.SCALES` has no key outside the nine modes -/
theorem spell_tables_no_extra_modes : MXL_EXTRA_MODES = [] := by decide

/-- `NOTES_TO_ROOT` agrees with the reading of names used here: every entry's pitch class is
letter + accidentals mod 12 (a wrong cell in that table is caught here) -/
theorem notes_to_root_agree :
    NOTES_TO_ROOT.all (fun e => match nameValue e.1 with | some q => q % 12 == e.2 | none => false) = true := by
  decide

/-- **sounding pitch of a spelled note**: whatever `get_note_spelling` returns — a table name with
its corrected octave for `M`, `m`, `mm`, the chromatic fallback for the six church modes and for
notes outside the scale — music21 reads it as MIDI number `60 + pitch`; every tonic, every
octave (affine in the octave), every note system, every chord. -/
theorem spelling_sounds_right (c : Chord) (n : Note) (last : Option Int) (sp : Spelling) (p m : Int)
    (h : getNoteSpelling c n last = .ok (sp, p)) (hm : sp.midi = .ok m) : m = 60 + p :=
  (getNoteSpelling_midi h).1 m hm

/-- inside the notation range (pitch ≥ -36, MIDI number ≥ 24) the spelled note is always readable -/
theorem spelling_readable (c : Chord) (n : Note) (last : Option Int) (sp : Spelling) (p : Int)
    (h : getNoteSpelling c n last = .ok (sp, p)) (hr : -36 ≤ p) : sp.midi = .ok (60 + p) :=
  (getNoteSpelling_midi h).2 hr

/-- the pitch `get_note_spelling` returns is the pitch calculus' (`note_to_pitch_result`) -/
theorem spelling_pitch (c : Chord) (n : Note) (last : Option Int) (sp : Spelling) (p : Int)
    (h : getNoteSpelling c n last = .ok (sp, p)) : pitchResult c n last = .ok p :=
  getNoteSpelling_pitch h

/-- the error branch outside the range is explicit: a table name below octave 0 is rejected
by the model (music21 misreads or rejects such text), never given a default pitch -/
theorem spelling_below_range (name : String) (oct : Int) (h : oct < 0) :
    (Spelling.named name oct).midi = .error .other := by
  simp [Spelling.midi, h]

/-! ### the voice of a part sounds what the note matrix sounds -/

/-- the full claim for one part: ties merged, the voice sounds exactly the notes the part's rows
of the MIDI note matrix sound — MIDI number `60 + pitch`, same onset, same (tied) duration -/
def Voice_eq_render_full : Prop :=
  ∀ (s : Score) (part : String) (v : List Elem) (rows : List Row),
    InClaim s part → voiceOf s part = .ok v → rowsOf s part = .ok rows →
    soundV v = (soundR rows).map Ev.key

/-- **proved part**: the claim holds whenever, in addition, no continuation directly follows the
padding of a short part while the MIDI renderer still holds a note (`NoContAfterGap`) -/
theorem voice_eq_render_partial (s : Score) (part : String) (v : List Elem) (rows : List Row)
    (hc : NoContAfterGap s part) (hv : voiceOf s part = .ok v) (hr : rowsOf s part = .ok rows) :
    soundV v = (soundR rows).map Ev.key := by
  unfold NoContAfterGap at hc
  cases hs : syncScore true part .fresh s with
  | none => simp [hs] at hc
  | some σ' =>
    unfold voiceOf at hv
    simp only [bind, Except.bind] at hv
    cases hl : chordsLoop part false {} s with
    | error e => simp [hl] at hv
    | ok st =>
      simp only [hl, pure, Except.pure, Except.ok.injEq] at hv
      subst hv
      obtain ⟨lastR', inv⟩ := chordsLoop_sim s inv_init hs hr hl
      rw [soundV_eq_accRev, inv.flush_eq]
      rfl

/-- the extra hypothesis is a strengthening of the domain, nothing else -/
theorem noContAfterGap_inClaim (s : Score) (part : String) (h : NoContAfterGap s part) : InClaim s part := by
  unfold NoContAfterGap at h
  unfold InClaim
  cases hs : syncScore true part .fresh s with
  | none => simp [hs] at h
  | some σ' => rw [syncScore_strict_imp s hs]; rfl

/-- **corollary**: for scores whose parts fill their chords (no padding is ever written) the full
claim holds on the whole domain -/
theorem voice_eq_render_filled (s : Score) (part : String) (v : List Elem) (rows : List Row)
    (hc : InClaim s part) (hf : Filled s part) (hv : voiceOf s part = .ok v) (hr : rowsOf s part = .ok rows) :
    soundV v = (soundR rows).map Ev.key := by
  apply voice_eq_render_partial s part v rows _ hv hr
  unfold InClaim at hc
  unfold NoContAfterGap
  cases hs : syncScore false part .fresh s with
  | none => simp [hs] at hc
  | some σ' => rw [syncScore_filled s hf (by simp) hs]; rfl

/-! ### rests everywhere else -/

/-- **the voice is gap-free and as long as the score**: the elements of a voice are laid end to
end from offset 0 (`offsets`), each is a note or a rest, and on the domain of the claim their
durations add up to the sum of the chord durations — so whatever is not one of the sounding
notes of `voice_eq_render` is a rest, and every chord of every part starts on time (short and
absent parts are padded) -/
theorem voice_fills_score (s : Score) (part : String) (v : List Elem)
    (hc : InClaim s part) (hv : voiceOf s part = .ok v) :
    sumRat (v.map (·.dur)) = sumRat (s.map Chord.dur) := by
  unfold InClaim at hc
  cases hs : syncScore false part .fresh s with
  | none => simp [hs] at hc
  | some σ' =>
    unfold voiceOf at hv
    simp only [bind, Except.bind] at hv
    cases hl : chordsLoop part false {} s with
    | error e => simp [hl] at hv
    | ok st =>
      simp only [hl, pure, Except.pure, Except.ok.injEq] at hv
      subst hv
      have := chordsLoop_time s hs hl
      rw [accRev_time] at this
      exact this

/-- offsets are the running sums: the element after `e` starts where `e` ends -/
theorem offsets_contiguous (e : Elem) (es : List Elem) (t : Rat) :
    offsets (e :: es) t = (t, e) :: offsets es (t + e.dur) := rfl

/-! ### the one place where the repaired exporter still differs (known finding) -/

/-- a plain note of the library (`s0`, `l`, `r.h` …) -/
def nt (k : Kind) (v : Int) (d : Rat := 1) : Note := { kind := k, val := v, oct := 0, dur := d }

/-- `(I % I.M)(piano__0=s0, violin__0=s4.h) + (I % I.M)(piano__0=l, violin__0=s4)` -/
def gapScore : Score :=
  [ { elem := 0, parts := [("piano__0", [nt .s 0]), ("violin__0", [nt .s 4 2])] },
    { elem := 0, parts := [("piano__0", [nt .l 0]), ("violin__0", [nt .s 4])] } ]

theorem gap_in_claim : InClaim gapScore "piano__0" := by decide +kernel

/-- the exporter writes note, padding rest, rest … -/
theorem gap_voice :
    voiceOf gapScore "piano__0" = .ok [⟨some 60, 1, none⟩, Elem.rest 1, Elem.rest 1] := by decide +kernel

/-- … while the note matrix holds the note for two quarters (the continuation row prolongs it
across the gap) -/
theorem gap_rows_sound : (rowsOf gapScore "piano__0").map soundR = .ok [⟨0, 0, 2⟩] := by decide +kernel

/-- **counter-example to the full claim** (replayed on the real code by the oracle, signature
`sound:continuation-after-padded-gap`): a continuation directly after the padding of a short part -/
theorem voice_eq_render_fails : ¬ Voice_eq_render_full := by
  intro h
  cases hr : rowsOf gapScore "piano__0" with
  | error e => have := gap_rows_sound; rw [hr] at this; cases this
  | ok rows =>
    have hs := gap_rows_sound
    rw [hr] at hs
    simp only [Except.map, Except.ok.injEq] at hs
    have := h gapScore "piano__0" _ rows gap_in_claim gap_voice hr
    rw [hs] at this
    revert this
    decide +kernel

/-- the witness is exactly what the extra hypothesis excludes -/
theorem gap_not_strict : ¬ NoContAfterGap gapScore "piano__0" := by decide +kernel

/-! ### export never fails on the domain -/

/-- **totality**: on a score of the claim (no drum / pattern notes, relative notes referenced) in
all nine modes — tonality degrees 0..11 — whose sounding rows lie in the notation range, the
exporter's voice loop raises nothing wherever the MIDI renderer produced the part's rows: the
exporter adds no failure of its own (the six church modes and continuations after a gap included) -/
theorem export_total (s : Score) (part : String) (rows : List Row)
    (hc : InClaim s part) (hdeg : ∀ c ∈ s, 0 ≤ c.ton.deg ∧ c.ton.deg < 12)
    (hr : rowsOf s part = .ok rows) (hrange : RowsInRange rows) :
    ∃ v, voiceOf s part = .ok v := by
  unfold InClaim at hc
  cases hs : syncScore false part .fresh s with
  | none => simp [hs] at hc
  | some σ' =>
    obtain ⟨st', h⟩ := chordsLoop_total (st := {}) s hdeg (fun h => absurd rfl h) hs hr hrange
    exact ⟨st'.rev.reverse, by simp only [voiceOf, bind, Except.bind, h, pure, Except.pure]⟩

/-- the key signature of the header is found for every mode and tonic -/
theorem key_total (t : Tonality) (h : 0 ≤ t.deg ∧ t.deg < 12) : ∃ k, keyName t = .ok k := by
  unfold keyName
  split
  · rw [pyIndex_nonneg keysMajor "" t.deg h.1 (by simp [keysMajor]; omega)]; exact ⟨_, rfl⟩
  · rw [pyIndex_nonneg keysMinor "" t.deg h.1 (by simp [keysMinor]; omega)]; exact ⟨_, rfl⟩

/-- the error branch the domain excludes: a relative note with no earlier sounded note of the
part makes the export raise `TypeError` (it is not given a default reference) -/
theorem unreferenced_relative_raises (c : Chord) (n : Note) (nr : Bool) (st : VState)
    (hk : n.kind.isNote = true) (hrel : n.kind.isRelative = true) (hl : st.lastPitch = none) :
    noteStep c nr st n = .error .type := by
  unfold noteStep getNoteSpelling pitchResult
  simp [hk, hrel, hl, bind, Except.bind]

/-! ### non-vacuity: concrete scores meeting the hypotheses -/

/-- `(I % II.dorian)(piano__0=l + s0 + l + l.e + r + l + s2 + su1, violin__0=s4.augment(15/2).o(-1))
   + (V % II.dorian)(piano__0=l.h + h1, violin__0=...absent)` : a continuation first, a chain,
a continuation after a rest, a tie across the chord change, a relative note, a short part, a
church mode -/
def demoScore : Score :=
  [ { elem := 0, ton := ⟨2, .dorian, 0⟩,
      parts := [("piano__0", [nt .l 0, nt .s 0, nt .l 0, nt .l 0 (1/2), nt .r 0, nt .l 0, nt .s 2, nt .su 1]),
                ("violin__0", [{ nt .s 4 (15/2) with oct := -1 }])] },
    { elem := 4, ton := ⟨2, .dorian, 0⟩, parts := [("piano__0", [nt .l 0 2, nt .h 1])] },
    { elem := 0, ton := ⟨1, .m, 0⟩, parts := [("piano__0", [nt .s 6, nt .l 0]), ("violin__0", [nt .l 0, nt .s 0 (1/3)])] } ]

example : NoContAfterGap demoScore "piano__0" := by decide +kernel
example : NoContAfterGap demoScore "violin__0" := by decide +kernel
example : ∀ c ∈ demoScore, 0 ≤ c.ton.deg ∧ c.ton.deg < 12 := by decide +kernel
example : (voiceOf demoScore "piano__0").map soundV
    = .ok [⟨62, 1, 5/2⟩, ⟨65, 11/2, 1⟩, ⟨67, 13/2, 3⟩, ⟨70, 19/2, 1⟩, ⟨72, 21/2, 2⟩] := by decide +kernel
example : (rowsOf demoScore "piano__0").map (fun r => (soundR r).map Ev.key)
    = .ok [⟨62, 1, 5/2⟩, ⟨65, 11/2, 1⟩, ⟨67, 13/2, 3⟩, ⟨70, 19/2, 1⟩, ⟨72, 21/2, 2⟩] := by decide +kernel
/-- hypotheses of `voice_eq_render_filled`: both parts fill both chords, ties across the chord change -/
def filledScore : Score :=
  [ { elem := 0, ton := ⟨9, .aeolian, 0⟩, parts := [("piano__0", [nt .s 0, nt .l 0]), ("violin__0", [nt .c 1 2])] },
    { elem := 3, ton := ⟨9, .aeolian, 0⟩, parts := [("piano__0", [nt .l 0 (1/2), nt .sd 1 (1/2)]), ("violin__0", [nt .l 0])] } ]
example : InClaim filledScore "piano__0" ∧ InClaim filledScore "violin__0" := by decide +kernel
example : Filled filledScore "piano__0" := by
  intro c hc m hm
  simp only [filledScore, List.mem_cons, List.not_mem_nil, or_false] at hc
  rcases hc with rfl | rfl <;> (simp [List.lookup] at hm; subst hm; decide +kernel)
example : (voiceOf filledScore "piano__0").map soundV = .ok [⟨69, 0, 5/2⟩, ⟨67, 5/2, 1/2⟩] := by decide +kernel
/-- the `B#` cell (C sharp minor, seventh degree) is written one octave lower and sounds 72 -/
example : getNoteSpelling { elem := 0, ton := ⟨1, .m, 0⟩ } (nt .s 6) none = .ok (.named "B#" 4, 12) := by decide +kernel
example : (Spelling.named "B#" 4).midi = .ok 72 := by decide +kernel
example : (Spelling.named "Cb" 5).midi = .ok 71 := by decide +kernel
example : (Spelling.named "F##" 4).midi = .ok 67 := by decide +kernel

end MV.C08
