/-
C07 — the MIDI file written for a score contains exactly its sounding notes.

Theorems over the model of `midi_utils.py` (`MV/Model/Midi.lean`, the REPAIRED code).  Inputs are arbitrary
note matrices (any length, any `Rat` times and amplitudes, any `Int` pitches), arbitrary part names, tempo and
time signature; `scoreToMidi s` is `matrixToMid (getNotes s) …`, so everything below holds for every score.
`finalRows / finalNames / finalInstruments` are what `setup_instruments` hands on: the sounding rows
(continuations merged) with their final track number, one name and one program per final track.
-/
import MV.Lemmas.Midi
namespace MV.C07
open MV MV.Midi

/-! ### the notes of every track -/

/-- what `matrix_to_mid` returns is made of: one track per final track number `0..nb`, each beginning with its
program change (track 0 then carries the tempo and the time signature), followed by nothing but the note
messages of the event rows of that track, in the order of the sorted event frame. -/
theorem tracks_shape {rows : List Row} {names : List String} {programs : List Int} {tempo : Int} {ts : Int × Int}
    {tracks : List (List Msg)} (h : matrixToMid rows names programs tempo ts = .ok tracks) :
    ∃ nb channels, nbTracks (finalRows rows names programs) = .ok nb ∧ tracks.length = nb + 1 ∧
      (∀ k, k < nb + 1 → channels[k]? = some (trackChannel (finalNames rows names programs) (finalInstruments rows names programs) k)) ∧
      ∀ k, k < nb + 1 → tracks[k]? = some
        (headOf (finalNames rows names programs) (finalInstruments rows names programs) channels k
          ++ (if k = 0 then metas tempo ts else [])
          ++ ((prepareEvents (finalRows rows names programs)).filter (fun e => e.track = k)).map (msgOf channels)) := by
  obtain ⟨nb, tracks0, channels, hnb, hst, hap⟩ := matrixToMid_inv h
  obtain ⟨h1, _, _, h4, h5⟩ := setTracks_spec hst
  obtain ⟨_, a2, a3⟩ := applyEvents_ok hap
  refine ⟨nb, channels, hnb, by omega, fun k hk => setTracks_channel hst k hk, ?_⟩
  intro k hk
  rw [a3 k]
  cases k with
  | zero => simp [h4]
  | succ k => simp [h5 (k + 1) (by omega) hk]

/-- **decode_encode.**  Whenever the export succeeds and every onset and end of the sounding rows is a whole
number of ticks, reading track `k` back (running sum of the delta times) yields exactly — as a multiset — one
`note_on` at `onset·480` and one `note_off` at `end·480` per sounding row of that track, with key `60 + pitch`,
velocity `int(amp)` and the channel of the track. -/
theorem decode_encode {rows : List Row} {names : List String} {programs : List Int} {tempo : Int} {ts : Int × Int}
    {tracks : List (List Msg)} (h : matrixToMid rows names programs tempo ts = .ok tracks)
    (hg : RowsOnGrid (finalRows rows names programs)) (k : Nat) (hk : k < tracks.length) :
    (noteEvents (decode tracks[k])).Perm
      (expectedNotes (trackChannel (finalNames rows names programs) (finalInstruments rows names programs) k) k
        (finalRows rows names programs)) := by
  obtain ⟨nb, tracks0, channels, hnb, hst, hap⟩ := matrixToMid_inv h
  obtain ⟨h1, _, _, _, _⟩ := setTracks_spec hst
  obtain ⟨_, a2, _⟩ := applyEvents_ok hap
  have hk' : k < tracks0.length := by omega
  have hhd : tracks0[k]? = some tracks0[k] := List.getElem?_eq_getElem hk'
  obtain ⟨trk, ht, hn⟩ := track_notes hap hhd (setTracks_headers hst hhd) hg
  have : tracks[k] = trk := by
    have := List.getElem?_eq_getElem hk
    rw [ht] at this
    exact (Option.some.inj this).symm
  rw [this, hn]
  have hc := setTracks_channel hst k (by omega)
  have := track_notes_perm (finalRows rows names programs) channels k
  rwa [hc] at this

/-- **off_before_on_at_same_tick.**  On the tick grid the note messages of every track come in non-decreasing
tick order and, at one tick, every `note_off` precedes every `note_on` (a note ending where the next one of the
same key starts is not cut). -/
theorem off_before_on_at_same_tick {rows : List Row} {names : List String} {programs : List Int} {tempo : Int}
    {ts : Int × Int} {tracks : List (List Msg)} (h : matrixToMid rows names programs tempo ts = .ok tracks)
    (hg : RowsOnGrid (finalRows rows names programs)) (k : Nat) (hk : k < tracks.length) :
    (noteEvents (decode tracks[k])).Pairwise NoteOrder := by
  obtain ⟨nb, tracks0, channels, hnb, hst, hap⟩ := matrixToMid_inv h
  obtain ⟨h1, _, _, _, _⟩ := setTracks_spec hst
  obtain ⟨_, a2, _⟩ := applyEvents_ok hap
  have hk' : k < tracks0.length := by omega
  have hhd : tracks0[k]? = some tracks0[k] := List.getElem?_eq_getElem hk'
  obtain ⟨trk, ht, hn⟩ := track_notes hap hhd (setTracks_headers hst hhd) hg
  have : tracks[k] = trk := by
    have := List.getElem?_eq_getElem hk
    rw [ht] at this
    exact (Option.some.inj this).symm
  rw [this, hn]
  exact track_notes_order hg channels k

/-- the same order off the grid, stated on the event rows themselves: whatever the durations, the rows that
`apply_events` writes to a track are sorted by (offset, type) with NOTE_OFF first, one NOTE_ON and one NOTE_OFF
row per sounding row. -/
theorem events_sorted (rows : List Row) :
    (sortedEvents rows).Pairwise (fun a b => evLe a b = true) ∧
    (sortedEvents rows).Perm (rows.flatMap (fun r => [rowOn r, rowOff r])) :=
  ⟨sortedEvents_sorted rows, sortedEvents_perm rows⟩

/-- **meta_written.**  Track 0 of every successful export carries, at tick 0 and before any note, the requested
tempo as `bpm2tempo(tempo)` microseconds per quarter note and the requested time signature. -/
theorem meta_written {rows : List Row} {names : List String} {programs : List Int} {tempo : Int} {ts : Int × Int}
    {tracks : List (List Msg)} (h : matrixToMid rows names programs tempo ts = .ok tracks) :
    ∃ head notes, tracks[0]? = some (head ++ [.trackName 0, .setTempo 0 (bpm2tempo tempo), .timeSig 0 ts.1 ts.2] ++ notes) ∧
      IsHeader head ∧ ∀ m ∈ notes, m.isNote = true := by
  obtain ⟨nb, channels, _, _, _, h4⟩ := tracks_shape h
  refine ⟨_, _, by simpa [metas] using h4 0 (by omega), headOf_isHeader _ _ _ _, ?_⟩
  intro m hm
  obtain ⟨e, _, rfl⟩ := List.mem_map.mp hm
  unfold msgOf
  split <;> rfl

/-- the tempo written is the number of microseconds per quarter note nearest to `60·10⁶ / bpm` -/
theorem tempo_nearest (bpm : Int) :
    (60000000 : Rat) / bpm - 1 / 2 ≤ (bpm2tempo bpm : Rat) ∧ (bpm2tempo bpm : Rat) ≤ (60000000 : Rat) / bpm + 1 / 2 :=
  roundHalfEven_nearest _

example : bpm2tempo 120 = 500000 ∧ bpm2tempo 97 = 618557 ∧ bpm2tempo 512 = 117188 := by decide +kernel

/-! ### continuations -/

/-- **continuations_merged.**  The `last_note_index` dictionary loop of `merge_continuation_to_previous_note`
computes, for every note matrix, exactly the directly stated sounding rows: the rows that are neither silence nor
continuation, each lengthened by the continuation rows of its own track that follow it before the next
note or silence of that track (a continuation after a rest lengthens the rest, i.e. is silent; a continuation
with nothing before it is dropped). -/
theorem continuations_merged (rows : List Row) : mergeContinuations rows = soundingRows rows :=
  mergeContinuations_eq rows

/-! ### tracks, programs, channels -/

/-- **one_track_per_program (channels).**  In a successful export track `k` opens with the program change of its
group on the track's channel, every note message of the track is on that channel, the channel is 9 (MIDI channel
10) exactly for a percussion track, and two non-percussion tracks share a channel only if they have the same
program: channel = rank of the program among the sorted distinct programs (0 always counted), skipping 9. -/
theorem one_channel_per_track {rows : List Row} {names : List String} {programs : List Int} {tempo : Int}
    {ts : Int × Int} {tracks : List (List Msg)} (h : matrixToMid rows names programs tempo ts = .ok tracks)
    (k : Nat) (hk : k < tracks.length) :
    let N := finalNames rows names programs
    let I := finalInstruments rows names programs
    let ch := trackChannel N I k
    (k < I.length → ∃ rest, tracks[k] = .program 0 ch (if isDrumAt N k then 0 else (I[k]?).getD 0) :: rest) ∧
    (∀ e ∈ noteEvents (decode tracks[k]), e.2.2.1 = ch) ∧
    (ch = 9 ↔ isDrumAt N k = true) ∧
    (∀ j, isDrumAt N j = false → isDrumAt N k = false → trackChannel N I j = ch → (I[j]?).getD 0 = (I[k]?).getD 0) := by
  intro N I ch
  obtain ⟨nb, channels, _, hlen, hch, hshape⟩ := tracks_shape h
  have hk' : k < nb + 1 := by omega
  have htk := hshape k hk'
  rw [List.getElem?_eq_getElem hk, Option.some.injEq] at htk
  have hck : (channels[k]?).getD 0 = ch := by rw [hch k hk']; rfl
  refine ⟨?_, ?_, ?_, ?_⟩
  · intro hkI
    rw [htk]
    unfold headOf
    by_cases hd : isDrumAt N k = true
    · simp only [N] at hd
      simp only [hd, ↓reduceIte, List.cons_append, List.nil_append]
      have : ch = 9 := trackChannel_drum _ _ _ hd
      rw [this]
      refine ⟨((if k = 0 then metas tempo ts else []) ++ ((prepareEvents (finalRows rows names programs)).filter (fun e => e.track = k)).map (msgOf channels)), ?_⟩
      simp only [show isDrumAt N k = true from hd, ↓reduceIte]
    · simp only [N, I] at hd hkI
      simp only [hd, Bool.false_eq_true, ↓reduceIte, hkI, List.cons_append, List.nil_append]
      rw [hck]
      refine ⟨((if k = 0 then metas tempo ts else []) ++ ((prepareEvents (finalRows rows names programs)).filter (fun e => e.track = k)).map (msgOf channels)), ?_⟩
      simp only [show isDrumAt N k = false from by simpa using hd, Bool.false_eq_true, ↓reduceIte, I]
  · intro e he
    rw [htk, decode, decodeFrom_append, noteEvents_append] at he
    have hhd : IsHeader (headOf N I channels k ++ if k = 0 then metas tempo ts else []) := by
      intro m hm
      rcases List.mem_append.mp hm with hm | hm
      · exact headOf_isHeader _ _ _ _ m hm
      · split at hm
        · simp only [metas, List.mem_cons, List.not_mem_nil, or_false] at hm
          rcases hm with rfl | rfl | rfl <;> simp [Msg.delta, Msg.isNote]
        · simp at hm
    rw [(header_decode _ hhd 0).1, List.nil_append] at he
    -- every note message of the track was built with `channels[k]`
    have key : ∀ (l : List Ev) (t0 : Int), (∀ x ∈ l, x.track = k) →
        ∀ e ∈ noteEvents (decodeFrom t0 (l.map (msgOf channels))), e.2.2.1 = (channels[k]?).getD 0 := by
      intro l
      induction l with
      | nil => intro t0 _ e he; simp [decodeFrom, noteEvents] at he
      | cons x xs ih =>
        intro t0 hx e he
        have hxk : x.track = k := hx x (by simp)
        simp only [List.map_cons, decodeFrom, msgOf] at he
        split at he
        · simp only [noteEvents, List.mem_cons] at he
          rcases he with rfl | he
          · simp [hxk]
          · exact ih _ (fun y hy => hx y (by simp [hy])) e he
        · simp only [noteEvents, List.mem_cons] at he
          rcases he with rfl | he
          · simp [hxk]
          · exact ih _ (fun y hy => hx y (by simp [hy])) e he
    rw [← hck]
    exact key _ _ (fun x hx => by simpa using (List.mem_filter.mp hx).2) e he
  · constructor
    · intro h9
      by_cases hd : isDrumAt N k = true
      · exact hd
      · exact absurd h9 (trackChannel_not_drum _ _ _ (by simpa using hd))
    · intro hd; exact trackChannel_drum _ _ _ hd
  · intro j hj hkd hjk
    exact trackChannel_inj N I j k hj hkd hjk

/-- **one_track_per_program (grouping).**  `setup_instruments` sends part `t` to final track `idx t`: the sounding
rows keep everything but their track number (the sequential in-place assignments
`matrix[matrix[:, TRACK] == old, TRACK] = new` never hit a number that was already renamed), two parts share a
final track exactly when they have the same key — the General MIDI program of their name, or −1 for every
percussion part — and the program change of that track is the key's program (0 for percussion). -/
theorem one_track_per_program (rows : List Row) (names : List String) (programs : List Int) :
    let ks := (names.zip programs).map (fun np => if isDrumsName np.1 then (-1 : Int) else np.2)
    let idx := substAll (relabelSteps (groupTracks names (markDrums names programs)))
    finalRows rows names programs = (soundingRows rows).map (fun r => { r with track := idx r.track }) ∧
    (∀ t t', t < ks.length → t' < ks.length → (idx t = idx t' ↔ ks[t]? = ks[t']?)) ∧
    (∀ t, t < ks.length → ∃ key, ks[t]? = some key ∧
      (finalInstruments rows names programs)[idx t]? = some (if key = -1 then 0 else key)) := by
  intro ks idx
  have hks : ks = partKeys names (markDrums names programs) := (partKeys_markDrums names programs).symm
  obtain ⟨h1, h2, h3⟩ := grouping names programs (soundingRows rows)
  refine ⟨?_, ?_, ?_⟩
  · simp only [finalRows, setupInstruments, continuations_merged]
    exact h1
  · rw [hks]; exact h2
  · rw [hks]; exact h3

/-- five parts — piano, violin, a drum kit, a second piano, a second percussion part — land on three tracks -/
example :
    let names := ["piano", "violin", "drums_0", "piano", "drums"]
    let idx := substAll (relabelSteps (groupTracks names (markDrums names [0, 40, 0, 0, 0])))
    [0, 1, 2, 3, 4].map idx = [0, 1, 2, 0, 2] ∧
    (setupInstruments [] names [0, 40, 0, 0, 0]).2.2 = [0, 40, 0] ∧
    (setupInstruments [] names [0, 40, 0, 0, 0]).1 = ["piano", "violin", "drums_0"] ∧
    [0, 1, 2].map (trackChannel ["piano", "violin", "drums_0"] [0, 40, 0]) = [0, 1, 9] := by
  decide +kernel

/-! ### when the export succeeds, and when it cannot -/

/-- **succeeds.**  No error branch of `matrix_to_mid` is reachable when there is at least one sounding row, every
key `60 + pitch` and every velocity `int(amp)` is a MIDI data byte, the programs of the parts are data bytes (true
of every entry of the instrument table, see `instruments_table`) and, program 0
always counted, at most 15 distinct programs are used, the tempo is at least 4 bpm and the time signature has a
numerator in 0..255 and a power of two as denominator. -/
theorem succeeds (rows : List Row) (names : List String) (programs : List Int) (tempo : Int) (ts : Int × Int)
    (hne : finalRows rows names programs ≠ [])
    (hrows : ∀ r ∈ finalRows rows names programs, byteOK (r.pitch + 60) = true ∧ byteOK (truncRat r.vel) = true)
    (hprog : ∀ p ∈ programs, byteOK p = true)
    (hch : (instrumentList (finalInstruments rows names programs)).length ≤ 15)
    (htempo : 4 ≤ tempo) (hts : 0 ≤ ts.1 ∧ ts.1 ≤ 255 ∧ isPow2 64 ts.2 = true) :
    ∃ tracks, matrixToMid rows names programs tempo ts = .ok tracks := by
  refine matrixToMid_succeeds rows names programs tempo ts hne hrows ?_ hch htempo hts
  intro p hp
  rcases finalInstruments_mem rows names programs p hp with rfl | h
  · decide
  · exact hprog p h

/-- the error branch the property excludes: without a sounding note `matrix[:, TRACK].max()` raises ValueError -/
theorem fails_without_notes (rows : List Row) (names : List String) (programs : List Int) (tempo : Int) (ts : Int × Int)
    (h : finalRows rows names programs = []) : matrixToMid rows names programs tempo ts = .error .value := by
  unfold matrixToMid
  simp only [finalRows] at h
  simp only [bind, Except.bind, h, nbTracks_nil]

/-- no negative delta time ever reaches the writer: inside a track the sorted frame never steps back (for rows
with non-negative offsets and durations, as the renderer produces them) -/
theorem deltas_nonneg (rows : List Row) (h : ∀ r ∈ rows, 0 ≤ r.offset ∧ 0 ≤ r.dur) :
    ∀ e ∈ prepareEvents rows, 0 ≤ e.delta ∧ 0 ≤ truncRat (e.delta * TICKS) :=
  prepareEvents_deltas_nonneg rows h

/-- the full capacity statement one would like: any instrument set with at most 15 distinct programs gets valid
channels.  The code always reserves rank 0 for program 0, so it is FALSE (see `channels_fit_fails`). -/
def ChannelsFit_full : Prop :=
  ∀ (names : List String) (instr : List Int) (k : Nat),
    (sortedDedup instr).length ≤ 15 → k < instr.length → channelOK (trackChannel names instr k) = true

/-- what holds: 15 programs *counting program 0* (`instrumentList` always contains 0) -/
theorem channels_fit_partial (names : List String) (instr : List Int) (k : Nat)
    (h : (instrumentList instr).length ≤ 15) : channelOK (trackChannel names instr k) = true :=
  trackChannel_ok names instr k h

/-- witness: programs 1..15 without program 0 — the 15th gets channel 16 (replayed on the real code by the
oracle `channels`; known finding) -/
theorem channels_fit_fails : ¬ ChannelsFit_full := by
  intro h
  have := h [] [1, 2, 3, 4, 5, 6, 7, 8, 9, 10, 11, 12, 13, 14, 15] 14 (by decide) (by decide)
  revert this
  decide

/-! ### the instrument table -/

/-- the General MIDI level-1 sound set in program order (0..127), in the library's spelling of the names; written
from the GM specification, not from the table -/
def GM_NAMES : List String := [
  "piano", "bright_piano", "electric_piano", "honky_tonk", "electric_piano_1", "electric_piano_2", "harpsichord", "clavi",
  "celesta", "glockenspiel", "music_box", "vibraphone", "marimba", "xylophone", "tubular_bells", "dulcimer",
  "drawbar_organ", "percussive_organ", "rock_organ", "church_organ", "reed_organ", "accordion", "harmonica", "tango_accordion",
  "acoustic_guitar", "steel_guitar", "jazz_guitar", "clean_guitar", "muted_guitar", "overdriven_guitar", "distortion_guitar", "harmonic_guitar",
  "acoustic_bass", "electric_bass_finger", "electric_bass_pick", "fretless_bass", "slap_bass_1", "slap_bass_2", "synth_bass_1", "synth_bass_2",
  "violin", "viola", "cello", "contrabass", "tremolo_string", "pizzicato", "harp", "timpani",
  "string_ensemble_1", "string_ensemble_2", "synth_string_1", "synth_string_2", "choir_aahs", "choir_oohs", "synth_choir", "orchestra_hit",
  "trumpet", "trombone", "tuba", "muted_trumpet", "french_horn", "brass_section", "synth_brass_1", "synth_brass_2",
  "soprano_sax", "alto_sax", "tenor_sax", "baritone_sax", "oboe", "english_horn", "bassoon", "clarinet",
  "piccolo", "flute", "recorder", "pan_flute", "blown_bottle", "shakuhachi", "whistle", "ocarina",
  "square_lead", "sawtooth_lead", "calliope_lead", "chiff_lead", "charang_lead", "voice_lead", "fifths_lead", "bass_lead",
  "pad_new_age", "pad_warm", "pad_polysynth", "pad_choir", "pad_bowed", "pad_metallic", "pad_halo", "pad_sweep",
  "fx_rain", "fx_soundtrack", "fx_crystal", "fx_atmosphere", "fx_brightness", "fx_globlins", "fx_echoes", "fx_sci_fi",
  "sitar", "banjo", "shamisen", "koto", "kalimba", "bagpipe", "fiddle", "shanai",
  "tinkle_bell", "agogo", "steel_drums", "woodblock", "taiko_drum", "melodic_tom", "synth_drum", "reverse_cymbal",
  "guitar_fret_noise", "breath_noise", "seashore", "bird_tweet", "telephone_ring", "helicopter", "applause", "gunshot"]

/-- **instruments_table.**  The generated `INSTRUMENTS_DICT` is the General MIDI list by index: the i-th GM name maps
to program i (128 names), every other key of the table is a percussion alias ("drums…" ↦ 0), and a name that is
not in the table gets program 0. -/
theorem instruments_table :
    GM_NAMES.length = 128 ∧
    (GM_NAMES.zipIdx.all (fun (n, i) => MV.Gen.INSTRUMENTS_DICT.lookup n == some (i : Int))) = true ∧
    (MV.Gen.INSTRUMENTS_DICT.all (fun (n, p) => GM_NAMES.contains n || (n.startsWith "drums" && p == 0))) = true ∧
    (MV.Gen.INSTRUMENTS_DICT.all (fun (_, p) => byteOK p)) = true ∧
    programOf "no_such_instrument" = 0 := by
  refine ⟨by decide +kernel, by decide +kernel, by decide +kernel, by decide +kernel, by decide +kernel⟩

/-- the part name decides the program: the text before the first "__" -/
example : (tracksToInstruments ["violin__0", "drums_0__1", "piano__3", "kazoo__0", "flute"]).1 = [40, 0, 0, 0, 73] := by
  decide +kernel

/-! ### score level -/

/-- from a score to the matrix level: `Score.to_midi` is `matrix_to_mid` of the rendered note matrix with the
programs of the part names -/
theorem score_level {s : Score} {tempo : Int} {ts : Int × Int} {tracks : List (List Msg)}
    (h : scoreToMidi s tempo ts = .ok tracks) :
    ∃ rows, getNotes s = .ok rows ∧
      matrixToMid rows (tracksToInstruments (trackList s)).2 (tracksToInstruments (trackList s)).1 tempo ts = .ok tracks := by
  unfold scoreToMidi at h
  cases hg : getNotes s with
  | error e => simp [hg, bind, Except.bind] at h
  | ok rows =>
    simp only [hg, bind, Except.bind] at h
    exact ⟨rows, rfl, h⟩

instance instDecNote : DecidableEq (Int × Bool × Int × Int × Int) := inferInstance
instance instDecNotes : DecidableEq (List (Int × Bool × Int × Int × Int)) := inferInstance
instance instDecTracks : DecidableEq (List (List (Int × Bool × Int × Int × Int))) := inferInstance
instance (rows : List Row) : Decidable (RowsOnGrid rows) := by unfold RowsOnGrid; infer_instance

/-! ### non-vacuity: a concrete matrix meeting every hypothesis -/

/-- two piano parts and a violin: a held note (continuation), a rest, a triplet, a note ending where the next
of the same key begins -/
def exRows : List Row := [
  { pitch := 0, offset := 0, dur := 2, vel := 66, track := 0, silence := false, cont := false },
  { pitch := 0, offset := 2, dur := 1, vel := 66, track := 0, silence := false, cont := true },
  { pitch := 4, offset := 3, dur := 1, vel := 96, track := 0, silence := false, cont := false },
  { pitch := 7, offset := 0, dur := 1/3, vel := 43.2, track := 1, silence := false, cont := false },
  { pitch := 0, offset := 1/3, dur := 2/3, vel := 66, track := 1, silence := true, cont := false },
  { pitch := 7, offset := 1, dur := 3, vel := 66, track := 1, silence := false, cont := false },
  { pitch := 4, offset := 0, dur := 3, vel := 66, track := 2, silence := false, cont := false },
  { pitch := 4, offset := 3, dur := 1, vel := 66, track := 2, silence := false, cont := false } ]
def exNames : List String := ["piano", "violin", "piano"]
def exPrograms : List Int := [0, 40, 0]

example : finalRows exRows exNames exPrograms ≠ [] ∧ RowsOnGrid (finalRows exRows exNames exPrograms) ∧
    finalInstruments exRows exNames exPrograms = [0, 40] ∧ finalNames exRows exNames exPrograms = ["piano", "violin"] := by
  decide +kernel

example : ((matrixToMid exRows exNames exPrograms 97 (3, 4)).toOption.map (fun t => t.map (fun tr => noteEvents (decode tr)))) =
    some [[(0, true, 0, 60, 66), (0, true, 0, 64, 66), (1440, false, 0, 60, 66), (1440, false, 0, 64, 66),
          (1440, true, 0, 64, 96), (1440, true, 0, 64, 66), (1920, false, 0, 64, 96), (1920, false, 0, 64, 66)],
         [(0, true, 1, 67, 43), (160, false, 1, 67, 43), (480, true, 1, 67, 66), (1920, false, 1, 67, 66)]] := by
  decide +kernel

example : (matrixToMid exRows exNames exPrograms 97 (3, 4)).map (fun t => t.map (fun tr => tr.take 4)) =
    .ok [[.program 0 0 0, .trackName 0, .setTempo 0 618557, .timeSig 0 3 4], [.program 0 1 40, .noteOn 0 1 67 43,
          .noteOff 160 1 67 43, .noteOn 320 1 67 66]] := by
  decide +kernel

/-- the hypotheses of `succeeds` hold for it -/
example : (∀ r ∈ finalRows exRows exNames exPrograms, byteOK (r.pitch + 60) = true ∧ byteOK (truncRat r.vel) = true) ∧
    (∀ p ∈ exPrograms, byteOK p = true) ∧
    (instrumentList (finalInstruments exRows exNames exPrograms)).length ≤ 15 := by
  decide +kernel

/-- off the grid the ticks are truncated, not exact: three septuplets then a quarter (the correspondence stream
compares these too) -/
example : ¬ WholeTick (1 / 7) ∧
    (matrixToMid [{ pitch := 0, offset := 0, dur := 1/7, vel := 66, track := 0, silence := false, cont := false },
                  { pitch := 2, offset := 1/7, dur := 1/7, vel := 66, track := 0, silence := false, cont := false },
                  { pitch := 4, offset := 2/7, dur := 5/7, vel := 66, track := 0, silence := false, cont := false }]
        ["piano"] [0] 120 (4, 4)).map (fun t => t.map (fun tr => (noteEvents (decode tr)).map (·.1))) =
      .ok [[0, 68, 68, 136, 136, 478]] := by
  decide +kernel

/-- a score: I in C major, a held piano note and a violin third; rendered by `getNotes`, exported -/
def exScore : Score := [{ elem := 0, parts := [
  ("piano__0", [{ kind := .s, val := 0, oct := 0, dur := 2 }, { kind := .l, val := 0, oct := 0, dur := 2 }]),
  ("violin__0", [{ kind := .s, val := 2, oct := 0, dur := 4, amp := 96 }])] }]

example : ((scoreToMidi exScore 120 (4, 4)).toOption.map (fun t => t.map (fun tr => noteEvents (decode tr)))) =
    some [[(0, true, 0, 60, 66), (1920, false, 0, 60, 66)], [(0, true, 1, 64, 96), (1920, false, 1, 64, 96)]] := by
  decide +kernel


end MV.C07
