/-
Source tie, group `SrcEuclid` (DESIGN.md §9.6), serving C17: the source images py2lean generates from
`musiclang/write/rhythm/utils_metric.py` (`bjorklund_algorithm`) and `metric.py` (`Metric.duration`, `_nb_steps`, `Euclidian`,
`euclidian`, `reversed`, `get_array_between`, `_apply_durations_to_melody`, `apply_to_melody`, `FromMelody`, `from_melody`) equal the
hand-written model of `MV/Model/Metric.lean`, for all inputs.

Hypotheses, where there is one:
  * `pulses.toNat + 4 ≤ rec_fuel` — the generated `while True` loop and the local recursive `build` are definitions by recursion on
    a bound (`rec_fuel`: iterations of the loop, depth of `build`); the model's own bound for the loop is `pulses.toNat + 1`
    (`Props/C17.lean`: `bjorklund_terminates`, never exhausted), the loop makes at most that many turns, so `build` starts at a
    level `≤ pulses.toNat + 1` and needs depth `≤ level + 3`.  With the bound, source image = model on *every* pair of integers.
  * `m.sig.2 ≠ 0` — the model's `Metric` is a plain record, the Python object only exists after `Metric.__init__` has checked
    `signature in Metric.SIGNATURES` (all denominators positive: `C17.signatures_wellformed`); `self.duration` evaluates
    `frac(4, den)`, which the model's `durationOf` takes as total.
Helper lemmas: `MV/Lemmas/TieSrcEuclidLemmas.lean`.
-/
import MV.Lemmas.TieSrcEuclidLemmas
set_option linter.unusedSimpArgs false
namespace MV.Tie
open MV MV.Rhythm

theorem bjorklund_src (fuel : Nat) (steps pulses : Int) (h : pulses.toNat + 4 ≤ fuel) :
    Src.bjorklund_algorithm fuel steps pulses = bjorklund steps pulses := by
  unfold Src.bjorklund_algorithm bjorklund
  by_cases hps : pulses > steps
  · simp [hps]; rfl
  · simp only [hps, decide_false, Bool.false_eq_true, if_false]
    have hloop := loop_tie fuel (steps - pulses) pulses [] [] 0 rfl
    simp only [List.nil_append, Nat.cast_zero] at hloop
    rw [List.nil_append, hloop]
    have hsome := euclidLoop_some (steps - pulses) pulses
    cases hl : euclidLoop (pulses.toNat + 1) (steps - pulses) pulses with
    | none => exact absurd hl hsome
    | some res =>
      have hmono := euclidLoop_mono _ _ _ _ hl (fuel - (pulses.toNat + 1))
      have hfe : pulses.toNat + 1 + (fuel - (pulses.toNat + 1)) = fuel := by omega
      rw [hfe] at hmono
      rw [hmono]
      cases res with
      | error e => rfl
      | ok p =>
        obtain ⟨cs, rs⟩ := p
        obtain ⟨hlen, hbound⟩ := euclidLoop_shape _ _ _ _ _ hl
        have hne : cs ≠ [] := by intro hc; rw [hc] at hlen; simp at hlen
        dsimp only [bind, Except.bind]
        have hcs : cs.dropLast ++ [cs.getLastD 0] = cs := by
          rw [List.getLastD_eq_getLast?, List.getLast?_eq_some_getLast hne]
          exact List.dropLast_append_getLast hne
        rw [hcs]
        have hlv : (((0 + rs.length : Nat)) : Int) = (((cs.length - 1 + 2 : Nat)) : Int) - 2 := by
          rw [hlen]; push_cast; omega
        rw [hlv, build_tie cs (pulses :: rs) (cs.length - 1 + 2) fuel [] (by omega)]
        cases build cs (pulses :: rs) (cs.length - 1 + 2) with
        | error e => rfl
        | ok pattern =>
          dsimp only [bind, Except.bind, pure, Except.pure]
          rw [List.nil_append]
          exact rotate_tie pattern

theorem duration_src (m : Metric) :
    Src.Metric_duration m = if m.sig.2 = 0 then .error .zerodiv else .ok m.duration := by
  unfold Src.Metric_duration
  simp only [fracDiv_four]
  by_cases h : m.sig.2 = 0
  · simp [h]
  · simp only [h, if_false]
    show Except.ok _ = _
    congr 1
    unfold Metric.duration durationOf
    push_cast
    ring

theorem nbSteps_src (u : Src.MetricClass) (sig : Int × Int) (tatum : Rat) (nb : Int) :
    Src.Metric_nb_steps u sig tatum nb = nbSteps sig tatum nb := by
  unfold Src.Metric_nb_steps nbSteps
  simp only [fracDiv_four]
  by_cases h : sig.2 = 0
  · simp [h]; rfl
  · simp only [h, if_false]
    show (do let t_3 ← Py.fracDiv _ tatum; pure _) = _
    unfold Py.fracDiv
    by_cases ht : tatum = 0
    · simp [ht]
    · simp only [ht, if_false]
      rfl

theorem reversed_src (m : Metric) : Src.Metric_reversed m = m.reversed := by
  unfold Src.Metric_reversed Metric.reversed
  simp only [bind_pure]

theorem getArrayBetween_src (m : Metric) (start stop : Option Rat) (h : m.sig.2 ≠ 0) :
    Src.Metric_get_array_between m start stop = m.getArrayBetween start stop := by
  unfold Src.Metric_get_array_between
  have hd : Src.Metric_duration m = .ok m.duration := by rw [duration_src, if_neg h]
  have h0 : (((0 : Int) : Int) : Rat) = 0 := Int.cast_zero
  cases start with
  | some s =>
    cases stop with
    | some e => exact gab_core m s e
    | none =>
      simp only [hd]
      exact gab_core m s m.duration
  | none =>
    cases stop with
    | some e =>
      simp only [h0]
      exact gab_core m 0 e
    | none =>
      simp only [hd, h0]
      exact gab_core m 0 m.duration

theorem applyDurations_src (cls : Src.MetricClass) (notes : List Note) (beats : List (Bool × Rat)) (first expand : Bool) :
    Src.Metric_apply_durations_to_melody cls notes beats first expand = applyDurations notes beats first expand := by
  rw [adm_unfold]
  have := adm_fold notes first expand beats 0 []
  simp only [Nat.cast_zero] at this
  unfold Py.enumerate applyDurations
  rw [this]
  cases applyLoop notes first expand 0 beats with
  | error e => rfl
  | ok r => simp [bind, Except.bind, pure, Except.pure]

theorem applyToMelody_src (m : Metric) (melody : Melody) (expand : Bool) (start stop : Option Rat) (h : m.sig.2 ≠ 0) :
    Src.Metric_apply_to_melody m melody expand start stop = m.applyToMelody melody expand start stop := by
  unfold Src.Metric_apply_to_melody Metric.applyToMelody
  rw [getArrayBetween_src m start stop h]
  cases hg : m.getArrayBetween start stop with
  | error e => rfl
  | ok r =>
    obtain ⟨array, s, e⟩ := r
    have ht : m.tatum ≠ 0 := gab_tatum m start stop _ hg
    simp only [pySum_eq, listMul_single, silenceOf_one, getBeatDurations_src, melodyDuration_eq, ratMod_ok _ _ ht, applyDurations_src]
    dsimp only [bind, Except.bind]
    have hlen : Py.len melody = (melody.length : Int) := rfl
    have hcond : ((!expand && decide ((melody.length : Int) < array.sum)) = true) = (expand = false ∧ ((melody.length : Int) < array.sum)) := by
      simp
    simp only [hlen, hcond, decide_eq_true_eq]
    cases getBeatDurations m.tatum array with
    | error err => rfl
    | ok v =>
      dsimp only
      cases applyDurations (if expand = false ∧ ((melody.length : Int) < array.sum) then
            melody ++ List.replicate (array.sum - (melody.length : Int)).toNat silence1 else melody) v.1 v.2 expand with
      | error err => rfl
      | ok res =>
        dsimp only
        rcases List.eq_nil_or_concat res with rfl | ⟨init, x, rfl⟩
        · split
          · rfl
          · split <;> rfl
        · rw [List.concat_eq_append]
          simp only [pyIndex_last, setItem_last, setLast_concat]
          rfl

theorem fromMelody_src (cls : Src.MetricClass) (melody : Melody) (sig : Int × Int) (tatum : Option Rat) (nb : Int) :
    Src.Metric_FromMelody cls melody sig tatum nb = fromMelody melody sig tatum nb := by
  unfold Src.Metric_FromMelody
  cases tatum with
  | some t => exact fm_some melody sig t nb
  | none =>
    show (do let t_6 ← minRat (melody.map (fun (note : Note) => note.dur)); _) = _
    unfold fromMelody
    cases minRat (melody.map (fun (note : Note) => note.dur)) with
    | error e => rfl
    | ok t => exact fm_some melody sig t nb

theorem fromMelody_method_src (m : Metric) (melody : Melody) : Src.Metric_from_melody m melody = m.fromMelody melody := by
  unfold Src.Metric_from_melody Metric.fromMelody
  rw [fromMelody_src]

theorem euclidian_src (fuel : Nat) (cls : Src.MetricClass) (pulses : Int) (sig : Int × Int) (tatum : Rat) (nb : Int)
    (h : pulses.toNat + 4 ≤ fuel) :
    Src.Metric_Euclidian fuel cls pulses sig tatum nb = euclidian pulses sig tatum nb := by
  unfold Src.Metric_Euclidian euclidian
  rw [nbSteps_src]
  simp only [bjorklund_src fuel _ pulses h, bind_pure]

theorem euclidian_method_src (fuel : Nat) (m : Metric) (pulses : Int) (h : pulses.toNat + 4 ≤ fuel) :
    Src.Metric_euclidian fuel m pulses = euclidian pulses m.sig m.tatum m.nbBars := by
  unfold Src.Metric_euclidian
  rw [euclidian_src fuel _ pulses _ _ _ h]

/-! ### the hypotheses are satisfiable by non-trivial inputs -/

/-- a bound exists for every number of pulses (the driver passes exactly `pulses.toNat + 4`) -/
example (pulses : Int) : ∃ fuel : Nat, pulses.toNat + 4 ≤ fuel := ⟨pulses.toNat + 4, Nat.le_refl _⟩
example : Src.bjorklund_algorithm ((3 : Int).toNat + 4) 8 3 = .ok [1, 0, 0, 1, 0, 0, 1, 0] := by decide
/-- every grid the constructor accepts has a non-zero denominator -/
example (arr : List Int) (sig : Int × Int) (t : Rat) (nb : Int) (m : Metric) (h : Metric.mk? arr sig t nb = .ok m) :
    m.sig.2 ≠ 0 := by
  unfold Metric.mk? at h
  split at h
  · cases h
  · split at h
    · cases h
    · rename_i hs
      split at h
      · cases h
      · split at h
        · cases h
        · cases h; exact hs
example : ({ array := [1, 0, 0, 1], sig := (4, 4), tatum := 1, nbBars := 1 } : Metric).sig.2 ≠ 0 := by decide

end MV.Tie
