/-
C05 — part 3: the tabular (DataFrame) form, `Score.to_sequence` / `Score.from_sequence`.

Model: `scoreRows` (one row per note, in generation order), `fromRows` (`sequence_to_score` on the
rows in the order it receives them).  pandas' `sort_values(by='start')` is *not* modelled: the
theorems hold for **every** re-ordering of the rows that is sorted by `start` (whatever a sort
does with equal keys), which is all the code relies on.  `groupby` is modelled (sorted distinct
`chord_idx`; instruments in order of first appearance), DataFrame construction is trusted.
-/
import MV.Props.C05b
import MV.Lemmas.Rows

namespace MV.C05
open MV Gen MV.Text

/-! ## one note through one row -/

/-- `int(amp)` keeps the dynamics figure (true of integer amplitudes and of the eight dynamics) -/
def AmpOK (a : Rat) : Prop := Eq.ampFigure ((pyInt a : Int) : Rat) = Eq.ampFigure a

instance (a : Rat) : Decidable (AmpOK a) := by unfold AmpOK; exact inferInstance

/-- the note conditions of the clause — no accidental, no per-note mode, duration with denominator
≤ 8 — plus what the table has no column for: no tags; `int()` of the amplitude keeps its figure -/
def DFNote (n : Note) : Prop :=
  n.mode = none ∧ n.acc = none ∧ n.tags = [] ∧ n.dur.den ≤ 8 ∧ (Sounding n.kind → AmpOK n.amp)

instance (n : Note) : Decidable (DFNote n) := by unfold DFNote; exact inferInstance

theorem ampOK_int (i : Int) (h : 0 ≤ i) : AmpOK (i : Rat) := by
  unfold AmpOK pyInt
  have : (0 : Rat) ≤ (i : Rat) := by exact_mod_cast h
  simp [this, Rat.floor_intCast]

/-- the eight dynamics properties set amplitudes whose integer part has the same figure -/
theorem ampOK_dynamics : ∀ r ∈ DYNAMICS, AmpOK r.2.1 := by decide +kernel

theorem den8_limit (d : Rat) (h : d.den ≤ 8) : limitD (limitDenominator 8 d) = d := by
  rw [limitDenominator_id 8 d h]
  exact limitD_id (by unfold Den; exact le_trans h (by decide))

/-- **row encoding of a note**: the note rebuilt from its row equals the note on every compared field -/
theorem rows_note_roundtrip (n : Note) (h : DFNote n) : SameFields n (dfNote n) := by
  obtain ⟨kind, val, oct, dur, mode, acc, amp, tags, tempo, pedal⟩ := n
  obtain ⟨h1, h2, h3, h4, h5⟩ := h
  simp only at h1 h2 h3 h4 h5
  subst h1 h2 h3
  have hd : limitD dur = dur := limitD_id (by unfold Den; exact le_trans h4 (by decide))
  by_cases hr : kind = .r
  · subst hr
    simp [SameFields, dfNote, hd, Sounding]
  · by_cases hl : kind = .l
    · subst hl
      simp [SameFields, dfNote, hd, Sounding]
    · have hs : Sounding kind := ⟨hr, hl⟩
      have ha := h5 hs
      unfold AmpOK at ha
      simp [SameFields, dfNote, hr, hl, den8_limit dur h4, figure, ha]

/-- a relative note has no row: `chord.to_pitch(note)` is called without a last pitch (TypeError) -/
theorem rows_reject_relative (c : Chord) (idx : Nat) (inst : String) (n : Note) (ns : Melody) (t : Rat)
    (h : n.kind.isRelative = true) : melodyRows c idx inst (n :: ns) t = .error .type := by
  have hp : c.toPitch n none = .error .type := by
    unfold Chord.toPitch
    have h1 : n.kind ≠ .l := by intro hh; rw [hh] at h; simp [Kind.isRelative] at h
    have h2 : n.kind.isNote = true := by cases hk : n.kind <;> simp_all [Kind.isRelative, Kind.isNote]
    simp [h1, h2, h]
  simp [melodyRows, hp, bind, Except.bind]

/-! ## scores -/

/-- the sub-domain on which the clause is proved -/
structure DFScoreOK (s : Score) : Prop where
  chords : ∀ c ∈ s, DFChordOK c
  notes : ∀ c ∈ s, ∀ p ∈ c.parts, ∀ n ∈ p.2, DFNote n ∧ 0 < n.dur

/-- parts compared as a dictionary: some re-ordering of the parts has the same names and notes -/
def SamePartsDict (a b : List (String × Melody)) : Prop := ∃ ps, b.Perm ps ∧ SameParts a ps

def SameChordDict (c c' : Chord) : Prop :=
  c'.elem = c.elem ∧ extText c' = extText c ∧ c'.ton = c.ton ∧ c'.oct = c.oct ∧ SamePartsDict c.parts c'.parts

theorem sameMelody_df (m : Melody) (h : ∀ n ∈ m, DFNote n) : SameMelody m (m.map dfNote) := by
  unfold SameMelody
  induction m with
  | nil => exact List.Forall₂.nil
  | cons x xs ih =>
      exact List.Forall₂.cons (rows_note_roundtrip x (h x (by simp))) (ih (fun n hn => h n (by simp [hn])))

theorem sameParts_df (ps : List (String × Melody)) (h : ∀ p ∈ ps, ∀ n ∈ p.2, DFNote n) :
    SameParts ps (ps.map (fun p => (p.1, p.2.map dfNote))) := by
  unfold SameParts
  induction ps with
  | nil => exact List.Forall₂.nil
  | cons p ps ih =>
      exact List.Forall₂.cons ⟨rfl, sameMelody_df p.2 (h p (by simp))⟩ (ih (fun q hq => h q (by simp [hq])))

/-- **rows_roundtrip**: for every score of the sub-domain on which `to_sequence` succeeds (no relative
note, valid figures), and for every ordering of its rows that is sorted by `start`,
`from_sequence` succeeds and gives the same chords in the same order — degree, extension (the
explicit `'5'` included), tonality, octave — each with the same parts (as a dictionary) and the same
notes in order on every compared field. -/
theorem rows_roundtrip (s : Score) (h : DFScoreOK s) (rows : List SeqRow) (hrows : scoreRows s 0 0 = .ok rows)
    (π : List SeqRow) (hp : π.Perm rows) (hs : π.Pairwise (fun a b => a.start ≤ b.start)) :
    ∃ s', fromRows π = .ok s' ∧ List.Forall₂ SameChordDict s s' := by
  have hdom : RowsDomain s := fun c hc =>
    ⟨fun p hp n hn => (h.notes c hc p hp n hn).2, (h.chords c hc).names⟩
  obtain ⟨s', h1, h2⟩ := fromRows_spec s rows π hdom h.chords hrows hp hs
  refine ⟨s', h1, ?_⟩
  have hmem : ∀ c ∈ s, ∀ c', DFSame c c' → SameChordDict c c' := by
    intro c hc c' ⟨a, b, d, e, f⟩
    refine ⟨a, ?_, d, e, dfParts c, f, sameParts_df c.parts (fun p hp n hn => (h.notes c hc p hp n hn).1)⟩
    unfold extText
    rw [b, Eq.normalize_idem]
  clear h1 hrows hp hs hdom h
  induction h2 with
  | nil => exact List.Forall₂.nil
  | cons hab _ ih =>
      exact List.Forall₂.cons (hmem _ (by simp) _ hab) (ih (fun c hc => hmem c (by simp [hc])))

/-- in particular for the generation order itself when it is already sorted, and for the stable sort -/
theorem rows_roundtrip_sorted_rows (s : Score) (h : DFScoreOK s) (rows : List SeqRow) (hrows : scoreRows s 0 0 = .ok rows)
    (hs : rows.Pairwise (fun a b => a.start ≤ b.start)) :
    ∃ s', fromRows rows = .ok s' ∧ List.Forall₂ SameChordDict s s' :=
  rows_roundtrip s h rows hrows rows (List.Perm.refl _) hs

/-! ### the clause as the property words it, and where it fails -/

/-- the clause with only the conditions the property states (non-relative is implied by
`to_sequence` succeeding; no accidental / mode; denominators ≤ 8) -/
def RowsRoundtrip_full : Prop :=
  ∀ s : Score, (∀ c ∈ s, ∀ p ∈ c.parts, ∀ n ∈ p.2, n.mode = none ∧ n.acc = none ∧ n.dur.den ≤ 8) →
    ∀ rows, scoreRows s 0 0 = .ok rows → ∃ s', fromRows rows = .ok s' ∧ List.Forall₂ SameChordDict s s'

def wTagged : Score :=
  [{ elem := 0, ton := ⟨0, .M, 0⟩, parts := [("piano__0", [{ kind := .s, val := 0, oct := 0, tags := ["accent"] }])] }]

/-- tags have no column: `s0.accent` comes back as `s0` -/
theorem rows_drop_tags :
    (scoreRows wTagged 0 0 >>= fromRows)
      = .ok [{ elem := 0, ton := ⟨0, .M, 0⟩, parts := [("piano__0", [{ kind := .s, val := 0, oct := 0 }])] }] := by
  decide +kernel

/-- a chord without notes has no row: it is missing from the result -/
theorem rows_drop_empty_chord :
    (scoreRows [{ elem := 3, ton := ⟨0, .M, 0⟩, parts := [("piano__0", [{ kind := .s, val := 0, oct := 0 }])] },
                { elem := 0, ton := ⟨0, .M, 0⟩ }] 0 0 >>= fromRows).map List.length = .ok 1 := by
  decide +kernel

theorem rows_roundtrip_fails : ¬ RowsRoundtrip_full := by
  intro h
  have hrows : ∃ rows, scoreRows wTagged 0 0 = .ok rows := by
    cases hr : scoreRows wTagged 0 0 with
    | ok rows => exact ⟨rows, rfl⟩
    | error e => have := rows_drop_tags; simp [hr, bind, Except.bind] at this
  obtain ⟨rows, hr⟩ := hrows
  obtain ⟨s', h1, h2⟩ := h wTagged (by
    intro c hc p hp n hn
    simp only [wTagged, List.mem_singleton] at hc; subst hc
    simp only [List.mem_singleton] at hp; subst hp
    simp only [List.mem_singleton] at hn; subst hn
    decide) rows hr
  have hb := rows_drop_tags
  simp only [hr, bind, Except.bind, h1] at hb
  injection hb with hb
  subst hb
  cases h2 with
  | cons hab _ =>
      obtain ⟨_, _, _, _, ps, hperm, hsame⟩ := hab
      have hps : ps = [("piano__0", [{ kind := .s, val := 0, oct := 0 }])] := by
        have := hperm.symm
        simpa using this.eq_singleton
      subst hps
      cases hsame with
      | cons hq _ =>
          obtain ⟨_, hm⟩ := hq
          cases hm with
          | cons hn _ => exact absurd hn.2.2.1 (by decide)

/-! ### non-vacuity -/

def exDF : Score :=
  [{ elem := 4, ext := { fig := .f5 }, ton := ⟨1, .m, -1⟩, oct := 2,
     parts := [("piano__0", [{ kind := .s, val := 0, oct := 0, dur := 3/2 }, { kind := .r, val := 0, oct := 0, dur := 1/2 },
                             { kind := .h, val := 3, oct := 1, dur := 5/8, amp := 96 }]),
               ("drums_0__0", [{ kind := .d, val := 3, oct := 0, dur := 2 }])] },
   { elem := 0, ton := ⟨0, .M, 0⟩, parts := [("violin__1", [{ kind := .a, val := 9, oct := -1, dur := 3, amp := 40 }])] }]

example : (scoreRows exDF 0 0).map List.length = .ok 5 := by decide +kernel
example : (scoreRows exDF 0 0 >>= fromRows) = .ok exDF := by decide +kernel
example : DFNote { kind := .h, val := 3, oct := 1, dur := 5/8, amp := 96 } ∧ ¬ DFNote { kind := .s, val := 0, oct := 0, dur := 1/16 } := by
  decide +kernel

/-- the example score meets every hypothesis of `rows_roundtrip` -/
example : DFScoreOK exDF := by
  refine ⟨?_, ?_⟩
  · intro c hc
    simp only [exDF, List.mem_cons, List.not_mem_nil, or_false] at hc
    rcases hc with rfl | rfl
    · refine ⟨by decide, by decide, ?_, by decide⟩
      intro p hp
      simp only [List.mem_cons, List.not_mem_nil, or_false] at hp
      rcases hp with rfl | rfl
      · exact ⟨false, by decide +kernel, by intro hh; exact absurd hh (by decide)⟩
      · exact ⟨true, by decide +kernel, by intro _ n hn; simp only [List.mem_singleton] at hn; subst hn; decide⟩
    · refine ⟨by decide, by decide, ?_, by decide⟩
      intro p hp
      simp only [List.mem_singleton] at hp
      subst hp
      exact ⟨false, by decide +kernel, by intro hh; exact absurd hh (by decide)⟩
  · intro c hc p hp n hn
    simp only [exDF, List.mem_cons, List.not_mem_nil, or_false] at hc
    rcases hc with rfl | rfl <;> simp only [List.mem_cons, List.not_mem_nil, or_false] at hp
    · rcases hp with rfl | rfl <;> simp only [List.mem_cons, List.not_mem_nil, or_false] at hn
      · rcases hn with rfl | rfl | rfl <;> decide +kernel
      · subst hn; decide +kernel
    · subst hp
      simp only [List.mem_singleton] at hn
      subst hn; decide +kernel

end MV.C05
