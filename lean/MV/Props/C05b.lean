/-
C05 — the text form of any object evaluates back to an equal object.  Part 2: tonalities, chords,
custom chords, scores (`Score.from_str`), and what follows for the sound.

Every statement is about the model `MV/Model/Text.lean`; all chords / scores of the model's types
are quantified over (any number of parts, notes, chords; any `Int` octave).
-/
import MV.Props.C05
import MV.Lemmas.TextScore
import MV.Model.Render

namespace MV.C05
open MV Gen MV.Text

/-! ## tonalities -/

/-- **tonality_roundtrip**: all 12 degrees × 9 modes × every octave in ℤ: the printed form
(`DEGREE_TO_STR[degree].mode[.o(k)]`) evaluates — through `Element.b/.s/.<mode>`,
`Tonality.b/.s/.<mode>/.o` — to the same tonality -/
theorem tonality_roundtrip (t : Tonality) (h0 : 0 ≤ t.deg) (h1 : t.deg < 12) :
    ∃ c, tonCode t = .ok c ∧ evalTCode c = .ok t :=
  tonality_code_eval t h0 h1

/-- outside 0..11 the tonality has no text form (`DEGREE_TO_STR[degree]` raises KeyError) -/
theorem tonality_rejected (t : Tonality) (h : t.deg < 0 ∨ 12 ≤ t.deg) : tonCode t = .error .key :=
  tonCode_rejects t h

/-- every name of the generated table `DEGREE_TO_STR` is in the grammar `SYM(.b|.s)*` -/
theorem degree_names_in_grammar : ∀ p ∈ DEGREE_TO_STR, (parseDegree p.2).isSome = true := degree_table_parses

example : (tonCode ⟨1, .dorian, -3⟩).map TCode.text = .ok "II.b.dorian.o(-3)" := by decide +kernel
example : evalTCode { sym := "VII", ops := [.sharp, .mode .locrian] } = .ok ⟨0, .locrian, 1⟩ := by decide +kernel

/-! ## what is compared on chords -/

def SameMelody (a b : Melody) : Prop := List.Forall₂ SameFields a b

/-- same parts in the same order, each with the same notes -/
def SameParts (a b : List (String × Melody)) : Prop :=
  List.Forall₂ (fun p q => p.1 = q.1 ∧ SameMelody p.2 q.2) a b

/-- the extension as the object stores it (a normalised string) -/
def extText (c : Chord) : String := c.ext.normalize.toText

/-- chords equal on degree, extension, tonality, octave, parts -/
def SameChord (a b : Chord) : Prop :=
  a.elem = b.elem ∧ extText a = extText b ∧ a.ton = b.ton ∧ a.oct = b.oct ∧ SameParts a.parts b.parts

def PrintableParts (ps : List (String × Melody)) : Prop := ∀ p ∈ ps, ∀ n ∈ p.2, Printable n

theorem sameMelody_reread (m : Melody) (h : ∀ n ∈ m, Printable n) : SameMelody m (rereadMelody m) := by
  unfold SameMelody rereadMelody
  induction m with
  | nil => exact List.Forall₂.nil
  | cons x xs ih =>
      exact List.Forall₂.cons (sameFields_reread x (h x (by simp))) (ih (fun n hn => h n (by simp [hn])))

theorem sameParts_reread (ps : List (String × Melody)) (h : PrintableParts ps) : SameParts ps (rereadParts ps) := by
  unfold SameParts rereadParts
  induction ps with
  | nil => exact List.Forall₂.nil
  | cons p ps ih =>
      exact List.Forall₂.cons ⟨rfl, sameMelody_reread p.2 (h p (by simp))⟩
        (ih (fun q hq => h q (by simp [hq])))

theorem extText_reread (c : Chord) (h5 : extText c ≠ "5") : extText (rereadChord c) = extText c := by
  unfold extText at h5 ⊢
  simp only [rereadChord, rereadExt_normalize]
  by_cases he : c.ext.normalize.toText = ""
  · have : extCodeOf c = none := by simp [extCodeOf, he]
    simp only [rereadExt, this, he]
    decide
  · rw [rereadExt_of_printed c h5 he]

/-! ## chords -/

/-- **Closed form of a chord's round trip**: for every chord of the library domain the printed form
exists, evaluates without error, and gives `rereadChord c`: same degree, tonality, octave, part
names in order; extension kept (`''` and `'5'` both read as `''`); every note re-read. -/
theorem chord_reread (c : Chord) (h : ChordOK c) : ∃ cc, chordCode c = .ok cc ∧ evalChord cc = .ok (rereadChord c) :=
  chord_code_eval c h

/-- the full statement for chords -/
def ChordRoundtrip_full : Prop :=
  ∀ c : Chord, ChordOK c → PrintableParts c.parts →
    ∃ cc c', chordCode c = .ok cc ∧ evalChord cc = .ok c' ∧ SameChord c c'

/-- **chord_roundtrip (partial)**: degree, extension, tonality, octave, parts in order and their notes
come back, for every chord whose stored extension is not the explicit figure `'5'` -/
theorem chord_roundtrip_partial (c : Chord) (h : ChordOK c) (hp : PrintableParts c.parts) (h5 : extText c ≠ "5") :
    ∃ cc c', chordCode c = .ok cc ∧ evalChord cc = .ok c' ∧ SameChord c c' := by
  obtain ⟨cc, h1, h2⟩ := chord_reread c h
  exact ⟨cc, rereadChord c, h1, h2, rfl, (extText_reread c h5).symm, rfl, rfl, sameParts_reread c.parts hp⟩

/-- D9: `(I['5'] % I.M)(piano__0=s0)` prints `(I % I.M)(…)` and comes back with extension `''` -/
theorem figure5_needed :
    let c : Chord := { elem := 0, ext := { fig := .f5 }, ton := ⟨0, .M, 0⟩, parts := [("piano__0", [{ kind := .s, val := 0, oct := 0 }])] }
    (chordCode c).map ChordCode.text = .ok "(I % I.M)(\n\tpiano__0=s0)" ∧
      (chordCode c >>= evalChord) = .ok { c with ext := {} } ∧ extText c = "5" ∧ extText { c with ext := {} } = "" := by
  decide +kernel

theorem chord_roundtrip_fails : ¬ ChordRoundtrip_full := by
  intro h
  let c : Chord := { elem := 0, ext := { fig := .f5 }, ton := ⟨0, .M, 0⟩, parts := [("piano__0", [{ kind := .s, val := 0, oct := 0 }])] }
  have hok : ChordOK c :=
    { elem := by decide
      deg := by decide
      ext := by
        intro e he
        have hnone : extCodeOf c = none := by decide +kernel
        rw [hnone] at he; cases he
      parts := by
        intro p hp
        simp only [c, List.mem_singleton] at hp
        subst hp
        exact ⟨⟨by decide, by intro n hn; simp only [List.mem_singleton] at hn; subst hn; decide +kernel⟩,
          false, by decide +kernel, by intro hh; exact absurd hh (by decide)⟩
      names := by decide }
  obtain ⟨cc, c', h1, h2, _, he, _⟩ := h c hok (by
    intro p hp n hn
    simp only [c, List.mem_singleton] at hp; subst hp
    simp only [List.mem_singleton] at hn; subst hn
    decide +kernel)
  have hb : (chordCode c >>= evalChord) = .ok { c with ext := {} } := by decide +kernel
  rw [h1] at hb
  simp only [bind, Except.bind, h2] at hb
  injection hb with hb
  subst hb
  revert he
  decide +kernel

/-- the two spellings denote the same chord tones: the table rows of `'5'` and `''` are equal -/
theorem figure5_same_tones : BASE_EXTENSION_DICT .f5 = BASE_EXTENSION_DICT .f0 := by decide +kernel

/-! ## custom chords -/

/-- **Closed form for custom chords** (`TON(notes…).o(k)(parts)`): notes, tonality, octave, parts come back -/
theorem custom_reread (c : Custom) (h : CustomOK c) : ∃ cc, customCode c = .ok cc ∧ evalCustom cc = .ok (rereadCustom c) :=
  custom_code_eval c h

theorem custom_roundtrip (c : Custom) (h : CustomOK c) (hn : ∀ n ∈ c.notes, Printable n) (hp : PrintableParts c.chord.parts) :
    ∃ cc c', customCode c = .ok cc ∧ evalCustom cc = .ok c' ∧
      SameMelody c.notes c'.notes ∧ c'.chord.ton = c.chord.ton ∧ c'.chord.oct = c.chord.oct ∧
      SameParts c.chord.parts c'.chord.parts := by
  obtain ⟨cc, h1, h2⟩ := custom_reread c h
  exact ⟨cc, rereadCustom c, h1, h2, sameMelody_reread c.notes hn, rfl, rfl, sameParts_reread _ hp⟩

/-! ## scores: `Score.from_str(str(score))` -/

/-- the defect of the splitter: the first piece is a single chord (the second chord is plain) and a
later piece holds two chords (a custom chord further on) -/
def nests : List Item → Bool
  | _ :: b :: rest => b.isPlain && rest.any (fun i => !i.isPlain)
  | _ => false

/-- **Closed form for scores**: for every non-empty score of library-domain chords and custom chords on
which the splitter does not nest, `from_str(str(score))` gives the re-read chords, one by one, flat -/
theorem score_reread (s : List Item) (hne : s ≠ []) (h : ∀ i ∈ s, ItemOK i) (hn : nests s = false) :
    ∃ cs, scoreCodes s = .ok cs ∧ fromStr cs = .ok (flatResult s) := by
  obtain ⟨cs, h1, h2, h3, h4⟩ := score_codes s h
  refine ⟨cs, h1, ?_⟩
  match s, cs, h4 with
  | [], _, _ => exact absurd rfl hne
  | [i], [ic], h4 => exact fromStr_all_plain [ic] [i] (by simp) h4 (by simp)
  | i :: j :: rest, ic :: jc :: crest, h4 =>
      have hj : jc.isPlain = j.isPlain := by
        have := h3; simp only [List.map_cons, List.cons.injEq] at this; exact this.2.1
      have hrest : crest.map ItemCode.isPlain = rest.map Item.isPlain := by
        have := h3; simp only [List.map_cons, List.cons.injEq] at this; exact this.2.2
      by_cases hb : j.isPlain = true
      · -- all later chords are plain
        have hall : rest.any (fun i => !i.isPlain) = false := by simpa [nests, hb] using hn
        apply fromStr_all_plain _ _ hne h4
        intro y hy
        simp only [List.tail_cons, List.mem_cons] at hy
        rcases hy with rfl | hy
        · rw [hj, hb]
        · have : y.isPlain ∈ crest.map ItemCode.isPlain := List.mem_map_of_mem hy
          rw [hrest] at this
          obtain ⟨z, hz, hzy⟩ := List.mem_map.mp this
          have := (List.any_eq_false.mp hall) z hz
          simp only [Bool.not_eq_true', Bool.not_eq_false] at this
          rw [← hzy]; simpa using this
      · have hb' : jc.isPlain = false := by rw [hj]; simpa using hb
        exact fromStr_second_custom ic jc crest _ h2 h hb'

def SameItem : Item → Item → Prop
  | .plain a, .plain b => SameChord a b
  | .custom a, .custom b =>
      SameMelody a.notes b.notes ∧ a.chord.ton = b.chord.ton ∧ a.chord.oct = b.chord.oct ∧ SameParts a.chord.parts b.chord.parts
  | _, _ => False

def ItemPrintable : Item → Prop
  | .plain c => PrintableParts c.parts ∧ extText c ≠ "5"
  | .custom c => (∀ n ∈ c.notes, Printable n) ∧ PrintableParts c.chord.parts

theorem sameItem_reread (i : Item) (h : ItemPrintable i) : SameItem i (rereadItem i) := by
  cases i with
  | plain c => exact ⟨rfl, (extText_reread c h.2).symm, rfl, rfl, sameParts_reread _ h.1⟩
  | custom c => exact ⟨sameMelody_reread _ h.1, rfl, rfl, sameParts_reread _ h.2⟩

/-- the full statement for scores -/
def ScoreRoundtrip_full : Prop :=
  ∀ s : List Item, s ≠ [] → (∀ i ∈ s, ItemOK i ∧ ItemPrintable i) →
    ∃ cs r, scoreCodes s = .ok cs ∧ fromStr cs = .ok r ∧ ∃ l, flat r = some l ∧ List.Forall₂ SameItem s l

theorem flat_flatResult (s : List Item) : flat (flatResult s) = some (s.map rereadItem) := by
  induction s with
  | nil => rfl
  | cons i s ih => simp only [flatResult, List.map_cons, flat] at ih ⊢; rw [ih]; rfl

/-- **score_roundtrip (partial)**: same chords in the same order, each equal on degree, extension,
tonality, octave, parts and notes — whenever the splitter does not nest -/
theorem score_roundtrip_partial (s : List Item) (hne : s ≠ []) (h : ∀ i ∈ s, ItemOK i ∧ ItemPrintable i)
    (hn : nests s = false) :
    ∃ cs r, scoreCodes s = .ok cs ∧ fromStr cs = .ok r ∧ ∃ l, flat r = some l ∧ List.Forall₂ SameItem s l := by
  obtain ⟨cs, h1, h2⟩ := score_reread s hne (fun i hi => (h i hi).1) hn
  refine ⟨cs, flatResult s, h1, h2, s.map rereadItem, flat_flatResult s, ?_⟩
  have hp : ∀ i ∈ s, ItemPrintable i := fun i hi => (h i hi).2
  clear h h1 h2 hn hne
  induction s with
  | nil => exact List.Forall₂.nil
  | cons i s ih =>
      exact List.Forall₂.cons (sameItem_reread i (hp i (by simp))) (ih (fun j hj => hp j (by simp [hj])))

/-- scores of plain chords never nest: the usual case needs no side condition on the shape -/
theorem plain_scores_never_nest (s : List Chord) : nests (s.map Item.plain) = false := by
  match s with
  | [] => rfl
  | [a] => rfl
  | a :: b :: rest =>
      simp only [List.map_cons, nests, Item.isPlain, Bool.true_and]
      rw [List.any_eq_false]
      intro x hx
      obtain ⟨c, _, rfl⟩ := List.mem_map.mp hx
      simp [Item.isPlain]

def wPlain (e : Int) : Chord :=
  { elem := e, ton := ⟨0, .M, 0⟩, parts := [("piano__0", [{ kind := .s, val := 0, oct := 0 }])] }
def wCustom : Custom :=
  { notes := [{ kind := .s, val := 0, oct := 0 }]
    chord := { elem := 0, ton := ⟨0, .M, 0⟩, parts := [("piano__0", [{ kind := .b, val := 0, oct := 0, dur := 2 }])] } }

/-- the nesting defect: a plain chord, a plain chord, a custom chord.  The text is cut once, the
second piece `(V % I.M)(…)+ I.M(s0)(…)` is a sum, and the result is `Score([chord, Score([…])])` -/
theorem score_nesting_witness :
    let s : List Item := [.plain (wPlain 3), .plain (wPlain 4), .custom wCustom]
    nests s = true ∧
    (scoreCodes s).map scoreText = .ok ("(IV % I.M)(\n\tpiano__0=s0)+ \n(V % I.M)(\n\tpiano__0=s0)+ \nI.M(s0)(\n\tpiano__0=b0.h)") ∧
    (reread s).map (fun r => (r.length, flat r)) = .ok (2, none) := by
  decide +kernel

theorem score_roundtrip_fails : ¬ ScoreRoundtrip_full := by
  intro h
  have hw : ∀ i ∈ ([.plain (wPlain 3), .plain (wPlain 4), .custom wCustom] : List Item), ItemOK i ∧ ItemPrintable i := by
    have hplain : ∀ e, (e = 3 ∨ e = 4) → ItemOK (.plain (wPlain e)) ∧ ItemPrintable (.plain (wPlain e)) := by
      intro e he
      have hnone : extCodeOf (wPlain e) = none := by rcases he with rfl | rfl <;> decide +kernel
      have h5 : extText (wPlain e) ≠ "5" := by rcases he with rfl | rfl <;> decide +kernel
      refine ⟨{ elem := (by rcases he with rfl | rfl <;> decide), deg := (by rcases he with rfl | rfl <;> decide),
                ext := (by intro x hx; rw [hnone] at hx; cases hx), parts := ?_,
                names := (by rcases he with rfl | rfl <;> decide) }, ?_, h5⟩
      · intro p hp
        simp only [wPlain, List.mem_singleton] at hp; subst hp
        exact ⟨⟨by decide, by intro n hn; simp only [List.mem_singleton] at hn; subst hn; decide +kernel⟩,
          false, by decide +kernel, by intro hh; exact absurd hh (by decide)⟩
      · intro p hp n hn
        simp only [wPlain, List.mem_singleton] at hp; subst hp
        simp only [List.mem_singleton] at hn; subst hn
        decide +kernel
    intro i hi
    simp only [List.mem_cons, List.not_mem_nil, or_false] at hi
    rcases hi with rfl | rfl | rfl
    · exact hplain 3 (Or.inl rfl)
    · exact hplain 4 (Or.inr rfl)
    · refine ⟨{ deg := by decide, notes := ?_, parts := ?_, names := by decide }, ?_, ?_⟩
      · intro n hn; simp only [wCustom, List.mem_singleton] at hn; subst hn; decide +kernel
      · intro p hp
        simp only [wCustom, List.mem_singleton] at hp; subst hp
        exact ⟨⟨by decide, by intro n hn; simp only [List.mem_singleton] at hn; subst hn; decide +kernel⟩,
          false, by decide +kernel, by intro hh; exact absurd hh (by decide)⟩
      · intro n hn; simp only [wCustom, List.mem_singleton] at hn; subst hn; decide +kernel
      · intro p hp n hn
        simp only [wCustom, List.mem_singleton] at hp; subst hp
        simp only [List.mem_singleton] at hn; subst hn
        decide +kernel
  obtain ⟨cs, r, h1, h2, l, h3, _⟩ := h _ (by simp) hw
  have hr : (reread [.plain (wPlain 3), .plain (wPlain 4), .custom wCustom]).map flat = .ok none := by decide +kernel
  unfold reread at hr
  simp only [h1, bind, Except.bind, h2, Except.map] at hr
  injection hr with hr
  rw [h3] at hr
  exact absurd hr (by simp)

/-! ## identity on canonical scores, hence the same sound -/

/-- every note canonical and printable, the chord stores what the printer writes -/
def ChordCanonical (c : Chord) : Prop :=
  rereadExt c = c.ext ∧ ∀ p ∈ c.parts, ∀ n ∈ p.2, Printable n ∧ Canonical n

theorem rereadNote_canonical (n : Note) (h : InLibrary n ∧ Den n.dur ∧ n.tags.Nodup) (hp : Printable n) (hc : Canonical n) :
    rereadNote n = n := by
  have a := note_reread n h
  have b := note_roundtrip_exact n h hp hc
  rw [a] at b
  injection b

theorem rereadChord_canonical (c : Chord) (h : ChordOK c) (hc : ChordCanonical c) : rereadChord c = c := by
  obtain ⟨elem, ext, ton, oct, parts⟩ := c
  have hparts : rereadParts parts = parts := by
    unfold rereadParts
    conv_rhs => rw [← List.map_id parts]
    apply List.map_congr_left
    intro p hp
    have hm : rereadMelody p.2 = p.2 := by
      unfold rereadMelody
      conv_rhs => rw [← List.map_id p.2]
      apply List.map_congr_left
      intro n hn
      exact rereadNote_canonical n ((h.parts p hp).1.2 n hn) (hc.2 p hp n hn).1 (hc.2 p hp n hn).2
    simp [hm]
  have hext : rereadExt ⟨elem, ext, ton, oct, parts⟩ = ext := hc.1
  simp only [rereadChord, hparts, hext]

/-- **score_roundtrip_exact**: a score of plain chords with canonical notes comes back as *the same
score* of the model — so every function of it, the rendering in particular, gives the same result -/
theorem score_roundtrip_exact (s : Score) (hne : s ≠ []) (h : ∀ c ∈ s, ChordOK c ∧ ChordCanonical c) :
    ∃ cs, scoreCodes (s.map Item.plain) = .ok cs ∧ fromStr cs = .ok (s.map (fun c => Obj.chord (.plain c))) := by
  obtain ⟨cs, h1, h2⟩ := score_reread (s.map Item.plain) (by simpa using hne)
    (by intro i hi; obtain ⟨c, hc, rfl⟩ := List.mem_map.mp hi; exact (h c hc).1) (plain_scores_never_nest s)
  refine ⟨cs, h1, ?_⟩
  rw [h2]
  congr 1
  unfold flatResult
  rw [List.map_map]
  apply List.map_congr_left
  intro c hc
  simp [rereadItem, rereadChord_canonical c (h c hc).1 (h c hc).2]

/-- the chords of a flat result -/
def plainChords : List Obj → Option Score
  | [] => some []
  | .chord (.plain c) :: rest => (plainChords rest).map (c :: ·)
  | _ => none

theorem plainChords_map (s : Score) : plainChords (s.map (fun c => Obj.chord (.plain c))) = some s := by
  induction s with
  | nil => rfl
  | cons c s ih => simp only [List.map_cons, plainChords, ih]; rfl

/-- **sound_preserved**: the re-read score renders to the same note matrix and the same events
(C03's `getNotes` / `toEvents`), on canonical scores -/
theorem sound_preserved (s : Score) (hne : s ≠ []) (h : ∀ c ∈ s, ChordOK c ∧ ChordCanonical c) (tempo : Rat) :
    ∃ cs r s', scoreCodes (s.map Item.plain) = .ok cs ∧ fromStr cs = .ok r ∧ plainChords r = some s' ∧
      getNotes s' = getNotes s ∧ toEvents s' tempo = toEvents s tempo := by
  obtain ⟨cs, h1, h2⟩ := score_roundtrip_exact s hne h
  exact ⟨cs, _, s, h1, h2, plainChords_map s, rfl, rfl⟩

/-! ### non-vacuity -/

def exChord : Chord :=
  { elem := 4, ext := { fig := .f7, repl := ["sus4"], add := ["add6"] }, ton := ⟨1, .m, -1⟩, oct := 2,
    parts := [("piano__0", [{ kind := .s, val := 0, oct := 0 }, { kind := .s, val := 1, oct := 1, dur := 1/2, amp := 96 }]),
              ("drums_0__0", [{ kind := .d, val := 3, oct := 0 }, { kind := .r, val := 0, oct := 0, dur := 2 }])] }

example : (chordCode exChord).map ChordCode.text
    = .ok "(V['7(sus4)[add6]'] % II.b.m.o(-1)).o(2)(\n\tpiano__0=s0 + s1.e.o(1).f, \n\tdrums_0__0=d3 + r.h)" := by
  decide +kernel
example : (chordCode exChord >>= evalChord) = .ok exChord := by decide +kernel
example : partKey "drums_0__0" = .ok ("drums_0__0", true) ∧ partKey "piano__0" = .ok ("piano__0", false) := by decide +kernel
example : ExtAccepted 4 { fig := .f7, repl := ["sus4"], add := ["add6"] } := extAccepted_of_isOk _ _ (by decide +kernel)
example : nests [.plain (wPlain 3), .custom wCustom, .plain (wPlain 4)] = false
    ∧ ((reread [.plain (wPlain 3), .custom wCustom, .plain (wPlain 4)]).map (fun r => (r.length, (flat r).isSome)) = .ok (3, true)) := by
  decide +kernel

/-- a non-trivial chord (modifiers, both octaves, a drums part, dynamics) meets every hypothesis of
`chord_roundtrip_partial` -/
example : ChordOK exChord ∧ PrintableParts exChord.parts ∧ extText exChord ≠ "5" := by
  refine ⟨{ elem := by decide, deg := by decide, ext := ?_, parts := ?_, names := by decide }, ?_, by decide +kernel⟩
  · intro e he
    have := extCodeOf_some exChord e he
    subst this
    exact extAccepted_of_isOk _ _ (by decide +kernel)
  · intro p hp
    simp only [exChord, List.mem_cons, List.not_mem_nil, or_false] at hp
    rcases hp with rfl | rfl
    · refine ⟨⟨by decide, ?_⟩, false, by decide +kernel, by intro hh; exact absurd hh (by decide)⟩
      intro n hn
      simp only [List.mem_cons, List.not_mem_nil, or_false] at hn
      rcases hn with rfl | rfl <;> decide +kernel
    · refine ⟨⟨by decide, ?_⟩, true, by decide +kernel, ?_⟩
      · intro n hn
        simp only [List.mem_cons, List.not_mem_nil, or_false] at hn
        rcases hn with rfl | rfl <;> decide +kernel
      · intro _ n hn
        simp only [List.mem_cons, List.not_mem_nil, or_false] at hn
        rcases hn with rfl | rfl <;> decide
  · intro p hp n hn
    simp only [exChord, List.mem_cons, List.not_mem_nil, or_false] at hp
    rcases hp with rfl | rfl <;> simp only [List.mem_cons, List.not_mem_nil, or_false] at hn <;>
      rcases hn with rfl | rfl <;> decide +kernel

end MV.C05
