/-
C05 — the text form of any object evaluates back to an equal object.  Part 2: tonalities, chords,
custom chords, scores (`Score.from_str`), and what follows for the sound.

Every statement is about the model `MV/Model/Text.lean`; all chords / scores of the model's types
are quantified over (any number of parts, notes, chords; any `Int` octave).
-/
import MV.Props.C05
import MV.Lemmas.TextScore
import MV.Model.Render

namespace MV.C05
open MV Gen MV.Text

/-! ## tonalities -/

/-- **tonality_roundtrip**: all 12 degrees × 9 modes × every octave in ℤ: the printed form
(`DEGREE_TO_STR[degree].mode[.o(k)]`) evaluates — through `Element.b/.s/.<mode>`,
`Tonality.b/.s/.<mode>/.o` — to the same tonality -/
theorem tonality_roundtrip (t : Tonality) (h0 : 0 ≤ t.deg) (h1 : t.deg < 12) :
    ∃ c, tonCode t = .ok c ∧ evalTCode c = .ok t :=
  tonality_code_eval t h0 h1

/-- outside 0..11 the tonality has no text form (`DEGREE_TO_STR[degree]` raises KeyError) -/
theorem tonality_rejected (t : Tonality) (h : t.deg < 0 ∨ 12 ≤ t.deg) : tonCode t = .error .key :=
  tonCode_rejects t h

/-- every name of the generated table `DEGREE_TO_STR` is in the grammar `SYM(.b|.s)*` -/
theorem degree_names_in_grammar : ∀ p ∈ DEGREE_TO_STR, (parseDegree p.2).isSome = true := degree_table_parses

example : (tonCode ⟨1, .dorian, -3⟩).map TCode.text = .ok "II.b.dorian.o(-3)" := by decide +kernel
example : evalTCode { sym := "VII", ops := [.sharp, .mode .locrian] } = .ok ⟨0, .locrian, 1⟩ := by decide +kernel

/-! ## what is compared on chords -/

def SameMelody (a b : Melody) : Prop := List.Forall₂ SameFields a b

/-- same parts in the same order, each with the same notes -/
def SameParts (a b : List (String × Melody)) : Prop :=
  List.Forall₂ (fun p q => p.1 = q.1 ∧ SameMelody p.2 q.2) a b

/-- the extension as the object stores it (a normalised string) -/
def extText (c : Chord) : String := c.ext.normalize.toText

/-- chords equal on degree, extension, tonality, octave, parts -/
def SameChord (a b : Chord) : Prop :=
  a.elem = b.elem ∧ extText a = extText b ∧ a.ton = b.ton ∧ a.oct = b.oct ∧ SameParts a.parts b.parts

theorem sameMelody_reread (m : Melody) : SameMelody m (rereadMelody m) := by
  unfold SameMelody rereadMelody
  induction m with
  | nil => exact List.Forall₂.nil
  | cons x xs ih => exact List.Forall₂.cons (sameFields_reread x) ih

theorem sameParts_reread (ps : List (String × Melody)) : SameParts ps (rereadParts ps) := by
  unfold SameParts rereadParts
  induction ps with
  | nil => exact List.Forall₂.nil
  | cons p ps ih => exact List.Forall₂.cons ⟨rfl, sameMelody_reread p.2⟩ ih

/-- the stored extension string comes back (the empty text as the empty extension) -/
theorem extText_reread (c : Chord) : extText (rereadChord c) = extText c := by
  unfold extText
  simp only [rereadChord, rereadExt_normalize]
  by_cases he : c.ext.normalize.toText = ""
  · have : extCodeOf c = none := by simp [extCodeOf, he]
    simp only [rereadExt, this, he]
    decide
  · rw [rereadExt_of_printed c he]

/-! ## chords -/

/-- **Closed form of a chord's round trip**: for every chord of the library domain the printed form
exists, evaluates without error, and gives `rereadChord c`: same degree, extension, tonality, octave,
part names in order; every note re-read. -/
theorem chord_reread (c : Chord) (h : ChordOK c) : ∃ cc, chordCode c = .ok cc ∧ evalChord cc = .ok (rereadChord c) :=
  chord_code_eval c h

/-- **chord_roundtrip**: degree, extension (every valid extension string, the explicit `'5'` included),
tonality, octave, parts in order and their notes come back, for every chord of the library domain -/
theorem chord_roundtrip (c : Chord) (h : ChordOK c) :
    ∃ cc c', chordCode c = .ok cc ∧ evalChord cc = .ok c' ∧ SameChord c c' := by
  obtain ⟨cc, h1, h2⟩ := chord_reread c h
  exact ⟨cc, rereadChord c, h1, h2, rfl, (extText_reread c).symm, rfl, rfl, sameParts_reread c.parts⟩

/-- 814ef78 (regression witness): `(I['5'] % I.M)(piano__0=s0)` prints its figure and comes back with it -/
theorem figure5_kept :
    let c : Chord := { elem := 0, ext := { fig := .f5 }, ton := ⟨0, .M, 0⟩, parts := [("piano__0", [{ kind := .s, val := 0, oct := 0 }])] }
    (chordCode c).map ChordCode.text = .ok "(I['5'] % I.M)(\n\tpiano__0=s0)" ∧
      (chordCode c >>= evalChord) = .ok c := by
  decide +kernel

/-- the two spellings `'5'` and `''` denote the same chord tones (equal table rows), but are different
extensions for `Chord.__eq__`: both are kept as written -/
theorem figure5_same_tones : BASE_EXTENSION_DICT .f5 = BASE_EXTENSION_DICT .f0 := by decide +kernel

/-! ## custom chords -/

/-- **Closed form for custom chords** (`TON(notes…).o(k)(parts)`): notes, tonality, octave, parts come back -/
theorem custom_reread (c : Custom) (h : CustomOK c) : ∃ cc, customCode c = .ok cc ∧ evalCustom cc = .ok (rereadCustom c) :=
  custom_code_eval c h

theorem custom_roundtrip (c : Custom) (h : CustomOK c) :
    ∃ cc c', customCode c = .ok cc ∧ evalCustom cc = .ok c' ∧
      SameMelody c.notes c'.notes ∧ c'.chord.ton = c.chord.ton ∧ c'.chord.oct = c.chord.oct ∧
      SameParts c.chord.parts c'.chord.parts := by
  obtain ⟨cc, h1, h2⟩ := custom_reread c h
  exact ⟨cc, rereadCustom c, h1, h2, sameMelody_reread c.notes, rfl, rfl, sameParts_reread _⟩

/-! ## scores: `Score.from_str(str(score))` -/

/-- **Closed form for scores**: for every non-empty score of library-domain chords and custom chords, in
any order, `from_str(str(score))` gives the re-read chords, one by one, flat (the repaired split cuts in
front of every chord: each piece is one chord, the assertion holds, nothing is copied) -/
theorem score_reread (s : List Item) (hne : s ≠ []) (h : ∀ i ∈ s, ItemOK i) :
    ∃ cs, scoreCodes s = .ok cs ∧ fromStr cs = .ok (flatResult s) := by
  obtain ⟨cs, h1, h3, h4⟩ := score_codes s h
  exact ⟨cs, h1, fromStr_all_cut cs s hne h4 (fun y hy => h3 y (List.mem_of_mem_tail hy))⟩

def SameItem : Item → Item → Prop
  | .plain a, .plain b => SameChord a b
  | .custom a, .custom b =>
      SameMelody a.notes b.notes ∧ a.chord.ton = b.chord.ton ∧ a.chord.oct = b.chord.oct ∧ SameParts a.chord.parts b.chord.parts
  | _, _ => False

theorem sameItem_reread (i : Item) : SameItem i (rereadItem i) := by
  cases i with
  | plain c => exact ⟨rfl, (extText_reread c).symm, rfl, rfl, sameParts_reread _⟩
  | custom c => exact ⟨sameMelody_reread _, rfl, rfl, sameParts_reread _⟩

theorem flat_flatResult (s : List Item) : flat (flatResult s) = some (s.map rereadItem) := by
  induction s with
  | nil => rfl
  | cons i s ih => simp only [flatResult, List.map_cons, flat] at ih ⊢; rw [ih]; rfl

/-- **score_roundtrip**: same chords in the same order — plain and custom chords mixed in any way —, each
equal on degree, extension, tonality, octave, parts and notes -/
theorem score_roundtrip (s : List Item) (hne : s ≠ []) (h : ∀ i ∈ s, ItemOK i) :
    ∃ cs r, scoreCodes s = .ok cs ∧ fromStr cs = .ok r ∧ ∃ l, flat r = some l ∧ List.Forall₂ SameItem s l := by
  obtain ⟨cs, h1, h2⟩ := score_reread s hne h
  refine ⟨cs, flatResult s, h1, h2, s.map rereadItem, flat_flatResult s, ?_⟩
  clear h h1 h2 hne
  induction s with
  | nil => exact List.Forall₂.nil
  | cons i s ih => exact List.Forall₂.cons (sameItem_reread i) ih

/-- the empty score has no text form (`eval('')` is a SyntaxError in both branches of `from_str`) -/
theorem score_empty_rejected : fromStr [] = .error .other := by decide

def wPlain (e : Int) : Chord :=
  { elem := e, ton := ⟨0, .M, 0⟩, parts := [("piano__0", [{ kind := .s, val := 0, oct := 0 }])] }
def wCustom : Custom :=
  { notes := [{ kind := .s, val := 0, oct := 0 }]
    chord := { elem := 0, ton := ⟨0, .M, 0⟩, parts := [("piano__0", [{ kind := .b, val := 0, oct := 0, dur := 2 }])] } }

/-- b066a4a (regression witness): a plain chord, a plain chord, a custom chord — the text is cut twice
and the three chords come back (before the repair: `Score([chord, Score([chord, custom])])`) -/
theorem custom_after_two_plain_kept :
    let s : List Item := [.plain (wPlain 3), .plain (wPlain 4), .custom wCustom]
    (scoreCodes s).map scoreText = .ok ("(IV % I.M)(\n\tpiano__0=s0)+ \n(V % I.M)(\n\tpiano__0=s0)+ \nI.M(s0)(\n\tpiano__0=b0.h)") ∧
    (reread s).map flat = .ok (some s) := by
  decide +kernel

/-! ## identity on canonical scores, hence the same sound -/

/-- every note canonical, the chord stores what the printer writes -/
def ChordCanonical (c : Chord) : Prop :=
  rereadExt c = c.ext ∧ ∀ p ∈ c.parts, ∀ n ∈ p.2, Canonical n

theorem rereadNote_canonical (n : Note) (h : InLibrary n ∧ Den n.dur ∧ n.tags.Nodup) (hc : Canonical n) :
    rereadNote n = n := by
  have a := note_reread n h
  have b := note_roundtrip_exact n h hc
  rw [a] at b
  injection b

theorem rereadChord_canonical (c : Chord) (h : ChordOK c) (hc : ChordCanonical c) : rereadChord c = c := by
  obtain ⟨elem, ext, ton, oct, parts⟩ := c
  have hparts : rereadParts parts = parts := by
    unfold rereadParts
    conv_rhs => rw [← List.map_id parts]
    apply List.map_congr_left
    intro p hp
    have hm : rereadMelody p.2 = p.2 := by
      unfold rereadMelody
      conv_rhs => rw [← List.map_id p.2]
      apply List.map_congr_left
      intro n hn
      exact rereadNote_canonical n ((h.parts p hp).1.2 n hn) (hc.2 p hp n hn)
    simp [hm]
  have hext : rereadExt ⟨elem, ext, ton, oct, parts⟩ = ext := hc.1
  simp only [rereadChord, hparts, hext]

/-- **score_roundtrip_exact**: a score of plain chords with canonical notes comes back as *the same
score* of the model — so every function of it, the rendering in particular, gives the same result -/
theorem score_roundtrip_exact (s : Score) (hne : s ≠ []) (h : ∀ c ∈ s, ChordOK c ∧ ChordCanonical c) :
    ∃ cs, scoreCodes (s.map Item.plain) = .ok cs ∧ fromStr cs = .ok (s.map (fun c => Obj.chord (.plain c))) := by
  obtain ⟨cs, h1, h2⟩ := score_reread (s.map Item.plain) (by simpa using hne)
    (by intro i hi; obtain ⟨c, hc, rfl⟩ := List.mem_map.mp hi; exact (h c hc).1)
  refine ⟨cs, h1, ?_⟩
  rw [h2]
  congr 1
  unfold flatResult
  rw [List.map_map]
  apply List.map_congr_left
  intro c hc
  simp [rereadItem, rereadChord_canonical c (h c hc).1 (h c hc).2]

/-- the chords of a flat result -/
def plainChords : List Obj → Option Score
  | [] => some []
  | .chord (.plain c) :: rest => (plainChords rest).map (c :: ·)
  | _ => none

theorem plainChords_map (s : Score) : plainChords (s.map (fun c => Obj.chord (.plain c))) = some s := by
  induction s with
  | nil => rfl
  | cons c s ih => simp only [List.map_cons, plainChords, ih]; rfl

/-- **sound_preserved**: the re-read score renders to the same note matrix and the same events
(C03's `getNotes` / `toEvents`), on canonical scores -/
theorem sound_preserved (s : Score) (hne : s ≠ []) (h : ∀ c ∈ s, ChordOK c ∧ ChordCanonical c) (tempo : Rat) :
    ∃ cs r s', scoreCodes (s.map Item.plain) = .ok cs ∧ fromStr cs = .ok r ∧ plainChords r = some s' ∧
      getNotes s' = getNotes s ∧ toEvents s' tempo = toEvents s tempo := by
  obtain ⟨cs, h1, h2⟩ := score_roundtrip_exact s hne h
  exact ⟨cs, _, s, h1, h2, plainChords_map s, rfl, rfl⟩

/-! ### non-vacuity -/

def exChord : Chord :=
  { elem := 4, ext := { fig := .f7, repl := ["sus4"], add := ["add6"] }, ton := ⟨1, .m, -1⟩, oct := 2,
    parts := [("piano__0", [{ kind := .s, val := 0, oct := 0 }, { kind := .x, val := 1, oct := 1, dur := 1/2, amp := 96 }]),
              ("drums_0__0", [{ kind := .d, val := 3, oct := 0, amp := 0 }, { kind := .r, val := 0, oct := 0, dur := 2 }])] }

example : (chordCode exChord).map ChordCode.text
    = .ok "(V['7(sus4)[add6]'] % II.b.m.o(-1)).o(2)(\n\tpiano__0=s0 + x1.e.o(1).f, \n\tdrums_0__0=d3.set_amp(0) + r.h)" := by
  decide +kernel
example : (chordCode exChord >>= evalChord) = .ok exChord := by decide +kernel
example : partKey "drums_0__0" = .ok ("drums_0__0", true) ∧ partKey "piano__0" = .ok ("piano__0", false) := by decide +kernel
example : ExtAccepted 4 { fig := .f7, repl := ["sus4"], add := ["add6"] } := extAccepted_of_isOk _ _ (by decide +kernel)
example : ((reread [.plain (wPlain 3), .custom wCustom, .plain (wPlain 4)]).map (fun r => (r.length, (flat r).isSome)) = .ok (3, true)) := by
  decide +kernel

/-- a non-trivial chord (modifiers, both octaves, a pattern note with an octave, a drums part with a silent
drum note) meets the hypothesis of `chord_roundtrip` -/
example : ChordOK exChord := by
  refine { elem := by decide, deg := by decide, ext := ?_, parts := ?_, names := by decide }
  · intro e he
    have := extCodeOf_some exChord e he
    subst this
    exact extAccepted_of_isOk _ _ (by decide +kernel)
  · intro p hp
    simp only [exChord, List.mem_cons, List.not_mem_nil, or_false] at hp
    rcases hp with rfl | rfl
    · refine ⟨⟨by decide, ?_⟩, false, by decide +kernel, by intro hh; exact absurd hh (by decide)⟩
      intro n hn
      simp only [List.mem_cons, List.not_mem_nil, or_false] at hn
      rcases hn with rfl | rfl <;> decide +kernel
    · refine ⟨⟨by decide, ?_⟩, true, by decide +kernel, ?_⟩
      · intro n hn
        simp only [List.mem_cons, List.not_mem_nil, or_false] at hn
        rcases hn with rfl | rfl <;> decide +kernel
      · intro _ n hn
        simp only [List.mem_cons, List.not_mem_nil, or_false] at hn
        rcases hn with rfl | rfl <;> decide

end MV.C05
