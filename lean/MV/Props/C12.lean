/-
C12 — time slicing returns exactly the requested window and pieces re-join.

Model: MV/Model/Slice.lean (get_melody_between, get_chord_between, get_score_between,
repeat_until_duration of time_utils.py, function for function).  Spec functions and lemmas:
MV/Lemmas/Slice.lean (`mTake`/`mDrop`, `cTake`/`cDrop`, `sTake`/`sDrop`, `sWindow`, `timed`,
`windowNote`, `ScoreOK`), MV/Lemmas/SliceSound.lean (sound of a score from the note matrix of
MV/Model/Render.lean).

Hypothesis of the property, `ScoreOK s`: every chord has a part, every part lasts exactly as long as
its chord, every part has a note and every note lasts > 0 (and a part named `drums…` holds the
drum notes / rests / continuations `Chord.__call__` puts there).  Read literally the property also admits
chords without any part (duration 0, `EqualParts`): there the re-join law fails on the code
(`cut_rejoin_full_fails`); `cut_rejoin` is the law with "every chord has a part".
Resolution hypothesis (the library rounds every duration it constructs with
`Fraction.limit_denominator(LIMIT_DENOM)`, modelled by `lim`): all note durations and cut points are
multiples of `1/N` for one `N ≤ LIMIT_DENOM` (`GridOK N`, `ScoreGrid N s`, `OnGrid N a`).  Off that
grid the duration law fails on the code (`between_duration_all_rationals_fails`).
-/
import MV.Lemmas.SliceSound

namespace MV.C12
open MV

instance (m : Melody) : Decidable (Pos m) := by unfold Pos; infer_instance
instance (m : Melody) : Decidable (NonNeg m) := by unfold NonNeg; infer_instance
instance (n : Note) : Decidable (DrumKind n) := by unfold DrumKind; infer_instance
instance (D : Rat) (p : String × Melody) : Decidable (PartOK D p) := by unfold PartOK; infer_instance
instance (c : Chord) : Decidable (ChordOK c) := by unfold ChordOK; infer_instance
instance (s : Score) : Decidable (ScoreOK s) := by unfold ScoreOK; infer_instance
instance (N : Nat) (m : Melody) : Decidable (MelGrid N m) := by unfold MelGrid; infer_instance
instance (N : Nat) (c : Chord) : Decidable (ChordGrid N c) := by unfold ChordGrid MelGrid; infer_instance
instance (N : Nat) (s : Score) : Decidable (ScoreGrid N s) := by unfold ScoreGrid ChordGrid MelGrid; infer_instance
def decNoLeadRel : (l : List TItem) → Decidable (NoLeadRel l)
  | [] => isTrue trivial
  | .gap _ :: _ => isTrue trivial
  | .note _ n :: r =>
      if h : n.kind = .r ∨ n.kind = .l then
        match decNoLeadRel r with
        | isTrue hr => isTrue (by unfold NoLeadRel; rw [if_pos h]; exact hr)
        | isFalse hr => isFalse (by unfold NoLeadRel; rw [if_pos h]; exact hr)
      else
        if h2 : n.kind.isRelative = false then isTrue (by unfold NoLeadRel; rw [if_neg h]; exact h2)
        else isFalse (by unfold NoLeadRel; rw [if_neg h]; exact h2)
instance (l : List TItem) : Decidable (NoLeadRel l) := decNoLeadRel l
instance (tr : String) (r : Score) : Decidable (RefInside tr r) := by unfold RefInside; infer_instance

/-! ### a concrete score meeting the hypotheses (non-vacuity; used by the `example`s below)

`(I % I.M)(piano__0=s0.h + s1.h, violin__0=r + su1.hd, drums_0__0=d0.w) + (V % I.M)(piano__0=s2.qd + l.e)`:
two chords, three parts (one absent from the second chord), a rest, a relative note, a drums part and
a continuation; total duration 6. -/
def nS (v : Int) (d : Rat) : Note := { kind := .s, val := v, oct := 0, dur := d }
def exScore : Score :=
  [ { elem := 0, parts := [("piano__0", [nS 0 2, nS 1 2]),
                          ("violin__0", [silence 1, { kind := .su, val := 1, oct := 0, dur := 3 }]),
                          ("drums_0__0", [{ kind := .d, val := 0, oct := 0, dur := 4 }])] },
    { elem := 4, parts := [("piano__0", [nS 2 (3/2), continuation (1/2)])] } ]

example : ScoreOK exScore ∧ GridOK 42 ∧ ScoreGrid 42 exScore := by decide +kernel
example : exScore ≠ [] ∧ scoreDuration exScore = 6 := by decide +kernel

/-! ### the single melody: exactly the requested window -/

/-- `get_melody_between(m, a, b)` for `a < b` never raises and returns the prefix of `m` up to `b`
with what lies before `a` removed. -/
theorem melody_between_eq {N : Nat} (hN : GridOK N) (m : Melody) (hm : NonNeg m) (hgm : MelGrid N m) (a b : Rat)
    (hab : a < b) (hga : OnGrid N a) (hgb : OnGrid N b) :
    getMelodyBetween m a b false = .ok (mDrop a (mTake b m)) :=
  getMelodyBetween_spec hN a b hab hga hgb m hm hgm

/-- **Melody-level window theorem.**  Note by note, with onsets: the result of
`get_melody_between(m, a, b)` (`0 ≤ a < b`) consists of exactly
* a continuation at time 0 lasting until `min(end of the note, b)` for the note sounding across `a`,
* every note of `m` whose onset `o` satisfies `a ≤ o < b`, at time `o - a`, lasting `min(d, b - o)`,
and nothing else (`windowNote`). -/
theorem melody_between_window {N : Nat} (hN : GridOK N) (m : Melody) (hm : NonNeg m) (hgm : MelGrid N m) (a b : Rat)
    (ha : 0 ≤ a) (hab : a < b) (hga : OnGrid N a) (hgb : OnGrid N b) :
    ∃ r, getMelodyBetween m a b false = .ok r ∧
      timed 0 r = (timed 0 m).filterMap (windowNote a b) := by
  refine ⟨_, getMelodyBetween_spec hN a b hab hga hgb m hm hgm, ?_⟩
  have h := timed_window a b hab m hm 0
  have e1 : max 0 a - a = 0 := by grind
  have e2 : a - 0 = a := by grind
  have e3 : b - 0 = b := by grind
  rw [e1, e2, e3] at h
  exact h

/-- duration of the melody window: `min(b, |m|) - a` -/
theorem melody_between_duration {N : Nat} (hN : GridOK N) (m : Melody) (hm : Pos m) (hgm : MelGrid N m) (a b : Rat)
    (ha : 0 ≤ a) (hab : a < b) (hga : OnGrid N a) (hgb : OnGrid N b) (h : a ≤ melodyDuration m) :
    ∃ r, getMelodyBetween m a b false = .ok r ∧ melodyDuration r = min b (melodyDuration m) - a := by
  refine ⟨_, getMelodyBetween_spec hN a b hab hga hgb m hm.nonNeg hgm, ?_⟩
  have hT := mTake_duration b (by grind) m hm.nonNeg
  rw [mDrop_duration a ha _ (mTake_pos b m hm).nonNeg (by rw [hT]; grind), hT]

/-- the error branch: an inverted window (`b < a`) across a note raises (`Exception('Get a negative
duration …')`), it does not return a default. -/
theorem melody_between_rejects (n : Note) (ns : Melody) (a b : Rat) (hb : 0 < b) (hba : b < a) (hn : a < n.dur) :
    getMelodyBetween (n :: ns) a b false = .error .other := by
  unfold getMelodyBetween
  simp only [Bool.false_eq_true, and_false, if_false]
  show melodyBetweenLoop a b (n :: ns) 0 = _
  unfold melodyBetweenLoop
  have h1 : ¬ ((0 : Rat) ≥ b) := by grind
  have h2 : ¬ ((0 : Rat) < a ∧ 0 + n.dur ≤ a) := by grind
  have h3 : (0 : Rat) + n.dur ≥ b := by grind
  have h4 : (0 : Rat) < a := by grind
  have h5 : b - 0 - (a - 0) < 0 := by grind
  rw [if_neg h1, if_neg h2]
  simp only [h3, h4, decide_true, if_true, h5]

/-! ### scores: duration of the window -/

/-- **`between_duration`.**  For a score in which every part lasts as long as its chord and
`0 ≤ a < b`, `a < total`: `get_score_between(s, a, b)` returns a score (not `None`, no exception),
namely `sWindow a b s`; it lasts exactly `min(b, total) - a` and again satisfies the hypothesis.
(`N`: the grid of the resolution hypothesis.) -/
theorem between_duration {N : Nat} (hN : GridOK N) (s : Score) (hs : ScoreOK s) (hg : ScoreGrid N s) (a b : Rat)
    (ha : 0 ≤ a) (hab : a < b) (hga : OnGrid N a) (hgb : OnGrid N b) (h : a < scoreDuration s) :
    getScoreBetween s (some a) (some b) = .ok (some (sWindow a b s)) ∧
      scoreDuration (sWindow a b s) = min b (scoreDuration s) - a ∧ ScoreOK (sWindow a b s) := by
  have hne := sWindow_ne_nil a b ha hab s hs h
  refine ⟨?_, sWindow_duration a b ha hab s hs (by grind), sWindow_ok a b s hs⟩
  rw [getScoreBetween_spec hN a b hab hga hgb s hs hg]
  cases hw : sWindow a b s with
  | nil => exact absurd hw hne
  | cons _ _ => rfl

/-- the stated "nothing in the window" branch: `a ≥ total` gives `None`. -/
theorem between_none {N : Nat} (hN : GridOK N) (s : Score) (hs : ScoreOK s) (hg : ScoreGrid N s) (a b : Rat)
    (hab : a < b) (hga : OnGrid N a) (hgb : OnGrid N b) (h : scoreDuration s ≤ a) :
    getScoreBetween s (some a) (some b) = .ok none := by
  rw [getScoreBetween_spec hN a b hab hga hgb s hs hg, sWindow_eq_nil a b s hs h]
  rfl

/-- `between_duration` for all rational cut points, without the resolution hypothesis. -/
def BetweenDurationAllRationals : Prop :=
  ∀ (s : Score) (a b : Rat), ScoreOK s → 0 ≤ a → a < b → a < scoreDuration s →
    ∃ r, getScoreBetween s (some a) (some b) = .ok (some r) ∧ scoreDuration r = min b (scoreDuration s) - a

/-- a score on the library's grid (septuplets): `(I % I.M)(piano__0=s0.q7 + s1.q7 + s2.augment(frac(10, 7)))` -/
def exSept : Score :=
  [ { elem := 0, parts := [("piano__0", [nS 0 (2/7), nS 1 (2/7), nS 2 (10/7)])] } ]

/-- Off the grid the duration law fails on the code: cutting `exSept` (duration 2) at `a = 1/997`
leaves a head continuation of `2/7 - 1/997 = 1987/6979`, which `Continuation(…)` rounds to `203/713`
(`limit_denominator(1000)`); the window lasts `9977/4991`, not `1993/997`.  Replayed on the
implementation by the oracle (`duration:resolution`). -/
theorem between_duration_all_rationals_fails : ¬ BetweenDurationAllRationals := by
  intro h
  obtain ⟨r, h1, h2⟩ := h exSept (1/997) 2 (by decide +kernel) (by decide +kernel) (by decide +kernel) (by decide +kernel)
  have h3 : getScoreBetween exSept (some (1/997)) (some 2) =
      .ok (some [ { elem := 0, parts := [("piano__0", [cont (203/713), nS 1 (2/7), nS 2 (10/7)])] } ]) := by
    decide +kernel
  rw [h3] at h1
  simp only [Except.ok.injEq, Option.some.injEq] at h1
  subst h1
  revert h2
  decide +kernel

/-! ### the window of a score: its sounding notes -/

/-- **`between_window`.**  For a score in which every part lasts as long as its chord, `0 ≤ a < b`,
`a < total`: `get_score_between(s, a, b)` returns the score `r = sWindow a b s`, and for every track
`tr` whose part in `r` needs no reference pitch from before the window (`RefInside`: its first sounding
note, before any chord without the part, is not a relative note): if the track of `s` renders to the
sounding notes `evs` (note matrix of `get_notes`, continuations merged), then the track of `r` renders
to exactly the notes of `evs` that start inside `[a, b)`, clipped at `b` and shifted by `-a`
(`windowEv`).  In particular a note already sounding at `a` is not among them: it has become a
continuation with nothing before it, which is silent. -/
theorem between_window {N : Nat} (hN : GridOK N) (s : Score) (hs : ScoreOK s) (hg : ScoreGrid N s) (a b : Rat)
    (ha : 0 ≤ a) (hab : a < b) (hga : OnGrid N a) (hgb : OnGrid N b) (h : a < scoreDuration s) :
    getScoreBetween s (some a) (some b) = .ok (some (sWindow a b s)) ∧
      ∀ tr idx evs, trackSound tr idx s = .ok evs → RefInside tr (sWindow a b s) →
        trackSound tr idx (sWindow a b s) = .ok (windowEv a b evs) :=
  ⟨(between_duration hN s hs hg a b ha hab hga hgb h).1,
   fun tr idx evs hr href => trackSound_window s hs a b ha hab tr idx evs hr href⟩

/-- the same, note by note (no rendering involved): the timeline of every track of the window is the
timeline of the track in `s` cut at `b`, then cut at `a` where the item across `a` becomes a
continuation (a shorter absence if the part is absent there): "notes already sounding at `a` become
continuations". -/
theorem between_timeline (s : Score) (hs : ScoreOK s) (a b : Rat) (tr : String) :
    timeline tr (sWindow a b s) = tDrop a (tTake b (timeline tr s)) := by
  unfold sWindow
  rw [timeline_sDrop tr a _ (sTake_ok b s hs), timeline_sTake tr b s hs]

/-- the sounding notes of a track do not depend on the number the track is rendered with -/
theorem track_number_irrelevant (s : Score) (hs : ScoreOK s) (tr : String) (idx idx' : Nat) :
    trackSound tr idx s = trackSound tr idx' s := trackSound_idx tr idx idx' s hs

/-- `between_window` without the reference hypothesis. -/
def BetweenWindowUnconditional : Prop :=
  ∀ (s : Score) (a b : Rat) (tr : String) (idx : Nat) (evs : List Ev), ScoreOK s → 0 ≤ a → a < b →
    a < scoreDuration s → trackSound tr idx s = .ok evs →
    trackSound tr idx (sWindow a b s) = .ok (windowEv a b evs)

/-- a score whose window `[2, 4)` starts with a relative note: `(I % I.M)(piano__0=s2.h + su1.h)` -/
def exRel : Score := [ { elem := 0, parts := [("piano__0", [nS 2 2, { kind := .su, val := 1, oct := 0, dur := 2 }])] } ]

/-- The reference hypothesis cannot be dropped: in `s2.h + su1.h` the second note sounds 5 (one step
above 4); the window `[2, 4)` is `su1.h` alone, rendered from the default reference 0, and sounds 2.
(A window cannot know a pitch that sounded before it; the property only speaks of what the window
contains.) -/
theorem between_window_unconditional_fails : ¬ BetweenWindowUnconditional := by
  intro h
  have h1 : trackSound "piano__0" 0 exRel = .ok [⟨4, 0, 2, 66⟩, ⟨5, 2, 2, 66⟩] := by decide +kernel
  have h2 := h exRel 2 4 "piano__0" 0 _ (by decide +kernel) (by decide +kernel) (by decide +kernel)
    (by decide +kernel) h1
  revert h2
  decide +kernel

/-- non-vacuity of `between_window`: on `exScore`, window `[1/3, 29/7)`, every hypothesis holds for the
piano and the drums (the violin's window starts with its relative note, `RefInside` fails for it) and
the conclusion is a non-trivial list of notes. -/
example : GridOK 42 ∧ ScoreOK exScore ∧ ScoreGrid 42 exScore ∧ OnGrid 42 (1/3) ∧ OnGrid 42 (29/7) ∧
    (0 : Rat) ≤ 1/3 ∧ (1/3 : Rat) < 29/7 ∧ (1/3 : Rat) < scoreDuration exScore ∧
    RefInside "piano__0" (sWindow (1/3) (29/7) exScore) ∧ RefInside "drums_0__0" (sWindow (1/3) (29/7) exScore) ∧
    ¬ RefInside "violin__0" (sWindow (1/3) (29/7) exScore) ∧
    trackSound "piano__0" 0 exScore = .ok [⟨0, 0, 2, 66⟩, ⟨2, 2, 2, 66⟩, ⟨11, 4, 2, 66⟩] ∧
    trackSound "piano__0" 0 (sWindow (1/3) (29/7) exScore) = .ok [⟨2, 5/3, 2, 66⟩, ⟨11, 11/3, 1/7, 66⟩] := by
  decide +kernel

/-! ### cutting and re-joining -/

/-- **`cut_rejoin`.**  For every cut time `0 < t < total` (inside a note, on a note boundary, on a
chord boundary): the two pieces `get_score_between(s, 0, t)` and `get_score_between(s, t, total)`
(also with `end=None`) exist, the first lasts `t`, and their concatenation lasts as long as `s`, has the
same tracks, and every track sounds exactly like the original (same error if the original does not
render) — relative notes included, the last pitch threading through the concatenation.  Hence the
whole sound (`soundOf`, the note matrix of `get_notes` with continuations merged) is reproduced. -/
theorem cut_rejoin {N : Nat} (hN : GridOK N) (s : Score) (hs : ScoreOK s) (hg : ScoreGrid N s) (t : Rat)
    (ht0 : 0 < t) (hgt : OnGrid N t) (ht : t < scoreDuration s) :
    ∃ s1 s2, getScoreBetween s (some 0) (some t) = .ok (some s1) ∧
      getScoreBetween s (some t) (some (scoreDuration s)) = .ok (some s2) ∧
      getScoreBetween s (some t) none = .ok (some s2) ∧
      scoreDuration s1 = t ∧ scoreDuration (s1 ++ s2) = scoreDuration s ∧
      trackList (s1 ++ s2) = trackList s ∧
      (∀ tr idx, trackSound tr idx (s1 ++ s2) = trackSound tr idx s) ∧
      soundOf (s1 ++ s2) = soundOf s := by
  have hgT := scoreDuration_grid hN.1 hs hg
  have h1 := between_duration hN s hs hg 0 t (by grind) ht0 (OnGrid.zero N) hgt (by grind)
  have h2 := between_duration hN s hs hg t (scoreDuration s) (by grind) ht hgt hgT ht
  have e1 : sWindow 0 t s = sTake t s := sDrop_nonpos 0 (by grind) _
  have e2 : sWindow t (scoreDuration s) s = sDrop t s := by
    unfold sWindow; rw [sTake_of_le _ s hs (by grind)]
  rw [e1] at h1
  rw [e2] at h2
  refine ⟨sTake t s, sDrop t s, h1.1, h2.1, h2.1, ?_, ?_, trackList_rejoin s t,
    fun tr idx => trackRows_rejoin s hs t tr idx none, soundOf_rejoin s hs t⟩
  · rw [h1.2.1]; grind
  · rw [scoreDuration_append, h1.2.1, h2.2.1]; grind

/-- the property's hypothesis read literally: every part lasts as long as its chord (a chord may have
no part at all; it then lasts 0) -/
def EqualParts (s : Score) : Prop := ∀ c ∈ s, ∀ p ∈ c.parts, PartOK c.dur p

instance (s : Score) : Decidable (EqualParts s) := by unfold EqualParts; infer_instance

/-- the re-join law under the literal hypothesis -/
def CutRejoinFull : Prop :=
  ∀ (N : Nat) (s : Score) (t : Rat), GridOK N → EqualParts s → ScoreGrid N s → 0 < t → OnGrid N t →
    t < scoreDuration s →
    ∃ s1 s2, getScoreBetween s (some 0) (some t) = .ok (some s1) ∧ getScoreBetween s (some t) none = .ok (some s2) ∧
      soundOf (s1 ++ s2) = soundOf s

/-- `(I % I.M)(piano__0=s0.w) + (V % I.M)() + (IV % I.M)(piano__0=l.h)`: a chord without parts (duration 0)
sits at time 4 -/
def exBare : Score :=
  [ { elem := 0, parts := [("piano__0", [nS 0 4])] }, { elem := 4, parts := [] },
    { elem := 3, parts := [("piano__0", [cont 2])] } ]

/-- The literal re-join law fails on the code: cut at `t = 4`, exactly where the chord without parts sits.
`get_score_between` skips a chord with `chord_end <= start` and stops at one with `chord_start >= end`, so the
zero-length chord is in neither piece; in the concatenation the continuation of the third chord extends the note of
the first (it lasts 6 instead of 4), whereas in the original the chord without the part silences it.
`cut_rejoin` above is the law with the extra hypothesis "every chord has a part".  Replayed on the
implementation by the oracle (`rejoin:zero-length-chord-at-cut`); repair: patches/C12-zero-length-chord-at-window-start.diff. -/
theorem cut_rejoin_full_fails : ¬ CutRejoinFull := by
  intro h
  obtain ⟨s1, s2, h1, h2, h3⟩ := h 1 exBare 4 (by decide +kernel) (by decide +kernel) (by decide +kernel)
    (by decide +kernel) (by decide +kernel) (by decide +kernel)
  have e1 : getScoreBetween exBare (some 0) (some 4) = .ok (some (exBare.take 1)) := by decide +kernel
  have e2 : getScoreBetween exBare (some 4) none = .ok (some (exBare.drop 2)) := by decide +kernel
  rw [e1] at h1; rw [e2] at h2
  simp only [Except.ok.injEq, Option.some.injEq] at h1 h2
  subst h1 h2
  revert h3
  decide +kernel

/-! ### repeating until a duration -/

/-- **`repeat_exact`.**  `repeat_until_duration(s, d)` for a non-empty score satisfying the
hypothesis and `d > 0` returns a score lasting exactly `d`: the window `[0, d)` of `k ≥ 1` repetitions of
`s` (so that `between_window` gives its sounding notes). -/
theorem repeat_exact {N : Nat} (hN : GridOK N) (s : Score) (hs : ScoreOK s) (hg : ScoreGrid N s) (hne : s ≠ [])
    (d : Rat) (hd : 0 < d) (hgd : OnGrid N d) :
    ∃ r, repeatUntilDuration s d = .ok (some r) ∧ scoreDuration r = d ∧ ScoreOK r ∧
      ∃ k : Nat, 1 ≤ k ∧ r = sWindow 0 d (List.replicate k s).flatten := by
  have hD := scoreDuration_pos hs hne
  unfold repeatUntilDuration
  by_cases h : scoreDuration s < d
  · obtain ⟨hnb, hcov⟩ := repeat_covers (scoreDuration s) d hD hd
    rw [if_pos h, if_neg (by grind), if_neg (by omega), map_copyChord_id hN hg]
    have hs' := replicate_flatten_ok s hs (pyTrunc (d / scoreDuration s) + 1).toNat
    have hg' := replicate_flatten_grid s hg (pyTrunc (d / scoreDuration s) + 1).toNat
    have hd' := replicate_flatten_duration s (pyTrunc (d / scoreDuration s) + 1).toNat
    have hb := between_duration hN (repeatList s (pyTrunc (d / scoreDuration s) + 1)) hs' hg' 0 d (by grind) hd
      (OnGrid.zero N) hgd (by unfold repeatList; rw [hd']; grind)
    refine ⟨_, hb.1, ?_, hb.2.2, (pyTrunc (d / scoreDuration s) + 1).toNat, by omega, rfl⟩
    rw [hb.2.1]; unfold repeatList; rw [hd']; grind
  · rw [if_neg h]
    have hb := between_duration hN s hs hg 0 d (by grind) hd (OnGrid.zero N) hgd hD
    refine ⟨_, hb.1, ?_, hb.2.2, 1, by omega, by simp⟩
    rw [hb.2.1]; grind

/-- the error branch of `repeat_until_duration`: a score of duration 0 cannot be repeated
(`ZeroDivisionError`). -/
theorem repeat_rejects_empty (d : Rat) (hd : 0 < d) : repeatUntilDuration [] d = .error .zerodiv := by
  unfold repeatUntilDuration
  rw [if_pos (by simpa using hd), if_pos (by simp)]
  rfl

/-- non-vacuity: the hypotheses of `cut_rejoin` / `repeat_exact` hold on `exScore` for a cut inside a
note (5/3), on a note boundary (2), on the chord boundary (4) and for the repeat durations 6 and 47/7 -/
example : GridOK 42 ∧ ScoreOK exScore ∧ ScoreGrid 42 exScore ∧ exScore ≠ [] ∧ (0 : Rat) < 5/3 ∧ OnGrid 42 (5/3) ∧
    (5/3 : Rat) < scoreDuration exScore ∧ OnGrid 42 2 ∧ OnGrid 42 4 ∧ (4 : Rat) < scoreDuration exScore ∧
    (0 : Rat) < 47/7 ∧ OnGrid 42 (47/7) := by decide +kernel

/-- the model evaluated on the example (a test of the statements above, not a theorem about all inputs):
the pieces cut at the chord boundary are the two chords; repeating until 47/7 lasts 47/7 -/
example : getScoreBetween exScore (some 0) (some 4) = .ok (some (exScore.take 1)) ∧
    getScoreBetween exScore (some 4) none = .ok (some (exScore.drop 1)) ∧
    (repeatUntilDuration exScore (47/7)).map (Option.map scoreDuration) = .ok (some (47/7)) := by
  decide +kernel

end MV.C12
