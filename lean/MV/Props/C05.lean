/-
C05 — the text form of any object evaluates back to an equal object.  Part 1: notes, melodies,
tonalities.  (Chords, custom chords, scores, the tabular form: `MV/Props/C05b.lean`.)

Model: `MV/Model/Text.lean` — the printer (`noteCode` … : what `str(x)` writes, as a library
symbol followed by a chain of attribute / method applications, and as text) and the evaluator
(`evalCode` … : what Python's `eval` computes from such a chain through `Note.__getattr__`, `.o`,
`.oabs`, `.augment`, `.add_tags`, the element / tonality properties).  Python's parsing of the
text into the chain is trusted (tied by the correspondence streams `print`, `ops`, `eval`).

The statements quantify over *every* note / melody / tonality of the model's types: any `Int`
value and octave, any `Rat` duration, any amplitude, any tag list; the hypotheses are explicit
decidable predicates.
-/
import MV.Lemmas.Text
import MV.Lemmas.TextPrint
import MV.Gen.NoteAttrs

namespace MV.C05
open MV Gen MV.Text

/-! ## what is compared -/

/-- the dynamics figure of a note (`amp_figure`) -/
def figure (n : Note) : String := Eq.ampFigure n.amp

/-- equality on the fields the property lists: kind, value, octave, duration, per-note mode,
accidental, dynamics *figure*, tags.  A rest / continuation is a `Silence` / `Continuation`
object, built from duration and tags only (its `copy()` resets every other field): compared on
kind, duration, tags. -/
def SameFields (a b : Note) : Prop :=
  a.kind = b.kind ∧ a.dur = b.dur ∧ a.tags = b.tags ∧
  (Sounding a.kind → a.val = b.val ∧ a.oct = b.oct ∧ a.mode = b.mode ∧ a.acc = b.acc ∧ figure a = figure b)

instance (a b : Note) : Decidable (SameFields a b) := by unfold SameFields; exact inferInstance

/-- the library domain: the note's symbol is a name of `musiclang.library` bound to the plain note
of that kind and value; the duration is inside the resolution (denominator ≤ `LIMIT_DENOM`);
the tags are a set -/
def NoteDomain (n : Note) : Prop := InLibrary n ∧ Den n.dur ∧ n.tags.Nodup

instance (n : Note) : Decidable (NoteDomain n) := by unfold NoteDomain; exact inferInstance

/-- notes on which the round trip is the identity of the model's `Note`: amplitude = the one of
its figure, no tempo / pedal mark (never printed), rests as `Silence(d, tags)` builds them -/
def Canonical (n : Note) : Prop :=
  n.tempo = none ∧ n.pedal = none ∧
  (Sounding n.kind → n.amp = canonAmp (figure n)) ∧
  (¬ Sounding n.kind → n.val = 0 ∧ n.oct = 0 ∧ n.mode = none ∧ n.acc = none ∧ n.amp = 66)

instance (n : Note) : Decidable (Canonical n) := by unfold Canonical; exact inferInstance

/-! ## notes -/

/-- **Closed form of the round trip.**  For every note of the library domain, evaluating its
printed form succeeds and gives exactly `rereadNote n`: kind, value, octave, duration, per-note
mode, accidental, tags kept for every sounding kind (drum and pattern notes included); amplitude
replaced by the one of its dynamics figure; a rest / continuation keeps duration and tags. -/
theorem note_reread (n : Note) (h : NoteDomain n) : evalCode (noteCode n) = .ok (rereadNote n) :=
  evalCode_noteCode n h.1 h.2.1 h.2.2

/-- every figure names an amplitude that has this figure again (`n` through `.set_amp(0)`, `mf` through
the default amplitude, the others through their dynamics property) -/
theorem figure_canonAmp : ∀ f ∈ FIGURES, Eq.ampFigure (canonAmp f) = f := by decide +kernel

/-- the closed form agrees with the note on every compared field -/
theorem sameFields_reread (n : Note) : SameFields n (rereadNote n) := by
  obtain ⟨kind, val, oct, dur, mode, acc, amp, tags, tempo, pedal⟩ := n
  by_cases hk : kind = .r ∨ kind = .l
  · have hns : ¬ Sounding kind := by unfold Sounding; tauto
    simp [SameFields, rereadNote, hk, restNote, hns]
  · refine ⟨by simp [rereadNote, hk], by simp [rereadNote, hk], by simp [rereadNote, hk], fun _ => ?_⟩
    refine ⟨by simp [rereadNote, hk], by simp [rereadNote, hk], by simp [rereadNote, hk], by simp [rereadNote, hk], ?_⟩
    simp only [figure, rereadNote, hk, ↓reduceIte]
    exact (figure_canonAmp _ (ampFigure_mem amp)).symm

/-- **note_roundtrip**: for every note of the library domain — all 17 kinds, every library value, any
octave in ℤ, any duration inside the resolution, any mode / accidental, any amplitude, any tag set —
`eval(str(n))` succeeds and equals `n` in kind, value, octave, duration, per-note mode, accidental,
dynamics figure and tags. -/
theorem note_roundtrip (n : Note) (h : NoteDomain n) :
    ∃ m, evalCode (noteCode n) = .ok m ∧ SameFields n m :=
  ⟨rereadNote n, note_reread n h, sameFields_reread n⟩

/-- on canonical notes the round trip is the identity: the re-read note is *the same note* (so
anything computed from it — pitch, rendering — is the same) -/
theorem note_roundtrip_exact (n : Note) (h : NoteDomain n) (hc : Canonical n) :
    evalCode (noteCode n) = .ok n := by
  rw [note_reread n h]
  congr 1
  obtain ⟨kind, val, oct, dur, mode, acc, amp, tags, tempo, pedal⟩ := n
  obtain ⟨c1, c2, c3, c4⟩ := hc
  simp only [figure] at c1 c2 c3 c4
  subst c1 c2
  by_cases hk : kind = .r ∨ kind = .l
  · have hns : ¬ Sounding kind := by unfold Sounding; tauto
    obtain ⟨rfl, rfl, rfl, rfl, rfl⟩ := c4 hns
    simp [rereadNote, hk, restNote]
  · have hs : Sounding kind := by unfold Sounding; tauto
    simp only [rereadNote, hk, ↓reduceIte, ← c3 hs]

/-! ### what is still not repaired: the resolution -/

/-- the statement without the resolution hypothesis (a duration with a denominator above 1000 is
reachable by chaining suffixes: `s0.t7.t7.t7` lasts 1/21952) -/
def NoteRoundtrip_full : Prop :=
  ∀ n : Note, InLibrary n → n.tags.Nodup → ∃ m, evalCode (noteCode n) = .ok m ∧ SameFields n m

/-- outside the resolution the printed `augment` is rounded: the re-read note has duration 0 -/
theorem resolution_needed :
    let n : Note := { kind := .s, val := 0, oct := 0, dur := 1/21952 }
    InLibrary n ∧ n.tags.Nodup ∧ ¬ Den n.dur ∧
      (noteCode n).text = "s0.augment(frac(1, 21952))" ∧ evalCode (noteCode n) = .ok { n with dur := 0 } := by
  decide +kernel

theorem note_roundtrip_fails : ¬ NoteRoundtrip_full := by
  intro h
  obtain ⟨m, hm, hs⟩ := h { kind := .s, val := 0, oct := 0, dur := 1/21952 } (by decide +kernel) (by decide)
  have he : evalCode (noteCode { kind := .s, val := 0, oct := 0, dur := 1/21952 })
      = .ok { kind := .s, val := 0, oct := 0, dur := 0 } := by decide +kernel
  rw [he] at hm
  injection hm with hm
  subst hm
  revert hs
  decide +kernel

/-! ### the repaired cases (regression witnesses: each was lost by the text form before its repair) -/

/-- 3b164a5: `x3.e.o(1)` keeps its octave -/
theorem x_octave_kept :
    let n : Note := { kind := .x, val := 3, oct := 1, dur := 1/2 }
    (noteCode n).text = "x3.e.o(1)" ∧ evalCode (noteCode n) = .ok n := by
  decide +kernel

/-- bb99a14: `d0.f` keeps its dynamics -/
theorem drum_dynamics_kept :
    let n : Note := { kind := .d, val := 0, oct := 0, amp := 96 }
    (noteCode n).text = "d0.f" ∧ evalCode (noteCode n) = .ok n := by
  decide +kernel

/-- 5da6dce: `x0.m` keeps its mode, a drum note its accidental; amplitude 0 is written `.set_amp(0)` -/
theorem unpitched_mode_kept :
    let n : Note := { kind := .x, val := 0, oct := 0, mode := some .m }
    let d : Note := { kind := .d, val := 4, oct := -1, acc := some .dim }
    (noteCode n).text = "x0.m" ∧ evalCode (noteCode n) = .ok n ∧
    (noteCode d).text = "d4.oabs(-1).dim" ∧ evalCode (noteCode d) = .ok d := by
  decide +kernel

theorem amplitude_zero_kept :
    let n : Note := { kind := .s, val := 0, oct := 0, amp := 0 }
    (noteCode n).text = "s0.set_amp(0)" ∧ evalCode (noteCode n) = .ok n := by
  decide +kernel

/-! ### non-vacuity -/

example : NoteDomain { kind := .su, val := 3, oct := -2, dur := 5/7, mode := some .dorian, amp := 96, tags := ["accent", "b"] }
    ∧ Canonical { kind := .su, val := 3, oct := -2, dur := 5/7, mode := some .dorian, amp := 96, tags := ["accent", "b"] } := by
  decide +kernel
example : (noteCode { kind := .su, val := 3, oct := -2, dur := 5/7, mode := some .dorian, amp := 96, tags := ["accent", "b"] }).text
    = "su3.augment(frac(5, 7)).oabs(-2).dorian.f.add_tags({'accent', 'b'})" := by decide +kernel
example : NoteDomain { kind := .s, val := 4, oct := 1, dur := 3/2, acc := some .dim, amp := 50 }
    ∧ ¬ Canonical { kind := .s, val := 4, oct := 1, dur := 3/2, acc := some .dim, amp := 50 } := by decide +kernel
example : NoteDomain { kind := .r, val := 0, oct := 0, dur := 1/3, tags := ["a"] } ∧ NoteDomain { kind := .d, val := 11, oct := -1, amp := 0 }
    ∧ NoteDomain { kind := .x, val := 22, oct := 3, mode := some .m, amp := 114 } ∧ ¬ InLibrary { kind := .s, val := 7, oct := 0 } := by
  decide +kernel

/-! ## melodies -/

/-- closed form for melodies (the text `n0 + n1 + …` evaluates note by note, nothing is copied) -/
theorem melody_reread (m : Melody) (hne : m ≠ []) (h : ∀ n ∈ m, NoteDomain n) :
    evalMelody (melodyCodes m) = .ok (m.map rereadNote) := by
  have hm : (melodyCodes m).mapM evalCode = .ok (m.map rereadNote) := by
    unfold melodyCodes
    have := mapM_ok (fun n => evalCode (noteCode n)) rereadNote m (fun n hn => note_reread n (h n hn))
    rw [← this]
    clear this h hne
    induction m with
    | nil => rfl
    | cons x xs ih => simp only [List.map_cons, List.mapM_cons, ih]
  cases m with
  | nil => exact absurd rfl hne
  | cons x xs => simpa [evalMelody, melodyCodes] using hm

/-- **melody_roundtrip**: every non-empty melody of library notes comes back with the same notes, in
the same order, equal on all compared fields -/
theorem melody_roundtrip (m : Melody) (hne : m ≠ []) (h : ∀ n ∈ m, NoteDomain n) :
    ∃ m', evalMelody (melodyCodes m) = .ok m' ∧ List.Forall₂ SameFields m m' := by
  refine ⟨m.map rereadNote, melody_reread m hne h, ?_⟩
  clear h hne
  induction m with
  | nil => exact List.Forall₂.nil
  | cons x xs ih => exact List.Forall₂.cons (sameFields_reread x) ih

/-- on canonical notes the melody comes back identical -/
theorem melody_roundtrip_exact (m : Melody) (hne : m ≠ []) (h : ∀ n ∈ m, NoteDomain n ∧ Canonical n) :
    evalMelody (melodyCodes m) = .ok m := by
  rw [melody_reread m hne (fun n hn => (h n hn).1)]
  congr 1
  have : ∀ n ∈ m, rereadNote n = n := by
    intro n hn
    have a := note_reread n (h n hn).1
    have b := note_roundtrip_exact n (h n hn).1 (h n hn).2
    rw [a] at b
    injection b
  clear h hne
  induction m with
  | nil => rfl
  | cons x xs ih =>
      simp only [List.map_cons, this x (by simp), ih (fun n hn => this n (by simp [hn]))]

/-- the empty melody has no text form (`eval('')` is a SyntaxError) -/
theorem melody_empty_rejected : evalMelody (melodyCodes []) = .error .other := rfl

/-! ## the shared tables, and the printer of the equality model -/

/-- every name the printer takes from `DURATION_TO_STR` is read back by `Note.__getattr__` as the
same duration (`STR_TO_DURATION[name]`), and is not shadowed by an ornament or pedal property -/
theorem duration_names_roundtrip : ∀ p ∈ DURATION_TO_STR,
    STR_TO_DURATION.lookup p.2 = some p.1 ∧ ORNAMENTS.contains p.2 = false := by
  intro p hp
  exact ⟨(dur_table_inverse p hp).2.2.2, (dur_table_inverse p hp).1⟩

/-- **amp_figure_roundtrip**: `amp_figure` always returns one of the nine figures, and the amplitude the
text form stands for has that figure again — all nine, exact rationals through the float thresholds -/
theorem amp_figure_roundtrip (a : Rat) :
    Eq.ampFigure a ∈ FIGURES ∧ Eq.ampFigure (canonAmp (Eq.ampFigure a)) = Eq.ampFigure a :=
  ⟨ampFigure_mem a, figure_canonAmp _ (ampFigure_mem a)⟩

/-- why the figure `n` is written `.set_amp(0)`: the attribute `.n` is the rhythmic suffix of 0 quarters -/
theorem figure_n_shadowed (cp : Note) : evalAttr cp "n" = .ok { cp with dur := cp.dur * 0 } := evalAttr_n cp

/-- the evaluator's hand-written attribute tables are exactly the note-valued properties of the live
classes (`Gen/NoteAttrs.lean`, extracted by value): the ornaments add the tag of their own name, the
two pedal properties, the nine modes, the five accidentals -/
theorem attribute_tables_match_classes :
    (ORNAMENTS.all (fun n => NOTE_TAG_PROPERTIES.contains (n, n)) ∧ NOTE_TAG_PROPERTIES.all (fun p => ORNAMENTS.contains p.1 && p.1 == p.2)) ∧
    NOTE_PEDAL_PROPERTIES.all (fun p => (p.1 == "pedal_on" && p.2 == "1") || (p.1 == "pedal_off" && p.2 == "0")) ∧
    NOTE_PEDAL_PROPERTIES.length = 2 ∧
    (NOTE_MODE_PROPERTIES.all (fun p => p.1 == p.2 && (Mode.ofStr? p.1).isSome) ∧ Mode.all.all (fun m => NOTE_MODE_PROPERTIES.contains (m.toStr, m.toStr))) ∧
    (NOTE_ACC_PROPERTIES.all (fun p => p.1 == p.2 && (Acc.ofStr? p.1).isSome) ∧ Acc.all.all (fun a => NOTE_ACC_PROPERTIES.contains (a.toStr, a.toStr))) := by
  decide +kernel

/-- the text of the code is the printed form of the equality model (C20's `Eq.noteCode`): the
framework's two printers are the same function, for every note -/
theorem printer_agrees_note (n : Note) : (noteCode n).text = Eq.noteCode n := noteCode_text_eq n

theorem printer_agrees_melody (m : Melody) : melodyText (melodyCodes m) = Eq.melodyCode m := melodyText_eq m

theorem printer_agrees_tonality (t : Tonality) : (tonCode t).map TCode.text = Eq.tonCode t := tonCode_text_eq t

theorem printer_agrees_chord (c : Chord) : (chordCode c).map ChordCode.text = Eq.chordRepr c := chordCode_text_eq c

theorem printer_agrees_score (s : Score) : (scoreCodes (s.map Item.plain)).map scoreText = Eq.scoreRepr s := scoreText_eq s

end MV.C05
