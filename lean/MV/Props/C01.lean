/-
C01 — a note's pitch in a chord is the documented one.

Only property statements and their proofs from the lemmas of `MV.Lemmas.Scale`.
All theorems quantify over every chord (any tonality degree/octave, any chord octave,
any degree 0..6, any mode, any figure) and every note value/octave in ℤ.
-/
import MV.Lemmas.Scale

namespace MV.C01
open MV Gen

/-! ### the scale table is the documented one -/

def prefixSums : List Int → Int → List Int
  | [], _ => []
  | x :: xs, acc => acc :: prefixSums xs (acc + x)

def rotl (l : List Int) (k : Nat) : List Int := l.drop k ++ l.take k

/-- whole/half-step pattern of the major scale -/
def majorSteps : List Int := [2, 2, 1, 2, 2, 2, 1]

/-- documented scales: the seven church modes are the rotations of the major pattern,
`m` is harmonic minor, `mm` melodic minor -/
def specScale : Mode → List Int
  | .M => prefixSums majorSteps 0
  | .dorian => prefixSums (rotl majorSteps 1) 0
  | .phrygian => prefixSums (rotl majorSteps 2) 0
  | .lydian => prefixSums (rotl majorSteps 3) 0
  | .mixolydian => prefixSums (rotl majorSteps 4) 0
  | .aeolian => prefixSums (rotl majorSteps 5) 0
  | .locrian => prefixSums (rotl majorSteps 6) 0
  | .m => prefixSums [2, 1, 2, 2, 1, 3, 1] 0
  | .mm => prefixSums [2, 1, 2, 2, 2, 2, 1] 0

theorem scales_eq_spec (m : Mode) : SCALES m = specScale m := by
  cases m <;> decide

theorem scales_ok (m : Mode) : ScaleOK (SCALES m) := by
  cases m <;> decide

theorem scales_no_extra_keys : SCALES_EXTRA_KEYS = [] := by decide

theorem scales_len (m : Mode) : (SCALES m).length = 7 := (scales_ok m).1

/-! ### scale notes -/

/-- the mode a note is read in: its own mode if it carries one, else the chord's -/
def effMode (c : Chord) (n : Note) : Mode := n.mode.getD c.ton.mode

theorem realChord_fields (c : Chord) (n : Note) :
    (n.realChord c).elem = c.elem ∧ (n.realChord c).oct = c.oct ∧
    (n.realChord c).ton.absDegree = c.ton.absDegree ∧ (n.realChord c).ton.mode = effMode c n := by
  unfold Note.realChord effMode
  cases n.mode <;> simp [Tonality.absDegree]

/-- **scale notes**: degree `elem + val` of the (note's or chord's) mode, counted from the
tonality's tonic, plus 12 per octave of tonality, chord and note -/
theorem pitch_scale (c : Chord) (n : Note) (last : Int) (hk : n.kind = .s) (ha : n.acc = none)
    (he : 0 ≤ c.elem ∧ c.elem < 7) :
    noteToPitch c n last = .ok (some (c.ton.deg + 12 * c.ton.oct + 12 * c.oct
        + degSemitone (SCALES (effMode c n)) (c.elem.toNat + (n.val % 7).toNat)
        + 12 * (n.val / 7 + n.oct))) := by
  obtain ⟨h1, h2, h3, h4⟩ := realChord_fields c n
  have hL : (SCALES (n.realChord c).ton.mode).length = 7 := scales_len _
  have hlen := scalePitches_length (n.realChord c) hL (by rw [h1]; exact he)
  have hi : (n.val % 7).toNat < 7 := by omega
  have hg := scalePitches_getD (n.realChord c) (n.val % 7).toNat hL (by rw [h1]; exact he) hi
  unfold noteToPitch basicPitch
  simp only [hk, ha]
  rw [valueToScale_seven _ _ hlen]
  have hm : (n.val + 7 * n.oct) % 7 = n.val % 7 := by omega
  have hd : (n.val + 7 * n.oct) / 7 = n.val / 7 + n.oct := by omega
  simp only [bind, Except.bind, pure, Except.pure, hm, hd, hg, h1, h2, h3, h4]
  rfl

/-- pitch of the chord root (first entry of the chord scale) in the note's effective mode -/
def rootPitch (c : Chord) (n : Note) : Int :=
  c.ton.deg + 12 * c.ton.oct + 12 * c.oct + degSemitone (SCALES (effMode c n)) c.elem.toNat

theorem real_root (c : Chord) (n : Note) (he : 0 ≤ c.elem ∧ c.elem < 7) :
    pyIndex (n.realChord c).scalePitches 0 = .ok (rootPitch c n) := by
  obtain ⟨h1, h2, h3, h4⟩ := realChord_fields c n
  have hL : (SCALES (n.realChord c).ton.mode).length = 7 := scales_len _
  have hlen := scalePitches_length (n.realChord c) hL (by rw [h1]; exact he)
  have hg := scalePitches_getD (n.realChord c) 0 hL (by rw [h1]; exact he) (by omega)
  rw [pyIndex_nonneg _ 0 0 (by omega) (by omega)]
  rw [Int.toNat_zero, hg, h1, h2, h3, h4]
  simp only [rootPitch, Tonality.absDegree, Nat.add_zero]

/-- **chromatic notes**: semitones counted from the chord root, 12 per octave -/
theorem pitch_chromatic (c : Chord) (n : Note) (last : Int) (hk : n.kind = .h)
    (he : 0 ≤ c.elem ∧ c.elem < 7) :
    noteToPitch c n last = .ok (some (rootPitch c n + n.val + 12 * n.oct)) := by
  unfold noteToPitch basicPitch
  simp only [hk, real_root c n he, bind, Except.bind, valueToScale_chromatic, pure, Except.pure]
  congr 2
  omega

/-- **absolute notes** do not depend on the chord at all -/
theorem pitch_absolute (c : Chord) (n : Note) (last : Int) (hk : n.kind = .a) :
    noteToPitch c n last = .ok (some (n.val + 12 * n.oct)) := by
  unfold noteToPitch basicPitch
  have := valueToScale_chromatic 0 (n.val + 12 * n.oct)
  simp only [Int.zero_add] at this
  simp only [hk, bind, Except.bind, pure, Except.pure]
  have hr : (List.range 12).map Int.ofNat = (List.range 12).map (fun (k : Nat) => (0:Int) + Int.ofNat k) := by
    simp
  rw [hr, valueToScale_chromatic]
  simp

/-- **drum notes**: value + 12 per octave, independent of the chord -/
theorem pitch_drum (c : Chord) (n : Note) (last : Int) (hk : n.kind = .d) :
    noteToPitch c n last = .ok (some (n.val + 12 * n.oct)) := by
  unfold noteToPitch basicPitch
  simp only [hk, bind, Except.bind, pure, Except.pure]
  have hr : (List.range 12).map Int.ofNat = (List.range 12).map (fun (k : Nat) => (0:Int) + Int.ofNat k) := by
    simp
  rw [hr, valueToScale_chromatic]
  simp

/-- **accidentals override the chord scale**: the interval above the chord root comes from
the accidental table alone (whatever the mode's own degree is) -/
theorem pitch_accident (c : Chord) (n : Note) (a : Acc) (last : Int) (hk : n.kind = .s)
    (ha : n.acc = some a) (he : 0 ≤ c.elem ∧ c.elem < 7) :
    noteToPitch c n last =
      (match ACCIDENTS_TO_NOTE.lookup (n.val, a) with
       | some d => .ok (some (rootPitch c n + d + 12 * n.oct))
       | none => .error .key) := by
  unfold noteToPitch basicPitch withAccident lookupKey
  simp only [hk, ha, real_root c n he, bind, Except.bind, pure, Except.pure]
  cases List.lookup (n.val, a) ACCIDENTS_TO_NOTE <;> rfl

/-- **chord-tone notes** count along the root-position arpeggio `chord_pitches` -/
theorem pitch_chord_tone (c : Chord) (n : Note) (last : Int) (sc : List Int) (hk : n.kind = .c)
    (hs : c.chordPitches = .ok sc) (hn : 0 < sc.length) :
    noteToPitch c n last = .ok (some (sc.getD (n.val % (sc.length : Int)).toNat 0
        + 12 * (n.val / (sc.length : Int) + n.oct))) := by
  unfold noteToPitch
  simp only [hk, hs, bind, Except.bind, pure, Except.pure]
  rw [valueToScale_pos _ _ hn]
  have hp : (sc.length : Int) ≠ 0 := by omega
  rw [Int.add_mul_emod_self_left, Int.add_mul_ediv_left _ _ hp]

/-- **bass-tone notes** count along the inverted arpeggio `chord_extension_pitches` -/
theorem pitch_bass_tone (c : Chord) (n : Note) (last : Int) (sc : List Int) (hk : n.kind = .b)
    (hs : c.extensionPitches = .ok sc) (hn : 0 < sc.length) :
    noteToPitch c n last = .ok (some (sc.getD (n.val % (sc.length : Int)).toNat 0
        + 12 * (n.val / (sc.length : Int) + n.oct))) := by
  unfold noteToPitch
  simp only [hk, hs, bind, Except.bind, pure, Except.pure]
  rw [valueToScale_pos _ _ hn]
  have hp : (sc.length : Int) ≠ 0 := by omega
  rw [Int.add_mul_emod_self_left, Int.add_mul_ediv_left _ _ hp]

/-- rests, continuations and pattern placeholders have no pitch -/
theorem pitch_none (c : Chord) (n : Note) (last : Int) (hk : n.kind = .r ∨ n.kind = .l ∨ n.kind = .x) :
    noteToPitch c n last = .ok none := by
  unfold noteToPitch
  rcases hk with h | h | h <;> simp [h] <;> rfl

/-! ### one octave is always exactly 12 -/

def shift (k : Int) : Res (Option Int) → Res (Option Int)
  | .ok (some p) => .ok (some (p + 12 * k))
  | r => r

/-- raising a scale / chromatic / absolute note by `k` octaves adds exactly `12 k` -/
theorem note_octave_12 (c : Chord) (n : Note) (k last : Int)
    (hk : n.kind = .s ∨ n.kind = .h ∨ n.kind = .a) (he : 0 ≤ c.elem ∧ c.elem < 7) :
    noteToPitch c (n.o k) last = shift k (noteToPitch c n last) := by
  have hmode : effMode c (n.o k) = effMode c n := by
    unfold effMode Note.o Note.oabs; split <;> rfl
  have hroot : rootPitch c (n.o k) = rootPitch c n := by unfold rootPitch; rw [hmode]
  rcases hk with h | h | h
  · have hk' : (n.o k).kind = .s := by unfold Note.o Note.oabs; simp [h]
    have hv : (n.o k).val = n.val ∧ (n.o k).oct = n.oct + k ∧ (n.o k).acc = n.acc := by
      unfold Note.o Note.oabs; simp [h]
    cases hacc : n.acc with
    | none =>
        rw [pitch_scale c (n.o k) last hk' (by rw [hv.2.2]; exact hacc) he, pitch_scale c n last h hacc he]
        simp only [shift, hmode, hv.1, hv.2.1]
        congr 2; omega
    | some a =>
        rw [pitch_accident c (n.o k) a last hk' (by rw [hv.2.2]; exact hacc) he,
            pitch_accident c n a last h hacc he, hv.1, hv.2.1, hroot]
        cases List.lookup (n.val, a) ACCIDENTS_TO_NOTE with
        | none => rfl
        | some d => simp only [shift]; congr 2; omega
  · have hk' : (n.o k).kind = .h := by unfold Note.o Note.oabs; simp [h]
    have hv : (n.o k).val = n.val ∧ (n.o k).oct = n.oct + k := by
      unfold Note.o Note.oabs; simp [h]
    rw [pitch_chromatic c (n.o k) last hk' he, pitch_chromatic c n last h he, hv.1, hv.2, hroot]
    simp only [shift]; congr 2; omega
  · have hk' : (n.o k).kind = .a := by unfold Note.o Note.oabs; simp [h]
    have hv : (n.o k).val = n.val ∧ (n.o k).oct = n.oct + k := by
      unfold Note.o Note.oabs; simp [h]
    rw [pitch_absolute c (n.o k) last hk', pitch_absolute c n last h, hv.1, hv.2]
    simp only [shift]; congr 2; omega

/-- raising the chord, or its tonality, by `k` octaves moves scale and chromatic notes by
exactly `12 k` and leaves absolute notes where they are -/
theorem chord_octave_12 (c : Chord) (n : Note) (k last : Int) (he : 0 ≤ c.elem ∧ c.elem < 7) :
    (n.kind = .s ∨ n.kind = .h →
      noteToPitch (c.o k) n last = shift k (noteToPitch c n last) ∧
      noteToPitch { c with ton := c.ton.o k } n last = shift k (noteToPitch c n last)) ∧
    (n.kind = .a → noteToPitch (c.o k) n last = noteToPitch c n last) := by
  have he' : 0 ≤ (c.o k).elem ∧ (c.o k).elem < 7 := he
  have he'' : 0 ≤ ({ c with ton := c.ton.o k } : Chord).elem ∧ ({ c with ton := c.ton.o k } : Chord).elem < 7 := he
  have hr1 : rootPitch (c.o k) n = rootPitch c n + 12 * k := by
    unfold rootPitch effMode Chord.o; simp only; omega
  have hr2 : rootPitch { c with ton := c.ton.o k } n = rootPitch c n + 12 * k := by
    unfold rootPitch effMode Tonality.o; simp only; omega
  refine ⟨fun hk => ?_, fun hk => ?_⟩
  · rcases hk with h | h
    · cases hacc : n.acc with
      | none =>
          rw [pitch_scale (c.o k) n last h hacc he', pitch_scale _ n last h hacc he'',
              pitch_scale c n last h hacc he]
          simp only [shift, Chord.o, Tonality.o, effMode]
          constructor <;> (congr 2; omega)
      | some a =>
          rw [pitch_accident (c.o k) n a last h hacc he', pitch_accident _ n a last h hacc he'',
              pitch_accident c n a last h hacc he, hr1, hr2]
          cases List.lookup (n.val, a) ACCIDENTS_TO_NOTE with
          | none => exact ⟨rfl, rfl⟩
          | some d => simp only [shift]; constructor <;> (congr 2; omega)
    · rw [pitch_chromatic (c.o k) n last h he', pitch_chromatic _ n last h he'',
          pitch_chromatic c n last h he, hr1, hr2]
      simp only [shift]; constructor <;> (congr 2; omega)
  · rw [pitch_absolute (c.o k) n last hk, pitch_absolute c n last hk]

/-! ### steps of the scale -/

theorem degSemitone_succ (L : List Int) (h : ScaleOK L) (j : Nat) :
    degSemitone L j < degSemitone L (j + 1) := by
  obtain ⟨_, h0, h6, hs⟩ := h
  unfold degSemitone
  by_cases hj : j % 7 < 6
  · have h1 : (j + 1) % 7 = j % 7 + 1 := by omega
    have h2 : (j + 1) / 7 = j / 7 := by omega
    rw [h1, h2]
    have := hs (j % 7) hj
    omega
  · have h1 : (j + 1) % 7 = 0 := by omega
    have h2 : (j + 1) / 7 = j / 7 + 1 := by omega
    have h3 : j % 7 = 6 := by omega
    rw [h1, h2, h3, h0]
    push_cast
    omega

theorem degSemitone_octave (L : List Int) (j : Nat) : degSemitone L (j + 7) = degSemitone L j + 12 := by
  unfold degSemitone
  have h1 : (j + 7) % 7 = j % 7 := by omega
  have h2 : (j + 7) / 7 = j / 7 + 1 := by omega
  rw [h1, h2]; push_cast; omega

/-- going up one scale step always raises the pitch (by 1..3 semitones in the given tables)
and seven steps are exactly an octave -/
theorem scale_step_up (c : Chord) (n : Note) (last : Int) (hk : n.kind = .s) (ha : n.acc = none)
    (he : 0 ≤ c.elem ∧ c.elem < 7) :
    ∃ p q r, noteToPitch c n last = .ok (some p) ∧
      noteToPitch c { n with val := n.val + 1 } last = .ok (some q) ∧
      noteToPitch c { n with val := n.val + 7 } last = .ok (some r) ∧ p < q ∧ r = p + 12 := by
  have hm1 : effMode c { n with val := n.val + 1 } = effMode c n := rfl
  have hm7 : effMode c { n with val := n.val + 7 } = effMode c n := rfl
  refine ⟨_, _, _, pitch_scale c n last hk ha he, pitch_scale c _ last hk ha he,
    pitch_scale c _ last hk ha he, ?_, ?_⟩
  · simp only [hm1]
    have hok := scales_ok (effMode c n)
    by_cases hj : n.val % 7 < 6
    · have h1 : ((n.val + 1) % 7).toNat = (n.val % 7).toNat + 1 := by omega
      have h2 : (n.val + 1) / 7 = n.val / 7 := by omega
      rw [h1, h2]
      have := degSemitone_succ _ hok (c.elem.toNat + (n.val % 7).toNat)
      rw [← Nat.add_assoc]
      omega
    · have h1 : ((n.val + 1) % 7).toNat = 0 := by omega
      have h2 : (n.val + 1) / 7 = n.val / 7 + 1 := by omega
      have h3 : (n.val % 7).toNat = 6 := by omega
      rw [h1, h2, h3]
      have h4 := degSemitone_succ _ hok (c.elem.toNat + 6)
      have h5 := degSemitone_octave (SCALES (effMode c n)) c.elem.toNat
      simp only [Nat.add_zero]
      have : c.elem.toNat + 6 + 1 = c.elem.toNat + 7 := by omega
      rw [this] at h4
      omega
  · simp only [hm7]
    have h1 : ((n.val + 7) % 7) = n.val % 7 := by omega
    have h2 : (n.val + 7) / 7 = n.val / 7 + 1 := by omega
    rw [h1, h2]; omega

/-! ### pitch 0 is middle C; accidental table laws -/

/-- `s0` on `I % I.M` is pitch 0 (the `60 +` of the MIDI writer is C07's) -/
theorem middle_c :
    noteToPitch { elem := 0, ton := ⟨0, .M, 0⟩ } { kind := .s, val := 0, oct := 0 } 0 = .ok (some 0) := by
  decide

def accOf (v : Int) (a : Acc) : Int := (ACCIDENTS_TO_NOTE.lookup (v, a)).getD (-100)

/-- the table is total on degrees 0..6, `natural` = `maj` = the major scale, and
`dim ≤ min ≤ natural ≤ aug`, each within one semitone of natural; unison, fourth and
fifth are not changed by `min`/`maj` -/
theorem accident_table_laws :
    (∀ v ∈ [0,1,2,3,4,5,6], accOf v .natural = (SCALES .M).getD v.toNat 0 ∧ accOf v .maj = accOf v .natural
        ∧ accOf v .dim ≤ accOf v .min ∧ accOf v .min ≤ accOf v .natural ∧ accOf v .natural ≤ accOf v .aug
        ∧ accOf v .natural - 1 ≤ accOf v .dim ∧ accOf v .aug ≤ accOf v .natural + 1) ∧
    (∀ v ∈ [0, 3, 4], accOf v .min = accOf v .natural) := by
  decide

/-! ### non-vacuity: concrete instances of the hypotheses, evaluated by the kernel -/

example : noteToPitch { elem := 4, ext := { fig := .f7 }, ton := ⟨2, .m, -1⟩, oct := 1 }
    { kind := .s, val := -9, oct := 2, mode := some .lydian } 0 = .ok (some 18) := by decide
example : noteToPitch { elem := 6, ton := ⟨11, .locrian, 0⟩ } { kind := .h, val := 14, oct := -1 } 0
    = .ok (some 23) := by decide
example : noteToPitch { elem := 4, ext := { fig := .f65 }, ton := ⟨2, .m, 0⟩ } { kind := .b, val := 5, oct := 0 } 0
    = .ok (some 28) := by decide +kernel

end MV.C01
