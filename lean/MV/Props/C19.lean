/-
C19 — voice leading and counterpoint only re-voice.

Property theorems over the models MV/Model/VoiceLeading.lean and MV/Model/Counterpoint.lean
(helper lemmas: MV/Lemmas/Parsimonious.lean, MV/Lemmas/VoiceLeading.lean, MV/Lemmas/Progression.lean).  All random
draws, accept / reject decisions and scorer choices are universally quantified oracles.
Where the code violates the full statement the full statement is kept as a `def …_full`,
the exact partial is proved and the counter-example is a theorem (`…_fails`).
-/
import MV.Lemmas.VoiceLeading
import MV.Lemmas.Parsimonious
import MV.Lemmas.Progression
namespace MV.C19
open MV Gen C02


/-! ## 1. Parsimonious chord voice leading -/

/-- **changes only inversion and octave** — for EVERY reference chord, EVERY candidate (any
figure, any modifiers, any octaves) and every direction: when the code returns a chord, it
has the candidate's degree, tonality degree and mode (tonality octave folded into the chord
octave: it is 0), the candidate's parts, the candidate's modifiers (as multisets) and a
figure of the same family (triad / seventh chord). -/
theorem pvl_same_chord (self cand c' : Chord) (dir : Dir) (h : self.parsimonious cand dir = .ok c') :
    c'.elem = cand.elem ∧ c'.ton.deg = cand.ton.deg ∧ c'.ton.mode = cand.ton.mode ∧ c'.ton.oct = 0 ∧
    c'.parts = cand.parts ∧
    c'.ext.repl.Perm cand.ext.repl ∧ c'.ext.add.Perm cand.ext.add ∧ c'.ext.rem.Perm cand.ext.rem ∧
    (c'.ext.fig ∈ threeFigs ↔ cand.ext.fig ∈ threeFigs) ∧ (c'.ext.fig ∈ fourFigs ↔ cand.ext.fig ∈ fourFigs) ∧
    (c'.ext.fig ∈ fourFigs ∨ c'.ext.fig ∈ threeFigs) :=
  parsimonious_revoiced self cand c' dir h

/-- **error branch**: the explicit `'5'` and the extended figures `9 11 13` are rejected
(`Chord.invert` raises) — never silently re-voiced -/
theorem pvl_rejects_extended (self cand : Chord) (dir : Dir)
    (hf : cand.ext.fig = .f5 ∨ cand.ext.fig = .f9 ∨ cand.ext.fig = .f11 ∨ cand.ext.fig = .f13) (c' : Chord) :
    self.parsimonious cand dir ≠ .ok c' := by
  intro h
  obtain ⟨_, _, _, _, _, _, _, _, h3, h4, hfam⟩ := pvl_same_chord self cand c' dir h
  rcases hfam with hm | hm
  · have := h4.mp hm
    rcases hf with e | e | e | e <;> rw [e] at this <;> simp [fourFigs] at this
  · have := h3.mp hm
    rcases hf with e | e | e | e <;> rw [e] at this <;> simp [threeFigs] at this

/-- **plain triads and seventh chords** (no modifiers, library degree): for every reference
chord with a bass `root`, every tonic, mode, degree, inversion and octaves of the candidate
and every direction, the code returns the candidate re-voiced as `mkP cand f o` (same
harmony, figure `f` of the same family, chord octave `o`, tonality octave 0) with
* the same chord tones, tone by tone, up to octaves;
* the new bass within 5 semitones (a fourth — hence "at most a fifth") of `root`,
  within 3 when no direction is requested;
* on the requested side of `root` when a direction is given. -/
theorem pvl_plain (self cand : Chord) (dir : Dir) (root : Int)
    (hs : self.bassPitch = .ok root) (hn : ∃ ns, self.chordNotes = .ok ns) (hc : PlainCand cand) :
    ∃ f o b, self.parsimonious cand dir = .ok (mkP cand f o) ∧ PlainCand (mkP cand f o) ∧
      (f ∈ threeFigs ↔ cand.ext.fig ∈ threeFigs) ∧
      (∃ ps ps', cand.chordPitches = .ok ps ∧ (mkP cand f o).chordPitches = .ok ps' ∧
        ps'.map (· % 12) = ps.map (· % 12)) ∧
      (mkP cand f o).bassPitch = .ok b ∧ -5 ≤ b - root ∧ b - root ≤ 5 ∧
      (dir = .down → b ≤ root) ∧ (dir = .up → root ≤ b) ∧ (dir = .none → -3 ≤ b - root ∧ b - root ≤ 3) := by
  obtain ⟨f, o, hres, hf7, hf3, _, b, hb, h1, h2, h3, h4, h5⟩ := parsimonious_plain self cand dir root hs hn hc
  exact ⟨f, o, b, hres, ⟨mkP_plain _ _ _, hf7, hc.2.2⟩, hf3, chordPitches_mkP cand f o hc hf7 hf3, hb, h1, h2, h3, h4, h5⟩

/-! ### progressions -/

/-- **a whole progression of plain triads / seventh chords**: the first chord is kept as it
is, the length is kept, every later chord is its source chord re-voiced (same harmony, same
family), and every step moves the bass by at most 5 semitones, in the requested direction. -/
theorem spvl_plain (s : Score) (dirs : List Dir) (base : Chord) (rest : List Chord) (hs : s = base :: rest)
    (hplain : ∀ c ∈ s, PlainCand c) (hd : dirs.length = rest.length) :
    ∃ fin, Score.parsimonious s false (.list dirs) = .ok (base :: fin) ∧ fin.length = rest.length ∧
      MovesOK base (dirs.zip fin) ∧
      All2 (fun c c' => ∃ f o, c' = mkP c f o ∧ (f ∈ threeFigs ↔ c.ext.fig ∈ threeFigs)) rest fin := by
  subst hs
  have hl : ∀ x ∈ dirs.zip rest, PlainCand x.2 := by
    intro x hx
    exact hplain x.2 (List.mem_cons_of_mem _ (List.of_mem_zip hx).2)
  obtain ⟨res, hr, hlen, hmoves, hall⟩ := pvlLoop_plain base (dirs.zip rest) (hplain base (by simp)) hl
  have hzl : (dirs.zip rest).length = rest.length := by simp [hd]
  refine ⟨res, ?_, by rw [hlen, hzl], ?_, ?_⟩
  · unfold Score.parsimonious
    simp only [pyIndex, List.length_cons, bind, Except.bind]
    simp only [hd, ne_eq, not_true_eq_false, if_false, Nat.add_sub_cancel]
    have hneg : ¬ ((rest.length : Int) + 1 ≤ 0) := by omega
    simp [hneg, hr, pure, Except.pure]
  · rw [List.map_fst_zip (by omega)] at hmoves
    exact hmoves
  · exact all2_zip_snd _ dirs rest res hd hall


/-- **keeps the first chord; only re-voices the others** — for every score (any figures and
modifiers), `from_first` flag and directions argument: on success the first chord is
returned as it is, the number of chords is kept, and every later chord is a re-voicing
(`Revoiced`) of the chord at its position.  A directions list of the wrong length is
rejected with `AssertionError`, an empty score with `IndexError`. -/
theorem spvl_structure (s s' : Score) (ff : Bool) (spec : DirSpec) (h : Score.parsimonious s ff spec = .ok s') :
    ∃ base rest fin, s = base :: rest ∧ s' = base :: fin ∧ All2 Revoiced rest fin := by
  unfold Score.parsimonious at h
  simp only [bind, Except.bind] at h
  cases s with
  | nil => simp [pyIndex] at h
  | cons base rest =>
    have hb : pyIndex (base :: rest) 0 = .ok base := by
      unfold pyIndex; simp
    simp only [hb] at h
    cases spec <;> exact spvl_aux base rest _ ff s' h

/-- error branch: a `directions` list whose length is not `len(chords) - 1` fails the code's
`assert` (in code and model), it is never truncated or padded -/
theorem spvl_rejects_bad_directions (s : Score) (ff : Bool) (l : List Dir) (hs : s ≠ []) (hl : l.length ≠ s.length - 1) :
    Score.parsimonious s ff (.list l) = .error .assertion := by
  unfold Score.parsimonious
  cases s with
  | nil => exact absurd rfl hs
  | cons base rest =>
    have hb : pyIndex (base :: rest) 0 = .ok base := by
      unfold pyIndex; simp
    simp only [hb, bind, Except.bind]
    simp only [hl, ne_eq, not_false_eq_true, if_true]

/-! ### the bound and the direction fail with modifiers (the model reproduces the code) -/

/-- the full claim of the property for one step, any candidate.  `pvl_plain` is its proved
partial (extra hypothesis `PlainCand cand`, with the sharper bound 5); `pvl_rejects_extended`
covers the figures the code refuses. -/
def PvlStep_full : Prop :=
  ∀ (self cand c' : Chord) (dir : Dir) (root b : Int),
    self.bassPitch = .ok root → self.parsimonious cand dir = .ok c' → c'.bassPitch = .ok b →
      (-7 ≤ b - root ∧ b - root ≤ 7) ∧ (dir = .down → b ≤ root) ∧ (dir = .up → root ≤ b)

/-- witness: `(I % III.M)` → `(II['(sus2)'] % I.m)`, direction up: the bass goes from 4 down to 3 -/
theorem pvl_step_full_fails : ¬ PvlStep_full := by
  intro h
  have := h { elem := 0, ton := ⟨4, .M, 0⟩ } { elem := 1, ext := { repl := ["sus2"] }, ton := ⟨0, .m, 0⟩ }
    { elem := 1, ext := { fig := .f6, repl := ["sus2"] }, ton := ⟨0, .m, 0⟩ } .up 4 3
    (by decide +kernel) (by decide +kernel) (by decide +kernel)
  exact absurd (this.2.2 rfl) (by decide)

/-- witness for the bound: `(I % VI.b.M.o(-1))` → `(I['(m6)'] % I.M)`, direction up: the bass moves by −8 -/
theorem pvl_bound_fails_with_modifiers :
    ∃ self cand c' root b, self.bassPitch = .ok root ∧ Chord.parsimonious self cand .up = .ok c' ∧
      c'.bassPitch = .ok b ∧ b - root = -8 :=
  ⟨{ elem := 0, ton := ⟨8, .M, -1⟩ }, { elem := 0, ext := { repl := ["m6"] }, ton := ⟨0, .M, 0⟩ },
   { elem := 0, ext := { repl := ["m6"] }, ton := ⟨0, .M, 0⟩, oct := -1 }, -4, -12,
   by decide +kernel, by decide +kernel, by decide +kernel, by decide⟩



/-! ## 2. The voice-leading optimiser -/

/-- **`get_score` only re-voices** — for every state (whatever `init` produced), every
solution matrix `dvals` (hence every stream of random draws, every seed, every iteration
budget) and every score whose chords have distinct part names: the returned score has the
same chords (degree, figure, tonality, octave), the same parts in the same order, and in
every part only the first note may differ — and only in value and octave (same kind,
duration, mode, accidental, loudness, tags, tempo, pedal). -/
theorem vl_get_score_structure (st : VLState) (s s' : Score) (dvals : Mat) (hn : ∀ c ∈ s, KeysNodup c)
    (h : st.getScore s dvals = .ok s') : All2 (ChordRv HeadRv) s s' :=
  getScore_rv st s s' dvals hn h

/-- a relation that follows: onsets and durations of every part are untouched -/
theorem vl_durations (c c' : Chord) (h : ChordRv HeadRv c c') :
    All2 (fun p p' => p'.1 = p.1 ∧ p'.2.map (·.dur) = p.2.map (·.dur) ∧ p'.2.map (·.kind) = p.2.map (·.kind)) c.parts c'.parts := by
  refine All2.imp ?_ h.2.2.2.2
  intro p p' ⟨hk, hm⟩
  exact ⟨hk, headRv_maps _ _ hm⟩

/-- **`find_optimal_octaves` normalises octaves only and ends inside half an octave of
middle C** — for every configuration, fuel and score: on success every chord keeps degree,
figure and tonality (the chord octave may change), the parts and, note for note, every
field but value / octave (kept voices are shifted by octaves); and the bass of every
returned chord lies in `(-6, 6]`. -/
theorem vl_bass_range (cfg : VLCfg) (fuel : Nat) (s s' : Score) (hn : ∀ c ∈ s, KeysNodup c)
    (h : cfg.findOptimalOctaves fuel s = .ok s') :
    All2 (fun c c' => OctRv c c' ∧ ∃ b, c'.bassPitch = .ok b ∧ -6 < b ∧ b ≤ 6) s s' :=
  findOptimalOctaves_spec cfg fuel s s' hn h

/-- **…and it does return** on plain chords: `recursive_correct_octave` needs about
`|bass| / 12 + 1` levels (`-12·fuel + 6 < bass ≤ 12·fuel − 6` suffices), far below Python's
recursion limit; voices kept with `change_octave_fixed=False` must exist in the chord
(otherwise `KeyError`, in code and model) -/
theorem vl_octaves_terminate (fixed : List (String × Bool)) (fuel : Nat) (c : Chord) (b : Int)
    (hp : Plain c) (he : 0 ≤ c.elem ∧ c.elem < 7) (hn : KeysNodup c)
    (hk : ∀ p ∈ fixed, p.2 = false → p.1 ∈ c.parts.map (·.1))
    (hb : c.bassPitch = .ok b) (hf : -12 * (fuel : Int) + 6 < b ∧ b ≤ 12 * (fuel : Int) - 6) :
    ∃ c' b', correctOctave fixed fuel c = .ok c' ∧ OctRv c c' ∧ c'.bassPitch = .ok b' ∧ -6 < b' ∧ b' ≤ 6 := by
  obtain ⟨c', hc'⟩ := correctOctave_terminates fixed fuel c b hp he hn hk hb hf
  obtain ⟨h1, b', h2, h3, h4⟩ := correctOctave_spec fixed fuel c c' hn hc'
  exact ⟨c', b', hc', h1, h2, h3, h4⟩

/-- **the whole call `VoiceLeading.__call__`**, for every configuration, method, oracle
(draws, accept decisions, budgets, set orders) and score with distinct part names: on
success there is the intermediate score `s1` of `find_optimal_octaves` (chords equal up to
their octave, notes up to value / octave) and the result differs from `s1` only in value /
octave of first notes; every chord of the RESULT has its bass in `(-6, 6]`. -/
theorem vl_structure (cfg : VLCfg) (meth : Method) (orders : List (List String)) (fuel : Nat) (s s' : Score)
    (hn : ∀ c ∈ s, KeysNodup c) (h : cfg.call meth orders fuel s = .ok s') :
    ∃ s1, All2 (fun c c1 => OctRv c c1) s s1 ∧
      All2 (fun c1 c' => ChordRv HeadRv c1 c' ∧ ∃ b, c'.bassPitch = .ok b ∧ -6 < b ∧ b ≤ 6) s1 s' := by
  unfold VLCfg.call at h
  simp only [bind, Except.bind] at h
  cases h1 : cfg.findOptimalOctaves fuel s with
  | error e => simp [h1] at h
  | ok s1 =>
    simp only [h1] at h
    have r1 := findOptimalOctaves_spec cfg fuel s s1 hn h1
    refine ⟨s1, All2.imp (fun _ _ hx => hx.1) r1, ?_⟩
    -- a score without chords: `find_optimal_octaves` returns `None`, `optimize(None)` raises
    cases he : s1.isEmpty
    case true => simp [he] at h
    simp only [he, Bool.false_eq_true, if_false] at h
    unfold VLCfg.optimize at h
    simp only [bind, Except.bind] at h
    cases h2 : cfg.init s1 orders with
    | error e => simp [h2] at h
    | ok p =>
      obtain ⟨st, ns⟩ := p
      simp only [h2] at h
      cases h3 : st.solve (matZeros st.pitch) meth with
      | error e => simp [h3] at h
      | ok sol =>
        simp only [h3] at h
        have hn1 : ∀ c ∈ s1, KeysNodup c := by
          intro c hc
          obtain ⟨c0, hc0, hr⟩ := All2.mem_right r1 c hc
          exact hr.1.keysNodup (hn c0 hc0)
        have r2 := getScore_rv st s1 s' sol hn1 h
        refine All2.imp ?_ (All2.with_left r1 r2)
        intro c1 c' ⟨hq, c0, _, b, hb, hlo, hhi⟩
        refine ⟨hq, b, ?_, hlo, hhi⟩
        rw [bassPitch_congr c1 c' hq.1 hq.2.1 hq.2.2.1 hq.2.2.2.1]; exact hb

/-! ### the corrected note stays in its note system -/

/-- **index arithmetic** (`value modulo system size with octave carry`), for every system
size `nb > 0` (3-, 4-, 5-tone chords, 7, 12) and every integer `new_val`: the corrected
value lies in `0 ≤ val < nb` and the position `val + nb·octave` in the system is exactly
`new_val + nb·(old octave)` -/
theorem vl_note_index (n : Note) (nb nv : Int) (hnb : 0 < nb) :
    0 ≤ (correctedNote n nb nv).val ∧ (correctedNote n nb nv).val < nb ∧
    (correctedNote n nb nv).val + nb * (correctedNote n nb nv).oct = nv + nb * n.oct :=
  corrected_index n nb nv hnb

/-- **each optimised note stays in its note system**: the corrected note has the kind, mode
and accidental of the original, and (scale, chromatic, chord-tone, bass-tone and absolute
notes; `nb` the size of that system in the chord) it sounds exactly the pitch at position
`new_val` of its own system — chord tones remain chord tones -/
theorem vl_note_system (c : Chord) (n : Note) (nb nv last : Int) (hnb : 0 < nb) (hs : SystemSize c n.kind nb)
    (ha : n.acc = none) :
    (correctedNote n nb nv).kind = n.kind ∧
    noteToPitch c (correctedNote n nb nv) last = noteToPitch c { n with val := nv } last :=
  ⟨(corrected_kind n nb nv).1, corrected_pitch c n nb nv last hnb hs ha⟩

/-- a note that is already in `0 ≤ val < nb` and whose row entry is its own value comes back
unchanged (in particular its symbol) -/
theorem vl_note_unchanged (n : Note) (nb : Int) (h0 : 0 ≤ n.val) (h1 : n.val < nb) : correctedNote n nb n.val = n :=
  corrected_id n nb h0 h1

/-- what happens to each part, in terms of the state and the solution matrix -/
theorem vl_part_outcome (st : VLState) (s s' : Score) (dvals : Mat) (hi : st.instruments.Nodup)
    (h : st.getScore s dvals = .ok s') :
    All2 (fun c c' => ∃ j, ∀ ins mel, c.parts.lookup ins = some mel →
      ∃ mel', c'.parts.lookup ins = some mel' ∧ PartOutcome st dvals j ins mel mel') s s' :=
  getScore_part st s s' dvals hi h

/-! ### fixed voices -/

/-- **`init` masks every fixed voice** -/
theorem vl_init_masks_fixed (cfg : VLCfg) (s ns : Score) (orders : List (List String)) (st : VLState)
    (h : cfg.init s orders = .ok (st, ns)) (f : String) (hf : f ∈ cfg.fixed) :
    ∃ i, st.instruments[i]? = some f ∧ RowZero st.mask i :=
  init_mask_fixed cfg s ns orders st h f hf

/-- **a masked row stays zero** through every proposal, every accept / reject decision and
every iteration of `voices`, `rules`, `voices_and_rules` (max_norm ≥ 0), for every oracle -/
theorem vl_fixed_rows (st : VLState) (meth : Method) (hmeth : meth.masked) (i : Nat) (hm : RowZero st.mask i)
    (dvals res : Mat) (hd : RowZero dvals i) (h : st.solve dvals meth = .ok res) : RowZero res i :=
  solve_rowZero st meth hmeth i hm dvals res hd h

/-- the full claim: whatever the method -/
def FixedRows_full : Prop :=
  ∀ (st : VLState) (meth : Method) (i : Nat) (dvals res : Mat), RowZero st.mask i → RowZero dvals i →
    st.solve dvals meth = .ok res → RowZero res i

/-- **D11**: `method='random'` adds its draws to every row, the mask is not applied
(witness: two voices on one chord, the first one fixed, every draw = 1) -/
theorem fixed_rows_fail_for_random : ¬ FixedRows_full := by
  intro h
  have := h
    { instruments := ["cello__0", "violin__0"], kind := [[.s], [.s]], val := [[0], [4]], oct := [[-1], [0]],
      pitch := [[-12], [7]], mask := [[0], [1]], cands := [[[0, 2, 4, 5, 7, 9, 11]], [[0, 2, 4, 5, 7, 9, 11]]] }
    (.random 2 (fun _ _ _ => 1) 0) 0 [[0], [0]] [[1], [1]]
    (by intro r hr; simp at hr; subst hr; intro x hx; simpa using hx)
    (by intro r hr; simp at hr; subst hr; intro x hx; simpa using hx)
    (by decide +kernel)
  have h1 := this [1] (by simp) 1 (by simp)
  omega

/-- **fixed voices are only re-normalised**: for the three masked methods, starting from the
zero matrix, the first note of a fixed voice is either untouched or corrected with its own
row value `val[i][j]` (its `dvals` entry is 0) — with `vl_note_system` / `vl_note_unchanged`:
same pitch, and the same symbol when the value already lies in its system -/
theorem vl_fixed_voice (cfg : VLCfg) (meth : Method) (hmeth : meth.masked) (orders : List (List String))
    (s0 s s' ns : Score) (st : VLState) (sol : Mat) (f : String) (hf : f ∈ cfg.fixed)
    (hinit : cfg.init s0 orders = .ok (st, ns)) (hi : st.instruments.Nodup)
    (hsol : st.solve (matZeros st.pitch) meth = .ok sol) (h : st.getScore s sol = .ok s') :
    All2 (fun c c' => ∃ j, ∀ mel, c.parts.lookup f = some mel →
      ∃ mel', c'.parts.lookup f = some mel' ∧
        (mel' = mel ∨ ∃ i first t cand v, st.instruments[i]? = some f ∧ mel = first :: t ∧
          idx2 st.cands i j = .ok cand ∧ idx2 st.val i j = .ok v ∧
          mel' = correctedNote first cand.length v :: t)) s s' := by
  obtain ⟨i0, hi0, hmask⟩ := init_mask_fixed cfg s0 ns orders st hinit f hf
  have hz := solve_rowZero st meth hmeth i0 hmask _ sol (matZeros_rowZero _ _) hsol
  refine All2.imp ?_ (getScore_part st s s' sol hi h)
  intro c c' ⟨j, hj⟩
  refine ⟨j, fun mel hm => ?_⟩
  obtain ⟨mel', h1, h2⟩ := hj f mel hm
  refine ⟨mel', h1, ?_⟩
  rcases h2 with rfl | ⟨i, first, t, cand, v, d, hins, rfl, _, _, hc, hv, hd, rfl⟩
  · exact Or.inl rfl
  · have hii : i = i0 := by
      have hlt : i < st.instruments.length := by
        rcases Nat.lt_or_ge i st.instruments.length with h | h
        · exact h
        · rw [List.getElem?_eq_none h] at hins; cases hins
      exact (List.getElem?_inj hlt hi).mp (hins.trans hi0.symm)
    subst hii
    have hd0 := idx2_rowZero sol i j d hz hd
    subst hd0
    exact Or.inr ⟨i, first, t, cand, v, hins, rfl, hc, hv, by simp⟩

/-! ### a one-chord progression is rejected by `voices` -/

/-- **error branch / finding**: when the score has at most one chord (every row of `val` has
at most one entry), each iteration of `voices_optim` raises `ValueError` for every draw —
`VoiceLeading` with the default method cannot process a single chord -/
theorem vl_single_chord_rejected (st : VLState) (dvals : Mat) (d : Draw) (maxNorm : Int)
    (hv : ∀ r ∈ st.val, r.length ≤ 1) (prop : Mat) : st.voicesProposal dvals d maxNorm ≠ .ok prop :=
  voicesProposal_single st dvals d maxNorm hv prop

/-! ### voices kept with `change_octave_fixed=False` -/

/-- the full claim: shifting the chord by `-k` octaves and the kept voice by `+k` leaves the
pitch of each of its notes where it was -/
def KeptVoice_full : Prop :=
  ∀ (c : Chord) (n : Note) (k last : Int), 0 ≤ c.elem ∧ c.elem < 7 →
    n.kind = .s ∨ n.kind = .h ∨ n.kind = .a →
    noteToPitch (c.o (-k)) (n.o k) last = noteToPitch c n last

/-- true for scale and chromatic notes (the chord-relative ones) -/
theorem kept_voice_partial (c : Chord) (n : Note) (k last : Int) (he : 0 ≤ c.elem ∧ c.elem < 7)
    (hk : n.kind = .s ∨ n.kind = .h) :
    noteToPitch (c.o (-k)) (n.o k) last = noteToPitch c n last := by
  have hk' : (n.o k).kind = .s ∨ (n.o k).kind = .h := by
    unfold Note.o Note.oabs
    rcases hk with h | h <;> simp [h]
  rw [((C01.chord_octave_12 c (n.o k) (-k) last he).1 hk').1,
      C01.note_octave_12 c n k last (by rcases hk with h | h <;> simp [h]) he]
  cases noteToPitch c n last with
  | error e => rfl
  | ok o =>
    cases o with
    | none => rfl
    | some p => simp only [C01.shift]; congr 2; omega

/-- **finding**: false for absolute notes — `Melody.o` moves them although they do not
depend on the chord octave (witness: `a0` under `I % I.M`, one octave) -/
theorem kept_voice_full_fails : ¬ KeptVoice_full := by
  intro h
  have := h { elem := 0 } { kind := .a, val := 0, oct := 0 } 1 0 (by decide) (by simp)
  revert this
  decide +kernel



/-! ## 3. Counterpoint (melody level) -/

/-- **`create_counterpoint` never changes the rhythm** — for every list of fixed voices,
every list of voices to adapt and every choice the greedy scorer may make (`delta`): each
returned voice has as many notes as the voice it adapts; note for note the duration is the
same, rests stay rests and continuations stay continuations (so every sounding onset and
duration is kept). -/
theorem cp_rhythm (delta : Nat → Nat → Int) (fixed voices res : List Melody)
    (h : createCounterpoint delta fixed voices = .ok res) : All2 (All2 RhythmOnly) voices res :=
  createCounterpoint_rhythm delta fixed voices res h

/-- **`convert_array_to_melody`**: rests, continuations (and drum / pattern notes) are copied;
a note becomes the scale note `s(v mod 7)` in octave `v div 7` with the duration, loudness
and every other attribute of the rhythm note -/
theorem cp_convert (m m' : Melody) (arr : List (Option Int)) (h : convertArrayToMelody m arr = .ok m') :
    All2 (fun n n' => (n.kind.isNote = false → n' = n) ∧
      (n.kind.isNote = true → ∃ v, n' = { n with kind := .s, val := v % 7, oct := v / 7 })) m m' :=
  convert_spec m m' arr h

/-- the fixed voices are only read: the result depends on them through `subjects` alone and
they are not part of the output (the caller keeps its own objects) — structural fact of the
model: the output has one melody per adapted voice -/
theorem cp_length (delta : Nat → Nat → Int) (fixed voices res : List Melody)
    (h : createCounterpoint delta fixed voices = .ok res) : res.length = voices.length :=
  (createCounterpoint_rhythm delta fixed voices res h).length_eq.symm

/-- error branch: chord-tone, bass-tone and pattern notes are rejected by
`parse_relative_to_absolute` when no chord is given (as `create_counterpoint` calls it) -/
theorem cp_rejects_chord_tones (n : Note) (ns : Melody) (prev : Option Note)
    (hk : n.kind = .c ∨ n.kind = .b ∨ n.kind = .x ∨ n.kind = .cu ∨ n.kind = .cd ∨ n.kind = .bu ∨ n.kind = .bd
      ∨ n.kind = .hu ∨ n.kind = .hd) :
    parseRel prev (n :: ns) = .error .other := by
  unfold parseRel
  rcases hk with h | h | h | h | h | h | h | h | h <;> simp [h]

/-! ## Non-vacuity: concrete instances of the hypotheses -/

example : PlainCand { elem := 4, ext := { fig := .f65 }, ton := ⟨2, .m, 1⟩, oct := -1 } :=
  ⟨⟨rfl, rfl, rfl⟩, by decide, by decide⟩

-- I % I.M → V % I.M : the model returns V['6'].o(-1) (bass 7 → -1), as the library's own test expects
example : Chord.parsimonious { elem := 0, ton := ⟨7, .M, 0⟩ } { elem := 4, ton := ⟨7, .M, 0⟩ } .none
    = .ok { elem := 4, ext := { fig := .f6 }, ton := ⟨7, .M, 0⟩, oct := -1 } := by decide +kernel

example : (Method.voicesAndRules 3 3 (fun _ => ⟨fun _ _ => true, fun _ _ => false⟩) (fun _ => true) 2 3
    (fun _ _ _ => 2) (fun _ => true)).masked := by show (0 : Int) ≤ 3; decide

example : RowZero [[0, 0], [1, 0]] 0 := by
  intro r hr; simp at hr; subst hr; intro x hx; simp at hx; exact hx

example : KeysNodup { elem := 0, parts := [("cello__0", []), ("violin__0", [])] } := by unfold KeysNodup; decide

example : SystemSize { elem := 4, ext := { fig := .f7 }, ton := ⟨0, .M, 0⟩ } .c 4 :=
  ⟨[7, 11, 14, 17], by decide +kernel, rfl⟩

-- s9 in a 7-note system with dvals = -1: s1.o(1)
example : correctedNote { kind := .s, val := 9, oct := 0 } 7 8 = { kind := .s, val := 1, oct := 1 } := by decide

example : createCounterpoint (fun _ _ => 1) [[{ kind := .s, val := 0, oct := 0 }]]
    [[{ kind := .s, val := 6, oct := 0, dur := 2 }, { kind := .l, val := 0, oct := 0 }]]
    = .ok [[{ kind := .s, val := 0, oct := 1, dur := 2 }, { kind := .l, val := 0, oct := 0 }]] := by decide +kernel


end MV.C19
