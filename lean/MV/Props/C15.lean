/-
C15 — roman-numeral annotations parse to the right chords at the right times.

Only property statements and their proofs from `MV.Lemmas.Roman`.  The clock theorems are
about `parseElems` (= `ScoreInterpreter.parse` + the tail of `ScoreFormatter.parse`) on the
element list of an annotation and hold for every element list, of any length, that is
well formed in the sense of `wf` (a condition on the annotation, symbol by symbol), for every
time signature satisfying `SigOK`, every bar numbering and every beat label.  The step from
the text to the element list (`lexText`) is proved for bar lines (`lex_bar_line`, any
indentation, any bar number) and otherwise tied to the code by the `lex` stream.
-/
import MV.Lemmas.Roman

namespace MV.C15
open MV MV.Roman Gen

/-! ### pinned text, supported signatures -/

/-- the hand-written matcher `matchDegree` models exactly this pattern -/
theorem degree_regex_pinned : DEGREE_REGEX_PATTERN = degreePattern ∧ DEGREE_REGEX_FLAGS = 32 := by decide

/-- the ten signatures of the property (`Metric.SIGNATURES` and 5/4) are supported -/
theorem signatures_supported : ∀ ts ∈ SIGNATURES ++ [(5, 4)], SigOK ts := by decide +kernel

/-! ### well-formed annotations -/

/-- An annotation in signature `ts`: `pre` are the elements before the first bar line (time
signature lines, a tonality line), `body` everything from the first bar line on. -/
structure WellFormed (ts : Int × Int) (pre body : List Elem) (st0 : St) : Prop where
  sig : SigOK ts
  hpre : run pre {} = .ok st0
  clean : Clean st0 ts
  hwf : wf ts body none 0 st0.key st0.mode none = true
  hne : places ts body none 0 ≠ []

def isChordElem : Elem → Bool
  | .chord _ => true
  | _ => false

/-- the positions (bar, place in the bar) written before the chord symbols -/
abbrev positions (ts : Int × Int) (body : List Elem) : List (Int × Rat) := places ts body none 0

/-- **one chord per chord symbol**, in order, each the chord its figure denotes in the key in force -/
theorem chords_one_per_symbol (ts : Int × Int) (pre body : List Elem) (st0 : St) (h : WellFormed ts pre body st0) :
    ∃ p, parseElems (pre ++ body) = .ok p ∧ p.ts = ts ∧
      p.chords.length = (body.filter isChordElem).length ∧
      p.chords.map (·.chord) = chordsOf body st0.key st0.mode := by
  obtain ⟨p, hp, hts, hc, hd, _⟩ := parse_wf ts h.sig pre body st0 h.hpre h.clean h.hwf h.hne
  refine ⟨p, hp, hts, ?_, hc⟩
  have := congrArg List.length hd
  rw [List.length_map, gaps_length, places_length] at this
  exact this

/-- **each chord lasts until the next symbol**, the last one until the end of its bar -/
theorem chord_lasts_until_next (ts : Int × Int) (pre body : List Elem) (st0 : St) (h : WellFormed ts pre body st0) :
    ∃ p, parseElems (pre ++ body) = .ok p ∧ p.chords.map (·.dur) = gaps (Lq ts) (positions ts body) := by
  obtain ⟨p, hp, _, _, hd, _⟩ := parse_wf ts h.sig pre body st0 h.hpre h.clean h.hwf h.hne
  exact ⟨p, hp, hd⟩

/-- **each chord starts at its bar and beat position**: the durations before symbol `i` add up to
`(bar_i - first bar) * bar length + position_i - pickup`, the pickup being the position of the
first symbol in its bar -/
theorem chord_start_time (ts : Int × Int) (pre body : List Elem) (st0 : St) (h : WellFormed ts pre body st0) :
    ∃ p first, parseElems (pre ++ body) = .ok p ∧ (positions ts body).head? = some first ∧ p.pickup = first.2 ∧
      ∀ (i : Nat) (hi : i < (positions ts body).length),
        ((p.chords.map (·.dur)).take i).sum
          = Lq ts * ((((positions ts body)[i].1 - first.1 : Int)) : Rat) + (positions ts body)[i].2 - p.pickup := by
  obtain ⟨p, hp, _, _, hd, p0, hp0, hpick⟩ := parse_wf ts h.sig pre body st0 h.hpre h.clean h.hwf h.hne
  refine ⟨p, p0, hp, hp0, hpick, ?_⟩
  intro i hi
  rw [hd, hpick]
  have key : ∀ (P : List (Int × Rat)) (hi : i < P.length), P.head? = some p0 →
      ((gaps (Lq ts) P).take i).sum = Lq ts * (((P[i].1 - p0.1 : Int)) : Rat) + P[i].2 - p0.2 := by
    intro P hi hp0
    cases P with
    | nil => simp at hi
    | cons a qs =>
        simp only [List.head?_cons, Option.some.injEq] at hp0
        subst hp0
        simp only [gaps]
        rw [gapsFrom_take_sum (Lq ts) a qs i (by simpa using Nat.lt_succ_iff.mp hi)]
        unfold gap
        ring
  exact key _ hi hp0

/-- **total duration = number of bars × bar length − pickup**, the number of bars counted from
the bar of the first symbol to the bar of the last one, whatever number the first bar carries -/
theorem total_duration (ts : Int × Int) (pre body : List Elem) (st0 : St) (h : WellFormed ts pre body st0) :
    ∃ p first last, parseElems (pre ++ body) = .ok p ∧
      (positions ts body).head? = some first ∧ (positions ts body).getLast? = some last ∧
      (p.chords.map (·.dur)).sum = Lq ts * (((last.1 - first.1 + 1 : Int)) : Rat) - p.pickup := by
  obtain ⟨p, hp, _, _, hd, p0, hp0, hpick⟩ := parse_wf ts h.sig pre body st0 h.hpre h.clean h.hwf h.hne
  have key : ∀ (P : List (Int × Rat)), P.head? = some p0 →
      ∃ last, P.getLast? = some last ∧ (gaps (Lq ts) P).sum = Lq ts * (((last.1 - p0.1 + 1 : Int)) : Rat) - p0.2 := by
    intro P hp0
    cases P with
    | nil => simp at hp0
    | cons a qs =>
        simp only [List.head?_cons, Option.some.injEq] at hp0
        subst hp0
        exact ⟨(a :: qs).getLast (by simp), List.getLast?_eq_some_getLast (by simp), by simp only [gaps, gapsFrom_sum]⟩
  obtain ⟨last, hl, hsum⟩ := key _ hp0
  exact ⟨p, p0, last, hp, hp0, hl, by rw [hd, hpick, hsum]⟩

/-- **whatever number the first bar carries**: moving every bar number by `k` changes nothing -/
theorem first_bar_number_irrelevant (ts : Int × Int) (pre body : List Elem) (st0 : St)
    (h : WellFormed ts pre body st0) (k : Int) :
    ∃ p p', parseElems (pre ++ body) = .ok p ∧ parseElems (pre ++ shiftBars k body) = .ok p' ∧
      p'.chords.map (·.chord) = p.chords.map (·.chord) ∧ p'.chords.map (·.dur) = p.chords.map (·.dur) ∧
      p'.pickup = p.pickup ∧ p'.ts = p.ts := by
  obtain ⟨p, hp, hts, hc, hd, p0, hp0, hpick⟩ := parse_wf ts h.sig pre body st0 h.hpre h.clean h.hwf h.hne
  have hwf' : wf ts (shiftBars k body) none 0 st0.key st0.mode none = true := by
    have := wf_shift ts k body none 0 st0.key st0.mode none
    simpa [h.hwf] using this
  have hpl : places ts (shiftBars k body) none 0 = (places ts body none 0).map (shiftPos k) := by
    simpa using places_shift ts k body none 0 st0.key st0.mode none h.hwf
  have hne' : places ts (shiftBars k body) none 0 ≠ [] := by
    rw [hpl]; simpa using h.hne
  obtain ⟨p', hp', hts', hc', hd', p0', hp0', hpick'⟩ :=
    parse_wf ts h.sig pre (shiftBars k body) st0 h.hpre h.clean hwf' hne'
  refine ⟨p, p', hp, hp', ?_, ?_, ?_, by rw [hts, hts']⟩
  · rw [hc', hc, chordsOf_shift]
  · rw [hd', hd, hpl, gaps_shift]
  · rw [hpick', hpick]
    rw [hpl, List.head?_map, hp0] at hp0'
    simp only [Option.map_some, Option.some.injEq] at hp0'
    rw [← hp0']
    rfl

/-- **beat labels**: label `x` (a decimal with denominator ≤ 8) is `(x - 1)` beats into the bar;
a beat is a dotted quarter in 6/8, a half note in 2/2 and a quarter note otherwise -/
theorem beat_position (ts : Int × Int) (hs : SigOK ts) (v : Str) (x : Rat)
    (hv : parseDecimal v = .ok x) (hx : x.den ≤ 8) :
    beatPos ts v = .ok ((x - 1) * beatUnit ts) := beatPos_closed ts hs v x hv hx

/-- the written thirds `.33`, `.66`, `.67` are read as thirds (through `limit_denominator(8)`) -/
theorem beat_thirds :
    beatPos (6, 8) "1.66".toList = .ok 1 ∧ beatPos (6, 8) "2.33".toList = .ok 2 ∧
    beatPos (4, 4) "2.67".toList = .ok (5 / 3) ∧ beatPos (9, 8) "1.33".toList = .ok (1 / 3) := by
  decide +kernel

/-! ### the prelude, key tokens -/

/-- a time-signature line (alone, or after the `Time Signature: 4/4` that `init` puts in front of
a text that has none before its first bar) leaves a clean state in that signature -/
theorem prelude_clean (n d : Str) (a b : Int) (hn : parseInt n = .ok a) (hd : parseInt d = .ok b) :
    (∃ st0, run [.ts n d] {} = .ok st0 ∧ Clean st0 (a, b) ∧ st0.key = 0 ∧ st0.mode = .M) ∧
    (∃ st0, run [.ts "4".toList "4".toList, .ts n d] {} = .ok st0 ∧ Clean st0 (a, b) ∧ st0.key = 0 ∧ st0.mode = .M) := by
  have h4 : parseInt "4".toList = .ok 4 := by decide
  constructor
  · refine ⟨({} : St).setTimeSignature (a, b), ?_, ?_⟩
    · simp only [run, St.step, hn, hd, bind, Except.bind, pure, Except.pure]
    · simp [Clean, St.setTimeSignature]
  · refine ⟨(({} : St).setTimeSignature (4, 4)).setTimeSignature (a, b), ?_, ?_⟩
    · simp only [run, St.step, hn, hd, h4, bind, Except.bind, pure, Except.pure]
    · simp [Clean, St.setTimeSignature]

def letterPc : Char → Int
  | 'C' => 0 | 'D' => 2 | 'E' => 4 | 'F' => 5 | 'G' => 7 | 'A' => 9 | 'B' => 11 | _ => 0

/-- **keys in major and minor**: a key token is a note letter (upper case = major, lower case =
minor, the lower-case `b` included) followed by sharps and flats, each worth one semitone -/
theorem key_tokens :
    ∀ l ∈ "CDEFGAB".toList, ∀ acc ∈ ["", "#", "b", "-", "##", "bb", "--", "#b"].map String.toList,
      currentTonality (l :: acc ++ [':'])
        = .ok (letterPc l + count '#' acc - count 'b' acc - count '-' acc, .major) ∧
      currentTonality (lowerChar l :: acc ++ [':'])
        = .ok (letterPc l + count '#' acc - count 'b' acc - count '-' acc, .minor) := by
  decide +kernel

/-! ### non-vacuity and regression instances, evaluated by the kernel -/

def exPre : List Elem := [.ts "6".toList "8".toList]
def exBody : List Elem :=
  [.bar 0, .curTon 9 .minor, .beat "2".toList, .chord "i".toList, .bar 1, .chord "V65".toList,
   .beat "1.66".toList, .chord "iv64".toList, .bar 3, .curTon 0 .major, .chord "V7/V".toList]
def exSt0 : St := { ts := (6, 8), prevTs := (6, 8), firstChange := false }

/-- a 6/8 annotation with a pickup, a skipped bar number, a key change and an applied dominant
meets the hypotheses of the clock theorems -/
example : WellFormed (6, 8) exPre exBody exSt0 :=
  ⟨by decide +kernel, by decide +kernel, by decide +kernel, by decide +kernel, by decide +kernel⟩

example : positions (6, 8) exBody = [(0, 3 / 2), (1, 0), (1, 1), (3, 0)] := by decide +kernel
example : gaps (Lq (6, 8)) (positions (6, 8) exBody) = [3 / 2, 1, 5, 3] := by decide +kernel

def summary (r : Res Parsed) : Res (List (Int × Rat) × Rat × (Int × Int)) :=
  r.map (fun p => (p.chords.map (fun o => (o.chord.elem, o.dur)), p.pickup, p.ts))

/-- the D7 witness (un-indented text whose first bar is `m0`) on the repaired `init`: bar `m1` is
there, 12 quarter notes — and the same with `m5` and with indentation -/
theorem d7_witness_repaired :
    summary (parseText "Time Signature: 4/4\nm0 C: I b3 V\nm1 IV\nm2 V7 b2 I".toList)
      = .ok ([(0, 2), (4, 2), (3, 4), (4, 1), (0, 3)], 0, (4, 4)) ∧
    summary (parseText "Time Signature: 4/4\nm5 C: I b3 V\nm6 IV\nm7 V7 b2 I".toList)
      = .ok ([(0, 2), (4, 2), (3, 4), (4, 1), (0, 3)], 0, (4, 4)) ∧
    summary (parseText "  Time Signature: 4/4\n  m1 C: I b3 V\n  m2 IV\n  m3 V7 b2 I".toList)
      = .ok ([(0, 2), (4, 2), (3, 4), (4, 1), (0, 3)], 0, (4, 4)) := by
  decide +kernel

/-- a text end to end: 6/8, first bar m5, indented, a minor; `b: VI` is G major (pitch classes) -/
example : summary (parseText "  Time Signature: 6/8\n  m5 a: i b2 V6\n  m6 iv64\n  m7 V65 b1.5 i".toList)
    = .ok ([(0, 3 / 2), (4, 3 / 2), (3, 3), (4, 3 / 4), (0, 9 / 4)], 0, (6, 8)) := by decide +kernel

/-! ### from the text to the elements: bar lines keep their numbers -/

/-- **a bar line keeps the number it carries** (the repaired `init`): whatever the indentation
(tabs, then blanks), the number (any digits) and the rest of the line (no `=`), the line is read as
bar `<digits>` followed by the elements of its words; it is dropped only when its number is not
above the last bar read (a variation) -/
theorem lex_bar_line (tabs blanks : Nat) (ds tail : Str) (st : LexState)
    (hne : ds ≠ []) (hdig : ds.all isAsciiDigit = true)
    (htail : tail = [] ∨ ∃ r, tail = ' ' :: r) (heq : tail.contains '=' = false) :
    lexLine (List.replicate tabs '\t' ++ (List.replicate blanks ' ' ++ ('m' :: ds ++ tail))) st
      = (match getElements ((splitOn ' ' tail).drop 1) false with
         | .error e => .error e
         | .ok els =>
            let idx : Int := (digitsToNat ds 0 : Nat)
            if st.initBar > idx then .ok st
            else if st.initBar ≠ idx then
              .ok { elements := st.elements ++ [Elem.bar idx] ++ els,
                    barElements := (idx, els) :: st.barElements, initBar := idx }
            else .ok st) :=
  lexLine_bar tabs blanks ds tail st hne hdig htail heq

/-- **any run of bar lines with increasing numbers**, starting at whatever number, indented or
not, is read as those bars with those numbers, in order, nothing dropped -/
theorem lex_bar_lines (bs : List BarLineSpec) (st : LexState)
    (hgood : ∀ b ∈ bs, b.good) (hinc : incFrom st.initBar bs) :
    ∃ st', lexLines (bs.map BarLineSpec.text) st = .ok st' ∧
      st'.elements = st.elements ++ bs.flatMap (fun b => Elem.bar b.idx :: b.els) :=
  let ⟨st', h1, h2, _⟩ := lexLines_bars bs st hgood hinc
  ⟨st', h1, h2⟩

def exLine0 : BarLineSpec :=
  { tabs := 0, blanks := 0, ds := "0".toList, tail := " C: I b3 V".toList,
    els := [.curTon 0 .major, .chord "I".toList, .beat "3".toList, .chord "V".toList] }
def exLine1 : BarLineSpec :=
  { tabs := 1, blanks := 2, ds := "12".toList, tail := " IV  b2.5 V7/V".toList,
    els := [.chord "IV".toList, .beat "2.5".toList, .chord "V7/V".toList] }

example : exLine0.good ∧ exLine1.good ∧ incFrom (-1) [exLine0, exLine1] :=
  ⟨⟨by decide, by decide, Or.inr ⟨_, rfl⟩, by decide, by decide +kernel⟩,
   ⟨by decide, by decide, Or.inr ⟨_, rfl⟩, by decide, by decide +kernel⟩,
   by decide, by decide, trivial⟩

/-! ### what the parser rejects or silently drops (why `wf` asks what it asks) -/

/-- a bar number that does not increase is an `AssertionError` (except right after bar 0, the
code's own escape) -/
theorem bar_going_back_rejected (st : St) (idx : Int) :
    st.setBarNumber idx = .error .assertion ↔ (idx ≤ st.barNumber ∧ st.barNumber ≠ 0) := by
  unfold St.setBarNumber
  by_cases h : idx > st.barNumber ∨ st.barNumber = 0
  · simp only [h, if_true]
    constructor
    · intro h'; cases h'
    · intro ⟨h1, h2⟩; rcases h with h | h
      · omega
      · exact absurd h h2
  · simp only [h, if_false, true_iff]
    constructor
    · omega
    · intro h'; exact h (Or.inr h')

/-- a figure that cannot be read is printed and skipped: no chord, nothing else changes — the
reason `wf` asks every figure to be readable before claiming one chord per symbol -/
theorem unreadable_figure_skipped (st : St) (t : Str) (e : Err)
    (h : chordOfFigure t st.key st.mode = .error e) : st.barChord t = st := by
  unfold St.barChord; rw [h]

/-- a second symbol at the very position of the previous one replaces it (zero duration) -/
example : summary (parseText "m1 C: b2 I b2 V b3 vi".toList) = .ok ([(4, 1), (5, 2)], 1, (4, 4)) := by
  decide +kernel

/-- without any chord symbol `parse` ends in `None.normalize_instruments()` -/
theorem no_chord_is_error (els : List Elem) (st : St) (h : run els {} = .ok st) (hs : st.score = none) :
    parseElems els = .error .attr := by
  unfold parseElems; simp only [h, bind, Except.bind, finish, hs]

/-! ### end to end: from the text to the durations -/

/-- **The property on a whole text.**  Take any text made of the line `Time Signature: n/d`
(`n`, `d` digits, a supported signature) followed by bar lines `m<digits> …`, each indented by
any tabs and blanks, with increasing numbers starting at whatever number; let `body` be the
elements of those lines and assume it is well formed (`wf`: beat labels readable and increasing
inside a bar, figures readable, each symbol inside its bar and later than the previous one).
Then `ScoreFormatter(text).parse()` succeeds, in that signature, with one chord per chord symbol,
each lasting until the next symbol (the last one to the end of its bar), the pickup being the
position of the first symbol, and the total duration is
`(last bar − first bar + 1) × bar length − pickup`. -/
theorem annotation_text (n d : Str) (bs : List BarLineSpec)
    (hn0 : n ≠ []) (hd0 : d ≠ []) (hn : n.all isAsciiDigit = true) (hd : d.all isAsciiDigit = true)
    (hs : SigOK (((digitsToNat n 0 : Nat) : Int), ((digitsToNat d 0 : Nat) : Int)))
    (hgood : ∀ b ∈ bs, b.good) (hnl : ∀ b ∈ bs, b.tail.contains '\n' = false) (hinc : incFrom (-1) bs)
    (hwf : wf (((digitsToNat n 0 : Nat) : Int), ((digitsToNat d 0 : Nat) : Int))
              (bs.flatMap (fun b => Elem.bar b.idx :: b.els)) none 0 0 .M none = true)
    (hne : places (((digitsToNat n 0 : Nat) : Int), ((digitsToNat d 0 : Nat) : Int))
              (bs.flatMap (fun b => Elem.bar b.idx :: b.els)) none 0 ≠ []) :
    let ts : Int × Int := (((digitsToNat n 0 : Nat) : Int), ((digitsToNat d 0 : Nat) : Int))
    let body := bs.flatMap (fun b => Elem.bar b.idx :: b.els)
    ∃ p first last, parseText (renderText n d bs) = .ok p ∧ p.ts = ts ∧
      p.chords.length = (body.filter isChordElem).length ∧
      p.chords.map (·.chord) = chordsOf body 0 .M ∧
      p.chords.map (·.dur) = gaps (Lq ts) (positions ts body) ∧
      (positions ts body).head? = some first ∧ (positions ts body).getLast? = some last ∧
      p.pickup = first.2 ∧
      (p.chords.map (·.dur)).sum = Lq ts * (((last.1 - first.1 + 1 : Int)) : Rat) - p.pickup := by
  intro ts body
  obtain ⟨⟨st0, hrun, hclean, hk, hm⟩, _⟩ :=
    prelude_clean n d _ _ (parseInt_digits n hn0 hn) (parseInt_digits d hd0 hd)
  have hW : WellFormed ts [Elem.ts n d] body st0 :=
    ⟨hs, hrun, hclean, by rw [hk, hm]; exact hwf, hne⟩
  obtain ⟨p, hp, hts, hlen, hch⟩ := chords_one_per_symbol ts _ _ st0 hW
  obtain ⟨p1, hp1, hd1⟩ := chord_lasts_until_next ts _ _ st0 hW
  obtain ⟨p2, first, last, hp2, hf, hl, hsum⟩ := total_duration ts _ _ st0 hW
  obtain ⟨p3, first', hp3, hf', hpick, _⟩ := chord_start_time ts _ _ st0 hW
  have e1 : p1 = p := by rw [hp] at hp1; exact (Except.ok.inj hp1).symm
  have e2 : p2 = p := by rw [hp] at hp2; exact (Except.ok.inj hp2).symm
  have e3 : p3 = p := by rw [hp] at hp3; exact (Except.ok.inj hp3).symm
  rw [e1] at hd1
  rw [e2] at hsum
  rw [e3] at hpick
  have ef : first' = first := by rw [hf] at hf'; exact (Option.some.inj hf').symm
  rw [ef] at hpick
  refine ⟨p, first, last, ?_, hts, hlen, ?_, hd1, hf, hl, hpick, hsum⟩
  · unfold parseText
    rw [lexText_render n d bs hn hd hgood hnl hinc]
    exact hp
  · rw [hch, hk, hm]

/-- the hypotheses of `annotation_text` are met by a concrete text (first bar `m0`, a skip to an
indented `m12`, a doubled blank, an applied dominant) -/
example :
    renderText "4".toList "4".toList [exLine0, exLine1]
      = "Time Signature: 4/4\nm0 C: I b3 V\n\t  m12 IV  b2.5 V7/V".toList ∧
    SigOK (((digitsToNat "4".toList 0 : Nat) : Int), ((digitsToNat "4".toList 0 : Nat) : Int)) ∧
    wf (4, 4) ([exLine0, exLine1].flatMap (fun b => Elem.bar b.idx :: b.els)) none 0 0 .M none = true ∧
    positions (4, 4) ([exLine0, exLine1].flatMap (fun b => Elem.bar b.idx :: b.els))
      = [(0, 0), (0, 2), (12, 0), (12, 3 / 2)] := by
  decide +kernel

end MV.C15
