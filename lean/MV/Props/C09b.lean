/-
C09 (continued) — the octave field of a relative note: `|pcs|` more steps is exactly one octave,
so `note.o(+1)` on an upward relative note sounds exactly 12 semitones higher (inside the window).
-/
import MV.Lemmas.RelShift
import MV.Props.C09
namespace MV.C09
open MV Rel

/-- any half-open interval of length 12 inside the window holds exactly one pitch per pitch class -/
theorem count_octave (pcs : List Int) (hp : PcsOK pcs) (x : Int) (hlo : -120 ≤ x + 1) (hhi : x + 12 < 120) :
    ((wholeScale pcs).filter (fun y => decide (x < y) && decide (y ≤ x + 12))).length = pcs.length := by
  have hasc := wholeScale_asc pcs hp
  have hf : Asc ((wholeScale pcs).filter (fun y => decide (x < y) && decide (y ≤ x + 12))) := hasc.filter _
  have hnd : (((wholeScale pcs).filter (fun y => decide (x < y) && decide (y ≤ x + 12))).map (· % 12)).Nodup := by
    unfold List.Nodup
    rw [List.pairwise_map]
    have := List.Pairwise.and_mem.mp hf
    refine this.imp ?_
    intro a b ⟨ha, hb, hab⟩
    simp only [List.mem_filter, Bool.and_eq_true, decide_eq_true_eq] at ha hb
    omega
  have hperm : (((wholeScale pcs).filter (fun y => decide (x < y) && decide (y ≤ x + 12))).map (· % 12)).Perm pcs := by
    rw [List.perm_ext_iff_of_nodup hnd (asc_nodup pcs hp.2.1)]
    intro z
    simp only [List.mem_map, List.mem_filter, Bool.and_eq_true, decide_eq_true_eq]
    constructor
    · rintro ⟨y, ⟨hy, _⟩, rfl⟩
      exact ((mem_wholeScale pcs hp y).mp hy).1
    · intro hz
      have hz12 := hp.2.2 z hz
      refine ⟨x + 1 + (z - (x + 1)) % 12, ⟨?_, ?_, ?_⟩, ?_⟩
      · rw [mem_wholeScale pcs hp]
        have : (x + 1 + (z - (x + 1)) % 12) % 12 = z := by omega
        rw [this]
        exact ⟨hz, by omega, by omega⟩
      · omega
      · omega
      · omega
  have := hperm.length_eq
  simpa using this

/-- **`|pcs|` more steps up is exactly one octave up** (inside the window) -/
theorem rel_octave_up (pcs : List Int) (hp : PcsOK pcs) (k last r : Int) (hk : 0 < k)
    (h : relUp k last pcs = .ok r) (hwin : r + 12 < 120) :
    relUp (k + pcs.length) last pcs = .ok (r + 12) := by
  obtain ⟨hr, hlt, hc⟩ := rel_up_counts pcs hp k last r hk h
  have hrw := (mem_wholeScale pcs hp r).mp hr
  apply relUp_of_counts pcs hp _ last (r + 12) (by omega)
  · rw [mem_wholeScale pcs hp]
    have : (r + 12) % 12 = r % 12 := by omega
    rw [this]; exact ⟨hrw.1, by omega, hwin⟩
  · omega
  · have hs := count_split (wholeScale pcs) (fun y => decide (last < y) && decide (y ≤ r))
      (fun y => decide (last < y) && decide (y ≤ r + 12)) (by intro y; simp; omega)
    have hfe : (wholeScale pcs).filter (fun y => (decide (last < y) && decide (y ≤ r + 12)) && !(decide (last < y) && decide (y ≤ r)))
        = (wholeScale pcs).filter (fun y => decide (r < y) && decide (y ≤ r + 12)) := by
      apply List.filter_congr; intro y _
      by_cases h1 : last < y <;> by_cases h2 : y ≤ r <;> by_cases h3 : y ≤ r + 12 <;> by_cases h4 : r < y <;>
        simp [h1, h2, h3, h4] <;> omega
    rw [hfe, count_octave pcs hp r (by omega) hwin] at hs
    omega

/-- **`|pcs|` more steps down is exactly one octave down** (inside the window) -/
theorem rel_octave_down (pcs : List Int) (hp : PcsOK pcs) (k last r : Int) (hk : 0 < k)
    (h : relDown k last pcs = .ok r) (hwin : -120 ≤ r - 12) :
    relDown (k + pcs.length) last pcs = .ok (r - 12) := by
  obtain ⟨hr, hlt, hc⟩ := rel_down_counts pcs hp k last r hk h
  have hrw := (mem_wholeScale pcs hp r).mp hr
  apply relDown_of_counts pcs hp _ last (r - 12) (by omega)
  · rw [mem_wholeScale pcs hp]
    have : (r - 12) % 12 = r % 12 := by omega
    rw [this]; exact ⟨hrw.1, hwin, by omega⟩
  · omega
  · have hs := count_split (wholeScale pcs) (fun y => decide (r ≤ y) && decide (y < last))
      (fun y => decide (r - 12 ≤ y) && decide (y < last)) (by intro y; simp; omega)
    have hfe : (wholeScale pcs).filter (fun y => (decide (r - 12 ≤ y) && decide (y < last)) && !(decide (r ≤ y) && decide (y < last)))
        = (wholeScale pcs).filter (fun y => decide (r - 13 < y) && decide (y ≤ r - 13 + 12)) := by
      apply List.filter_congr; intro y _
      by_cases h1 : r - 12 ≤ y <;> by_cases h2 : y < last <;> by_cases h3 : r ≤ y <;> by_cases h4 : r - 13 < y <;>
        by_cases h5 : y ≤ r - 13 + 12 <;> simp [h1, h2, h3, h4, h5] <;> omega
    rw [hfe, count_octave pcs hp (r - 13) (by omega) (by omega)] at hs
    omega
/-- **one more octave on an upward relative note is +12 semitones**, one more on a downward note −12
(`get_relative_scale_value` level, any scale, any reference pitch on or off the system) -/
theorem rel_value_octave (val oct last r : Int) (scale : List Int) (hne : scale ≠ [])
    (hpos : 0 < val + ((sortedDedup (scale.map (· % 12))).length : Int) * oct) :
    (relValue false val oct last scale = .ok r → r + 12 < 120 →
       relValue false val (oct + 1) last scale = .ok (r + 12)) ∧
    (relValue true val oct last scale = .ok r → -120 ≤ r - 12 →
       relValue true val (oct + 1) last scale = .ok (r - 12)) := by
  have hp := pcs_ok scale hne
  generalize hn : (sortedDedup (scale.map (· % 12))) = pcs at hp hpos
  have hlen : (0 : Int) ≤ pcs.length := by omega
  constructor
  · intro h hw
    rw [rel_value_unfold] at h ⊢
    simp only [hn, Bool.false_eq_true, if_false] at h ⊢
    unfold relTotal at h ⊢
    have h1 : val + (pcs.length : Int) * oct > 0 := hpos
    have h2 : val + (pcs.length : Int) * (oct + 1) > 0 := by
      have : (pcs.length : Int) * (oct + 1) = (pcs.length : Int) * oct + pcs.length := by
        rw [Int.mul_add, Int.mul_one]
      omega
    simp only [h1, h2, if_true] at h ⊢
    have := rel_octave_up pcs hp _ last r hpos h hw
    have e : val + (pcs.length : Int) * (oct + 1) = val + (pcs.length : Int) * oct + pcs.length := by
      rw [Int.mul_add, Int.mul_one]; omega
    rw [e]; exact this
  · intro h hw
    rw [rel_value_unfold] at h ⊢
    simp only [hn, if_true] at h ⊢
    unfold relTotal at h ⊢
    have e : val + (pcs.length : Int) * (oct + 1) = val + (pcs.length : Int) * oct + pcs.length := by
      rw [Int.mul_add, Int.mul_one]; omega
    have h1 : ¬ (-(val + (pcs.length : Int) * oct) > 0) := by omega
    have h1' : -(val + (pcs.length : Int) * oct) < 0 := by omega
    have h2 : ¬ (-(val + (pcs.length : Int) * (oct + 1)) > 0) := by omega
    have h2' : -(val + (pcs.length : Int) * (oct + 1)) < 0 := by omega
    simp only [h1, h1', h2, h2', if_false, if_true, Int.neg_neg] at h ⊢
    have := rel_octave_down pcs hp _ last r hpos h hw
    rw [e]; exact this

example : relValue false 1 0 0 [0, 4, 7] = .ok 4 ∧ relValue false 1 1 0 [0, 4, 7] = .ok 16 := by decide +kernel

end MV.C09
