/-
C11 — re-notating a score never changes what is played.

Only property statements; proofs are one-liners from `MV.Lemmas.Renotate` (note level),
`MV.Lemmas.RenotateScore` (rows, melodies, chords, scores: same note matrix),
`MV.Lemmas.RenotateEvents` (what is played, track by track: decompose_duration,
normalize_instruments), `MV.Lemmas.RenotateSplit` (`& 0`, get_melody_between, Chord.split) and
`MV.Lemmas.RenotateNames` (replace_instruments, the full normalisation).  The model follows the
repaired tree (three `fix:` commits, see `MV/Model/Renotate.lean`).

"What is played" is `plays s`: per track (in order of first appearance) the (pitch, onset,
duration) of every sounding row of the note matrix, continuations merged into the note they
extend.  `SamePlayed s s'`: whenever `s` renders, `s'` renders and plays the same.
`SameRendering s s'` is stronger: same tracks and the same matrix in the pitch, onset, duration,
track, silence and continuation columns, row by row.

Every theorem quantifies over all chords with a degree in 0..6 (`ElemOK`, the seven library
`Element`s), every figure / tonality / octave, every note value and octave in ℤ, every duration
in ℚ, melodies, chords and scores of any length.

Hypotheses (explicit, decidable except `RenamingInjective`, which needs string functions):
* `WellReferenced` (to_absolute_note, to_scale_note, normalize_instruments): every relative
  note has a reference on which the renderer and the re-notation agree.  Forced by the proofs;
  without it the full statements are false on the real code (`to_absolute_note_rejects`,
  `to_absolute_note_fails`, `to_scale_note_fails`, `normalize_instruments_fails`; known findings).
* `DistinctParts`: part names of a chord are distinct (dictionary keys in Python).
* `Splittable` (split, normalize): every part lasts as long as its chord (as the property
  says) and note durations are positive.
* `RenamingInjective` (normalize_instrument_names, normalize): no two parts get the same new
  name (true for part names `name__idx`; the Python dictionary silently needs it).
-/
import MV.Lemmas.RenotateNames

namespace MV.C11
open MV Gen C02

instance (c : Chord) : Decidable (ElemOK c) := by unfold ElemOK; exact inferInstance
instance (s : Score) : Decidable (ScoreElemOK s) := by unfold ScoreElemOK; exact inferInstance
instance (s : Score) : Decidable (DistinctParts s) := by unfold DistinctParts; exact inferInstance

/-- the re-notated score plays what the source plays (whenever the source renders) -/
def SamePlayed (s s' : Score) : Prop := ∀ snd, plays s = .ok snd → plays s' = .ok snd

theorem same_rendering_same_played (s s' : Score) (h : SameRendering s s') : SamePlayed s s' :=
  fun snd hp => plays_of_sameRendering s s' h snd hp

/-! ## note level -/

/-- **`Chord.parse` round trip**: every pitch is written as a plain `s` / `h` note of the chord
(no mode, no accidental) that sounds exactly that pitch -/
theorem parse_roundtrip (c : Chord) (p last : Int) (he : ElemOK c) :
    ∃ b, c.parse p = .ok b ∧ (b.kind = .s ∨ b.kind = .h) ∧ b.mode = none ∧ b.acc = none ∧
      noteToPitch c b last = .ok (some p) :=
  MV.parse_roundtrip c p last he

/-- **to_absolute_note**: a sounding note becomes the absolute note `p mod 12`, octave
`p div 12` of its pitch `p`, which sounds `p` on every chord and for every last pitch; rests,
continuations, drum and pattern notes are returned as they are -/
theorem absolute_note_keeps_pitch (c : Chord) (n n' : Note) (last : Option Int)
    (h : n.toAbsoluteNote c last = .ok n') :
    (n.kind.isNote = false → n' = n) ∧
    (n.kind.isNote = true → ∃ p, c.toPitch n last = .ok (some p) ∧ n'.kind = .a ∧ n'.dur = n.dur ∧
      ∀ c' last', noteToPitch c' n' last' = .ok (some p)) := by
  refine ⟨fun hk => ?_, fun hk => ?_⟩
  · rw [toAbsoluteNote_rest c n last hk] at h; injection h with h; exact h.symm
  · obtain ⟨p, hp, e⟩ := toAbsoluteNote_spec c n n' last hk h
    refine ⟨p, hp, by rw [e], by rw [e], fun c' last' => ?_⟩
    rw [e]; exact absolute_of_pitch c' n p last'

/-- **to_scale_note**: the re-notated note has the pitch, the duration and the sounding
status of the source (the conversion only accepts non-relative notes at this level) -/
theorem scale_note_keeps_pitch (c : Chord) (n n' : Note) (last : Int) (he : ElemOK c)
    (hn : n.kind.isNote = true) (h : n.toScaleNote c = .ok n') :
    n.kind.isRelative = false ∧ noteToPitch c n' last = noteToPitch c n last ∧ n'.dur = n.dur ∧
      (n'.kind = .s ∨ n'.kind = .h) :=
  toScaleNote_pitch c n n' last he hn h

/-- **to_standard_note** (chord-tone, bass-tone and absolute notes become `s` / `h` notes;
everything else is untouched): same pitch whenever the source has one, same duration, same
rest / continuation / sounding status -/
theorem standard_note_keeps_pitch (c : Chord) (n n' : Note) (last : Int) (he : ElemOK c)
    (h : n.toStandardNote c = .ok n') (p : Option Int) (hp : noteToPitch c n last = .ok p) :
    noteToPitch c n' last = .ok p ∧ n'.dur = n.dur ∧ n'.kind.isNote = n.kind.isNote
      ∧ (n'.kind == .r) = (n.kind == .r) ∧ (n'.kind == .l) = (n.kind == .l) :=
  toStandardNote_pitch c n n' last he h p hp

/-- **to_chord_note**: a note written on a chord tone becomes that chord tone's index and
keeps its pitch (accidentals, per-note modes, inverted or extended chords included) -/
theorem chord_note_keeps_pitch (c : Chord) (n n' : Note) (last : Int) (he : ElemOK c)
    (h : n.toChordNote c = .ok n') :
    noteToPitch c n' last = noteToPitch c n last ∧ n'.dur = n.dur ∧
      (n'.kind == .r) = (n.kind == .r) ∧ (n'.kind == .l) = (n.kind == .l) ∧ n'.kind.isNote = n.kind.isNote :=
  toChordNote_pitch c n n' last he h

/-- **to_extension_note**: the same with the inverted arpeggio -/
theorem extension_note_keeps_pitch (c : Chord) (n n' : Note) (last : Int) (he : ElemOK c)
    (h : n.toExtensionNote c = .ok n') :
    noteToPitch c n' last = noteToPitch c n last ∧ n'.dur = n.dur ∧
      (n'.kind == .r) = (n.kind == .r) ∧ (n'.kind == .l) = (n.kind == .l) ∧ n'.kind.isNote = n.kind.isNote :=
  toExtensionNote_pitch c n n' last he h

/-- **octave correction, note level**: chord `k` octaves down, every note written relatively to
the chord `k` octaves up, absolute notes untouched: every pitch stays (all seventeen kinds,
relative ones for every last pitch) -/
theorem octave_shift_keeps_pitch (c : Chord) (n : Note) (k last : Int) (he : ElemOK c) :
    noteToPitch (c.o (-k)) (if n.kind == .a then n else n.o k) last = noteToPitch c n last :=
  noteToPitch_octaveShift c n k last he

/-- **decompose_duration, note level**: the note with a shorter duration, then continuations
only; the durations add up to the note's duration -/
theorem decompose_note_total (n : Note) (m : Melody) (h : n.decomposeDuration = .ok m) :
    ∃ d0 rest, m = { n with dur := d0 } :: rest.map continuation ∧ d0 + sumRat rest = n.dur :=
  decomposeDuration_spec n m h

/-! ## score level: one theorem per re-notation (same note matrix) -/

theorem to_standard_note_same_rendering (s s' : Score) (he : ScoreElemOK s)
    (h : Score.toStandardNote s = .ok s') : SameRendering s s' :=
  toStandardNote_sameRendering s s' he h

theorem to_chord_note_same_rendering (s s' : Score) (he : ScoreElemOK s)
    (h : Score.toChordNote s = .ok s') : SameRendering s s' :=
  toChordNote_sameRendering s s' he h

theorem to_extension_note_same_rendering (s s' : Score) (he : ScoreElemOK s)
    (h : Score.toExtensionNote s = .ok s') : SameRendering s s' :=
  toExtensionNote_sameRendering s s' he h

theorem correct_chord_octave_same_rendering (s s' : Score) (he : ScoreElemOK s)
    (h : Score.correctChordOctave s = .ok s') : SameRendering s s' :=
  correctChordOctave_sameRendering s s' he h

/-- octave correction brings every chord bass within half an octave of middle C: (−6, 6] -/
theorem octave_correction_range (s s' : Score) (he : ScoreElemOK s) (h : Score.correctChordOctave s = .ok s') :
    ∀ c' ∈ s', ∃ b, c'.bassPitch = .ok b ∧ -6 < b ∧ b ≤ 6 :=
  correctChordOctave_range s s' he h

/-- the recursion of `inverse_recursive_correct_octave` terminates for every starting bass
(the model's fuel is never exhausted) -/
theorem octave_correction_terminates (c : Chord) (b : Int) (he : ElemOK c) (hb : c.bassPitch = .ok b) :
    ∃ c', c.correctOctave = .ok c' :=
  correctOctave_terminates c b he hb

/-- **decompose_duration**: every note becomes itself (shorter) followed by continuations; the
note matrix gets more rows but plays the same, for every score (rests, continuations, relative
notes, unequal parts, absent parts) -/
theorem decompose_duration_same_played (s s' : Score) (h : Score.decomposeDuration s = .ok s') :
    SamePlayed s s' :=
  fun snd hp => decomposeDuration_samePlayed s s' h snd hp

/-- full statement for `to_absolute_note`: every score -/
def ToAbsoluteNoteFull : Prop :=
  ∀ s s', DistinctParts s → Score.toAbsoluteNote s = .ok s' → SamePlayed s s'

/-- … proved for well-referenced scores (stronger conclusion: same note matrix) -/
theorem to_absolute_note_partial (s s' : Score) (hw : WellReferenced s) (hd : DistinctParts s)
    (h : Score.toAbsoluteNote s = .ok s') : SameRendering s s' :=
  toAbsoluteNote_sameRendering s s' hw hd h

/-- full statement for `to_scale_note` -/
def ToScaleNoteFull : Prop :=
  ∀ s s', ScoreElemOK s → DistinctParts s → Score.toScaleNote s = .ok s' → SamePlayed s s'

theorem to_scale_note_partial (s s' : Score) (he : ScoreElemOK s) (hw : WellReferenced s) (hd : DistinctParts s)
    (h : Score.toScaleNote s = .ok s') : SameRendering s s' :=
  toScaleNote_sameRendering s s' he hw hd h

/-- compositions of re-notations: `SameRendering` is reflexive and transitive -/
theorem renotations_compose (s s' s'' : Score) (h1 : SameRendering s s') (h2 : SameRendering s' s'') :
    SameRendering s s'' :=
  sameRendering_trans s s' s'' h1 h2

/-- the first two steps of `Score.normalize` (standard notes, then octave correction) -/
theorem normalize_head_same_rendering (s s1 s2 : Score) (he : ScoreElemOK s)
    (h1 : Score.toStandardNote s = .ok s1) (h2 : Score.correctChordOctave s1 = .ok s2) :
    SameRendering s s2 ∧ ∀ c' ∈ s2, ∃ b, c'.bassPitch = .ok b ∧ -6 < b ∧ b ≤ 6 := by
  have he1 : ScoreElemOK s1 := by
    intro c1 hc1
    unfold Score.toStandardNote scoreMapM at h1
    obtain ⟨c, hc, hcc⟩ := mapM_mem _ s s1 h1 c1 hc1
    unfold Chord.toStandardNote Chord.mapNotesM at hcc
    simp only [bind, Except.bind, pure, Except.pure] at hcc
    split at hcc
    · cases hcc
    · injection hcc with hcc; rw [← hcc]; exact he c hc
  exact ⟨sameRendering_trans s s1 s2 (toStandardNote_sameRendering s s1 he h1)
    (correctChordOctave_sameRendering s1 s2 he1 h2), correctChordOctave_range s1 s2 he1 h2⟩

/-! ## re-notations that change the layout of the note matrix -/

/-- normalize_instruments: false as stated for all scores (`normalize_instruments_fails`) -/
def NormalizeInstrumentsFull : Prop :=
  ∀ s, DistinctParts s → SamePlayed s (Score.normalizeInstruments s)

/-- … proved for well-referenced scores: same tracks in the same order, and every part
(filled with rests where it was absent) plays the same -/
theorem normalize_instruments_partial (s : Score) (hw : WellReferenced s) :
    trackList (Score.normalizeInstruments s) = trackList s ∧ SamePlayed s (Score.normalizeInstruments s) :=
  ⟨normalize_trackList s, fun snd hp => normalizeInstruments_samePlayed s hw snd hp⟩

/-- **split_too_long_chords** (claimed for scores in which every part lasts as long as its
chord; note durations positive): the result plays the same, has the same tracks, and
**respects the maximum chord length**.  A note that crosses a cut becomes its head plus
continuations; relative notes keep their reference because every part is present in every
piece. -/
theorem split_same_played_and_respects_max (s s' : Score) (mx : Rat) (hmx : 0 < mx) (hs : Splittable s)
    (h : Score.splitTooLongChords s mx = .ok s') :
    SamePlayed s s' ∧ trackList s' = trackList s ∧ ∀ c' ∈ s', c'.dur ≤ mx :=
  splitTooLongChords_spec s s' mx hmx hs h

/-- the chords `Chord.split` asks for are positive, at most `max_length` long, and add up to
the chord's duration -/
theorem split_template (dur mx : Rat) (hmx : 0 < mx) (hlong : mx < dur) :
    (∀ d ∈ splitTemplate dur mx, 0 < d ∧ d ≤ mx) ∧ sumRat (splitTemplate dur mx) = dur ∧
      splitTemplate dur mx ≠ [] :=
  splitTemplate_spec dur mx hmx hlong

/-- **replace_instruments / normalize_instrument_names**: when no two parts get the same new
name (`ρ` is the renaming the dictionary induces), every chord lists its parts in the order
of the score's instruments under their new names, the tracks keep their order, and exactly
the same is played (equality, error cases included) -/
theorem rename_instruments_same_played (s : Score) (dict : List (String × String))
    (hinj : ((trackList s).map (renameOf dict)).Nodup) (hd : DistinctParts s) :
    trackList (Score.replaceInstruments s dict) = (trackList s).map (renameOf dict) ∧
    plays (Score.replaceInstruments s dict) = plays s := by
  rw [replaceInstruments_renamed s dict hinj]
  exact ⟨renamed_trackList _ s hinj, renamedScore_plays _ s hinj hd⟩

theorem normalize_instrument_names_same_played (s : Score) (hinj : RenamingInjective s) (hd : DistinctParts s) :
    plays (Score.normalizeInstrumentNames s) = plays s :=
  (rename_instruments_same_played s (renameDict (trackList s)) hinj hd).2

/-- remove_empty_chords does nothing to a score without empty chords -/
theorem remove_empty_chords_id (s : Score) (h : ∀ c ∈ s, 0 < c.dur) : Score.removeEmptyChords s = s := by
  unfold Score.removeEmptyChords
  exact filter_all s _ (fun c hc => by simpa using h c hc)

/-- **the full normalisation used after import** = standard notes, octave correction, part
names, chords of at most 8 quarters, no empty chord (claimed for scores in which every part
lasts as long as its chord; note and chord durations positive; the renaming injective, which
holds for part names `name__idx` and is what the Python dictionary needs): what is played is
unchanged, every chord lasts at most 8 quarters, every chord bass is within half an octave of
middle C.  No hypothesis on references: relative notes stay relative in all five steps. -/
theorem normalize_same_played_and_bounds (s s' : Score) (he : ScoreElemOK s) (hd : DistinctParts s)
    (hsp : Splittable s) (hpos : ∀ c ∈ s, 0 < c.dur) (hinj : RenamingInjective s) (h : Score.normalize s = .ok s') :
    SamePlayed s s' ∧ (∀ c' ∈ s', c'.dur ≤ 8) ∧ (∀ c' ∈ s', ∃ b, c'.bassPitch = .ok b ∧ -6 < b ∧ b ≤ 6) :=
  normalize_spec s s' he hd hsp hpos hinj h

/-! ## counter-examples (replayed on the real code by the oracle's witnesses) -/

def IM : Chord := { elem := 0, ton := ⟨0, .M, 0⟩ }
def su1 : Note := { kind := .su, val := 1, oct := 0 }
def s0 : Note := { kind := .s, val := 0, oct := 0 }
def s4o1 : Note := { kind := .s, val := 4, oct := 1 }

/-- D5c: `Score([(I % I.M)(piano__0=su1)])` -/
def leadingRelative : Score := [{ IM with parts := [("piano__0", [su1])] }]

/-- D5d: a relative note right after a chord from which its part is absent -/
def relativeAfterGap : Score :=
  [{ IM with parts := [("piano__0", [s0]), ("violin__0", [s4o1])] },
   { IM with parts := [("piano__0", [s0])] },
   { IM with parts := [("piano__0", [s0]), ("violin__0", [su1])] }]

/-- the renderer plays a leading relative note from pitch 0; `to_absolute_note` rejects it
(`TypeError`): the error branch of the conversion is reached by a score that renders -/
theorem to_absolute_note_rejects :
    plays leadingRelative = .ok [[(2, 0, 1)]] ∧ Score.toAbsoluteNote leadingRelative = .error .type ∧
    Score.toScaleNote leadingRelative = .error .type := by
  decide +kernel

theorem to_absolute_note_fails : ¬ ToAbsoluteNoteFull := by
  intro h
  have hs : ∃ s', Score.toAbsoluteNote relativeAfterGap = .ok s' ∧
      plays s' = .ok [[(0, 0, 1), (0, 1, 1), (0, 2, 1)], [(19, 0, 1), (21, 2, 1)]] := by
    have hb : (Score.toAbsoluteNote relativeAfterGap).bind plays
        = .ok [[(0, 0, 1), (0, 1, 1), (0, 2, 1)], [(19, 0, 1), (21, 2, 1)]] := by decide +kernel
    cases hh : Score.toAbsoluteNote relativeAfterGap with
    | error e => rw [hh] at hb; cases hb
    | ok s' => rw [hh] at hb; exact ⟨s', rfl, hb⟩
  obtain ⟨s', h1, h2⟩ := hs
  have := h relativeAfterGap s' (by decide) h1 [[(0, 0, 1), (0, 1, 1), (0, 2, 1)], [(19, 0, 1), (2, 2, 1)]]
    (by decide +kernel)
  rw [h2] at this
  exact absurd this (by decide)

theorem to_scale_note_fails : ¬ ToScaleNoteFull := by
  intro h
  have hs : ∃ s', Score.toScaleNote relativeAfterGap = .ok s' ∧
      plays s' = .ok [[(0, 0, 1), (0, 1, 1), (0, 2, 1)], [(19, 0, 1), (21, 2, 1)]] := by
    have hb : (Score.toScaleNote relativeAfterGap).bind plays
        = .ok [[(0, 0, 1), (0, 1, 1), (0, 2, 1)], [(19, 0, 1), (21, 2, 1)]] := by decide +kernel
    cases hh : Score.toScaleNote relativeAfterGap with
    | error e => rw [hh] at hb; cases hb
    | ok s' => rw [hh] at hb; exact ⟨s', rfl, hb⟩
  obtain ⟨s', h1, h2⟩ := hs
  have := h relativeAfterGap s' (by decide) (by decide) h1 [[(0, 0, 1), (0, 1, 1), (0, 2, 1)], [(19, 0, 1), (2, 2, 1)]]
    (by decide +kernel)
  rw [h2] at this
  exact absurd this (by decide)

theorem normalize_instruments_fails : ¬ NormalizeInstrumentsFull := by
  intro h
  have := h relativeAfterGap (by decide) [[(0, 0, 1), (0, 1, 1), (0, 2, 1)], [(19, 0, 1), (2, 2, 1)]]
    (by decide +kernel)
  exact absurd this (by decide +kernel)

/-! ## non-vacuity: a score meeting every hypothesis, evaluated by the kernel -/

/-- `(V['65'] % II.m).o(1)(piano__0 = a2.o(-1) + c1.e + su2.e + l + b5.o(-1), violin__1 = s2.dim.h + r + hd3)
    + (III % I.M)(violin__1 = s0.dorian + cu1)` (unequal parts, a part absent from a chord) -/
def demo : Score :=
  [{ elem := 4, ext := { fig := .f65 }, ton := ⟨2, .m, 0⟩, oct := 1,
     parts := [("piano__0", [{ kind := .a, val := 2, oct := -1 }, { kind := .c, val := 1, oct := 0, dur := 1/2 },
                             { kind := .su, val := 2, oct := 0, dur := 1/2 }, { kind := .l, val := 0, oct := 0 },
                             { kind := .b, val := 5, oct := -1 }]),
               ("violin__1", [{ kind := .s, val := 2, oct := 0, dur := 2, acc := some .dim }, { kind := .r, val := 0, oct := 0 },
                              { kind := .hd, val := 3, oct := 0 }])] },
   { elem := 2, ton := ⟨0, .M, 0⟩,
     parts := [("violin__1", [{ kind := .s, val := 0, oct := 0, mode := some .dorian }, { kind := .cu, val := 1, oct := 0 }])] }]

example : ScoreElemOK demo := by decide
example : DistinctParts demo := by decide
example : WellReferenced demo := wellReferenced_of_B demo (by decide +kernel)
example : (plays demo).toOption.isSome = true := by decide +kernel
example : ((Score.toAbsoluteNote demo).bind plays) = plays demo := by decide +kernel
example : ((Score.toScaleNote demo).bind plays) = plays demo := by decide +kernel
example : ((Score.toStandardNote demo).bind plays) = plays demo := by decide +kernel
example : ((Score.decomposeDuration demo).bind plays) = plays demo := by decide +kernel
example : plays (Score.normalizeInstruments demo) = plays demo := by decide +kernel
example : (({ kind := .s, val := 1, oct := 0, dur := 11/8 } : Note).decomposeDuration).map (·.map (fun n => (n.kind, n.dur)))
    = .ok [(.s, 1), (.l, 1/4), (.l, 1/8)] := by decide +kernel
example : ((Score.toChordNote demo).bind plays) = plays demo := by decide +kernel
example : ((Score.correctChordOctave demo).bind plays) = plays demo := by decide +kernel
example : demo.mapM Chord.bassPitch = .ok [25, 4] ∧
    (Score.correctChordOctave demo).bind (fun s => s.mapM Chord.bassPitch) = .ok [1, 4] := by decide +kernel
example : splitTemplate (19 / 2) (7 / 3) = [7/3, 7/3, 7/3, 7/3, 1/6] := by decide +kernel

/-- `(V % I.M)(violin__0 = s0.w + su1.w + s2.w, piano__5 = s8.w.o(1) + l.w + h3.h + r.h)`: every
part lasts 12 quarters -/
def long : Score :=
  [{ elem := 4, ton := ⟨0, .M, 0⟩,
     parts := [("violin__0", [{ kind := .s, val := 0, oct := 0, dur := 4 }, { kind := .su, val := 1, oct := 0, dur := 4 },
                              { kind := .s, val := 2, oct := 0, dur := 4 }]),
               ("piano__5", [{ kind := .s, val := 8, oct := 1, dur := 4 }, { kind := .l, val := 0, oct := 0, dur := 4 },
                             { kind := .h, val := 3, oct := 0, dur := 2 }, { kind := .r, val := 0, oct := 0, dur := 2 }])] }]

example : Splittable long := by
  intro c hc p hp
  simp only [long, List.mem_singleton] at hc
  subst hc
  simp only [List.mem_cons, List.not_mem_nil, or_false] at hp
  rcases hp with rfl | rfl <;> refine ⟨?_, by decide +kernel⟩ <;> intro n hn <;>
    simp only [List.mem_cons, List.not_mem_nil, or_false] at hn <;> rcases hn with rfl | rfl | rfl | rfl <;> decide +kernel
example : ((Score.splitTooLongChords long 5).bind plays) = plays long := by decide +kernel
example : ((trackList long).map (renameOf [("violin__0", "violin__0"), ("piano__5", "piano__0")])).Nodup := by decide
example : trackList (Score.replaceInstruments long [("violin__0", "violin__0"), ("piano__5", "piano__0")])
    = ["violin__0", "piano__0"] := by decide +kernel
example : ∀ c ∈ long, 0 < c.dur := by decide +kernel
example : (Score.splitTooLongChords long 5).map (·.map Chord.dur) = .ok [5, 5, 2] := by decide +kernel
example : ¬ WellReferenced leadingRelative := fun h => absurd (h "piano__0") (by decide)

end MV.C11
