/-
C13 — harmonic projection takes the target's harmony and keeps the source's music.

Model: MV/Model/Project.lean (time_utils.py, project.py, Score.project_on_score).  Helper lemmas:
MV/Lemmas/Project.lean (the loops compute declarative slices; durations), MV/Lemmas/ProjectDen.lean
(what is written at every instant of a part; the window lemma), MV/Lemmas/ProjectRel.lean (scores related
note by note), MV/Lemmas/ProjectModes.lean (every mode yields chords / duration / rhythm),
MV/Lemmas/ProjectKeep.lean (keep_score = merge), MV/Lemmas/ProjectPitch.lean (parse round trip, absolute form,
voice-leading totality).

Hypotheses (decidable, see the `example`s at the end):
  `SrcOK src`  — the property's hypothesis: the source is not empty, every chord has a part, every note
                 lasts, every part lasts as long as its chord;
  `TgtOK tgt`  — the target is not empty and every chord of it lasts.
`D src tgt` is the common end `min (duration src) (duration tgt)`.

What is written in part `p` of a score at instant `τ` is `written s p τ`: the onset and the symbol
(everything but the duration) of the note sounding there — a continuation prolongs the note before it, a
rest or a chord without the part ends it.  Two scores with the same `written` have, part by part, the
same onsets, the same sounding durations, the same rests and the same note symbols.
-/
import MV.Lemmas.ProjectDen
import MV.Lemmas.ProjectPitch

namespace MV.C13
open MV MV.Proj

/-- the property's hypothesis on the projected score -/
def SrcOK (src : Score) : Prop := src ≠ [] ∧ ∀ c ∈ src, EqualParts c

/-- a chord progression to project on: not empty, every chord lasts -/
def TgtOK (tgt : Score) : Prop := tgt ≠ [] ∧ ∀ c ∈ tgt, 0 < c.dur

instance (c : Chord) : Decidable (EqualParts c) := by unfold EqualParts; exact inferInstance
instance (s : Score) : Decidable (SrcOK s) := by unfold SrcOK; exact inferInstance
instance (s : Score) : Decidable (TgtOK s) := by unfold TgtOK; exact inferInstance

/-- the common end of the two scores -/
def D (src tgt : Score) : Rat := min (scoreDuration src) (scoreDuration tgt)

/-- what is written in part `p` at instant `τ`: onset and symbol of the note sounding there -/
def written (s : Score) (p : String) (τ : Rat) : Option Ev := den none (gather s p) 0 τ

/-- plain (diatonic) projection: no pitch keeping, no voice leading, target parts not kept, no repetition -/
def Plain (f : Flags) : Prop :=
  f.keepPitch = false ∧ f.voiceLeading = false ∧ f.keepScore = false ∧ f.repeatToDuration = false

/-! ### slicing (time_utils.get_melody_between / get_score_between) -/

/-- `get_melody_between` never takes its error branch on a melody of non-negative durations and
returns, note by note: nothing for a note outside the window, the note itself (shortened at the
end of the window) when it starts inside, a continuation from the start of the window when it
started before -/
theorem melody_between (m : Melody) (a b : Rat) (h : ∀ n ∈ m, 0 ≤ n.dur) (hab : a ≤ b) :
    getMelodyBetween m a b = .ok (cutSpec m 0 a b) := gmbLoop_eq m 0 a b h hab

/-- the stated error branch: a window that ends before it starts inside a note raises -/
theorem melody_between_error :
    getMelodyBetween [{ kind := .s, val := 0, oct := 0, dur := 2 }] 1 (1/2) = .error .other := by decide +kernel

/-- `get_score_between` collects exactly the chords overlapping the window, each cut to it;
`None` exactly when the window starts at or after the end -/
theorem score_between (s : Score) (a b : Rat) (h : ∀ c ∈ s, EqualParts c) (ha : 0 ≤ a) (hab : a < b) :
    getScoreBetween s a b = .ok (if scoreDuration s ≤ a then none else some (sliceSpec s 0 a b)) := by
  unfold getScoreBetween
  rw [gsbLoop_eq s 0 a b (fun c hc => (h c hc).wf) (by grind)]
  have hiff := sliceSpec_nil_iff s 0 a b (fun c hc => (h c hc).2.2) hab ha
  by_cases c : scoreDuration s ≤ a
  · have : sliceSpec s 0 a b = [] := hiff.mpr (by grind)
    rw [if_pos c, this]; rfl
  · have : sliceSpec s 0 a b ≠ [] := fun hh => c (by have := hiff.mp hh; grind)
    rw [if_neg c]
    cases hsl : sliceSpec s 0 a b with
    | nil => exact absurd hsl this
    | cons x xs => rfl

/-- a slice lasts as long as window and score overlap -/
theorem score_between_duration (s : Score) (a b : Rat) (h : ∀ c ∈ s, EqualParts c) (ha : 0 ≤ a) (hab : a < b) :
    scoreDuration (sliceSpec s 0 a b) = max 0 (min b (scoreDuration s) - a) := by
  rw [sliceSpec_dur s 0 a b h (by grind)]; congr 2 <;> grind

/-! ### plain projection: it succeeds, and is the source seen window by window -/

theorem projectOnScore_plain (src tgt : Score) (f : Flags) (hf : Plain f) :
    projectOnScore src tgt f = projectPlain src tgt false := by
  obtain ⟨h1, h2, h3, h4⟩ := hf
  have e1 : stageRepeat src tgt f = .ok src := by
    unfold stageRepeat; simp only [h4, Bool.false_eq_true, false_and, if_false]
  have e2 : stageAbsolute src f src = .ok src := by
    unfold stageAbsolute; simp only [h1, Bool.false_eq_true, if_false]
  have e3 : stageProject tgt f src = projectPlain src tgt false := by
    unfold stageProject; simp only [h2, Bool.false_eq_true, if_false]
  have e4 : ∀ r, stageKeepScore tgt f r = .ok r := by
    intro r; unfold stageKeepScore; simp only [h3, Bool.false_eq_true, if_false]
  have e5 : ∀ r, stageScale f r = .ok r := by
    intro r; unfold stageScale; simp only [h1, Bool.false_eq_true, if_false]
  unfold projectOnScore
  simp only [e1, e2, e3, bind, Except.bind]
  cases projectPlain src tgt false with
  | error e => rfl
  | ok r => simp only [e4, e5]

/-- on the property's domain plain projection never fails and returns a score: one chord per target
chord that starts before the end of the source, each the target chord's symbol carrying what
`put_on_same_chord` gathers from the slice of the source under that chord -/
theorem project_total (src tgt : Score) (f : Flags) (hf : Plain f) (hs : SrcOK src) (ht : TgtOK tgt) :
    projectOnScore src tgt f = .ok (some (projSpec src tgt 0)) ∧ projSpec src tgt 0 ≠ [] := by
  rw [projectOnScore_plain src tgt f hf,
    projectPlain_eq src tgt (fun c hc => (hs.2 c hc).wf) (fun c hc => by have := ht.2 c hc; grind)]
  have hne : projSpec src tgt 0 ≠ [] := by
    obtain ⟨c0, cs0, rfl⟩ := List.exists_cons_of_ne_nil hs.1
    obtain ⟨c2, cs, rfl⟩ := List.exists_cons_of_ne_nil ht.1
    have hpos : ∀ c ∈ c0 :: cs0, 0 < c.dur := fun c hc => (hs.2 c hc).2.2
    have hd0 := hpos c0 (by simp)
    have hD := sdur_nonneg cs0 (fun x hx => by have := hpos x (by simp [hx]); grind)
    have hd2 := ht.2 c2 (by simp)
    have : sliceSpec (c0 :: cs0) 0 0 (0 + c2.dur) ≠ [] := by
      intro hh
      have := (sliceSpec_nil_iff (c0 :: cs0) 0 0 (0 + c2.dur) hpos (by grind) (by grind)).mp hh
      rw [sdur_cons] at this
      grind
    cases hsl : sliceSpec (c0 :: cs0) 0 0 (0 + c2.dur) with
    | nil => exact absurd hsl this
    | cons x xs => simp [projSpec, hsl]
  refine ⟨?_, hne⟩
  cases hp : projSpec src tgt 0 with
  | nil => exact absurd hp hne
  | cons x xs => rfl

/-- voice-leading mode (the default) never fails either, tonics being pitch classes 0..11 -/
theorem project_total_voice_leading (src tgt : Score) (f : Flags) (hkp : f.keepPitch = false)
    (hvl : f.voiceLeading = true) (hks : f.keepScore = false) (hrep : f.repeatToDuration = false)
    (hs : SrcOK src) (ht : TgtOK tgt) (h1 : TonOK src) (h2 : TonOK tgt) :
    ∃ res, projectOnScore src tgt f = .ok (some res) := by
  obtain ⟨X, hX⟩ := projectKeepNotes_total src tgt hs.2 hs.1 ht.2 ht.1 h1 h2
  have e1 : stageRepeat src tgt f = .ok src := by
    unfold stageRepeat; simp only [hrep, Bool.false_eq_true, false_and, if_false]
  have e2 : stageAbsolute src f src = .ok src := by
    unfold stageAbsolute; simp only [hkp, Bool.false_eq_true, if_false]
  have e3 : stageProject tgt f src = .ok (some X) := by
    unfold stageProject; simp only [hvl, if_true, hX, bind, Except.bind, pure, Except.pure]
  have e4 : ∀ r, stageKeepScore tgt f r = .ok r := by
    intro r; unfold stageKeepScore; simp only [hks, Bool.false_eq_true, if_false]
  have e5 : ∀ r, stageScale f r = .ok r := by
    intro r; unfold stageScale; simp only [hkp, Bool.false_eq_true, if_false]
  exact ⟨X, by unfold projectOnScore; simp only [e1, e2, e3, e4, e5, bind, Except.bind]⟩

/-! ### every mode: chords, duration, rhythm -/

/-- the target's parts are not kept and the source is not repeated (any `keep_pitch`, `voice_leading`) -/
def NoKeep (f : Flags) : Prop := f.keepScore = false ∧ f.repeatToDuration = false

/-- the rhythm written in part `p` at instant `τ`: the onset of the note sounding there, if any -/
def rhythm (s : Score) (p : String) (τ : Rat) : Option (Rat × Unit) := evMap πr (written s p τ)

/-- **project_chords** — in both projection modes, with or without pitch keeping: the result has exactly
one chord per target chord starting before the end of the source (with `project_duration`: for as long as
both last), and chord `k` has the degree, figured bass, tonality and octave of target chord `k` -/
theorem project_chords (src tgt : Score) (f : Flags) (hf : NoKeep f) (hs : SrcOK src) (ht : TgtOK tgt)
    (res : Score) (h : projectOnScore src tgt f = .ok (some res)) :
    res.length = startsBefore tgt 0 (scoreDuration src) ∧
    res.map header = (tgt.take res.length).map header := by
  have := projected_all src tgt res f hf.2 hf.1 hs.2 ht.2 h
  exact ⟨this.length, this.headers⟩

/-- the full duration claim: whatever the flags, the result lasts the shorter of the two durations -/
def ProjectDurationFull : Prop :=
  ∀ (src tgt : Score) (f : Flags) (res : Score), SrcOK src → TgtOK tgt → f.repeatToDuration = false →
    projectOnScore src tgt f = .ok (some res) → scoreDuration res = D src tgt

/-- **project_duration** (partial: the target's parts are not kept) — the result lasts
`min (duration src) (duration tgt)` in both modes, with or without pitch keeping -/
theorem project_duration_partial (src tgt : Score) (f : Flags) (hf : NoKeep f) (hs : SrcOK src) (ht : TgtOK tgt)
    (res : Score) (h : projectOnScore src tgt f = .ok (some res)) : scoreDuration res = D src tgt :=
  (projected_all src tgt res f hf.2 hf.1 hs.2 ht.2 h).duration

/-- a source of 2 quarters ending inside the only target chord (3 quarters) -/
def wSrcShort : Score := [{ elem := 0, parts := [("piano__0", [{ kind := .s, val := 0, oct := 0, dur := 2 }])] }]
def wTgtLong : Score := [{ elem := 4, parts := [("cello__0", [{ kind := .s, val := 2, oct := 0, dur := 3 }])] }]

/-- with `keep_score` the target's parts are kept uncut: when the source ends strictly inside a target chord the
result lasts until the end of that chord (3), not the shorter duration (2) -/
theorem project_duration_fails : ¬ ProjectDurationFull := by
  intro h
  have := h wSrcShort wTgtLong { voiceLeading := false, keepScore := true }
    [{ elem := 4, parts := [("cello__0", [{ kind := .s, val := 2, oct := 0, dur := 3 }]),
                            ("piano__0", [{ kind := .s, val := 0, oct := 0, dur := 2 }])] }]
    (by decide +kernel) (by decide +kernel) rfl (by decide +kernel)
  revert this
  decide +kernel

/-- **project_rhythm** — in both modes, with or without pitch keeping: in every part, at every instant before
the common end, a note sounds in the result exactly when one sounds in the source, and it started at the same
onset; after the common end nothing sounds.  So every part keeps its onsets, its sounding durations and its
silences (up to the cuts at target chord boundaries, which are tied by continuations). -/
theorem project_rhythm (src tgt : Score) (f : Flags) (hf : NoKeep f) (hs : SrcOK src) (ht : TgtOK tgt)
    (res : Score) (h : projectOnScore src tgt f = .ok (some res)) (p : String) (τ : Rat) (hτ : 0 ≤ τ) :
    rhythm res p τ = if τ < D src tgt then rhythm src p τ else none :=
  (projected_all src tgt res f hf.2 hf.1 hs.2 ht.2 h).rhythm p τ hτ

/-! ### plain projection keeps every written symbol -/

/-- **project_plain_keeps_symbols** — plain projection: in every part, at every instant before the common
end, the note sounding in the result has the onset *and the written symbol* (type, value, octave, mode,
accidental, dynamics, tags) of the note sounding in the source; after the common end nothing is written.
The only new items are the continuations (resp. rests, for absent parts) that tie a note (resp. a silence)
over a target chord boundary. -/
theorem project_plain_keeps_symbols (src tgt : Score) (f : Flags) (hf : Plain f) (hs : SrcOK src) (ht : TgtOK tgt)
    (res : Score) (h : projectOnScore src tgt f = .ok (some res)) (p : String) (τ : Rat) (hτ : 0 ≤ τ) :
    written res p τ = if τ < D src tgt then written src p τ else none := by
  have := (project_total src tgt f hf hs ht).1
  rw [this] at h
  injection h with h; injection h with h
  subst h
  have hd := projSpec_den src tgt p 0 hs.2 ht.2 (by grind) τ hτ
  rw [carryAt_early _ _ _ _ (by grind)] at hd
  unfold written D
  rw [hd]
  have e : (0 : Rat) + scoreDuration tgt = scoreDuration tgt := by grind
  rw [e]

/-! ### pitch keeping -/

/-- what sounds in part `p` at instant `τ` when every note is read in its own chord: onset, pitch (middle C = 0)
and velocity.  For scores without relative notes (every result of a pitch-keeping projection is one) this is
the renderer's reading. -/
def sounding (s : Score) (p : String) (τ : Rat) : Option (Rat × Int × Int) := evMap πp (written (absView s) p τ)

/-- target chords on the seven degrees (the domain of the pitch calculus, C01) -/
def DegreesOK (tgt : Score) : Prop := ∀ c ∈ tgt, 0 ≤ c.elem ∧ c.elem < 7

/-- the full sound claim: the result of a pitch-keeping projection sounds like the source, `soundOf src` being
the renderer's reading of the source (relative notes threaded through the last sounded pitch of the part, C03).
Stated against an arbitrary reading `soundOf` so that the missing link is explicit: it is
`soundOf src p τ = evMap πp (written A p τ)` for `A = Score.to_absolute_note src`, i.e. property C11
("re-notation in absolute notes never changes what is played") for well-referenced sources. -/
def KeepPitchSoundFull (soundOf : Score → String → Rat → Option (Rat × Int × Int)) : Prop :=
  ∀ (src tgt : Score) (f : Flags) (res : Score), SrcOK src → TgtOK tgt → DegreesOK tgt →
    f.keepPitch = true → NoKeep f → projectOnScore src tgt f = .ok (some res) →
    ∀ p τ, 0 ≤ τ → sounding res p τ = if τ < D src tgt then soundOf src p τ else none

/-- **project_keep_pitch_sound** (partial: the source read through its absolute re-notation; both modes) —
with pitch keeping, at every instant before the common end every part of the result, notated in the
target's chords, sounds the pitch, velocity and onset that the absolute re-notation `A` of the source
sounds; nothing sounds afterwards.  (`repeat_to_duration` is ignored by the code when pitches are kept.) -/
theorem project_keep_pitch_sound_partial (src tgt : Score) (f : Flags) (hkp : f.keepPitch = true)
    (hks : f.keepScore = false) (hs : SrcOK src) (ht : TgtOK tgt)
    (hd : DegreesOK tgt) (res : Score) (h : projectOnScore src tgt f = .ok (some res)) :
    ∃ A, scoreToAbsolute src = .ok A ∧ NotesP AbsN A ∧
      ∀ p τ, 0 ≤ τ → sounding res p τ = if τ < D src tgt then evMap πp (written A p τ) else none := by
  obtain ⟨A, hA, hden⟩ := keepPitch_sound src tgt res f hkp hks hs.2 ht.2 hd h
  exact ⟨A, hA, scoreToAbsolute_form src A hA, hden⟩

/-- the notation half of the claim: `Chord.parse` re-notates a pitch in the target's chord without changing it -/
theorem renotation_keeps_pitch (c : Chord) (p : Int) (q : Note) (he : 0 ≤ c.elem ∧ c.elem < 7)
    (h : c.parse p = .ok q) : c.toPitch q none = .ok (some p) ∧ (q.kind = .s ∨ q.kind = .h) := by
  have := parse_roundtrip c p q he h q.dur q.amp q.tags
  exact ⟨this, parse_kind c p q h⟩

/-! ### keeping the target's parts -/

/-- the full claim: with `keep_score` (names of source and target parts distinct) every part of target chord `k`
is in result chord `k`, unchanged -/
def KeepScoreFull : Prop :=
  ∀ (src tgt : Score) (f : Flags) (res : Score), SrcOK src → TgtOK tgt → f.keepScore = true →
    f.allowOverride = false → f.repeatToDuration = false → projectOnScore src tgt f = .ok (some res) →
    ∀ k (h1 : k < res.length) (h2 : k < tgt.length), ∀ q ∈ tgt[k].parts, q ∈ res[k].parts

/-- **project_keep_score** (partial: without pitch keeping) — if the projection without `keep_score` gives `base`,
then with `keep_score`: when a part name of `base` also names a part of the target and `allow_override` is off
the call raises (the stated error branch); otherwise result chord `k` has the symbol of `base[k]` and its parts
are *all parts of target chord `k`, unchanged and in their order, followed by the parts of `base[k]`* -/
theorem project_keep_score_partial (src tgt : Score) (f : Flags) (hkp : f.keepPitch = false)
    (hks : f.keepScore = true) (hrep : f.repeatToDuration = false) (hs : SrcOK src) (ht : TgtOK tgt)
    (base : Score) (hb : projectOnScore src tgt { f with keepScore := false } = .ok (some base)) :
    (f.allowOverride = false ∧ Clash base tgt → projectOnScore src tgt f = .error .other) ∧
    (¬ Clash base tgt → ∃ res, projectOnScore src tgt f = .ok (some res) ∧ res.length = base.length ∧
      ∀ k (h0 : k < res.length) (h1 : k < base.length) (h2 : k < tgt.length),
        header res[k] = header base[k] ∧ res[k].parts = tgt[k].parts ++ base[k].parts) := by
  have hunf := keepScore_unfold src tgt f hkp hks base hb
  have hP := projected_all src tgt base { f with keepScore := false } hrep rfl hs.2 ht.2 hb
  have hlen : base.length ≤ tgt.length := by
    have := congrArg List.length hP.headers
    simp only [List.length_map, List.length_take] at this
    omega
  constructor
  · intro hc
    rw [hunf, if_pos hc]
  · intro hnc
    have hne : base ≠ [] := by
      intro hh
      have := hP.duration
      rw [hh, sdur_nil] at this
      have h1 : 0 < scoreDuration src := by
        obtain ⟨c0, cs0, rfl⟩ := List.exists_cons_of_ne_nil hs.1
        rw [sdur_cons]
        have := (hs.2 c0 (by simp)).2.2
        have := sdur_nonneg cs0 (fun x hx => by have := (hs.2 x (by simp [hx])).2.2; grind)
        grind
      have h2 : 0 < scoreDuration tgt := by
        obtain ⟨c0, cs0, rfl⟩ := List.exists_cons_of_ne_nil ht.1
        rw [sdur_cons]
        have := ht.2 c0 (by simp)
        have := sdur_nonneg cs0 (fun x hx => by have := ht.2 x (by simp [hx]); grind)
        grind
      grind
    have hml := mergeTarget_length base tgt hlen
    have hmne : (mergeTarget base tgt).isEmpty = false := by
      cases hm : mergeTarget base tgt with
      | nil => rw [hm] at hml; simp at hml; exact absurd (List.length_eq_zero_iff.mp hml.symm) hne
      | cons x xs => rfl
    refine ⟨mergeTarget base tgt, ?_, hml, ?_⟩
    · rw [hunf, if_neg (fun hh => hnc hh.2), hmne]; rfl
    · intro k h0 h1 h2
      obtain ⟨_, hh, hp⟩ := mergeTarget_getElem base tgt k h1 h2 (hP.nodup _ (List.getElem_mem h1))
        (no_clash_keys base tgt hnc k h1 h2)
      exact ⟨hh, hp⟩

/-- with `allow_override` a target part whose name is not used by the projection is still there, unchanged -/
theorem project_keep_score_override (src tgt : Score) (f : Flags) (hkp : f.keepPitch = false)
    (hks : f.keepScore = true) (hao : f.allowOverride = true)
    (base : Score) (hb : projectOnScore src tgt { f with keepScore := false } = .ok (some base))
    (res : Score) (h : projectOnScore src tgt f = .ok (some res)) :
    res = mergeTarget base tgt ∧
    ∀ (c1 c2 : Chord) (p : String), p ∉ keys c1.parts → (dictUpdate c2.parts c1.parts).lookup p = c2.parts.lookup p := by
  have hunf := keepScore_unfold src tgt f hkp hks base hb
  rw [hunf, if_neg (fun hh => by simp [hao] at hh)] at h
  refine ⟨?_, fun c1 c2 p hp => dictUpdate_lookup_left _ _ p hp⟩
  simp only [Except.ok.injEq] at h
  split at h
  · simp at h
  · simp at h; exact h.symm

/-- a target whose flute plays a chord tone (`c1`) -/
def wTgtChordTone : Score :=
  [{ elem := 0, ext := { fig := .f7 }, parts := [("flute__0", [{ kind := .c, val := 1, oct := 0, dur := 2 }])] }]

/-- with pitch keeping the final `to_scale_notes()` re-notates the kept target parts too: the flute's `c1` comes
back as `s2` (same sound, other symbol), so the target's part is not retained unchanged -/
theorem keep_score_fails : ¬ KeepScoreFull := by
  intro h
  have := h wSrcShort wTgtChordTone { keepPitch := true, voiceLeading := false, keepScore := true }
    [{ elem := 0, ext := { fig := .f7 }, parts :=
        [("flute__0", [{ kind := .s, val := 2, oct := 0, dur := 2 }]),
         ("piano__0", [{ kind := .s, val := 0, oct := 0, dur := 2 }])] }]
    (by decide +kernel) (by decide +kernel) rfl rfl rfl (by decide +kernel) 0 (by decide +kernel) (by decide +kernel)
    ("flute__0", [{ kind := .c, val := 1, oct := 0, dur := 2 }]) (by decide +kernel)
  revert this
  decide +kernel

/-! ### non-vacuity: a source and a target with different chord boundaries, keys and octaves -/

/-- two chords (4 + 2 quarters), a part absent from the second chord, a tied note, a relative note -/
def exSrc : Score :=
  [{ elem := 0, ton := ⟨0, .M, 0⟩, parts :=
      [("piano__0", [{ kind := .s, val := 0, oct := 0, dur := 2 }, { kind := .su, val := 1, oct := 0, dur := 2 }]),
       ("violin__0", [{ kind := .h, val := 4, oct := 1, dur := 3, amp := 78 }, { kind := .l, val := 0, oct := 0, dur := 1 }])] },
   { elem := 4, ton := ⟨0, .M, 0⟩, parts :=
      [("piano__0", [{ kind := .c, val := 1, oct := 0, dur := 1/2 }, { kind := .r, val := 0, oct := 0, dur := 3/2 }])] }]

/-- three chords of 3/2, 3 and 5 quarters in other keys and octaves -/
def exTgt : Score :=
  [{ elem := 1, ext := { fig := .f6 }, ton := ⟨4, .m, 0⟩, parts := [("cello__0", [{ kind := .s, val := 0, oct := 0, dur := 3/2 }])] },
   { elem := 3, ton := ⟨2, .dorian, 1⟩, oct := -1, parts := [("cello__0", [{ kind := .s, val := 2, oct := 0, dur := 3 }])] },
   { elem := 4, ext := { fig := .f7 }, ton := ⟨2, .dorian, 1⟩, parts := [("cello__0", [{ kind := .s, val := 2, oct := 0, dur := 5 }])] }]


instance (s : Score) : Decidable (DegreesOK s) := by unfold DegreesOK; exact inferInstance

example : SrcOK exSrc := by decide +kernel
example : TgtOK exTgt := by decide +kernel
example : DegreesOK exTgt := by decide +kernel
example : TonOK exSrc ∧ TonOK exTgt := by unfold TonOK; decide +kernel
example : Plain { voiceLeading := false } := ⟨rfl, rfl, rfl, rfl⟩
example : NoKeep { keepPitch := true } := ⟨rfl, rfl⟩
example : scoreDuration exSrc = 6 ∧ scoreDuration exTgt = 19/2 ∧ D exSrc exTgt = 6 := by decide +kernel

/-- the plain projection, the default (voice leading) projection with pitch keeping, and the plain one with the
target's parts kept -/
def exRes : Score := match projectOnScore exSrc exTgt { voiceLeading := false } with | .ok (some r) => r | _ => []
def exResKP : Score := match projectOnScore exSrc exTgt { keepPitch := true } with | .ok (some r) => r | _ => []
def exResKS : Score :=
  match projectOnScore exSrc exTgt { voiceLeading := false, keepScore := true } with | .ok (some r) => r | _ => []

/-- three chords (the third target chord starts at 9/2 < 6), on the target's degrees II6, IV, V7 -/
example : exRes.length = 3 ∧ exRes.map (·.elem) = [1, 3, 4] ∧ scoreDuration exRes = 6 := by decide +kernel
/-- at 5/2 the piano sounds the `su1` that started at 2 in the source (cut at 3/2 .. 9/2: it is tied over) -/
example : (written exRes "piano__0" (5/2)).map (fun e => (e.1, e.2.kind, e.2.val)) = some (2, .su, 1) ∧
    written exRes "piano__0" (5/2) = written exSrc "piano__0" (5/2) := by decide +kernel
/-- the violin's `h4` (3 quarters + a tied quarter) still sounds at 7/2, two target chords later; at 5 it is silent -/
example : (written exRes "violin__0" (7/2)).map (fun e => (e.1, e.2.kind, e.2.val)) = some (0, .h, 4) ∧
    written exRes "violin__0" 5 = none := by decide +kernel
/-- with pitch keeping the piano sounds pitch 2 (onset 2) at 5/2 and the violin pitch 16, velocity 78 (onset 0) at 7/2,
as the absolute re-notation of the source does -/
example : sounding exResKP "piano__0" (5/2) = some (2, 2, 66) ∧ sounding exResKP "violin__0" (7/2) = some (0, 16, 78) ∧
    (scoreToAbsolute exSrc).toOption.map (fun A => evMap πp (written A "piano__0" (5/2))) = some (some (2, 2, 66)) := by
  decide +kernel
/-- with the target's parts kept: cello first, unchanged, then the projected parts; no name is shared -/
example : ¬ Clash exRes exTgt ∧ exResKS.map (fun c => c.parts.map (·.1)) =
    [["cello__0", "piano__0", "violin__0"], ["cello__0", "piano__0", "violin__0"], ["cello__0", "piano__0"]] := by
  decide +kernel

end MV.C13
