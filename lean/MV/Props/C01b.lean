/-
C01 (continued) — "one octave is always exactly 12" for chord-tone and bass-tone notes, with any
modifiers: raising the chord or its tonality by `k` octaves leaves the chord's tones the same notes
and moves every chord-tone / bass-tone pitch by exactly `12 k`.
(Separate file because the proof uses the extension lemmas, which themselves build on `MV.Props.C01`.)
-/
import MV.Lemmas.Shift

namespace MV.C01
open MV Gen

theorem noteToPitch_eq_basic (c : Chord) (n : Note) (last : Int) (hn : TableNote n) :
    noteToPitch c n last = basicPitch c n := by
  unfold noteToPitch
  rcases hn with h | h <;> simp [h]

theorem shift_eq (k : Int) (r : Res (Option Int)) : shift k r = shiftBy (12 * k) r := by
  unfold shift shiftBy; rfl

theorem shifted_chord_octave (c : Chord) (k : Int) (he : 0 ≤ c.elem ∧ c.elem < 7) :
    ShiftedBy c (c.o k) (12 * k) ∧ ShiftedBy c { c with ton := c.ton.o k } (12 * k) := by
  constructor <;>
  · intro n hn
    have h := (chord_octave_12 c n k 0 he).1 hn
    rw [← noteToPitch_eq_basic _ n 0 hn, ← noteToPitch_eq_basic c n 0 hn, ← shift_eq]
    first | exact h.1 | exact h.2

/-- chord / tonality octave for chord-tone and bass-tone notes, any figure and modifiers -/
theorem chord_octave_12_tones (c : Chord) (n : Note) (k last : Int) (he : 0 ≤ c.elem ∧ c.elem < 7)
    (hk : n.kind = .c ∨ n.kind = .b) :
    noteToPitch (c.o k) n last = shiftBy (12 * k) (noteToPitch c n last) ∧
    noteToPitch { c with ton := c.ton.o k } n last = shiftBy (12 * k) (noteToPitch c n last) := by
  obtain ⟨h1, h2⟩ := shifted_chord_octave c k he
  exact ⟨noteToPitch_tones_shift c (c.o k) (12 * k) h1 rfl n last hk,
         noteToPitch_tones_shift c _ (12 * k) h2 rfl n last hk⟩

/-- the arpeggios themselves move by `12 k` -/
theorem chord_octave_arpeggios (c : Chord) (k : Int) (he : 0 ≤ c.elem ∧ c.elem < 7) :
    (c.o k).chordPitches = (c.chordPitches).map (·.map (· + 12 * k)) ∧
    (c.o k).extensionPitches = (c.extensionPitches).map (·.map (· + 12 * k)) :=
  chordPitches_shift c (c.o k) (12 * k) (shifted_chord_octave c k he).1 rfl

example : noteToPitch (({ elem := 4, ext := { fig := .f65, add := ["add6"] }, ton := ⟨2, .m, 0⟩ } : Chord).o 2)
    { kind := .b, val := 5, oct := 0 } 0 = .ok (some 49) := by decide +kernel

end MV.C01
