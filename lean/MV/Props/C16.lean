/-
C16 — realising ornaments keeps every note's time span.

Only property statements and their proofs from `MV.Lemmas.Ornament`.  The model
(`MV.Model.Ornament`) follows the code *after* the repair `patches/C16-ornament-guards.diff`
(grupetto, roll / roll_fast, suspension_prev(+_repeat), retarded, interpolate guards).

Two arithmetics: `rd = id` is exact rational arithmetic, `rd = limitDen` is what the code does
(`Fraction.limit_denominator(LIMIT_DENOM)` in every `copy` / `set_duration` / `augment`).
-/
import MV.Lemmas.Ornament
import MV.Gen.Library

namespace MV.C16
open MV MV.Orn

/-! ### the tables the builders read -/

/-- the five library notes the builders use are the ones of the model (value, not duration, matters) -/
theorem library_constants :
    Gen.LIBRARY_NOTES.lookup "su1" = some su1 ∧ Gen.LIBRARY_NOTES.lookup "sd1" = some sd1 ∧
    Gen.LIBRARY_NOTES.lookup "hu1" = some hu1 ∧ Gen.LIBRARY_NOTES.lookup "hd1" = some hd1 ∧
    Gen.LIBRARY_NOTES.lookup "l" = some lCont := by
  decide +kernel

/-- `note.n` multiplies the duration by `STR_TO_DURATION["n"]`, which is 0 -/
theorem duration_n_is_zero : Gen.STR_TO_DURATION.lookup "n" = some 0 := by decide +kernel

/-! ### exact arithmetic: the property for every note, every tag set, every context -/

/-- **never fails / total**: for every note (any kind, any rational duration, any list of tags —
all 2¹⁵ combinations of the ornament tags and any other strings), any previous and next note
(none, sounding note, rest, continuation, …): realisation returns a figure whose pieces sum to the
note's duration. -/
theorem ornament_total_exact (note : Note) (last next : Option Note) :
    ∃ y, realizeTags id note last next = .ok y ∧ durSum y.notes = note.dur := by
  obtain ⟨y, hy, hd, _⟩ := realizeTags_id note last next
  exact ⟨y, hy, by rw [← NM.duration_eq]; exact hd⟩

/-- **non-negative pieces**: if the note's duration is non-negative, so is every piece -/
theorem ornament_nonneg_exact (note : Note) (last next : Option Note) (h0 : 0 ≤ note.dur)
    (y : NM) (hy : realizeTags id note last next = .ok y) : ∀ p ∈ y.notes, 0 ≤ p.dur := by
  obtain ⟨y', hy', _, hn⟩ := realizeTags_id note last next
  rw [hy] at hy'
  cases hy'
  exact hn h0

example : realizeTags id { kind := .s, val := 0, oct := 0, dur := 1, tags := ["grupetto"] } none none
    = .ok (.mel [{ kind := .s, val := 0, oct := 0, dur := 0 }, { kind := .su, val := 1, oct := 0, dur := 1 / 6 },
                 { kind := .s, val := 0, oct := 0, dur := 1 / 6 }, { kind := .sd, val := 1, oct := 0, dur := 1 / 6 },
                 { kind := .su, val := 1, oct := 0, dur := 1 / 2 }]) := by decide +kernel

/-! ### the code's arithmetic (rounding to denominators ≤ LIMIT_DENOM) -/

/-- every piece of every intermediate figure of the exact run (the note itself, the figure after
each of the fifteen `if`s) has a denominator ≤ `LIMIT_DENOM`.  Decidable; a function of the input. -/
def Den1000Stages (note : Note) (last next : Option Note) : Prop :=
  stagesAll denOK (steps id note.tags last next) (.note note) = true

instance (note : Note) (last next : Option Note) : Decidable (Den1000Stages note last next) := by
  unfold Den1000Stages; exact inferInstance

/-- **transfer**: on such an input the code computes exactly what exact arithmetic computes -/
theorem realize_eq_exact (note : Note) (last next : Option Note) (h : Den1000Stages note last next) :
    realizeTags limitDen note last next = realizeTags id note last next :=
  realizeTags_transfer limitDen limitDen_zero denOK (fun _ hx => denOK_fix hx) note last next h

/-- **never fails** (`ornament_total_fn`) and **total duration unchanged** (`ornament_total`) for the
code's arithmetic -/
theorem ornament_total (note : Note) (last next : Option Note) (h : Den1000Stages note last next) :
    ∃ y, realizeTags limitDen note last next = .ok y ∧ durSum y.notes = note.dur := by
  rw [realize_eq_exact note last next h]
  exact ornament_total_exact note last next

/-- **realisation never fails** -/
theorem ornament_total_fn (note : Note) (last next : Option Note) (h : Den1000Stages note last next) :
    ∃ y, realizeTags limitDen note last next = .ok y :=
  (ornament_total note last next h).imp (fun _ hy => hy.1)

/-- **every produced note has a non-negative duration** -/
theorem ornament_nonneg (note : Note) (last next : Option Note) (h : Den1000Stages note last next)
    (h0 : 0 ≤ note.dur) (y : NM) (hy : realizeTags limitDen note last next = .ok y) :
    ∀ p ∈ y.notes, 0 ≤ p.dur := by
  rw [realize_eq_exact note last next h] at hy
  exact ornament_nonneg_exact note last next h0 y hy

/-- a multi-tag input meeting the hypothesis: quarter note with mordant + retarded + accent after a
sounding note, before a rest -/
example : Den1000Stages { kind := .s, val := 2, oct := 0, dur := 1, tags := ["accent", "mordant", "retarded"] }
    (some { kind := .s, val := 1, oct := 0 }) (some { kind := .r, val := 0, oct := 0 }) := by decide +kernel

/-! ### one tag at a time: a closed-form sufficient condition, and the duration table -/

/-- **every tag × every duration with a small denominator × every context**: a note carrying one
tag (any of the fifteen, or a tag the realiser ignores) whose duration `d ≥ 0` satisfies
`12 · den(d) ≤ LIMIT_DENOM` — and, for `interpolate`, `den(d) · |Δ| ≤ LIMIT_DENOM` where `Δ` is the
distance in scale steps to the next note — is realised without failure by a figure of non-negative
pieces summing to `d`, whatever the previous and next notes are. -/
theorem ornament_single_tag (t : String) (note : Note) (last next : Option Note) (ht : note.tags = [t])
    (h0 : 0 ≤ note.dur) (h12 : 12 * note.dur.den ≤ Gen.LIMIT_DENOM)
    (hk : t = "interpolate" → ∀ nx, next = some nx →
      note.dur.den * (scaleVal nx - scaleVal note).natAbs ≤ Gen.LIMIT_DENOM) :
    ∃ y, realizeTags limitDen note last next = .ok y ∧ durSum y.notes = note.dur ∧ ∀ p ∈ y.notes, 0 ≤ p.dur := by
  have hs : Den1000Stages note last next := single_tag_stages t note last next ht h12 hk
  obtain ⟨y, hy, hd⟩ := ornament_total note last next hs
  exact ⟨y, hy, hd, ornament_nonneg note last next hs h0 y hy⟩

/-- every value of the generated duration table is non-negative and small enough for
`ornament_single_tag`, with room for `|Δ| ≤ 35` scale steps (five octaves) in `interpolate` -/
theorem table_durations_ok :
    ∀ kv ∈ Gen.STR_TO_DURATION, 0 ≤ kv.2 ∧ 12 * kv.2.den ≤ Gen.LIMIT_DENOM ∧ kv.2.den * 35 ≤ Gen.LIMIT_DENOM := by
  decide +kernel

/-- **15 tags × all durations of the duration table × all contexts** for the code's arithmetic -/
theorem ornament_single_tag_table (t : String) (note : Note) (last next : Option Note) (ht : note.tags = [t])
    (hd : ∃ kv ∈ Gen.STR_TO_DURATION, kv.2 = note.dur)
    (hk : ∀ nx, next = some nx → (scaleVal nx - scaleVal note).natAbs ≤ 35) :
    ∃ y, realizeTags limitDen note last next = .ok y ∧ durSum y.notes = note.dur ∧ ∀ p ∈ y.notes, 0 ≤ p.dur := by
  obtain ⟨kv, hkv, hkd⟩ := hd
  obtain ⟨h0, h12, h35⟩ := table_durations_ok kv hkv
  rw [hkd] at h0 h12 h35
  refine ornament_single_tag t note last next ht h0 h12 (fun _ nx hn => ?_)
  have := hk nx hn
  calc note.dur.den * (scaleVal nx - scaleVal note).natAbs ≤ note.dur.den * 35 := Nat.mul_le_mul_left _ this
    _ ≤ Gen.LIMIT_DENOM := h35

example : ∃ kv ∈ Gen.STR_TO_DURATION, kv.2 = (1 : Rat) / 3 := ⟨("e3", 1 / 3), by decide +kernel, rfl⟩

/-! ### melodies -/

/-- an empty melody is rejected (`None.nb_bars`): the theorems below are about non-empty ones -/
theorem melody_empty_rejected (rd : Rat → Rat) (last final : Option Note) :
    melodyRealize rd [] last final = .error .attr := rfl

/-- **melodies, exact arithmetic**: the realised melody is the concatenation of one figure per written
note; figure `i` lasts exactly as long as note `i` (so every written note keeps its onset: the first `i`
figures end where the first `i` notes end), the total duration is unchanged and no piece is negative. -/
theorem melody_realize_duration_exact (notes : List Note) (last final : Option Note) (hne : notes ≠ []) :
    ∃ figs : List (List Note), melodyRealize id notes last final = .ok figs.flatten ∧
      List.Forall₂ (fun fig n => durSum fig = n.dur ∧ (0 ≤ n.dur → ∀ p ∈ fig, 0 ≤ p.dur)) figs notes ∧
      durSum figs.flatten = durSum notes ∧
      (∀ i, durSum (figs.take i).flatten = durSum (notes.take i)) ∧
      ((∀ n ∈ notes, 0 ≤ n.dur) → ∀ p ∈ figs.flatten, 0 ≤ p.dur) := by
  obtain ⟨figs, hf, hF⟩ := melodyRealize_ok id notes last final hne (allRealOK_id notes)
  exact ⟨figs, hf, hF, durSum_flatten_of_spans hF, spans_prefix hF, nonneg_flatten_of_spans hF⟩

/-- **melodies, the code's arithmetic**: the same, when every (note, previous, next) triple the melody
loop visits satisfies `Den1000Stages` -/
theorem melody_realize_duration (notes : List Note) (last final : Option Note) (hne : notes ≠ [])
    (h : ∀ c ∈ contexts final last notes, Den1000Stages c.1 c.2.1 c.2.2) :
    ∃ figs : List (List Note), melodyRealize limitDen notes last final = .ok figs.flatten ∧
      List.Forall₂ (fun fig n => durSum fig = n.dur ∧ (0 ≤ n.dur → ∀ p ∈ fig, 0 ≤ p.dur)) figs notes ∧
      durSum figs.flatten = durSum notes ∧
      (∀ i, durSum (figs.take i).flatten = durSum (notes.take i)) ∧
      ((∀ n ∈ notes, 0 ≤ n.dur) → ∀ p ∈ figs.flatten, 0 ≤ p.dur) := by
  obtain ⟨figs, hf, hF⟩ := melodyLoop_ok limitDen final notes last
    (fun c hc => realOK_of_stages c.1 c.2.1 c.2.2 (h c hc))
  refine ⟨figs, ?_, hF, durSum_flatten_of_spans hF, spans_prefix hF, nonneg_flatten_of_spans hF⟩
  cases notes with
  | nil => exact absurd rfl hne
  | cons n tl => simpa [melodyRealize] using hf

example : ∀ c ∈ contexts none none
      [{ kind := .s, val := 0, oct := 0, dur := 1, tags := ["mordant"] },
       { kind := .s, val := 4, oct := 0, dur := 1 / 2, tags := ["interpolate"] },
       ({ kind := .s, val := 1, oct := 0, dur := 3 / 2, tags := ["grupetto", "accent"] } : Note)],
    Den1000Stages c.1 c.2.1 c.2.2 := by decide +kernel

/-! ### scores and MIDI tracks

`SimpleNote n` (Lemmas): no tag, or one tag other than `interpolate`, and `12 · den(d) ≤ LIMIT_DENOM` — a note
the code's arithmetic handles in *every* context (every duration of the table qualifies). -/

/-- what `Score.realize_tags` / the MIDI export need: no chord has an empty part -/
def NoEmptyPart (s : Score) : Prop := ∀ c ∈ s, ∀ p ∈ c.parts, p.2 ≠ []

/-- the empty score is returned as `None`, not rejected -/
theorem score_empty : scoreRealize limitDen [] = .ok none := rfl

/-- **scores, exact arithmetic**: `Score.realize_tags` never fails on a score without empty parts; every
chord keeps its degree, figure, tonality, octave and part names; every part becomes the concatenation of
one span-filling figure per written note; hence every chord (and the score) keeps its duration. -/
theorem score_realize_duration_exact (s : Score) (hs : s ≠ []) (hne : NoEmptyPart s) :
    ∃ s', scoreRealize id s = .ok (some s') ∧ List.Forall₂ ChordSpan s s' ∧
      List.Forall₂ (fun c c' => chordDuration c' = chordDuration c) s s' := by
  obtain ⟨out, ho, hF⟩ := scoreLoop_ok id s [] [] none (fun _ h => by cases h)
    (fun c hc p hp => ⟨hne c hc p hp, allRealOK_id p.2⟩)
  refine ⟨out, ?_, hF, hF.imp (fun _ _ h => chordDuration_of_span h)⟩
  cases s with
  | nil => exact absurd rfl hs
  | cons c cs => simp only [scoreRealize, ho, bind, Except.bind, pure, Except.pure]

/-- **scores, the code's arithmetic**, when every note is a `SimpleNote` -/
theorem score_realize_duration (s : Score) (hs : s ≠ []) (hne : NoEmptyPart s)
    (hsimple : ∀ c ∈ s, ∀ p ∈ c.parts, ∀ n ∈ p.2, SimpleNote n) :
    ∃ s', scoreRealize limitDen s = .ok (some s') ∧ List.Forall₂ ChordSpan s s' ∧
      List.Forall₂ (fun c c' => chordDuration c' = chordDuration c) s s' := by
  obtain ⟨out, ho, hF⟩ := scoreLoop_ok limitDen s [] [] none (fun _ h => by cases h)
    (fun c hc p hp => ⟨hne c hc p hp, fun n hn l x => simpleNote_realOK n (hsimple c hc p hp n hn) l x⟩)
  refine ⟨out, ?_, hF, hF.imp (fun _ _ h => chordDuration_of_span h)⟩
  cases s with
  | nil => exact absurd rfl hs
  | cons c cs => simp only [scoreRealize, ho, bind, Except.bind, pure, Except.pure]

/-- **MIDI export, exact arithmetic**: the rows of a track are, chord by chord, the rows of span-filling
figures laid out from the onset the *written* score gives the chord (`writtenBlocks`): no ornament moves
the onset of a later note or chord. -/
theorem track_rows_exact (s : Score) (track : String) (hne : NoEmptyPart s) :
    ∃ blocks : List (Rat × List (List Note)),
      trackRows id s track = .ok (blocks.flatMap (fun b => rowsOf b.1 b.2.flatten)) ∧
      List.Forall₂ BlockSpan blocks (writtenBlocks track 0 s) :=
  trackLoop_ok id track s 0 none (fun _ h => by cases h) (fun c hc p hp => ⟨hne c hc p hp, allRealOK_id p.2⟩)

/-- the same for the code's arithmetic on scores of `SimpleNote`s -/
theorem track_rows (s : Score) (track : String) (hne : NoEmptyPart s)
    (hsimple : ∀ c ∈ s, ∀ p ∈ c.parts, ∀ n ∈ p.2, SimpleNote n) :
    ∃ blocks : List (Rat × List (List Note)),
      trackRows limitDen s track = .ok (blocks.flatMap (fun b => rowsOf b.1 b.2.flatten)) ∧
      List.Forall₂ BlockSpan blocks (writtenBlocks track 0 s) :=
  trackLoop_ok limitDen track s 0 none (fun _ h => by cases h)
    (fun c hc p hp => ⟨hne c hc p hp, fun n hn l x => simpleNote_realOK n (hsimple c hc p hp n hn) l x⟩)

/-- inside a block the rows follow each other without gap or overlap: the rows of `a ++ b` are the rows
of `a`, then the rows of `b` starting `durSum a` later; no row starts before its block -/
theorem rows_layout (t : Rat) (a b : List Note) :
    rowsOf t (a ++ b) = rowsOf t a ++ rowsOf (t + durSum a) b ∧
    ((∀ p ∈ a, 0 ≤ p.dur) → ∀ r ∈ rowsOf t a, t ≤ r.1) :=
  ⟨rowsOf_append t a b, rowsOf_onsets_ge t a⟩

example : SimpleNote { kind := .s, val := 0, oct := 0, dur := 2 / 3, tags := ["roll"] } :=
  ⟨Or.inr ⟨"roll", rfl, by decide⟩, by decide +kernel⟩

example : NoEmptyPart [{ elem := 0, parts := [("piano__0", [{ kind := .s, val := 0, oct := 0, tags := ["roll"] }])] }] := by
  intro c hc p hp
  simp only [List.mem_singleton] at hc
  subst hc
  simp only [List.mem_singleton] at hp
  subst hp
  simp

/-! ### the full statement does not hold for the code's arithmetic -/

/-- the property as stated, for the code's arithmetic, without the denominator hypothesis -/
def Ornament_full : Prop :=
  ∀ (note : Note) (last next : Option Note), 0 ≤ note.dur → note.dur.den ≤ Gen.LIMIT_DENOM →
    ∃ y, realizeTags limitDen note last next = .ok y ∧ durSum y.notes = note.dur ∧ ∀ p ∈ y.notes, 0 ≤ p.dur

/-- half note with mordant + inv_grupetto + retarded: a piece 23/24 · 1/6 · … needs a denominator
beyond 1000, the rounded pieces sum to 692353/346176 ≠ 2 and the final assertion fails -/
def roundingWitness : Note :=
  { kind := .s, val := 0, oct := 0, dur := 2, tags := ["inv_grupetto", "mordant", "retarded"] }

theorem rounding_witness_fails : realizeTags limitDen roundingWitness none none = .error .assertion := by
  decide +kernel

theorem ornament_full_fails : ¬ Ornament_full := by
  intro h
  obtain ⟨y, hy, _⟩ := h roundingWitness none none (by decide +kernel) (by decide +kernel)
  rw [rounding_witness_fails] at hy
  cases hy

/-- two tags on a duration of the table: `s0.q7.roll_fast.retarded` (2/7: one roll of 1/6, a rest of 5/42,
then everything scaled by 17/24 — 85/1008 is not representable) -/
theorem rounding_witness_pair :
    (∃ kv ∈ Gen.STR_TO_DURATION, kv.2 = (2 : Rat) / 7) ∧
    realizeTags limitDen { kind := .s, val := 0, oct := 0, dur := 2 / 7, tags := ["retarded", "roll_fast"] }
      none none = .error .assertion := by
  refine ⟨⟨("q7", 2 / 7), by decide +kernel, rfl⟩, by decide +kernel⟩

/-- a single tag fails too once the note's own denominator is large: 1/999 with `suspension_prev` -/
theorem rounding_witness_single :
    realizeTags limitDen { kind := .s, val := 0, oct := 0, dur := 1 / 999, tags := ["suspension_prev"] }
      (some { kind := .s, val := 3, oct := 0 }) none = .error .assertion := by
  decide +kernel

end MV.C16
