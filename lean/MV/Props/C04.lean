/-
C04 — transposition is exact: modulation, octaves and their composition laws.

Only property statements and their proofs from the lemma files
`MV.Lemmas.{Transpose, RelShift, TransposeRender, TransposeOps}`.

Conventions.  `t.absDegree = t.deg + 12 * t.oct` is the interval of a tonality.  `shiftO D` adds `D`
to a pitch result (errors and `None` are kept), `shiftRow D b r` adds `D` to the pitch of a row of
the note matrix when `b` holds and changes nothing else, `Win x` is `-108 ≤ x ≤ 107` (the range in
which every reference has pitches of the implementation's ±10 octave search window on both sides;
the MIDI range is `-60 .. 67` in these units).  All theorems are for every chord (any degree,
figure, modifier list, tonality, octaves in ℤ), every note (any value / octave in ℤ) and every
score (any number of chords, parts, notes).
-/
import MV.Lemmas.TransposeOps

namespace MV.C04
open MV Gen

/-! ### 1. Tonality addition: associative, normalised, additive on intervals, neutral elements -/

/-- `(a + b) + c = a + (b + c)`, field by field, for all degrees (normalised or not) and octaves -/
theorem add_assoc (a b c : Tonality) : (a.add b).add c = a.add (b.add c) := Tonality.add_assoc' a b c

/-- the sum (and the difference) is always normalised: degree in `0..11` -/
theorem add_normalised (a b : Tonality) :
    (0 ≤ (a.add b).deg ∧ (a.add b).deg < 12) ∧ (0 ≤ (a.sub b).deg ∧ (a.sub b).deg < 12) := by
  simp only [Tonality.add, Tonality.sub]; omega

/-- intervals add up exactly (the octave carry is right) and the mode is the right operand's -/
theorem add_abs (a b : Tonality) :
    (a.add b).absDegree = a.absDegree + b.absDegree ∧ (a.add b).mode = b.mode :=
  ⟨Tonality.add_abs a b, rfl⟩

/-- `Tonality.__eq__` is "same interval and same mode" -/
theorem eqv_iff (a b : Tonality) : a.pyEq b = true ↔ (a.absDegree = b.absDegree ∧ a.mode = b.mode) :=
  Tonality.pyEq_iff a b

/-- hence an equivalence relation, and addition / subtraction respect it -/
theorem eqv_equivalence :
    (∀ a : Tonality, a.pyEq a = true) ∧ (∀ a b : Tonality, a.pyEq b = true → b.pyEq a = true) ∧
    (∀ a b c : Tonality, a.pyEq b = true → b.pyEq c = true → a.pyEq c = true) := by
  refine ⟨fun a => (eqv_iff a a).mpr ⟨rfl, rfl⟩, fun a b h => ?_, fun a b c h1 h2 => ?_⟩
  · obtain ⟨h1, h2⟩ := (eqv_iff a b).mp h; exact (eqv_iff b a).mpr ⟨h1.symm, h2.symm⟩
  · obtain ⟨h3, h4⟩ := (eqv_iff a b).mp h1
    obtain ⟨h5, h6⟩ := (eqv_iff b c).mp h2
    exact (eqv_iff a c).mpr ⟨h3.trans h5, h4.trans h6⟩

theorem add_respects_eqv (a a' b b' : Tonality) (ha : a.pyEq a' = true) (hb : b.pyEq b' = true) :
    (a.add b).pyEq (a'.add b') = true ∧ (a.sub b).pyEq (a'.sub b') = true := by
  obtain ⟨h1, h2⟩ := (eqv_iff a a').mp ha
  obtain ⟨h3, h4⟩ := (eqv_iff b b').mp hb
  refine ⟨(eqv_iff _ _).mpr ⟨?_, ?_⟩, (eqv_iff _ _).mpr ⟨?_, ?_⟩⟩
  · rw [Tonality.add_abs, Tonality.add_abs, h1, h3]
  · exact h4
  · rw [Tonality.sub_abs, Tonality.sub_abs, h1, h3]
  · exact h2

/-- `Tonality(0, any mode)` is a left neutral element, `Tonality(0, a.mode)` a right one (the mode of
a sum is the right operand's); exactly so on normalised tonalities, up to `==` in general -/
theorem add_neutral (a : Tonality) (md0 : Mode) :
    ((⟨0, md0, 0⟩ : Tonality).add a).pyEq a = true ∧ (a.add ⟨0, a.mode, 0⟩).pyEq a = true ∧
    ((0 ≤ a.deg ∧ a.deg < 12) → (⟨0, md0, 0⟩ : Tonality).add a = a ∧ a.add ⟨0, a.mode, 0⟩ = a) := by
  refine ⟨(eqv_iff _ _).mpr ⟨?_, rfl⟩, (eqv_iff _ _).mpr ⟨?_, rfl⟩, fun h => ?_⟩
  · rw [Tonality.add_abs]; simp [Tonality.absDegree]
  · rw [Tonality.add_abs]; simp [Tonality.absDegree]
  · obtain ⟨d, md, o⟩ := a
    simp only [Tonality.add] at *
    refine ⟨?_, ?_⟩ <;> (congr 1 <;> omega)

/-- subtraction: `a - b` is the interval from `b` to `a` (normalised, mode of `a`), so that
`b + (a - b) == a`; and `(a + b) - b` gives back the interval of `a` (with the mode of `b`, the
convention of `+`; it is `== a` exactly when the modes agree) -/
theorem sub_undoes_add (a b : Tonality) :
    (a.sub b).absDegree = a.absDegree - b.absDegree ∧ (a.sub b).mode = a.mode ∧
    (b.add (a.sub b)).pyEq a = true ∧
    ((a.add b).sub b).absDegree = a.absDegree ∧ ((a.add b).sub b).mode = b.mode ∧
    (a.mode = b.mode → ((a.add b).sub b).pyEq a = true) := by
  refine ⟨Tonality.sub_abs a b, rfl, (eqv_iff _ _).mpr ⟨?_, rfl⟩, ?_, rfl, fun hm => (eqv_iff _ _).mpr ⟨?_, ?_⟩⟩
  · rw [Tonality.add_abs, Tonality.sub_abs]; omega
  · rw [Tonality.sub_abs, Tonality.add_abs]; omega
  · rw [Tonality.sub_abs, Tonality.add_abs]; omega
  · exact hm.symm

/-- the other reading of "undone by subtraction": `(a + b) - b == a` for all `a b` -/
def SubUndoesAddRight_full : Prop := ∀ a b : Tonality, ((a.add b).sub b).pyEq a = true

/-- it fails exactly on the mode (the sum carries the mode of `b`): `(I.M + II.m) - II.m` is `I.m`.
The documented direction `b + (a - b) == a` and the interval are proved in `sub_undoes_add`. -/
theorem sub_undoes_add_right_fails : ¬ SubUndoesAddRight_full := by
  intro h
  have := h ⟨0, .M, 0⟩ ⟨2, .m, 0⟩
  revert this
  decide

/-- `.b` / `.s` (flat / sharp) move the tonic by exactly one semitone, carry the octave, keep the
mode and keep a normalised tonality normalised -/
theorem flat_sharp (t : Tonality) :
    t.flat.absDegree = t.absDegree - 1 ∧ t.sharp.absDegree = t.absDegree + 1 ∧
    t.flat.mode = t.mode ∧ t.sharp.mode = t.mode ∧
    ((0 ≤ t.deg ∧ t.deg < 12) → (0 ≤ t.flat.deg ∧ t.flat.deg < 12) ∧ (0 ≤ t.sharp.deg ∧ t.sharp.deg < 12)) := by
  by_cases h1 : t.deg - 1 = -1 <;> by_cases h2 : t.deg + 1 = 12 <;>
    simp only [Tonality.flat, Tonality.sharp, Tonality.absDegree, h1, h2, if_true, if_false] <;>
    refine ⟨by omega, by omega, trivial, trivial, fun h => by omega⟩

/-! ### 2. Modulation: what `%` does to a chord, and that successive modulations compose -/

/-- `c % t`: degree, figure and parts are kept, the chord octave is folded into the tonality
(result octave 0), the tonic moves by exactly the interval of `t` (plus the folded chord octave),
the mode becomes `t`'s, the tonality is normalised -/
theorem modulate_fields (c : Chord) (t : Tonality) :
    (c.modulate t).elem = c.elem ∧ (c.modulate t).ext = c.ext ∧ (c.modulate t).parts = c.parts ∧
    (c.modulate t).oct = 0 ∧ (c.modulate t).ton.mode = t.mode ∧
    (c.modulate t).ton.absDegree = c.ton.absDegree + 12 * c.oct + t.absDegree ∧
    (0 ≤ (c.modulate t).ton.deg ∧ (c.modulate t).ton.deg < 12) := by
  refine ⟨rfl, rfl, rfl, rfl, rfl, ?_, ?_⟩
  · simp only [Chord.modulate, Tonality.add, Tonality.absDegree]; omega
  · simp only [Chord.modulate, Tonality.add]; omega

/-- **`(c % a) % b = c % (a + b)`** — the same chord, field by field (also with a chord octave and
un-normalised operands) -/
theorem mod_mod (c : Chord) (a b : Tonality) : (c.modulate a).modulate b = c.modulate (a.add b) := by
  simp only [Chord.modulate, Tonality.add]
  congr 2 <;> omega

/-- the same for whole scores -/
theorem score_mod_mod (s : Score) (a b : Tonality) : (s.modulate a).modulate b = s.modulate (a.add b) := by
  unfold Score.modulate
  rw [List.map_map]
  apply List.map_congr_left
  intro c _; exact mod_mod c a b

/-- an `Element % t` is the chord of that degree in `t` itself -/
theorem element_modulate (e : Int) (t : Tonality) :
    (Element.modulate e t).elem = e ∧ (Element.modulate e t).ton.absDegree = t.absDegree ∧
    (Element.modulate e t).ton.mode = t.mode ∧ (Element.modulate e t).oct = 0 := by
  refine ⟨rfl, ?_, rfl, rfl⟩
  simp [Element.modulate, Tonality.absDegree]

/-! ### 3. Pitch level: chord-relative pitches move by exactly the interval, absolute ones stay -/

/-- **modulation moves every chord-relative pitch by exactly `t.absDegree`** (scale, chromatic,
chord-tone and bass-tone notes; any value, octave, accidental, figure and modifiers) when the
modulation keeps the chord's mode — or, for scale / chromatic notes, when the note carries its own
mode.  Errors (`KeyError` of an accidental …) are the same on both sides. -/
theorem modulate_shifts_pitch (c : Chord) (t : Tonality) (n : Note) (last last' : Int)
    (hk : n.kind = .s ∨ n.kind = .h ∨ n.kind = .c ∨ n.kind = .b)
    (hm : t.mode = c.ton.mode ∨ (n.mode.isSome = true ∧ (n.kind = .s ∨ n.kind = .h))) :
    noteToPitch (c.modulate t) n last' = shiftO t.absDegree (noteToPitch c n last) := by
  apply noteToPitch_shift t.absDegree c (c.modulate t) n last last' hk
  rcases hm with hm | ⟨hm, hk'⟩
  · exact Or.inl (shifted_modulate c t hm)
  · exact Or.inr ⟨shiftedH_modulate c t, hm, by rcases hk' with h | h <;> simp [h]⟩

/-- absolute notes, drum notes, rests, continuations and pattern notes are not touched by a
modulation (whatever the mode), nor by a chord / tonality octave -/
theorem modulate_fixes_absolute (c : Chord) (t : Tonality) (n : Note) (k last last' : Int)
    (hk : n.kind = .a ∨ n.kind = .d ∨ n.kind = .r ∨ n.kind = .l ∨ n.kind = .x) :
    noteToPitch (c.modulate t) n last' = noteToPitch c n last ∧
    noteToPitch (c.o k) n last' = noteToPitch c n last ∧
    noteToPitch { c with ton := c.ton.o k } n last' = noteToPitch c n last :=
  ⟨noteToPitch_fixed c _ n last last' hk, noteToPitch_fixed c _ n last last' hk,
   noteToPitch_fixed c _ n last last' hk⟩

/-- **relative notes follow**: if the previous pitch moved by the interval, so does the relative
note (all eight relative kinds), inside the window -/
theorem modulate_shifts_relative (c : Chord) (t : Tonality) (n : Note) (last r : Int)
    (hk : n.kind.isRelative = true)
    (hm : t.mode = c.ton.mode ∨ (n.mode.isSome = true ∧ (n.kind = .su ∨ n.kind = .sd)))
    (hr : noteToPitch c n last = .ok (some r))
    (w1 : Win last) (w2 : Win (last + t.absDegree)) (w3 : Win r) (w4 : Win (r + t.absDegree)) :
    noteToPitch (c.modulate t) n (last + t.absDegree) = .ok (some (r + t.absDegree)) := by
  apply noteToPitch_shift_rel t.absDegree c (c.modulate t) n last r hk _ hr w1 w2 w3 w4
  rcases hm with hm | ⟨hm, hk'⟩
  · exact Or.inl (shifted_modulate c t hm)
  · exact Or.inr ⟨shiftedH_modulate c t, hm, by rcases hk' with h | h <;> simp [h]⟩

/-- the pitch of a note on `Element % t` is its pitch on that degree of `Tonality(0, t.mode)` plus the
interval of `t` -/
theorem element_modulate_pitch (e : Int) (t : Tonality) (n : Note) (last last' : Int)
    (hk : n.kind = .s ∨ n.kind = .h ∨ n.kind = .c ∨ n.kind = .b) :
    noteToPitch (Element.modulate e t) n last'
      = shiftO t.absDegree (noteToPitch { elem := e, ton := ⟨0, t.mode, 0⟩ } n last) := by
  apply noteToPitch_shift t.absDegree _ _ n last last' hk
  refine Or.inl ⟨rfl, rfl, rfl, ?_⟩
  simp [Element.modulate, Chord.base', Tonality.absDegree]

/-! ### 4. Octaves are exactly 12 semitones -/

/-- raising the chord, or its tonality, by `k` octaves moves scale, chromatic, chord-tone and
bass-tone notes by exactly `12 k` -/
theorem chord_octave_shifts (c : Chord) (n : Note) (k last last' : Int)
    (hk : n.kind = .s ∨ n.kind = .h ∨ n.kind = .c ∨ n.kind = .b) :
    noteToPitch (c.o k) n last' = shiftO (12 * k) (noteToPitch c n last) ∧
    noteToPitch { c with ton := c.ton.o k } n last' = shiftO (12 * k) (noteToPitch c n last) := by
  constructor
  · exact noteToPitch_shift (12 * k) c (c.o k) n last last' hk (Or.inl (shifted_o c k))
  · apply noteToPitch_shift (12 * k) c _ n last last' hk
    refine Or.inl ⟨rfl, rfl, rfl, ?_⟩
    simp only [Chord.base', Tonality.o, Tonality.absDegree]; omega

/-- … and relative notes follow their reference by `12 k`, inside the window -/
theorem chord_octave_shifts_relative (c : Chord) (n : Note) (k last r : Int) (hk : n.kind.isRelative = true)
    (hr : noteToPitch c n last = .ok (some r))
    (w1 : Win last) (w2 : Win (last + 12 * k)) (w3 : Win r) (w4 : Win (r + 12 * k)) :
    noteToPitch (c.o k) n (last + 12 * k) = .ok (some (r + 12 * k)) ∧
    noteToPitch c n (last + 12 * k) = .ok (some (r + 12 * k)) :=
  ⟨noteToPitch_shift_rel (12 * k) c (c.o k) n last r hk (Or.inl (shifted_o c k)) hr w1 w2 w3 w4,
   noteToPitch_octave_rel c n last r k hk hr w1 w2 w3 w4⟩

/-- the kinds `Note.o` moves -/
def octaveKind (k : Kind) : Bool := k == .s || k == .h || k == .c || k == .b || k == .a

/-- **`n.o(k)` adds exactly `12 k`** to scale, chromatic, chord-tone, bass-tone and absolute notes;
relative notes, drum notes, rests and continuations are returned unchanged, and a pattern note has
no pitch before or after.  `Melody.o` does this to every note, keeping kind, value, duration,
amplitude, tempo, pedal, mode and accidental. -/
theorem note_octave_shifts (c : Chord) (n : Note) (k last : Int) :
    noteToPitch c (n.o k) last
      = (if octaveKind n.kind then shiftO (12 * k) (noteToPitch c n last) else noteToPitch c n last) ∧
    ((n.kind.isRelative = true ∨ n.kind = .d ∨ n.kind = .r ∨ n.kind = .l) → n.o k = n) ∧
    ((n.o k).kind = n.kind ∧ (n.o k).val = n.val ∧ (n.o k).dur = n.dur ∧ (n.o k).amp = n.amp ∧
      (n.o k).tempo = n.tempo ∧ (n.o k).pedal = n.pedal ∧ (n.o k).mode = n.mode ∧ (n.o k).acc = n.acc) := by
  refine ⟨?_, note_o_id n k, note_o_fields n k⟩
  by_cases ho : octaveKind n.kind = true
  · simp only [ho, if_true]
    apply noteToPitch_note_o c n k last last
    unfold octaveKind at ho
    simp only [Bool.or_eq_true, beq_iff_eq] at ho
    rcases ho with (((h | h) | h) | h) | h <;> simp [h]
  · simp only [ho, Bool.false_eq_true, if_false]
    have hcase : n.kind.isRelative = true ∨ n.kind = .d ∨ n.kind = .r ∨ n.kind = .l ∨ n.kind = .x := by
      unfold octaveKind at ho
      cases hk : n.kind <;> simp [hk, Kind.isRelative] at ho ⊢
    rcases hcase with h | h | h | h | h
    · rw [note_o_id n k (Or.inl h)]
    · rw [note_o_id n k (Or.inr (Or.inl h))]
    · rw [note_o_id n k (Or.inr (Or.inr (Or.inl h)))]
    · rw [note_o_id n k (Or.inr (Or.inr (Or.inr h)))]
    · have h1 : (n.o k).kind = .x := by rw [(note_o_fields n k).1]; exact h
      unfold noteToPitch; simp only [h1, h]

theorem melody_octave (m : Melody) (k : Int) : Melody.o m k = m.map (·.o k) := rfl

/-! ### 5. Render level: the note matrix after the operation -/

/-- the rule of modulation and chord octaves: `s h c b` move, relative notes must hang on a moved
reference -/
def chordRule : RefRule := ⟨isChordRel, false⟩

/-- the rule of `Score.o`: `s h c b a` move, a relative note hanging on a drum note / with no
reference simply stays -/
def noteRule : RefRule := ⟨fun k => isChordRel k || k == .a, true⟩

/-- kinds read relative to the chord: the four chord systems and the eight relative kinds -/
def chordRelative (k : Kind) : Bool := chordRule.movedKind k

theorem chordRelative_spec (k : Kind) :
    chordRelative k = (k == .s || k == .h || k == .c || k == .b || k.isRelative) := by
  cases k <;> rfl

/-- **render (s % t) = the rendering of `s` with exactly the chord-relative pitches moved by the
interval of `t`**; onsets, durations, velocities, tracks, rest / continuation flags, tempo and
pedal columns are unchanged.  Hypotheses: every note's system is kept by the modulation
(`ModeKept`: the chord has `t`'s mode, or the note carries its own mode, or it is an absolute /
drum / silent note); every relative note has a chord-relative reference (`chordRule.ok`); the
rendered pitches and their images are inside the window. -/
theorem render_modulate (s : Score) (t : Tonality) (rows : List Row)
    (hmode : ∀ c ∈ s, ∀ p ∈ c.parts, ∀ n ∈ p.2, ModeKept t c n)
    (href : chordRule.ok s = true)
    (h : getNotes s = .ok rows) (hw : ∀ r ∈ rows, RowWin t.absDegree r) :
    getNotes (s.modulate t)
      = .ok (List.zipWith (shiftRow t.absDegree) (s.matrixNotes.map (fun n => chordRelative n.kind)) rows) := by
  have := getNotes_transp (Tmod t) rfl s rows (good_Tmod t s hmode) href h hw
  rw [Tmod_score] at this
  rw [this]
  congr 2
  exact mask_of_ok chordRule rfl s href

/-- the render-level modulation law without the hypothesis on references -/
def RenderModulate_full : Prop :=
  ∀ (s : Score) (t : Tonality) (rows : List Row),
    (∀ c ∈ s, ∀ p ∈ c.parts, ∀ n ∈ p.2, ModeKept t c n) → getNotes s = .ok rows →
    (∀ r ∈ rows, RowWin t.absDegree r) →
    getNotes (s.modulate t)
      = .ok (List.zipWith (shiftRow t.absDegree) (s.matrixNotes.map (fun n => chordRelative n.kind)) rows)

def mixedScore : Score :=
  [{ elem := 0, ton := ⟨0, .M, 0⟩, parts := [("piano__0", [{ kind := .a, val := 7, oct := 0 }, { kind := .su, val := 1, oct := 0 }])] }]

/-- a relative note whose reference is an *absolute* note is neither chord-relative nor absolute:
`a7 + su1` in C major sounds 7, 9; modulated to D major it sounds 7, 9 again (9 is the next pitch of
D major above 7), not 7, 11.  This is why `render_modulate` asks for chord-relative references. -/
theorem render_modulate_needs_reference : ¬ RenderModulate_full := by
  intro h
  have := h mixedScore ⟨2, .M, 0⟩ [⟨7, 0, 1, 66, 0, false, false, none, none⟩, ⟨9, 1, 1, 66, 0, false, false, none, none⟩]
    (by decide) (by decide +kernel) (by decide)
  revert this
  decide +kernel

/-- **every chord raised by `k` octaves** (`c.o(k)` chord by chord): the same statement with `12 k`,
without any condition on modes -/
theorem render_chord_octave (s : Score) (k : Int) (rows : List Row)
    (href : chordRule.ok s = true)
    (h : getNotes s = .ok rows) (hw : ∀ r ∈ rows, RowWin (12 * k) r) :
    getNotes (s.chordsO k)
      = .ok (List.zipWith (shiftRow (12 * k)) (s.matrixNotes.map (fun n => chordRelative n.kind)) rows) := by
  have := getNotes_transp (TchordO k) rfl s rows (good_TchordO k s) href h hw
  rw [TchordO_score] at this
  rw [this]
  congr 2
  exact mask_of_ok chordRule rfl s href

/-- **`score.o(k)`**: on scores as `Chord.__call__` builds them (`CanonParts`), `Score.o` succeeds
and the note matrix is the one of `s` with `12 k` added to the rows `noteRule.mask` selects: the
`s h c b a` notes and the relative notes whose reference moved; drum notes, relative notes hanging
on a drum note or on no reference, rests and continuations keep their row.  No other
hypothesis than the window. -/
theorem render_score_octave (s : Score) (k : Int) (rows : List Row)
    (hcanon : ∀ c ∈ s, CanonParts c)
    (h : getNotes s = .ok rows) (hw : ∀ r ∈ rows, RowWin (12 * k) r) :
    ∃ s', s.o k = .ok s' ∧
      getNotes s' = .ok (List.zipWith (shiftRow (12 * k)) (noteRule.mask s) rows) := by
  refine ⟨(TscoreO k).score s, scoreO_canon s k hcanon, ?_⟩
  have hok : noteRule.ok s = true := by
    -- with `relFixed` every state is allowed
    have hm : ∀ (m : Melody) (st : RefSt), noteRule.okMelody m st = true := by
      intro m; induction m with
      | nil => intro _; rfl
      | cons n ns ih =>
        intro st
        simp only [RefRule.okMelody, RefRule.allowed, Bool.and_eq_true]
        exact ⟨by simp [noteRule], ih _⟩
    have ht : ∀ (t : String) (cs : Score) (st : RefSt), noteRule.okTrack t cs st = true := by
      intro t cs; induction cs with
      | nil => intro _; rfl
      | cons c cs ih =>
        intro st; simp only [RefRule.okTrack]
        cases c.parts.lookup t with
        | none => exact ih none
        | some m => simp [hm, ih]
    unfold RefRule.ok; rw [List.all_eq_true]; intro t _; exact ht t s none
  exact getNotes_transp (TscoreO k) rfl s rows (good_TscoreO k s) hok h hw

/-- when no part mixes drum notes with relative notes and every relative note has a reference,
`noteRule.mask` is simply "the kind is one of `s h c b a` or relative" -/
theorem score_octave_mask_simple (s : Score) (href : (⟨noteRule.mv, false⟩ : RefRule).ok s = true) :
    (⟨noteRule.mv, false⟩ : RefRule).mask s
      = s.matrixNotes.map (fun n => octaveKind n.kind || n.kind.isRelative) := by
  rw [mask_of_ok _ rfl s href]
  apply List.map_congr_left
  intro n _
  cases n.kind <;> rfl

/-- **timing is unchanged**: chord and score durations, and (by the three theorems above) every
onset / duration column of the note matrix -/
theorem durations_unchanged (s : Score) (t : Tonality) (k : Int) :
    (s.modulate t).map Chord.dur = s.map Chord.dur ∧ (s.chordsO k).map Chord.dur = s.map Chord.dur ∧
    ((TscoreO k).score s).map Chord.dur = s.map Chord.dur := by
  refine ⟨?_, ?_, ?_⟩
  · unfold Score.modulate; rw [List.map_map]; apply List.map_congr_left; intro c _; rfl
  · unfold Score.chordsO; rw [List.map_map]; apply List.map_congr_left; intro c _; rfl
  · unfold Transp.score; rw [List.map_map]; apply List.map_congr_left
    intro c _
    exact chord_dur_transp (TscoreO k) c (fun p _ n _ => (note_o_fields n k).2.2.1)

/-! ### 6. A melody placed on another chord keeps its written notes -/

/-- **`chord(**parts)` keeps the written notes**: for parts with distinct normal-form names whose
drum parts hold drum notes, the result has the chord's own degree / figure / tonality / octave and
exactly the given melodies, note for note (so every degree, octave, accidental and duration is the
written one, read on the new chord). -/
theorem call_keeps_symbols (c : Chord) (parts : List (String × Melody))
    (h : CanonParts { c with parts := parts }) :
    c.call parts = .ok { c with parts := parts } := by
  unfold Chord.call
  rw [preparse_canon c parts [] h.1 (by intro k _; simp) h.2]
  simp [bind, Except.bind, pure, Except.pure]

/-- the only rewriting `__call__` does: in a drum part a non-drum note becomes the drum note of its
pitch on that chord (`p % 12`, octave `p / 12`), which sounds the same pitch -/
theorem call_drum_conversion (c : Chord) (n n' : Note) (last : Int) (h : n.convertToDrum c = .ok n')
    (hk : n.kind ≠ .d ∧ n.kind ≠ .r ∧ n.kind ≠ .l) :
    ∃ p, c.toPitch n none = .ok (some p) ∧ n'.kind = .d ∧ noteToPitch c n' last = .ok (some p) ∧
      n'.dur = n.dur ∧ n'.amp = n.amp := by
  unfold Note.convertToDrum at h
  have hk' : (n.kind = .d || n.kind = .r || n.kind = .l) = false := by simp [hk.1, hk.2.1, hk.2.2]
  simp only [hk', Bool.false_eq_true, if_false, bind, Except.bind] at h
  cases hp : c.toPitch n none with
  | error e => simp [hp] at h
  | ok o =>
    cases o with
    | none => simp [hp] at h
    | some p =>
      simp only [hp, pure, Except.pure, Except.ok.injEq] at h
      subst h
      refine ⟨p, rfl, rfl, ?_, rfl, rfl⟩
      rw [C01.pitch_drum c _ last rfl]
      simp only
      congr 2; omega

/-- transposition invariance of the written degree: the same scale note placed on two chords sounds,
on each, the degree `elem + val` of that chord's scale (C01's closed form) — the written value is
never rewritten by `__call__`, `%`, `Chord.o`, `Tonality.o` -/
theorem same_symbol_other_chord (c : Chord) (n : Note) (last : Int) (hk : n.kind = .s) (ha : n.acc = none)
    (he : 0 ≤ c.elem ∧ c.elem < 7) :
    noteToPitch c n last = .ok (some (c.ton.deg + 12 * c.ton.oct + 12 * c.oct
        + degSemitone (SCALES (C01.effMode c n)) (c.elem.toNat + (n.val % 7).toNat)
        + 12 * (n.val / 7 + n.oct))) := C01.pitch_scale c n last hk ha he

/-! ### non-vacuity: concrete instances of the hypotheses, evaluated by the kernel -/

def exChord : Chord := { elem := 4, ext := { fig := .f65 }, ton := ⟨9, .m, -1⟩, oct := 1 }
def exTon : Tonality := ⟨10, .m, 1⟩

example : (⟨14, .m, 1⟩ : Tonality).add ⟨-3, .dorian, -2⟩ = ⟨11, .dorian, -1⟩ := by decide
example : (⟨2, .m, 1⟩ : Tonality).sub ⟨7, .M, 0⟩ = ⟨7, .m, 0⟩ := by decide
example : (⟨14, .m, 1⟩ : Tonality).pyEq ⟨2, .m, 2⟩ = true := by decide
-- a chord octave folded into the tonality, bass-tone note of an inverted seventh chord
example : noteToPitch exChord { kind := .b, val := 5, oct := -1 } 0 = .ok (some 23) := by decide +kernel
example : noteToPitch (exChord.modulate exTon) { kind := .b, val := 5, oct := -1 } 0 = .ok (some 45) := by
  decide +kernel
example : exTon.absDegree = 22 ∧ exTon.mode = exChord.ton.mode := by decide
-- a relative note following a moved reference
example : noteToPitch exChord { kind := .cu, val := 2, oct := 0 } 8 = .ok (some 14) := by decide +kernel
example : noteToPitch (exChord.modulate exTon) { kind := .cu, val := 2, oct := 0 } 30 = .ok (some 36) := by
  decide +kernel
example : Win 8 ∧ Win 30 ∧ Win 14 ∧ Win 36 := by decide

def exScore : Score :=
  [{ elem := 0, ton := ⟨0, .M, 0⟩, parts := [("piano__0", [{ kind := .s, val := 2, oct := 0 }, { kind := .l, val := 0, oct := 0 },
      { kind := .su, val := 1, oct := 0 }, { kind := .a, val := 7, oct := 0 }]), ("drums_0__0", [{ kind := .d, val := 3, oct := -1 }])] },
   { elem := 4, ton := ⟨0, .M, 0⟩, oct := -1, parts := [("piano__0", [{ kind := .r, val := 0, oct := 0 }, { kind := .c, val := 1, oct := 0 },
      { kind := .bd, val := 1, oct := 0 }])] }]

example : chordRule.ok exScore = true := by decide
example : ∀ c ∈ exScore, CanonParts c := by decide
example : ∀ c ∈ exScore, ∀ p ∈ c.parts, ∀ n ∈ p.2, ModeKept ⟨2, .M, 0⟩ c n := by decide
example : (getNotes exScore).map (·.map (·.pitch)) = .ok [4, 0, 5, 7, 0, -1, -5, -9] := by decide +kernel
example : (getNotes (exScore.modulate ⟨2, .M, 0⟩)).map (·.map (·.pitch)) = .ok [6, 0, 7, 7, 0, 1, -3, -9] := by
  decide +kernel
example : exScore.matrixNotes.map (fun n => chordRelative n.kind)
    = [true, false, true, false, false, true, true, false] := by decide
-- a relative note whose reference is an absolute note is outside the render claim
example : chordRule.ok [{ elem := 0, parts := [("piano__0", [{ kind := .a, val := 7, oct := 0 }, { kind := .su, val := 1, oct := 0 }])] }]
    = false := by decide

end MV.C04
