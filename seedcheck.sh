#!/bin/bash
# seedcheck.sh <seed-dir-name> [check-ids...] : run checks against a stored seeded patch in a private copy of /verif and /repo
sd=$1; shift; pid=${sd%%-*}; checks=${@:-$pid}
dst=/verif/seeded/$sd
run=/var/tmp/seedrun-$sd
rm -rf $run; mkdir -p $run/verif
(cd /verif && tar cf - --exclude=.git --exclude=evidence/replay --exclude=seeded .) | (cd $run/verif && tar xf -)
git -C /repo worktree add -q $run/repo HEAD
git -C $run/repo apply $dst/patch.diff || { echo "patch does not apply"; git -C /repo worktree remove --force $run/repo; exit 1; }
res=""
cd $run/verif
for c in $checks; do
  out=$(VERIF_REPO=$run/repo ./check $c 2>/dev/null); rc=$?
  nv=$(echo "$out" | grep -c "^VIOLATION")
  line=$(echo "$out" | grep "^VIOLATION" | head -1)
  nf=$(echo "$line" | grep -c "no-failing-input-found")
  res="$res $c:rc=$rc,violation_lines=$nv,failing_input=$((1-nf))"
  echo "  $sd: check $c -> rc=$rc $nv violation line(s)  $line"
done
cd /verif; git -C /repo worktree remove --force $run/repo; rm -rf $run
python3 - "$dst" "$res" <<'PY'
import json,sys
dst,res=sys.argv[1:3]
m=json.load(open(dst+'/meta.json'))
m.setdefault('confirmed',{})['checks']=res.strip()
json.dump(m,open(dst+'/meta.json','w'),indent=1)
PY
