#!/bin/bash
# integrate.sh Cxx : copy the property-specific files an agent produced in /var/tmp/ws-Cxx/verif into /verif
pid=$1
ws=/var/tmp/ws-$pid/verif
cd $ws
# files that do not exist in /verif (new) or belong to the property by name
find . -type f -not -path './lean/.lake/*' -not -path './evidence/*' -not -path './.git/*' -not -name '*.pyc' -not -path '*/__pycache__/*' | sort | while read f; do
  if [ ! -e /verif/$f ]; then
    mkdir -p /verif/$(dirname $f); cp -p $f /verif/$f; echo "new   $f"
  elif ! cmp -s $f /verif/$f; then
    case "$f" in
      *$pid*) cp -p $f /verif/$f; echo "upd   $f";;
      *) echo "DIFF  $f (not copied)";;
    esac
  fi
done
