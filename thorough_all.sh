#!/bin/bash
# thorough_all.sh : every registered thorough check once on the unchanged tree (development helper; prints rc and wall time)
cd "$(dirname "$0")"
[ -d lean/.lake ] || ./setup.sh >/dev/null 2>&1
for p in $(python3 -c "import json; print(' '.join(c['property_id'] for c in json.load(open('MANIFEST.json'))['checks']))"); do
  s=$(date +%s); out=$(VERIF_SEED=${VERIF_SEED:-0} ./check $p --tier thorough 2>&1); rc=$?; e=$(date +%s)
  echo "$p rc=$rc $((e-s))s $(echo "$out" | grep -c KNOWN-FINDING) kf $(echo "$out" | grep -v KNOWN-FINDING | tail -2 | cut -c1-300)"
done
