#!/bin/bash
# soak.sh [seeds...] : every registered quick check on the unchanged tree for several seeds; prints anything that is not OK
seeds=${@:-0 1 2 3 4}
for p in $(python3 -c "import json; print(' '.join(c['property_id'] for c in json.load(open('/verif/MANIFEST.json'))['checks']))"); do
  for s in $seeds; do
    out=$(VERIF_SEED=$s ./check $p 2>&1); rc=$?
    if [ $rc -ne 0 ]; then echo "== $p seed=$s rc=$rc"; echo "$out" | grep -v "^KNOWN-FINDING" | head -5 | cut -c1-300; fi
  done
  echo "done $p"
done
