#!/bin/sh
# private workspace for a source-tie agent: copy of /verif (with build output, own git baseline) and of /repo
set -e
id=$1
ws=/var/tmp/ws-$id
rm -rf $ws; mkdir -p $ws
cp -a /repo $ws/repo
mkdir $ws/verif
(cd /verif && tar cf - --exclude=.git --exclude=evidence/replay --exclude=seeded --exclude=design_probes .) | (cd $ws/verif && tar xf -)
cd $ws/verif && git init -q . && git add -A >/dev/null 2>&1 && git -c user.name=b -c user.email=b@b commit -qm baseline
echo $ws
