#!/bin/sh
# private workspace for building/testing one property in isolation: copies of /verif and /repo
set -e
id=$1
ws=/var/tmp/ws-$id
rm -rf $ws; mkdir -p $ws
cp -a /repo $ws/repo
mkdir $ws/verif
(cd /verif && tar cf - --exclude=.git --exclude=evidence/replay .) | (cd $ws/verif && tar xf -)
echo $ws
