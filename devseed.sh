#!/bin/bash
# devseed.sh <seed-dir-name> <check> [extra args] : like seedcheck.sh but keeps the private copy (/var/tmp/dev-<seed>) for inspection;
# `devseed.sh -c <seed>` removes it
if [ "$1" = "-c" ]; then git -C /repo worktree remove --force /var/tmp/dev-$2/repo; rm -rf /var/tmp/dev-$2; exit 0; fi
sd=$1; c=$2; shift 2
run=/var/tmp/dev-$sd
if [ ! -d $run/repo ]; then
  mkdir -p $run/verif
  git -C /repo worktree add -q $run/repo HEAD
  git -C $run/repo apply /verif/seeded/$sd/patch.diff || exit 1
fi
rsync -a --exclude=.git --exclude=evidence/replay --exclude=seeded /verif/ $run/verif/
cd $run/verif && VERIF_REPO=$run/repo ./check $c "$@"
