import json,sys
pid=sys.argv[1]
n=sys.argv[2] if len(sys.argv)>2 else '1'
avoid=sys.argv[3] if len(sys.argv)>3 else ''
props={json.loads(l)['id']:json.loads(l) for l in open('/verif/properties.jsonl')}
p=props[pid]
wt=f'/tmp/seed-{pid}-{n}'
print(f"""You are helping to evaluate a verification tool by writing a realistic bug. You work ONLY inside the git worktree
{wt} (a checkout of the Python library MusicLang: a DSL for tonal music). Do not read or write anything under /verif
or /repo, and do not look for other copies of the project. No network. Run Python as: cd {wt} && PYTHONPATH={wt} /venv/bin/python ...

Here is a semantic property the library is supposed to satisfy:

Title: {p['title']}
Statement: {p['statement']}
Quantified over: {p['quantifier']['text']}
Code it is anchored in: {', '.join(p['anchors']['files'])}

TASK: make ONE small, realistic change to the library source (the kind of mistake or well-meant "simplification" a
maintainer could commit: an off-by-one, a flipped comparison, a wrong constant in a table, a dropped copy, a lost
normalisation, a changed default, two cooperating edits that each look fine alone) such that
 (a) the library still imports and the existing test suite still passes exactly as before:
     cd {wt} && PYTHONPATH={wt} /venv/bin/python -m pytest -q -p no:cacheprovider --timeout=900 tests 2>&1 | tail -3
     (run it before your change too: exactly the same tests must pass and the same tests fail after it);
 (b) the property above is violated on some input; and
 (c) the violation needs something SPECIFIC to manifest — an unusual but legal input (a particular mode, octave, negative
     value, rarely used figure or flag, a long/short duration, a part missing from a chord, a note right after a rest…),
     a multi-step sequence of operations, or an interaction of two sites — so that ordinary use and the test suite would
     not expose it at once. Do NOT break the common path (e.g. do not change the C major scale or every duration).

{('Another engineer already wrote this change, choose a DIFFERENT part of the code, clause of the property and kind of mistake: ' + avoid) if avoid else ''}

Deliver, in {wt}/SEED/ :
  - patch.diff   : `git -C {wt} diff` of your change to the library (only files under musiclang/; nothing under tests/);
  - demo.py      : a small stand-alone program that exits 0 on the ORIGINAL code and exits 1 (printing what it observed
                   and what the property requires) WITH your change; run it both ways to confirm
                   (switch with `git -C {wt} diff -- musiclang > /tmp/{pid}-{n}.diff; git -C {wt} apply -R /tmp/{pid}-{n}.diff` and `git -C {wt} apply /tmp/{pid}-{n}.diff`; do NOT use git stash, the stash is shared with other worktrees);
  - meta.json    : {{"property": "{pid}", "summary": "<one sentence>", "needs": "<what specific input/sequence makes it manifest>",
                    "files_changed": [...], "tests": "<the pytest tail line with the change applied>"}}.
Leave the change APPLIED in the worktree when you finish. Reply with the content of meta.json and the patch.""")
