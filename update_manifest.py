#!/usr/bin/env python3
"""keep MANIFEST.json's `technique` field in step with the source-tie groups each property module declares"""
import json, re
m = json.load(open('MANIFEST.json'))
for c in m['checks']:
    pid = c['property_id']
    src = open(f'harness/props/{pid}.py').read()
    mt = re.search(r"^SRC_TIE\s*=\s*(\[.*?\])", src, re.M)
    ties = eval(mt.group(1)) if mt else []
    if pid == 'C06':
        continue
    if ties:
        c['technique'] = ('Lean 4 proof over a functional model; model tied to the code twice: source images generated from the Python AST '
                          'on every run and proved equal to the model (py2lean, groups ' + ', '.join(ties) + ') + differential correspondence; '
                          'generated tables')
    else:
        c['technique'] = 'Lean 4 proof over a functional model + generated tables + differential correspondence'
json.dump(m, open('MANIFEST.json', 'w'), indent=1)
print('ok')
