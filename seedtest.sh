#!/bin/bash
# seedtest.sh <pid> <n> [check-ids...] : confirm a seeded change (demo fails with it / passes without, tests unchanged)
# and run the checks against it in a PRIVATE copy of /verif and /repo (never touches /repo itself)
pid=$1; n=$2; shift 2; checks=${@:-$pid}
wt=/tmp/seed-$pid-$n
dst=/verif/seeded/$pid-$n
run=/var/tmp/seedrun-$pid-$n
mkdir -p $dst
cp $wt/SEED/demo.py $wt/SEED/meta.json $dst/ 2>/dev/null
cd $wt
git diff -- musiclang > $dst/patch.diff
git apply -R $dst/patch.diff
PYTHONPATH=$wt /venv/bin/python SEED/demo.py >/dev/null 2>&1; d0=$?
git apply $dst/patch.diff
PYTHONPATH=$wt /venv/bin/python SEED/demo.py >/dev/null 2>&1; d1=$?
t=$(PYTHONPATH=$wt /venv/bin/python -m pytest -q -p no:cacheprovider --timeout=900 tests 2>&1 | tail -1)
echo "demo clean=$d0 mutated=$d1 ; tests: $t"
rm -rf $run; mkdir -p $run/verif
(cd /verif && tar cf - --exclude=.git --exclude=evidence/replay --exclude=seeded .) | (cd $run/verif && tar xf -)
git -C /repo worktree add -q $run/repo HEAD
git -C $run/repo apply $dst/patch.diff || { echo "patch does not apply"; git -C /repo worktree remove --force $run/repo; exit 1; }
res=""
cd $run/verif
for c in $checks; do
  out=$(VERIF_REPO=$run/repo ./check $c 2>/dev/null); rc=$?
  nv=$(echo "$out" | grep -c "^VIOLATION")
  line=$(echo "$out" | grep "^VIOLATION" | head -1)
  nf=$(echo "$line" | grep -c "no-failing-input-found")
  res="$res $c:rc=$rc,violation_lines=$nv,failing_input=$((1-nf))"
  echo "  check $c -> rc=$rc $nv violation line(s)  $line"
done
cd /verif; git -C /repo worktree remove --force $run/repo
rm -rf $run
python3 - "$dst" "$d0" "$d1" "$t" "$res" <<'PY'
import json,sys
dst,d0,d1,t,res=sys.argv[1:6]
m=json.load(open(dst+'/meta.json'))
m['confirmed']={'demo_exit_clean':int(d0),'demo_exit_mutated':int(d1),'tests_with_change':t,'checks':res.strip()}
json.dump(m,open(dst+'/meta.json','w'),indent=1)
PY
