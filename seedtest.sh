#!/bin/bash
# seedtest.sh <pid> <n> [check-ids...] : confirm a seeded change and run the checks against it
pid=$1; n=$2; shift 2; checks=${@:-$pid}
wt=/tmp/seed-$pid-$n
dst=/verif/seeded/$pid-$n
mkdir -p $dst
cp $wt/SEED/patch.diff $wt/SEED/demo.py $wt/SEED/meta.json $dst/ 2>/dev/null
cd $wt
# regenerate the patch from the worktree (authoritative)
git diff -- musiclang > $dst/patch.diff
git stash -q
PYTHONPATH=$wt /venv/bin/python SEED/demo.py >/dev/null 2>&1; d0=$?
git stash pop -q
PYTHONPATH=$wt /venv/bin/python SEED/demo.py >/dev/null 2>&1; d1=$?
t=$(PYTHONPATH=$wt /venv/bin/python -m pytest -q -p no:cacheprovider --timeout=900 tests 2>&1 | tail -1)
echo "demo clean=$d0 mutated=$d1 ; tests: $t"
cd /verif
git -C /repo apply $dst/patch.diff || { echo "patch does not apply"; exit 1; }
res=""
for c in $checks; do
  out=$(./check $c 2>/dev/null | grep -c "^VIOLATION")
  rc=$?
  line=$(./check $c --no-build 2>/dev/null | grep "^VIOLATION" | head -1)
  res="$res $c:violations=$out"
  echo "  check $c -> $out violation line(s)  $line"
done
git -C /repo checkout -- .
python3 - "$dst" "$d0" "$d1" "$t" "$res" <<'PY'
import json,sys
dst,d0,d1,t,res=sys.argv[1:6]
m=json.load(open(dst+'/meta.json'))
m['confirmed']={'demo_exit_clean':int(d0),'demo_exit_mutated':int(d1),'tests_with_change':t,'checks':res.strip()}
json.dump(m,open(dst+'/meta.json','w'),indent=1)
PY
