#!/bin/sh
# Build the framework from files on disk only (offline): regenerate the tables from /repo and
# compile the Lean project (models, drivers, theorem modules).
set -e
cd "$(dirname "$0")"
PYTHONPATH=${VERIF_REPO:-/repo} PYTHONDONTWRITEBYTECODE=1 /venv/bin/python harness/translate.py >/dev/null || true
cd lean
mods=$(ls MV/Props/*.lean MV/Drivers/*.lean 2>/dev/null | sed 's/\.lean$//; s#/#.#g')
lake build $mods || true
