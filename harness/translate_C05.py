"""Extra generated tables for C05 (text form): the note-valued attributes the evaluator knows by name.

Extracted *by value* from the live classes: every public property of `Note` / `NoteProperties` is
evaluated on a probe note and classified by what it changes:

* `NOTE_TAG_PROPERTIES`  : properties of class `Note` returning the note with exactly one more tag
  (name, tag) — the ornaments;
* `NOTE_MODE_PROPERTIES` : properties of `NoteProperties` returning the note with a per-note mode (name, mode);
* `NOTE_ACC_PROPERTIES`  : … with an accidental (name, accidental);
* `NOTE_PEDAL_PROPERTIES`: properties of class `Note` that set the pedal mark (name, 1/0).
The Lean side proves (by `decide`) that the hand-written tables of the evaluator (`ORNAMENTS`,
`Mode.ofStr?`, `Acc.ofStr?`, the two pedal names) are exactly these.
"""
import sys
sys.dont_write_bytecode = True
from translate import HEADER, lstr, Untranslatable


def _props(cls):
    return sorted(k for k, v in vars(cls).items() if isinstance(v, property) and not k.startswith('_'))


def gen_note_attrs():
    from musiclang import Note
    from musiclang.write.properties.note_properties import NoteProperties
    probe = Note('s', 3, 1, 1)
    tag_rows, pedal_rows, mode_rows, acc_rows = [], [], [], []
    for name in _props(Note):
        try:
            r = getattr(probe, name)
        except Exception:
            continue
        if not isinstance(r, Note) or r is probe:
            continue
        same = (r.type, r.val, r.octave, r.duration, r.mode, r.accident, r.amp, r.tempo) == \
               (probe.type, probe.val, probe.octave, probe.duration, probe.mode, probe.accident, probe.amp, probe.tempo)
        if same and len(r.tags) == 1 and r.pedal is None:
            tag_rows.append((name, next(iter(r.tags))))
        elif same and not r.tags and r.pedal in (True, False):
            pedal_rows.append((name, r.pedal))
    for name in _props(NoteProperties):
        try:
            r = getattr(probe.properties, name)
        except Exception:
            continue
        if not isinstance(r, Note):
            continue
        if r.mode is not None and r.accident is None:
            mode_rows.append((name, r.mode))
        elif r.accident is not None and r.mode is None:
            acc_rows.append((name, r.accident))
    if not tag_rows or not mode_rows or not acc_rows:
        raise Untranslatable('no note-valued properties found')
    o = [HEADER, 'namespace MV.Gen', '']

    def table(nm, doc, rows, f):
        o.append(f'/-- {doc} -/')
        o.append(f'def {nm} : List (String × String) := [' + ', '.join(f'({lstr(a)}, {f(b)})' for a, b in rows) + ']')
    table('NOTE_TAG_PROPERTIES', 'properties of class `Note` that add one tag: (name, tag)', tag_rows, lstr)
    table('NOTE_PEDAL_PROPERTIES', 'properties of class `Note` that set the pedal mark: (name, "1" / "0")', pedal_rows,
          lambda b: lstr('1' if b else '0'))
    table('NOTE_MODE_PROPERTIES', 'properties of `NoteProperties` that set the per-note mode: (name, mode)', mode_rows, lstr)
    table('NOTE_ACC_PROPERTIES', 'properties of `NoteProperties` that set the accidental: (name, accidental)', acc_rows, lstr)
    o.append('')
    o.append('end MV.Gen')
    return '\n'.join(o) + '\n'


GENERATORS = {'NoteAttrs': gen_note_attrs}
