"""Extra table generator of C17: `Metric.SIGNATURES` by value -> lean/MV/Gen/MetricTables.lean"""
import sys
sys.dont_write_bytecode = True
from translate import HEADER, lint, llist, Untranslatable


def gen_metric_tables():
    from musiclang.write.rhythm.metric import Metric
    sigs = list(Metric.SIGNATURES)
    for s in sigs:
        if not (isinstance(s, tuple) and len(s) == 2):
            raise Untranslatable(f'signature is not a pair: {s!r}')
    o = [HEADER, 'namespace MV.Gen', '']
    o.append('/-- `Metric.SIGNATURES` in list order (numerator, denominator) -/')
    o.append('def SIGNATURES : List (Int × Int) := ' + llist(sigs, lambda s: f'({lint(s[0])}, {lint(s[1])})'))
    o.append('')
    o.append('end MV.Gen')
    return '\n'.join(o) + '\n'


GENERATORS = {'MetricTables': gen_metric_tables}
