"""Source-tie group `SrcBetweenProject` (DESIGN.md §9.6): the functions of musiclang/write/time_utils/time_utils.py behind
harmonic projection against the model of MV/Model/Project.lean (C13).  That model cannot be imported together with
MV/Model/Slice.lean (group `SrcBetween`), and it abstracts from `Fraction.limit_denominator` (copies are the identity,
`Silence(d)` / `Continuation(d)` keep `d`; C13's ASSUMPTIONS) and from `Chord.preparse_named_melodies` (canonical part names,
no drums parts): the same functions are therefore translated a second time with these bindings.

  get_melody_between (modulo=False), get_chord_between (complete_if_missing=False), Score.get_chord_between,
  get_score_between, Score.get_score_between, put_on_same_chord (two nested `for`, `parts[name] += …` on a dict of `None`),
  Score.put_on_same_chord, project_on_score (`for … in enumerate`, `break` on `None`, `dict(…)` / `.update`)
"""
import sys
sys.dont_write_bytecode = True
from fractions import Fraction

NAME = 'SrcBetweenProject'
TU = 'musiclang.write.time_utils.time_utils:'
SC = 'musiclang.write.score:Score.'
COPY = {'Note': '{0}', 'Chord': '{0}'}      # MV/Model/Project.lean: copies are the identity on the model's values
ENTRIES = [
    dict(py=TU + 'get_melody_between', name='get_melody_between', lean='get_melody_between',
         params=[('voice', 'Melody'), ('start', 'Rat'), ('end', 'Rat')], ret='Melody',
         fixed={'modulo': ('false', 'Bool')}, copy=COPY),
    dict(py=TU + 'get_chord_between', name='get_chord_between', lean='get_chord_between',
         params=[('chord', 'Chord'), ('start', 'Rat'), ('end', 'Rat')], ret='Chord',
         fixed={'complete_if_missing': ('false', 'Bool')}, copy=COPY),
    dict(py=SC + 'get_chord_between', name='Score.get_chord_between', lean='Score_get_chord_between',
         params=[('self', 'Score'), ('chord', 'Chord'), ('start', 'Rat'), ('end', 'Rat')], ret='Chord',
         attr=('Score', 'get_chord_between')),
    dict(py=TU + 'get_score_between', name='get_score_between', lean='get_score_between',
         params=[('score', 'Score'), ('start', 'Rat'), ('end', 'Rat')], ret='Option Score', copy=COPY),
    dict(py=SC + 'get_score_between', name='Score.get_score_between', lean='Score_get_score_between',
         params=[('self', 'Score'), ('start', 'Rat'), ('end', 'Rat')], ret='Option Score',
         attr=('Score', 'get_score_between')),
    dict(py=TU + 'put_on_same_chord', name='put_on_same_chord', lean='put_on_same_chord',
         params=[('score', 'Score')], ret='Chord', copy=COPY),
    dict(py=SC + 'put_on_same_chord', name='Score.put_on_same_chord', lean='Score_put_on_same_chord',
         params=[('self', 'Score')], ret='Chord', attr=('Score', 'put_on_same_chord')),
    dict(py=TU + 'project_on_score', name='project_on_score', lean='project_on_score',
         params=[('score', 'Score'), ('score2', 'Score'), ('keep_score', 'Bool')], ret='Option Score', copy=COPY),
]
IMPORTS = ['MV.Model.PyBetween', 'MV.Model.Project', 'MV.Gen.SrcDur']
PRELUDE = [
    'open MV.Proj',
    '',
    '/-- `new_score += chord` (`Chord.__radd__(None)`, `Score.__add__(chord)`; copies are the identity here) -/',
    'def scoreAddChord (s : Option Score) (c : Chord) : Score :=',
    '  match s with',
    '  | none => [c]',
    '  | some s => s ++ [c]',
    '',
    '/-- `chord(**parts)`: the chord with these parts; a value still `None` raises (`None.to_melody()`) -/',
    'def callOpt (c : Chord) (parts : List (String × Option Melody)) : Res Chord := do',
    '  let ps ← parts.mapM (fun p => match p.2 with',
    '    | none => (.error .attr : Res (String × Melody))',
    '    | some m => pure (p.1, m))',
    '  pure { c with parts := ps }',
    '',
    '/-- `acc + m` where `acc` may still be `None`: `Melody.__radd__(None)` = `m.copy()`, `Melody.__add__` = the notes of both -/',
    'def melodyAddOpt (acc : Option Melody) (m : Melody) : Melody :=',
    '  match acc with',
    '  | none => m',
    '  | some a => a ++ m',
    '',
    '/-- `parts.get(name, note)` as the melody that `+` appends: the part, or the one-note melody of the default -/',
    'def partsGet (parts : List (String × Melody)) (k : String) (dflt : Note) : Melody :=',
    '  match parts.lookup k with',
    '  | some m => m',
    '  | none => [dflt]',
    '',
    '/-- `s.split(sep)` on the characters, for a non-empty separator: left to right, non-overlapping; `skip` counts the',
    'characters of a separator just found that are still to be passed over (structural, so that it evaluates in the kernel) -/',
    'def splitChars (sep : List Char) : List Char → List Char → Nat → List (List Char)',
    '  | [], cur, _ => [cur.reverse]',
    '  | _ :: cs, cur, skip + 1 => splitChars sep cs cur skip',
    '  | c :: cs, cur, 0 =>',
    '      if sep.isPrefixOf (c :: cs) then cur.reverse :: splitChars sep cs [] (sep.length - 1)',
    '      else splitChars sep cs (c :: cur) 0',
    '',
    '/-- `s.split(sep)` -/',
    'def pySplit (s sep : String) : List String := (splitChars sep.toList s.toList [] 0).map String.ofList',
    '',
    '/-- `int(s)` on the decimal strings `-?[0-9]+` (`ValueError` otherwise; Python accepts a few more spellings: blanks,',
    '`+`, `_` between digits, other Unicode digits) -/',
    'def pyIntOfStr (s : String) : Res Int :=',
    "  let ds := match s.toList with | '-' :: r => r | r => r",
    "  let neg := match s.toList with | '-' :: _ => true | _ => false",
    '  if ds.isEmpty || !ds.all Char.isDigit then .error .value',
    '  else',
    '    let n : Int := ds.foldl (fun a c => 10 * a + ((c.toNat - 48 : Nat) : Int)) 0',
    '    .ok (if neg then -n else n)',
    '',
]
HELPERS = ['MV.Lemmas.TieSrcBetweenProjectLemmas', 'MV.Model.PyBetween']
TIE = dict(gen=['SrcDur', 'SrcBetweenProject'], modules=['MV.Props.TieSrcBetweenProject'],
           kernels=['pgmb', 'pgcb', 'pgsb', 'posc', 'proj'], driver='SrcBetweenProject')


def extend_spec(sp):
    sp.fields[('Note', 'duration')] = ('dur', 'Rat')
    sp.ctors['Continuation'] = dict(ty='Note', order=['duration'], fields=[('duration', 'dur', 'Rat', None)], drop=[],
                                    wrap='(continuation {dur})')
    sp.ctors['Silence'] = dict(ty='Note', order=['duration'], fields=[('duration', 'dur', 'Rat', None)], drop=[],
                               wrap='(silence {dur})')
    sp.ctors['Melody'] = dict(ty='Melody', order=['notes'], fields=[('notes', 'notes', 'Melody', None)], drop=[], wrap='{notes}')
    sp.attrs[('Chord', 'instruments')] = ('({0}.parts.map (fun p => p.1))', 'List Str')
    sp.attrs[('Score', 'instruments')] = ('(instruments {0})', 'List Str')          # model: Proj.instruments (first appearance)
    sp.index_methods['Score'] = ('pyIndex {0} {1}', 'Int', 'Res Chord')              # score[i] for an int i
    sp.iters['Score'] = ('{0}', 'List Chord')                                        # Score.__iter__
    sp.methods[('Parts', 'get')] = ('(partsGet {0} {1} {2})', 'Melody')
    sp.methods[('Str', 'split')] = ('(pySplit {0} {1})', 'List Str')
    sp.binops[('None', 'Add', 'Chord')] = ('(scoreAddChord none {1})', 'Score')
    sp.binops[('Option Score', 'Add', 'Chord')] = ('(scoreAddChord {0} {1})', 'Score')
    sp.binops[('Option Melody', 'Add', 'Melody')] = ('(melodyAddOpt {0} {1})', 'Melody')
    sp.kwcalls[('Chord', 'Dict Str Note')] = ('({{ {0} with parts := {1}.map (fun p => (p.1, [p.2])) }} : Chord)', 'Chord')
    sp.kwcalls[('Chord', 'Dict Str (Option Melody)')] = ('callOpt {0} {1}', 'Res Chord')
    sp.kwcalls[('Chord', 'Dict Str Melody')] = ('({{ {0} with parts := {1} }} : Chord)', 'Chord')
    sp.kwcalls[('Chord', 'Parts')] = ('({{ {0} with parts := {1} }} : Chord)', 'Chord')
    sp.builtins['int'] = {('Str',): ('pyIntOfStr {0}', 'Res Int'), ('Int',): ('{0}', 'Int')}
    sp.builtins['dict'] = {('Parts',): ('{0}', 'Dict Str Melody')}
    sp.dict_ops['set'] = '(PyB.dictSet {0} {1} {2})'
    sp.dict_ops['update'] = '(PyB.dictUpdate {0} {1})'
    sp.option_unwrap = 'PyB.attrOf {0}'


# ----------------------------------------------------------------------------- kernel-level inputs (the domain of C13)

FAMILIES = [[Fraction(1), Fraction(1, 2), Fraction(1, 4), Fraction(3, 2), Fraction(2), Fraction(3, 4), Fraction(1, 8)],
            [Fraction(1, 3), Fraction(2, 3), Fraction(1), Fraction(1, 6), Fraction(1, 2), Fraction(1, 12)],
            [Fraction(1, 5), Fraction(2, 5), Fraction(1), Fraction(1, 2), Fraction(3, 10)],
            [Fraction(1, 7), Fraction(2, 7), Fraction(1), Fraction(3)],
            [Fraction(1), Fraction(2), Fraction(1, 2)],
            [Fraction(2, 5), Fraction(2, 7), Fraction(1, 3), Fraction(1), Fraction(1, 2), Fraction(3, 14)]]
SRC_PARTS = ('piano__0', 'violin__0', 'piano__1')
TGT_PARTS = ('cello__0', 'flute__0')


def _show_note(n):
    from core import frac_str
    amp = '-'
    if n.type not in ('r', 'l', 'd', 'x'):
        a = n.amp
        amp = frac_str(Fraction(*a.as_integer_ratio()) if isinstance(a, float) else Fraction(a))
    return f'({n.type} {int(n.val)} {int(n.octave)} {frac_str(n.duration)} {n.mode or "-"} {n.accident or "-"} {amp})'


def _show_melody(m):
    return '(' + ' '.join(_show_note(n) for n in m.notes) + ')'


def _show_chord(c):
    ext = c.extension.replace('(', '<').replace(')', '>') if c.extension else '""'
    parts = ' '.join(f'({k} {_show_melody(m)})' for k, m in c.score.items())
    t = c.tonality
    return f'({int(c.element)} {ext} {int(t.degree)} {t.mode} {int(t.octave)} {int(c.octave)} ({parts}))'


def _show_score(s):
    return 'None' if s is None else '(' + ' '.join(_show_chord(c) for c in s.chords) + ')'


def _src(rng, fam=None, n_chords=(1, 4), equal=None, parts=None):
    """sources as C13 draws them: one duration family (every partial sum keeps a denominator <= 1000), canonical part names,
    no drums part, parts absent from some chords, rests / continuations anywhere, all note systems"""
    import gen
    fam = fam if fam is not None else rng.choice(FAMILIES)
    kinds = gen.NONREL + (gen.REL if rng.random() < 0.4 else []) + (['d'] if rng.random() < 0.1 else [])
    parts = parts or SRC_PARTS[:rng.randint(1, 3)]
    equal = (rng.random() < 0.75) if equal is None else equal
    return gen.rand_score(rng, n_chords=n_chords, parts=parts, p_absent=0.25, kinds=kinds, equal_parts=equal, durs=fam,
                          p_rest=0.15, p_cont=0.2, vals=(0, 8), octs=(-1, 1), p_amp=0.4, n_notes=(1, 4)), fam


def _tgt(rng, fam, clash=False):
    import gen
    parts = TGT_PARTS[:rng.randint(1, 2)] + ((rng.choice(SRC_PARTS),) if clash else ())
    return gen.rand_score(rng, n_chords=(1, 4), parts=parts, p_absent=0.2, kinds=gen.NONREL, equal_parts=rng.random() > 0.1,
                          durs=fam, p_rest=0.15, p_cont=0.15, vals=(0, 8), octs=(-1, 1), p_amp=0.3, n_notes=(1, 3))


def _bounds(s):
    out, t = [Fraction(0)], Fraction(0)
    for c in s.chords:
        t += Fraction(c.duration)
        out.append(t)
    return out


def _window(rng, bs, fam):
    """cut points on the score's own grid: chord boundaries, boundaries shifted by a duration of the family, beyond, negative"""
    pts = sorted(set(bs + [rng.choice(bs) + rng.choice([-1, 1]) * rng.choice(fam) for _ in range(3)]
                     + [bs[-1] + 1, Fraction(-1, 2), Fraction(0)]))
    a, b = rng.choice(pts), rng.choice(pts)
    if rng.random() < 0.75 and a > b:
        a, b = b, a
    return a, b


def _bare(rng, s, p):
    """now and then a chord without parts (duration 0) / an empty score"""
    import gen
    from musiclang import Score
    if rng.random() < p:
        chords = list(s.chords)
        c, _t = gen.rand_chord(rng, ext=rng.choice(gen.PLAIN_INVERTIBLE), octaves=(-1, 1))
        chords.insert(rng.randint(0, len(chords)), c)
        return Score(chords)
    if rng.random() < p / 3:
        return Score([])
    return s


def cases(rng, kernel, n):
    """list of (request tail, impl string, jsonable input, buckets)"""
    from core import py_res, enc_chord, enc_score, enc_melody, frac_str
    import musiclang.write.time_utils.time_utils as TU
    out = []
    for _ in range(n):
        if kernel == 'pgmb':
            s, fam = _src(rng, n_chords=(1, 1), parts=('piano__0',))
            m = s.chords[0].score['piano__0']
            onsets = [Fraction(0)]
            for x in m.notes:
                onsets.append(onsets[-1] + Fraction(x.duration))
            a, b = _window(rng, onsets, fam)
            if rng.random() < 0.08 and m.notes:      # the `raise Exception` branch: a window that ends before it starts, inside a note
                i = rng.randrange(len(m.notes))
                a = onsets[i] + Fraction(m.notes[i].duration) / 2
                b = a - rng.choice(fam)
            out.append(([enc_melody(m), a, b], py_res(lambda: _show_melody(TU.get_melody_between(m, a, b))),
                        {'melody': str(m), 'a': frac_str(a), 'b': frac_str(b)},
                        ['a<b' if a < b else ('a=b' if a == b else 'a>b'), 'a-on' if a in onsets else 'a-off',
                         'b-on' if b in onsets else 'b-off', f'len={len(m.notes)}']))
        elif kernel == 'pgcb':
            s, fam = _src(rng, n_chords=(1, 1))
            s = _bare(rng, s, 0.06)
            c = rng.choice(s.chords) if s.chords else _src(rng, n_chords=(1, 1))[0].chords[0]
            a, b = _window(rng, [Fraction(0), Fraction(c.duration)], fam)
            out.append(([enc_chord(c), a, b], py_res(lambda: _show_chord(TU.get_chord_between(c, a, b))),
                        {'chord': str(c), 'a': frac_str(a), 'b': frac_str(b)},
                        ['a<b' if a < b else ('a=b' if a == b else 'a>b'), f'parts={len(c.score)}',
                         'unequal' if len({Fraction(m.duration) for m in c.score.values()}) > 1 else 'equal']))
        elif kernel == 'pgsb':
            s, fam = _src(rng)
            s = _bare(rng, s, 0.1)
            bs = _bounds(s)
            a, b = _window(rng, bs, fam)
            out.append(([enc_score(s), a, b], py_res(lambda: _show_score(TU.get_score_between(s, a, b))),
                        {'score': str(s), 'a': frac_str(a), 'b': frac_str(b)},
                        ['a<b' if a < b else ('a=b' if a == b else 'a>b'), 'a-on-boundary' if a in bs else 'a-inside',
                         'b-on-boundary' if b in bs else 'b-inside', f'chords={min(len(s.chords), 5)}',
                         'bare-chord' if any(len(c.score) == 0 for c in s.chords) else 'no-bare']))
        elif kernel == 'posc':
            s, fam = _src(rng)
            s = _bare(rng, s, 0.1)
            names = {k for c in s.chords for k in c.score}
            out.append(([enc_score(s)], py_res(lambda: _show_chord(TU.put_on_same_chord(s))), {'score': str(s)},
                        [f'chords={min(len(s.chords), 5)}', f'parts={len(names)}',
                         'absent' if any(k not in c.score for c in s.chords for k in names) else 'all-present',
                         'bare-chord' if any(len(c.score) == 0 for c in s.chords) else 'no-bare']))
        elif kernel == 'proj':
            s, fam = _src(rng)
            s = _bare(rng, s, 0.06)
            t = _bare(rng, _tgt(rng, fam if rng.random() < 0.7 else rng.choice(FAMILIES[:5]), clash=rng.random() < 0.3), 0.06)
            ks = rng.random() < 0.5
            bs, bt = _bounds(s), _bounds(t)
            # time_utils.project_on_score is given copies, as C13 does
            out.append(([enc_score(s), enc_score(t), ks],
                        py_res(lambda: _show_score(TU.project_on_score(s.copy(), t.copy(), keep_score=ks))),
                        {'src': str(s), 'tgt': str(t), 'keep_score': ks},
                        [f'keep_score={int(ks)}', 'src<tgt' if bs[-1] < bt[-1] else ('src=tgt' if bs[-1] == bt[-1] else 'src>tgt'),
                         'misaligned' if any(x not in bs for x in bt if x < min(bs[-1], bt[-1])) else 'aligned',
                         f'chords={min(len(s.chords), 5)}x{min(len(t.chords), 5)}']))
        else:
            raise KeyError(kernel)
    return out
