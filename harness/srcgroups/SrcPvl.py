"""Source-tie group `SrcPvl` (DESIGN.md §9.6), serving C19: the deterministic kernels of the re-voicing code.

Translated from the AST (py2lean):
  * `Chord.get_parsimonious_voice_leading` (chord.py) and `Score.get_parsimonious_voice_leading` (score.py; three typed
    instances, one per class of the `directions` argument: `None`, a string, a list);
  * `VoiceLeading.find_optimal_octaves` with its local recursion `recursive_correct_octave` (a closure over `self`: the
    configuration is passed as a leading argument of the lifted function; depth bound `rec_fuel`), `Melody.o`;
  * `VoiceLeading.get_candidate_at`, `get_current_pitch_at`, `get_corrected_note`, `get_movement`, `get_pitch_solution`
    (voice_leading.py; the last one a nested comprehension over `enumerate` whose entries can raise).
Not translated: everything that draws random numbers or scores a solution in floating point (`voices_optim`,
`optimize_rules`, `random_optim`, `eval_solution`, `crossing_and_unisson_score`; `get_problems` / `get_val` have no model
counterpart), `init` (numpy array construction, `astype`, masks, set iteration order) and `get_score` (it mutates the chords
of the copied score in place through the loop variable, which py2lean's value semantics cannot express).

Spec bindings (trusted; validated by the advisory `src:*` streams):
  * `chord.chord_notes`, `chord.bass_pitch`, `chord.to_root_extension()`, `chord.invert(k)`, `chord.get_inversion_index()` are the
    model functions `Chord.chordNotes`, `bassPitch`, `toRootExt`, `invert`, `inversionIndex` (source-tied in group `SrcExt`);
    `chord.o(k)`, `note.o(k)` are the source images of group `SrcOps`;
  * `round(a / b)` on ints with a positive literal divisor is the model's `roundHalfEven a b` (round half to even on the exact
    quotient): the float quotient is correctly rounded and the half-way points `k + 1/2` are exactly representable, so this is
    what Python computes for |a| < 2^52;
  * `x.copy()` is the identity on the model's values; `Chord.copy()` gives the copy a tonality object of its own
    (`spec.owned_attrs`), which is what makes `final_chord.tonality.octave = 0` invisible to the caller;
  * `chord.score` is the association list `parts` (names unique), `d[k] = v` on an existing key keeps its place;
  * `None + chord` / `score + chord` (`Chord.__radd__`, `Score.__add__`) append the chord (copies are the identity);
  * the numpy state of the optimiser: `self.val`, `self.octave`, `self.pitch` are integer matrices (`NpMat`, lists of rows),
    `self.candidates` a list of lists of lists; `m[i, j]` / `l[i]` wrap negative indices and raise `IndexError` out of range;
    a numpy integer scalar `x % 0` and `x // 0` give 0 (a warning, no exception); `a + b`, `12 * a` on matrices are element-wise
    and raise `ValueError` on a shape mismatch (no broadcasting in the model); `np.int16` wrap-around is not modelled.
"""
import sys
sys.dont_write_bytecode = True
from fractions import Fraction

NAME = 'SrcPvl'
IMPORTS = ['MV.Gen.SrcPitch', 'MV.Gen.SrcTonality', 'MV.Gen.SrcOps', 'MV.Model.VoiceLeading']
HELPERS = ['MV.Lemmas.TieSrcPvlLemmas']

CH = 'musiclang.write.chord:Chord.'
SC = 'musiclang.write.score:Score.'
ME = 'musiclang.write.melody:Melody.'
VL = 'musiclang.transform.composing.voice_leading:VoiceLeading.'

DIR = 'Option String'          # the `direction` argument: None or a string
DIRS = 'List (Option String)'  # a list of directions

PRELUDE = [
    '/-- `a / b` on ints with a positive literal divisor, kept as the pair (dividend, divisor): py2lean admits it only',
    'under `int(…)` and, in this group, under `round(…)` -/',
    'abbrev IntQuot := Int × Int',
    '',
    '/-- `round(a / b)`: the model\'s round-half-even on the exact quotient (what Python computes for |a| < 2^52) -/',
    'def roundQuot (q : IntQuot) : Int := roundHalfEven q.1 q.2',
    '',
    '/-- `direction == \'up\'` for a direction that is `None` or a string -/',
    'def dirEq (d : Option String) (s : String) : Bool := decide (d = some s)',
    '',
    '/-- the model\'s reading of a direction: `\'up\'`, `\'down\'`, anything else (`None`, another string) -/',
    'def dirOf (d : Option String) : Dir := if d = some "up" then .up else if d = some "down" then .down else .none',
    '',
    '/-- `[None] * n` as a list of directions (`n ≤ 0` gives the empty list) -/',
    'def nonesTimes (l : List (Option String)) (n : Int) : List (Option String) :=',
    '  (List.replicate n.toNat ()).flatMap (fun _ => l)',
    '',
    '/-- `[direction] * n` -/',
    'def strsTimes (l : List String) (n : Int) : List (Option String) :=',
    '  (List.replicate n.toNat ()).flatMap (fun _ => l.map some)',
    '',
    '/-- `d[k] = v` on a chord\'s parts (a dict kept as an association list): an existing key keeps its place -/',
    'def partsSet (ps : List (String × Melody)) (k : String) (m : Melody) : List (String × Melody) :=',
    '  if ps.any (fun p => p.1 == k) then ps.map (fun p => if p.1 == k then (k, m) else p) else ps ++ [(k, m)]',
    '',
    '/-- `None + chord` (`Chord.__radd__`: `Score([chord.copy()])`) and `score + chord` (`Score.__add__`) -/',
    'def scoreRadd (acc : Option Score) (c : Chord) : Score :=',
    '  match acc with',
    '  | none => [c]',
    '  | some s => s ++ [c]',
    '',
    '/-- numpy integer matrices (lists of rows) and numpy integer scalars -/',
    'abbrev NpMat := List (List Int)',
    'abbrev NpInt := Int',
    '',
    '/-- `m[i, j]` on a numpy matrix: negative indices count from the end, `IndexError` out of range -/',
    'def npIdx2 (m : NpMat) (ij : Int × Int) : Res NpInt := do',
    '  let r ← pyIndex m ij.1',
    '  pyIndex r ij.2',
    '',
    '/-- numpy integer scalar `x % n` / `x // n` with a Python int: 0 for `n = 0` (a RuntimeWarning, no exception) -/',
    'def npMod (x : NpInt) (n : Int) : NpInt := if n = 0 then 0 else Int.fmod x n',
    'def npFloorDiv (x : NpInt) (n : Int) : NpInt := if n = 0 then 0 else Int.fdiv x n',
    '',
    '/-- `k * m` on a numpy matrix -/',
    'def npScale (k : Int) (m : NpMat) : NpMat := m.map (fun r => r.map (fun x => k * x))',
    '',
    '/-- `enumerate(l)` -/',
    'def pyEnumerate {α : Type} (l : List α) : List (Int × α) := l.zipIdx.map (fun p => ((p.2 : Int), p.1))',
    '',
]


def extend_spec(sp):
    # ---- chords (model functions, source-tied in group SrcExt)
    sp.attrs.update({
        ('Chord', 'chord_notes'): ('Chord.chordNotes {0}', 'Res (List Note)'),
        ('Chord', 'bass_pitch'): ('Chord.bassPitch {0}', 'Res Int'),
        ('Melody', 'notes'): ('{0}', 'List Note'),
    })
    sp.methods.update({
        ('Chord', 'to_root_extension'): ('Chord.toRootExt {0}', 'Res Chord'),
        ('Chord', 'invert'): ('Chord.invert {0} {1}', 'Res Chord'),
        ('Chord', 'get_inversion_index'): ('Chord.inversionIndex {0}', 'Res Int'),
    })
    sp.fresh_methods |= {('Chord', 'o')}                        # `c = self.copy(); c.octave += octave; return c`
    sp.owned_attrs = {('Chord', 'tonality')}                    # `Chord.copy()`: `tonality=self.tonality.copy()`
    sp.binops[(DIR, 'Eq', 'Str')] = ('(dirEq {0} {1})', 'Bool')
    sp.builtins['round'] = {('IntQuot',): ('(roundQuot {0})', 'Int')}
    # ---- scores
    sp.ctors['Score'] = dict(ty='List Chord', order=['chords', 'config', 'tags'], fields=[('chords', 'chords', 'List Chord', None)],
                             drop=['config', 'tags'], wrap='{chords}')
    sp.ctors['Melody'] = dict(ty='Melody', order=['notes', 'nb_bars', 'tags'], fields=[('notes', 'notes', 'Melody', None)],
                              drop=['nb_bars', 'tags'], wrap='{notes}')
    sp.binops[('List Unit', 'Mult', 'Int')] = ('(nonesTimes {0} {1})', DIRS)
    sp.binops[('List String', 'Mult', 'Int')] = ('(strsTimes {0} {1})', DIRS)
    sp.builtins['zip'] = {(DIRS, 'List Chord'): ('(List.zip {0} {1})', 'List (Option String × Chord)'),
                          ('List String', 'List Bool'): ('(List.zip {0} {1})', 'List (String × Bool)')}
    # ---- the optimiser's configuration and state
    sp.attrs.update({
        ('VLCfg', 'fixed_voices'): ('{0}.fixed', 'List String'),
        ('VLCfg', 'change_octave_fixed'): ('{0}.change', 'List Bool'),
        ('VLState', 'candidates'): ('{0}.cands', 'List (List (List Int))'),
        ('VLState', 'pitch'): ('{0}.pitch', 'NpMat'),
        ('VLState', 'val'): ('{0}.val', 'NpMat'),
        ('VLState', 'octave'): ('{0}.oct', 'NpMat'),
    })
    sp.fields[('Chord', 'score')] = ('parts', 'Parts')
    sp.dict_types['Parts'] = dict(key='Str', val='Melody', items='List (String × Melody)', set='(partsSet {0} {1} {2})')
    sp.binops[('None', 'Add', 'Chord')] = ('(scoreRadd none {1})', 'Score')
    sp.binops[('Option Score', 'Add', 'Chord')] = ('(scoreRadd {0} {1})', 'Score')
    sp.index_methods['NpMat'] = ('npIdx2 {0} {1}', 'Int × Int', 'Res NpInt')
    sp.binops[('NpInt', 'Mod', 'Int')] = ('(npMod {0} {1})', 'NpInt')
    sp.binops[('NpInt', 'FloorDiv', 'Int')] = ('(npFloorDiv {0} {1})', 'NpInt')
    sp.builtins['int'] = {('NpInt',): ('{0}', 'Int'), ('Int',): ('{0}', 'Int')}
    # ---- get_pitch_solution / get_movement: numpy matrices as lists of rows
    sp.int_types |= {'NpInt'}
    sp.tuple_binder = 'p'          # the name this group's generated file was written with (merge of the py2lean forks)
    sp.binops[('NpMat', 'Add', 'NpMat')] = ('matZip (· + ·) {0} {1}', 'Res NpMat')       # element-wise; ValueError on a shape mismatch
    sp.binops[('Int', 'Mult', 'NpMat')] = ('(npScale {0} {1})', 'NpMat')
    sp.binops[('Int', 'Mult', 'NpInt')] = ('({0} * {1})', 'NpInt')
    sp.binops[('Int', 'Add', 'NpInt')] = ('({0} + {1})', 'NpInt')
    sp.builtins['enumerate'] = {('NpMat',): ('(pyEnumerate {0})', 'List (Int × List NpInt)'),
                                ('List NpInt',): ('(pyEnumerate {0})', 'List (Int × NpInt)')}
    sp.builtins['np.asarray'] = {('List (List NpInt)',): ('{0}', 'NpMat')}
    sp.globals['np'] = ('()', 'PyNp')
    sp.kw_methods[('PyNp', 'diff', (('axis', '(1 : Int)'),))] = ('(movement {1})', 'NpMat')


ENTRIES = [
    dict(py=CH + 'get_parsimonious_voice_leading', name='Chord.get_parsimonious_voice_leading',
         lean='Chord_get_parsimonious_voice_leading', params=[('self', 'Chord'), ('candidate', 'Chord'), ('direction', DIR)],
         ret='Chord', attr=('Chord', 'get_parsimonious_voice_leading')),
    dict(py=SC + 'get_parsimonious_voice_leading', name='Score.get_parsimonious_voice_leading:None',
         lean='Score_get_parsimonious_voice_leading_none',
         params=[('self', 'Score'), ('from_first', 'Bool'), ('directions', 'None')], ret='List Chord'),
    dict(py=SC + 'get_parsimonious_voice_leading', name='Score.get_parsimonious_voice_leading:str',
         lean='Score_get_parsimonious_voice_leading_str',
         params=[('self', 'Score'), ('from_first', 'Bool'), ('directions', 'Str')], ret='List Chord'),
    dict(py=SC + 'get_parsimonious_voice_leading', name='Score.get_parsimonious_voice_leading:list',
         lean='Score_get_parsimonious_voice_leading_list',
         params=[('self', 'Score'), ('from_first', 'Bool'), ('directions', DIRS)], ret='List Chord'),
    dict(py=ME + 'o', name='Melody.o', lean='Melody_o', params=[('self', 'Melody'), ('octave', 'Int')], ret='Melody',
         attr=('Melody', 'o')),
    dict(py=VL + 'find_optimal_octaves', name='VoiceLeading.find_optimal_octaves', lean='VoiceLeading_find_optimal_octaves',
         params=[('self', 'VLCfg'), ('score', 'Score')], ret='Option Score',
         nested={'recursive_correct_octave': dict(lean='VoiceLeading_recursive_correct_octave', params=[('chord', 'Chord')],
                                                  ret='Chord', closure=[('self', 'VLCfg')])}),
    dict(py=VL + 'get_candidate_at', name='VoiceLeading.get_candidate_at', lean='VoiceLeading_get_candidate_at',
         params=[('self', 'VLState'), ('idx_ins', 'Int'), ('idx_chord', 'Int')], ret='List Int',
         attr=('VLState', 'get_candidate_at')),
    dict(py=VL + 'get_current_pitch_at', name='VoiceLeading.get_current_pitch_at', lean='VoiceLeading_get_current_pitch_at',
         params=[('self', 'VLState'), ('idx_ins', 'Int'), ('idx_chord', 'Int')], ret='NpInt',
         attr=('VLState', 'get_current_pitch_at')),
    dict(py=VL + 'get_corrected_note', name='VoiceLeading.get_corrected_note', lean='VoiceLeading_get_corrected_note',
         params=[('self', 'VLState'), ('note', 'Note'), ('new_vals', 'NpMat'), ('idx_ins', 'Int'), ('idx_chord', 'Int')],
         ret='Note', attr=('VLState', 'get_corrected_note'), owned=['note']),
    dict(py=VL + 'get_movement', name='VoiceLeading.get_movement', lean='VoiceLeading_get_movement',
         params=[('self', 'VLState'), ('pitches', 'NpMat')], ret='NpMat', attr=('VLState', 'get_movement')),
    dict(py=VL + 'get_pitch_solution', name='VoiceLeading.get_pitch_solution', lean='VoiceLeading_get_pitch_solution',
         params=[('self', 'VLState'), ('dvals', 'NpMat')], ret='NpMat', attr=('VLState', 'get_pitch_solution')),
]

KERNELS = ['pvlc', 'pvls', 'pvloct', 'pvlrec', 'pvlmel', 'pvlnote', 'pvlsol', 'pvlmov']
TIE = dict(gen=['SrcRel', 'SrcPitch', 'SrcTonality', 'SrcOps', 'SrcPvl'], modules=['MV.Props.TieSrcPvl'], kernels=KERNELS,
           driver='SrcPvl')

# ------------------------------------------------------------------------------------------------ kernel-level inputs
DIRECTIONS = [None, None, 'up', 'down', 'up', 'down', 'Up', 'sideways', 'downward']      # any string is accepted by the code
PARTS = ['cello__0', 'viola__0', 'violin__0', 'flute__0']


def _show_head(c):
    return f'({int(c.element)} "{c.extension}" {int(c.tonality.degree)} {c.tonality.mode} {int(c.tonality.octave)} {int(c.octave)})'


def _show_heads(s):
    return '(' + ' '.join(_show_head(c) for c in s.chords) + ')'


def _pvl_chord(rng, plain):
    import gen
    ext = rng.choice(gen.PLAIN_INVERTIBLE) if plain else None
    x = rng.random()
    if x < 0.08:
        ext = rng.choice(['9', '11', '13', '5'])          # outside the two families of inversions: `to_root_extension` / `invert` raise
    c, text = gen.rand_chord(rng, ext=ext, octaves=((-4, 4) if rng.random() < 0.15 else (-2, 2)), max_mods=2)
    return c, text


def _first_note(rng, chord, wide=True):
    """a first note of one of the optimiser's systems (values beyond the system's size now and then), a rest or a continuation"""
    import gen
    from musiclang import Note, Silence, Continuation
    k = rng.choice(['s', 's', 'c', 'c', 'b', 'b', 'h', 'a', 'r', 'l', 'su', 'd'])
    d = rng.choice([Fraction(1), Fraction(1, 2), Fraction(2), Fraction(3, 2)])
    if k == 'r':
        return Silence(d)
    if k == 'l':
        return Continuation(d)
    n = {'s': 7, 'h': 12, 'a': 12}.get(k, 4)
    lo, hi = (-n - 2, 2 * n + 1) if (wide and rng.random() < 0.3) else (0, n - 1)
    note = Note(k, rng.randint(lo, hi), rng.randint(-2, 2), d)
    if k in 'sh' and rng.random() < 0.1:
        note.mode = rng.choice(gen.MODES)
    if rng.random() < 0.2:
        note.amp = rng.choice([30, 80, 110])
    return note


def _vl_score(rng, n_chords, far=0.3):
    """a progression with 0..4 parts per chord (some absent), chord octaves near and far from the middle"""
    import gen
    from musiclang import Score, Melody, Chord
    parts = PARTS[:rng.randint(1, 4)]
    chords = []
    for i in range(n_chords):
        c, _ = gen.rand_chord(rng, ext=(rng.choice(gen.PLAIN_INVERTIBLE) if rng.random() < 0.6 else None), octaves=(-2, 2), max_mods=2)
        x = rng.random()
        if x < far:
            c.octave = rng.randint(-6, 6)
        elif x < far + 0.05:
            c.octave = rng.choice([-40, 25, 60])             # many correction steps (far below the recursion limit)
        sc = {}
        for p in parts:
            if rng.random() < 0.15:
                continue
            sc[p] = Melody([_first_note(rng, c)] + [_first_note(rng, c, wide=False) for _ in range(rng.randint(0, 2))])
        chords.append(Chord(c.element, extension=c.extension, tonality=c.tonality, score=sc, octave=c.octave))
    return Score(chords), parts


def _cfg(rng, parts):
    """fixed voices (existing, now and then one that no chord has), `change_octave_fixed` of the same or another length"""
    fixed = []
    if rng.random() < 0.7:
        fixed = rng.sample(parts, rng.randint(1, min(2, len(parts))))
    if rng.random() < 0.06:
        fixed = fixed + ['tuba__0']
    x = rng.random()
    if x < 0.3:
        change = [True] * len(fixed)
    elif x < 0.65:
        change = [False] * len(fixed)
    else:
        change = [rng.random() < 0.5 for _ in fixed]
    if fixed and rng.random() < 0.08:
        change = change[:-1] if rng.random() < 0.5 else change + [False]      # `zip` stops at the shorter list
    return {'types': ['b', 'c', 's', 'h'], 'fixed': fixed, 'change': change}


def _make_vl(cfg):
    from musiclang.transform.composing import VoiceLeading
    return VoiceLeading(types=list(cfg['types']), fixed_voices=list(cfg['fixed']), change_octave_fixed=list(cfg['change']))


def _enc_cfg(cfg):
    return ['cfg', cfg['types'], cfg['fixed'], [1 if b else 0 for b in cfg['change']]]


def _bass(c):
    from core import py_res
    b = py_res(lambda: int(c.bass_pitch))
    return 'err' if b.startswith('ERR') else ('high' if int(b) > 6 else ('low' if int(b) <= -6 else 'in-range'))


def cases(rng, kernel, n):
    """list of (request tail, impl string, jsonable input, buckets)"""
    import gen, core
    from core import py_res, enc_note, enc_chord, enc_melody, enc_score, SX, sx
    from musiclang import Score
    out = []
    err = lambda impl: ['res=' + (impl[4:] if impl.startswith('ERR:') else 'ok')]
    if kernel == 'pvlc':
        for i in range(n):
            plain = rng.random() < 0.55
            a, ta = _pvl_chord(rng, plain)
            b, tb = _pvl_chord(rng, plain or rng.random() < 0.3)
            d = DIRECTIONS[i % len(DIRECTIONS)]
            impl = py_res(lambda: a.get_parsimonious_voice_leading(b, direction=d), _show_head)
            free = py_res(lambda: a.get_parsimonious_voice_leading(b, direction=None), _show_head)
            out.append(([enc_chord(a, ext_text=ta), enc_chord(b, ext_text=tb), d], impl,
                        {'a': a.to_code(), 'b': b.to_code(), 'dir': d},
                        [f'dir={d}', 'plain' if not any(ch in tb for ch in '([{') else 'mods', f'fig={core.split_ext(tb)[0]}',
                         'dir-branch' if impl != free else 'no-dir-branch'] + err(impl)))
    elif kernel == 'pvls':
        for i in range(n):
            k = rng.choice([0, 1, 1, 2, 2, 3, 3, 4, 5])
            plain = rng.random() < 0.7
            chords = [_pvl_chord(rng, plain)[0] for _ in range(k)]
            s = Score(chords)
            ff = rng.random() < 0.35
            x = i % 3
            if x == 0:
                dirs, spec = None, None
            elif x == 1:
                dirs = rng.choice(['up', 'down', 'up', 'down', 'sideways'])
                spec = ['all', dirs]
            else:
                m = max(k - 1, 0) if rng.random() < 0.85 else rng.randint(0, k + 1)
                dirs = [rng.choice(DIRECTIONS) for _ in range(m)]
                spec = ['list'] + dirs
            impl = py_res(lambda: s.get_parsimonious_voice_leading(from_first=ff, directions=dirs), _show_heads)
            out.append(([enc_score(s), ff, spec], impl,
                        {'score': [c.to_code() for c in chords], 'from_first': ff, 'directions': dirs},
                        [f'n={k}', f'ff={ff}', 'dirs=' + ('none' if dirs is None else 'str' if isinstance(dirs, str) else 'list')]
                        + err(impl)))
    elif kernel in ('pvloct', 'pvlrec'):
        show_opt = lambda r: 'None' if r is None else enc_score(r).s
        for i in range(n):
            k = 1 if kernel == 'pvlrec' else rng.choice([0, 1, 1, 2, 2, 3, 4])
            score, parts = _vl_score(rng, k)
            cfg = _cfg(rng, parts)
            vl = _make_vl(cfg)
            inp = {'score': enc_score(score).s, 'cfg': cfg}
            b = [f'chords={k}', f'fixed={len(cfg["fixed"])}', f'kept={sum(1 for f_, c_ in zip(cfg["fixed"], cfg["change"]) if not c_)}']
            if kernel == 'pvloct':
                impl = py_res(lambda: vl.find_optimal_octaves(score), show_opt)
                moved = (not impl.startswith('ERR')) and impl != show_opt(score if k else None)
                out.append(([_enc_cfg(cfg), 900, enc_score(score)], impl, inp, b + ['moved' if moved else 'same'] + err(impl)))
            else:
                ch = score.chords[0]
                fuel = rng.choice([900, 900, 900, 0, 1, 2])          # the depth bound of the lifted function (model and image only)
                if fuel != 900:
                    # Python's own bound (the recursion limit) is far away: compare only where the small bound suffices
                    steps = py_res(lambda: abs(int(ch.bass_pitch)) // 12 + 2)
                    if steps.startswith('ERR') or int(steps) > fuel:
                        fuel = 900
                impl = py_res(lambda: enc_chord(vl.find_optimal_octaves(Score([ch])).chords[0]).s)
                out.append(([_enc_cfg(cfg), fuel, enc_chord(ch)], impl, {'chord': enc_chord(ch).s, 'cfg': cfg, 'fuel': fuel},
                            b + ['bass=' + _bass(ch), f'fuel={fuel}'] + err(impl)))
    elif kernel == 'pvlmel':
        kinds = gen.NONREL + gen.REL + ['d', 'x', 'r', 'l']
        for i in range(n):
            m = gen.rand_melody(rng, n_notes=(0, 5), kinds=kinds, p_rest=0.15, p_cont=0.15)
            k = rng.choice([0, 1, -1, 2, -3, rng.randint(-9, 9)])
            out.append(([enc_melody(m), k], py_res(lambda: core._sx1(enc_melody(m.o(k)))), {'melody': str(m), 'k': k},
                        [f'len={len(m.notes)}', 'k=0' if k == 0 else ('k<0' if k < 0 else 'k>0')]))
    elif kernel == 'pvlnote':
        import numpy as np
        from musiclang.transform.composing import VoiceLeading
        show_note = lambda r: enc_note(r).s
        for i in range(n):
            op = ['note', 'note', 'cand', 'pitch'][i % 4]
            ni, nc = rng.choice([0, 1, 2, 2, 3, 3]), rng.choice([0, 1, 2, 2, 3, 3])
            cands = [[[rng.randint(-30, 40) for _ in range(rng.choice([0, 1, 3, 4, 7, 12]) if rng.random() < 0.9 else 0)]
                      for _ in range(nc)] for _ in range(ni)]
            if ni and nc and rng.random() < 0.1:
                cands[rng.randrange(ni)].pop()                                  # a ragged candidate table
            rows = ni if rng.random() < 0.85 else rng.randint(0, 3)
            cols = nc if rng.random() < 0.85 else rng.randint(0, 3)
            nv = [[rng.randint(-20, 30) for _ in range(cols)] for _ in range(rows)]
            pitch = [[rng.randint(-40, 60) for _ in range(cols)] for _ in range(rows)]
            ii = rng.randrange(ni) if (ni and rng.random() < 0.85) else rng.randint(0, 4)
            jj = rng.randrange(nc) if (nc and rng.random() < 0.85) else rng.randint(0, 4)
            note = gen.rand_note(rng, kinds=['s', 'c', 'b', 'h', 'a'], vals=(-9, 12), octs=(-2, 2), dur=gen.rand_duration(rng), p_amp=0.3)
            vl = VoiceLeading()
            vl.candidates = cands
            vl.pitch = np.asarray(pitch, dtype=np.int16).reshape((rows, cols))
            nva = np.asarray(nv, dtype=np.int16).reshape((rows, cols))

            def run():
                with np.errstate(all='ignore'):
                    if op == 'cand':
                        return core.show_ints(vl.get_candidate_at(ii, jj))
                    if op == 'pitch':
                        return str(int(vl.get_current_pitch_at(ii, jj)))
                    return show_note(vl.get_corrected_note(note.copy(), nva, ii, jj))
            impl = py_res(run)
            nb = len(cands[ii][jj]) if ii < len(cands) and jj < len(cands[ii]) else None
            out.append(([op, cands, pitch, enc_note(note), nv, ii, jj], impl,
                        {'op': op, 'cands': cands, 'pitch': pitch, 'note': enc_note(note).s, 'new_vals': nv, 'i': ii, 'j': jj},
                        [f'op={op}', 'nb=' + ('none' if nb is None else '0' if nb == 0 else '>0'),
                         'in-range' if (ii < rows and jj < cols) else 'out-of-range'] + err(impl)))
    elif kernel in ('pvlsol', 'pvlmov'):
        import numpy as np
        from musiclang.transform.composing import VoiceLeading
        show_mat = lambda m: '(' + ' '.join('(' + ' '.join(str(int(x)) for x in row) + ')' for row in m) + ')'
        for i in range(n):
            ni, nc = rng.choice([0, 1, 2, 2, 3, 3, 4]), rng.choice([0, 1, 2, 2, 3, 3, 4])
            if kernel == 'pvlmov':
                p_ = [[rng.randint(-40, 60) for _ in range(nc)] for _ in range(ni)]
                vl = VoiceLeading()
                arr = np.asarray(p_, dtype=np.int16).reshape((ni, nc))
                out.append(([p_], py_res(lambda: vl.get_movement(arr), show_mat), {'pitches': p_},
                            [f'rows={ni}', f'cols={nc}']))
                continue
            # candidates: the pitch systems of real chords (as `init` builds them) or arbitrary lists; now and then an empty
            # list (numpy: `x % 0 = 0`, then `[][0]`), a missing column, an extra or a missing row
            def cand():
                x = rng.random()
                if x < 0.5:
                    c, _ = gen.rand_chord(rng)
                    return [int(v) for v in rng.choice([c.scale_pitches, c.chord_pitches, c.chord_extension_pitches, c.chromatic_pitches])]
                if x < 0.98:
                    return [rng.randint(-30, 40) for _ in range(rng.randint(1, 8))]
                return []
            cands = [[cand() for _ in range(nc)] for _ in range(ni)]
            shape = 'ok'
            x = rng.random()
            if x < 0.05 and ni and nc:
                cands[rng.randrange(ni)].pop()
                shape = 'short-row'
            elif x < 0.1:
                cands.append([cand() for _ in range(nc)])
                shape = 'extra-row'
            elif x < 0.15 and ni:
                cands.pop()                      # fewer candidate rows than values: IndexError at the first entry of the row, if it has one
                shape = 'missing-row'
            val = [[rng.randint(-9, 20) for _ in range(nc)] for _ in range(ni)]
            oct_ = [[rng.randint(-2, 2) for _ in range(nc)] for _ in range(ni)]
            dsh = (ni, nc)
            if rng.random() < 0.08:
                dsh = (ni + rng.choice([1, 2]) + (1 if ni == 0 else 0), nc) if rng.random() < 0.5 else (ni, nc + rng.choice([1, 2]) + (1 if nc == 0 else 0))
                if 1 in dsh or 0 in dsh or ni <= 1 or nc <= 1:
                    dsh = (ni, nc)               # numpy would broadcast (or the matrices are empty): outside the model (documented)
            dv = [[rng.randint(-3, 3) for _ in range(dsh[1])] for _ in range(dsh[0])]
            vl = VoiceLeading()
            vl.candidates = cands
            # without instruments `init` builds arrays of shape (0,)
            vl.val = np.asarray(val, dtype=np.int16).reshape((ni, nc) if ni else (0,))
            vl.octave = np.asarray(oct_, dtype=np.int16).reshape((ni, nc) if ni else (0,))
            dva = np.asarray(dv, dtype=np.int16).reshape(dsh if dsh[0] else (0,))

            def run():
                with np.errstate(all='ignore'):
                    return show_mat(vl.get_pitch_solution(dva))
            impl = py_res(run)
            out.append(([cands, val, oct_, dv], impl, {'cands': cands, 'val': val, 'oct': oct_, 'dvals': dv},
                        [f'rows={ni}', f'cols={nc}', f'cands={shape}', 'dvals=' + ('same-shape' if dsh == (ni, nc) else 'other-shape'),
                         'empty-cand' if any(c == [] for r in cands for c in r) else 'no-empty-cand',
                         'beyond' if any(v + d < 0 or v + d >= 12 for rv, rd in zip(val, dv) for v, d in zip(rv, rd)) else 'within'] + err(impl)))
    else:
        raise KeyError(kernel)
    return out
