"""Plug-in source-tie groups (DESIGN.md §9.6).  One module per group `<Name>.py`, defining

  NAME      'SrcXyz'                      -- generated file lean/MV/Gen/SrcXyz.lean
  ENTRIES   [dict(py=, name=, lean=, params=, ret=, ...)]   -- as in translate_src.GROUPS; the optional keys (fixed, defaults, copy, owned,
                                             local_spec, nested, recursive, fuel, …) are listed at py2lean.translate_function
  IMPORTS   ['MV.Model.Xyz', ...]         -- Lean imports of the generated file (besides MV.Model.Py / MV.Model.Pitch)
  PRELUDE   [lean source lines]           -- optional, emitted before the translated definitions
  extend_spec(sp)                         -- optional: extra attrs / methods / ctors / subscripts bindings.  `sp` is the group's own
                                             copy of the Spec as the built-in groups left it (translate_src.make): bindings and translated
                                             functions of a plug-in are not seen by the other groups (py2lean.UNIONS alone is global)
  TIE       dict(gen=[...], modules=['MV.Props.TieXyz'], kernels=[...], driver='SrcXyz')   -- as in srctie.GROUPS
  cases(rng, kernel, n)                   -- kernel-level inputs: list of (request tail, impl string, jsonable input, buckets)
"""
import importlib, os, glob


def load():
    here = os.path.dirname(os.path.abspath(__file__))
    mods = []
    for p in sorted(glob.glob(os.path.join(here, '*.py'))):
        b = os.path.basename(p)[:-3]
        if b.startswith('_'):
            continue
        mods.append(importlib.import_module('srcgroups.' + b))
    return mods
