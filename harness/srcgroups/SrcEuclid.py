"""Source-tie group `SrcEuclid` (DESIGN.md §9.6), serving C17: the Euclidean rhythm generator and the metric grid operations of
musiclang/write/rhythm/utils_metric.py and metric.py, translated from their AST and proved equal to the model
`MV/Model/Metric.lean` (`MV/Props/TieSrcEuclid.lean`).

  bjorklund_algorithm              the `while True` loop (a definition by recursion on the bound `rec_fuel`, one unit per iteration),
                                   the local recursive `build` that reads `counts` / `remainders` and appends to `pattern` (a closure:
                                   the three lists become parameters, the pattern is threaded through), `pattern.index(1)`, the rotation
  Metric.duration                  `nb_bars * nom * frac(4, den)`
  Metric._nb_steps, Euclidian, euclidian
  Metric.reversed
  Metric.get_array_between         optional bounds, `//` on fractions, the cyclic comprehension
  Metric._apply_durations_to_melody   `for idx, (has_note, beat) in enumerate(...)` with `break`
  Metric.apply_to_melody           window, padding with rests, the correction of the last note, the assertion
  Metric.FromMelody, from_melody   `min` of the durations, the per-note loop that raises

Bindings (trusted, validated by the advisory `src:*` streams):
  * `Metric(...)` -> `Rhythm.Metric.mk?` (as the built-in group SrcMetric); `self.get_beat_durations(array)` and `melody.duration` are
    the images the built-in groups SrcMetric / SrcDur already translate and tie (`Src.Metric_get_beat_durations`, `Src.Melody_duration`);
  * `note.set_duration(q)` -> the model's `Rhythm.setDuration` (CPython's `limit_denominator` is modelled, tied by the `limit`
    stream of C17 and by SrcDurOps); `Silence(d)` -> `Py.silenceOf d`; `Melody(notes)` -> the note list; `melody.copy()` -> the list
    (only used in the message of the assertion);
  * `frac` = `fractions.Fraction` (checked on the live module); `//`, `%` on fractions -> `Py.ratFloorDiv`, `Py.ratMod`
    (ZeroDivisionError on 0); `min(list of fractions)` -> the model's `Rhythm.minRat` (first minimum, ValueError on `[]`);
  * a classmethod's `cls` and the global `Metric` used as a receiver are the unit value of type `MetricClass`; no attribute
    of it is bound, so any use other than calling a translated classmethod is refused;
  * `melody` is declared a `Melody`: the `isinstance(melody, Note)` / `(list, tuple)` branches of `apply_to_melody` are decided
    by that type (printed as comments in the generated file).
"""
import sys
sys.dont_write_bytecode = True
from fractions import Fraction as F

NAME = 'SrcEuclid'
IMPORTS = ['MV.Model.Metric', 'MV.Model.PyFrac', 'MV.Model.PyEuclid', 'MV.Gen.SrcDur', 'MV.Gen.SrcMetric']
HELPERS = ['MV.Lemmas.TieSrcEuclidLemmas', 'MV.Model.PyEuclid']
PRELUDE = [
    '/-- the class object `Metric` (the `cls` of a classmethod): nothing of it is observed -/',
    'abbrev MetricClass := Unit',
    '',
]
UM = 'musiclang.write.rhythm.utils_metric:'
MT = 'musiclang.write.rhythm.metric:Metric.'
SIG = 'Int × Int'
ENTRIES = [
    dict(py=UM + 'bjorklund_algorithm', name='bjorklund_algorithm', lean='bjorklund_algorithm',
         params=[('steps', 'Int'), ('pulses', 'Int')], ret='List Int',
         nested={'build': dict(lean='bjorklund_algorithm_build', params=[('level', 'Int')], ret='None',
                               captures=[('counts', 'List Int'), ('remainders', 'List Int')], mutates=[('pattern', 'List Int')])}),
    dict(py=MT + 'duration', name='Metric.duration', lean='Metric_duration', params=[('self', 'Metric')], ret='Rat',
         attr=('Metric', 'duration')),
    dict(py=MT + '_nb_steps', name='Metric._nb_steps', lean='Metric_nb_steps',
         params=[('self', 'MetricClass'), ('signature', SIG), ('tatum', 'Rat'), ('nb_bars', 'Int')], ret='Int',
         attr=('MetricClass', '_nb_steps')),
    dict(py=MT + 'Euclidian', name='Metric.Euclidian', lean='Metric_Euclidian',
         params=[('cls', 'MetricClass'), ('pulses', 'Int'), ('signature', SIG), ('tatum', 'Rat'), ('nb_bars', 'Int')], ret='Metric',
         attr=('MetricClass', 'Euclidian'), fuel=True),
    dict(py=MT + 'euclidian', name='Metric.euclidian', lean='Metric_euclidian', params=[('self', 'Metric'), ('pulses', 'Int')],
         ret='Metric', fuel=True),
    dict(py=MT + 'reversed', name='Metric.reversed', lean='Metric_reversed', params=[('self', 'Metric')], ret='Metric'),
    dict(py=MT + 'get_array_between', name='Metric.get_array_between', lean='Metric_get_array_between',
         params=[('self', 'Metric'), ('start', 'Option Rat'), ('end', 'Option Rat')], ret='List Int × Rat × Rat',
         attr=('Metric', 'get_array_between')),
    dict(py=MT + '_apply_durations_to_melody', name='Metric._apply_durations_to_melody', lean='Metric_apply_durations_to_melody',
         params=[('cls', 'MetricClass'), ('notes', 'List Note'), ('beat_durations', 'List (Bool × Rat)'), ('first_has_note', 'Bool'),
                 ('expand', 'Bool')], ret='Melody', attr=('Metric', '_apply_durations_to_melody')),
    dict(py=MT + 'apply_to_melody', name='Metric.apply_to_melody', lean='Metric_apply_to_melody',
         params=[('self', 'Metric'), ('melody', 'Melody'), ('expand', 'Bool'), ('start', 'Option Rat'), ('end', 'Option Rat')],
         ret='Melody', join_ifs=True),
    dict(py=MT + 'FromMelody', name='Metric.FromMelody', lean='Metric_FromMelody',
         params=[('cls', 'MetricClass'), ('melody', 'Melody'), ('signature', SIG), ('tatum', 'Option Rat'), ('nb_bars', 'Int')],
         ret='Metric', attr=('MetricClass', 'FromMelody'), defaults={'signature': ('((4 : Int), (4 : Int))', SIG)}),
    dict(py=MT + 'from_melody', name='Metric.from_melody', lean='Metric_from_melody', params=[('self', 'Metric'), ('melody', 'Melody')],
         ret='Metric'),
]
TIE = dict(gen=['Tables', 'MetricTables', 'SrcDur', 'SrcMetric', 'SrcEuclid'], modules=['MV.Props.TieSrcEuclid'],
           kernels=['eucl', 'egrid', 'eapply', 'efrom'], driver='SrcEuclid')


def extend_spec(sp):
    import fractions
    import musiclang.write.rhythm.metric as M
    if getattr(M, 'frac', None) is fractions.Fraction:
        sp.fraction_ctors.add('frac')
    # the class object
    sp.globals['Metric'] = ('()', 'MetricClass')
    sp.coercions[('Metric', 'MetricClass')] = '()'          # `self.classmethod(...)`: `cls` is `type(self)`
    # images of the built-in groups SrcMetric / SrcDur (registered by hand, so that nothing depends on the order of generation)
    sp.funs['Metric.get_beat_durations'] = dict(lean='Metric_get_beat_durations', params=[('self', 'Metric'), ('array', 'List Int')],
                                                ret='List (Bool × Rat) × Bool', pure=False, defaults={})
    sp.funs_by_attr[('Metric', 'get_beat_durations')] = 'Metric.get_beat_durations'
    sp.funs['Melody.duration'] = dict(lean='Melody_duration', params=[('self', 'Melody')], ret='Rat', pure=True, defaults={})
    sp.funs_by_attr[('Melody', 'duration')] = 'Melody.duration'
    # notes and melodies on the metric model
    sp.methods[('Note', 'set_duration')] = ('(Rhythm.setDuration {0} {1})', 'Note')
    sp.ctors['Silence'] = dict(ty='Note', order=['duration'], fields=[('duration', 'dur', 'Rat', None)], drop=[],
                               wrap='(Py.silenceOf {dur})')
    sp.ctors['Melody'] = dict(ty='Melody', order=['notes'], fields=[('notes', 'notes', 'Melody', None)], drop=[], wrap='{notes}')
    sp.attrs[('Melody', 'notes')] = ('{0}', 'List Note')
    sp.value_types = set(sp.value_types) | {'Melody'}
    sp.copy_template = {}
    sp.fresh_methods.add(('Metric', '_apply_durations_to_melody'))        # `return Melody(melody)`: a new object
    # fractions
    for a in ('Rat', 'Int'):
        ca = '{0}' if a == 'Rat' else '(({0} : Int) : Rat)'
        sp.binops[(a, 'FloorDiv', 'Rat')] = (f'Py.ratFloorDiv {ca} {{1}}', 'Res Int')
        sp.binops[(a, 'Mod', 'Rat')] = (f'Py.ratMod {ca} {{1}}', 'Res Rat')
    sp.binops[('List Int', 'Mult', 'Int')] = ('(Py.listMul {0} {1})', 'List Int')
    sp.binops[('List Note', 'Mult', 'Int')] = ('(Py.listMul {0} {1})', 'List Note')
    sp.builtins['min'] = {('List Rat',): ('Rhythm.minRat {0}', 'Res Rat')}


# ----------------------------------------------------------------------------- kernel-level inputs
# A kernel is a family of operations (one driver run per family and side); the operation is the first argument of a request.

ODD_SIGS = [(5, 4), (7, 8), (4, 0), (0, 4), (4, -4)]
ODD_TATUMS = [F(0), F(-1, 2), F(4, 1001), F(1, 1024), F(3, 1000), F(7, 3), F(1000), F(1, 1000)]


_GRIDS = {}


def _grids(C, max_steps):
    if max_steps not in _GRIDS:
        _GRIDS[max_steps] = C.grids(max_steps)      # the same list on every call (it only depends on the library's signature table)
    return _GRIDS[max_steps]


def _grid(rng, C, max_steps=48):
    """a grid the constructor accepts: (sig, tatum, nb, array)"""
    sig, t, nb, steps = rng.choice(_grids(C, max_steps))
    return sig, t, nb, C.rand_array(rng, steps)


def _metric(sig, t, nb, arr, tamper=None):
    from musiclang import Metric
    m = Metric(list(arr), tuple(sig), tatum=t, nb_bars=nb)
    for k, v in (tamper or {}).items():       # fields changed after construction (the object does not protect them)
        setattr(m, k, v)
    return m


def _show_window(r):
    from core import show_ints, frac_str
    return f'({show_ints(r[0])} {frac_str(r[1])} {frac_str(r[2])})'


def _point(rng, t, steps, total):
    """a window bound: on the tatum grid, on the half grid, off grid, negative, far beyond"""
    k = rng.random()
    if k < 0.5:
        return 'aligned', t * rng.randint(0, 2 * steps + 2)
    if k < 0.7:
        return 'half', t / 2 * rng.randint(0, 4 * steps)
    if k < 0.82:
        return 'offgrid', F(rng.randint(0, int(total * 7) + 7), rng.choice([3, 5, 7, 11, 1001]))
    if k < 0.9:
        return 'negative', -t * rng.randint(1, steps + 1) / rng.choice([1, 2])
    if k < 0.95:
        return 'zero', F(0)
    return 'beyond', total * rng.randint(2, 5) + t * rng.randint(0, 3)


def cases(rng, kernel, n):
    """list of (request tail, impl string, jsonable input, buckets)"""
    from core import py_res, show_ints, frac_str
    import props.C17 as C
    from musiclang import Metric
    from musiclang.write.rhythm.utils_metric import bjorklund_algorithm
    out = []
    sigs = C.signatures()
    for it in range(n):
        if kernel == 'eucl':
            op = ['bjork', 'bjork', 'nsteps', 'euclidian', 'euclidm'][it % 5]
            if op == 'bjork':
                k = rng.random()
                if k < 0.6:
                    st = rng.randint(1, 64)
                    pu = rng.randint(1, st)
                    kind = 'in-domain'
                elif k < 0.7:
                    st = rng.randint(65, 400)
                    pu = rng.choice([1, 2, st - 1, st, rng.randint(1, st), rng.randint(1, st)])
                    kind = 'large'
                elif k < 0.8:
                    st = rng.randint(0, 40)
                    pu = rng.choice([0, st, st + 1, st + rng.randint(1, 9)])
                    kind = 'boundary'
                else:
                    st, pu = rng.randint(-9, 12), rng.randint(-9, 3)
                    kind = 'negative-or-zero'
                impl = py_res(lambda: bjorklund_algorithm(st, pu), show_ints)
                out.append(([op, st, pu], impl, {'op': op, 'steps': st, 'pulses': pu},
                            [f'op={op}', kind, 'err=' + impl if impl.startswith('ERR') else 'ok',
                             'pulses>steps' if pu > st else ('pulses=steps' if pu == st else 'pulses<steps')]))
                continue
            odd = rng.random() < 0.25
            if odd:
                sig = rng.choice(sigs + ODD_SIGS)
                t = rng.choice(C.TATUMS + ODD_TATUMS)
                nb = rng.choice([1, 2, 3, 0, -1, 7])
                steps = None
            else:
                sig, t, nb, steps = rng.choice(_grids(C, 64))
            if op == 'nsteps':
                impl = py_res(lambda: int(Metric._nb_steps(tuple(sig), t, nb)), str)
                out.append(([op, list(sig), t, nb], impl, {'op': op, 'sig': list(sig), 'tatum': str(t), 'nb': nb},
                            [f'op={op}', 'odd' if odd else 'grid', 'err=' + impl if impl.startswith('ERR') else 'ok']))
                continue
            pu = rng.choice([0, 1, 2, 3, 5, -1, -3, 200]) if steps is None else \
                rng.choice([1, steps, rng.randint(1, steps), rng.randint(1, steps), rng.randint(1, steps), 0, steps + 1, -2])
            if op == 'euclidian':
                impl = py_res(lambda: Metric.Euclidian(pu, tuple(sig), t, nb_bars=nb).array, show_ints)
                out.append(([op, pu, list(sig), t, nb], impl, {'op': op, 'pulses': pu, 'sig': list(sig), 'tatum': str(t), 'nb': nb},
                            [f'op={op}', 'odd' if odd else 'grid', 'err=' + impl if impl.startswith('ERR') else 'ok']))
            else:
                sig, t, nb, arr = _grid(rng, C, 64)
                steps = len(arr)
                pu = rng.choice([1, steps, rng.randint(1, steps), rng.randint(1, steps), 0, steps + 1, -2])
                impl = py_res(lambda: _metric(sig, t, nb, arr).euclidian(pu).array, show_ints)
                out.append(([op, arr, list(sig), t, nb, pu], impl,
                            {'op': op, 'array': arr, 'sig': list(sig), 'tatum': str(t), 'nb': nb, 'pulses': pu},
                            [f'op={op}', 'err=' + impl if impl.startswith('ERR') else 'ok']))
        elif kernel == 'egrid':
            op = ['dur', 'rev', 'gab', 'gab', 'gab'][it % 5]
            sig, t, nb, arr = _grid(rng, C)
            steps = len(arr)
            total = nb * sig[0] * F(4, sig[1])
            inp = {'op': op, 'array': arr, 'sig': list(sig), 'tatum': str(t), 'nb': nb}
            if op == 'dur':
                impl = py_res(lambda: _metric(sig, t, nb, arr).duration, frac_str)
                out.append(([op, arr, list(sig), t, nb], impl, inp, [f'op={op}', f'sig={sig[0]}/{sig[1]}', f'nb={nb}']))
            elif op == 'rev':
                impl = py_res(lambda: _metric(sig, t, nb, arr).reversed().array, show_ints)
                out.append(([op, arr, list(sig), t, nb], impl, inp,
                            [f'op={op}', 'palindrome' if arr == arr[::-1] else 'asymmetric', f'steps={min(steps, 9)}']))
            else:
                ka, a = _point(rng, t, steps, total)
                kb, b = _point(rng, t, steps, total)
                if a > b and rng.random() < 0.8:
                    a, b, ka, kb = b, a, kb, ka
                k = rng.random()
                if k < 0.12:
                    a, ka = None, 'None'
                elif k < 0.24:
                    b, kb = None, 'None'
                elif k < 0.3:
                    a, b, ka, kb = None, None, 'None', 'None'
                tamper = {}
                k = rng.random()
                if k < 0.04:
                    tamper = {'tatum': F(0)}                    # ZeroDivisionError in `start // self.tatum`
                elif k < 0.08:
                    tamper = {'array': []}                      # `idx % len(self.array)` with an empty grid
                elif k < 0.12:
                    tamper = {'tatum': -t}                      # a negative tatum: the index range runs backwards
                tt = tamper.get('tatum', t)
                ar = tamper.get('array', arr)
                impl = py_res(lambda: _metric(sig, t, nb, arr, tamper).get_array_between(a, b), _show_window)
                out.append(([op, ar, list(sig), tt, nb, a, b], impl,
                            dict(inp, array=ar, tatum=str(tt), start=None if a is None else str(a), end=None if b is None else str(b)),
                            [f'op={op}', f'start={ka}', f'end={kb}', 'tampered=' + ','.join(tamper) if tamper else 'plain',
                             'err=' + impl if impl.startswith('ERR') else 'ok',
                             'none' if a is None or b is None else ('start<end' if a < b else 'start>=end')]))
        elif kernel == 'eapply':
            op = ['adm', 'atm', 'atm'][it % 3]
            specs, flavour = C.rand_melody_specs(rng)
            if rng.random() < 0.08:
                specs, flavour = [], 'empty'
            if op == 'adm':
                beats = [(rng.random() < 0.7, rng.choice(C.DURS + [F(0), F(1, 1001), F(5000, 7)]) * rng.randint(1, 3))
                         for _ in range(rng.choice([0, 1, 2, 3, 4, 6, 9, 14]))]
                first, ex = rng.random() < 0.6, rng.random() < 0.55
                impl = py_res(lambda: Metric._apply_durations_to_melody(C.mk_notes(specs), list(beats), first_has_note=first, expand=ex),
                              C.show_mel)
                out.append(([op, C.enc_specs(specs), [[b, d] for b, d in beats], first, ex], impl,
                            {'op': op, 'notes': specs, 'beats': [[b, str(d)] for b, d in beats], 'first': first, 'expand': ex},
                            [f'op={op}', f'expand={ex}', f'first={first}', f'mel={flavour}', f'beats={min(len(beats), 7)}',
                             'more-beats-than-notes' if len(beats) > len(specs) + 1 else 'enough-notes',
                             'err=' + impl if impl.startswith('ERR') else 'ok']))
                continue
            sig, t, nb, arr = _grid(rng, C, 32)
            steps = len(arr)
            total = nb * sig[0] * F(4, sig[1])
            ex = rng.random() < 0.7
            k = rng.random()
            if k < 0.35:
                a, b, ka, kb = None, None, 'None', 'None'
            else:
                ka, a = _point(rng, t, steps, total)
                kb, b = _point(rng, t, steps, total)
                if a > b and rng.random() < 0.9:
                    a, b, ka, kb = b, a, kb, ka
                if k < 0.45:
                    a, ka = None, 'None'
                elif k < 0.55:
                    b, kb = None, 'None'
            tamper = {}
            k = rng.random()
            if k < 0.03:
                tamper = {'tatum': F(0)}
            elif k < 0.06:
                tamper = {'array': []}
            elif k < 0.1:
                tamper = {'array': [rng.choice([0, 1, 1, 2, -1]) for _ in arr]}     # cells other than 0 / 1
            tt = tamper.get('tatum', t)
            ar = tamper.get('array', arr)
            impl = py_res(lambda: _metric(sig, t, nb, arr, tamper).apply_to_melody(C.mk_melody(specs), expand=ex, start=a, end=b), C.show_mel)
            aligned = all(x is None or (x / t).denominator == 1 for x in (a, b))
            out.append(([op, ar, list(sig), tt, nb, C.enc_specs(specs), ex, a, b], impl,
                        {'op': op, 'array': ar, 'sig': list(sig), 'tatum': str(tt), 'nb': nb, 'notes': specs, 'expand': ex,
                         'start': None if a is None else str(a), 'end': None if b is None else str(b)},
                        [f'op={op}', f'expand={ex}', f'start={ka}', f'end={kb}', f'mel={flavour}', 'aligned' if aligned else 'unaligned',
                         'tampered=' + ','.join(tamper) if tamper else 'plain', C.lead({'array': ar}),
                         'fewer-notes-than-pulses' if len(specs) < sum(ar) else 'enough-notes',
                         'err=' + impl if impl.startswith('ERR') else 'ok']))
        elif kernel == 'efrom':
            op = ['from', 'from', 'fromm'][it % 3]
            sig, t, nb, arr = _grid(rng, C)
            steps = len(arr)
            specs, flavour = C.rand_melody_specs(rng)
            tat = rng.choice([None, t, F(1, 4), F(1, 12)])
            k = rng.random()
            if k < 0.65:
                # a melody that fits the grid: run lengths that add up to `steps` tatums
                cuts = sorted(rng.sample(range(1, steps), min(steps - 1, rng.randint(0, 6)))) if steps > 1 else []
                lens = [b_ - a_ for a_, b_ in zip([0] + cuts, cuts + [steps])]
                kinds = C.PITCHED + ['d', 'x', 'r', 'l']
                specs = [(kd, 0 if kd in 'rl' else rng.randint(-3, 6), 0, str(l * t), None, None)
                         for l, kd in ((l, rng.choice(kinds)) for l in lens)]
                tat = rng.choice([t, t, None, t / 2 if steps * 2 <= 96 else t])
                flavour = 'fits'
            elif k < 0.72:
                specs, flavour = [], 'empty'
            if op == 'from':
                sg = rng.choice(sigs + ODD_SIGS) if rng.random() < 0.1 else sig
                nbb = rng.choice([0, -1, 2, 5]) if rng.random() < 0.1 else nb
                if rng.random() < 0.05:
                    tat = rng.choice([F(0), -t, F(1, 1001)])
                impl = py_res(lambda: Metric.FromMelody(C.mk_melody(specs), signature=tuple(sg), tatum=tat, nb_bars=nbb).array, show_ints)
                out.append(([op, C.enc_specs(specs), list(sg), tat, nbb], impl,
                            {'op': op, 'notes': specs, 'sig': list(sg), 'tatum': None if tat is None else str(tat), 'nb': nbb},
                            [f'op={op}', 'tatum=None' if tat is None else 'tatum=given', f'mel={flavour}', f'nb={nbb}',
                             'err=' + impl if impl.startswith('ERR') else 'ok']))
            else:
                impl = py_res(lambda: _metric(sig, t, nb, arr).from_melody(C.mk_melody(specs)).array, show_ints)
                out.append(([op, arr, list(sig), t, nb, C.enc_specs(specs)], impl,
                            {'op': op, 'array': arr, 'sig': list(sig), 'tatum': str(t), 'nb': nb, 'notes': specs},
                            [f'op={op}', f'mel={flavour}', 'err=' + impl if impl.startswith('ERR') else 'ok']))
        else:
            raise KeyError(kernel)
    return out
