"""Source-tie group `SrcDurOps` (DESIGN.md §9.6), serving C10: the duration operations of note.py / melody.py /
chord.py / score.py (augment, set_duration, +, *, copy, decompose_duration) translated from their AST and proved equal
to the duration model `MV/Model/Duration.lean` (`MV/Props/TieSrcDurOps.lean`).

Bindings added to the shared spec (trusted, validated by the advisory `src:*` streams):
  * `x.limit_denominator(k)` on a Fraction   -> the model's `limitDenominatorChecked k x` (CPython's algorithm is modelled
    and tied by the `limit` stream of C10, it is not translated from fractions.py); `LIMIT_DENOM` by value (Gen/Tables);
  * `frac(x)` / `frac(x, 1)` (= `fractions.Fraction`, checked on the live module) on an int, a Fraction or a float: the
    exact value; a float is carried as the exact rational value of the double (type `Float`, never converted silently);
  * `a / b` on Fractions (and Fraction / int, int / Fraction): `Py.ratDiv`, `ZeroDivisionError` on 0;
  * `x.copy()` on a note -> `Note.copy` of the model (`Note.__init__` re-limits the duration; tags / amp not modelled),
    on a chord -> the translated `Chord.copy`; only inside the functions of this group (entry key `copy`);
  * `Melody(notes, nb_bars=…, tags=…)`, `Score(chords, config=…, tags=…)` -> the note / chord list (the model has no bar count,
    tags, config); `Silence(d)` / `Continuation(d)` -> the model's `silence d` / `continuation d`;
  * `d in DURATION_TO_STR`, `DURATION_TO_STR.keys()` -> the table by value (Gen/Tables), numeric key equality;
  * `note.notes` (NoteProperties) -> `[note]`; `melody[::-1]` -> the reversed note list;
  * `chord(note)` -> the chord with the single part piano__0 = [note]; `chord(**parts, tags=…)` -> `Chord.withParts` of the model
    (`to_melody()` = copy of every part; part names already of the form name__idx and not drums — assumption of C10);
  * typed instances: the code branches on the Python type of `value` (`isinstance(value, float / int)`); one source image
    per type (`…` Fraction, `…_int`, `…_float`), the decision is printed as a comment in the generated file; operators are
    dispatched on the classes of the operands (`Note + Note`, `Note + Melody`, `None + x` = `x.__radd__(None)` …);
  * the local recursive function `_recurse` of `Note.decompose_duration` becomes a definition by structural recursion on an
    explicit depth bound `rec_fuel` (exhaustion = RecursionError); functions that reach it take the bound as first argument.
"""
import sys
sys.dont_write_bytecode = True
import py2lean

NAME = 'SrcDurOps'
IMPORTS = ['MV.Model.Duration', 'MV.Gen.SrcDur']
HELPERS = ['MV.Lemmas.TieSrcDurOpsLemmas']

NOTE = 'musiclang.write.note:Note.'
MEL = 'musiclang.write.melody:Melody.'
CH = 'musiclang.write.chord:Chord.'
SC = 'musiclang.write.score:Score.'
COPY = {'Note': '(Note.copy {0})'}
COPYC = {'Note': '(Note.copy {0})', 'Chord': '(Chord_copy {0})'}     # chords: the translated `Chord.copy`

ENTRIES = [
    dict(py=NOTE + 'augment', name='Note.augment', lean='Note_augment', params=[('self', 'Note'), ('value', 'Rat')],
         ret='Note', attr=('Note', 'augment'), copy=COPY),
    dict(py=NOTE + 'augment', name='Note.augment:int', lean='Note_augment_int', params=[('self', 'Note'), ('value', 'Int')],
         ret='Note', copy=COPY),
    dict(py=NOTE + 'augment', name='Note.augment:float', lean='Note_augment_float', params=[('self', 'Note'), ('value', 'Float')],
         ret='Note', copy=COPY),
    dict(py=NOTE + 'set_duration', name='Note.set_duration', lean='Note_set_duration', params=[('self', 'Note'), ('value', 'Rat')],
         ret='Note', attr=('Note', 'set_duration'), copy=COPY),
    dict(py=NOTE + 'set_duration', name='Note.set_duration:int', lean='Note_set_duration_int',
         params=[('self', 'Note'), ('value', 'Int')], ret='Note', copy=COPY),
    dict(py=NOTE + 'set_duration', name='Note.set_duration:float', lean='Note_set_duration_float',
         params=[('self', 'Note'), ('value', 'Float')], ret='Note', copy=COPY),
    dict(py=NOTE + '__add__', name='Note.__add__:Note', lean='Note_add_note', params=[('self', 'Note'), ('other', 'Note')],
         ret='Melody', binop=('Note', 'Add', 'Note'), copy=COPY),
    dict(py=NOTE + '__add__', name='Note.__add__:Melody', lean='Note_add_melody', params=[('self', 'Note'), ('other', 'Melody')],
         ret='Melody', binop=('Note', 'Add', 'Melody'), copy=COPY),
    dict(py=NOTE + 'decompose_duration', name='Note.decompose_duration', lean='Note_decompose_duration',
         params=[('self', 'Note')], ret='Note|Melody', attr=('Note', 'decompose_duration'), copy=COPY, fold=True,
         nested={'_recurse': dict(lean='Note_decompose_duration_recurse', params=[('note', 'Note')], ret='Note|Melody')}),
    dict(py=MEL + 'augment', name='Melody.augment', lean='Melody_augment', params=[('self', 'Melody'), ('value', 'Rat')],
         ret='Melody', attr=('Melody', 'augment'), copy=COPY),
    dict(py=MEL + 'set_duration', name='Melody.set_duration', lean='Melody_set_duration',
         params=[('self', 'Melody'), ('duration', 'Rat')], ret='Melody', attr=('Melody', 'set_duration'), copy=COPY),
    dict(py=MEL + 'copy', name='Melody.copy', lean='Melody_copy', params=[('self', 'Melody')], ret='Melody',
         attr=('Melody', 'copy'), copy=COPY),
    dict(py=MEL + '__add__', name='Melody.__add__:Melody', lean='Melody_add_melody',
         params=[('self', 'Melody'), ('other', 'Melody')], ret='Melody', binop=('Melody', 'Add', 'Melody'), copy=COPY),
    dict(py=MEL + '__add__', name='Melody.__add__:Note', lean='Melody_add_note',
         params=[('self', 'Melody'), ('other', 'Note')], ret='Melody', binop=('Melody', 'Add', 'Note'), copy=COPY),
    dict(py=NOTE + '__radd__', name='Note.__radd__:None', lean='Note_radd_none', params=[('self', 'Note'), ('other', 'None')],
         ret='Melody', rbinop=('None', 'Add', 'Note'), copy=COPY),
    dict(py=MEL + '__radd__', name='Melody.__radd__:None', lean='Melody_radd_none', params=[('self', 'Melody'), ('other', 'None')],
         ret='Melody', rbinop=('None', 'Add', 'Melody'), copy=COPY),
    dict(py=MEL + 'decompose_duration', name='Melody.decompose_duration', lean='Melody_decompose_duration',
         params=[('self', 'Melody')], ret='Melody', attr=('Melody', 'decompose_duration'), copy=COPY, fuel=True, typed_ops=True),
    dict(py=MEL + '__mul__', name='Melody.__mul__', lean='Melody_mul', params=[('self', 'Melody'), ('other', 'Int')],
         ret='Melody', copy=COPY),
    dict(py=NOTE + '__mul__', name='Note.__mul__', lean='Note_mul', params=[('self', 'Note'), ('other', 'Int')], ret='Melody',
         copy=COPY),
    # chords
    dict(py=CH + 'empty_score', name='Chord.empty_score', lean='Chord_empty_score', params=[('self', 'Chord')], ret='Bool',
         attr=('Chord', 'empty_score')),
    dict(py=CH + 'copy', name='Chord.copy', lean='Chord_copy', params=[('self', 'Chord')], ret='Chord', copy=COPY),
    dict(py=CH + 'augment', name='Chord.augment', lean='Chord_augment', params=[('self', 'Chord'), ('duration', 'Rat')],
         ret='Chord', attr=('Chord', 'augment'), copy=COPYC),
    dict(py=CH + 'set_duration', name='Chord.set_duration', lean='Chord_set_duration',
         params=[('self', 'Chord'), ('duration', 'Rat')], ret='Chord', attr=('Chord', 'set_duration'), copy=COPYC),
    dict(py=CH + 'decompose_duration', name='Chord.decompose_duration', lean='Chord_decompose_duration',
         params=[('self', 'Chord')], ret='Chord', attr=('Chord', 'decompose_duration'), copy=COPYC, fuel=True),
    dict(py=CH + '__mul__', name='Chord.__mul__', lean='Chord_mul', params=[('self', 'Chord'), ('other', 'Int')], ret='Score',
         copy=COPYC),
    dict(py=CH + '__add__', name='Chord.__add__:Chord', lean='Chord_add_chord', params=[('self', 'Chord'), ('other', 'Chord')],
         ret='Score', copy=COPYC),
    # scores
    dict(py=SC + 'copy', name='Score.copy', lean='Score_copy', params=[('self', 'Score')], ret='Score', attr=('Score', 'copy'),
         copy=COPYC),
    dict(py=SC + '__add__', name='Score.__add__:Score', lean='Score_add_score', params=[('self', 'Score'), ('other', 'Score')],
         ret='Score', binop=('Score', 'Add', 'Score'), copy=COPYC),
    dict(py=SC + '__add__', name='Score.__add__:Chord', lean='Score_add_chord', params=[('self', 'Score'), ('other', 'Chord')],
         ret='Score', binop=('Score', 'Add', 'Chord'), copy=COPYC),
    dict(py=SC + '__radd__', name='Score.__radd__:None', lean='Score_radd_none', params=[('self', 'Score'), ('other', 'None')],
         ret='Score', rbinop=('None', 'Add', 'Score'), copy=COPYC),
    dict(py=SC + '__mul__', name='Score.__mul__', lean='Score_mul', params=[('self', 'Score'), ('other', 'Int')],
         ret='Option Score', copy=COPYC, typed_ops=True),
    dict(py=SC + 'set_duration', name='Score.set_duration', lean='Score_set_duration',
         params=[('self', 'Score'), ('duration', 'Rat')], ret='Score', copy=COPYC),
    dict(py=SC + 'decompose_duration', name='Score.decompose_duration', lean='Score_decompose_duration',
         params=[('self', 'Score')], ret='Score', copy=COPYC, fuel=True),
]

PRELUDE = [
    '/-- a value that is a `Note` or a `Melody` at run time (`Note.decompose_duration`, `_recurse`) -/',
    'inductive NoteOrMelody where',
    '  | note (n : Note)',
    '  | melody (m : Melody)',
    '  deriving DecidableEq, Repr',
    '',
    '/-- `x.notes`: a melody\'s note list; on a note `NoteProperties.notes` = `Melody([note]).notes` -/',
    'def NoteOrMelody.notes : NoteOrMelody → List Note',
    '  | .note n => [n]',
    '  | .melody m => m',
    '',
    '/-- `l[i] = v` (negative indices count from the end, `IndexError` outside) -/',
    'def Py.setItem (l : List α) (i : Int) (v : α) : Res (List α) :=',
    '  let j := if i < 0 then i + (l.length : Int) else i',
    '  if j < 0 ∨ j ≥ (l.length : Int) then .error .index else .ok (l.set j.toNat v)',
    '',
    '/-- `a / b` on Fractions (also Fraction / int, int / Fraction): exact, `ZeroDivisionError` on 0 -/',
    'def Py.ratDiv (a b : Rat) : Res Rat := if b = 0 then .error .zerodiv else .ok (a / b)',
    '',
    '/-- `Fraction(a, b)` on ints: exact, `ZeroDivisionError` on a zero denominator -/',
    'def Py.frac2 (a b : Int) : Res Rat := if b = 0 then .error .zerodiv else .ok ((a : Rat) / (b : Rat))',
    '',
    '/-- `l * k` for a list and an int: `k` concatenated copies, `[]` for `k ≤ 0` -/',
    'def Py.listMul (l : List α) (k : Int) : List α := (List.replicate k.toNat l).flatten',
    '',
]


def extend_spec(sp):
    import fractions
    import musiclang.write.note as N
    import musiclang.write.melody as M
    # Fraction arithmetic of the standard library: bound to the model, not translated
    sp.methods[('Rat', 'limit_denominator')] = ('limitDenominatorChecked {1} {0}', 'Res Rat')
    sp.globals['LIMIT_DENOM'] = ('((Gen.LIMIT_DENOM : Nat) : Int)', 'Int')       # by value: Gen/Tables.lean
    if N.frac is fractions.Fraction and getattr(M, 'frac', fractions.Fraction) is fractions.Fraction:
        for name in ('frac', 'Fraction'):
            sp.calls[(name, ('Int',))] = ('(({0} : Int) : Rat)', 'Rat')
            sp.calls[(name, ('Rat',))] = ('{0}', 'Rat')
            sp.calls[(name, ('Int', 'Int'))] = ('Py.frac2 {0} {1}', 'Res Rat')
            sp.calls[(name, ('Float',))] = ('{0}', 'Rat')            # a float is carried as its exact value
    for a, b in (('Rat', 'Rat'), ('Rat', 'Int'), ('Int', 'Rat')):
        ca = '{0}' if a == 'Rat' else '(({0} : Int) : Rat)'
        cb = '{1}' if b == 'Rat' else '(({1} : Int) : Rat)'
        sp.binops[(a, 'Div', b)] = (f'Py.ratDiv {ca} {cb}', 'Res Rat')
    for lt in ('List Note', 'Melody'):
        sp.binops[(lt, 'Mult', 'Int')] = ('(Py.listMul {0} {1})', 'List Note')
    sp.fields[('Note', 'duration')] = ('dur', 'Rat')
    # decompose_duration
    py2lean.UNIONS['Note|Melody'] = ('NoteOrMelody', [('Note', 'note'), ('Melody', 'melody')])
    sp.globals['DURATION_TO_STR'] = ('Gen.DURATION_TO_STR', 'DurTable')                  # by value: Gen/Tables.lean
    sp.binops[('Rat', 'In', 'DurTable')] = ('(inDurTable {0})', 'Bool')                  # `d in DURATION_TO_STR` (numeric key equality)
    sp.methods[('DurTable', 'keys')] = ('({0}.map (fun p => p.1))', 'List Rat')
    sp.attrs[('Rat', 'denominator')] = ('({0}.den : Int)', 'Int')
    sp.attrs[('Rat', 'numerator')] = ('{0}.num', 'Int')
    sp.attrs[('Note', 'notes')] = ('[{0}]', 'List Note')          # NoteProperties.notes = Melody([note]).notes
    sp.methods[('Melody', '[::-1]')] = ('({0}.reverse)', 'Melody')                       # Melody.__getitem__(slice) = Melody(notes[slice])
    # chords and scores: `Chord.__call__` is bound to the model (modelled and tied by the C10 streams; part names are already
    # of the form name__idx and not drums, so `preparse_named_melodies` only applies `to_melody()` = copy to every part)
    sp.attrs[('Chord', 'extension')] = ('{0}.ext', 'Ext')
    sp.methods[('Parts', 'items')] = ('{0}', 'List (Str × Melody)')
    sp.ctors['Chord'] = dict(ty='Chord', order=['element', 'extension', 'tonality', 'score', 'octave', 'tags'],
                             fields=[('element', 'elem', 'Int', None), ('extension', 'ext', 'Ext', None),
                                     ('tonality', 'ton', 'Tonality', None), ('score', 'parts', 'Parts', None),
                                     ('octave', 'oct', 'Int', None)], drop=['tags'])
    sp.ctors['Score'] = dict(ty='Score', order=['chords', 'config', 'tags'], fields=[('chords', 'chords', 'List Chord', None)],
                             drop=['config', 'tags', 'time_signature', 'tempo'], wrap='{chords}')
    sp.ctors['Silence'] = dict(ty='Note', order=['duration'], fields=[('duration', 'dur', 'Rat', None)], drop=[],
                               wrap='(silence {dur})')
    # self(note): the note becomes `Melody([note])` (not copied) in piano__0; self(**parts): `to_melody()` copies every part
    sp.callables[('Chord', ('Note',))] = ('({{ {0} with parts := [("piano__0", [{1}])] }} : Chord)', 'Chord', ['tags'])
    sp.callables[('Chord', ('**List (String × Melody)',))] = ('(Chord.withParts {0} {1})', 'Chord', ['tags'])
    sp.ctors['Continuation'] = dict(ty='Note', order=['duration'], fields=[('duration', 'dur', 'Rat', None)],
                                    drop=[], wrap='(continuation {dur})')
    sp.ctors['Melody'] = dict(ty='Melody', order=['notes', 'nb_bars', 'tags'], fields=[('notes', 'notes', 'Melody', None)],
                              drop=['nb_bars', 'tags'], wrap='{notes}')


# kernels = families of operations (one driver run per family and side); the operation is the first argument of a request
FAMILIES = {
    'dnote': ['naug', 'naugi', 'naugf', 'nset', 'nseti', 'nsetf', 'nadd', 'naddm', 'nmul', 'ndec', 'ndec'],
    'dmelody': ['maug', 'mset', 'mcopy', 'maddm', 'maddn', 'mmul', 'mdec', 'mdec'],
    'dchord': ['ccopy', 'caug', 'cset', 'cdec', 'cmul', 'cadd'],
    'dscore': ['scopy', 'sadd', 'saddc', 'smul', 'sset', 'sdec'],
}
TIE = dict(gen=['Tables', 'SrcDur', 'SrcDurOps'], modules=['MV.Props.TieSrcDurOps'], kernels=list(FAMILIES), driver='SrcDurOps')


# ----------------------------------------------------------------------------- kernel-level inputs

def _C10():
    from props import C10
    return C10


def _frac_arg(rng, zero_ok=True):
    from fractions import Fraction as F
    x = rng.random()
    if x < 0.55:
        return F(rng.randint(0 if zero_ok else 1, 16), rng.choice([1, 2, 3, 4, 5, 6, 7, 8, 9, 12, 16]))
    if x < 0.7:
        return F(rng.randint(1, 2000), rng.randint(1, 2000))
    if x < 0.8:
        return F(rng.randint(1, 5000), rng.randint(1001, 4000))          # outside the 1/1000 resolution
    if x < 0.9:
        return F(-rng.randint(1, 8), rng.choice([1, 2, 3]))
    if x < 0.95:
        return F(0)
    return F(rng.randint(10 ** 5, 10 ** 7), rng.randint(1, 10 ** 6))     # large


def _den_class(d):
    k = d.denominator
    if k > 28:
        return 'den>28'
    for name, dens in (('binary', (1, 2, 4, 8, 16)), ('triplet', (3, 6, 12, 24)), ('quintuplet', (5, 10, 20)), ('septuplet', (7, 14, 28))):
        if k in dens:
            return name
    return 'other'


def cases(rng, kernel, n):
    """list of (request tail, impl string, jsonable input, buckets); `kernel` is a family or a single operation"""
    if kernel in FAMILIES:
        out = []
        for i in range(n):
            op = rng.choice(FAMILIES[kernel])
            tail, impl, inp, buckets = _cases(rng, op, 1)[0]
            out.append(([op] + list(tail), impl, {'op': op, **inp},
                        [f'op={op}'] + [b for b in buckets if not b.startswith(('kind', 'first='))]))
        return out
    return _cases(rng, kernel, n)


def _cases(rng, kernel, n):
    from fractions import Fraction as F
    from core import py_res, enc_note, enc_chord, frac_str
    C = _C10()
    out = []

    def den_bucket(q):
        return 'den<=1000' if F(q).denominator <= 1000 else 'den>1000'

    def sign(q):
        return 'zero' if q == 0 else ('neg' if q < 0 else 'pos')

    for i in range(n):
        prof = rng.choice(['domain', 'domain', 'wild'])
        if kernel in ('naug', 'naugi', 'naugf', 'nset', 'nseti', 'nsetf'):
            sp = C.rand_note_spec(rng, prof)
            nt = C.build_note(sp)
            if kernel in ('naug', 'nset'):
                v = _frac_arg(rng)
                enc, vb = v, [f'arg={sign(v)}', den_bucket(v)]
            elif kernel in ('naugi', 'nseti'):
                v = rng.choice([0, 1, 1, 2, 3, 4, 6, -1, -2, 10 ** 6, rng.randint(0, 12)])
                enc, vb = v, [f'arg={sign(v)}']
            else:
                v = rng.choice(C.FLOATS + [round(rng.random() * 4, rng.choice([1, 2, 3, 6])), -0.5, 1e9 + 0.5])
                enc, vb = F(*v.as_integer_ratio()), [f'arg={sign(v)}', den_bucket(F(*v.as_integer_ratio()))]
            f = (lambda: nt.augment(v)) if kernel.startswith('naug') else (lambda: nt.set_duration(v))
            out.append(([enc_note(nt), enc], py_res(f, C.show_note), {'note': sp, 'arg': repr(v)},
                        [f'kind={sp[0]}', 'dur:' + den_bucket(sp[3])] + vb))
        elif kernel in ('nadd', 'naddm'):
            sp = C.rand_note_spec(rng, prof)
            nt = C.build_note(sp)
            if kernel == 'nadd':
                sp2 = C.rand_note_spec(rng, prof)
                n2 = C.build_note(sp2)
                out.append(([enc_note(nt), enc_note(n2)], py_res(lambda: nt + n2, C.show_mel), {'note': sp, 'other': sp2},
                            [f'kind={sp[0]}', f'kind2={sp2[0]}']))
            else:
                ms = C.rand_melody_spec(rng, n=(0, 4), profile=prof)
                m = C.build_melody(ms)
                out.append(([enc_note(nt), [enc_note(x) for x in m.notes]], py_res(lambda: nt + m, C.show_mel),
                            {'note': sp, 'melody': ms}, [f'kind={sp[0]}', f'len={len(ms)}']))
        elif kernel == 'ndec':
            sp = C.rand_note_spec(rng, 'decomp', p_rest=0.1, p_cont=0.1)
            nt = C.build_note(sp)
            d = F(sp[3])
            out.append(([enc_note(nt)], py_res(lambda: nt.decompose_duration(), C.show_mel), {'note': sp},
                        ['figure=' + _den_class(d), f'kind={sp[0]}', f'dur={sign(d)}']))
        elif kernel == 'mdec':
            ms = C.rand_melody_spec(rng, n=(0, 4) if rng.random() < 0.3 else (1, 4), profile='decomp')
            m = C.build_melody(ms)
            out.append(([[enc_note(x) for x in m.notes]], py_res(lambda: m.decompose_duration(), C.show_mel), {'melody': ms},
                        [f'len={len(ms)}', 'first=' + (ms[0][0] if ms else '-')]))
        elif kernel in ('maug', 'mset', 'mcopy', 'maddm', 'maddn', 'mmul'):
            ms = C.rand_melody_spec(rng, n=(0, 5), profile=prof)
            m = C.build_melody(ms)
            e = [enc_note(x) for x in m.notes]
            lb = [f'len={len(ms)}', 'dur:' + ('den<=1000' if all(F(x[3]).denominator <= 1000 for x in ms) else 'den>1000')]
            if kernel == 'maug':
                v = _frac_arg(rng)
                out.append(([e, v], py_res(lambda: m.augment(v), C.show_mel), {'melody': ms, 'arg': frac_str(v)},
                            lb + [f'arg={sign(v)}', den_bucket(v)]))
            elif kernel == 'mset':
                v = _frac_arg(rng)
                total = sum((F(x[3]) for x in ms), F(0))
                out.append(([e, v], py_res(lambda: m.set_duration(v), C.show_mel), {'melody': ms, 'arg': frac_str(v)},
                            lb + [f'arg={sign(v)}', den_bucket(v), f'total={sign(total)}']))
            elif kernel == 'mcopy':
                out.append(([e], py_res(lambda: m.copy(), C.show_mel), {'melody': ms}, lb))
            elif kernel == 'maddm':
                ms2 = C.rand_melody_spec(rng, n=(0, 4), profile=prof)
                m2 = C.build_melody(ms2)
                out.append(([e, [enc_note(x) for x in m2.notes]], py_res(lambda: m + m2, C.show_mel),
                            {'melody': ms, 'other': ms2}, lb + [f'len2={len(ms2)}']))
            elif kernel == 'maddn':
                sp = C.rand_note_spec(rng, prof)
                nt = C.build_note(sp)
                out.append(([e, enc_note(nt)], py_res(lambda: m + nt, C.show_mel), {'melody': ms, 'note': sp},
                            lb + [f'kind={sp[0]}']))
            elif kernel == 'mmul':
                k = rng.choice([0, 1, 2, 3, 5, -1, -3, rng.randint(0, 8)])
                out.append(([e, k], py_res(lambda: m * k, C.show_mel), {'melody': ms, 'k': k}, lb + [f'k={sign(k)}']))
        elif kernel == 'nmul':
            sp = C.rand_note_spec(rng, prof)
            nt = C.build_note(sp)
            k = rng.choice([0, 1, 2, 3, 7, -1, -4, rng.randint(0, 6)])
            out.append(([enc_note(nt), k], py_res(lambda: nt * k, C.show_mel), {'note': sp, 'k': k}, [f'kind={sp[0]}', f'k={sign(k)}']))
        elif kernel in ('ccopy', 'caug', 'cset', 'cdec', 'cmul', 'cadd'):
            if kernel == 'cdec':
                sp = C.rand_chord_spec(rng, (0, 3) if rng.random() < 0.1 else (1, 3), (0, 3) if rng.random() < 0.06 else (1, 3), 'decomp')
            else:
                sp = C.rand_chord_spec(rng, (0, 3) if rng.random() < 0.25 else (1, 3), (0, 3) if rng.random() < 0.08 else (1, 4), prof)
            c = C.build_chord(sp)
            e = enc_chord(c, ext_text=sp['ext'])
            shape = ['empty-chord' if not sp['parts'] else f'parts={len(sp["parts"])}',
                     'empty-part' if any(not m for _, m in sp['parts']) else 'no-empty-part']
            if kernel == 'ccopy':
                out.append(([e], py_res(lambda: c.copy(), C.show_chord), {'chord': sp}, shape))
            elif kernel in ('caug', 'cset'):
                v = _frac_arg(rng)
                f = (lambda: c.augment(v)) if kernel == 'caug' else (lambda: c.set_duration(v))
                out.append(([e, v], py_res(f, C.show_chord), {'chord': sp, 'arg': frac_str(v)},
                            shape + [f'arg={sign(v)}', den_bucket(v)]))
            elif kernel == 'cdec':
                out.append(([e], py_res(lambda: c.decompose_duration(), C.show_chord), {'chord': sp}, shape))
            elif kernel == 'cmul':
                k = rng.choice([0, 1, 2, 3, -1, rng.randint(0, 5)])
                out.append(([e, k], py_res(lambda: c * k, C.show_score), {'chord': sp, 'k': k}, shape + [f'k={sign(k)}']))
            else:
                sp2 = C.rand_chord_spec(rng, (0, 2), (1, 3), prof)
                c2 = C.build_chord(sp2)
                out.append(([e, enc_chord(c2, ext_text=sp2['ext'])], py_res(lambda: c + c2, C.show_score),
                            {'chord': sp, 'other': sp2}, shape))
        elif kernel in ('scopy', 'sadd', 'saddc', 'smul', 'sset', 'sdec'):
            if kernel == 'sdec':
                sp = C.rand_score_spec(rng, (0, 2) if rng.random() < 0.1 else (1, 2), n_parts=(1, 2), n=(1, 3), profile='decomp')
            else:
                sp = C.rand_score_spec(rng, (0, 3) if rng.random() < 0.1 else (1, 3), n_parts=(0, 2) if rng.random() < 0.2 else (1, 2),
                                       n=(1, 3), profile=prof)
            sc = C.build_score(sp)
            e = C.enc_score_spec(sp)
            shape = [f'chords={len(sp)}', 'has-empty-chord' if any(not c['parts'] for c in sp) else 'no-empty-chord']
            if kernel == 'scopy':
                out.append(([e], py_res(lambda: sc.copy(), C.show_score), {'score': sp}, shape))
            elif kernel == 'sadd':
                sp2 = C.rand_score_spec(rng, (0, 2), n_parts=(1, 2), n=(1, 3), profile=prof)
                s2 = C.build_score(sp2)
                out.append(([e, C.enc_score_spec(sp2)], py_res(lambda: sc + s2, C.show_score), {'score': sp, 'other': sp2},
                            shape + [f'chords2={len(sp2)}']))
            elif kernel == 'saddc':
                csp = C.rand_chord_spec(rng, (0, 2), (1, 3), prof)
                c = C.build_chord(csp)
                out.append(([e, enc_chord(c, ext_text=csp['ext'])], py_res(lambda: sc + c, C.show_score),
                            {'score': sp, 'chord': csp}, shape))
            elif kernel == 'smul':
                k = rng.choice([0, 1, 2, 3, -1, rng.randint(0, 4)])
                out.append(([e, k], py_res(lambda: sc * k, C.show_score), {'score': sp, 'k': k}, shape + [f'k={sign(k)}']))
            elif kernel == 'sset':
                v = _frac_arg(rng)
                out.append(([e, v], py_res(lambda: sc.set_duration(v), C.show_score), {'score': sp, 'arg': frac_str(v)},
                            shape + [f'arg={sign(v)}', den_bucket(v)]))
            else:
                out.append(([e], py_res(lambda: sc.decompose_duration(), C.show_score), {'score': sp}, shape))
        else:
            raise KeyError(kernel)
    return out
