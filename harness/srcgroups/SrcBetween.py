"""Source-tie group `SrcBetween` (DESIGN.md §9.6): the chord / score slicing of
musiclang/write/time_utils/time_utils.py against the model of MV/Model/Slice.lean (C12; C13 uses the same code).

  get_chord_between      (a `for` over the parts filling a dict built with `None` values, `assert`, `chord(**parts)`)
  Score.get_chord_between, Score.get_score_between   (the one-line delegations the loop goes through)
  get_score_between      (a `for` with `continue` / `break`, the skip / stop / copy / cut cases, `new_score += …` from `None`)
  repeat_until_duration  (`int(duration / score.duration) + 1` repetitions, then the slice)
"""
import sys
sys.dont_write_bytecode = True
from fractions import Fraction

NAME = 'SrcBetween'
TU = 'musiclang.write.time_utils.time_utils:'
SC = 'musiclang.write.score:Score.'
COPY = {'Chord': '(copyChord {0})'}      # `chord.copy()` re-rounds every duration (Note.__init__), as in MV/Model/Slice.lean
ENTRIES = [
    dict(py=TU + 'get_chord_between', name='get_chord_between', lean='get_chord_between',
         params=[('chord', 'Chord'), ('start', 'Rat'), ('end', 'Rat'), ('complete_if_missing', 'Bool')], ret='Chord', copy=COPY),
    dict(py=SC + 'get_chord_between', name='Score.get_chord_between', lean='Score_get_chord_between',
         params=[('self', 'Score'), ('chord', 'Chord'), ('start', 'Rat'), ('end', 'Rat')], ret='Chord',
         attr=('Score', 'get_chord_between')),
    dict(py=TU + 'get_score_between', name='get_score_between', lean='get_score_between',
         params=[('score', 'Score'), ('start', 'Option Rat'), ('end', 'Option Rat')], ret='Option Score', copy=COPY),
    dict(py=SC + 'get_score_between', name='Score.get_score_between', lean='Score_get_score_between',
         params=[('self', 'Score'), ('start', 'Option Rat'), ('end', 'Option Rat')], ret='Option Score',
         attr=('Score', 'get_score_between')),
    dict(py=TU + 'repeat_until_duration', name='repeat_until_duration', lean='repeat_until_duration',
         params=[('score', 'Score'), ('duration', 'Rat')], ret='Option Score', copy=COPY),
]
IMPORTS = ['MV.Model.PyBetween', 'MV.Model.Slice', 'MV.Gen.SrcSlice', 'MV.Gen.SrcDur']
PRELUDE = [
    '/-- `new_score += chord`: `Chord.__radd__(None)` = `Score([chord.copy()])`; `Score.__add__(chord)` =',
    '`Score(self.copy().chords + [chord])` (the operand itself is not copied) -/',
    'def scoreAddChord (s : Option Score) (c : Chord) : Score :=',
    '  match s with',
    '  | none => [copyChord c]',
    '  | some s => s.map copyChord ++ [c]',
    '',
    '/-- `score * k` = `sum([self.copy() for i in range(k)], None)`: `None` for k ≤ 0; `None + x` is `x.copy()`,',
    '`acc + x` is `Score(acc.copy().chords + x.copy().chords)` -/',
    'def scoreMul (s : Score) (k : Int) : Option Score :=',
    '  (List.range k.toNat).foldl (fun (acc : Option Score) _ =>',
    '    match acc with',
    '    | none => some ((s.map copyChord).map copyChord)',
    '    | some a => some (a.map copyChord ++ (s.map copyChord).map copyChord)) none',
    '',
    '/-- `chord(**parts)` where a value may still be `None` (`None.to_melody()` raises AttributeError) -/',
    'def callOpt (c : Chord) (parts : List (String × Option Melody)) : Res Chord := do',
    '  let ps ← parts.mapM (fun p => match p.2 with',
    '    | none => (.error .attr : Res (String × Melody))',
    '    | some m => preparsePart c (p.1, m))',
    '  pure { c with parts := ps }',
    '',
]
HELPERS = ['MV.Lemmas.TieSrcBetweenLemmas', 'MV.Model.PyBetween']
TIE = dict(gen=['SrcSlice', 'SrcDur', 'SrcBetween'], modules=['MV.Props.TieSrcBetween'], kernels=['gcb', 'gsb', 'rud'],
           driver='SrcBetween')


def extend_spec(sp):
    sp.attrs[('Chord', 'instruments')] = ('({0}.parts.map (fun p => p.1))', 'List Str')     # list(self.score.keys())
    sp.ctors['Silence'] = dict(ty='Note', order=['duration'], fields=[('duration', 'dur', 'Rat', None)], drop=[],
                               wrap='(silence {dur})')
    sp.binops[('Melody', 'Add', 'Note')] = ('({0} ++ [{1}])', 'Melody')                     # Melody(self.notes + [other])
    sp.binops[('None', 'Add', 'Chord')] = ('(scoreAddChord none {1})', 'Score')
    sp.binops[('Option Score', 'Add', 'Chord')] = ('(scoreAddChord {0} {1})', 'Score')
    sp.binops[('Score', 'Mult', 'Int')] = ('(scoreMul {0} {1})', 'Option Score')
    sp.binops[('Rat', 'Div', 'Rat')] = ('PyB.ratDiv {0} {1}', 'Res Rat')
    # `chord(**d)` is Chord.__call__ (model: Chord.call); a Note value is `note.to_melody()` = Melody([note])
    sp.kwcalls[('Chord', 'Dict Str Note')] = ('Chord.call {0} ({1}.map (fun p => (p.1, [p.2])))', 'Res Chord')
    sp.kwcalls[('Chord', 'Dict Str (Option Melody)')] = ('callOpt {0} {1}', 'Res Chord')
    sp.builtins['int'] = {('Rat',): ('(pyTrunc {0})', 'Int'), ('Int',): ('{0}', 'Int')}
    sp.dict_ops['set'] = '(PyB.dictSet {0} {1} {2})'
    sp.option_unwrap = 'PyB.attrOf {0}'


# ----------------------------------------------------------------------------- kernel-level inputs

CUT_DENS = [1, 2, 3, 6, 7]
OFF_DENS = [11, 13, 97, 997, 1009, 4001]       # cut points off the 1/1000 grid: Note.__init__ rounds what the slicer builds


def _amp(a):
    return Fraction(*a.as_integer_ratio()) if isinstance(a, float) else Fraction(a)


def _show_note(n):
    from core import frac_str
    return (f'({n.type} {int(n.val)} {int(n.octave)} {frac_str(n.duration)} {n.mode if n.mode is not None else "-"} '
            f'{n.accident if n.accident is not None else "-"} {frac_str(_amp(n.amp))})')


def _show_chord(c):
    from core import enc_ext, enc_ton
    parts = '(' + ' '.join(f'({k} (' + ' '.join(_show_note(x) for x in m.notes) + '))' for k, m in c.score.items()) + ')'
    return f'(c {int(c.element)} {enc_ext(c.extension)} {enc_ton(c.tonality)} {int(c.octave)} {parts})'


def _show_score(s):
    return 'None' if s is None else '(s ' + ' '.join(_show_chord(c) for c in s.chords) + ')'


def _rand_score(rng, n_chords=(1, 4), drums_ok=True):
    """scores as C12 draws them: 1-3 parts (absent now and then), rests / continuations anywhere, 80% with every part as long
    as its chord, a drums part now and then, 12% with chords without parts (duration 0)"""
    import gen
    from musiclang import Score
    equal = rng.random() < 0.8
    rel = rng.random() < 0.4
    drums = drums_ok and equal and rng.random() < 0.12
    if drums:
        parts, kinds = ('piano__0', 'drums_0__0'), gen.NONREL + ['d']
    else:
        parts, kinds = ('piano__0', 'violin__0', 'cello__0')[:rng.randint(1, 3)], gen.NONREL + (gen.REL if rel else [])
    s = gen.rand_score(rng, n_chords=n_chords, parts=parts, p_absent=0.2, kinds=kinds, equal_parts=equal,
                       plain=rng.random() < 0.5, p_rest=0.15, p_cont=0.2, vals=(0, 6), octs=(-1, 1), p_amp=0.3, n_notes=(1, 4))
    if rng.random() < 0.12:
        chords = list(s.chords)
        for _ in range(rng.randint(1, 2)):
            c, _t = gen.rand_chord(rng, ext=rng.choice(gen.PLAIN_INVERTIBLE), octaves=(-1, 1))
            chords.insert(rng.randint(0, len(chords)), c)
        s = Score(chords)
    return s, drums


def _bounds(s):
    cb, nb, t = [Fraction(0)], set(), Fraction(0)
    for c in s.chords:
        for m in c.score.values():
            u = t
            for x in m.notes:
                u += Fraction(x.duration)
                nb.add(u)
        t += Fraction(c.duration)
        cb.append(t)
    return cb, sorted(nb)


def _point(rng, s, total):
    cb, nb = _bounds(s)
    k = rng.random()
    if k < 0.22:
        return 'chord', rng.choice(cb)
    if k < 0.44:
        return 'note', (rng.choice(nb) if nb else Fraction(0))
    if k < 0.76:
        den = rng.choice(CUT_DENS)
        return 'interior', Fraction(rng.randint(0, max(1, int(total * den))), den)
    if k < 0.84:
        return 'beyond', total + Fraction(rng.randint(0, 14), rng.choice(CUT_DENS))
    if k < 0.90:
        den = rng.choice(OFF_DENS)
        return 'offgrid', Fraction(rng.randint(0, int(total * den) + den), den)
    if k < 0.95:
        return 'negative', -Fraction(rng.randint(1, 9), rng.choice(CUT_DENS))
    return 'zero', Fraction(0)


def cases(rng, kernel, n):
    """list of (request tail, impl string, jsonable input, buckets)"""
    from core import py_res, enc_chord, enc_score, frac_str
    import musiclang.write.time_utils.time_utils as TU
    from musiclang import Score
    out = []
    for _ in range(n):
        if kernel == 'gcb':
            s, drums = _rand_score(rng, n_chords=(1, 1))
            c = rng.choice(s.chords)
            total = Fraction(c.duration)
            one = Score([c])
            for attempt in range(20):
                ka, a = _point(rng, one, total)
                kb, b = _point(rng, one, total)
                if a > b and rng.random() < 0.85:
                    a, b, ka, kb = b, a, kb, ka
                # a drums part emptied by the window is stored as None by the code; the model raises at once (Slice.lean, header)
                if not drums or (0 <= a < b and a < total):
                    break
            else:
                a, b, ka, kb = Fraction(0), total + 1, 'zero', 'beyond'
            comp = rng.random() < 0.5
            out.append(([enc_chord(c), a, b, comp],
                        py_res(lambda: _show_chord(TU.get_chord_between(c, a, b, complete_if_missing=comp))),
                        {'chord': str(c), 'a': frac_str(a), 'b': frac_str(b), 'complete': comp},
                        [f'complete={int(comp)}', f'a={ka}', f'b={kb}', 'a<b' if a < b else 'a>=b', f'parts={len(c.score)}',
                         'drums' if drums else 'nodrums',
                         'unequal' if len({Fraction(m.duration) for m in c.score.values()}) > 1 else 'equal']))
        elif kernel == 'gsb':
            k = rng.random()
            s, drums = _rand_score(rng, drums_ok=k < 0.75)
            total = Fraction(s.duration)
            ka, a = _point(rng, s, total)
            kb, b = _point(rng, s, total)
            if k < 0.75:                                  # proper windows a < b inside / across the score
                for attempt in range(20):
                    if a < b and (not drums or a >= 0):
                        break
                    ka, a = _point(rng, s, total)
                    kb, b = _point(rng, s, total)
                    if a > b:
                        a, b, ka, kb = b, a, kb, ka
                else:
                    a, b, ka, kb = Fraction(0), total + 1, 'zero', 'beyond'
                shape = 'a<b'
            elif k < 0.85:
                shape = 'any'
            elif k < 0.90:
                a, ka, shape = None, 'None', 'start=None'
            elif k < 0.95:
                b, kb, shape = None, 'None', 'end=None'
            else:
                a, b, ka, kb, shape = None, None, 'None', 'None', 'both=None'
            out.append(([enc_score(s), a, b], py_res(lambda: _show_score(TU.get_score_between(s, a, b))),
                        {'score': str(s), 'a': None if a is None else frac_str(a), 'b': None if b is None else frac_str(b)},
                        [shape, f'a={ka}', f'b={kb}', f'chords={min(len(s.chords), 5)}',
                         'bare-chord' if any(len(c.score) == 0 for c in s.chords) else 'no-bare',
                         'drums' if drums else 'nodrums']))
        elif kernel == 'rud':
            s, drums = _rand_score(rng, n_chords=(1, 3))
            total = Fraction(s.duration)
            k = rng.random()
            if k < 0.3:
                d, kd = total * rng.randint(1, 3), 'multiple'
            elif k < 0.8:
                d, kd = Fraction(rng.randint(1, int(total * 3 * 6) + 1), rng.choice(CUT_DENS)), 'fraction'
            elif k < 0.88:
                den = rng.choice(OFF_DENS)
                d, kd = Fraction(rng.randint(1, 5 * den), den), 'offgrid'
            elif k < 0.94:
                d, kd = Fraction(0), 'zero'
            else:
                d, kd = -Fraction(rng.randint(1, 4), rng.choice(CUT_DENS)), 'negative'
            if rng.random() < 0.04:
                s, total, drums = Score([c for c in s.chords if len(c.score) == 0]), Fraction(0), False   # duration 0: ZeroDivisionError
            if drums and d <= 0:
                d, kd = total, 'multiple'
            out.append(([enc_score(s), d], py_res(lambda: _show_score(TU.repeat_until_duration(s, d))),
                        {'score': str(s), 'd': frac_str(d)},
                        [f'd={kd}', 'longer' if d > total else 'shorter', f'chords={min(len(s.chords), 4)}',
                         'empty-score' if not s.chords else ('zero-duration' if total == 0 else 'positive-duration')]))
        else:
            raise KeyError(kernel)
    return out
