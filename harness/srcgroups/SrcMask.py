"""Source-tie group `SrcMask` (DESIGN.md §9.6), serving C18: the mask classes of `musiclang/transform/mask.py`
(`__call__`, `child`, `__invert__` of every class the model has a constructor for, `TypeMask.__gt__`, `Mask.__and__` /
`__or__`), the dispatcher of `musiclang/transform/base_transformer.py` (`apply_on_melody`, `apply_on_chord`,
`apply_on_score`) and the `__call__` of the transformer families of `musiclang/transform/transformer.py`
(`NoteTransformer`, `MelodyTransformer`, `ChordTransformer`, and `MaskFilter` / `MelodyMaskFilter` / `ChordMaskFilter`),
translated by py2lean and proved equal to the hand-written model `MV/Model/Transform.lean` (`MV/Props/TieSrcMask.lean`).

Typing of the translation.  The Python masks are a class hierarchy, the model is one inductive type `Mask`.  `self` of a
class is the record of its instance attributes (`MV/Model/PyMask.lean`), `toMask` says which model value that is, and the
theorems read `Src.<Class>_call self e k = self.toMask.call e k` (same for `child`, `invert`).  Every method is fetched
through the class (`inspect.getattr_static` follows the MRO), so `NotMask.child` is `Mask.child` today and becomes the
override the day somebody adds one.  Calls of a mask held in an attribute (`self.other(element, **kwargs)`,
`t(element, **kwargs)`, `t.child(…)`, `~m`) are Python's dynamic dispatch on the class = the model's `Mask.call` /
`child` / `invert` on the constructor.  `**kwargs` is the model's `Ctx` record; a named parameter with a default
(`beat=0`, `instrument=None`) is the keyword read from it; a keyword written in a call that the record already holds is
Python's TypeError.  The element is typed with what the public constructor guards the class with (`Mask.DurationIn` =
`Note > DurationInMask`: a `Note`; the chord atoms: a chord), `Elem` for the classes that never look at it.  Sets are
lists read as sets; `x in s` is the model's `contains`.

A transformer (`self` of the dispatcher) is the model's record: `self.action` / `self.get_default` are its fields (the
methods the subclasses override), `self(x, on=…, **kw)` inside `apply_on_chord` / `apply_on_score` is the model's
`callMelody` / `callChord` (dispatch on the transformer's class), `self.on` the mask of a *MaskFilter instance,
`super()` the same object seen as an instance of the family's base class (checked against the MRO).  Elements are values
(the copies `score += chord`, `add_tags`, `chord(**parts)` make are written out in `MV/Model/PyMask.lean`).

Not translated: `NoteInMask`, `ChordInMask`, `TonalityInMask` (membership through `hash(repr)`: opaque atoms in C18, no
constructor in `Model/Transform.lean`; C20 models them with `__init__` and `__call__` fused, over a hash parameter),
`FuncMask` (an arbitrary Python function), `FalseMask` / `TrueMask` (never built by the public API, no model
constructor), `Mask.eval` (`eval` of text), the classmethod constructors `Mask.BeatIn` … and the `__init__`s (the streams
send the structure of the real object), `NoteFilter` / `MelodyFilter` / `ChordFilter` (a lambda closing over `self.filter`),
`DictTransformer`, `ScoreTransformer` (not in the model).
"""
import sys
sys.dont_write_bytecode = True
from fractions import Fraction

NAME = 'SrcMask'
MK = 'musiclang.transform.mask:'
BT = 'musiclang.transform.base_transformer:Transformer.'

# class -> (element type of `__call__`, coercion to the model's Mask)
E, N, C = 'Elem', 'Note', 'TChord'
CLASSES = [
    ('Mask', 'BaseMask', E), ('HasMask', 'HasMask', E), ('HasAtLeastMask', 'HasAtLeastMask', E),
    ('BeatInMask', 'BeatInMask', E), ('BeatPlayingInMask', 'BeatPlayingInMask', N), ('DurationInMask', 'DurationInMask', N),
    ('DurationBetweenMask', 'DurationBetweenMask', N), ('BeatBetweenMask', 'BeatBetweenMask', E),
    ('InstrumentsMask', 'InstrumentsMask', E), ('ChordBeatInMask', 'ChordBeatInMask', E),
    ('ChordBeatPlayingInMask', 'ChordBeatPlayingInMask', C), ('ChordDurationInMask', 'ChordDurationInMask', C),
    ('ChordDurationBetweenMask', 'ChordDurationBetweenMask', C), ('ChordBeatBetweenMask', 'ChordBeatBetweenMask', E),
    ('ModeInMask', 'ModeInMask', C), ('ChordDegreeInMask', 'ChordDegreeInMask', C),
    ('ChordExtensionInMask', 'ChordExtensionInMask', C), ('TonalityDegreeInMask', 'TonalityDegreeInMask', C),
    ('BoolMask', 'BoolMask', E), ('ScoreMask', 'ScoreMask', E), ('ChordMask', 'ChordMask', E), ('MelodyMask', 'MelodyMask', E),
    ('NoteMask', 'NoteMask', E), ('NotMask', 'NotMask', E), ('AndMask', 'AndMask', E), ('OrMask', 'OrMask', E),
    ('GtMask', 'GtMask', E),
]
TYPE_GUARDS = ['ScoreMask', 'ChordMask', 'MelodyMask', 'NoteMask']


def _entries():
    out = []
    for cls, ty, el in CLASSES:
        # `__call__` first: `GtMask.child` calls `self(element, **kwargs)`
        first = {'Mask': 'element', 'HasMask': 'element', 'HasAtLeastMask': 'element'}.get(cls)
        out.append(dict(py=MK + cls + '.__call__', name=cls + '.__call__', lean=ty + '_call',
                        params=[('self', ty), (None, el), ('kwargs', 'Ctx')], ret='Bool', kwargs='Ctx'))
        out.append(dict(py=MK + cls + '.child', name=cls + '.child', lean=ty + '_child',
                        params=[('self', ty), ('element', E), ('kwargs', 'Ctx')], ret='Mask', kwargs='Ctx'))
        out.append(dict(py=MK + cls + '.__invert__', name=cls + '.__invert__', lean=ty + '_invert',
                        params=[('self', ty)], ret='Mask'))
    for cls in TYPE_GUARDS:
        out.append(dict(py=MK + cls + '.__gt__', name=cls + '.__gt__', lean=cls + '_gt',
                        params=[('self', cls), ('other', 'Mask')], ret='Mask'))
    out.append(dict(py=MK + 'Mask.__and__', name='Mask.__and__', lean='Mask_and',
                    params=[('self', 'Mask'), ('other', 'Mask')], ret='Mask'))
    out.append(dict(py=MK + 'Mask.__or__', name='Mask.__or__', lean='Mask_or',
                    params=[('self', 'Mask'), ('other', 'Mask')], ret='Mask'))
    # the dispatcher (`self` is the model's record of a transformer: its level, its `action`s, whether `get_default` is None)
    T = 'Transformer'
    out.append(dict(py=BT + 'apply_on_melody', name='Transformer.apply_on_melody', lean='Transformer_apply_on_melody',
                    params=[('self', T), ('element', 'TMelody'), ('on', 'Mask'), ('kwargs', 'Ctx')], ret='TMelody', kwargs='Ctx',
                    defaults={'on': ('Mask.base', 'Mask')},
                    local_spec={'methods': {(T, 'get_default'): ('(Transformer.defaultNote {0} {1})', 'Option Note')}}))
    out.append(dict(py=BT + 'apply_on_score', name='Transformer.apply_on_score', lean='Transformer_apply_on_score',
                    params=[('self', T), ('element', 'TScore'), ('on', 'Mask'), ('kwargs', 'Ctx')], ret='TScore', kwargs='Ctx',
                    defaults={'on': ('Mask.base', 'Mask')},
                    local_spec={'methods': {(T, 'get_default'): ('(Transformer.defaultChord {0} {1})', 'Option TChord')}}))
    out.append(dict(py=BT + 'apply_on_chord', name='Transformer.apply_on_chord', lean='Transformer_apply_on_chord',
                    params=[('self', T), ('element', 'TChord'), ('on', 'Mask'), ('kwargs', 'Ctx')], ret='TChord', kwargs='Ctx',
                    defaults={'on': ('Mask.base', 'Mask')},
                    local_spec={'methods': {(T, 'get_default'): ('(Transformer.defaultMelody {0} {1})', 'Option TMelody')}}))
    # the `__call__` of the three transformer families (type dispatch on the element)
    TR = 'musiclang.transform.transformer:'
    for cls in ('NoteTransformer', 'MelodyTransformer', 'ChordTransformer'):
        out.append(dict(py=TR + cls + '.__call__', name=cls + '.__call__', lean=cls + '_call',
                        params=[('self', T), ('element', 'Elem'), ('on', 'Mask'), ('kwargs', 'Ctx')], ret='Option Elem', kwargs='Ctx',
                        defaults={'on': ('Mask.base', 'Mask')}, copy={'Note': '(noteCopy {0})'}))
    # the *MaskFilter classes: `super().__call__(element, on=self.on & on, **kwargs)`; `super()` is the same object seen as
    # an instance of the family's base class (checked against the MRO in `extend_spec`)
    for cls, base in MASK_FILTERS:
        out.append(dict(py=TR + cls + '.__call__', name=cls + '.__call__', lean=cls + '_call',
                        params=[('self', T), ('element', 'Elem'), ('on', 'Mask'), ('kwargs', 'Ctx')], ret='Option Elem', kwargs='Ctx',
                        defaults={'on': ('Mask.base', 'Mask')},
                        local_spec={'calls': {('super', ()): ('self', base + 'View')}}))
    return out


MASK_FILTERS = [('MaskFilter', 'NoteTransformer'), ('MelodyMaskFilter', 'MelodyTransformer'), ('ChordMaskFilter', 'ChordTransformer')]


def _fill_element_names(entries):
    """the name of the element parameter of each `__call__` is read from the source (`note`, `chord`, `element`): it is not
    part of what is tied, only its position is"""
    import py2lean
    for e in entries:
        ps = e['params']
        if len(ps) > 1 and ps[1][0] is None:
            try:
                fd, _ = py2lean.get_source_ast(e['py'])
                nm = fd.args.args[1].arg
            except Exception:
                nm = 'element'
            ps[1] = (nm, ps[1][1])
    return entries


ENTRIES = _fill_element_names(_entries())
IMPORTS = ['MV.Model.PyMask']
PRELUDE = ['open MV.Transform MV.PyMask', '']
HELPERS = ['MV.Lemmas.TieSrcMaskLemmas', 'MV.Model.PyMask']
# two kernels (every driver launch costs a second or two): the operation is the first argument of the request
KERNELS = ['mask', 'disp']
TIE = dict(gen=['SrcMask'], modules=['MV.Props.TieSrcMask'], kernels=KERNELS, driver='SrcMask')

CTX_FIELDS = {'chord_beat': ('chordBeat', 'Option Rat'), 'chord_idx': ('chordIdx', 'Option Int'),
              'last_chord': ('lastChord', 'Option TChord'), 'chord': ('chord', 'Option TChord'),
              'instrument': ('instrument', 'Option String'), 'beat': ('beat', 'Option Rat'), 'idx': ('idx', 'Option Int'),
              'last_note': ('lastNote', 'Option Note')}


def extend_spec(sp):
    from py2lean import Untranslatable
    import musiclang.transform.mask as M
    import musiclang
    # the names the bodies import locally are the library's element classes
    for nm in ('Score', 'Chord', 'Melody', 'Note'):
        if not isinstance(getattr(musiclang, nm, None), type):
            raise Untranslatable(f'musiclang.{nm} is not a class')
    for cls, ty, _ in CLASSES:
        if not isinstance(getattr(M, cls, None), type):
            raise Untranslatable(f'mask.py: no class {cls}')
        sp.coercions[(ty, 'Mask')] = '{0}.toMask'
    sp.kwrecords['Ctx'] = dict(fields=CTX_FIELDS, distinct='PyMask.kwDistinct [{0}]')
    # --- instance attributes
    for ty, attr, lf, aty in [
            ('HasMask', 'tags', 'tags', 'List Str'), ('HasAtLeastMask', 'tags', 'tags', 'List Str'),
            ('BeatInMask', 'beats', 'beats', 'List Rat'), ('BeatPlayingInMask', 'beats', 'beats', 'List Rat'),
            ('DurationInMask', 'durations', 'durations', 'List Rat'),
            ('DurationBetweenMask', 'start', 'start', 'Rat'), ('DurationBetweenMask', 'end', '«end»', 'Rat'),
            ('BeatBetweenMask', 'start', 'start', 'Rat'), ('BeatBetweenMask', 'end', '«end»', 'Rat'),
            ('InstrumentsMask', 'instruments', 'instruments', 'List Str'),
            ('ChordBeatInMask', 'beats', 'beats', 'List Rat'), ('ChordBeatPlayingInMask', 'beats', 'beats', 'List Rat'),
            ('ChordDurationInMask', 'durations', 'durations', 'List Rat'),
            ('ChordDurationBetweenMask', 'start', 'start', 'Rat'), ('ChordDurationBetweenMask', 'end', '«end»', 'Rat'),
            ('ChordBeatBetweenMask', 'start', 'start', 'Rat'), ('ChordBeatBetweenMask', 'end', '«end»', 'Rat'),
            ('ModeInMask', 'modes', 'modes', 'List Str'), ('ChordDegreeInMask', 'degrees', 'degrees', 'List Int'),
            ('ChordExtensionInMask', 'extensions', 'extensions', 'List Str'),
            ('TonalityDegreeInMask', 'degrees', 'degrees', 'List Int'), ('BoolMask', 'bool', 'bool', 'Bool'),
            ('NotMask', 'other', 'other', 'Mask'), ('AndMask', 'terms', 'terms', 'List Mask'),
            ('OrMask', 'terms', 'terms', 'List Mask')]:
        sp.attrs[(ty, attr)] = ('{0}.' + lf, aty)
    sp.attrs[('GtMask', 'terms')] = ('{0}', 'GtTerms')
    sp.tuple_fields[('GtTerms', 0)] = ('{0}.g', 'Mask')
    sp.tuple_fields[('GtTerms', 1)] = ('{0}.m', 'Mask')
    # --- the elements (values of the model: MV/Model/Transform.lean)
    sp.attrs[('Elem', 'tags')] = ('(Elem.tags {0})', 'List Str')
    sp.attrs[('TChord', 'duration')] = ('(TChord.duration {0})', 'Rat')        # Chord.duration: the model's function
    sp.attrs[('TChord', 'tonality')] = ('{0}.base.ton', 'Tonality')
    sp.attrs[('TChord', 'degree')] = ('{0}.base.elem', 'Int')                  # the property `Chord.degree` = `self.element`
    sp.attrs[('TChord', 'extension')] = ('{0}.base.ext', 'Ext')                 # the figure (the library stores its text)
    sp.binops[('Ext', 'In', 'List Str')] = ('({1}.contains {0}.toText)', 'Bool')
    sp.sums['Elem'] = {'Score': ('Elem.score {0}', 'TScore'), 'Chord': ('Elem.chord {0}', 'TChord'),
                       'Melody': ('Elem.melody {0}', 'TMelody'), 'Note': ('Elem.note {0}', 'Note')}
    # --- sets: lists read as sets
    sp.methods[('List Str', 'issuperset')] = ('({1}.all (fun t => {0}.contains t))', 'Bool')
    sp.methods[('List Str', 'intersection')] = ('(PyMask.setInter {0} {1})', 'List Str')
    sp.binops[('Rat', 'In', 'List Rat')] = ('({1}.contains {0})', 'Bool')
    sp.binops[('Option String', 'In', 'List Str')] = ('(match {0} with | some i => {1}.contains i | none => false)', 'Bool')   # None is in no set of names
    sp.binops[('Mode', 'In', 'List Str')] = ('({1}.contains {0}.toStr)', 'Bool')     # a mode is its name
    # --- dynamic dispatch on the class of a mask = the model's functions on the constructor
    sp.callables[('Mask', ('Elem', '**Ctx'))] = ('(Mask.call {0} {1} {2})', 'Bool', ())
    sp.callables[('GtMask', ('Elem', '**Ctx'))] = ('(GtMask_call {0} {1} {2})', 'Bool', ())      # the translated `GtMask.__call__`
    sp.kwmethods[('Mask', 'child', 'Elem', '**Ctx')] = ('(Mask.child {0} {1} {2})', 'Mask')
    sp.unops[('Mask', 'Invert')] = ('(Mask.invert {0})', 'Mask')
    # --- constructors of the classes, as values of the model
    sp.ctors['NotMask'] = dict(ty='Mask', order=['other'], fields=[('other', 'other', 'Mask', None)], drop=[], wrap='(Mask.not {other})')
    sp.ctors['AndMask'] = dict(ty='Mask', order=['terms'], fields=[('terms', 'terms', 'List Mask', None)], drop=[], wrap='(Mask.and {terms})')
    sp.ctors['OrMask'] = dict(ty='Mask', order=['terms'], fields=[('terms', 'terms', 'List Mask', None)], drop=[], wrap='(Mask.or {terms})')
    sp.ctors['BoolMask'] = dict(ty='Mask', order=['bool'], fields=[('bool', 'bool', 'Bool', None)], drop=[], wrap='(Mask.bool {bool})')
    sp.ctors['GtMask'] = dict(ty='Res Mask', order=['terms'], fields=[('terms', 'terms', 'List Mask', None)], drop=[],
                              wrap='PyMask.gtOfTerms {terms}')
    sp.ctors['Mask'] = dict(ty='Mask', order=[], fields=[], drop=[], wrap='Mask.base')
    # --- the dispatcher: elements as values of the model, the transformer's own methods as the fields of the model's record
    sp.coercions[('Note', 'Elem')] = '(Elem.note {0})'
    sp.coercions[('TMelody', 'Elem')] = '(Elem.melody {0})'
    sp.coercions[('TChord', 'Elem')] = '(Elem.chord {0})'
    sp.coercions[('TScore', 'Elem')] = '(Elem.score {0})'
    sp.attrs[('TMelody', 'notes')] = ('{0}.notes', 'List Note')
    sp.attrs[('TMelody', 'tags')] = ('{0}.tags', 'List Str')
    sp.attrs[('TScore', 'chords')] = ('{0}.chords', 'List TChord')
    sp.attrs[('TScore', 'tags')] = ('{0}.tags', 'List Str')
    sp.ctors['Melody'] = dict(ty='TMelody', order=['notes', 'nb_bars', 'tags'],
                              fields=[('notes', 'notes', 'List Note', None), ('tags', 'tags', 'List Str', '[]')], drop=['nb_bars'])
    sp.ctors['Score'] = dict(ty='TScore', order=['chords', 'config', 'tags'],
                             fields=[('chords', 'chords', 'List TChord', None), ('tags', 'tags', 'List Str', '[]')], drop=['config'])
    sp.kwmethods[('Transformer', 'action', 'Note', '**Ctx')] = ('{0}.actNote {1} {2}', 'Res (Option Note)')
    sp.callables[('Transformer', ('TChord', 'on=Mask', '**Ctx'))] = ('callChord {0} {1} {2} {3}', 'Res (Option TChord)', ())
    sp.binops[('TScore', 'Add', 'TChord')] = ('(PyMask.scoreAddChord {0} {1})', 'TScore')      # Score.__add__(chord)
    sp.methods[('TScore', 'add_tags')] = ('(PyMask.scoreAddTags {0} {1})', 'TScore')
    # apply_on_chord: the chord it builds first holds None for the parts a filter drops (`PChord`); `chord(**parts)` is
    # `Chord.__call__` on names in the normal form `name__k` (C18's domain): the same names, each melody copied (`to_melody()`)
    sp.attrs[('TChord', 'element')] = ('{0}.base.elem', 'Int')
    sp.attrs[('TChord', 'octave')] = ('{0}.base.oct', 'Int')
    sp.attrs[('TChord', 'tags')] = ('{0}.tags', 'List Str')
    sp.attrs[('TChord', 'score')] = ('{0}.parts', 'TParts')
    sp.dict_key_iters['TParts'] = ('{0}.map (fun p => p.1)', 'Str')
    sp.index_methods['TParts'] = ('lookupKey {1} {0}', 'Str', 'Res TMelody')
    sp.ctors['Chord'] = dict(ty='PChord', order=['element', 'extension', 'tonality', 'score', 'octave', 'tags'],
                             fields=[('element', 'elem', 'Int', None), ('extension', 'ext', 'Ext', None),
                                     ('tonality', 'ton', 'Tonality', None), ('octave', 'oct', 'Int', '(0 : Int)'),
                                     ('score', 'score', 'Dict Str (Option TMelody)', None), ('tags', 'tags', 'List Str', '[]')],
                             drop=[], wrap='({{ base := {{ elem := {elem}, ext := {ext}, ton := {ton}, oct := {oct} }}, '
                                           'score := {score}, tags := {tags} }} : PyMask.PChord)')
    sp.attrs[('PChord', 'score')] = ('{0}.score', 'OParts')
    sp.methods[('OParts', 'items')] = ('{0}', 'List (Str × Option TMelody)')
    sp.kwcalls[('PChord', 'Dict Str TMelody')] = ('(PyMask.chordCall {0} {1})', 'TChord')
    sp.callables[('Transformer', ('TMelody', 'on=Mask', '**Ctx'))] = ('callMelody {0} {1} {2} {3}', 'Res (Option TMelody)', ())
    # the `__call__`s: what they return is None or one of the four element types
    sp.not_in_sum.add(('Elem', 'list'))
    for ty, ctor in (('Note', 'note'), ('TMelody', 'melody'), ('TChord', 'chord'), ('TScore', 'score')):
        sp.coercions[('Option ' + ty, 'Option Elem')] = '({0}.map Elem.' + ctor + ')'
    sp.kwmethods[('Transformer', 'action', 'TMelody', '**Ctx')] = ('{0}.actMelody {1} {2}', 'Res (Option TMelody)')
    sp.kwmethods[('Transformer', 'action', 'TChord', '**Ctx')] = ('{0}.actChord {1} {2}', 'Res (Option TChord)')
    sp.kwmethods[('Transformer', 'apply_on_melody', 'TMelody', 'on=Mask', '**Ctx')] = ('Transformer_apply_on_melody {0} {1} {2} {3}', 'Res TMelody')
    sp.kwmethods[('Transformer', 'apply_on_chord', 'TChord', 'on=Mask', '**Ctx')] = ('Transformer_apply_on_chord {0} {1} {2} {3}', 'Res TChord')
    sp.kwmethods[('Transformer', 'apply_on_score', 'TScore', 'on=Mask', '**Ctx')] = ('Transformer_apply_on_score {0} {1} {2} {3}', 'Res TScore')
    import musiclang.transform.transformer as TRM
    for cls, base in MASK_FILTERS:
        owner = next((k for k in getattr(TRM, cls).__mro__[1:] if '__call__' in vars(k)), None)
        if owner is not getattr(TRM, base):
            raise Untranslatable(f'transformer.py: super().__call__ of {cls} is {owner}, expected {base}.__call__')
        sp.kwmethods[(base + 'View', '__call__', 'Elem', 'on=Mask', '**Ctx')] = (base + '_call {0} {1} {2} {3}', 'Res (Option Elem)')
    sp.attrs[('Transformer', 'on')] = ('PyMask.preOf {0}', 'Res Mask')      # the attribute only the *MaskFilter classes have
    sp.binops[('Mask', 'BitAnd', 'Mask')] = ('(Mask_and {0} {1})', 'Mask')     # the translated `Mask.__and__`
    sp.class_ctor['AndMask'] = 'AndMask'
    sp.class_ctor['OrMask'] = 'OrMask'


# ----------------------------------------------------------------------------- kernel-level inputs
# Elements, masks, transformers and keyword arguments are drawn with the generators of the property module (harness/props/C18.py,
# themselves built on harness/gen.py) and written with its encoders, so that the streams here see the same population as C18.

Q = Fraction
BEATS = [0, 1, 2, 3, 4, Q(1, 2), Q(3, 2), Q(5, 2), Q(1, 4), Q(1, 3), Q(2, 3), Q(4, 3), Q(5, 3), Q(1, 6), Q(2, 5), Q(7, 5),
         -1, Q(-1, 2), 1000, Q(10 ** 9 + 7, 3)]
DURS = [Q(1), Q(1, 2), Q(2), Q(1, 4), Q(3, 2), Q(1, 3), Q(2, 3), Q(3), Q(4), Q(0), Q(1, 12), Q(7, 8)]


def _set(rng, pool, lo=0, hi=3):
    k = rng.randint(lo, min(hi, len(pool)))
    return rng.sample(pool, k)


def _ab(rng):
    x = rng.random()
    a = rng.choice([0, Q(1, 2), 1, 2, Q(1, 3), -1])
    if x < 0.7:
        return a, a + rng.choice([Q(1, 2), 1, 2, 3, Q(2, 3)])
    if x < 0.85:
        return a, a                      # empty interval
    return a + 2, a                      # start > end


def _top_mask(rng, cls, C18):
    """a real mask object whose class is `cls` (hand-built, arguments of every size, the empty collection included);
    the masks below the top node come from the property's generator"""
    import musiclang.transform.mask as M
    import gen
    sub = lambda d=2: C18.build_mask(C18.g_mask(rng, rng.randint(0, d), guarded=rng.random() < 0.5))
    if cls == 'Mask':
        return M.Mask()
    if cls in ('HasMask', 'HasAtLeastMask'):
        return getattr(M, cls)(_set(rng, C18.TAGS + ['zz'], 0, 3))
    if cls in ('BeatInMask', 'BeatPlayingInMask', 'ChordBeatInMask', 'ChordBeatPlayingInMask'):
        return getattr(M, cls)(_set(rng, BEATS, 0, 4))
    if cls in ('DurationInMask', 'ChordDurationInMask'):
        return getattr(M, cls)(_set(rng, DURS, 0, 4))
    if cls in ('DurationBetweenMask', 'BeatBetweenMask', 'ChordDurationBetweenMask', 'ChordBeatBetweenMask'):
        return getattr(M, cls)(*_ab(rng))
    if cls == 'InstrumentsMask':
        return M.InstrumentsMask(_set(rng, C18.PARTS + ['organ__0'], 0, 3))
    if cls == 'ModeInMask':
        return M.ModeInMask(_set(rng, gen.MODES, 0, 4))
    if cls == 'ChordDegreeInMask':
        return M.ChordDegreeInMask(_set(rng, list(range(7)) + [-1, 7], 0, 4))
    if cls == 'ChordExtensionInMask':
        return M.ChordExtensionInMask(_set(rng, list(gen.PLAIN_INVERTIBLE), 0, 4))
    if cls == 'TonalityDegreeInMask':
        return M.TonalityDegreeInMask(_set(rng, list(range(12)) + [-1, 12], 0, 6))
    if cls == 'BoolMask':
        return M.BoolMask(rng.random() < 0.5)
    if cls in TYPE_GUARDS:
        return getattr(M, cls)()
    if cls == 'NotMask':
        return M.NotMask(sub(3))
    if cls in ('AndMask', 'OrMask'):
        k = rng.choice([0, 1, 2, 2, 2, 3, 4])
        return getattr(M, cls)([sub() for _ in range(k)])
    if cls == 'GtMask':
        g = getattr(M, rng.choice(TYPE_GUARDS))() if rng.random() < 0.85 else sub(1)
        return M.GtMask([g, sub(3)])
    raise KeyError(cls)


def _elem_for(rng, el, C18):
    if el == N:
        return C18.g_note(rng)
    if el == C:
        return C18.g_chord(rng, parts=((0, 3) if rng.random() < 0.15 else (1, 3)), plain=rng.random() < 0.7)
    return C18.g_elem(rng, kind=rng.choice(['n', 'n', 'm', 'tc', 'ts']))      # notes twice: beats and durations live there


def _kw(rng, C18, allowed=None):
    kw = C18.g_kwargs(rng)
    if allowed is not None:
        kw = {k: v for k, v in kw.items() if k in allowed}
    return kw


def _kwj(kw):
    return {k: str(v) for k, v in kw.items()}


def cases(rng, kernel, n):
    """list of (request tail, impl string, jsonable input, buckets); `mask`: call / child / the four operators on every mask
    class, `disp`: apply_on_melody / apply_on_chord / apply_on_score and the `__call__` of the transformer classes"""
    if kernel == 'mask':
        return _cases(rng, 'mask_call', n - 2 * (n // 3)) + _cases(rng, 'mask_child', n // 3) + _cases(rng, 'mask_build', n // 3)
    if kernel == 'disp':
        return _cases(rng, 'disp_melody', n - 3 * (n // 4)) + _cases(rng, 'disp_chord', n // 4) + _cases(rng, 'disp_score', n // 4) \
            + _cases(rng, 'disp_call', n // 4)
    raise KeyError(kernel)


def _cases(rng, kernel, n):
    from core import py_res, SX
    from props import C18
    import musiclang.transform.mask as M
    out = []
    b01 = lambda b: '1' if b else '0'
    if kernel in ('mask_call', 'mask_child'):
        for i in range(n):
            cls, ty, el = CLASSES[i % len(CLASSES)] if i < 2 * len(CLASSES) else rng.choice(CLASSES)
            m = _top_mask(rng, cls, C18)
            e = _elem_for(rng, el if kernel == 'mask_call' else E, C18)
            kw = _kw(rng, C18)
            obj = C18.build_elem(e)
            try:
                text = C18.struct(m)
            except C18.Opaque:
                continue
            if kernel == 'mask_call':
                impl = py_res(lambda: type(m).__call__(m, obj, **kw), b01)
            else:
                impl = py_res(lambda: C18.struct(type(m).child(m, obj, **kw)))
            out.append(([kernel[5:], SX(text), SX(C18.enc_spec(e)), SX(C18.kw_sx(kw))], impl,
                        {'op': kernel[5:], 'class': cls, 'mask': text, 'elem': e, 'kwargs': _kwj(kw)},
                        [f'op={kernel[5:]}', f'class={cls}', f'on={e[0]}', f'kw={len(kw)}', f'res={impl[:12] if kernel == "mask_call" else impl[1:5]}']))
    elif kernel == 'mask_build':
        for i in range(n):
            op = rng.choice(['inv', 'inv', 'inv', 'gt', 'and', 'or'])
            try:
                if op == 'inv':
                    cls, ty, el = CLASSES[i % len(CLASSES)] if i < 2 * len(CLASSES) else rng.choice(CLASSES)
                    m = _top_mask(rng, cls, C18)
                    text = C18.struct(m)
                    out.append((['inv', SX(text)], py_res(lambda: C18.struct(type(m).__invert__(m))),
                                {'op': 'inv', 'class': cls, 'mask': text}, ['op=inv', f'class={cls}']))
                elif op == 'gt':
                    g = rng.choice(TYPE_GUARDS)
                    o = _top_mask(rng, rng.choice(CLASSES)[0], C18)
                    text = C18.struct(o)
                    lv = g[:-4].lower()
                    out.append((['gt', lv, SX(text)], py_res(lambda: C18.struct(getattr(M, g)() > o)),
                                {'op': 'gt', 'guard': g, 'mask': text}, ['op=gt', f'guard={g}']))
                else:
                    a = _top_mask(rng, rng.choice(CLASSES)[0], C18)
                    b = _top_mask(rng, rng.choice(CLASSES)[0], C18)
                    ta, tb = C18.struct(a), C18.struct(b)
                    f = (lambda: C18.struct(a & b)) if op == 'and' else (lambda: C18.struct(a | b))
                    out.append(([op, SX(ta), SX(tb)], py_res(f), {'op': op, 'a': ta, 'b': tb},
                                [f'op={op}', f'left={type(a).__name__}', f'right={type(b).__name__}']))
            except C18.Opaque:
                continue
    elif kernel in ('disp_melody', 'disp_chord', 'disp_score', 'disp_call'):
        for i in range(n):
            x = rng.random()
            mexp = ['base'] if x < 0.12 else C18.g_mask(rng, rng.randint(1, 4), guarded=x < 0.8)
            if kernel == 'disp_melody':
                t = C18.g_T(rng, level='note')
                e = C18.g_melody(rng, n=(0, 6))
                kw = _kw(rng, C18, ('chord_beat', 'chord_idx', 'instrument'))      # what the levels above add; never beat / idx
                call = lambda T, o, on: T.apply_on_melody(o, on=on, **kw)
            elif kernel == 'disp_chord':
                t = C18.g_T(rng, level=rng.choice(['note', 'note', 'melody']))
                e = C18.g_chord(rng, parts=((0, 4) if rng.random() < 0.15 else (1, 4)), plain=rng.random() < 0.7)
                kw = _kw(rng, C18, ('chord_beat', 'chord_idx'))                    # never chord / instrument
                call = lambda T, o, on: T.apply_on_chord(o, on=on, **kw)
            elif kernel == 'disp_score':
                t = C18.g_T(rng)
                e = C18.g_score(rng, n=(1, 4))
                kw = {}                                                           # the top level: no keywords yet
                call = lambda T, o, on: T.apply_on_score(o, on=on, **kw)
            else:
                # `T(element, on=mask, **kwargs)`: the `__call__` of the class of T (plain or *MaskFilter, three families) on the
                # four element types, wrong combinations included (a chord transformer on a note raises)
                t = C18.g_T(rng)
                e = C18.g_elem(rng, kind=rng.choice(['n', 'n', 'm', 'm', 'tc', 'tc', 'ts']))
                kw = _kw(rng, C18, {'n': ('chord_beat', 'chord_idx', 'instrument', 'beat', 'idx'),
                                    'm': ('chord_beat', 'chord_idx', 'instrument'), 'tc': ('chord_beat', 'chord_idx'), 'ts': ()}[e[0]])
                call = lambda T, o, on: T(o, on=on, **kw)
            impl = py_res(lambda: call(C18.build_T(t), C18.build_elem(e), C18.build_mask(mexp)), C18.show_elem)
            out.append(([kernel[5:], SX(C18.T_sx(t)), SX(C18.mask_sx(mexp)), SX(C18.enc_spec(e)), SX(C18.kw_sx(kw))], impl,
                        {'op': kernel[5:], 'T': t, 'mask': mexp, 'elem': e, 'kwargs': _kwj(kw)},
                        [f'op={kernel[5:]}', f'on={e[0]}', f'level={t[1]}', f'act={t[2][0]}', f'filter={t[3]}', 'pre' if t[4] else 'nopre', C18.mask_shape(mexp),
                         'err' if impl.startswith('ERR') else ('same' if impl == C18.enc_spec(e) else 'changed'), f'kw={len(kw)}']))
    else:
        raise KeyError(kernel)
    return out
