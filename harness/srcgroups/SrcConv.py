"""Source-tie group `SrcConv` (DESIGN.md §9.6), serving C11: the re-notations of notes, melodies, chords and scores
(`to_absolute_note`, `to_scale_note(s)`, `to_standard_note`, `to_chord_note`, `to_extension_note`, `Chord.to_pitch`,
`Note.as_key`, `Note.set_duration`) and the octave correction (`_o_chord_relative_notes`,
`inverse_recursive_correct_octave`, `correct_chord_octave`), translated from the AST of the live modules and proved
equal to the hand-written model of `MV/Model/Renotate.lean` in `MV/Props/TieSrcConv.lean`.

All bindings are *local* to the entries of this group (`local_spec`: merged into the shared Spec only while one of
these functions is translated, then removed), so that no other group's translation can change because this plug-in is
present.  What is bound rather than translated (the trusted part, validated by the advisory `src:*` streams):
  * `chord.extension_notes` / `chord_notes` / `bass_pitch`  -> the model's `Chord.extensionNotes` / `chordNotes` / `bassPitch`
    (tied by the C01 / C02 correspondence); `chord.parse`, `note.o`, `Note.__eq__`, `note_to_pitch_result` -> their source
    images of the groups `SrcOps` / `SrcPitch`;
  * `None` where an int is needed (`None % 12`, `chord.parse(None)`, a relative note without a reference) raises `TypeError`;
  * `x.copy()` is the identity on the model's values; `set_amp` truncates a float amplitude; `add_tags` is a set union;
    `limit_denominator(LIMIT_DENOM)` is the identity on durations of the library's resolution;
  * `chord(**parts)` is "the same chord with these parts" (C11's reading of `Chord.__call__`: part names `name__idx`, drum
    parts already hold drum notes); `chord.score` / the dictionary of last pitches are association lists with unique keys;
  * the recursion of `inverse_recursive_correct_octave` is bounded by a fuel argument (Python: the recursion limit).
"""
import sys
sys.dont_write_bytecode = True
from fractions import Fraction

NAME = 'SrcConv'
IMPORTS = ['MV.Gen.SrcPitch', 'MV.Gen.SrcTonality', 'MV.Gen.SrcOps', 'MV.Model.Renotate']
HELPERS = ['MV.Lemmas.TieSrcConvLemmas']

# ------------------------------------------------------------------------------------------------ bindings (trusted)
PRELUDE = [
    '/-- an optional int used as an arithmetic operand: `None % 12`, `None // 12` raise `TypeError` -/',
    'def optInt (x : Option Int) : Res Int :=',
    '  match x with',
    '  | some v => .ok v',
    '  | none => .error .type',
    '',
    '/-- `note_to_pitch_result(note, chord, last_pitch)` called with an optional reference: a relative note compares / subtracts',
    'the reference (`TypeError` on `None`), the other kinds never read it -/',
    'def note_to_pitch_result_opt (note : Note) (chord : Chord) (last_pitch : Option Int) : Res (Option Int) :=',
    '  match last_pitch with',
    '  | some l => note_to_pitch_result note chord l',
    '  | none => if note.kind.isRelative then .error .type else note_to_pitch_result note chord 0',
    '',
    '/-- `chord.parse(pitch)` called with an optional pitch: the first thing `parse` evaluates is `pitch % 12` -/',
    'def Chord_parse_opt (c : Chord) (p : Option Int) : Res Note := do',
    '  let p ← optInt p',
    '  Chord_parse c p',
    '',
    '/-- `list.index(x)` on a list of notes: the first element `y` with `y.__eq__(x)` (`ValueError` when absent) -/',
    'def Note_list_index (l : List Note) (x : Note) : Res Int :=',
    '  match l.findIdx? (fun y => Note_deq y x) with',
    '  | some i => .ok (i : Int)',
    '  | none => .error .value',
    '',
    '/-- `a.union(set(b))` on tag sets kept as lists -/',
    'def tagsUnion (a b : List String) : List String := a ++ b.filter (fun t => !a.contains t)',
    '',
    '/-- `d[k] = v` on a chord\'s parts (a dict kept as an association list): an existing key keeps its place -/',
    'def partsSet (ps : List (String × Melody)) (k : String) (m : Melody) : List (String × Melody) :=',
    '  if ps.any (fun p => p.1 == k) then ps.map (fun p => if p.1 == k then (k, m) else p) else ps ++ [(k, m)]',
    '',
    '/-- `d.get(k, default)` on the dictionary of last pitches (values are `None` or a pitch) -/',
    'def lastGet (d : LastMap) (k : String) (dflt : Option Int) : Option Int := (d.lookup k).getD dflt',
    '',
    '/-- `Note.add_tags(tags)`: a copy whose tag set is the union -/',
    'def Note_add_tags (n : Note) (tags : List String) : Note := { n with tags := tagsUnion n.tags tags }',
    '',
    '/-- `Note.set_amp(amp)`: a copy; an int amplitude is stored, a float one truncated first (the model\'s `ampInt`) -/',
    'def Note_set_amp (n : Note) (amp : Rat) : Note := { n with amp := ampInt amp }',
    '',
]

NOTE_CTOR = dict(ty='Note', order=['type', 'val', 'octave', 'duration', 'mode', 'accident', 'amp', 'tags', 'tempo', 'pedal'],
                 fields=[('type', 'kind', 'Kind', None), ('val', 'val', 'Int', None), ('octave', 'oct', 'Int', None),
                         ('duration', 'dur', 'Rat', None), ('mode', 'mode', 'Option Mode', 'none'),
                         ('accident', 'acc', 'Option Acc', 'none'), ('amp', 'amp', 'Rat', '(66 : Rat)')], drop=[])
MELODY_CTOR = dict(ty='Melody', order=['notes', 'nb_bars', 'tags'], fields=[('notes', 'notes', 'Melody', None)],
                   drop=['nb_bars', 'tags'], wrap='{notes}')

LOCAL = dict(
    attrs={('Note', 'is_note'): ('{0}.kind.isNote', 'Bool'),
           ('Note', 'is_bass_note'): ('{0}.kind.isBass', 'Bool'),
           ('Note', 'is_chord_note'): ('{0}.kind.isChord', 'Bool'),
           ('Note', 'tags'): ('{0}.tags', 'List Str'),
           # the chord's own tones: model functions (their tie is the C01 / C02 correspondence)
           ('Chord', 'extension_notes'): ('Chord.extensionNotes {0}', 'Res (List Note)'),
           ('Chord', 'chord_notes'): ('Chord.chordNotes {0}', 'Res (List Note)'),
           ('Chord', 'bass_pitch'): ('Chord.bassPitch {0}', 'Res Int'),
           ('Melody', 'notes'): ('{0}', 'List Note'),
           ('Chord', 'score'): ('{0}.parts', 'Parts'),
           ('Score', 'chords'): ('{0}', 'List Chord'), ('List Chord', 'chords'): ('{0}', 'List Chord')},
    methods={('Chord', 'parse'): ('Chord_parse_opt {0} {1}', 'Res Note'),
             # `set_amp`: an int amplitude is stored, a float one truncated (the model's `ampInt`)
             ('Note', 'set_amp'): ('(Note_set_amp {0} {1})', 'Note'),
             ('Note', 'add_tags'): ('(Note_add_tags {0} {1})', 'Note'),
             # durations are in the library's resolution, where `limit_denominator(LIMIT_DENOM)` is the identity
             ('Rat', 'limit_denominator'): ('{0}', 'Rat'),
             # a chord's parts: the dict `chord.score` is the association list `parts` (names are unique in a dict)
             ('Parts', 'items'): ('{0}', 'List (String × Melody)'),
             ('Chord', 'items'): ('{0}.parts', 'List (String × Melody)'),
             # the dictionary of last pitches: `d.get(k, default)`
             ('LastMap', 'get'): ('(lastGet {0} {1} {2})', 'Option Int')},
    globals={'LIMIT_DENOM': ('(1000 : Int)', 'Int')},
    ctors={'Note': NOTE_CTOR, 'Melody': MELODY_CTOR,
           'Score': dict(ty='List Chord', order=['chords', 'config', 'tags'], fields=[('chords', 'chords', 'List Chord', None)],
                         drop=['config', 'tags'], wrap='{chords}')},
    fields={('Note', 'type'): ('kind', 'Kind'), ('Note', 'duration'): ('dur', 'Rat'), ('Note', 'mode'): ('mode', 'Option Mode'),
            ('Note', 'accident'): ('acc', 'Option Acc'), ('Note', 'amp'): ('amp', 'Rat'),
            ('Chord', 'score'): ('parts', 'Parts')},
    dict_types={'Parts': dict(key='Str', val='Melody', items='List (String × Melody)', set='(partsSet {0} {1} {2})'),
                'LastMap': dict(key='Str', val='Option Int', items='List (String × Option Int)', set='(LastMap.set {0} {1} {2})')},
    # `chord(**parts)`: same chord, new parts (C11's reading of `Chord.__call__`: part names `name__idx`, drum parts already hold drum notes)
    call_objects={'Chord': ('(Chord.withParts {0} {1})', 'Parts', 'Chord', ['tags'])},
    fresh_methods={('Note', 'set_duration'), ('Note', 'o'), ('Note', 'oabs'), ('Chord', 'o')},
    eq_index={'Note': 'Note_list_index {0} {1}'},
    none_arith='optInt {0}',
    copy_template={},
)
NONE_OPT = {'last_pitch': ('none', 'Option Int')}


def _e(py, name, lean, params, ret, **kw):
    d = dict(py=py, name=name, lean=lean, params=params, ret=ret, local_spec=LOCAL)
    d.update(kw)
    return d


N = 'musiclang.write.note:Note.'
M = 'musiclang.write.melody:Melody.'
C = 'musiclang.write.chord:Chord.'
PA = 'musiclang.analyze.pattern_analyzer:'
S = 'musiclang.write.score:Score.'
ENTRIES = [
    _e(C + 'to_pitch', 'Chord.to_pitch', 'Chord_to_pitch',
       [('self', 'Chord'), ('note', 'Note'), ('last_pitch', 'Option Int')], 'Option Int', attr=('Chord', 'to_pitch'),
       defaults=NONE_OPT,
       local_spec={**LOCAL, 'funs': {'note_to_pitch_result': dict(
           lean='note_to_pitch_result_opt', params=[('note', 'Note'), ('chord', 'Chord'), ('last_pitch', 'Option Int')],
           ret='Option Int', pure=False)}}),
    _e(N + 'set_duration', 'Note.set_duration', 'Note_set_duration', [('self', 'Note'), ('value', 'Rat')], 'Note',
       attr=('Note', 'set_duration')),
    _e(N + 'to_absolute_note', 'Note.to_absolute_note', 'Note_to_absolute_note',
       [('self', 'Note'), ('chord', 'Chord'), ('last_pitch', 'Option Int')], 'Note', attr=('Note', 'to_absolute_note'),
       defaults=NONE_OPT),
    _e(N + 'to_scale_note', 'Note.to_scale_note', 'Note_to_scale_note', [('self', 'Note'), ('chord', 'Chord')], 'Note',
       attr=('Note', 'to_scale_note')),
    _e(N + 'to_standard_note', 'Note.to_standard_note', 'Note_to_standard_note', [('self', 'Note'), ('chord', 'Chord')], 'Note',
       attr=('Note', 'to_standard_note')),
    _e(N + 'as_key', 'Note.as_key', 'Note_as_key', [('self', 'Note')], 'Note', attr=('Note', 'as_key'),
       fixed={'octave': ('false', 'Bool'), 'duration': ('false', 'Bool'), 'amp': ('false', 'Bool')}),
    _e(N + 'to_extension_note', 'Note.to_extension_note', 'Note_to_extension_note', [('self', 'Note'), ('chord', 'Chord')], 'Note',
       attr=('Note', 'to_extension_note')),
    _e(N + 'to_chord_note', 'Note.to_chord_note', 'Note_to_chord_note', [('self', 'Note'), ('chord', 'Chord')], 'Note',
       attr=('Note', 'to_chord_note')),
    _e(M + 'to_absolute_note', 'Melody.to_absolute_note', 'Melody_to_absolute_note',
       [('self', 'Melody'), ('chord', 'Chord'), ('last_pitch', 'Option Int')], 'Melody × Option Int',
       attr=('Melody', 'to_absolute_note'), defaults=NONE_OPT, fixed={'return_last_pitch': ('true', 'Bool')}),
    _e(M + 'to_scale_notes', 'Melody.to_scale_notes', 'Melody_to_scale_notes', [('self', 'Melody'), ('chord', 'Chord')], 'Melody',
       attr=('Melody', 'to_scale_notes')),
    _e(M + 'to_standard_note', 'Melody.to_standard_note', 'Melody_to_standard_note', [('self', 'Melody'), ('chord', 'Chord')],
       'Melody', attr=('Melody', 'to_standard_note')),
    _e(M + 'to_extension_note', 'Melody.to_extension_note', 'Melody_to_extension_note', [('self', 'Melody'), ('chord', 'Chord')],
       'Melody', attr=('Melody', 'to_extension_note')),
    _e(M + 'to_chord_note', 'Melody.to_chord_note', 'Melody_to_chord_note', [('self', 'Melody'), ('chord', 'Chord')],
       'Melody', attr=('Melody', 'to_chord_note')),
    _e(PA + '_o_chord_relative_notes', '_o_chord_relative_notes', 'o_chord_relative_notes',
       [('melody', 'Melody'), ('octave', 'Int')], 'Melody'),
    _e(PA + 'inverse_recursive_correct_octave', 'inverse_recursive_correct_octave', 'inverse_recursive_correct_octave',
       [('chord', 'Chord')], 'Chord', recursive=True),
    _e(C + 'correct_chord_octave', 'Chord.correct_chord_octave', 'Chord_correct_chord_octave', [('self', 'Chord')], 'Chord',
       attr=('Chord', 'correct_chord_octave'), fuel=True),
    _e(C + 'to_scale_notes', 'Chord.to_scale_notes', 'Chord_to_scale_notes', [('self', 'Chord')], 'Chord',
       attr=('Chord', 'to_scale_notes')),
    _e(C + 'to_standard_note', 'Chord.to_standard_note', 'Chord_to_standard_note', [('self', 'Chord')], 'Chord',
       attr=('Chord', 'to_standard_note')),
    _e(C + 'to_extension_note', 'Chord.to_extension_note', 'Chord_to_extension_note', [('self', 'Chord')], 'Chord',
       attr=('Chord', 'to_extension_note')),
    _e(C + 'to_chord_note', 'Chord.to_chord_note', 'Chord_to_chord_note', [('self', 'Chord')], 'Chord',
       attr=('Chord', 'to_chord_note')),
    _e(C + 'to_absolute_note', 'Chord.to_absolute_note', 'Chord_to_absolute_note', [('self', 'Chord'), ('last_pitch', 'LastMap')],
       'Chord × LastMap', attr=('Chord', 'to_absolute_note'), fixed={'return_last_pitch': ('true', 'Bool')}, owned=['last_pitch']),
    _e(S + 'to_absolute_note', 'Score.to_absolute_note', 'Score_to_absolute_note', [('self', 'Score')], 'List Chord',
       attr=('Score', 'to_absolute_note')),
    _e(S + 'to_scale_note', 'Score.to_scale_note', 'Score_to_scale_note', [('self', 'Score')], 'List Chord'),
    _e(S + 'to_standard_note', 'Score.to_standard_note', 'Score_to_standard_note', [('self', 'Score')], 'List Chord'),
    _e(S + 'to_extension_note', 'Score.to_extension_note', 'Score_to_extension_note', [('self', 'Score')], 'List Chord'),
    _e(S + 'to_chord_note', 'Score.to_chord_note', 'Score_to_chord_note', [('self', 'Score')], 'List Chord'),
    _e(S + 'correct_chord_octave', 'Score.correct_chord_octave', 'Score_correct_chord_octave', [('self', 'Score')], 'List Chord',
       fuel=True),
]

TIE = dict(gen=['SrcRel', 'SrcPitch', 'SrcTonality', 'SrcOps', 'SrcConv'], modules=['MV.Props.TieSrcConv'],
           kernels=['topitch', 'nconv', 'mconv', 'cconv', 'sconv'], driver='SrcConv')

# ------------------------------------------------------------------------------------------------ kernel-level inputs
PALETTES = [
    [Fraction(4), Fraction(2), Fraction(1), Fraction(1, 2), Fraction(1, 4), Fraction(3), Fraction(3, 2), Fraction(3, 4), Fraction(1, 8)],
    [Fraction(2), Fraction(1), Fraction(1, 2), Fraction(4, 3), Fraction(2, 3), Fraction(1, 3)],
    [Fraction(2), Fraction(1), Fraction(2, 5), Fraction(1, 5), Fraction(4, 7)],
    [Fraction(11, 8), Fraction(7, 3), Fraction(5, 4), Fraction(9, 2), Fraction(10), Fraction(13, 3)],
]
PART_POOL = ['piano__0', 'violin__0', 'piano__2', 'flute__1', 'cello__3', 'violin__1']
ALL_KINDS = ['s', 'h', 'c', 'b', 'a', 'su', 'sd', 'hu', 'hd', 'cu', 'cd', 'bu', 'bd', 'd', 'x', 'r', 'l']


def _amp_frac(a):
    return Fraction(*a.as_integer_ratio()) if isinstance(a, float) else Fraction(a)


def _show_note(n):
    from core import frac_str
    return (f'({n.type} {int(n.val)} {int(n.octave)} {frac_str(n.duration)} {n.mode or "-"} {n.accident or "-"} '
            f'{frac_str(_amp_frac(n.amp))})')


def _show_melody(m):
    return '(' + ' '.join(_show_note(n) for n in m.notes) + ')'


def _show_chord(c):
    return (f'(c {int(c.element)} {int(c.tonality.degree)} {c.tonality.mode} {int(c.tonality.octave)} {int(c.octave)} '
            + ' '.join(f'({k} {_show_melody(m)})' for k, m in c.score.items()) + ')')


def _show_score(s):
    return '(' + ' '.join(_show_chord(c) for c in s.chords) + ')'


def _note(rng, kinds=None, durs=None):
    """a note of any of the 17 kinds; wide values / octaves, accidentals (also on values the table does not have),
    per-note modes (also on absolute notes), int and float amplitudes"""
    import gen
    k = rng.choice(kinds or ALL_KINDS)
    d = rng.choice(durs or rng.choice(PALETTES))
    wide = rng.random() < 0.1
    n = gen.rand_note(rng, kinds=[k], vals=(-40, 40) if wide else (-15, 15), octs=(-6, 6) if wide else (-3, 3),
                      p_acc=0.3, p_mode=0.3, dur=d)
    if k == 'a' and rng.random() < 0.2:
        n.mode = rng.choice(gen.MODES)
    if k in ('a', 'h', 'c', 'b') and rng.random() < 0.1:
        n.accident = rng.choice(gen.ACCS)
    if n.accident is not None and rng.random() < 0.1:
        n.val = rng.choice([-1, 7, 8, 12])          # not a key of ACCIDENTS_TO_NOTE
    x = rng.random()
    if x < 0.25:
        n.amp = rng.choice([0, 1, 30, 100, 127])
    elif x < 0.4:
        n.amp = rng.choice([66.5, 80.25, 0.75, 119.99])
    return n


def _last(rng):
    return rng.choice([None, rng.randint(-40, 60), rng.randint(-40, 60), rng.choice([-121, -1, 0, 11, 12, 119])])


def _melody(rng, lo=0, hi=5, kinds=None):
    from musiclang import Melody
    durs = rng.choice(PALETTES)
    if rng.random() < 0.05:
        hi += 8
    return Melody([_note(rng, kinds=kinds, durs=durs) for _ in range(rng.randint(lo, hi))])


def _chord(rng, far=False):
    import gen
    c, _ = gen.rand_chord(rng, octaves=(-2, 2), max_mods=2)
    if far:
        x = rng.random()
        if x < 0.5:
            c.octave = rng.randint(-9, 9)
        elif x < 0.6:
            c.octave = rng.choice([-80, -41, 37, 80])          # many correction steps (still far from the recursion limit)
    return c


def _full_chord(rng, far=False, kinds=None):
    from musiclang import Chord, Melody
    c = _chord(rng, far=far)
    x = rng.random()
    names = [] if x < 0.08 else rng.sample(PART_POOL, rng.randint(1, 4 if rng.random() < 0.1 else 3))
    sc = {p: _melody(rng, kinds=kinds) for p in names}
    if names and rng.random() < 0.15:
        # a drum part: `chord(**parts)` converts its notes to drum notes; the binding `Chord.withParts` (C11's reading of
        # `Chord.__call__`) covers drum parts that already hold drum notes / rests / continuations, and at least one of them
        sc['drums_0__0'] = _melody(rng, lo=1, kinds=['d', 'd', 'r', 'l'])
    return Chord(c.element, extension=c.extension, tonality=c.tonality, score=sc, octave=c.octave)


def cases(rng, kernel, n):
    """list of (request tail, impl string, jsonable input, buckets)"""
    from core import py_res, enc_note, enc_chord, enc_melody, enc_score, show_opt_int, frac_str, SX, sx
    out = []
    lastb = lambda l: 'last=none' if l is None else 'last=some'
    if kernel == 'topitch':
        for i in range(n):
            c, nt, l = _chord(rng), _note(rng, kinds=[ALL_KINDS[i % len(ALL_KINDS)]]), _last(rng)
            impl = py_res(lambda: c.to_pitch(nt, last_pitch=l), show_opt_int)
            out.append(([enc_chord(c, with_parts=False), enc_note(nt), l], impl,
                        {'chord': str(c), 'note': enc_note(nt).s, 'last': l},
                        [f'kind={nt.type}', lastb(l), f'acc={nt.accident is not None}'] + (['ERR'] if impl.startswith('ERR') else [])))
    elif kernel == 'nconv':
        ops = ['abs', 'scale', 'std', 'ext', 'chord', 'askey', 'setdur']
        for i in range(n):
            op = ops[(i // len(ALL_KINDS)) % len(ops)] if i % 11 else rng.choice(ops[:5])
            c, nt, l = _chord(rng), _note(rng, kinds=[ALL_KINDS[i % len(ALL_KINDS)]]), _last(rng)
            d = rng.choice(rng.choice(PALETTES))
            f = {'abs': lambda: nt.to_absolute_note(c, last_pitch=l), 'scale': lambda: nt.to_scale_note(c),
                 'std': lambda: nt.to_standard_note(c), 'ext': lambda: nt.to_extension_note(c),
                 'chord': lambda: nt.to_chord_note(c), 'askey': lambda: nt.as_key(), 'setdur': lambda: nt.set_duration(d)}[op]
            impl = py_res(f, _show_note)
            out.append(([op, enc_chord(c, with_parts=False), enc_note(nt), l, d], impl,
                        {'op': op, 'chord': str(c), 'note': enc_note(nt).s, 'last': l, 'dur': frac_str(d)},
                        [f'op={op}', f'kind={nt.type}', lastb(l)] + (['acc'] if nt.accident else []) + (['notemode'] if nt.mode else [])
                        + (['ERR'] if impl.startswith('ERR') else [])))
    elif kernel == 'mconv':
        ops = ['abs', 'abs', 'scale', 'std', 'ext', 'chord', 'orel']
        for i in range(n):
            op = ops[i % len(ops)]
            c, l, k = _chord(rng), _last(rng), rng.randint(-3, 3)
            # half of the melodies for `abs` start on a referenced note, so that the loop threads a pitch through relative notes
            m = _melody(rng, kinds=(['s', 'h', 'c', 'b', 'a', 'su', 'sd', 'cu', 'bd', 'hu', 'r', 'l'] if (op == 'abs' and i % 2) else None))
            if op == 'abs':
                f = lambda: (lambda r: _show_melody(r[0]) + ' ' + show_opt_int(r[1]))(
                    m.to_absolute_note(c, last_pitch=l, return_last_pitch=True))
            elif op == 'orel':
                from musiclang.analyze.pattern_analyzer import _o_chord_relative_notes
                f = lambda: _show_melody(_o_chord_relative_notes(m, k))
            else:
                meth = {'scale': 'to_scale_notes', 'std': 'to_standard_note', 'ext': 'to_extension_note', 'chord': 'to_chord_note'}[op]
                f = lambda: _show_melody(getattr(m, meth)(c))
            impl = py_res(f)
            out.append(([op, enc_chord(c, with_parts=False), enc_melody(m), l, k], impl,
                        {'op': op, 'chord': str(c), 'melody': [enc_note(x).s for x in m.notes], 'last': l, 'k': k},
                        [f'op={op}', f'len={min(len(m.notes), 6)}', lastb(l)] + (['ERR'] if impl.startswith('ERR') else [])))
    elif kernel == 'cconv':
        from musiclang.analyze.pattern_analyzer import inverse_recursive_correct_octave
        ops = ['scale', 'std', 'ext', 'chord', 'cco', 'irco', 'cco', 'abs', 'abs']
        show_lm = lambda d: '(' + ' '.join(f'({k} {show_opt_int(v)})' for k, v in d.items()) + ')'
        for i in range(n):
            op = ops[i % len(ops)]
            octave = op in ('cco', 'irco')
            c = _full_chord(rng, far=octave, kinds=(['s', 'h', 'c', 'b', 'a', 'x', 'd', 'r', 'l', 'su', 'bd'] if i % 3 else None))
            lm = {}
            if op == 'abs':
                # the dictionary of last pitches: some of the chord's parts (so that relative notes have a reference), other parts, None values
                for k_ in rng.sample(PART_POOL, rng.randint(0, 3)) + [p_ for p_ in c.score if rng.random() < 0.6]:
                    lm[k_] = rng.choice([None, rng.randint(-30, 50), rng.randint(-30, 50)])
            lm_enc = [[k_, v_] for k_, v_ in lm.items()]
            if op == 'abs':
                f = lambda: (lambda r: _show_chord(r[0]) + ' ' + show_lm(r[1]))(c.to_absolute_note(last_pitch=dict(lm), return_last_pitch=True))
            elif op == 'irco':
                f = lambda: _show_chord(inverse_recursive_correct_octave(c))
            else:
                meth = {'scale': 'to_scale_notes', 'std': 'to_standard_note', 'ext': 'to_extension_note', 'chord': 'to_chord_note',
                        'cco': 'correct_chord_octave'}[op]
                f = lambda: _show_chord(getattr(c, meth)())
            enc = enc_chord(c)
            impl = py_res(f)
            b = [f'op={op}', f'parts={len(c.score)}'] + (['ERR'] if impl.startswith('ERR') else [])
            if octave:
                bass = py_res(lambda: int(c.bass_pitch))
                b.append('bass=' + ('err' if bass.startswith('ERR') else ('high' if int(bass) > 6 else ('low' if int(bass) <= -6 else 'in-range'))))
                if not bass.startswith('ERR'):
                    b.append('steps=' + str(min(abs(int(bass)) // 12, 5)) + ('+' if abs(int(bass)) // 12 >= 5 else ''))
            if op == 'abs':
                b.append(f'lm={len(lm)}')
            out.append(([op, enc, lm_enc], impl, {'op': op, 'chord': enc.s, 'last': lm_enc}, b))
    elif kernel == 'sconv':
        from musiclang import Score
        ops = ['std', 'ext', 'chord', 'cco', 'abs', 'scale']
        for i in range(n):
            op = ops[i % len(ops)]
            if op in ('abs', 'scale'):
                # every part starts on a note that needs no reference in most cases, so that the last pitches are threaded across chords
                chords, seen = [], set()
                for _ in range(rng.choice([0, 1, 2, 2, 3, 3])):
                    c = _full_chord(rng, kinds=['s', 'h', 'c', 'b', 'a', 'su', 'sd', 'cu', 'bd', 'hu', 'r', 'l', 'd'])
                    for k_, m_ in c.score.items():
                        if k_ not in seen and not k_.startswith('drums') and rng.random() < 0.85:
                            m_.notes.insert(0, _note(rng, kinds=['s', 'h', 'c', 'b', 'a']))
                        seen.add(k_)
                    chords.append(c)
                sc = Score(chords)
            else:
                sc = Score([_full_chord(rng, far=(op == 'cco'), kinds=(['s', 'h', 'c', 'b', 'a', 'x', 'd', 'r', 'l', 'su', 'bd'] if i % 5 else None))
                            for _ in range(rng.choice([0, 1, 1, 2, 2, 3]))])
            meth = {'std': 'to_standard_note', 'ext': 'to_extension_note', 'chord': 'to_chord_note', 'cco': 'correct_chord_octave',
                    'abs': 'to_absolute_note', 'scale': 'to_scale_note'}[op]
            enc = enc_score(sc)
            impl = py_res(lambda: _show_score(getattr(sc, meth)()))
            out.append(([op, enc], impl, {'op': op, 'score': enc.s},
                        [f'op={op}', f'chords={len(sc.chords)}'] + (['ERR'] if impl.startswith('ERR') else [])))
    else:
        raise KeyError(kernel)
    return out
