"""Source-tie group `SrcExt` (DESIGN.md §9.6), serving C02: the extension machinery of `musiclang/write/chord.py`.

Translated from the AST (py2lean): `Chord._chord_notes_calc` (the list surgery: three loops over replacements, additions,
removals with index-assignment / insert / pop on two parallel lists, a dict keyed by notes, an argument that is appended
to, and the final stable `sorted(..., key=self.to_pitch)`), `chord_notes`, `extension_notes`, `chord_pitches`,
`chord_extension_pitches`, `bass_pitch`, `get_inversion_index`, `normalize_extension`, `invert`, `to_root_extension`,
the text builder `properties_to_extension` and the text parser `get_extension_properties` (its three `re.findall` patterns
bound to `findGroups` of MV/Model/ExtText.lean).

Spec bindings (trusted; each is what a correspondence stream of C02 checks):
  * the *parsing* step `self.get_extension_properties()` is bound to the structured model `Ext.props` (figure as text);
  * `self.properties_to_extension(f, r, a, m)` as the *argument of `self[...]`* is bound to the structured extension and
    `self[...]` (`Chord.__getitem__`: set, validate, normalise) to the model's `Chord.withExt` — the model skips the
    round trip through text (stream `ext` of C02 compares the normalised texts);
  * `self.to_pitch(n)` ↦ `Chord.toPitch c n none`, `n.o(k)` ↦ `Note.o` (tied in group `SrcOps`), `Note.__eq__` ↦ `Note.pyEq`
    (tied in `SrcOps`), the dictionaries `BASE_EXTENSION_DICT`, `BASE_CHORDAL_TRANSLATION_DICT`, `DICT_REPLACEMENT`,
    `DICT_ADDITION`, `DICT_REMOVAL` ↦ the generated tables of `MV.Gen.Library` (by value).
Table notes carry the type name `TNote` and `self` the type name `XChord` (abbreviations of `Note` / `Chord`), so that these
bindings stay private to the group; the only shared additions to the spec are new keys: `str.join` / `split` / `replace`,
`re.findall`, the five dictionaries.
"""
import sys
sys.dont_write_bytecode = True

NAME = 'SrcExt'
CH = 'musiclang.write.chord:Chord.'
_SELF = ('self', 'XChord')       # `Chord` under a name of its own: the bindings below stay private to this group
_PROPS = [('extension', 'Str'), ('replacements', 'List String'), ('additions', 'List String'), ('removals', 'List String')]
ENTRIES = [
    dict(py=CH + '_chord_notes_calc', name='Chord._chord_notes_calc', lean='Chord_chord_notes_calc',
         params=[_SELF] + _PROPS, ret='List TNote', owned=['additions'], attr=('XChord', '_chord_notes_calc')),
    dict(py=CH + 'chord_notes', name='Chord.chord_notes', lean='Chord_chord_notes', params=[_SELF], ret='List TNote',
         attr=('XChord', 'chord_notes')),
    dict(py=CH + 'extension_notes', name='Chord.extension_notes', lean='Chord_extension_notes', params=[_SELF],
         ret='List TNote', attr=('XChord', 'extension_notes')),
    dict(py=CH + 'chord_pitches', name='Chord.chord_pitches:src', lean='Chord_chord_pitches', params=[_SELF],
         ret='List (Option Int)'),
    dict(py=CH + 'chord_extension_pitches', name='Chord.chord_extension_pitches:src', lean='Chord_chord_extension_pitches',
         params=[_SELF], ret='List (Option Int)'),
    dict(py=CH + 'bass_pitch', name='Chord.bass_pitch', lean='Chord_bass_pitch', params=[_SELF], ret='Int'),
    dict(py=CH + 'get_inversion_index', name='Chord.get_inversion_index', lean='Chord_get_inversion_index', params=[_SELF],
         ret='Int'),
    dict(py=CH + 'normalize_extension', name='Chord.normalize_extension', lean='Chord_normalize_extension', params=[_SELF],
         ret='Ext'),
    dict(py=CH + 'invert', name='Chord.invert', lean='Chord_invert', params=[_SELF, ('inversion', 'Int')], ret='XChord'),
    dict(py=CH + 'to_root_extension', name='Chord.to_root_extension', lean='Chord_to_root_extension', params=[_SELF],
         ret='XChord'),
    dict(py=CH + 'properties_to_extension', name='Chord.properties_to_extension:text', lean='Chord_properties_to_extension',
         params=[_SELF] + _PROPS, ret='Str'),
    # the text parser itself, on the chord reduced to its extension text (type `ExtText`); the three regexes are bound to
    # `findGroups` of MV/Model/ExtText.lean, everything around them is translated
    dict(py=CH + 'get_extension_properties', name='Chord.get_extension_properties:text', lean='Chord_get_extension_properties',
         params=[('self', 'ExtText')], ret='String × List String × List String × List String'),
]
IMPORTS = ['MV.Model.PyList', 'MV.Model.ExtText']
PRELUDE = [
    '/-- a note of the library\'s extension tables / the chord `self`: the values of `Note` / `Chord` under names of their own,',
    'so that the spec bindings of this group (`n.o(k)`, `==`, `self.to_pitch`, `self[...]`, …) do not reach other groups -/',
    'abbrev TNote := Note',
    'abbrev XChord := Chord',
    '',
    '/-- `BASE_EXTENSION_DICT[extension]`, the figure given as text (`KeyError` for a text that is not a figure) -/',
    'def baseExt (s : String) : Res (List TNote) :=',
    '  match Fig.ofStr? s with',
    '  | some f => (match Gen.BASE_EXTENSION_DICT f with | some l => .ok l | none => .error .key)',
    '  | none => .error .key',
    '',
    '/-- `BASE_CHORDAL_TRANSLATION_DICT[extension]` -/',
    'def chordalIdx (s : String) : Res Int :=',
    '  match Fig.ofStr? s with',
    '  | some f => (match Gen.BASE_CHORDAL_TRANSLATION_DICT f with | some i => .ok i | none => .error .key)',
    '  | none => .error .key',
    '',
    '/-- a chord seen by the text parser: its `extension` string -/',
    'abbrev ExtText := String',
    '',
    '/-- `re.findall(pattern, s)` for the three patterns of `get_extension_properties` (non-greedy bracket groups, left to',
    'right): `findGroups` of `MV/Model/ExtText.lean`; any other pattern is outside the binding -/',
    'def reFindall (pat s : String) : Res (List String) :=',
    '  if pat = "\\\\((.*?)\\\\)" then .ok (findGroups \'(\' \')\' s.toList)',
    '  else if pat = "\\\\[(.*?)\\\\]" then .ok (findGroups \'[\' \']\' s.toList)',
    '  else if pat = "\\\\{(.*?)\\\\}" then .ok (findGroups \'{\' \'}\' s.toList)',
    '  else .error .other',
    '',
    '/-- spec binding of the parsing step `Chord.get_extension_properties()`: the structured model, figure as text -/',
    'def extProps (c : XChord) : String × List String × List String × List String :=',
    '  (c.ext.fig.toStr, sortStrs c.ext.repl, sortStrs c.ext.add, sortStrs c.ext.rem)',
    '',
    '/-- spec binding of `properties_to_extension(...)` where it is the argument of `self[...]`: the structured extension',
    '(an unknown figure is the `KeyError` that `__getitem__` raises from `BASE_EXTENSION_DICT`) -/',
    'def propsToExt (s : String) (r a m : List String) : Res Ext :=',
    '  match Fig.ofStr? s with',
    '  | some f => .ok { fig := f, repl := r, add := a, rem := m }',
    '  | none => .error .key',
    '',
]


def extend_spec(sp):
    sp.subscripts.update({
        'BASE_EXTENSION_DICT': ('baseExt {0}', 'String', 'Res (List TNote)'),
        'BASE_CHORDAL_TRANSLATION_DICT': ('chordalIdx {0}', 'String', 'Res Int'),
        'DICT_REPLACEMENT': ('lookupKey {0} Gen.DICT_REPLACEMENT', 'String', 'Res (TNote × TNote)'),
        'DICT_ADDITION': ('lookupKey {0} Gen.DICT_ADDITION', 'String', 'Res (TNote × TNote)'),
        'DICT_REMOVAL': ('lookupKey {0} Gen.DICT_REMOVAL', 'String', 'Res TNote'),
    })
    sp.attrs[('TNote', 'octave')] = ('{0}.oct', 'Int')
    sp.methods.update({
        ('TNote', 'o'): ('(Note.o {0} {1})', 'TNote'),
        ('XChord', 'to_pitch'): ('Chord.toPitch {0} {1} none', 'Res (Option Int)'),
        ('XChord', 'get_extension_properties'): ('(extProps {0})', 'Str × List String × List String × List String'),
        ('XChord', 'properties_to_extension'): ('propsToExt {1} {2} {3} {4}', 'Res Ext'),
        ('Str', 'join'): ('(PyL.strJoin {0} {1})', 'Str'),
        ('Str', 'split'): ('(PyL.strSplit {0} {1})', 'List String'),
        ('Str', 'replace'): ('(PyL.strReplace {0} {1} {2})', 'String'),
        ('String', 'replace'): ('(PyL.strReplace {0} {1} {2})', 'String'),
        ('PyRe', 'findall'): ('reFindall {1} {2}', 'Res (List String)'),
    })
    sp.attrs[('ExtText', 'extension')] = ('{0}', 'Str')
    sp.globals['re'] = ('()', 'PyRe')
    sp.index_methods['XChord'] = ('Chord.withExt {0} {1}', 'Ext', 'Res XChord')
    sp.attrs[('XChord', 'chord_extension_pitches')] = ('Chord.extensionPitches {0}', 'Res (List Int)')   # as in the base spec
    sp.eq['TNote'] = '(Note.pyEq {0} {1})'


KERNELS = ['xcalc', 'xcnotes', 'xenotes', 'xcp', 'xep', 'xbass', 'xinvidx', 'xnorm', 'xinv', 'xroot', 'xp2e', 'xprops']
TIE = dict(gen=['SrcExt'], modules=['MV.Props.TieSrcExt'], kernels=KERNELS, driver='SrcExt')
HELPERS = ['MV.Lemmas.TieSrcExtLemmas', 'MV.Model.PyList']


UNKNOWN_MODS = ['foo', 'b9', 'add8', 'sus']      # not keys of the modifier dictionaries (KeyError), no substring of a figure
BAD_FIGS = ['8', '42', 'x', '56']


def _mods(rng, kmax=4, p_unknown=0.06):
    """three modifier lists in random written order: keys of the live dictionaries (valid or not for the figure),
    now and then an unknown name or a duplicate"""
    import gen
    R, A, M = gen.modifier_keys()
    r, a, m = [], [], []
    for _ in range(rng.choice([0, 0, 1, 1, 1, 2, 2, 3, kmax])):
        k = rng.random()
        tgt, pool = (r, R) if k < 0.4 else (a, A) if k < 0.8 else (m, M)
        if rng.random() < p_unknown:
            tgt.append(rng.choice(UNKNOWN_MODS))
        elif tgt and rng.random() < 0.05:
            tgt.append(rng.choice(tgt))                # written twice
        else:
            tgt.append(rng.choice(pool))
    return r, a, m


def _chord(rng, figs=None):
    """a chord of the library with an extension text built from the dictionaries (not validated: error branches are
    wanted); None when the library's text parser and the harness tokenizer read the text differently (the parsing step
    is a spec binding of this group, C02's stream `ext` is what compares it)"""
    import gen, core
    from musiclang import Chord
    fig = rng.choice(figs or gen.FIGS)
    r, a, m = _mods(rng)
    groups = ['(' + x + ')' for x in r] + ['[' + x + ']' for x in a] + ['{' + x + '}' for x in m]
    rng.shuffle(groups)
    c = Chord(rng.randrange(7), extension=fig + ''.join(groups), tonality=gen.rand_tonality(rng, octaves=(-2, 2)),
              octave=rng.choice([0, 0, 0, 1, -1, 2, -3]))
    f2, r2, a2, m2 = core.split_ext(c.extension)
    if f2 not in gen.FIGS or tuple(c.get_extension_properties()) != (f2, sorted(r2), sorted(a2), sorted(m2)):
        return None
    return c


def _balanced(text):
    import re
    return not any(ch in re.sub(r'\([^()\[\]{}]*\)|\[[^()\[\]{}]*\]|\{[^()\[\]{}]*\}', '', text) for ch in '()[]{}')


def _text(rng):
    """extension texts for the parser: mostly what the library writes, plus its quirks (a `|` suffix, empty / nested /
    unbalanced brackets, a modifier that is a substring of another or of the figure, repeated groups, the empty text)"""
    import gen
    k = rng.random()
    text = gen.rand_ext_text(rng, max_mods=4, p_plain=0.15)
    if k < 0.55:
        return text
    if k < 0.65:
        return text + '|' + rng.choice(['', 'x', '(sus2)', '7[add2]'])
    if k < 0.75:
        return text + rng.choice(['()', '[]', '{}', '(', ']', '{-1', '([add2])', '(sus2)(sus2)', '{-1}{-11}', '[6]', '(7)'])
    if k < 0.85:
        i = rng.randrange(len(text) + 1)
        return text[:i] + rng.choice(['(', ')', '[', ']', '{', '}', '|', 'x', '6']) + text[i:]
    if k < 0.9:
        return ''
    return ''.join(rng.choice(['(', ')', '[', ']', '{', '}', '7', '6', 'a', '-1', 'sus2', '|']) for _ in range(rng.randint(1, 7)))


def _show_notes(ns):
    return '(' + ' '.join(f'({x.type} {int(x.val)} {int(x.octave)})' for x in ns) + ')'


def _show_opt_ints(l):
    return '(' + ' '.join('None' if x is None else str(int(x)) for x in l) + ')'


def _fresh(c):
    """the same chord without any cached property"""
    from musiclang import Chord
    return Chord(c.element, extension=c.extension, tonality=c.tonality, octave=c.octave)


def cases(rng, kernel, n):
    """list of (request tail, impl string, jsonable input, buckets)"""
    import gen, core
    from core import py_res, enc_chord
    from musiclang import Chord
    out = []
    tries = 0
    while len(out) < n and tries < 20 * n + 100:
        tries += 1
        if kernel == 'xprops':
            text = _text(rng)
            c = Chord(0)
            c.extension = text                       # the constructor would normalise it
            atom = lambda x: '""' if x == '' else x
            show = lambda p: '(' + atom(p[0]) + ' ' + ' '.join('(' + ' '.join(atom(x) for x in l) + ')' for l in p[1:]) + ')'
            impl = py_res(lambda: show(c.get_extension_properties()))
            out.append(([core.SX(atom(text.replace('(', '<').replace(')', '>')))], impl, {'text': text},
                        ['bar' if '|' in text else 'nobar', 'balanced' if _balanced(text) else 'unbalanced',
                         f'groups={min(sum(text.count(ch) for ch in "([{"), 4)}']))
            continue
        if kernel in ('xcalc', 'xp2e'):
            c = Chord(rng.randrange(7), tonality=gen.rand_tonality(rng, octaves=(-2, 2)), octave=rng.choice([0, 0, 1, -1, 3]))
            fig = rng.choice(gen.FIGS) if (kernel == 'xp2e' or rng.random() < 0.93) else rng.choice(BAD_FIGS)
            r, a, m = _mods(rng, kmax=5, p_unknown=0.08)
            if rng.random() < 0.5:
                r, a, m = sorted(r), sorted(a), sorted(m)       # as the call sites pass them
            inp = {'elem': int(c.element), 'ton': str(c.tonality), 'coct': int(c.octave), 'fig': fig, 'repl': r, 'add': a, 'rem': m}
            tail = [enc_chord(c, with_parts=False), fig, r, a, m]
            b = [f'fig={fig if fig in gen.FIGS else "bad"}', f'mods={min(len(r) + len(a) + len(m), 4)}']
            if kernel == 'xcalc':
                aa = list(a)                              # the function appends to the list it is given
                impl = py_res(lambda: _show_notes(c._chord_notes_calc(fig, list(r), aa, list(m))))
                L = gen.lib()
                b.append('repl->add' if len(aa) > len(a) else 'repl-in-place')
                if any(x in L.DICT_ADDITION and any(y in L.DICT_REPLACEMENT and L.DICT_REPLACEMENT[y][0] == L.DICT_ADDITION[x][0]
                                                    for y in r) for x in a):
                    b.append('anchor-replaced')
                if len(set(r)) < len(r) or len(set(a)) < len(a) or len(set(m)) < len(m):
                    b.append('duplicate')
            else:
                impl = py_res(lambda: '"' + c.properties_to_extension(fig, list(r), list(a), list(m)) + '"')
            b.append('res=' + (impl[4:] if impl.startswith('ERR:') else 'ok'))
            out.append((tail, impl, inp, b))
            continue
        figs = None
        if kernel in ('xinv', 'xroot') and rng.random() < 0.7:
            figs = gen.PLAIN_INVERTIBLE
        c = _chord(rng, figs)
        if c is None:
            continue
        fig, r, a, m = core.split_ext(c.extension)
        inp = {'elem': int(c.element), 'ext': c.extension, 'ton': str(c.tonality), 'coct': int(c.octave)}
        tail = [enc_chord(c, with_parts=False)]
        f = _fresh(c)
        if kernel == 'xcnotes':
            impl = py_res(lambda: _show_notes(f.chord_notes))
        elif kernel == 'xenotes':
            impl = py_res(lambda: _show_notes(f.extension_notes))
        elif kernel == 'xcp':
            impl = py_res(lambda: _show_opt_ints(f.chord_pitches))
        elif kernel == 'xep':
            impl = py_res(lambda: _show_opt_ints(f.chord_extension_pitches))
        elif kernel == 'xbass':
            impl = py_res(lambda: str(int(f.bass_pitch)))
        elif kernel == 'xinvidx':
            impl = py_res(lambda: str(int(f.get_inversion_index())))
        elif kernel == 'xnorm':
            impl = py_res(lambda: '"' + f.normalize_extension() + '"')
        elif kernel == 'xinv':
            k = rng.choice([0, 1, 2, 3, 4, -1, -2, -3, -4, rng.randint(-9, 9), rng.choice([-1000, 999, 12, -12])])
            tail.append(k)
            inp['k'] = k
            impl = py_res(lambda: '"' + f.invert(k).extension + '"')
        elif kernel == 'xroot':
            impl = py_res(lambda: '"' + f.to_root_extension().extension + '"')
        else:
            raise KeyError(kernel)
        b = [f'fig={fig}', f'mods={min(len(r) + len(a) + len(m), 4)}', 'res=' + (impl[4:] if impl.startswith('ERR:') else 'ok')]
        if kernel == 'xinv':
            b.append('k<0' if inp['k'] < 0 else 'k=0' if inp['k'] == 0 else 'k>0')
        out.append((tail, impl, inp, b))
    return out
