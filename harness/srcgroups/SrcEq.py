"""Source-tie group `SrcEq` (DESIGN.md §9.6), serving C20: equality, hash keys and copies of notes, melodies, tonalities,
chords and scores, translated from the AST of note.py / melody.py / tonality.py / chord.py / score.py and proved equal to the
hand-written model `MV/Model/Equality.lean` (`MV/Props/TieSrcEq.lean`).

Translated (31 functions):
  note.py     : Note.__hash__ (the tuple it hashes), Note.copy, Silence.copy, Continuation.copy
  melody.py   : Melody.to_code, __repr__, __hash__ (the text it hashes), __eq__, copy
  tonality.py : Tonality.degree_to_str, to_code, __repr__, __hash__ (key), copy
  chord.py    : Chord.element_to_str, extension_to_str, tonality_to_str, to_code, melody_to_str, __repr__, __hash__ (key),
                chord_equals, score_equals, __eq__, copy
  score.py    : Score.__eq__, copy, __repr__
(`Note.__eq__` and `Tonality.__eq__` are translated and tied in the groups SrcOps / SrcTonality.)

Spec bindings (trusted; each is what a correspondence stream of C20 compares):
  * `hash(k)` ↦ the key `k` itself (`PyE.hashKey`): Python's `hash` is not modelled, the tie is on what is hashed;
  * `note.to_code()` ↦ `Eq.noteCode` (the note printer — amplitude figures, rhythmic suffixes — is hand-written and tied by the
    streams `code` / `eq` of C20); everything above it (`" + ".join`, the chord / tonality / score printers, f-strings) is translated;
  * `str(melody)` / `str(chord)` ↦ the translated `__repr__` (neither class defines `__str__`);
  * `chord.extension` ↦ the stored, normalised extension `c.ext.normalize` (type `ExtS`; `str(·)`, `{·}` in an f-string and `==`
    read its text `Ext.toText`); `Chord(extension=x, …)` stores `x` as written (the model normalises at every read, as
    `Chord.__init__` does once);
  * `tonality == tonality` ↦ `Tonality.pyEq` (model function of `MV/Model/Transpose.lean`, source-tied in group SrcTonality);
  * `dict == dict` on parts ↦ `PyE.dictEq` (PRELUDE: same number of keys, every key of the left dict is in the right one with
    `left_value == right_value`), the values compared with the translated `Melody.__eq__`;
  * `Note(...)` ↦ `PyE.mkNote` = the fields as given, the duration through `limit_denominator(LIMIT_DENOM)` (`Note.__init__`);
    `Silence(d, tags, tempo, pedal)` / `Continuation(...)` ↦ `mkNote` of kind r / l with value 0, octave 0 (their `__init__`);
  * `set(tags)` ↦ the same iteration order (CPython copies the table of a set without deleted slots as it is; C20's model
    default, any other order is an explicit input of `noteCopyWith`);
  * inside `Melody.copy`, `s.copy()` dispatches on the class of the note: a note of kind r / l is a `Silence` / `Continuation`
    instance (domain note of the model), any other a `Note` — the three translated `copy` methods;
  * `Melody(notes, nb_bars=…, tags=…)`, `Score(chords, config=…, tags=…)` ↦ the note / chord list, `Tonality(…, tags=…)`,
    `Chord(…, tags=…)` without tags (the model has no bar count, config or tags on these objects);
  * `DEGREE_TO_STR[d]`, `ELEMENT_TO_STR[e]` ↦ the generated tables (by value), `KeyError` outside; `all`, `zip`, `len` as Python's.
"""
import sys
sys.dont_write_bytecode = True

NAME = 'SrcEq'
IMPORTS = ['MV.Model.Equality', 'MV.Model.Transpose', 'MV.Model.PyList']
HELPERS = ['MV.Lemmas.TieSrcEqLemmas', 'MV.Model.PyList']

NOTE = 'musiclang.write.note:'
MEL = 'musiclang.write.melody:Melody.'
TON = 'musiclang.write.tonality:Tonality.'
CH = 'musiclang.write.chord:Chord.'
SC = 'musiclang.write.score:Score.'
NOTE_KEY = 'Kind × Int × Rat × Int × Option Mode'
# what `x.copy()` is inside the functions of this group (entry key `copy`): the translated methods
DISPATCH = ('(match Eq.classOf {0} with | .note => Note_copy {0} | .silence => Silence_copy {0} '
            '| .continuation => Continuation_copy {0})')
COPY = {'Note': DISPATCH, 'Tonality': '(Tonality_copy {0})', 'Chord': '(Chord_copy {0})'}

ENTRIES = [
    # ---- notes
    dict(py=NOTE + 'Note.__hash__', name='Note.__hash__', lean='Note_dhash', params=[('self', 'Note')], ret=NOTE_KEY),
    dict(py=NOTE + 'Note.copy', name='Note.copy', lean='Note_copy', params=[('self', 'Note')], ret='Note'),
    dict(py=NOTE + 'Silence.copy', name='Silence.copy', lean='Silence_copy', params=[('self', 'Note')], ret='Note'),
    dict(py=NOTE + 'Continuation.copy', name='Continuation.copy', lean='Continuation_copy', params=[('self', 'Note')], ret='Note'),
    # ---- melodies
    dict(py=MEL + 'to_code', name='Melody.to_code', lean='Melody_to_code', params=[('self', 'Melody')], ret='Str',
         attr=('Melody', 'to_code')),
    dict(py=MEL + '__repr__', name='Melody.__repr__', lean='Melody_repr', params=[('self', 'Melody')], ret='Str',
         attr=('Melody', '__repr__')),
    dict(py=MEL + '__hash__', name='Melody.__hash__', lean='Melody_dhash', params=[('self', 'Melody')], ret='Str'),
    dict(py=MEL + '__eq__', name='Melody.__eq__', lean='Melody_deq', params=[('self', 'Melody'), ('other', 'Melody')], ret='Bool'),
    dict(py=MEL + 'copy', name='Melody.copy', lean='Melody_copy', params=[('self', 'Melody')], ret='Melody',
         attr=('Melody', 'copy'), copy=COPY),
    # ---- tonalities
    dict(py=TON + 'degree_to_str', name='Tonality.degree_to_str', lean='Tonality_degree_to_str', params=[('self', 'Tonality')],
         ret='Str', attr=('Tonality', 'degree_to_str')),
    dict(py=TON + 'to_code', name='Tonality.to_code', lean='Tonality_to_code', params=[('self', 'Tonality')], ret='Str',
         attr=('Tonality', 'to_code')),
    dict(py=TON + '__repr__', name='Tonality.__repr__', lean='Tonality_repr', params=[('self', 'Tonality')], ret='Str',
         attr=('Tonality', '__repr__')),
    dict(py=TON + '__hash__', name='Tonality.__hash__', lean='Tonality_dhash', params=[('self', 'Tonality')], ret='Str'),
    dict(py=TON + 'copy', name='Tonality.copy', lean='Tonality_copy', params=[('self', 'Tonality')], ret='Tonality'),
    # ---- chords
    dict(py=CH + 'element_to_str', name='Chord.element_to_str', lean='Chord_element_to_str', params=[('self', 'Chord')], ret='Str',
         attr=('Chord', 'element_to_str')),
    dict(py=CH + 'extension_to_str', name='Chord.extension_to_str', lean='Chord_extension_to_str', params=[('self', 'Chord')],
         ret='Str', attr=('Chord', 'extension_to_str')),
    dict(py=CH + 'tonality_to_str', name='Chord.tonality_to_str', lean='Chord_tonality_to_str', params=[('self', 'Chord')],
         ret='Str', attr=('Chord', 'tonality_to_str')),
    dict(py=CH + 'to_code', name='Chord.to_code', lean='Chord_to_code', params=[('self', 'Chord')], ret='Str',
         attr=('Chord', 'to_code')),
    dict(py=CH + 'melody_to_str', name='Chord.melody_to_str', lean='Chord_melody_to_str', params=[('self', 'Chord')], ret='Str',
         attr=('Chord', 'melody_to_str')),
    dict(py=CH + '__repr__', name='Chord.__repr__', lean='Chord_repr', params=[('self', 'Chord')], ret='Str',
         attr=('Chord', '__repr__')),
    dict(py=CH + '__hash__', name='Chord.__hash__', lean='Chord_dhash', params=[('self', 'Chord')], ret='Str'),
    dict(py=CH + 'chord_equals', name='Chord.chord_equals', lean='Chord_chord_equals', params=[('self', 'Chord'), ('other', 'Chord')],
         ret='Bool', attr=('Chord', 'chord_equals')),
    dict(py=CH + 'score_equals', name='Chord.score_equals', lean='Chord_score_equals', params=[('self', 'Chord'), ('other', 'Chord')],
         ret='Bool', attr=('Chord', 'score_equals')),
    dict(py=CH + '__eq__', name='Chord.__eq__', lean='Chord_deq', params=[('self', 'Chord'), ('other', 'Chord')], ret='Bool'),
    dict(py=CH + 'copy', name='Chord.copy', lean='Chord_copy', params=[('self', 'Chord')], ret='Chord', copy=COPY),
    # ---- scores
    dict(py=SC + '__eq__', name='Score.__eq__', lean='Score_deq', params=[('self', 'Score'), ('other', 'Score')], ret='Bool'),
    dict(py=SC + 'copy', name='Score.copy', lean='Score_copy', params=[('self', 'Score')], ret='Score', copy=COPY),
    dict(py=SC + '__repr__', name='Score.__repr__', lean='Score_repr', params=[('self', 'Score')], ret='Str'),
]

PRELUDE = [
    '/-- the tags of a note: the Python set in its iteration order -/',
    'abbrev Tags := List String',
    '',
    '/-- a chord\'s `extension` attribute: the stored (normalised) extension; its text is `Ext.toText` -/',
    'abbrev ExtS := Ext',
    '',
    'namespace PyE',
    '',
    '/-- `hash(k)`: Python\'s hash function is not modelled; the source image of a `__hash__` returns the key it hashes -/',
    'def hashKey (k : α) : α := k',
    '',
    '/-- `Note.__init__`: the fields as given, the duration through `frac(duration).limit_denominator(LIMIT_DENOM)` -/',
    'def mkNote (kind : Kind) (val oct : Int) (dur : Rat) (mode : Option Mode) (acc : Option Acc) (amp : Rat) (tags : Tags)',
    '    (tempo : Option Int) (pedal : Option Bool) : Note :=',
    '  { kind := kind, val := val, oct := oct, dur := Eq.limitDenominator dur Gen.LIMIT_DENOM, mode := mode, acc := acc, amp := amp,',
    '    tags := tags, tempo := tempo, pedal := pedal }',
    '',
    '/-- Python `d1 == d2` on dicts with string keys (association lists in insertion order, keys unique): the sizes first,',
    'then every key of `d1` is looked up in `d2` and the two values are compared with `d1`\'s value on the left -/',
    'def dictEq (eq : β → β → Bool) (a b : List (String × β)) : Bool :=',
    '  a.length == b.length &&',
    '  a.all (fun p => match b.lookup p.1 with',
    '    | some v => eq p.2 v',
    '    | none => false)',
    '',
    'end PyE',
    '',
]


def extend_spec(sp):
    import musiclang.write.note as N
    import musiclang.write.melody as M
    import musiclang.write.chord as C
    import musiclang.write.score as S
    import musiclang.write.tonality as T
    # `str(x)` is `x.__repr__()` only while the classes do not define `__str__` / `__format__`
    for cls in (M.Melody, C.Chord, T.Tonality, S.Score):
        if '__str__' in vars(cls) or '__format__' in vars(cls):
            raise __import__('py2lean').Untranslatable(f'{cls.__name__} defines __str__ / __format__')
    # a chord's `__eq__` / `__ne__`, `__hash__` of the classes: the bound `==` is `a.__eq__(b)`, `!=` its negation
    for cls in (M.Melody, C.Chord, T.Tonality, S.Score, N.Note):
        if '__ne__' in vars(cls):
            raise __import__('py2lean').Untranslatable(f'{cls.__name__} defines __ne__')
    if N.Note.DEFAULT_AMP != 66:
        raise __import__('py2lean').Untranslatable('Note.DEFAULT_AMP')
    sp.attrs[('Note', 'tags')] = ('{0}.tags', 'Tags')
    sp.attrs[('Chord', 'extension')] = ('{0}.ext.normalize', 'ExtS')
    sp.methods[('Note', 'to_code')] = ('(Eq.noteCode {0})', 'Str')
    sp.methods[('Str', 'join')] = ('(PyL.strJoin {0} {1})', 'Str')
    sp.methods[('Parts', 'items')] = ('{0}', 'List (Str × Melody)')
    sp.subscripts['DEGREE_TO_STR'] = ('lookupKey {0} Gen.DEGREE_TO_STR', 'Int', 'Res Str')
    sp.subscripts['ELEMENT_TO_STR'] = ('lookupKey {0} Gen.ELEMENT_TO_STR', 'Int', 'Res Str')
    sp.fstr.update({'Int': '(toString {0})', 'Mode': '{0}.toStr', 'ExtS': '{0}.toText'})
    sp.eq.update({'Tonality': '(Tonality.pyEq {0} {1})', 'ExtS': '(decide ({0}.toText = {1}.toText))',
                  'Parts': '(PyE.dictEq (fun a b => Melody_deq a b) {0} {1})', 'Chord': '(Chord_deq {0} {1})'})
    sp.builtins.update({
        'hash': {('Str',): ('(PyE.hashKey {0})', 'Str'), (NOTE_KEY,): ('(PyE.hashKey {0})', NOTE_KEY)},
        'str': {('Melody',): ('(Melody_repr {0})', 'Str'), ('Chord',): ('Chord_repr {0}', 'Res Str'), ('ExtS',): ('{0}.toText', 'Str')},
        'set': {('Tags',): ('{0}', 'Tags')},
        'all': {('List Bool',): ('({0}.all id)', 'Bool')},
        'zip': {('List Chord', 'List Chord'): ('(List.zip {0} {1})', 'List (Chord × Chord)')},
    })
    sp.ctors['Note'] = dict(ty='Note', order=['type', 'val', 'octave', 'duration', 'mode', 'accident', 'amp', 'tags', 'pedal', 'tempo'],
                            fields=[('type', 'kind', 'Kind', None), ('val', 'val', 'Int', None), ('octave', 'oct', 'Int', None),
                                    ('duration', 'dur', 'Rat', None), ('mode', 'mode', 'Option Mode', 'none'),
                                    ('accident', 'acc', 'Option Acc', 'none'), ('amp', 'amp', 'Rat', '(66 : Rat)'),
                                    ('tags', 'tags', 'Tags', '[]'), ('tempo', 'tempo', 'Option Int', 'none'),
                                    ('pedal', 'pedal', 'Option Bool', 'none')], drop=[],
                            wrap='(PyE.mkNote {kind} {val} {oct} {dur} {mode} {acc} {amp} {tags} {tempo} {pedal})')
    for cls, kind in (('Silence', 'r'), ('Continuation', 'l')):
        sp.ctors[cls] = dict(ty='Note', order=['duration', 'tags', 'tempo', 'pedal'],
                             fields=[('duration', 'dur', 'Rat', None), ('tags', 'tags', 'Tags', '[]'),
                                     ('tempo', 'tempo', 'Option Int', 'none'), ('pedal', 'pedal', 'Option Bool', 'none')], drop=[],
                             wrap='(PyE.mkNote Kind.' + kind + ' 0 0 {dur} none none 66 {tags} {tempo} {pedal})')
    sp.ctors['Melody'] = dict(ty='Melody', order=['notes', 'nb_bars', 'tags'], fields=[('notes', 'notes', 'Melody', None)],
                              drop=['nb_bars', 'tags'], wrap='{notes}')
    sp.ctors['Chord'] = dict(ty='Chord', order=['element', 'extension', 'tonality', 'score', 'octave', 'tags'],
                             fields=[('element', 'elem', 'Int', None), ('extension', 'ext', 'ExtS', None),
                                     ('tonality', 'ton', 'Tonality', None), ('score', 'parts', 'Parts', None),
                                     ('octave', 'oct', 'Int', None)], drop=['tags'])
    sp.ctors['Score'] = dict(ty='Score', order=['chords', 'config', 'tags'], fields=[('chords', 'chords', 'List Chord', None)],
                             drop=['config', 'tags', 'time_signature', 'tempo'], wrap='{chords}')


# kernels = families of operations (one driver run per family and side); the operation is the first argument of a request
FAMILIES = {
    'qnote': ['nkey', 'ncopy', 'rcopy', 'lcopy'],
    'qmelody': ['mcode', 'mkey', 'meq', 'meq', 'mcopy'],
    'qton': ['tcode', 'tkey', 'tcopy'],
    'qchord': ['ccode', 'cext', 'cparts', 'crepr', 'ckey', 'cequals', 'cequals', 'sequals', 'sequals', 'ceq', 'ceq', 'ccopy', 'ccopy'],
    'qscore': ['seq', 'seq', 'scopy', 'srepr'],
}
KERNELS = list(FAMILIES)
TIE = dict(gen=['Tables', 'Library', 'Dynamics', 'SrcEq'], modules=['MV.Props.TieSrcEq'], kernels=KERNELS, driver='SrcEq')


# ----------------------------------------------------------------------------- kernel-level inputs

def _C20():
    from props import C20
    return C20


def hashed_key(obj, expected):
    """the key `type(obj).__hash__` hashes: the function is run with a module-level `hash` that records its argument
    (`hash` is looked up in the module's globals before the built-ins), so the result is what the code passed to `hash`.
    A `__hash__` written without a call of `hash` (e.g. `key.__hash__()`) is accepted when it returns `hash(expected)`,
    `expected` being the key as the documentation describes it, computed here."""
    import builtins, sys
    fn = type(obj).__hash__
    mod = sys.modules[fn.__module__]
    seen = []

    def recording(k):
        seen.append(k)
        return builtins.hash(k)
    had = 'hash' in vars(mod)
    old = vars(mod).get('hash')
    mod.hash = recording
    try:
        h = fn(obj)
    finally:
        if had:
            mod.hash = old
        else:
            del mod.hash
    for k in reversed(seen):
        if builtins.hash(k) == h:
            return k
    if h == builtins.hash(expected):
        return expected
    raise Exception(f'__hash__ returned {h}, not the hash of a key it computed')


def _show_note_key(k):
    from fractions import Fraction
    from core import sx
    if not (isinstance(k, tuple) and len(k) == 5):
        return f'not-a-5-tuple:{k!r}'
    return sx(k[0], int(k[1]), Fraction(k[2]), int(k[3]), k[4])


def _same_tag_order(a, b):
    """copies of tag sets keep the iteration order (binding of `set(tags)`); a case where CPython re-orders the *same* tags
    is outside the binding (C20's model takes that order as an explicit input), a lost or added tag is not"""
    return list(a) == list(b) or sorted(a) != sorted(b)


def _note_desc(rng):
    """a note description of C20, plus: continuations with a tempo, large / negative values, zero and off-resolution durations"""
    from fractions import Fraction
    from core import frac_str
    C = _C20()
    j = C.rnote_j(rng, in_melody=rng.random() < 0.5)
    x = rng.random()
    if x < 0.12:
        j['dur'] = frac_str(Fraction(rng.randint(1, 5000), rng.choice([1001, 1024, 21952, 3000, 7919])))
        j.pop('dur_via', None)
    elif x < 0.18:
        j['dur'] = rng.choice(['0', '-1/2', '1000000', '1/1000', '999/1000'])
        j.pop('dur_via', None)
    if j['cls'] == 'Continuation' and rng.random() < 0.5:
        j['tempo'] = rng.choice([60, 90, 120])
    if rng.random() < 0.05:
        j['val'] = rng.choice([10 ** 6, -10 ** 9, 127, -128])
    if rng.random() < 0.05:
        j['oct'] = rng.choice([10 ** 6, -10 ** 6, 9, -9])
    return j


def _melody_desc(rng, n=None):
    return {'notes': [_note_desc(rng) for _ in range(rng.randint(*(n or ((0, 0) if rng.random() < 0.08 else (1, 4)))))]}


def _fix_melody(j):
    """inside melodies notes of kind r / l are Silence / Continuation instances (domain note of the model)"""
    for nj in j['notes']:
        if nj['type'] in ('r', 'l') and nj['cls'] == 'Note':
            nj['cls'] = 'Silence' if nj['type'] == 'r' else 'Continuation'
    return j


def _pair(rng, kind, base, vary, fields):
    """(field, second description): the same description rebuilt, a single-field variant, or another random one"""
    import json
    x = rng.random()
    if x < 0.3:
        return 'same', json.loads(json.dumps(base))
    if x < 0.9:
        for _ in range(6):
            f = rng.choice(fields)
            v = vary(rng, base, f)
            if v is not None:
                return f, v
        return 'same', json.loads(json.dumps(base))
    return 'random', None


def cases(rng, kernel, n):
    """list of (request tail, impl string, jsonable input, buckets); `kernel` is a family or a single operation"""
    ops = FAMILIES.get(kernel, [kernel])
    out = []
    for i in range(n):
        op = rng.choice(ops)
        tail, impl, inp, buckets = _case(rng, op)
        if tail is None:
            continue
        res = 'res=' + (impl[4:] if impl.startswith('ERR:') else 'ok')
        out.append(([op] + list(tail), impl, {'op': op, **inp},
                    [f'op={op}', res] + [f'{op}:{b}' if b.startswith(('eq=', 'field=')) else b for b in buckets]))
    return out


def _case(rng, op):
    from fractions import Fraction
    import musiclang.write.note as N
    from core import py_res, sx
    C = _C20()
    esc, b01 = C.esc, C.b01
    show_ton = lambda t: sx('t', int(t.degree), t.mode, int(t.octave))
    show_mel = lambda m: sx(*[C.enc_note(x) for x in m.notes])

    def show_chord(c):
        # the stored extension text may hold brackets: written as it is (the reply line is compared as text)
        ext = str(c.extension) or '""'
        return (f'(c {int(c.element)} {ext} {show_ton(c.tonality)} {int(c.octave)} '
                + sx(*[[k, C.enc_melody(m)] for k, m in c.score.items()]) + ')')

    if op in ('nkey', 'ncopy', 'rcopy', 'lcopy'):
        j = _note_desc(rng)
        o = C.note_from_j(j)
        b = [f'kind={j["type"]}', f'cls={j["cls"]}', 'bigden' if Fraction(j['dur']).denominator > 1000 else 'den<=1000',
             f'tags={min(len(o.tags), 3)}', 'tempo' if o.tempo is not None else 'no-tempo', 'pedal' if o.pedal is not None else 'no-pedal']
        if op == 'nkey':
            impl = py_res(lambda: _show_note_key(hashed_key(o, (o.type, o.val, o.duration, o.octave, o.mode))))
        else:
            f = {'ncopy': N.Note.copy, 'rcopy': N.Silence.copy, 'lcopy': N.Continuation.copy}[op]
            ok, c = C._try(lambda: f(o))
            if ok and not _same_tag_order(o.tags, c.tags):
                return None, None, None, None
            impl = py_res(lambda: f(o), lambda r: type(r).__name__ + ' ' + C.enc_note(r).s)
            # the class of the copy is part of what the three methods promise; the model's value has no class: checked here
            want = {'ncopy': 'Note', 'rcopy': 'Silence', 'lcopy': 'Continuation'}[op]
            impl = impl[len(want) + 1:] if impl.startswith(want + ' ') else ('wrong-class:' + impl if not impl.startswith('ERR:') else impl)
        return [C.enc_note(o)], impl, {'note': j}, b
    if op in ('mcode', 'mkey', 'mcopy', 'meq'):
        j = _fix_melody(_melody_desc(rng))
        o = C.melody_from_j(j)
        b = [f'len={min(len(j["notes"]), 4)}']
        if op == 'mcode':
            return [C.enc_melody(o)], py_res(lambda: esc(o.to_code())), {'melody': j}, b
        if op == 'mkey':
            return [C.enc_melody(o)], py_res(lambda: esc(hashed_key(o, repr(o)))), {'melody': j}, b
        if op == 'mcopy':
            ok, c = C._try(lambda: o.copy())
            if ok and not all(_same_tag_order(x.tags, y.tags) for x, y in zip(o.notes, c.notes)):
                return None, None, None, None
            return [C.enc_melody(o)], py_res(lambda: show_mel(o.copy())), {'melody': j},                 b + ['bigden' if any(Fraction(x['dur']).denominator > 1000 for x in j['notes']) else 'den<=1000']
        f, j2 = _pair(rng, 'melody', j, C.vary_melody, C.MELODY_FIELDS)
        j2 = _fix_melody(j2 if j2 is not None else _melody_desc(rng))
        o2 = C.melody_from_j(j2)
        impl = py_res(lambda: o == o2, b01)
        return [C.enc_melody(o), C.enc_melody(o2)], impl, {'a': j, 'b': j2}, b + [f'field={f}', f'eq={impl}']
    if op in ('tcode', 'tkey', 'tcopy'):
        j = C.rton_j(rng, wide=rng.random() < 0.3)
        if rng.random() < 0.15:
            j['tags'] = rng.choice([['pivot'], ['a', 'label']])
        if rng.random() < 0.1:
            j['oct'] = rng.choice([-12, 7, 10 ** 6, -3])
        o = C.ton_from_j(j)
        b = ['deg-in-0..11' if 0 <= j['deg'] < 12 else 'deg-outside', 'oct=0' if j['oct'] == 0 else 'oct!=0']
        if op == 'tcode':
            impl = py_res(lambda: esc(o.to_code()))
        elif op == 'tkey':
            impl = py_res(lambda: esc(hashed_key(o, repr(o))))
        else:
            impl = py_res(lambda: show_ton(o.copy()))
        return [C.enc_ton(o)], impl, {'ton': j}, b
    if op in ('ccode', 'cext', 'cparts', 'crepr', 'ckey', 'ccopy', 'cequals', 'sequals', 'ceq'):
        j = C.rchord_j(rng, nparts=(0, 3), wide_ton=rng.random() < 0.15)
        for p in j['parts']:
            _fix_melody(p[1])
        if rng.random() < 0.05:
            j['elem'] = rng.choice([7, -1, 12, 100])                  # no name in ELEMENT_TO_STR: the printers raise KeyError
        if rng.random() < 0.05:
            j['oct'] = rng.choice([5, -7, 10 ** 6])
        o = C.chord_from_j(j)
        b = [f'parts={len(j["parts"])}', 'elem-in-0..6' if 0 <= j['elem'] < 7 else 'elem-outside',
             'deg-in-0..11' if 0 <= j['ton']['deg'] < 12 else 'deg-outside', 'ext-empty' if j['ext'] == '' else 'ext-text',
             'empty-part' if any(not p[1]['notes'] for p in j['parts']) else 'no-empty-part']
        e = C.enc_chord(o, j['ext'])
        if op == 'ccode':
            return [e], py_res(lambda: esc(o.to_code())), {'chord': j}, b
        if op == 'cext':
            return [e], py_res(lambda: esc(o.extension_to_str())), {'chord': j}, b
        if op == 'cparts':
            return [e], py_res(lambda: esc(o.melody_to_str())), {'chord': j}, b
        if op == 'crepr':
            return [e], py_res(lambda: esc(repr(o))), {'chord': j}, b
        if op == 'ckey':
            return [e], py_res(lambda: esc(hashed_key(o, C._try(lambda: repr(o))[1]))), {'chord': j}, b
        if op == 'ccopy':
            ok, c = C._try(lambda: o.copy())
            if ok and not all(_same_tag_order(x.tags, y.tags) for k in o.score if k in c.score
                              for x, y in zip(o.score[k].notes, c.score[k].notes)):
                return None, None, None, None
            return [e], py_res(lambda: show_chord(o.copy())), {'chord': j}, b
        f, j2 = _pair(rng, 'chord', j, C.vary_chord, C.CHORD_FIELDS)
        if j2 is None:
            j2 = C.rchord_j(rng, nparts=(0, 2))
        for p in j2['parts']:
            _fix_melody(p[1])
        o2 = C.chord_from_j(j2)
        fn = {'cequals': lambda: o.chord_equals(o2), 'sequals': lambda: o.score_equals(o2), 'ceq': lambda: o == o2}[op]
        impl = py_res(fn, b01)
        return [e, C.enc_chord(o2, j2['ext'])], impl, {'a': j, 'b': j2}, b + [f'field={f}', f'eq={impl}']
    if op in ('seq', 'scopy', 'srepr'):
        j = C.rscore_j(rng, n=(0, 3))
        for c_ in j['chords']:
            for p in c_['parts']:
                _fix_melody(p[1])
        if j['chords'] and rng.random() < 0.05:
            j['chords'][rng.randrange(len(j['chords']))]['elem'] = rng.choice([7, -1])
        o = C.score_from_j(j)
        b = [f'chords={len(j["chords"])}']
        e = C.enc('score', o, j)
        if op == 'srepr':
            return [e], py_res(lambda: esc(repr(o))), {'score': j}, b
        if op == 'scopy':
            ok, c = C._try(lambda: o.copy())
            if ok and not all(_same_tag_order(x.tags, y.tags) for a_, b_ in zip(o.chords, c.chords) for k in a_.score if k in b_.score
                              for x, y in zip(a_.score[k].notes, b_.score[k].notes)):
                return None, None, None, None
            return [e], py_res(lambda: '(' + ' '.join(show_chord(c) for c in o.copy().chords) + ')'), {'score': j}, b
        f, j2 = _pair(rng, 'score', j, C.vary_score, C.SCORE_FIELDS)
        if j2 is None:
            j2 = C.rscore_j(rng, n=(0, 3))
        for c_ in j2['chords']:
            for p in c_['parts']:
                _fix_melody(p[1])
        o2 = C.score_from_j(j2)
        impl = py_res(lambda: o == o2, b01)
        return [e, C.enc('score', o2, j2)], impl, {'a': j, 'b': j2}, b + [f'field={f}', f'eq={impl}', f'chords2={len(j2["chords"])}']
    raise KeyError(op)
