"""Source-tie group `SrcRoman` (DESIGN.md §9.6): the clock of the roman-numeral annotation parser — musiclang/analyze/score_formatter.py,
score_formatter_elements.py — and the head of `analyze_one_chord` (roman_parser.py) against the model of MV/Model/Roman.lean (C15).

The formatter object is the model's state record `Roman.St`, passed in and returned (entry key `state`: a method that mutates
`self` / `parent` returns the object; `parent.set_bar_number(idx)` as a statement rebinds `parent`).

  ScoreFormatter.duration / prev_duration        `4 * n / d` (float division read as the exact quotient, ASSUMPTIONS of C15), limit_denominator(8)
  ScoreFormatter.set_time_signature              previous / first-change bookkeeping (`allow_multi_signature` is the default True)
  ScoreFormatter.set_bar_number / set_current_beat   the assertion on increasing bar numbers, the beat only moves forward
  Beat.get_real_value                            CONVENTION_DICT (6/8 and 2/2 count 2 beats), ratio and label through limit_denominator(8)
  BarLine.parse / Beat.parse / CurrentTonality.parse   the element methods that drive the clock = `St.step`
  ScoreFormatter.add_chord                       closing the previous chord (duration from the clock), pickup, `score += chord`
  analyze_one_chord                              the string clean-ups and the split into primary / secondary / tertiary figure

Bound, not translated: `float(label)` ↦ the model's `parseDecimal`, `Fraction.limit_denominator` ↦ `limitDen`, `str.replace` / `str.split`
↦ the model's `replace` / `splitOn`, `_analyze_one_chord` ↦ `analyzeParts`, `Chord.set_duration` on the closed chord ↦ the duration
arithmetic of the model (`OutChord`).  Not translated: `ScoreFormatter.init`, `BarLine.init` / `get_elements`, `MultiBar.init`,
`CurrentTonality.init`, `TimeSignature.parse` (string lexing: a list unpacked into two names, `str.index`, `isdigit`), `BarChord.parse`
(`try … except Exception as e` with `print`, `chord(**voicing)`).
"""
import sys
sys.dont_write_bytecode = True

NAME = 'SrcRoman'
SF = 'musiclang.analyze.score_formatter:ScoreFormatter.'
SE = 'musiclang.analyze.score_formatter_elements:'
ST = 'Roman.St'
SCORE = 'Option (List Roman.OutChord)'
ENTRIES = [
    dict(py=SF + 'duration', name='ScoreFormatter.duration', lean='ScoreFormatter_duration', params=[('self', ST)], ret='Float',
         attr=(ST, 'duration')),
    dict(py=SF + 'prev_duration', name='ScoreFormatter.prev_duration', lean='ScoreFormatter_prev_duration', params=[('self', ST)], ret='Rat',
         attr=(ST, 'prev_duration')),
    dict(py=SF + 'set_time_signature', name='ScoreFormatter.set_time_signature', lean='ScoreFormatter_set_time_signature',
         params=[('self', ST), ('time_signature', 'Int × Int')], ret=ST, owned=['self'], state='self', attr=(ST, 'set_time_signature')),
    dict(py=SF + 'set_bar_number', name='ScoreFormatter.set_bar_number', lean='ScoreFormatter_set_bar_number',
         params=[('self', ST), ('idx', 'Int')], ret=ST, owned=['self'], state='self', attr=(ST, 'set_bar_number')),
    dict(py=SF + 'set_current_beat', name='ScoreFormatter.set_current_beat', lean='ScoreFormatter_set_current_beat',
         params=[('self', ST), ('beat', 'Rat')], ret=ST, owned=['self'], state='self', attr=(ST, 'set_current_beat')),
    dict(py=SE + 'Beat.get_real_value', name='Beat.get_real_value', lean='Beat_get_real_value',
         params=[('self', 'Beat'), ('parent', ST)], ret='Rat', attr=('Beat', 'get_real_value')),
    dict(py=SE + 'BarLine.parse', name='BarLine.parse', lean='BarLine_parse',
         params=[('self', 'BarLine'), ('score', SCORE), ('parent', ST)], ret=f'{SCORE} × {ST}', owned=['parent'], state='parent'),
    dict(py=SE + 'Beat.parse', name='Beat.parse', lean='Beat_parse',
         params=[('self', 'Beat'), ('score', SCORE), ('parent', ST)], ret=f'{SCORE} × {ST}', owned=['parent'], state='parent'),
    dict(py=SE + 'CurrentTonality.parse', name='CurrentTonality.parse', lean='CurrentTonality_parse',
         params=[('self', 'CurTon'), ('score', SCORE), ('parent', ST)], ret=f'{SCORE} × {ST}', owned=['parent'], state='parent'),
    dict(py=SF + 'add_chord', name='ScoreFormatter.add_chord', lean='ScoreFormatter_add_chord',
         params=[('self', ST), ('chord', 'Roman.OutChord'), ('score', SCORE)], ret=f'{SCORE} × {ST}', owned=['self', 'score'], state='self',
         attr=(ST, 'add_chord')),
    dict(py='musiclang.analyze.roman_parser:analyze_one_chord', name='analyze_one_chord', lean='analyze_one_chord',
         params=[('figure', 'Str'), ('key', 'Int'), ('mode', 'Roman.KMode')], ret='Int × String × Int × Mode'),
]
IMPORTS = ['MV.Model.PyFrac', 'MV.Model.Roman']
HELPERS = ['MV.Lemmas.TieSrcRomanLemmas']
TIE = dict(gen=['Roman', 'SrcRoman'], modules=['MV.Props.TieSrcRoman'],
           kernels=['rdur', 'rsts', 'rsbn', 'rscb', 'rbeat', 'rstep', 'radd', 'rfig'], driver='SrcRoman')

PRELUDE = [
    '/-- `Beat`: the label text without its `b`s (`self.value`) -/',
    'abbrev Beat := String',
    '/-- `BarLine`: the bar index (`self.idx`) -/',
    'abbrev BarLine := Int',
    '/-- `CurrentTonality`: (`self.key`, `self.mode`) -/',
    'abbrev CurTon := Int × Roman.KMode',
    '/-- a dict literal keyed by time signatures, in source order -/',
    'abbrev ConvDict := List ((Int × Int) × Int)',
    '',
    '/-- `a / b` on ints (true division, ZeroDivisionError on 0).  The float is read as the exact quotient (ASSUMPTIONS of C15:',
    'exact when the denominator of the signature is a power of two) -/',
    'def trueDiv (a b : Int) : Res Rat := if b = 0 then .error .zerodiv else .ok ((a : Rat) / (b : Rat))',
    '',
    '/-- `a / b` on floats read as exact rationals -/',
    'def floatDiv (a b : Rat) : Res Rat := if b = 0 then .error .zerodiv else .ok (a / b)',
    '',
    '/-- `d.get(k, default)` where the values of `d` are ints and the default is a float -/',
    'def convGet (d : ConvDict) (k : Int × Int) (dflt : Rat) : Rat :=',
    '  match d.lookup k with',
    '  | some v => (v : Rat)',
    '  | none => dflt',
    '',
    '/-- `xs[i] = v` (IndexError out of range) -/',
    'def Py.setItem (l : List α) (i : Int) (v : α) : Res (List α) :=',
    '  let n : Int := l.length',
    '  let j := if i < 0 then i + n else i',
    '  if j < 0 ∨ j ≥ n then .error .index else .ok (l.set j.toNat v)',
    '',
    '/-- `chord.set_duration(d)` on a closed chord of the score: `augment(d / chord.duration)`, every note re-limited (tied to the',
    'code by SrcDurOps; here only the resulting chord duration matters, as in the model of C15) -/',
    'def outSetDuration (o : Roman.OutChord) (d : Rat) : Res Roman.OutChord :=',
    '  if o.dur = 0 then .error .zerodiv else .ok { o with dur := Roman.limitDen Gen.LIMIT_DENOM (o.dur * (d / o.dur)) }',
    '',
    '/-- `s.replace(a, b)` / `s.split(sep)` for a one-character separator: the model\'s string functions -/',
    'def pyReplace (s a b : String) : String := String.ofList (Roman.replace a.toList b.toList s.toList)',
    'def pySplit1 (s sep : String) : Res (List String) :=',
    '  match sep.toList with',
    '  | [c] => .ok ((Roman.splitOn c s.toList).map String.ofList)',
    '  | _ => .error .other      -- longer separators are outside this reading (the only call site passes the literal "/")',
    '',
    '/-- `_analyze_one_chord(prim, sec, ter, key, mode)`: the model\'s `analyzeParts` -/',
    'def analyzeParts (prim : String) (sec ter : Option String) (key : Int) (mode : Roman.KMode) : Res (Int × String × Int × Mode) :=',
    '  (Roman.analyzeParts prim.toList (sec.map String.toList) (ter.map String.toList) key mode).map',
    '    (fun r => (r.1, String.ofList r.2.1, r.2.2.1, r.2.2.2))',
    '',
    '/-- `float(s)`: the model\'s reader of decimal labels -/',
    'def pyFloat (s : String) : Res Rat := Roman.parseDecimal s.toList',
    '',
]


def extend_spec(sp):
    A, F = sp.attrs, sp.fields
    for py, ln, ty in [('time_signature', 'ts', 'Int × Int'), ('prev_time_signature', 'prevTs', 'Int × Int'),
                       ('first_change_time_signature', 'firstChange', 'Bool'), ('bar_number', 'barNumber', 'Int'),
                       ('current_beat', 'currentBeat', 'Rat'), ('pickup', 'pickup', 'Rat'), ('chord_started_time', 'started', 'Int × Rat'),
                       ('key', 'key', 'Int'), ('mode', 'mode', 'Roman.KMode')]:
        A[(ST, py)] = ('{0}.' + ln, ty)
        F[(ST, py)] = (ln, ty)
    # `parse(allow_multi_signature=True)` stores its argument before the interpreter runs; C15 only uses the default
    A[(ST, 'allow_multi_signature')] = ('true', 'Bool')
    A[('Beat', 'value')] = ('{0}', 'Str')
    A[('BarLine', 'idx')] = ('{0}', 'Int')
    A[('CurTon', 'key')] = ('{0}.1', 'Int')
    A[('CurTon', 'mode')] = ('{0}.2', 'Roman.KMode')
    sp.tuple_fields[('Int × Int', 0)] = ('{0}.1', 'Int')
    sp.tuple_fields[('Int × Int', 1)] = ('{0}.2', 'Int')
    sp.builtins['tuple'] = {('Int × Int',): ('{0}', 'Int × Int')}
    sp.builtins['float'] = {('Str',): ('pyFloat {0}', 'Res Float')}
    sp.binops[('Int', 'Div', 'Int')] = ('trueDiv {0} {1}', 'Res Float')
    sp.binops[('Float', 'Div', 'Float')] = ('floatDiv {0} {1}', 'Res Float')
    sp.calls[('frac', ('Float',))] = ('{0}', 'Rat')           # Fraction(float): the exact value
    sp.methods[('Rat', 'limit_denominator')] = ('(Roman.limitDen (Int.toNat {1}) {0})', 'Rat')
    sp.const_dicts[('Int × Int', 'Int')] = 'ConvDict'
    # add_chord: the score is the list of its chords with their durations (`Roman.OutChord`)
    OC, L = 'Roman.OutChord', 'List Roman.OutChord'
    A[(L, 'chords')] = ('{0}', L)
    sp.store_templates[(L, 'chords')] = ('{1}', L, L)
    A[(OC, 'duration')] = ('{0}.dur', 'Rat')
    sp.methods[(OC, 'set_duration')] = ('outSetDuration {0} {1}', 'Res ' + OC)
    sp.binops[(L, 'Add', OC)] = ('({0} ++ [{1}])', L)              # Score.__add__(chord): a new score (tied by SrcDurOps)
    sp.binops[('None', 'Add', OC)] = ('[{1}]', L)                  # Chord.__radd__(None): Score([chord])
    # analyze_one_chord
    sp.methods[('Str', 'replace')] = ('(pyReplace {0} {1} {2})', 'Str')
    sp.methods[('Str', 'split')] = ('pySplit1 {0} {1}', 'Res (List Str)')
    sp.binops[('Roman.KMode', 'Eq', 'Str')] = ('(decide ({0}.toStr = {1}))', 'Bool')
    # (the components of an unpacked tuple carry their Lean types: a `None` component is `Unit`)
    for sig, tm in [(('String', 'Unit', 'Unit'), 'analyzeParts {0} none none {3} {4}'),
                    (('String', 'String', 'Unit'), 'analyzeParts {0} (some {1}) none {3} {4}'),
                    (('String', 'String', 'String'), 'analyzeParts {0} (some {1}) (some {2}) {3} {4}')]:
        sp.calls[('_analyze_one_chord', sig + ('Int', 'Roman.KMode'))] = (tm, 'Res (Int × String × Int × Mode)')
    sp.methods[('ConvDict', 'get')] = ('(convGet {0} {1} {2})', 'Float')


# ----------------------------------------------------------------------------- kernel-level inputs

SIGS = [(4, 4), (3, 4), (2, 4), (6, 4), (3, 8), (6, 8), (9, 8), (12, 8), (2, 2), (5, 4), (7, 8), (3, 2), (4, 2), (3, 16), (3, 64)]
# denominators are powers of two: `4 * n / d` is a float, read as the exact quotient (ASSUMPTIONS of C15)
ODD_SIGS = [(4, 0), (0, 4), (0, 0), (-3, 4), (3, -4), (1, 1), (5, 32), (1000, 2), (6, 8), (2, 2)]
LABELS = ['1', '2', '3', '4', '1.5', '2.5', '1.25', '2.75', '1.33', '2.66', '2.67', '3.5', '4.5', '1.125', '2.0', '3.', '.5', '1.3',
          '1.0625', '9', '2.999', '1.01', '0', '0.5', '10.5', '12', '1.875']
# (signs, exponents, blanks, non-ASCII digits are outside the model of `float()`: ASSUMPTIONS of C15)
BAD_LABELS = ['', '.', 'x', '2x', '1.5.5', '1..5', 'a.5', '2.x']
MODES = ['M', 'm', 'major', 'minor']
FIG_DEGS = ['I', 'ii', 'iii', 'IV', 'V', 'vi', 'viio', 'i', 'iio', 'III', 'III+', 'iv', 'v', 'VI', 'VII', 'bII', 'bVI', '#ivo', 'N', 'Ger', 'It', 'Fr',
            'Cad', 'viiø', 'Q', '']
FIG_EXTS = ['', '6', '64', '7', '65', '43', '2', '42', '4/3', '6/4', '6/5', '9', '5', 'b9', 'M7', '7[sus4]', 'sus4', 'add9', '(+)', '+', '7[b5]',
            '[no5]', '/o7', '/2', '/3', '/5', 'x']
FIG_SECS = ['', '', '', '/V', '/ii', '/IV', '/vi', '/bII', '/V/V', '/V/ii', '/X', '/V/V/V', '/viio', '/Ger', '/']


def _sig(rng):
    return rng.choice(SIGS) if rng.random() < 0.8 else rng.choice(ODD_SIGS)


def _beat(rng):
    from fractions import Fraction
    k = rng.random()
    if k < 0.3:
        return Fraction(0)
    if k < 0.9:
        return Fraction(rng.randint(0, 48), rng.choice([1, 2, 3, 4, 8]))
    return Fraction(rng.randint(-8, 4000), rng.choice([1, 3, 7, 16]))


def _state(rng):
    """a formatter state as a dict of the fields the model has"""
    ts = _sig(rng)
    return dict(ts=ts, prev=rng.choice([ts, ts, _sig(rng)]), first=rng.random() < 0.5,
                bar=rng.choice([0, 0, 1, 2, 5, rng.randint(-3, 60)]), beat=_beat(rng), pickup=rng.choice([_beat(rng), 0]),
                started=(rng.randint(0, 6), _beat(rng)), key=rng.randint(-2, 13), mode=rng.choice(MODES))


def _formatter(st):
    from musiclang.analyze.score_formatter import ScoreFormatter
    sf = ScoreFormatter('')
    sf.time_signature, sf.prev_time_signature = tuple(st['ts']), tuple(st['prev'])
    sf.first_change_time_signature = st['first']
    sf.bar_number, sf.current_beat, sf.pickup = st['bar'], st['beat'], st['pickup']
    sf.chord_started_time = tuple(st['started'])
    sf.key, sf.mode = st['key'], st['mode']
    return sf


def _enc_state(st):
    return [st['ts'][0], st['ts'][1], st['prev'][0], st['prev'][1], bool(st['first']), st['bar'], st['beat'], st['pickup'],
            st['started'][0], st['started'][1], st['key'], st['mode']]


def _q(x):
    from fractions import Fraction
    from core import frac_str
    return frac_str(Fraction(*x.as_integer_ratio()) if isinstance(x, float) else Fraction(x))


def _show_formatter(sf):
    a, b = sf.time_signature, sf.prev_time_signature
    return (f'ts={int(a[0])}/{int(a[1])} prev={int(b[0])}/{int(b[1])} first={int(bool(sf.first_change_time_signature))} '
            f'bar={int(sf.bar_number)} beat={_q(sf.current_beat)} pickup={_q(sf.pickup)} '
            f'started={int(sf.chord_started_time[0])},{_q(sf.chord_started_time[1])} key={int(sf.key)} mode={sf.mode}')


def _json_state(st):
    return {k: (str(v) if not isinstance(v, (int, bool, str)) else v) for k, v in
            dict(st, ts=list(st['ts']), prev=list(st['prev']), started=[st['started'][0], str(st['started'][1])]).items()}


def _enc_text(t):
    from core import SX
    return SX('(' + ' '.join(str(ord(c)) for c in t) + ')')


def cases(rng, kernel, n):
    """list of (request tail, impl string, jsonable input, buckets)"""
    from core import py_res
    from fractions import Fraction
    import musiclang.analyze.score_formatter_elements as E
    out = []
    for _ in range(n):
        st = _state(rng)
        enc, js = _enc_state(st), _json_state(st)
        tsb = 'den=0' if st['ts'][1] == 0 else ('convention' if tuple(st['ts']) in ((6, 8), (2, 2)) else 'plain')
        if kernel == 'rdur':
            which = rng.choice(['duration', 'prev_duration'])
            sf = _formatter(st)
            out.append(([which] + enc, py_res(lambda: _q(getattr(sf, which))), {'which': which, 'state': js},
                        [which, tsb, 'prev-den=0' if st['prev'][1] == 0 else 'prev-ok']))
        elif kernel == 'rsts':
            new = _sig(rng)
            sf = _formatter(st)

            def run():
                sf.set_time_signature(tuple(new))
                return _show_formatter(sf)
            out.append((enc + [new[0], new[1]], py_res(run), {'state': js, 'new': list(new)},
                        ['first-change' if st['first'] else 'later-change', 'same' if tuple(new) == tuple(st['ts']) else 'different']))
        elif kernel == 'rsbn':
            idx = rng.choice([st['bar'], st['bar'] + 1, st['bar'] - 1, st['bar'] + rng.randint(2, 9), 0, rng.randint(-5, 80)])
            sf = _formatter(st)

            def run():
                sf.set_bar_number(idx)
                return _show_formatter(sf)
            out.append((enc + [idx], py_res(run), {'state': js, 'idx': idx},
                        ['bar=0' if st['bar'] == 0 else 'bar!=0', 'idx>bar' if idx > st['bar'] else ('idx=bar' if idx == st['bar'] else 'idx<bar')]))
        elif kernel == 'rscb':
            beat = rng.choice([st['beat'], _beat(rng), st['beat'] + Fraction(1, 8), st['beat'] - Fraction(1, 3)])
            sf = _formatter(st)

            def run():
                sf.set_current_beat(beat)
                return _show_formatter(sf)
            out.append((enc + [beat], py_res(run), {'state': js, 'beat': str(beat)},
                        ['forward' if beat > st['beat'] else ('equal' if beat == st['beat'] else 'backward')]))
        elif kernel == 'rbeat':
            lab = rng.choice(LABELS) if rng.random() < 0.85 else rng.choice(BAD_LABELS)
            sf = _formatter(st)
            b = E.Beat('b' + lab)
            out.append((enc + [_enc_text(b.value)], py_res(lambda: _q(b.get_real_value(sf))), {'state': js, 'label': lab},
                        [tsb, 'bad-label' if lab in BAD_LABELS else ('fine' if '.' in lab else 'whole')]))
        elif kernel == 'rstep':
            which = rng.choice(['bar', 'beat', 'ton'])
            sf = _formatter(st)
            score = rng.choice([None, 'S'])        # handed through unchanged (the image gets none / an empty score)
            if which == 'bar':
                idx = rng.choice([st['bar'], st['bar'] + 1, st['bar'] - 1, 0, rng.randint(-5, 80)])
                el = E.BarLine(f'm{idx}', sf)
                arg = idx
                bucket = 'idx>bar' if idx > st['bar'] else 'idx<=bar'
            elif which == 'beat':
                lab = rng.choice(LABELS) if rng.random() < 0.85 else rng.choice(BAD_LABELS)
                el = E.Beat('b' + lab)
                arg = _enc_text(el.value)
                bucket = tsb
            else:
                k, md = rng.randint(-2, 13), rng.choice(['major', 'minor'])
                el = E.CurrentTonality('C:')
                el.key, el.mode = k, md
                arg = [k, md]
                bucket = md

            def run():
                r = el.parse(score, sf)
                return ('score=' + ('None' if r is None else 'same' if r is score else 'other')) + ' ' + _show_formatter(sf)
            out.append(([which, score is not None] + enc + [arg], py_res(run),
                        {'state': js, 'element': which, 'arg': str(arg), 'score': score}, [which, bucket]))
        elif kernel == 'radd':
            from musiclang.library import I, s0
            # the clock mostly as the interpreter leaves it: the previous chord started at or before the current position
            if rng.random() < 0.8:
                st['prev'] = rng.choice(SIGS)
                st['started'] = (st['bar'] - rng.choice([0, 0, 1, 2]), rng.choice([Fraction(0), st['beat'], _beat(rng)]))
                js, enc = _json_state(st), _enc_state(st)
            k = rng.random()
            durs = None if k < 0.2 else [rng.choice([Fraction(1), Fraction(4), Fraction(1, 2), Fraction(3, 2), Fraction(1, 3), Fraction(7, 8), _beat(rng)])
                                        for _ in range(rng.choice([0, 1, 1, 2, 3, 5]))]
            new = rng.choice([Fraction(4), Fraction(1), Fraction(5, 2), _beat(rng)])
            sf = _formatter(st)

            def mk(d):
                c = (I % I.M)(piano__0=s0.copy())
                for m in c.score.values():
                    for nt in m.notes:
                        nt.duration = Fraction(d)       # as stored: no rounding, zero and negative lengths included
                return c

            def run():
                from musiclang import Score
                score = None if durs is None else Score([mk(d) for d in durs])
                r = sf.add_chord(mk(new), score)
                return 'durs=(' + ' '.join(_q(c.duration) for c in r.chords) + ') ' + _show_formatter(sf)
            impl = py_res(run)
            out.append((enc + [new, durs], impl, {'state': js, 'new': str(new), 'durs': None if durs is None else [str(d) for d in durs]},
                        ['score=None' if durs is None else f'chords={min(len(durs), 3)}', 'err' if impl.startswith('ERR') else 'ok',
                         'pickup' if durs is None and st['beat'] > 0 else 'no-pickup']))
        elif kernel == 'rfig':
            from musiclang.analyze.roman_parser import analyze_one_chord
            fig = rng.choice(FIG_DEGS) + rng.choice(FIG_EXTS) + rng.choice(FIG_SECS)
            if rng.random() < 0.1:
                fig = rng.choice(['', '/', '//', '///', 'I/V/V/V', 'V4/3/V', 'III+', 'III+/V', 'vii/o7', 'V6/4', 'V6/5/ii', 'I/2', 'I/o'])
            key, mode = rng.randint(-2, 13), rng.choice(['major', 'minor', 'M', 'm'])
            impl = py_res(lambda: (lambda r: f'{int(r[0])} "{r[1]}" {int(r[2])} {r[3]}')(analyze_one_chord(fig, key, mode)))
            out.append(([_enc_text(fig), key, mode], impl, {'figure': fig, 'key': key, 'mode': mode},
                        [f'mode={mode}', f'parts={min(fig.count("/") + 1, 5)}', 'err' if impl.startswith('ERR') else 'ok']))
        else:
            raise KeyError(kernel)
    return out
