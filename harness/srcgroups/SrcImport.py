"""Source-tie group `SrcImport` (DESIGN.md §9.6), serving C14: the importer core of musiclang/analyze/to_musiclang.py and
item.py, translated from the AST of the live modules and proved equal to the hand-written model of `MV/Model/Import.lean`
(`MV/Model/ImportItem.lean` for the matrix form of the items) in `MV/Props/TieSrcImport.lean`.

  infer_score_with_chords_durations   the two nested loops filling `offsets_voices` (three dicts), the bar loop
                                      `for idx, (chord, bar) in enumerate(zip(chords, bars))` over four loop-carried variables,
                                      inside it the loops over tracks / voices, `continuations.pop(name, None)`, the second loop
                                      over `[v for v in continuations if v not in chord_dict]`, `chord(**chord_dict)`, the silent bar
  _parse_voice                        with its nested `_parse_note`: the start of the voice (a conditional expression that can raise),
                                      the pending tie, the loop over `enumerate(voice_notes)` (drums: `note.end = …` on the items, the
                                      next item read by index), `melody[-1].duration -= …`, `melody.pop()`, the three asserts
  Note.augment                        (Fraction instance) — what `_parse_note` calls twice
  Item.array, Item.frommatrix         the matrix form the voice separation uses (rows as tuples)

What is bound rather than translated (the trusted part, validated by the advisory `src:*` streams):
  * `chord.parse(p)` -> the model's `Chord.parse` (source image tied by SrcOps, `chord_parse_src`); `chord.duration`,
    `melody.duration` -> the model's `Chord.dur`, `melodyDuration` (source images tied by SrcDur under unique part names);
  * `x.limit_denominator(LIMIT_DENOM)` -> the model's `limitDenominator` (CPython's algorithm is modelled and tied by the `limden`
    stream of C14; `LIMIT_DENOM` by value); `note.copy()` inside `augment` -> `Note.copyLim` (the constructor re-limits the duration);
  * `Silence(d)` / `Continuation(d)` -> `mkSilence d` / `mkContinuation d`; `Melody(notes)` / `Score(chords)` -> the list;
    `note.to_melody()` -> `[note]`; `Item(name, …)` -> the model's record (name / value dropped);
  * `chord(**parts)` -> `Chord.withParts` (a copy of the chord with exactly these parts, every note copied; part names of the form
    name__idx and no drum parts at score level — the domain of C14); `chord.to_chord()` -> the chord without parts;
    `chord.set_duration(d)` -> `setDurationEmpty` (PRELUDE): the library's behaviour on a chord without parts, `Exception` otherwise —
    the tie theorem shows the other case is never reached here;
  * dicts are association lists in insertion order (`IntDict`, `Conts`, `Parts`, `Instr`) with the model's `intDictSet` / `dictSet` /
    `dictPop`; iterating a `set` of small non-negative ints is ascending (`sortedDedup`, assumption of C14);
  * `abs` on a Fraction, `all([...])`, `str(int)`, `zip`, `enumerate` (-> `PyI.enumerate`, MV/Model/PyImport.lean).
What the translation assumes about aliasing is printed in the generated file (`-- assumed …`): `_parse_voice` stores into `.end` of the
items it is given and into the duration of the pending tie it is given (entry keys `owned_items`, `owned`).
"""
import sys
sys.dont_write_bytecode = True
from fractions import Fraction

NAME = 'SrcImport'
IMPORTS = ['MV.Model.ImportItem', 'MV.Model.PyFrac', 'MV.Model.PyList', 'MV.Model.PyImport']
HELPERS = ['MV.Lemmas.TieSrcImportLemmas', 'MV.Model.PyImport', 'MV.Model.ImportItem']
TM = 'musiclang.analyze.to_musiclang:'
IT = 'musiclang.analyze.item:Item.'
COPY = {'Note': '(Note.copyLim {0})'}
ROW = 'Rat × Rat × Int × Int × Int × Int × Int'

ENTRIES = [
    dict(py='musiclang.write.note:Note.augment', name='Note.augment', lean='Note_augment',
         params=[('self', 'Note'), ('value', 'Rat')], ret='Note', attr=('Note', 'augment'), copy=COPY),
    dict(py=TM + '_parse_voice', name='_parse_voice', lean='parse_voice',
         params=[('voice_notes', 'List Item'), ('chord', 'Chord'), ('bar_time_start', 'Rat'), ('bar_time_end', 'Rat'),
                 ('tick_value', 'Rat'), ('cont', 'Option Note'), ('is_drum', 'Bool')],
         ret='Melody × Option Note', owned=['cont'], owned_items=['voice_notes'], join_ifs=True,
         nested={'_parse_note': dict(lean='parse_note', plain=True,
                                     params=[('note', 'Item'), ('duration', 'Rat'), ('chord', 'Chord'), ('tick_value', 'Rat')],
                                     ret='Note')}),
    dict(py=TM + 'infer_score_with_chords_durations', name='infer_score_with_chords_durations', lean='infer_score_with_chords_durations',
         params=[('sequence', 'List Item'), ('chords', 'List Chord'), ('instruments', 'Instr'), ('bars', 'List (Rat × Rat)')],
         ret='Score', join_ifs=True),
    dict(py=IT + 'array', name='Item.array', lean='Item_array', params=[('self', 'Item')], ret=ROW, list_rows=True,
         attr=('Item', 'array')),
    dict(py=IT + 'frommatrix', name='Item.frommatrix', lean='Item_frommatrix', params=[('matrix', 'List (' + ROW + ')')],
         ret='List Item', fixed={'cls': ('()', 'None')}),
]
PRELUDE = [
    '/-- the dictionaries of `infer_score_with_chords_durations`, as association lists in insertion order (as in `MV/Model/Import.lean`) -/',
    'abbrev IntDict := List (Int × Int)',
    'abbrev Conts := List (String × Note)',
    'abbrev Instr := List (Int × String)',
    '',
    '/-- `Chord.set_duration(d)` as this group needs it: on a chord WITHOUT parts it is `self(Silence(d))`, the single part',
    '`piano__0` holding the rest (copied by `to_melody`).  On a chord with parts the binding refuses (`Exception`): the tie theorem',
    'shows that branch is never reached from `infer_score_with_chords_durations`; the general method is tied by SrcDurOps (C10). -/',
    'def setDurationEmpty (c : Chord) (d : Rat) : Res Chord :=',
    '  if c.parts.isEmpty then pure (c.withParts [("piano__0", [mkSilence d])]) else throw Err.other',
    '',
]
TIE = dict(gen=['SrcImport'], modules=['MV.Props.TieSrcImport'], kernels=['naug', 'pvoice', 'iscore', 'iarray', 'imatrix'], driver='SrcImport')


def extend_spec(sp):
    for a, (f, t) in {'start': ('start', 'Rat'), 'end': ('stop', 'Rat'), 'vel': ('vel', 'Int'), 'pitch': ('pitch', 'Int'),
                      'track': ('track', 'Int'), 'channel': ('channel', 'Int'), 'voice': ('voice', 'Int')}.items():
        sp.attrs[('Item', a)] = ('{0}.' + f, t)
    sp.fields[('Item', 'end')] = ('stop', 'Rat')
    sp.ctors['Item'] = dict(ty='Item', order=['name', 'start', 'end', 'vel', 'pitch', 'track', 'channel', 'voice', 'value'],
                            fields=[('start', 'start', 'Rat', None), ('end', 'stop', 'Rat', None), ('vel', 'vel', 'Int', '(0 : Int)'),
                                    ('pitch', 'pitch', 'Int', '(0 : Int)'), ('track', 'track', 'Int', '(0 : Int)'),
                                    ('channel', 'channel', 'Int', '(0 : Int)'), ('voice', 'voice', 'Int', '(0 : Int)')],
                            drop=['name', 'value'])
    sp.fields[('Note', 'amp')] = ('amp', 'Rat')
    sp.fields[('Note', 'duration')] = ('dur', 'Rat')
    sp.methods[('Chord', 'parse')] = ('Chord.parse {0} {1}', 'Res Note')
    sp.methods[('Rat', 'limit_denominator')] = ('(limitDenominator {0} {1})', 'Rat')
    sp.globals['LIMIT_DENOM'] = ('Gen.LIMIT_DENOM', 'Nat')
    sp.fresh_methods.add(('Note', 'augment'))
    sp.ctors['Silence'] = dict(ty='Note', order=['duration'], fields=[('duration', 'dur', 'Rat', None)], drop=[],
                               wrap='(mkSilence {dur})')
    sp.ctors['Continuation'] = dict(ty='Note', order=['duration'], fields=[('duration', 'dur', 'Rat', None)], drop=[],
                                    wrap='(mkContinuation {dur})')
    sp.ctors['Melody'] = dict(ty='Melody', order=['notes'], fields=[('notes', 'notes', 'Melody', None)], drop=[], wrap='{notes}')
    sp.builtins['abs'] = {('Rat',): ('(if {0} < 0 then -{0} else {0})', 'Rat'), ('Int',): ('(Py.abs {0})', 'Int')}
    # --- infer_score_with_chords_durations
    sp.funs_by_attr.pop(('Melody', 'duration'), None)       # tied by SrcDur (melodyDuration_src, chordDuration_src): bound to the model here
    sp.funs_by_attr.pop(('Chord', 'duration'), None)
    sp.attrs[('Chord', 'duration')] = ('{0}.dur', 'Rat')
    sp.dict_types.update({
        'IntDict': dict(key='Int', val='Int', items='List (Int × Int)', set='(intDictSet {0} {1} {2})', get='lookupKey {1} {0}'),
        'Conts': dict(key='Str', val='Note', items='List (String × Note)', set='(dictSet {0} {1} {2})', pop='(dictPop {0} {1})'),
        'Parts': dict(key='Str', val='Melody', items='List (String × Melody)', set='(dictSet {0} {1} {2})'),
        'Instr': dict(key='Int', val='Str', items='List (Int × String)', set='(PyI.noStore {0} {1} {2})'),
    })
    sp.methods[('Instr', 'items')] = ('{0}', 'List (Int × String)')
    sp.methods[('Instr', 'get')] = ('(({0}.lookup {1}).getD {2})', 'Str')
    sp.methods[('IntDict', 'get')] = ('(({0}.lookup {1}).getD {2})', 'Int')
    sp.methods[('IntDict', 'keys')] = ('({0}.map (fun p => p.1))', 'List Int')
    sp.methods[('Str', 'startswith')] = ('({0}.startsWith {1})', 'Bool')
    sp.methods[('Note', 'to_melody')] = ('[{0}]', 'Melody')
    sp.methods[('Chord', 'to_chord')] = ('({{ {0} with parts := [] }} : Chord)', 'Chord')
    sp.methods[('Chord', 'set_duration')] = ('setDurationEmpty {0} {1}', 'Res Chord')
    sp.iters['Set Int'] = ('(sortedDedup {0})', 'List Int')
    sp.iters['Conts'] = ('({0}.map (fun p => p.1))', 'List Str')
    sp.binops[('Str', 'In', 'Parts')] = ('({1}.any (fun p => p.1 == {0}))', 'Bool')
    sp.tuple_fields[('Rat × Rat', 0)] = ('{0}.1', 'Rat')
    sp.tuple_fields[('Rat × Rat', 1)] = ('{0}.2', 'Rat')
    sp.call_objects['Chord'] = ('(Chord.withParts {0} {1})', 'Parts', 'Chord', [])
    sp.ctors['Score'] = dict(ty='Score', order=['chords'], fields=[('chords', 'chords', 'List Chord', None)], drop=[], wrap='{chords}')
    sp.builtins['list'] = {('Set Int',): ('(sortedDedup {0})', 'List Int'), ('List Str',): ('{0}', 'List Str')}
    sp.builtins['max'] = {('Set Int',): ('maxInts {0}', 'Res Int')}
    sp.builtins['str'] = {('Int',): ('(toString {0})', 'Str')}
    sp.builtins['zip'] = {('List Chord', 'List (Rat × Rat)'): ('(List.zip {0} {1})', 'List (Chord × (Rat × Rat))')}
    sp.builtins['len'] = {(t,): ('(Py.len {0})', 'Int') for t in ('List Item', 'List (Rat × Rat)', 'Parts', 'List Note', 'Melody')}
    sp.raising_ifexp = True
    sp.tuple_binder = 'row'        # the name this group's generated file was written with (merge of the py2lean forks)
    sp.builtins['enumerate'] = {('List Item',): ('(PyI.enumerate {0})', 'List (Int × Item)'),
                                ('List (Chord × (Rat × Rat))',): ('(PyI.enumerate {0})', 'List (Int × (Chord × (Rat × Rat)))')}
    sp.builtins['all'] = {('List Bool',): ('({0}.all (fun b => b))', 'Bool')}


# ----------------------------------------------------------------------------- kernel-level inputs

GRIDS = [1, 1, 2, 2, 3, 4, 4, 5, 7, 8]
BAR_LENS = [2, 3, 4, Fraction(3, 2), Fraction(5, 4)]
OFF_DENS = [1003, 2001, 7919]          # off the 1/1000 resolution of Note durations


def _amp(a):
    return Fraction(*a.as_integer_ratio()) if isinstance(a, float) else Fraction(a)


def _show_note(n):
    from core import frac_str
    return f'({n.type} {int(n.val)} {int(n.octave)} {frac_str(n.duration)} {frac_str(_amp(n.amp))})'


def _show_melody(m):
    return '(' + ' '.join(_show_note(x) for x in (m.notes if hasattr(m, 'notes') else m)) + ')'


def _show_score(score):
    out = []
    for c in score.chords:
        t = c.tonality
        head = f'({int(c.element)} {int(t.degree)} {t.mode} {int(t.octave)} {int(c.octave)})'
        out.append(f'({head} ' + ' '.join(f'({k} {_show_melody(m)})' for k, m in c.score.items()) + ')')
    return '(' + ' '.join(out) + ')'


def _show_item(it):
    from core import frac_str
    return (f'(i {frac_str(it.start)} {frac_str(it.end)} {int(it.vel)} {int(it.pitch)} {int(it.track)} {int(it.channel)} '
            f'{int(it.voice)})')


def _rand_frac(rng):
    k = rng.random()
    if k < 0.55:
        g = rng.choice(GRIDS)
        return Fraction(rng.randint(1, 6 * g), g), 'grid'
    if k < 0.7:
        return Fraction(rng.randint(1, 5000), rng.choice(OFF_DENS)), 'offgrid'
    if k < 0.8:
        return Fraction(rng.randint(1, 12)), 'int'
    if k < 0.88:
        return Fraction(0), 'zero'
    if k < 0.95:
        return -Fraction(rng.randint(1, 9), rng.choice([1, 2, 3, 7])), 'negative'
    return Fraction(rng.randint(10 ** 5, 10 ** 7), rng.randint(1, 10 ** 5)), 'large'


def _pvoice_case(rng):
    """one voice, one bar: a pending tie or not, a tick value, drums, gaps, overlaps, zero / negative lengths, notes crossing
    the bar line, an empty voice"""
    import gen
    from core import sx, SX, enc_chord, py_res, frac_str
    from props.C14 import rand_chord_tuple, mk_chord
    from musiclang.analyze.item import Item
    from musiclang.analyze.to_musiclang import _parse_voice
    from musiclang import Continuation
    F = Fraction
    g = rng.choice(GRIDS)
    bs = F(rng.randint(0, 8 * g), g) if rng.random() < 0.7 else F(0)
    L = F(rng.choice(BAR_LENS))
    be = bs + L
    k = rng.random()
    tick = rng.choice([F(1), F(1), F(1), F(1, 2), F(2), F(1, 4)])
    tk = 'tick=' + frac_str(tick)
    if k < 0.03:
        tick, tk = -tick, 'tick<0'
    ch = rand_chord_tuple(rng)
    c = mk_chord(ch)
    wild = rng.random() < 0.3
    notes, cont, t = [], None, bs
    if rng.random() < 0.35:
        cont = F(rng.randint(0 if wild else 1, 6 * g), g)
        if wild and rng.random() < 0.15:
            cont = F(rng.randint(1, 4000), rng.choice(OFF_DENS))
        t = bs + cont / tick
    elif k >= 0.03 and rng.random() < 0.03:
        tick, tk = F(0), 'tick=0'               # only without a pending tie: `cont.duration / tick_value` is the model's domain limit
    n = rng.randint(0 if (cont is not None or wild) else 1, 5)
    for _k in range(n):
        if rng.random() < 0.4:
            t += F(rng.randint(1, 2 * g), g)
        if t >= be and not wild:
            break
        d = F(rng.randint(0 if wild else 1, 4 * g), g)
        if wild and rng.random() < 0.1:
            d = -d
        if wild and rng.random() < 0.1:
            d = F(rng.randint(1, 3000), rng.choice(OFF_DENS))
        s0 = t - F(rng.randint(0, 2 * g), g) if wild and rng.random() < 0.4 else t
        notes.append((s0, s0 + d, rng.randint(-20, 140) if wild else rng.randint(30, 100), rng.randint(0, 127)))
        t = s0 + d
    drum = rng.random() < 0.15

    def call():
        its = [Item('n', a, b, vel=v, pitch=p_) for a, b, p_, v in notes]
        mel, ret = _parse_voice(its, c, bs, be, tick if tick.denominator != 1 else int(tick),
                                None if cont is None else Continuation(cont), is_drum=drum)
        return _show_melody(mel) + ' ' + ('-' if ret is None else _show_note(ret))
    its = [SX(sx('i', a, b, v, p_, 0, 0, 0)) for a, b, p_, v in notes]
    tail = [its, enc_chord(c, ext_text=ch[1]), bs, be, tick, cont if cont is not None else '-', drum]
    crosses = bool(notes) and notes[-1][1] > be
    buckets = ['wild' if wild else 'mono', 'cont' if cont is not None else 'nocont', 'drum' if drum else 'nodrum', tk,
               'crosses' if crosses else 'inside', f'notes={len(notes)}']
    return tail, py_res(call), {'pvoice': sx('pvoice', *tail)}, buckets


def _iscore_case(rng, i):
    """whole imports as C14 draws them (1-4 bars, 1-4 voices on 1-2 tracks, ties over bar lines, silent bars), its witnesses, its
    malformed family, and degenerate shapes (no notes, no bars, no instruments)"""
    from core import py_res, enc_chord
    from props import C14 as P
    k = rng.random()
    if i < len(P.WITNESSES):
        inp, kind = P.WITNESSES[i], 'witness'
    elif k < 0.72:
        inp, kind = P.gen_import(rng), 'valid'
    elif k < 0.92:
        inp = P.gen_malformed(rng)
        if inp.get('drum'):
            inp, kind = P.gen_import(rng), 'valid'       # drum parts are converted by Chord.__call__, outside the model (C14)
        else:
            kind = 'malformed=' + inp['malformed']
    else:
        inp = P.unjson(P.gen_import(rng, max_bars=3, max_voices=2))
        kind = rng.choice(['no-notes', 'no-bars', 'no-instruments', 'more-bars-than-chords', 'high-track'])
        if kind == 'no-notes':
            for v in inp['voices']:
                v['notes'] = []
        elif kind == 'no-bars':
            inp['lens'], inp['chords'] = [], []
        elif kind == 'no-instruments':
            inp['instruments'] = []
        elif kind == 'more-bars-than-chords':
            inp['chord_lens'] = list(inp['lens'])
            inp['lens'] = inp['lens'] + [2]
        elif kind == 'high-track':
            for v in inp['voices']:
                v['track'] = v['track'] + 2
        inp = P.jsonify(inp)
    items, chords, instruments, bars = P.build(inp)
    tail = [[P.enc_item(x) for x in items], [enc_chord(c) for c in chords], [[a, b] for a, b in instruments.items()],
            [[a, b] for a, b in bars]]
    ft = [f for f in P.features(inp) if not f.startswith('grid')] if inp['lens'] else ['bars=0']
    return tail, py_res(lambda: P.run_import(inp), _show_score), inp, [kind] + ft


def cases(rng, kernel, n):
    """list of (request tail, impl string, jsonable input, buckets)"""
    import gen
    from core import py_res, enc_note, frac_str, sx, SX
    from musiclang.analyze.item import Item
    out = []
    for i in range(n):
        if kernel == 'naug':
            nt = gen.rand_note(rng, kinds=gen.NONREL + gen.REL + ['d', 'r', 'l'], vals=(-9, 12), octs=(-3, 3),
                               dur=gen.rand_duration(rng), p_amp=0.3)
            kd = 'table'
            if rng.random() < 0.3:
                nt.duration, kd = _rand_frac(rng)        # set after the constructor: `copy()` has to re-limit it
            v, kv = _rand_frac(rng)
            out.append(([enc_note(nt), v], py_res(lambda: _show_note(nt.augment(v))), {'note': enc_note(nt).s, 'v': frac_str(v)},
                        [f'dur={kd}', f'value={kv}']))
        elif kernel == 'pvoice':
            out.append(_pvoice_case(rng))
        elif kernel == 'iscore':
            out.append(_iscore_case(rng, i))
        elif kernel in ('iarray', 'imatrix'):
            def row():
                a, _ = _rand_frac(rng)
                d, _ = _rand_frac(rng)
                return (a, a + d, rng.randint(0, 127), rng.randint(-5, 130), rng.randint(0, 5), rng.randint(0, 15), rng.randint(0, 6))
            if kernel == 'iarray':
                r = row()
                it = Item('n', r[0], r[1], vel=r[2], pitch=r[3], track=r[4], channel=r[5], voice=r[6])
                show = lambda a: '(' + ' '.join(frac_str(x) if isinstance(x, Fraction) else str(int(x)) for x in a) + ')'
                out.append(([SX(sx('i', *r))], py_res(lambda: show(it.array())), {'item': [str(x) for x in r]},
                            ['channel=voice' if r[5] == r[6] else 'channel!=voice']))
            else:
                rows = [row() for _ in range(rng.choice([0, 1, 1, 2, 3, 5]))]
                via = rng.random() < 0.5      # rows produced by `array()` itself (what the voice separation feeds back)
                if via:
                    rows = [tuple(Item('n', r[0], r[1], vel=r[2], pitch=r[3], track=r[4], channel=r[5], voice=r[6]).array()) for r in rows]
                out.append(([[list(r) for r in rows]],
                            py_res(lambda: '(' + ' '.join(_show_item(x) for x in Item.frommatrix(rows)) + ')'),
                            {'rows': [[str(x) for x in r] for r in rows]},
                            [f'rows={len(rows)}', 'via-array' if via else 'raw',
                             'channel!=voice' if any(r[5] != r[6] for r in rows) else 'channel=voice']))
        else:
            raise KeyError(kernel)
    return out
