"""Source-tie group `SrcOrn` (DESIGN.md §9.6), serving C16: the fifteen ornament builders of
`musiclang/write/ornementation.py` and `realize_tags` (the fixed order of the `if`s, the final assertion, tag clearing),
translated by py2lean and proved equal to the hand-written model `MV/Model/Ornament.lean` (`MV/Props/TieSrcOrn.lean`).

Typing of the translation.  `new_note` is what Python can hold there: `None`, a `Note` or a `Melody` = `Option Orn.NM`
over the model's note-or-melody type; the neighbours are optional notes.  What the builders do to these values
(`.duration`, `.set_duration`, `.n`, `+`, `None + x`, `.set_amp`, `.clear_note_tags`, `.amp`) is bound to the model
functions of `MV/Model/Ornament.lean` through `MV/Model/OrnPy.lean`, with the rounding `rd` instantiated by
`Orn.limitDen` (the model of `Fraction.limit_denominator(LIMIT_DENOM)`), as the property module C16 does.  The library
symbols `L.su1 / sd1 / hu1 / hd1 / l` are bound to the model constants (tied to `Gen.LIBRARY_NOTES` by
`C16.library_constants`).  A private type name (`OrnPy.PNote`, an abbreviation of `Note`) carries the bindings that
differ from the other groups' view of a note (here `copy` / `set_duration` round the duration).
"""
import sys
sys.dont_write_bytecode = True
from fractions import Fraction
from core import sx, py_res, enc_note, frac_str, SX

NAME = 'SrcOrn'
ORN = 'musiclang.write.ornementation:'
V, N, P, OP = 'Option Orn.NM', 'Orn.NM', 'OrnPy.PNote', 'Option OrnPy.PNote'
RD = 'Orn.limitDen'

BUILDERS = ['accent', 'mordant', 'inv_mordant', 'chroma_mordant', 'inv_chroma_mordant', 'grupetto', 'inv_grupetto',
            'chroma_grupetto', 'inv_chroma_grupetto', 'roll', 'roll_fast', 'suspension', 'suspension_prev_repeat',
            'retarded', 'interpolate']


def _builder(name, **kw):
    return dict(py=ORN + name, name=name, lean=name,
                params=[('new_note', V), ('last_note', OP), ('next_note', OP)], ret=V, **kw)


# `accent` stores into its argument (`new_note.amp = …`): admitted as a functional update because its only caller passes
# a fresh object and rebinds the name (`new_note = accent(new_note, …)` after `new_note = note.copy()`; py2lean checks this
# at the translated call site)
ENTRIES = [_builder(b, **({'owned': ['new_note']} if b == 'accent' else {})) for b in BUILDERS] + [
    dict(py=ORN + 'realize_tags', name='realize_tags', lean='realize_tags',
         params=[('note', P), ('last_note', OP), ('next_note', OP)], ret=N, join_ifs=True)]
IMPORTS = ['MV.Model.PyFrac', 'MV.Model.OrnPy']
PRELUDE = []
HELPERS = ['MV.Lemmas.TieSrcOrnLemmas']
# two kernels (every driver launch costs ~0.7 s): the fifteen builders share one, the builder is the first argument
KERNELS = ['orn_builder', 'orn_realize']
TIE = dict(gen=['SrcOrn', 'Tables'], modules=['MV.Props.TieSrcOrn'], kernels=KERNELS, driver='SrcOrn')


def extend_spec(sp):
    from py2lean import Untranslatable
    import musiclang.write.ornementation as O
    import musiclang.library as L
    from musiclang import Note
    if O.frac is not Fraction or O.L is not L:
        raise Untranslatable('ornementation.py: `frac` / `L` are no longer fractions.Fraction / musiclang.library')
    for nm in ('su1', 'sd1', 'hu1', 'hd1', 'l'):
        if not isinstance(getattr(L, nm), Note):
            raise Untranslatable(f'musiclang.library.{nm} is not a Note')
    sp.fraction_ctors.add('frac')
    sp.globals['L'] = ('()', 'OrnPy.Lib')
    for py, ln in (('su1', 'su1'), ('sd1', 'sd1'), ('hu1', 'hu1'), ('hd1', 'hd1'), ('l', 'lCont')):
        sp.attrs[('OrnPy.Lib', py)] = (f'Orn.{ln}', P)
    # --- a Note
    for py, (t, ty) in {'duration': ('{0}.dur', 'Rat'), 'val': ('{0}.val', 'Int'), 'octave': ('{0}.oct', 'Int'),
                        'type': ('{0}.kind', 'Kind'), 'amp': ('{0}.amp', 'Rat'), 'tags': ('{0}.tags', 'List Str'),
                        'is_note': ('{0}.kind.isNote', 'Bool')}.items():      # is_note: by value, Gen/KindPreds + TieKinds
        sp.attrs[(P, py)] = (t, ty)
    sp.methods[(P, 'set_duration')] = (f'(Orn.setDur {RD} {{0}} {{1}})', P)
    sp.methods[(P, 'copy')] = (f'(Orn.copy {RD} {{0}})', P)
    sp.methods[(OP, 'set_duration')] = (f'OrnPy.optSetDur {RD} {{0}} {{1}}', 'Res ' + P)
    sp.truthy[OP] = '{0}.isSome'            # None is falsy; a Note is truthy (`Note.__len__` returns 1)
    # --- None | Note | Melody
    sp.attrs[(V, 'duration')] = ('OrnPy.duration {0}', 'Res Rat')
    sp.attrs[(V, 'n')] = (f'OrnPy.zero {RD} {{0}}', 'Res ' + N)
    sp.attrs[(V, 'amp')] = ('OrnPy.amp {0}', 'Res Rat')
    sp.methods[(V, 'set_duration')] = (f'OrnPy.setDuration {RD} {{0}} {{1}}', 'Res ' + N)
    sp.methods[(V, 'set_amp')] = (f'OrnPy.setAmpV {RD} {{0}} {{1}}', 'Res ' + N)
    sp.methods[(V, 'clear_note_tags')] = (f'OrnPy.clearNoteTags {RD} {{0}}', 'Res ' + N)
    sp.store_templates[(V, 'amp')] = ('OrnPy.storeAmp {0} {1}', 'Rat', 'Res (' + V + ')')
    # --- Note | Melody (a value just built)
    sp.attrs[(N, 'duration')] = ('({0}.duration)', 'Rat')
    sp.attrs[(N, 'n')] = (f'(Orn.NM.n {RD} {{0}})', N)
    sp.methods[(N, 'set_duration')] = (f'Orn.NM.setDuration {RD} {{0}} {{1}}', 'Res ' + N)
    sp.methods[(N, 'set_amp')] = (f'OrnPy.setAmpV {RD} (some {{0}}) {{1}}', 'Res ' + N)
    sp.methods[(N, 'clear_note_tags')] = (f'(Orn.NM.clearNoteTags {RD} {{0}})', N)
    sp.coercions[(P, N)] = '(Orn.NM.note {0})'
    note = '(Orn.NM.note {})'
    for a, fa in ((N, '{0}'), (P, note.format('{0}'))):
        for b, fb in ((N, '{1}'), (P, note.format('{1}'))):
            sp.binops[(a, 'Add', b)] = (f'(Orn.NM.add {fa} {fb})', N)        # Note.__add__ / Melody.__add__
    for b, fb in ((N, '{1}'), (P, note.format('{1}'))):
        sp.binops[(V, 'Add', b)] = (f'(OrnPy.raddOpt {RD} {{0}} {fb})', N)   # None + x = x.__radd__(None): a copy
        sp.binops[('None', 'Add', b)] = (f'(OrnPy.raddOpt {RD} none {fb})', N)
    sp.sums[V] = {'Note': ('some (Orn.NM.note {0})', P)}


# ----------------------------------------------------------------------------- kernel-level inputs

TAGS = ['accent', 'mordant', 'inv_mordant', 'chroma_mordant', 'inv_chroma_mordant', 'grupetto', 'inv_grupetto',
        'chroma_grupetto', 'inv_chroma_grupetto', 'roll', 'roll_fast', 'suspension_prev', 'suspension_prev_repeat',
        'retarded', 'interpolate']
SOUNDING = ['s', 'h', 'c', 'b', 'a', 'su', 'sd', 'hu', 'hd', 'cu', 'bd']
_TD = []


def _table():
    if not _TD:
        from musiclang.write.constants import STR_TO_DURATION
        _TD.extend(sorted(set(Fraction(v) for v in STR_TO_DURATION.values())))
    return _TD


def _dur(rng):
    x = rng.random()
    if x < 0.5:
        return rng.choice(_table())
    if x < 0.62:       # the thresholds of the builders and their neighbours
        return rng.choice([Fraction(1, 2), Fraction(3, 2), Fraction(1, 4), Fraction(1, 6), Fraction(1, 12), Fraction(1, 3),
                           Fraction(499, 1000), Fraction(3, 4), Fraction(5, 12), Fraction(1, 13), Fraction(2)])
    if x < 0.82:
        return Fraction(rng.randint(0, 24), rng.choice([1, 2, 3, 4, 5, 6, 7, 8, 9, 10, 12, 16]))
    if x < 0.92:       # denominators near / beyond LIMIT_DENOM: the rounding matters
        den = rng.choice([999, 997, 1000, 991, 500, 750, 333, 667, 840, 720, 96, 768, 1001, 1998, 2003, 4001])
        return Fraction(rng.randint(1, 3 * den), den)
    if x < 0.96:
        return Fraction(0)
    return -Fraction(rng.randint(1, 8), rng.choice([1, 2, 3, 4]))


def _amp(rng):
    x = rng.random()
    if x < 0.5:
        return 66
    if x < 0.9:
        return rng.choice([0, 1, 30, 100, 109, 110, 111, 119, 120, 121, 127, rng.randint(0, 127)])
    return rng.choice([70.5, 109.5, 110.5, 20.25])       # floats that are exact in binary


def note_spec(rng, dur=None, tags=(), kinds=None):
    x = rng.random()
    d = _dur(rng) if dur is None else dur
    if kinds is None and x < 0.08:
        return {'kind': 'r', 'val': 0, 'oct': 0, 'dur': frac_str(d), 'amp': 66, 'tags': sorted(tags)}
    if kinds is None and x < 0.14:
        return {'kind': 'l', 'val': 0, 'oct': 0, 'dur': frac_str(d), 'amp': 66, 'tags': sorted(tags)}
    if kinds is None and x < 0.18:
        return {'kind': rng.choice(['d', 'x']), 'val': rng.randint(0, 11), 'oct': 0, 'dur': frac_str(d), 'amp': _amp(rng),
                'tags': sorted(tags)}
    k = rng.choice(kinds or (['s', 's', 's', 'h', 'h'] + SOUNDING))
    return {'kind': k, 'val': rng.randint(-14, 16), 'oct': rng.randint(-2, 2), 'dur': frac_str(d), 'amp': _amp(rng),
            'tags': sorted(tags)}


def mk_note(sp):
    """the library object; the duration is stored as given (a Note can hold any Fraction)"""
    if sp is None:
        return None
    from musiclang import Note, Silence, Continuation
    tags = set(sp.get('tags', ()))
    if sp['kind'] == 'r':
        n = Silence(1, tags=tags)
    elif sp['kind'] == 'l':
        n = Continuation(1, tags=tags)
    else:
        n = Note(sp['kind'], sp['val'], sp['oct'], 1, tags=tags)
        n.amp = sp.get('amp', 66)
    n.duration = Fraction(sp['dur'])
    return n


def mk_val(sp):
    """None | Note | Melody"""
    from musiclang import Melody
    if sp is None:
        return None
    if isinstance(sp, list):
        return Melody([mk_note(s) for s in sp])
    return mk_note(sp)


def enc_val(v):
    from musiclang import Melody
    if v is None:
        return '-'
    if isinstance(v, Melody):
        return SX(sx('m', [enc_note(n) for n in v.notes]))
    return enc_note(v)


def show_note(n):
    """every field of the note (tags sorted).  `copy()` of a Silence / Continuation resets the amplitude, which the
    model does not follow (MV/Model/Ornament.lean, "not modelled"): for rests and continuations the amplitude is not
    an observable of these streams, both sides print the default."""
    if n.type in ('r', 'l') and n.amp != 66:
        old, n.amp = n.amp, 66          # (not a copy: copying rounds the duration)
        try:
            return enc_note(n).s
        finally:
            n.amp = old
    return enc_note(n).s


def show_val(v):
    """canonical form of a result"""
    from musiclang import Melody
    if v is None:
        return 'None'
    if isinstance(v, Melody):
        return 'M (' + ' '.join(show_note(n) for n in v.notes) + ')'
    return 'N ' + show_note(v)


def val_spec(rng, kernel):
    """(spec, class) of `new_note`"""
    x = rng.random()
    if x < 0.04:
        return None, 'none'
    if x < 0.70:
        return note_spec(rng), 'note'
    if x < 0.74:
        return [], 'melody0'
    if x < 0.80:       # a melody of total duration 0 (`x.n`): Melody.set_duration divides by it
        return [note_spec(rng, dur=Fraction(0)) for _ in range(rng.randint(1, 3))], 'melody-zero'
    k = rng.randint(1, 4)
    return [note_spec(rng) for _ in range(k)], f'melody{min(k, 3)}'


def ctx_spec(rng, base=None):
    x = rng.random()
    if x < 0.25:
        return None
    if base is not None and not isinstance(base, list) and x < 0.75:
        # a neighbour at a controlled scale distance (interpolate): up / down / same / far
        dv = rng.choice([0, 0, 1, -1, 2, -2, 3, -3, 5, -7, 9, -12, 15])
        k = rng.choice(['s', 's', 's', 'h', base['kind'] if base['kind'] not in ('r', 'l', 'd', 'x') else 's'])
        return {'kind': k, 'val': base['val'] + dv, 'oct': base['oct'] + rng.choice([0, 0, 0, 1, -1]), 'dur': '1', 'amp': 66,
                'tags': []}
    return note_spec(rng, dur=rng.choice([Fraction(1), Fraction(1, 2), Fraction(3, 2), Fraction(1, 3)]))


def dur_class(d):
    d = Fraction(d)
    if d < 0:
        return 'neg'
    if d == 0:
        return 'zero'
    if d.denominator > 1000:
        return 'den>1000'
    if d in _table():
        return 'table'
    return 'bigden' if d.denominator > 83 else 'rational'


def total(sp):
    return sum((Fraction(s['dur']) for s in sp), Fraction(0)) if isinstance(sp, list) else Fraction(sp['dur'])


def ctx_class(sp):
    if sp is None:
        return 'none'
    return {'r': 'rest', 'l': 'cont', 'd': 'drum', 'x': 'x'}.get(sp['kind'], 'note')


def rand_tags(rng):
    x = rng.random()
    if x < 0.08:
        t = []
    elif x < 0.45:
        t = [rng.choice(TAGS)]
    elif x < 0.72:
        t = rng.sample(TAGS, 2)
    elif x < 0.88:
        t = rng.sample(TAGS, 3)
    else:
        t = rng.sample(TAGS, rng.randint(4, 6))
    if rng.random() < 0.06:
        t.append(rng.choice(['staccato', 'legato', 'foo']))      # tags the realiser does not know
    return t


def cases(rng, kernel, n):
    """list of (request tail, impl string, jsonable input, buckets)"""
    import musiclang.write.ornementation as O
    out = []
    if kernel == 'orn_realize':
        for i in range(4 * n):
            tags = rand_tags(rng)
            d = _dur(rng)
            if len(tags) > 3 and d > 2:          # the figure grows geometrically with the number of tags
                d = d / 4
            base = note_spec(rng, dur=d, tags=tags)
            last, nxt = ctx_spec(rng), ctx_spec(rng, base)
            nb, lb, xb = mk_note(base), mk_note(last), mk_note(nxt)
            known = [t for t in tags if t in TAGS]
            out.append(([enc_note(nb), enc_val(lb), enc_val(xb)],
                        py_res(lambda: O.realize_tags(mk_note(base), mk_note(last), mk_note(nxt)), show_val),
                        {'note': base, 'last': last, 'next': nxt},
                        [f'ntags={min(len(known), 4)}', f'dur={dur_class(d)}', f'last={ctx_class(last)}', f'next={ctx_class(nxt)}',
                         f'kind={base["kind"]}'] + [f'tag={t}' for t in known]))
        return out
    # kernel `orn_builder`: n inputs for EACH of the fifteen builders
    for name in BUILDERS:
        fn = getattr(O, name)
        for i in range(n):
            v, vc = val_spec(rng, name)
            last = ctx_spec(rng)
            nxt = ctx_spec(rng, v if name == 'interpolate' and rng.random() < 0.8 else None)
            b = [f'fn={name}', f'new={vc}', f'last={ctx_class(last)}', f'next={ctx_class(nxt)}']
            if v is not None:
                b.append(f'dur={dur_class(total(v))}')
            # fresh objects for the call: `accent` stores into its argument
            out.append(([name, enc_val(mk_val(v)), enc_val(mk_note(last)), enc_val(mk_note(nxt))],
                        py_res(lambda: fn(mk_val(v), mk_note(last), mk_note(nxt)), show_val),
                        {'fn': name, 'new_note': v, 'last': last, 'next': nxt}, b))
    return out
